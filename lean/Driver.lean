import N0Verif.Proto
import N0Verif.Model.Csv
open N0 N0.Proto

def decStrs (toks : List String) : Option (List Str) := toks.mapM decStr

def char1 (tok : String) : Option Char := do
  let s ← decStr tok
  match s with
  | [c] => some c
  | _ => none

def handle (toks : List String) : String :=
  match toks with
  | ["csv.parse", d, line] =>
    match char1 d, decStr line with
    | some d, some line =>
      match Csv.parse d line with
      | .ok fs => "ok " ++ encStrs fs
      | .error e => showErr e
    | _, _ => "bad-op"
  | "csv.gen" :: d :: eol :: fs =>
    match char1 d, decStr eol, decStrs fs with
    | some d, some eol, some fs => "ok " ++ encStr (Csv.gen d fs eol)
    | _, _, _ => "bad-op"
  | "csv.writer" :: d :: term :: fs =>
    match char1 d, decStr term, decStrs fs with
    | some d, some term, some fs => "ok " ++ encStr (Csv.writerLine d term fs)
    | _, _, _ => "bad-op"
  | _ => "bad-op"

partial def loop (h : IO.FS.Stream) (out : IO.FS.Stream) : IO Unit := do
  let line ← h.getLine
  if line.isEmpty then return ()
  let toks := (line.toList.filter (fun c => c ≠ '\n' && c ≠ '\r'))
  let toks := (Py.splitChar ' ' toks).filter (fun t => !t.isEmpty) |>.map String.ofList
  out.putStrLn (handle toks)
  loop h out

def main : IO Unit := do
  let i ← IO.getStdin
  let o ← IO.getStdout
  loop i o
  o.flush
