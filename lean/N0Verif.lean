import N0Verif.Py.Basic
import N0Verif.Proto
import N0Verif.Model.Csv
import N0Verif.Proofs.Csv
import N0Verif.Props.C13
