import N0Verif.Py.Basic
/-! Line protocol helpers: strings travel as dot-separated hex code points,
the empty string as `_`. -/
namespace N0.Proto
open N0

def hexDigit (n : Nat) : Char :=
  if n < 10 then Char.ofNat (48 + n) else Char.ofNat (87 + n)

def toHexAux : Nat → Nat → List Char → List Char
  | 0, _, acc => acc
  | f + 1, n, acc =>
    let acc := hexDigit (n % 16) :: acc
    if n / 16 = 0 then acc else toHexAux f (n / 16) acc

def toHex (n : Nat) : List Char := toHexAux 16 n []

def encStr (s : Str) : String :=
  if s.isEmpty then "_" else
  String.ofList (Py.join ['.'] (s.map (fun c => toHex c.toNat)))

def hexVal (c : Char) : Option Nat :=
  if '0' ≤ c ∧ c ≤ '9' then some (c.toNat - 48)
  else if 'a' ≤ c ∧ c ≤ 'f' then some (c.toNat - 87)
  else none

def parseHex (s : List Char) : Option Nat :=
  if s.isEmpty then none else
  s.foldl (fun acc c => do let a ← acc; let v ← hexVal c; pure (a * 16 + v)) (some 0)

def decStr (tok : String) : Option Str :=
  if tok = "_" then some [] else
  (Py.splitChar '.' tok.toList).mapM (fun h => (parseHex h).map Char.ofNat)

def encStrs (xs : List Str) : String :=
  toString xs.length ++ xs.foldl (fun acc s => acc ++ " " ++ encStr s) ""

def showErr (e : PyErr) : String := "err " ++ e.name

def decStrs (toks : List String) : Option (List Str) := toks.mapM decStr

/-- a token that must decode to exactly one character -/
def char1 (tok : String) : Option Char := do
  let s ← decStr tok
  match s with
  | [c] => some c
  | _ => none

def parseNat (tok : String) : Option Nat :=
  let s := tok.toList
  if s.all Py.isAsciiDigit && !s.isEmpty then some (Py.natOfDigits s) else none

def showBool (b : Bool) : String := if b then "T" else "F"

def parseBool (tok : String) : Option Bool :=
  if tok = "T" then some true else if tok = "F" then some false else none

end N0.Proto
