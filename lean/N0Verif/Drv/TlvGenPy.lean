import N0Verif.Proto
import N0Verif.Gen.TlvGenPy
/-! driver operation of the definitions generated from the Python source of `generate_tlv` (`Gen/TlvGenPy.lean`):
`tlvgenpy.gen <tl> <ll> <tag_padding> <len_padding> (<tag> <value>)*` answers `ok <text>` / `err <Class>`.  The paddings
are whole strings here (the translated code takes them as `str`; not one character: `TypeError` of `ljust`/`rjust`).
The harness regenerates that file on every run of `./check C16`. -/
namespace N0.Drv.TlvGenPy
open N0 N0.Proto

def pairs : List Str → Option (List (Str × Str))
  | [] => some []
  | [_] => none
  | k :: v :: rest => (pairs rest).map (fun r => (k, v) :: r)

def handle (toks : List String) : Option String :=
  match toks with
  | "tlvgenpy.gen" :: tl :: ll :: tp :: lp :: kvs =>
    match parseNat tl, parseNat ll, decStr tp, decStr lp, decStrs kvs with
    | some tl, some ll, some tp, some lp, some kvs =>
      match pairs kvs with
      | some d =>
        -- the probe of `len_padding` hands the padding to `int()`: outside the scope of its model (a Unicode decimal zero …)
        if !N0.Tlv.intInScope lp then some "unsupported" else
        match N0.Gen.TlvGenPy.generateTlv d (Int.ofNat tl) (Int.ofNat ll) tp lp with
        | .ok s => some ("ok " ++ encStr s)
        | .error e => some ("err " ++ e.name)
      | none => some "bad-op"
    | _, _, _, _, _ => some "bad-op"
  | _ => none

end N0.Drv.TlvGenPy
