import N0Verif.Proto
import N0Verif.Model.CsvFile
/-! driver operations of the CSV file model:
`csvfile.load`, `csvfile.textlines`, `csvfile.binlines`, `csvfile.save` -/
namespace N0.Drv.CsvFile
open N0 N0.Proto N0.CsvFile

/-- `<n> s1 … sn rest` -/
def takeStrs (toks : List String) : Option (List Str × List String) :=
  match toks with
  | [] => none
  | n :: rest =>
    match parseNat n with
    | none => none
    | some k =>
      if rest.length < k then none
      else match decStrs (rest.take k) with
        | some ss => some (ss, rest.drop k)
        | none => none

def parseCN (toks : List String) : Option (CNArg × List String) :=
  match toks with
  | "N" :: r => some (.none, r)
  | "O" :: r => some (.other, r)
  | "L" :: r => (takeStrs r).map (fun (l, r') => (.list l, r'))
  | _ => none

def parseCH (toks : List String) : Option (CHArg × List String) :=
  match toks with
  | "N" :: r => some (.none, r)
  | "O" :: r => some (.other, r)
  | "T" :: r => some (.bool true, r)
  | "F" :: r => some (.bool false, r)
  | "S" :: s :: r => (decStr s).map (fun s => (.str s, r))
  | "L" :: r => (takeStrs r).map (fun (l, r') => (.list l, r'))
  | _ => none

def parseMand (tok : String) : Option MandArg :=
  if tok = "N" then some .none else if tok = "O" then some .other
  else if tok = "T" then some (.bool true) else if tok = "F" then some (.bool false) else none

def encKey : Key → String
  | .name s => "n" ++ encStr s
  | .pos n => "p" ++ toString n

def encCell : Option Str → String
  | none => "N"
  | some s => "s" ++ encStr s

def encItem (it : Item) : String :=
  "R" ++ toString it.row.length
    ++ it.row.foldl (fun acc kv => acc ++ " " ++ encKey kv.1 ++ " " ++ encCell kv.2) ""
    ++ " " ++ (match it.line with | none => "-" | some l => "l" ++ encStr l)

def encItems (xs : List Item) : String :=
  xs.foldl (fun acc it => acc ++ " " ++ encItem it) (toString xs.length)

/-- `<nrows> (<n> c1 … cn)*` -/
def takeRows : Nat → List String → Option (List (List Str) × List String)
  | 0, r => some ([], r)
  | k + 1, r =>
    match takeStrs r with
    | none => none
    | some (row, r') =>
      match takeRows k r' with
      | none => none
      | some (rows, r'') => some (row :: rows, r'')

def handle (toks : List String) : Option String :=
  match toks with
  | "csvfile.load" :: bin :: d :: rest =>
    match parseBool bin, char1 d, parseCN rest with
    | some bin, some d, some (cn, r1) =>
      match parseCH r1 with
      | some (ch, [mand, se, sl, sf, rl, ru, re, file]) =>
        match parseMand mand, parseBool se, parseBool sl, parseBool sf, parseBool rl, parseBool ru,
              parseBool re, decStr file with
        | some mand, some se, some sl, some sf, some rl, some ru, some re, some file =>
          let o : Opts := { columnNames := cn, containsHeader := ch, mandatory := mand, delim := d,
                            skipEmpty := se, stripLine := sl, stripField := sf, returnLine := rl,
                            returnUnknown := ru, raiseExc := re, binary := bin }
          if !inScope o then some "unsupported"
          else match loadCsv o file with
            | .ok items => some ("ok " ++ encItems items)
            | .error e => some (showErr e)
        | _, _, _, _, _, _, _, _ => some "bad-op"
      | _ => some "bad-op"
    | _, _, _ => some "bad-op"
  | ["csvfile.textlines", file] =>
    match decStr file with
    | some f => some ("ok " ++ encStrs (textLines (decodeSig f)))
    | none => some "bad-op"
  | ["csvfile.binlines", file] =>
    match decStr file with
    | some f => some ("ok " ++ encStrs (binLines f))
    | none => some "bad-op"
  | "csvfile.save" :: d :: eol :: rest =>
    match char1 d, decStr eol with
    | some d, some eol =>
      let hdr : Option (Option (List Str) × List String) :=
        match rest with
        | "N" :: r => some (none, r)
        | "L" :: r => (takeStrs r).map (fun (l, r') => (some l, r'))
        | _ => none
      match hdr with
      | some (h, n :: r) =>
        match parseNat n with
        | some k =>
          match takeRows k r with
          | some (rows, []) => some ("ok " ++ encStr (saveCsv d eol h rows))
          | _ => some "bad-op"
        | none => some "bad-op"
      | _ => some "bad-op"
    | _, _ => some "bad-op"
  | _ => none

end N0.Drv.CsvFile
