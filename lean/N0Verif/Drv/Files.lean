import N0Verif.Proto
import N0Verif.Model.Files
/-!
driver operations of the file model

* `files.enc <codec> <str>` / `files.dec <codec> <bytes>` — the four concrete codecs;
* `files.lineok <eol bytes> <line bytes>` — the side condition `lineOk` of the binary `load_lines` theorems
  (Python: `(line + eol).find(eol) == len(line)`), answer `ok 1` / `ok 0`;
* `files.split <eol bytes> <data>` — `data.split(eol)` without the empty last piece (what binary `load_lines`
  yields), answer `ok <k> <piece>×k`;
* `files.hist <init> <op>…` — a history of operations on one path of an otherwise empty file
  system.  `<init>` is `-` (no file) or the initial bytes.  Operations:
    `S <codec> <mode> <eol> <tag> <payload>`  save_file   (payload: `s <str>`, `b <bytes>`, `o <str>`,
                                              `l <n> (s|b|o <hex>)×n`, `d <n> (<key> <value>)×n`)
    `F <codec> <read_mode> <eol>`             load_file
    `N <codec> <read_mode> <eol>`             list(load_lines(...))
  Answer: `ok` followed by, per operation, `S:ok D:<bytes>` / `S:err.<Class> D:<bytes or ->`,
  `F:S<str>` / `F:B<bytes>` / `F:err.<Class>`, `N:<k> (S<str>|B<bytes>)×k` / `N:err.<Class>`;
  `unsupported` as soon as one operation leaves the model's scope.
-/
namespace N0.Drv.Files
open N0 N0.Proto N0.Files

def codecOf (tok : String) : Option Codec :=
  if tok = "u8" then some utf8 else if tok = "u8s" then some utf8sig
  else if tok = "l1" then some latin1 else if tok = "cp" then some cp1252 else none

inductive Op
  | save (c : Codec) (mode eol tag : Str) (p : Payload)
  | loadF (c : Codec) (rm eol : Str)
  | loadN (c : Codec) (rm eol : Str)

def parseLinesP : Nat → List String → Option (List Line × List String)
  | 0, rest => some ([], rest)
  | n + 1, k :: v :: rest => do
    let s ← decStr v
    let l ← (if k = "s" then some (Line.str s) else if k = "b" then some (Line.bytes s)
             else if k = "o" then some (Line.other s) else none)
    let (ls, rest') ← parseLinesP n rest
    pure (l :: ls, rest')
  | _, _ => none

def parseKvs : Nat → List String → Option (List (Str × Str) × List String)
  | 0, rest => some ([], rest)
  | n + 1, k :: v :: rest => do
    let k ← decStr k
    let v ← decStr v
    let (kvs, rest') ← parseKvs n rest
    pure ((k, v) :: kvs, rest')
  | _, _ => none

def parsePayload : List String → Option (Payload × List String)
  | "s" :: x :: rest => do let s ← decStr x; pure (.str s, rest)
  | "b" :: x :: rest => do let s ← decStr x; pure (.bytes s, rest)
  | "o" :: x :: rest => do let s ← decStr x; pure (.other s, rest)
  | "l" :: n :: rest => do
    let n ← parseNat n
    let (ls, rest') ← parseLinesP n rest
    pure (.lines ls, rest')
  | "d" :: n :: rest => do
    let n ← parseNat n
    let (kvs, rest') ← parseKvs n rest
    pure (.dict kvs, rest')
  | _ => none

def parseOps : Nat → List String → Option (List Op)
  | _, [] => some []
  | 0, _ => none
  | f + 1, "S" :: c :: m :: e :: t :: rest => do
    let c ← codecOf c
    let m ← decStr m
    let e ← decStr e
    let t ← decStr t
    let (p, rest') ← parsePayload rest
    let ops ← parseOps f rest'
    pure (.save c m e t p :: ops)
  | f + 1, "F" :: c :: m :: e :: rest => do
    let c ← codecOf c
    let m ← decStr m
    let e ← decStr e
    let ops ← parseOps f rest
    pure (.loadF c m e :: ops)
  | f + 1, "N" :: c :: m :: e :: rest => do
    let c ← codecOf c
    let m ← decStr m
    let e ← decStr e
    let ops ← parseOps f rest
    pure (.loadN c m e :: ops)
  | _, _ => none

def thePath : Str := ['f']

def showDisk (fs : FS) : String :=
  match fs thePath with
  | some b => "D:" ++ encStr b
  | none => "D:-"

def showLoaded : Loaded → String
  | .str s => "S" ++ encStr s
  | .bytes b => "B" ++ encStr b

/-- `none` = unsupported -/
def runOps : FS → List Op → Option String
  | _, [] => some ""
  | fs, .save c m e t p :: ops =>
    match saveFile c fs thePath p m e t with
    | (_, .error .Unsupported) => none
    | (fs', .ok ()) => (runOps fs' ops).map (fun r => " S:ok " ++ showDisk fs' ++ r)
    | (fs', .error err) => (runOps fs' ops).map (fun r => " S:err." ++ err.name ++ " " ++ showDisk fs' ++ r)
  | fs, .loadF c m e :: ops =>
    match loadFile c fs thePath m e with
    | .error .Unsupported => none
    | .ok v => (runOps fs ops).map (fun r => " F:" ++ showLoaded v ++ r)
    | .error err => (runOps fs ops).map (fun r => " F:err." ++ err.name ++ r)
  | fs, .loadN c m e :: ops =>
    match loadLines c fs thePath m e with
    | .error .Unsupported => none
    | .ok vs => (runOps fs ops).map (fun r =>
        " N:" ++ toString vs.length ++ vs.foldl (fun acc v => acc ++ " " ++ showLoaded v) "" ++ r)
    | .error err => (runOps fs ops).map (fun r => " N:err." ++ err.name ++ r)

def handle (toks : List String) : Option String :=
  match toks with
  | ["files.enc", c, s] =>
    match codecOf c, decStr s with
    | some c, some s =>
      match c.encode s with
      | some b => some ("ok " ++ encStr b)
      | none => some "err ValueError"
    | _, _ => some "bad-op"
  | ["files.dec", c, s] =>
    match codecOf c, decStr s with
    | some c, some s =>
      match c.decode s with
      | some b => some ("ok " ++ encStr b)
      | none => some "err ValueError"
    | _, _ => some "bad-op"
  | ["files.lineok", e, l] =>
    match decStr e, decStr l with
    | some e, some l => some (if lineOk e l then "ok 1" else "ok 0")
    | _, _ => some "bad-op"
  | ["files.split", e, d] =>
    match decStr e, decStr d with
    | some e, some d =>
      if e.isEmpty then some "err ValueError"
      else
        let ps := dropLastEmpty (Py.split e d)
        some ("ok " ++ toString ps.length ++ ps.foldl (fun acc v => acc ++ " " ++ encStr v) "")
    | _, _ => some "bad-op"
  | "files.hist" :: init :: rest =>
    let fs0 : Option FS :=
      if init = "-" then some (fun _ => none)
      else (decStr init).map (fun b => FS.write (fun _ => none) thePath b)
    match fs0, parseOps (rest.length + 1) rest with
    | some fs, some ops =>
      match runOps fs ops with
      | some r => some ("ok" ++ r)
      | none => some "unsupported"
    | _, _ => some "bad-op"
  | _ => none

end N0.Drv.Files
