import N0Verif.Proto
import N0Verif.Gen.XPathPrim
import N0Verif.Drv.XPath
/-! driver operations of the definitions generated from the Python source of `n0eval` and `split_name_index`
(`Gen/XPathPrim.lean`): `xpprim.eval <s>` and `xpprim.split <s>` answer in the format of `xp.eval` / `xp.split`
(`ok I<int>` / `ok S<text>`; `ok <name> N | S<text> | C <key> <op> S<text>|T|F`; `err <Class>`; `unsupported` outside the
modelled scope: float texts, non-ASCII digits, '%' in a quoted value). -/
namespace N0.Drv.XPathPrim
open N0 N0.Proto N0.XPath

def handle (toks : List String) : Option String :=
  match toks with
  | ["xpprim.split", t] =>
    match decStr t with
    | some t => some (N0.Drv.XPath.showPy (fun (n, i) => encStr n ++ " " ++ N0.Drv.XPath.showIdx i) (N0.Gen.XPathPrim.splitNameIndex t))
    | none => some "bad-op"
  | ["xpprim.eval", t] =>
    match decStr t with
    | some t => some (N0.Drv.XPath.showPy (fun r => match r with | .int i => "I" ++ toString i | .str s => "S" ++ encStr s) (N0.Gen.XPathPrim.n0eval t))
    | none => some "bad-op"
  | _ => none

end N0.Drv.XPathPrim
