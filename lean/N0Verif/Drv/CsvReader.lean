import N0Verif.Proto
import N0Verif.Model.CsvReader
import N0Verif.Drv.CsvFile
/-! driver operations of the models of `csv.reader`, `load_native_csv`, `load_simple_csv`:
`csvr.reader`, `csvr.nllines`, `csvr.native`, `csvr.simple` -/
namespace N0.Drv.CsvReader
open N0 N0.Proto N0.CsvFile N0.CsvReader N0.Drv.CsvFile

def encRecs (rs : List (List Str)) : String :=
  rs.foldl (fun acc r => acc ++ " " ++ encStrs r) (toString rs.length)

def encNRec (r : NRec) : String :=
  "R" ++ toString r.row.length
    ++ r.row.foldl (fun acc kv => acc ++ " " ++ encKey kv.1 ++ " " ++ encCell kv.2) ""
    ++ " " ++ (match r.rest with | none => "-" | some l => "r" ++ encStrs l)

def encNRecs (xs : List NRec) : String :=
  xs.foldl (fun acc r => acc ++ " " ++ encNRec r) (toString xs.length)

def handle (toks : List String) : Option String :=
  match toks with
  | "csvr.reader" :: d :: lines =>
    -- the records yielded before the reader stops, and what stops it
    match char1 d, takeStrs lines with
    | some d, some (ls, []) =>
      match readerAux d RSt.init ls with
      | (rs, none) => some ("ok " ++ encRecs rs)
      | (rs, some e) => some ("err " ++ e.name ++ " " ++ encRecs rs)
    | _, _ => some "bad-op"
  | ["csvr.nllines", file] =>
    match decStr file with
    | some f => some ("ok " ++ encStrs (nlLines (decodeSig f)))
    | none => some "bad-op"
  | "csvr.native" :: d :: rest =>
    match char1 d, parseCN rest with
    | some d, some (cn, [ch, re, file]) =>
      match parseBool ch, parseBool re, decStr file with
      | some ch, some re, some file =>
        match nativeCsv { columnNames := cn, delim := d, containsHeader := ch, raiseExc := re } file with
        | .ok rs => some ("ok " ++ encNRecs rs)
        | .error e => some ("err " ++ e.name)
      | _, _, _ => some "bad-op"
    | _, _ => some "bad-op"
  | "csvr.simple" :: bin :: d :: rest =>
    match parseBool bin, char1 d, parseCN rest with
    | some bin, some d, some (cn, r1) =>
      match parseCH r1 with
      | some (ch, [mand, se, sl, sf, rl, re, file]) =>
        match parseMand mand, parseBool se, parseBool sl, parseBool sf, parseBool rl,
              parseBool re, decStr file with
        | some mand, some se, some sl, some sf, some rl, some re, some file =>
          let o : Opts := { columnNames := cn, containsHeader := ch, mandatory := mand, delim := d,
                            skipEmpty := se, stripLine := sl, stripField := sf, returnLine := rl,
                            returnUnknown := false, raiseExc := re, binary := bin }
          if !inScope o then some "unsupported"
          else match loadSimple o file with
            | .ok items => some ("ok " ++ encItems items)
            | .error e => some (showErr e)
        | _, _, _, _, _, _, _ => some "bad-op"
      | _ => some "bad-op"
    | _, _, _ => some "bad-op"
  | _ => none

end N0.Drv.CsvReader
