import N0Verif.Proto
import N0Verif.Val
import N0Verif.Model.FindAll
/-! driver operations of the `findall` model: `fa.tok`, `fa.find`, `fa.findm`, `fa.raw`, `fa.first`, `fa.hist` -/
namespace N0.Drv.FindAll
open N0 N0.Proto N0.FindAll

def fuel : Nat := 4000

def showPairs (ps : List (Str × Val)) : String :=
  toString ps.length ++ ps.foldl (fun acc (p, v) => acc ++ " " ++ encStr p ++ " " ++ showVal v) ""

def showState (st : Defaults) : String := encStrs st.1 ++ " | " ++ showPairs st.2

/-- `none` = the model declares the case out of scope -/
def showRes : PyM (Option Found) → Option String
  | .error .Unsupported => none
  | .error e => some (showErr e)
  | .ok Option.none => some "ok N"
  | .ok (some l) => some ("ok " ++ showPairs l)

def showOut (o : Out) : Option String :=
  (showRes o.res).map (fun r => r ++ " | " ++ showState o.state)

def orUnsupported : Option String → Option String
  | some s => some s
  | none => some "unsupported"

/-- `<n> (expr tree)*` -/
def readHist : Nat → List String → Option (List (Val × Str))
  | 0, [] => some []
  | 0, _ => none
  | n + 1, e :: rest => do
    let e ← decStr e
    let (t, rest) ← readVal rest
    let more ← readHist n rest
    pure ((t, e) :: more)
  | _ + 1, [] => none

/-- run a history, printing every outcome with the state of the defaults after it -/
def histLines : Defaults → List (Val × Str) → Option (List String)
  | _, [] => some []
  | st, (t, e) :: rest =>
    if !inScope t then none else
    let o := findallTop fuel st t e
    match showOut o, histLines o.state rest with
    | some s, some more => some (s :: more)
    | _, _ => none

def handle (toks : List String) : Option String :=
  match toks with
  | ["fa.tok", e] =>
    match decStr e with
    | some e => some ("ok " ++ encStrs (tokens e))
    | none => some "bad-op"
  | "fa.find" :: e :: rest =>
    match decStr e, readVal rest with
    | some e, some (t, []) =>
      if !inScope t then some "unsupported" else
      orUnsupported (showOut (findallTop fuel fresh t e))
    | _, _ => some "bad-op"
  | "fa.findm" :: re :: e :: rest =>
    -- `findall(xpath, raise_exception)` (fix C19-e: the mode reaches `_findall`)
    match parseBool re, decStr e, readVal rest with
    | some re, some e, some (t, []) =>
      if !inScope t then some "unsupported" else
      orUnsupported (showOut (findallTop fuel fresh t e re))
    | _, _, _ => some "bad-op"
  | "fa.raw" :: re :: n :: rest =>
    match parseBool re, parseNat n with
    | some re, some n =>
      match decStrs (rest.take n), readVal (rest.drop n) with
      | some ts, some (t, []) =>
        if !inScope t then some "unsupported" else
        orUnsupported (showOut (fa re fuel t ts [] []))
      | _, _ => some "bad-op"
    | _, _ => some "bad-op"
  | "fa.first" :: re :: e :: rest =>
    match parseBool re, decStr e, readVal rest with
    | some re, some e, some (t, []) =>
      if !inScope t then some "unsupported" else
      let r := findfirstTop fuel fresh t e re
      some (match r.1 with
        | .error .Unsupported => "unsupported"
        | .error err => showErr err ++ " | " ++ showState r.2
        | .ok Option.none => "ok N | " ++ showState r.2
        | .ok (some (k, v)) => "ok " ++ encStr k ++ " " ++ showVal v ++ " | " ++ showState r.2)
    | _, _, _ => some "bad-op"
  | "fa.hist" :: n :: rest =>
    match parseNat n with
    | some n =>
      match readHist n rest with
      | some h => orUnsupported ((histLines fresh h).map (fun ls => " ;; ".intercalate ls))
      | none => some "bad-op"
    | none => some "bad-op"
  | _ => none

end N0.Drv.FindAll
