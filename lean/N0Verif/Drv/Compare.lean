import N0Verif.Proto
import N0Verif.Val
import N0Verif.Model.Compare
/-!
driver operations of the compare engine:

* `cmp.flags s:b …`                                   → `ok TFFFFT` (types delta equal records elements place)
* `cmp.match <xpath> <patarg>`                        → `ok <n>`
* `cmp.keys <path> <ck> <tr> <list value>`            → `ok <n> k1 … kn` | `err C`
* `cmp.run <d|k> <flags6> <ck> <only> <excl> <tr> <a> <b>` → `ok <diffs> <hasDT> <hasEq> <n> e1 … en` | `err C`

Trees holding the float `nan` or `-0.0` are answered `unsupported` by `cmp.run` (floats are opaque lexemes).
`patarg` = `s <str>` | `t <n> <str>…`; `tr` = `<n> (<pat> <name>)…` with names
`id lower const trunc`; `path` = `<n> (k<hex>|i<n>|j<n>_<m>)…`.  Entries are printed as
single tokens and sorted (B compares entry *sets*).
-/
namespace N0.Drv.Compare
open N0 N0.Proto N0.Compare

def parseSetter : String → Option Setter
  | "types" => some .types | "delta" => some .delta | "equal" => some .equal
  | "records" => some .records | "elements" => some .elements | "place" => some .place
  | _ => none

def parseSetterTok (t : String) : Option (Setter × Bool) :=
  match Py.splitChar ':' t.toList with
  | [s, b] => do
    let s ← parseSetter (String.ofList s)
    let b ← parseBool (String.ofList b)
    pure (s, b)
  | _ => none

def showFlags (f : Flags) : String :=
  showBool f.types ++ showBool f.delta ++ showBool f.equal ++ showBool f.records ++ showBool f.elements ++ showBool f.place

def parseFlags (t : String) : Option Flags :=
  match t.toList.map (fun c => parseBool (String.ofList [c])) with
  | [some a, some b, some c, some d, some e, some f] => some ⟨a, b, c, d, e, f⟩
  | _ => none

def takeN {α} (dec : List String → Option (α × List String)) : Nat → List String → List α → Option (List α × List String)
  | 0, toks, acc => some (acc.reverse, toks)
  | n + 1, toks, acc => do
    let (x, rest) ← dec toks
    takeN dec n rest (x :: acc)

def decStr1 : List String → Option (Str × List String)
  | t :: rest => (decStr t).map (fun s => (s, rest))
  | [] => none

def parsePatArg : List String → Option (PatArg × List String)
  | "s" :: t :: rest => (decStr t).map (fun s => (.one s, rest))
  | "t" :: n :: rest => do
    let n ← parseNat n
    let (l, rest') ← takeN decStr1 n rest []
    pure (.many l, rest')
  | _ => none

/-- `int(float)` on a plain decimal lexeme `[-]d+.d+` -/
def truncLexeme (r : Str) : Option Int :=
  let (neg, body) := match r with
    | '-' :: b => (true, b)
    | b => (false, b)
  match Py.splitChar '.' body with
  | [ip, fp] =>
    if ip.all Py.isAsciiDigit && !ip.isEmpty && fp.all Py.isAsciiDigit && !fp.isEmpty then
      let n : Int := Py.natOfDigits ip
      some (if neg then -n else n)
    else none
  | _ => none

/-- `str.lower()` on ASCII and Latin-1 letters -/
def lowerL1 (c : Char) : Char :=
  if ('A' ≤ c && c ≤ 'Z') || (0xC0 ≤ c.toNat && c.toNat ≤ 0xDE && c.toNat != 0xD7) then Char.ofNat (c.toNat + 32) else c

def trLower : Val → Val
  | .str s => .str (s.map lowerL1)
  | v => v

def trConst : Val → Val
  | .list c xs => .list c xs
  | .dict c kvs => .dict c kvs
  | _ => .str ['K']

def trTrunc : Val → Val
  | .flt r => match truncLexeme r with
    | some i => .int i
    | none => .flt r
  | v => v

def parseTrName : String → Option (Val → Val)
  | "id" => some id | "lower" => some trLower | "const" => some trConst | "trunc" => some trTrunc
  | _ => none

def decTr1 : List String → Option (Tr × List String)
  | p :: n :: rest => do
    let p ← decStr p
    let f ← parseTrName n
    pure (⟨p, f⟩, rest)
  | _ => none

def parseTrs : List String → Option (List Tr × Bool × List String)
  | n :: rest => do
    let k ← parseNat n
    let usesTrunc := (rest.take (2 * k)).contains "trunc"
    let (l, rest') ← takeN decTr1 k rest []
    pure (l, usesTrunc, rest')
  | [] => none

def decSeg1 : List String → Option (PSeg × List String)
  | t :: rest =>
    match t.toList with
    | 'k' :: h => (decStr (String.ofList h)).map (fun s => (.key s, rest))
    | 'i' :: n => (parseNat (String.ofList n)).map (fun i => (.idx i, rest))
    | 'j' :: nm =>
      match Py.splitChar '_' nm with
      | [n, m] => do
        let i ← parseNat (String.ofList n)
        let j ← parseNat (String.ofList m)
        pure (.idx2 i j, rest)
      | _ => none
    | _ => none
  | [] => none

def parsePath : List String → Option (Path × List String)
  | n :: rest => do
    let k ← parseNat n
    takeN decSeg1 k rest []
  | [] => none

mutual
def simpleFloats : Val → Bool
  | .flt r => (truncLexeme r).isSome
  | .list _ xs => simpleFloatsL xs
  | .dict _ kvs => simpleFloatsK kvs
  | _ => true
def simpleFloatsL : List Val → Bool
  | [] => true
  | x :: xs => simpleFloats x && simpleFloatsL xs
def simpleFloatsK : List (Str × Val) → Bool
  | [] => true
  | (_, x) :: xs => simpleFloats x && simpleFloatsK xs
end

mutual
/-- floats are opaque lexemes in the model, compared as texts: `nan` (Python: `nan != nan`) and `-0.0` (Python:
`0.0 == -0.0`) are outside its scope -/
def modelFloats : Val → Bool
  | .flt r => r != ['n', 'a', 'n'] && r != ['-', '0', '.', '0']
  | .list _ xs => modelFloatsL xs
  | .dict _ kvs => modelFloatsK kvs
  | _ => true
def modelFloatsL : List Val → Bool
  | [] => true
  | x :: xs => modelFloats x && modelFloatsL xs
def modelFloatsK : List (Str × Val) → Bool
  | [] => true
  | (_, x) :: xs => modelFloats x && modelFloatsK xs
end

def valTok (v : Val) : String := ",".intercalate (encVal v)

def pathTok (p : Path) : String := encStr (render p)

def showRes (fl : Flags) (r : Res) : String :=
  let ne := r.notEqual.map (fun e =>
    "ne:" ++ pathTok e.path ++ ":" ++ (match e.kind with | .lst => "l" | .tup => "t") ++ ":" ++ showBool e.delta
      ++ ":" ++ valTok e.l ++ ":" ++ valTok e.r)
  let ue (tag : String) (l : List UE) := l.map (fun e =>
    tag ++ ":" ++ (if fl.place then pathTok e.path else "-") ++ ":" ++ valTok e.v)
  let dt := r.diffTypes.map (fun e => "dt:" ++ pathTok e.path ++ ":" ++ valTok e.l ++ ":" ++ valTok e.r)
  let se := r.selfEqual.map (fun v => "se:" ++ valTok v)
  let oe := r.otherEqual.map (fun v => "oe:" ++ valTok v)
  let all := ne ++ ue "su" r.selfUnique ++ ue "ou" r.otherUnique ++ dt ++ se ++ oe
  let sorted := all.mergeSort (fun a b => decide (a ≤ b))
  "ok " ++ toString r.diffs ++ " " ++ showBool fl.types ++ " " ++ showBool fl.equal ++ " " ++ toString sorted.length
    ++ sorted.foldl (fun acc s => acc ++ " " ++ s) ""

def runCmp (mode flags : String) (rest : List String) : Option String := do
  let direct ← (if mode = "d" then some true else if mode = "k" then some false else none)
  let fl ← parseFlags flags
  let (ck, rest) ← parsePatArg rest
  let (only, rest) ← parsePatArg rest
  let (excl, rest) ← parsePatArg rest
  let (tr, usesTrunc, rest) ← parseTrs rest
  let (a, rest) ← readVal rest
  let (b, rest) ← readVal rest
  if !rest.isEmpty then none
  else if usesTrunc && !(simpleFloats a && simpleFloats b) then pure "unsupported"
  else if !(modelFloats a && modelFloats b) then pure "unsupported"
  else
    let cfg : Cfg := ⟨fl, direct, ck, only, excl, tr⟩
    match compareTop cfg a b with
    | .ok r => pure (showRes fl r)
    | .error .Unsupported => pure "unsupported"
    | .error e => pure (showErr e)

def runKeys (rest : List String) : Option String := do
  let (p, rest) ← parsePath rest
  let (ck, rest) ← parsePatArg rest
  let (tr, usesTrunc, rest) ← parseTrs rest
  let (v, rest) ← readVal rest
  if !rest.isEmpty then none
  else if usesTrunc && !simpleFloats v then pure "unsupported"
  else
    match v with
    | .list _ xs =>
      let cfg : Cfg := ⟨Flags.init, false, ck, .many [], .many [], tr⟩
      match keysOf cfg p 0 xs with
      | .ok ks => pure ("ok " ++ encStrs ks)
      | .error e => pure (showErr e)
    | _ => none

def handle (toks : List String) : Option String :=
  match toks with
  | "cmp.flags" :: rest =>
    match rest.mapM parseSetterTok with
    | some seq => some ("ok " ++ showFlags (Flags.init.run seq))
    | none => some "bad-op"
  | "cmp.match" :: xp :: rest =>
    match decStr xp, parsePatArg rest with
    | some xp, some (pa, []) => some ("ok " ++ toString (xpathMatch xp pa))
    | _, _ => some "bad-op"
  | "cmp.keys" :: rest => some ((runKeys rest).getD "bad-op")
  | "cmp.run" :: mode :: flags :: rest => some ((runCmp mode flags rest).getD "bad-op")
  | _ => none

end N0.Drv.Compare
