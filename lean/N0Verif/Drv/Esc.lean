import N0Verif.Proto
import N0Verif.Val
import N0Verif.Model.Esc
/-! driver operations of the delimited-text model (C17): `esc.split`, `esc.spec`, `esc.ref`, `esc.cls`, `esc.dlist`,
`esc.kv`, `esc.ddict`, `esc.ser`, `esc.unesc`, `esc.rt`, `esc.rtf`, `esc.ddu`, `esc.dlol`, `esc.dfix`, `esc.gvt` -/
namespace N0.Drv.Esc
open N0 N0.Proto N0.Esc

/-- `-` = None, otherwise a string token -/
def optStr (tok : String) : Option (Option Str) :=
  if tok = "-" then some none else (decStr tok).map some

/-- `-` = None, otherwise exactly one character -/
def optChar (tok : String) : Option (Option Char) :=
  if tok = "-" then some none else (char1 tok).map some

def showOpt : Option Str → String
  | none => "-"
  | some s => encStr s

def showPairs (ps : List (Str × Option Str)) : String :=
  toString ps.length ++ ps.foldl (fun acc kv => acc ++ " " ++ encStr kv.1 ++ " " ++ showOpt kv.2) ""

def showPairs' (ps : List (Str × Str)) : String :=
  toString ps.length ++ ps.foldl (fun acc kv => acc ++ " " ++ encStr kv.1 ++ " " ++ encStr kv.2) ""

def showStrs (r : PyM (List Str)) : String :=
  match r with
  | .ok xs => "ok " ++ encStrs xs
  | .error .Unsupported => "unsupported"
  | .error e => showErr e

def showSer (r : PyM (Option Str)) : String :=
  match r with
  | .ok none => "ok N"
  | .ok (some s) => "ok S" ++ encStr s
  | .error .Unsupported => "unsupported"
  | .error e => showErr e

def showU : UErr → String
  | .Unsupported => "unsupported"
  | e => "err " ++ e.name

def parseI (tok : String) : Option Int := parseInt tok.toList

def handle (toks : List String) : Option String :=
  match toks with
  | ["esc.split", s, d, m, e, tr] =>
    match decStr s, decStr d, parseNat m, optChar e, parseBool tr with
    | some s, some d, some m, some e, some tr => some (showStrs (splitWithEscape s d m e tr))
    | _, _, _, _, _ => some "bad-op"
  | ["esc.spec", s, d, m, e, tr] =>
    match decStr s, decStr d, parseNat m, char1 e, parseBool tr with
    | some s, some d, some m, some e, some tr =>
      if d.isEmpty then some "err ValueError"
      else some ("ok " ++ encStrs (splitSpec e d tr [] (splitMax d m s)))
    | _, _, _, _, _ => some "bad-op"
  | ["esc.ref", s, d, m, e, tr] =>
    match decStr s, decStr d, parseNat m, optChar e, parseBool tr with
    | some s, some d, some m, some e, some tr => some (showStrs (splitRef s d m e tr))
    | _, _, _, _, _ => some "bad-op"
  | ["esc.cls", s, d, m, e] =>
    match decStr s, decStr d, parseNat m, char1 e with
    | some s, some d, some m, some e => some (if escWithin e d (limOf m) 0 [] s then "ok T" else "ok F")
    | _, _, _, _ => some "bad-op"
  | ["esc.dlist", s, d, pe, e] =>
    match decStr s, decStr d, parseBool pe, optChar e with
    | some s, some d, some pe, some e => some (showStrs (deserializeList s d pe e))
    | _, _, _, _ => some "bad-op"
  | ["esc.kv", s, eq, dk, dv] =>
    match decStr s, decStr eq, optStr dk, optStr dv with
    | some s, some eq, some dk, some dv =>
      match keyValue eq dk dv s with
      | .ok (k, v) => some ("ok " ++ encStr k ++ " " ++ showOpt v)
      | .error e => some (showErr e)
    | _, _, _, _ => some "bad-op"
  | ["esc.ddict", s, d, eq, pe, dk, dv] =>
    match decStr s, decStr d, decStr eq, parseBool pe, optStr dk, optStr dv with
    | some s, some d, some eq, some pe, some dk, some dv =>
      match deserializeDict s d eq pe dk dv with
      | .ok ps => some ("ok " ++ showPairs ps)
      | .error e => some (showErr e)
    | _, _, _, _, _, _ => some "bad-op"
  | "esc.ser" :: d :: eq :: ge :: gn :: ck :: cv :: v =>
    match decStr d, decStr eq, parseBool ge, parseBool gn, parseI ck, parseI cv, readVal v with
    | some d, some eq, some ge, some gn, some ck, some cv, some (v, []) =>
      some (showSer (ser ⟨d, eq, ge, gn, ck, cv⟩ 0 v))
    | _, _, _, _, _, _, _ => some "bad-op"
  | ["esc.unesc", s] =>
    match decStr s with
    | some s =>
      match unescape s with
      | .ok r => some ("ok " ++ encStr r)
      | .error e => some (showU e)
    | none => some "bad-op"
  | "esc.rt" :: d :: eq :: v =>
    match decStr d, decStr eq, readVal v with
    | some d, some eq, some (v, []) =>
      match serializeDict d eq v with
      | .error .Unsupported => some "unsupported"
      | .error e => some (showErr e)
      | .ok none => some "unsupported"
      | .ok (some text) =>
        match deserializeDict text d eq false none none with
        | .error e => some (showErr e)
        | .ok ps =>
          match unescapeDict ps with
          | .error e => some (showU e)
          | .ok r => some ("ok " ++ showPairs r)
    | _, _, _ => some "bad-op"
  -- `unescape(deserialize_dict(serialize_dict(v, d, eq, ge, gn), d, equal_tag=eq, default_value=dv))`
  | "esc.rtf" :: d :: eq :: ge :: gn :: dv :: v =>
    match decStr d, decStr eq, parseBool ge, parseBool gn, optStr dv, readVal v with
    | some d, some eq, some ge, some gn, some dv, some (v, []) =>
      match ser ⟨d, eq, ge, gn, 0, 0⟩ 0 v with
      | .error .Unsupported => some "unsupported"
      | .error e => some (showErr e)
      | .ok none => some "unsupported"
      | .ok (some text) =>
        match deserializeDict text d eq false none dv with
        | .error e => some (showErr e)
        | .ok ps =>
          match unescapeDict ps with
          | .error e => some (showU e)
          | .ok r => some ("ok " ++ showPairs r)
    | _, _, _, _, _, _ => some "bad-op"
  -- `unescape(deserialize_dict(s, d, parse_empty=pe, equal_tag=eq, default_key=dk, default_value=dv))`
  | ["esc.ddu", s, d, eq, pe, dk, dv] =>
    match decStr s, decStr d, decStr eq, parseBool pe, optStr dk, optStr dv with
    | some s, some d, some eq, some pe, some dk, some dv =>
      match deserializeDict s d eq pe dk dv with
      | .ok ps =>
        match unescapeDict ps with
        | .error e => some (showU e)
        | .ok r => some ("ok " ++ showPairs r)
      | .error e => some (showErr e)
    | _, _, _, _, _, _ => some "bad-op"
  -- `deserialize_list_of_lists(s, d, delimiter_for_sublists=ds, parse_empty=pe)`
  | ["esc.dlol", s, d, ds, pe] =>
    match decStr s, decStr d, decStr ds, parseBool pe with
    | some s, some d, some ds, some pe =>
      match deserializeListOfLists s d ds pe with
      | .ok ls => some ("ok " ++ toString ls.length ++ ls.foldl (fun acc l => acc ++ " " ++ encStrs l) "")
      | .error .Unsupported => some "unsupported"
      | .error e => some (showErr e)
    | _, _, _, _ => some "bad-op"
  -- `deserialize_fixed_list(s, n, d, default_item=dflt, parse_empty=pe)`
  | ["esc.dfix", s, d, n, dflt, pe] =>
    match decStr s, decStr d, parseNat n, optStr dflt, parseBool pe with
    | some s, some d, some n, some dflt, some pe =>
      match deserializeFixedList s d n dflt pe with
      | .ok xs => some ("ok " ++ toString xs.length ++ xs.foldl (fun acc x => acc ++ " " ++ showOpt x) "")
      | .error .Unsupported => some "unsupported"
      | .error e => some (showErr e)
    | _, _, _, _, _ => some "bad-op"
  -- `get_value_by_tag(tag, s, d, eq, default_key=dk, default_value=dv)`
  | ["esc.gvt", tag, s, d, eq, dk, dv] =>
    match decStr tag, decStr s, decStr d, decStr eq, optStr dk, optStr dv with
    | some tag, some s, some d, some eq, some dk, some dv =>
      match getValueByTag tag s d eq dk dv with
      | .ok v => some ("ok " ++ showOpt v)
      | .error .Unsupported => some "unsupported"
      | .error e => some (showErr e)
    | _, _, _, _, _, _ => some "bad-op"
  | _ => none

end N0.Drv.Esc
