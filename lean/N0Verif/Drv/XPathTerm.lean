import N0Verif.Proto
import N0Verif.Val
import N0Verif.Model.XPathFuel
/-! driver operations for the fuel bound of the xpath search (C04, termination) -/
namespace N0.Drv.XPathTerm
open N0 N0.Proto N0.XPath

/-- the outcome of a lookup, `err OutOfFuel` included (the usual `xp.get` runs with a fixed large fuel) -/
def showOut : Val × PyM Val → String
  | (_, .error .Unsupported) => "unsupported"
  | (t', .error e) => showErr e ++ " | " ++ showVal t'
  | (t', .ok v) => "ok " ++ showVal v ++ " | " ++ showVal t'

def handle (toks : List String) : Option String :=
  match toks with
  -- the proven bound itself: height, width, termFuel
  | "xp.termfuel" :: xp :: rest =>
    match decStr xp, readVal rest with
    | some xp, some (tree, []) =>
      some ("ok " ++ toString (termHgt tree) ++ " " ++ toString (termWd tree) ++ " " ++ toString (termFuel tree xp))
    | _, _ => some "bad-op"
  -- a lookup with the fuel the caller names
  | "xp.getf" :: fuel :: kind :: xp :: rest =>
    match fuel.toNat?, decStr xp, readVal rest with
    | some fuel, some xp, some (dflt, rest) =>
      match readVal rest with
      | some (tree, []) =>
        some (showOut (match kind with
          | "i" => getItem fuel tree xp
          | "g" => get fuel tree xp dflt
          | _ => first fuel tree xp dflt))
      | _ => some "bad-op"
    | _, _, _ => some "bad-op"
  | _ => none

end N0.Drv.XPathTerm
