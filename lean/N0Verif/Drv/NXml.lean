import N0Verif.Proto
import N0Verif.Model.NXml
/-!
  driver operations of the n0xml model.

  element tree (prefix form):  `<tag> <N | S<hex>> <nattr> (k v)* <nkids> elem*`
  stored value:                `N` | `S<hex>` | `L<n> (tag nattr (k v)* value)*`
  hit:                         `<nsteps> step* value`
  attributes:                  `<nattr> (k v)*`
-/
namespace N0.Drv.NXml
open N0 N0.Proto N0.NXml

def decText (t : String) : Option (Option Str) :=
  match t.toList with
  | ['N'] => some none
  | 'S' :: h => (decStr (String.ofList h)).map some
  | _ => none

def decAttrs : Nat → List String → Option (Attr × List String)
  | 0, toks => some ([], toks)
  | n + 1, k :: v :: toks => do
    let k ← decStr k
    let v ← decStr v
    let (rest, toks') ← decAttrs n toks
    pure ((k, v) :: rest, toks')
  | _, _ => none

/-- decode one element (fuel = number of tokens) -/
def decElem : Nat → List String → Option (Elem × List String)
  | 0, _ => none
  | fuel + 1, tag :: text :: na :: toks => do
    let tag ← decStr tag
    let text ← decText text
    let na ← parseNat na
    let (attrs, toks1) ← decAttrs na toks
    match toks1 with
    | [] => none
    | nk :: toks2 =>
      let nk ← parseNat nk
      let rec kids : Nat → List String → List Elem → Option (List Elem × List String)
        | 0, ts, acc => some (acc.reverse, ts)
        | k + 1, ts, acc => do
          let (e, ts') ← decElem fuel ts
          kids k ts' (e :: acc)
      let (ks, toks3) ← kids nk toks2 []
      pure (Elem.mk tag text attrs ks, toks3)
  | _, _ => none

def readElem (toks : List String) : Option Elem :=
  match decElem (toks.length + 1) toks with
  | some (e, []) => some e
  | _ => none

def encAttrs (a : Attr) : List String :=
  toString a.length :: a.flatMap (fun kv => [encStr kv.1, encStr kv.2])

mutual
def encXVal : XVal → List String
  | .text none => ["N"]
  | .text (some s) => ["S" ++ encStr s]
  | .nodes items => ("L" ++ toString items.length) :: encItems items
def encItems : List Item → List String
  | [] => []
  | (tag, attrib, v) :: rest => encStr tag :: (encAttrs attrib ++ encXVal v ++ encItems rest)
end

def encHit (h : Hit) : List String :=
  toString h.1.length :: (h.1.map encStr ++ encXVal h.2)

def showToks (ts : List String) : String := " ".intercalate ts

def showHits : PyM (Option (List Hit)) → String
  | .error e => showErr e
  | .ok none => "ok none"
  | .ok (some hs) => showToks ("ok" :: toString hs.length :: hs.flatMap encHit)

def showGet : PyM (Option XVal) → String
  | .error e => showErr e
  | .ok none => "ok default"
  | .ok (some v) => showToks ("ok" :: "some" :: encXVal v)

/-- `get_attrib`: `unsupported` where the model does not follow (empty path: `RuntimeError`) -/
def showAttr : PyM (Option Attr) → String
  | .error .Unsupported => "unsupported"
  | .error e => showErr e
  | .ok none => "ok default"
  | .ok (some a) => showToks ("ok" :: "some" :: encAttrs a)

def showFirst : PyM (Option Hit) → String
  | .error e => showErr e
  | .ok none => "ok none"
  | .ok (some h) => showToks ("ok" :: encHit h)

def showB : PyM Bool → String
  | .error e => showErr e
  | .ok b => "ok " ++ showBool b

def showStep : Option Step → String
  | none => "ok none"
  | some st =>
    let idx := match st.idx with
      | none => "-"
      | some none => "*"
      | some (some n) => toString n
    let cond := match st.cond with
      | none => "- -"
      | some (op, v) => encStr op ++ " " ++ encStr v
    "ok " ++ encStr st.tag ++ " " ++ idx ++ " " ++ cond

/-- `<n> s1 … sn rest…` -/
def takeStrs (toks : List String) : Option (List Str × List String) :=
  match toks with
  | [] => none
  | n :: rest => do
    let n ← parseNat n
    if rest.length < n then none else do
    let xs ← decStrs (rest.take n)
    pure (xs, rest.drop n)

def handle (toks : List String) : Option String :=
  match toks with
  | "nxml.parse" :: e =>
    match readElem e with
    | some e => some (showToks ("ok" :: encXVal (parseNode e)))
    | none => some "bad-op"
  | "nxml.get" :: xp :: e =>
    match decStr xp, readElem e with
    | some xp, some e => some (showGet (getS (parseNode e) xp))
    | _, _ => some "bad-op"
  | "nxml.getl" :: rest =>
    match takeStrs rest with
    | some (steps, e) =>
      match readElem e with
      | some e => some (showGet (getL (parseNode e) steps))
      | none => some "bad-op"
    | none => some "bad-op"
  | "nxml.getattr" :: xp :: e =>
    match decStr xp, readElem e with
    | some xp, some e => some (showAttr (getAttrS (parseNode e) xp))
    | _, _ => some "bad-op"
  | "nxml.getattrl" :: rest =>
    match takeStrs rest with
    | some (steps, e) =>
      match readElem e with
      | some e => some (showAttr (getAttrL (parseNode e) steps))
      | none => some "bad-op"
    | none => some "bad-op"
  | "nxml.findall" :: ff :: xp :: e =>
    match parseBool ff, decStr xp, readElem e with
    | some ff, some xp, some e =>
      if xpInScope xp then some (showHits (findall ff (parseNode e) xp)) else some "unsupported"
    | _, _, _ => some "bad-op"
  | "nxml.findalll" :: ff :: rest =>
    match parseBool ff, takeStrs rest with
    | some ff, some (steps, e) =>
      match readElem e with
      | some e =>
        if steps.all xpInScope then some (showHits (findallL ff (parseNode e) steps))
        else some "unsupported"
      | none => some "bad-op"
    | _, _ => some "bad-op"
  | "nxml.findfirst" :: xp :: e =>
    match decStr xp, readElem e with
    | some xp, some e =>
      if xpInScope xp then some (showFirst (findfirst (parseNode e) xp)) else some "unsupported"
    | _, _ => some "bad-op"
  | "nxml.in" :: xp :: e =>
    match decStr xp, readElem e with
    | some xp, some e =>
      if xpInScope xp then some (showB (contains (parseNode e) xp)) else some "unsupported"
    | _, _ => some "bad-op"
  | ["nxml.step", s] =>
    match decStr s with
    | some s => if xpInScope s then some (showStep (parseStep s)) else some "unsupported"
    | none => some "bad-op"
  | ["nxml.int", s] =>
    match decStr s with
    | some s =>
      match pyInt s with
      | .ok i => some ("ok " ++ toString i)
      | .error e => some (showErr e)
    | none => some "bad-op"
  | ["nxml.norm", s] =>
    match decStr s with
    | some s => some ("ok " ++ encStrs (xpSteps s))
    | none => some "bad-op"
  | ["nxml.dec", n] =>
    match parseNat n with
    | some n => some ("ok " ++ encStr (dec n))
    | none => some "bad-op"
  | _ => none

end N0.Drv.NXml
