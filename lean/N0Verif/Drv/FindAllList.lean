import N0Verif.Proto
import N0Verif.Val
import N0Verif.Model.FindAll
import N0Verif.Drv.FindAll
/-! driver operation `fa.pure` of the `findall` model: the outcome of a search followed by **the
tree the model was given**.  The model is a function that does not thread the tree (the tree is
an argument, never part of `Out`), so the tree printed is the input itself; the harness compares it
with the encoding of the real container *after* the real call (dict- and list-rooted). -/
namespace N0.Drv.FindAllList
open N0 N0.Proto N0.FindAll N0.Drv.FindAll

def handle (toks : List String) : Option String :=
  match toks with
  | "fa.pure" :: e :: rest =>
    match decStr e, readVal rest with
    | some e, some (t, []) =>
      if !inScope t then some "unsupported" else
      orUnsupported ((showOut (findallTop fuel fresh t e)).map (fun r => r ++ " | " ++ showVal t))
    | _, _ => some "bad-op"
  | _ => none

end N0.Drv.FindAllList
