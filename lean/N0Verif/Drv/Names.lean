import N0Verif.Proto
import N0Verif.Model.Names
import N0Verif.Gen.Symtab
/-! driver operations of the name-resolution model (C20).

A table travels as decimal tokens:
```
table := <pkg> <#mods> mod* <#builtins> id* <#ext> (<#n> id*)* <#priv> id* <#concrete> (m c)*
mod   := <name> <#bound> id* <#stars> m* (0 | 1 <#all> id*) <#refs> (f n)* <#imports> (f t n)* <#classes> cls*
cls   := <name> <#bases> base* <#attrs> id* <#loads> (f a)*
base  := L m c | E e | U
```
operations
* `names.bad <table>`            → `ok R <k> (m f n)* I <k> (m f t n)* A <k> (m c m' c' f a)* E <k> (m n kind)* C <TTTT>`
                                    (the last token: answers of checkRefs, checkImports, checkAttrs, checkAll)
* `names.defined <m> <N> <table>`→ `ok id*` : the names `< N` that module `m` defines
* `names.exports <m> <N> <table>`→ `ok id*` : the names `< N` a star import takes from `m`
* `names.gen`                    → `ok <digest> ` + the `names.bad` answer for the compiled-in `Gen.Symtab.table`
-/
namespace N0.Drv.Names
open N0 N0.Proto N0.Names

abbrev P := StateT (List String) Option

def tok : P String := fun s => match s with
  | [] => none
  | t :: r => some (t, r)

def nat : P Nat := do
  let t ← tok
  match parseNat t with
  | some n => pure n
  | none => failure

def many {α : Type} (p : P α) : Nat → P (List α)
  | 0 => pure []
  | n + 1 => do
    let x ← p
    let xs ← many p n
    pure (x :: xs)

def counted {α : Type} (p : P α) : P (List α) := do
  let n ← nat
  many p n

def pair : P (Nat × Nat) := do
  let a ← nat; let b ← nat; pure (a, b)

def triple : P (Nat × Nat × Nat) := do
  let a ← nat; let b ← nat; let c ← nat; pure (a, b, c)

def base : P Base := do
  let t ← tok
  if t = "L" then do let m ← nat; let c ← nat; pure (.lib m c)
  else if t = "E" then do let e ← nat; pure (.ext e)
  else if t = "U" then pure .unknown
  else failure

def cls : P Cls := do
  let name ← nat
  let bases ← counted base
  let attrs ← counted nat
  let loads ← counted pair
  pure { name, bases, attrs, loads }

def modP : P Mod := do
  let name ← nat
  let bound ← counted nat
  let stars ← counted nat
  let hasAll ← nat
  let all ← if hasAll = 0 then pure none else do let l ← counted nat; pure (some l)
  let refs ← counted pair
  let imports ← counted triple
  let classes ← counted cls
  pure { name, bound, stars, all, refs, imports, classes }

def tableP : P Table := do
  let pkg ← nat
  let mods ← counted modP
  let builtins ← counted nat
  let ext ← counted (counted nat)
  let priv ← counted nat
  let concrete ← counted pair
  pure { mods, pkg, builtins, ext, priv, concrete }

def parseTable (toks : List String) : Option Table :=
  match tableP toks with
  | some (t, []) => some t
  | _ => none

def showNats (l : List Nat) : String := l.foldl (fun acc n => acc ++ " " ++ toString n) ""

def showBad (tbl : Table) : String :=
  let r := badRefs tbl
  let i := badImports tbl
  let a := badAttrs tbl
  let e := badAll tbl
  "R " ++ toString r.length ++ showNats (r.flatMap (fun (m, f, n) => [m, f, n])) ++
  " I " ++ toString i.length ++ showNats (i.flatMap (fun (m, f, t, n) => [m, f, t, n])) ++
  " A " ++ toString a.length ++ showNats (a.flatMap (fun (m, c, m', c', f, x) => [m, c, m', c', f, x])) ++
  " E " ++ toString e.length ++ showNats (e.flatMap (fun (m, n, k) => [m, n, k])) ++
  " C " ++ showBool (checkRefs tbl) ++ showBool (checkImports tbl) ++ showBool (checkAttrs tbl) ++ showBool (checkAll tbl)

def handle (toks : List String) : Option String :=
  match toks with
  | "names.bad" :: rest =>
    match parseTable rest with
    | some tbl => some ("ok " ++ showBad tbl)
    | none => some "bad-op"
  | "names.defined" :: m :: n :: rest =>
    match parseNat m, parseNat n, parseTable rest with
    | some m, some n, some tbl => some ("ok" ++ showNats (definedNames tbl m n))
    | _, _, _ => some "bad-op"
  | "names.exports" :: m :: n :: rest =>
    match parseNat m, parseNat n, parseTable rest with
    | some m, some n, some tbl =>
      match tbl.mod? m with
      | some mi => some ("ok" ++ showNats ((definedNames tbl m n).filter (exportsB tbl mi)))
      | none => some "ok"
    | _, _, _ => some "bad-op"
  | ["names.gen"] => some ("ok " ++ N0.Gen.Symtab.digest ++ " " ++ showBad N0.Gen.Symtab.table)
  | _ => none

end N0.Drv.Names
