import N0Verif.Proto
import N0Verif.Gen.TlvPy
/-! driver operation of the definitions generated from the Python source of `parse_tlv` (`Gen/TlvPy.lean`):
`tlvpy.parse <tl> <ll> <s>` answers `ok <n> (<tag> <len> <value>)* <done|ExceptionClass>` with fuel `|s| + 1`.
Outside the scope of the `int()` model (`Tlv.intInScope`) the answer is `unsupported`. -/
namespace N0.Drv.TlvPy
open N0 N0.Proto

def showTriple (t : Str × Int × Str) : String :=
  encStr t.1 ++ " " ++ toString t.2.1 ++ " " ++ encStr t.2.2

def handle (toks : List String) : Option String :=
  match toks with
  | ["tlvpy.parse", tl, ll, s] =>
    match parseNat tl, parseNat ll, decStr s with
    | some tl, some ll, some s =>
      if !N0.Tlv.intInScope s then some "unsupported" else
      let r := N0.Gen.TlvPy.parseTlv s (Int.ofNat tl) (Int.ofNat ll) (s.length + 1)
      some ("ok " ++ toString r.1.length ++ r.1.foldl (fun acc t => acc ++ " " ++ showTriple t) ""
        ++ " " ++ (match r.2 with | none => "done" | some e => e.name))
    | _, _, _ => some "bad-op"
  | _ => none

end N0.Drv.TlvPy
