import N0Verif.Proto
import N0Verif.Val
import N0Verif.Model.Ini
/-! driver operations of the INI model (C17): `ini.parse`, `ini.value`, `ini.isnum`, `ini.rt`, `ini.read` -/
namespace N0.Drv.Ini
open N0 N0.Proto N0.Ini

def showDict (r : PyM (List (Str × Val))) : String :=
  match r with
  | .ok kvs => "ok " ++ showVal (.dict .plain kvs)
  | .error .Unsupported => "unsupported"
  | .error e => showErr e

def handle (toks : List String) : Option String :=
  match toks with
  | "ini.parse" :: eq :: lines =>
    match decStr eq, decStrs lines with
    | some eq, some lines => some (showDict (parseIni eq lines))
    | _, _ => some "bad-op"
  | ["ini.value", s] =>
    match decStr s with
    | some s =>
      match parseValue s with
      | .ok v => some ("ok " ++ showVal v)
      | .error .Unsupported => some "unsupported"
      | .error e => some (showErr e)
    | none => some "bad-op"
  | ["ini.isnum", s] =>
    match decStr s with
    | some s => some ("ok " ++ showBool (isnumber s))
    | none => some "bad-op"
  | ["ini.read", s] =>
    match decStr s with
    | some s => some ("ok " ++ encStrs (readLines s))
    | none => some "bad-op"
  | "ini.rt" :: eq :: v =>
    match decStr eq, readVal v with
    | some eq, some (.dict _ kvs, []) => some (showDict (loadIni eq (iniText eq kvs)))
    | _, _ => some "bad-op"
  | _ => none

end N0.Drv.Ini
