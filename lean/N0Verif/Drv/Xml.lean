import N0Verif.Proto
import N0Verif.Val
import N0Verif.Model.Xml
/-! driver operations of the XML writer/reader model:
`xml.write`, `xml.load`, `xml.read`, `xml.escape`, `xml.norm`, `xml.shaped` -/
namespace N0.Drv.Xml
open N0 N0.Proto N0.Xml

def showPy (r : PyM Str) : String :=
  match r with
  | .ok s => "ok " ++ encStr s
  | .error .Unsupported => "unsupported"
  | .error e => showErr e

/-- `N` = None, `E<str>` = a string -/
def decEnc (tok : String) : Option (Option Str) :=
  match tok.toList with
  | ['N'] => some none
  | 'E' :: h => (decStr (String.ofList h)).map some
  | _ => none

def handle (toks : List String) : Option String :=
  match toks with
  | "xml.write" :: indent :: enc :: quote :: tree =>
    match parseNat indent, decEnc enc, decStr quote, readVal tree with
    | some i, some e, some q, some (t, []) =>
      some (showPy (toXml Cfg.gen { indent := i, encoding := e, quote := q } t))
    | _, _, _, _ => some "bad-op"
  | ["xml.load", text] =>
    match decStr text with
    | some s =>
      match loadXml s with
      | .ok v => some ("ok " ++ showVal v)
      | .error .expat => some "err ExpatError"
      | .error _ => some "unsupported"
    | none => some "bad-op"
  | ["xml.read", text] =>
    match decStr text with
    | some s =>
      match xmlRead s with
      | .ok _ => some "ok T"
      | .error .malformed => some "err ParseError"
      | .error .outside => some "unsupported"
    | none => some "bad-op"
  | ["xml.escape", text] =>
    match decStr text with
    | some s => some ("ok " ++ encStr (escape Cfg.gen.table s))
    | none => some "bad-op"
  | "xml.norm" :: tree =>
    match readVal tree with
    | some (t, []) => some ("ok " ++ showVal (normRoot Cfg.gen t))
    | _ => some "bad-op"
  | "xml.shaped" :: lists :: tree =>
    match parseBool lists, readVal tree with
    | some l, some (t, []) => some ("ok " ++ showBool (xmlShaped l t))
    | _, _ => some "bad-op"
  | _ => none

end N0.Drv.Xml
