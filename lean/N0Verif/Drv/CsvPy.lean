import N0Verif.Proto
import N0Verif.Gen.CsvPy
/-! driver operations of the definitions generated from the Python source (`Gen/CsvPy.lean`):
`csvpy.parse.str`, `csvpy.parse.bytes`, `csvpy.gen`.  The delimiter is a string (any length). -/
namespace N0.Drv.CsvPy
open N0 N0.Proto

def showFields : Except PyErr (List Str) → String
  | .ok fs => "ok " ++ encStrs fs
  | .error e => showErr e

def handle (toks : List String) : Option String :=
  match toks with
  | ["csvpy.parse.str", d, line] =>
    match decStr d, decStr line with
    | some d, some line => some (showFields (N0.Gen.CsvPy.parseStr line d))
    | _, _ => some "bad-op"
  | ["csvpy.parse.bytes", d, line] =>
    match decStr d, decStr line with
    | some d, some line => some (showFields (N0.Gen.CsvPy.parseBytes line d))
    | _, _ => some "bad-op"
  | "csvpy.gen" :: d :: eol :: fs =>
    match decStr d, decStr eol, decStrs fs with
    | some d, some eol, some fs =>
      match N0.Gen.CsvPy.genRow fs d eol with
      | .ok s => some ("ok " ++ encStr s)
      | .error e => some (showErr e)
    | _, _, _ => some "bad-op"
  | _ => none

end N0.Drv.CsvPy
