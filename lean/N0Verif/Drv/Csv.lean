import N0Verif.Proto
import N0Verif.Model.Csv
/-! driver operations of the CSV line model: `csv.parse`, `csv.gen`, `csv.writer` -/
namespace N0.Drv.Csv
open N0 N0.Proto

def handle (toks : List String) : Option String :=
  match toks with
  | ["csv.parse", d, line] =>
    match char1 d, decStr line with
    | some d, some line =>
      match N0.Csv.parse d line with
      | .ok fs => some ("ok " ++ encStrs fs)
      | .error e => some (showErr e)
    | _, _ => some "bad-op"
  | "csv.gen" :: d :: eol :: fs =>
    match char1 d, decStr eol, decStrs fs with
    | some d, some eol, some fs => some ("ok " ++ encStr (N0.Csv.gen d fs eol))
    | _, _, _ => some "bad-op"
  | "csv.writer" :: d :: term :: fs =>
    match char1 d, decStr term, decStrs fs with
    | some d, some term, some fs => some ("ok " ++ encStr (N0.Csv.writerLine d term fs))
    | _, _, _ => some "bad-op"
  | _ => none

end N0.Drv.Csv
