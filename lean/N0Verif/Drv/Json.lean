import N0Verif.Proto
import N0Verif.Val
import N0Verif.Model.Json
/-! driver operations of the JSON model: `json.dump`, `json.loads`, `json.esc`, `json.expect`, `json.cols`,
`json.ctor` (the constructors `n0dict(text)` / `n0list(text)`) -/
namespace N0.Drv.Json
open N0 N0.Proto N0.Json

def isContainer : Val → Bool
  | .list .. => true
  | .dict .. => true
  | _ => false

def parseOpts (i p s c : String) : Option Opts := do
  let i ← parseNat i
  let p ← parseBool p
  let s ← parseBool s
  let c ← parseBool c
  pure { indent := i, pairs := p, skipEmpty := s, compress := c }

/-- what the correspondence compares: the text without the blanks and line breaks that stand
outside string literals (layout padding is not something the property speaks about) -/
def stripOutside : Bool → Str → Str
  | _, [] => []
  | false, c :: s =>
    if c = '"' then c :: stripOutside true s
    else if c = ' ' || c = '\n' then stripOutside false s
    else c :: stripOutside false s
  | true, '\\' :: d :: s => '\\' :: d :: stripOutside true s
  | true, c :: s => if c = '"' then c :: stripOutside false s else c :: stripOutside true s

def showCols (cols : List (Str × Nat)) : String :=
  cols.foldl (fun acc kw => acc ++ " " ++ encStr kw.1 ++ " " ++ toString kw.2) (toString cols.length)

def handle (toks : List String) : Option String :=
  match toks with
  | "json.dump" :: i :: p :: s :: c :: rest =>
    match parseOpts i p s c, readVal rest with
    | some o, some (t, []) =>
      if isContainer t then some ("ok " ++ encStr (stripOutside false (toJson o t))) else some "unsupported"
    | _, _ => some "bad-op"
  | "json.dumptext" :: i :: p :: s :: c :: rest =>
    match parseOpts i p s c, readVal rest with
    | some o, some (t, []) =>
      if isContainer t then some ("ok " ++ encStr (toJson o t)) else some "unsupported"
    | _, _ => some "bad-op"
  | "json.expect" :: s :: rest =>
    match parseBool s, readVal rest with
    | some s, some (t, []) => some ("ok " ++ showVal (erase (dropEmptyIf { skipEmpty := s } t)))
    | _, _ => some "bad-op"
  | ["json.loads", text] =>
    match decStr text with
    | some text =>
      match jsonDecodeE text with
      | .ok v => some ("ok " ++ showVal v)
      | .error .Unsupported => some "unsupported"
      | .error .OutOfFuel => some "err OutOfFuel"
      | .error _ => some "err JSONDecodeError"
    | none => some "bad-op"
  | ["json.esc", text] =>
    match decStr text with
    | some text => some ("ok " ++ encStr (quoted text))
    | none => some "bad-op"
  | "json.cols" :: rest =>
    match readVal rest with
    | some (.list _ xs, []) =>
      match pairCols xs with
      | some cols => some ("ok " ++ showCols cols)
      | none => some "ok none"
    | _ => some "bad-op"
  | ["json.ctor", kind, text] =>
    match decStr text with
    | some text =>
      let r := if kind == "d" then some (n0dictOfText text) else if kind == "l" then some (n0listOfText text) else none
      match r with
      | some (.ok v) => some ("ok " ++ showVal v)
      | some (.error .Unsupported) => some "unsupported"
      | some (.error .OutOfFuel) => some "err OutOfFuel"
      | some (.error .TypeError) => some "err TypeError"
      | some (.error _) => some "err JSONDecodeError"
      | none => some "bad-op"
    | none => some "bad-op"
  | _ => none

end N0.Drv.Json
