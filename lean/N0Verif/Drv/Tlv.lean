import N0Verif.Proto
import N0Verif.Val
import N0Verif.Model.Tlv
import N0Verif.Model.Fwf
/-!
  driver operations of the TLV / fixed-width models:
  `tlv.int`, `tlv.parse`, `tlv.gen`, `fwf.parse`, `fwf.gen`, `fwf.load`.

  The `validations` / `mapping` entries of a layout are Python expressions; the
  harness and this file share a fixed menu of them (index ↦ expression).
-/
namespace N0.Drv.Tlv
open N0 N0.Proto N0.Py N0.Tlv N0.Fwf

abbrev P := StateT (List String) Option

def tok : P String := fun ts => match ts with | [] => none | t :: r => some (t, r)
def pNat : P Nat := do let t ← tok; (parseNat t : Option Nat)
def pStr : P Str := do let t ← tok; (decStr t : Option Str)
def pBool : P Bool := do let t ← tok; (parseBool t : Option Bool)
def pOptNat : P (Option Nat) := do
  let t ← tok
  if t = "-" then pure none else (parseNat t).map some
def pOptStr : P (Option Str) := do
  let t ← tok
  if t = "-" then pure none else (decStr t).map some
def pMany {α} (p : P α) : Nat → P (List α)
  | 0 => pure []
  | n + 1 => do let x ← p; let xs ← pMany p n; pure (x :: xs)
def pCounted {α} (p : P α) : P (List α) := do let n ← pNat; pMany p n
def pEnd : P Unit := fun ts => if ts.isEmpty then some ((), []) else none

/-! ### the menu of validations (`lambda column_value, row, parsed_row: …`) -/
def rowGet (k : Str) : Row → Option Str
  | [] => none
  | (k', v) :: rest => if k' = k then v else rowGet k rest

def validationMenu : Nat → Option Validation
  | 0 => some (fun _ _ _ => true)                                   -- True
  | 1 => some (fun _ _ _ => false)                                  -- False
  | 2 => some (fun v _ _ => match v with                            -- column_value is not None and column_value.strip(' ') != ''
      | none => false | some s => !(strip [' '] s).isEmpty)
  | 3 => some (fun v _ _ => match v with                            -- … and len(column_value) > 0 and all(c in '0123456789' for c in column_value)
      | none => false | some s => !s.isEmpty && s.all isAsciiDigit)
  | 4 => some (fun _ row _ => decide (6 ≤ row.length))              -- len(row) >= 6
  | 5 => some (fun _ _ acc => decide (1 ≤ acc.length))              -- len(parsed_row) >= 1
  | 6 => some (fun v _ _ => match v with                            -- column_value is not None and not column_value.startswith('X')
      | none => false | some s => !startsWith s ['X'])
  | 7 => some (fun v _ acc => rowGet ['a'] acc == v)                -- parsed_row.get('a') == column_value
  | _ => none

/-! ### the menu of mappings (`lambda incoming_row: …`) -/
def mappingMenu : Nat → Option (Rec → Except PyErr Val)
  | 0 => some (fun _ => .ok (.str "MAP".toList))                    -- 'MAP'
  | 1 => some (fun r => .ok (.str (decimal r.length)))              -- str(len(incoming_row))
  | 2 => some (fun r => match Val.lookup "zz".toList r with         -- incoming_row['zz']
      | some v => .ok v | none => .error .KeyError)
  | 3 => some (fun _ => .ok (.int 7))                               -- 7
  | _ => none

def pPCol : P PCol := do
  let name ← pStr
  let offset ← pOptNat
  let width ← pOptNat
  let till ← pOptNat
  let msg ← pOptStr
  let vs ← pCounted (do let i ← pNat; (validationMenu i : Option Validation))
  pure { name, offset, width, till, validations := vs, errorMessage := msg }

def pVal : P Val := fun ts => readVal ts

def pGCol : P GCol := do
  let name ← pStr
  let offset ← pNat
  let till ← pNat
  let size ← pNat
  let isInt ← pBool
  let t ← tok
  let mapping ← if t = "-" then pure none else do
    let i ← (parseNat t : Option Nat)
    let f ← (mappingMenu i : Option _)
    pure (some f)
  pure { name, offset, till, size, isInt, mapping }

/-! ### printing -/
def showOptStr : Option Str → String
  | none => "-"
  | some s => encStr s

def showInt (i : Int) : String := toString i

def showStatus : Status → String
  | .done => "done"
  | .raised e => e.name

def showTrip (t : Trip) : String :=
  encStr t.tag ++ " " ++ showInt t.len ++ " " ++ encStr t.value ++ " " ++ toString t.next

def showRow (r : Row) : String :=
  toString r.length ++ r.foldl (fun acc kv => acc ++ " " ++ encStr kv.1 ++ " " ++ showOptStr kv.2) ""

def showRej (r : Rej) : String :=
  (match r.line with | none => "-" | some i => toString i) ++ " " ++ encStr r.row ++ " " ++ encStr r.msg

def showList {α} (f : α → String) (xs : List α) : String :=
  toString xs.length ++ xs.foldl (fun acc x => acc ++ " " ++ f x) ""

/-- the only slice that can have been handed to `int()` outside the model's scope is
the one on which the run stopped with `ValueError` -/
def tlvOutOfScope (s : Str) (tl ll : Nat) (r : Res) : Bool :=
  r.status == .raised .ValueError && !intInScope (slice s (r.off + tl) (r.off + tl + ll))

def run {α} (p : P α) (ts : List String) : Option α :=
  match (do let x ← p; pEnd; pure x : P α) ts with
  | some (x, _) => some x
  | none => none

def handle (toks : List String) : Option String :=
  match toks with
  | ["tlv.int", s] =>
    match decStr s with
    | some s =>
      if !intInScope s then some "unsupported" else
      match pyInt s with
      | some i => some ("ok " ++ showInt i)
      | none => some "err ValueError"
    | none => some "bad-op"
  | ["tlv.parse", tl, ll, s] =>
    match parseNat tl, parseNat ll, decStr s with
    | some tl, some ll, some s =>
      let r := parseTlv pyInt s tl ll
      if tlvOutOfScope s tl ll r then some "unsupported" else
      some ("ok " ++ showList showTrip r.trips ++ " " ++ showStatus r.status)
    | _, _, _ => some "bad-op"
  | "tlv.gen" :: tl :: ll :: tp :: lp :: kvs =>
    match parseNat tl, parseNat ll, char1 tp, char1 lp, decStrs kvs with
    | some tl, some ll, some tp, some lp, some kvs =>
      let rec pairs : List Str → Option (List (Str × Str))
        | [] => some []
        | [_] => none
        | k :: v :: rest => (pairs rest).map (fun r => (k, v) :: r)
      match pairs kvs with
      | some d =>
        -- the probe of `len_padding` hands the padding to `int()`: outside the scope of its model (a Unicode decimal zero …)
        if !padInScope lp then some "unsupported" else
        match generateTlv tl ll tp lp d with
        | .ok s => some ("ok " ++ encStr s)
        | .error e => some (showErr e)
      | none => some "bad-op"
    | _, _, _, _, _ => some "bad-op"
  | "fwf.parse" :: rest =>
    match run (do let v ← pBool; let row ← pStr; let fmt ← pCounted pPCol; pure (v, row, fmt)) rest with
    | some (v, row, fmt) =>
      match parseRow row fmt v with
      | .ok (.parsed r) => some ("ok P " ++ showRow r)
      | .ok (.rejected rw msg) => some ("ok R " ++ encStr rw ++ " " ++ encStr msg)
      | .error e => some (showErr e)
    | none => some "bad-op"
  | "fwf.gen" :: rest =>
    match run (do
        let filler ← pStr
        let rec_ ← pCounted (do let k ← pStr; let v ← pVal; pure (k, v))
        let fmt ← pCounted pGCol
        pure (filler, rec_, fmt)) rest with
    | some (filler, rec_, fmt) =>
      match genRow rec_ fmt filler with
      | .ok s => some ("ok " ++ encStr s)
      | .error .Unsupported => some "unsupported"
      | .error e => some (showErr e)
    | none => some "bad-op"
  | "fwf.load" :: rest =>
    match run (do
        let v ← pBool
        let ret ← pOptStr
        let lines ← pCounted pStr
        let hdr ← pCounted pPCol
        let body ← pCounted pPCol
        let ftr ← pCounted pPCol
        pure (v, ret, lines, hdr, body, ftr)) rest with
    | some (v, ret, lines, hdr, body, ftr) =>
      match loadFwf lines hdr body ftr v ret with
      | .ok st =>
        some ("ok A " ++ showList showRow st.accepted ++
          (if v then " R " ++ showList showRej st.rejected else ""))
      | .error e => some (showErr e)
    | none => some "bad-op"
  | _ => none

end N0.Drv.Tlv
