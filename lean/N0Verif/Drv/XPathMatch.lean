import N0Verif.Proto
import N0Verif.Gen.XPathMatch
import N0Verif.Drv.Compare
/-! driver operation of the definitions generated from the Python source of `xpath_match` (`Gen/XPathMatch.lean`):
`xmgen.match <xpath> <patarg>` answers in the format of `cmp.match` (`ok <n>`; `err <Class>` if the translated code
raises; `patarg` = `s <str>` | `t <n> <str>…`, parsed by `Drv/Compare.lean`). -/
namespace N0.Drv.XPathMatch
open N0 N0.Proto N0.Compare

def handle (toks : List String) : Option String :=
  match toks with
  | "xmgen.match" :: xp :: rest =>
    match decStr xp, N0.Drv.Compare.parsePatArg rest with
    | some xp, some (pa, []) =>
      match N0.Gen.XPathMatch.xpathMatch xp pa with
      | .ok n => some ("ok " ++ toString n)
      | .error .Unsupported => some "unsupported"
      | .error e => some ("err " ++ e.name)
    | _, _ => some "bad-op"
  | _ => none

end N0.Drv.XPathMatch
