import N0Verif.Proto
import N0Verif.Val
import N0Verif.Model.XPathApi
/-! driver operations of the xpath engine model -/
namespace N0.Drv.XPath
open N0 N0.Proto N0.XPath

def fuel : Nat := 4000

def showIdx : Idx → String
  | .none => "N"
  | .str s => "S" ++ encStr s
  | .cond k op v => "C " ++ encStr k ++ " " ++ encStr op ++ " " ++
      (match v with | .str s => "S" ++ encStr s | .bool true => "T" | .bool false => "F")

def showPy {α} (f : α → String) : PyM α → String
  | .ok a => "ok " ++ f a
  | .error .Unsupported => "unsupported"
  | .error e => showErr e

def showPairs (ps : List (Str × Val)) : String :=
  toString ps.length ++ ps.foldl (fun acc (p, v) => acc ++ " " ++ encStr p ++ " " ++ showVal v) ""

/-- tree after + outcome: `ok | tree` / `err X | tree` -/
def showTR : Val × PyM Unit → String
  | (_, .error .Unsupported) => "unsupported"
  | (t, .error e) => showErr e ++ " | " ++ showVal t
  | (t, .ok _) => "ok | " ++ showVal t

def handle (toks : List String) : Option String :=
  match toks with
  | ["xp.split", t] =>
    match decStr t with
    | some t => some (showPy (fun (n, i) => encStr n ++ " " ++ showIdx i) (splitNameIndex t))
    | none => some "bad-op"
  | ["xp.eval", t] =>
    match decStr t with
    | some t => some (showPy (fun r => match r with | .int i => "I" ++ toString i | .str s => "S" ++ encStr s) (n0eval t))
    | none => some "bad-op"
  | ["xp.tok", t] =>
    match decStr t with
    | some t => some ("ok " ++ encStrs (tokenize t))
    | none => some "bad-op"
  | "xp.get" :: kind :: xp :: rest =>
    match decStr xp, readVal rest with
    | some xp, some (dflt, rest) =>
      match readVal rest with
      | some (tree, []) =>
        let r := match kind with
          | "i" => getItem fuel tree xp
          | "g" => get fuel tree xp dflt
          | _ => first fuel tree xp dflt
        some (match r with
          | (_, .error .Unsupported) => "unsupported"
          | (t', .error e) => showErr e ++ " | " ++ showVal t'
          | (t', .ok v) => "ok " ++ showVal v ++ " | " ++ showVal t')
      | _ => some "bad-op"
    | _, _ => some "bad-op"
  | "xp.set" :: xp :: rest =>
    match decStr xp, readVal rest with
    | some xp, some (v, rest) =>
      match readVal rest with
      | some (tree, []) => some (showTR (setItem fuel tree xp v))
      | _ => some "bad-op"
    | _, _ => some "bad-op"
  | "xp.del" :: xp :: rc :: rest =>
    match decStr xp, parseBool rc, readVal rest with
    | some xp, some rc, some (tree, []) => some (showTR (delete fuel tree xp rc))
    | _, _, _ => some "bad-op"
  | "xp.pop" :: xp :: rc :: rest =>
    match decStr xp, parseBool rc, readVal rest with
    | some xp, some rc, some (dflt, rest) =>
      match readVal rest with
      | some (tree, []) => some (showPy (fun (t', v) => showVal v ++ " | " ++ showVal t') (pop fuel tree xp dflt rc))
      | _ => some "bad-op"
    | _, _, _ => some "bad-op"
  | "xp.enum" :: rest =>
    match readVal rest with
    | some (tree, []) => some ("ok " ++ showPairs (xpathEnum tree))
    | _ => some "bad-op"
  | _ => none

end N0.Drv.XPath
