import N0Verif.Proofs.CompareKeyVals
/-!
`transform` for the KEYED/default entry point (`compare`, `cfg.direct = false`) WITH (or without) a composite key, on
trees every list of which holds records only or leaves only (`recOnly`), the key fields of the records being leaves
(`keyFieldsLeaf`), under `IdxBlind` (`TrIdxBlind` here): no transform pattern tells `[i]`, `[j]` and `[i]<>[j]` apart.

Records are now paired across positions.  The run with `transform` walks a pair met across positions with the path
`prefix[i]<>[j]`, while the mapped trees were built with `prefix[i]` (left) and `prefix[j]` (right).  The three paths are
brought back to one: the mapping of a subtree only depends on the prefix through the transform lookups of its extensions
(`trck_mapT_congr`), and `TrIdxBlind` identifies the lookups below `prefix[i]`, `prefix[j]` and `prefix[i]<>[j]`
(`trck_same_left`, `trck_same_right`).  After that the mapped pair is the pair mapped with the walk's own path, and the
induction of `Proofs/CompareTransformKeyed.lean` goes through with general keys (`trck_keyedWalk`; the keys agree by
`ckv_keysOf_mapped`).
-/
namespace N0.Compare
open N0

set_option linter.unusedSimpArgs false
set_option linter.unusedVariables false

/-- the transform lookup does not tell `[i]`, `[j]` and `[i]<>[j]` apart (no pattern names an index of a keyed list) -/
def TrIdxBlind (cfg : Cfg) : Prop :=
  ∀ (p : Path) (i j : Nat) (q : Path),
    transformAt cfg (p ++ .idx2 i j :: q) = transformAt cfg (p ++ .idx i :: q) ∧
    transformAt cfg (p ++ .idx2 i j :: q) = transformAt cfg (p ++ .idx j :: q)

/-! ### the mapping of a subtree depends on the prefix only through the lookups of its extensions -/

/-- two prefixes every extension of which has the same transform function -/
def TrSame (cfg : Cfg) (p p' : Path) : Prop := ∀ q : Path, transformAt cfg (p ++ q) = transformAt cfg (p' ++ q)

theorem trck_same_refl (cfg : Cfg) (p : Path) : TrSame cfg p p := fun _ => rfl

theorem trck_same_ext {cfg : Cfg} {p p' : Path} (h : TrSame cfg p p') (s : PSeg) :
    TrSame cfg (p ++ [s]) (p' ++ [s]) := by
  intro q
  have := h (s :: q)
  simpa [List.append_assoc] using this

theorem trck_same_nil {cfg : Cfg} {p p' : Path} (h : TrSame cfg p p') : transformAt cfg p = transformAt cfg p' := by
  simpa using h []

mutual
theorem trck_mapT_congr (cfg : Cfg) : ∀ (v : Val) (p p' : Path), TrSame cfg p p' → mapT cfg p v = mapT cfg p' v
  | .dict c kvs, p, p', h => by
    simp only [mapT]
    rw [trck_mapTK_congr cfg kvs p p' h]
  | .list c xs, p, p', h => by
    simp only [mapT]
    rw [trck_same_nil h, trck_mapTL_congr cfg xs p p' h (transformAt cfg p') 0]
  | .none, _, _, _ => rfl
  | .bool _, _, _, _ => rfl
  | .int _, _, _, _ => rfl
  | .flt _, _, _, _ => rfl
  | .str _, _, _, _ => rfl
theorem trck_mapTK_congr (cfg : Cfg) : ∀ (kvs : List (Str × Val)) (p p' : Path), TrSame cfg p p' →
    mapTK cfg p kvs = mapTK cfg p' kvs
  | [], _, _, _ => by simp [mapTK]
  | (k, v) :: rest, p, p', h => by
    rw [mapTK_cons, mapTK_cons, trck_mapTK_congr cfg rest p p' h, trck_same_nil (trck_same_ext h (.key k))]
    simp only [mapTChild]
    rw [trck_mapT_congr cfg v _ _ (trck_same_ext h (.key k))]
theorem trck_mapTL_congr (cfg : Cfg) : ∀ (xs : List Val) (p p' : Path), TrSame cfg p p' → ∀ (f : Val → Val) (i : Nat),
    mapTL cfg p f i xs = mapTL cfg p' f i xs
  | [], _, _, _, _, _ => by simp [mapTL]
  | x :: xs, p, p', h, f, i => by
    rw [mapTL_cons, mapTL_cons, trck_mapTL_congr cfg xs p p' h f (i + 1)]
    simp only [mapTChild]
    rw [trck_mapT_congr cfg x _ _ (trck_same_ext h (.idx i))]
end

/-- the segment the keyed walk appends for the pair of positions `(i, j)` -/
abbrev pairSeg (i j : Nat) : PSeg := if i = j then .idx i else .idx2 i j

theorem trck_same_left {cfg : Cfg} (hb : TrIdxBlind cfg) (p : Path) (i j : Nat) :
    TrSame cfg (p ++ [.idx i]) (p ++ [pairSeg i j]) := by
  intro q
  by_cases hij : i = j
  · simp [pairSeg, hij]
  · simp only [pairSeg, hij, if_false, List.append_assoc, List.cons_append, List.nil_append]
    exact ((hb p i j q).1).symm

theorem trck_same_right {cfg : Cfg} (hb : TrIdxBlind cfg) (p : Path) (i j : Nat) :
    TrSame cfg (p ++ [.idx j]) (p ++ [pairSeg i j]) := by
  intro q
  by_cases hij : i = j
  · simp [pairSeg, hij]
  · simp only [pairSeg, hij, if_false, List.append_assoc, List.cons_append, List.nil_append]
    exact ((hb p i j q).2).symm

/-! ### bookkeeping: items of items -/

theorem trck_allItemsL_mem : ∀ (xs : List Val) (x : Val), x ∈ xs → ∀ z ∈ allItems x, z ∈ allItemsL xs
  | [], _, h, _, _ => by cases h
  | y :: ys, x, h, z, hz => by
    simp only [allItemsL, List.mem_append]
    rcases List.mem_cons.1 h with rfl | h'
    · exact .inl hz
    · exact .inr (trck_allItemsL_mem ys x h' z hz)

theorem trck_allItemsK_lookup : ∀ (kvs : List (Str × Val)) (k : Str) (w : Val), Val.lookup k kvs = some w →
    ∀ z ∈ allItems w, z ∈ allItemsK kvs
  | [], _, _, h, _, _ => by simp [Val.lookup] at h
  | (k', v) :: rest, k, w, h, z, hz => by
    simp only [allItemsK, List.mem_append]
    simp only [Val.lookup] at h
    split at h
    · cases h; exact .inl hz
    · exact .inr (trck_allItemsK_lookup rest k w h z hz)

theorem trck_eraseKey_sub (k : Str) : ∀ (l : List KE), ∀ e ∈ eraseKey k l, e ∈ l
  | [], e, he => by simp [eraseKey] at he
  | (k', i, v) :: rest, e, he => by
    simp only [eraseKey] at he
    split at he
    · exact List.mem_cons_of_mem _ he
    · rcases List.mem_cons.1 he with rfl | he'
      · exact List.mem_cons_self
      · exact List.mem_cons_of_mem _ (trck_eraseKey_sub k rest e he')

/-- what the induction needs to know of a subtree: lists of records or of leaves, key fields of records are leaves -/
def CkOk (cfg : Cfg) (v : Val) : Prop := recOnly v = true ∧ ∀ z ∈ allItems v, keyFieldsLeaf cfg z

theorem trck_ckOk_leaf (cfg : Cfg) {v : Val} (h : isLeaf v = true) : CkOk cfg v := by
  cases v <;> simp_all [isLeaf, CkOk, recOnly, allItems]

/-! ### the two runs agree -/

mutual
theorem trck_sub (cfg : Cfg) (hd : cfg.direct = false) (hl : LeafTransform cfg) (hb : TrIdxBlind cfg)
    (site : Site) (p : Path) (v w : Val) (hv : CkOk cfg v) (hw : CkOk cfg w) :
    TrERel (sub cfg site p v w) (sub (noTransf cfg) site p (mapT cfg p v) (mapT cfg p w)) :=
  match v, w, hv, hw with
  | .list c xs, w, hv, hw => by
    cases w with
    | list c' ys =>
      obtain ⟨hv1, hv2⟩ := hv
      obtain ⟨hw1, hw2⟩ := hw
      simp only [recOnly, Bool.and_eq_true, Bool.or_eq_true] at hv1 hw1
      simp only [allItems, List.mem_append] at hv2 hw2
      by_cases h3 : excluded cfg p = true
      · simp [sub, mapT, hd, h3, Res.shape]
      · have hk1 := ckv_keysOf_mapped cfg hl p xs 0 (fun x hx => hv2 x (.inl hx))
        have hk2 := ckv_keysOf_mapped cfg hl p ys 0 (fun y hy => hw2 y (.inl hy))
        simp only [sub, mapT, hd, h3, noTransf_direct, excluded_noTransf, ← hk1, ← hk2, Bool.false_eq_true,
          false_and, and_false, if_false]
        cases hkx : keysOf cfg p 0 xs with
        | error e => simp
        | ok ks =>
          cases hky : keysOf cfg p 0 ys with
          | error e => simp
          | ok ko =>
            simp only
            rw [trk_mkEntries_map, trk_mkEntries_map]
            refine trck_keyedWalk cfg hd hl hb p _ _ _ _ 0 xs ks _ _ hv1.2 (fun z hz => hv2 z (.inr hz)) ?_
            intro e he
            have hm := trk_mkEntries_mem ko ys 0 e he
            exact ⟨trk_recOnlyL_mem ys hw1.2 _ hm, fun z hz => hw2 z (.inr (trck_allItemsL_mem ys _ hm z hz))⟩
    | _ => simp [sub, mapT]
  | .dict c kvs, w, hv, hw => by
    cases w with
    | dict c' kvs' =>
      obtain ⟨hv1, hv2⟩ := hv
      obtain ⟨hw1, hw2⟩ := hw
      simp only [recOnly] at hv1 hw1
      simp only [allItems] at hv2 hw2
      have ih := trck_dictWalk cfg hd hl hb p (.dict .n0 kvs) (.dict .n0 kvs')
        (.dict .n0 (mapTK cfg p kvs)) (.dict .n0 (mapTK cfg p kvs')) kvs kvs' true true kvs hv1 hw1 hv2 hw2
      cases site <;> cases c' <;> simp [sub, mapT, hd] <;> exact ih
    | _ => simp [sub, mapT]
  | .none, w, _, _ => by cases w <;> simp [sub, mapT, Res.shape]
  | .bool _, w, _, _ => by cases w <;> simp [sub, mapT]
  | .int _, w, _, _ => by cases w <;> simp [sub, mapT]
  | .flt _, w, _, _ => by cases w <;> simp [sub, mapT]
  | .str _, w, _, _ => by cases w <;> simp [sub, mapT]
termination_by structural v

theorem trck_dictWalk (cfg : Cfg) (hd : cfg.direct = false) (hl : LeafTransform cfg) (hb : TrIdxBlind cfg)
    (p : Path) (sa oa sa' oa' : Val) (skvs okvs : List (Str × Val)) (still still' : Bool) (kvs : List (Str × Val))
    (hk : recOnlyK kvs = true) (ho : recOnlyK okvs = true)
    (hkk : ∀ z ∈ allItemsK kvs, keyFieldsLeaf cfg z) (hok : ∀ z ∈ allItemsK okvs, keyFieldsLeaf cfg z) :
    TrERel (dictWalk cfg p sa oa skvs okvs still kvs)
      (dictWalk (noTransf cfg) p sa' oa' (mapTK cfg p skvs) (mapTK cfg p okvs) still' (mapTK cfg p kvs)) :=
  match kvs, still, still', hk, hkk with
  | [], still, still', _, _ => by
    simp only [dictWalk, mapTK]
    exact mapTK_dictTail_shape cfg p sa oa sa' oa' skvs okvs still still'
  | (k, v) :: rest, still, still', hk, hkk => by
    simp only [recOnlyK, Bool.and_eq_true] at hk
    simp only [allItemsK, List.mem_append] at hkk
    have hkr : ∀ z ∈ allItemsK rest, keyFieldsLeaf cfg z := fun z hz => hkk z (.inr hz)
    rw [mapTK_cons]
    simp only [dictWalk, mapTK_lookup]
    cases hlk : Val.lookup k okvs with
    | none =>
      simp only [Option.map_none]
      exact trck_dictWalk cfg hd hl hb p sa oa sa' oa' skvs okvs still still' rest hk.2 ho hkr hok
    | some w =>
      simp only [Option.map_some]
      have hrw := trk_recOnlyK_lookup okvs k w ho hlk
      have hf := tr_leafFn_transformAt hl (p ++ [.key k])
      have hact := tr_classifyEntry_shape cfg (p ++ [.key k]) v w
        (mapTChild cfg (p ++ [.key k]) (transformAt cfg (p ++ [.key k])) v)
        (mapTChild cfg (p ++ [.key k]) (transformAt cfg (p ++ [.key k])) w)
        (mapT_child_tyOf hf cfg _ v) (mapT_child_tyOf hf cfg _ w) (mapT_child_scalar hf cfg _ v) (mapT_child_scalar hf cfg _ w)
      cases hc : classifyEntry cfg (p ++ [.key k]) v w with
      | emit r0 s0 =>
        cases hc' : classifyEntry (noTransf cfg) (p ++ [.key k])
            (mapTChild cfg (p ++ [.key k]) (transformAt cfg (p ++ [.key k])) v)
            (mapTChild cfg (p ++ [.key k]) (transformAt cfg (p ++ [.key k])) w) with
        | emit r0' s0' =>
          rw [hc, hc'] at hact
          simp only
          exact tr_erel_cons hact _ _
            (trck_dictWalk cfg hd hl hb p sa oa sa' oa' skvs okvs (still && s0) (still' && s0') rest hk.2 ho hkr hok)
        | descend => rw [hc, hc'] at hact; exact hact.elim
      | descend =>
        cases hc' : classifyEntry (noTransf cfg) (p ++ [.key k])
            (mapTChild cfg (p ++ [.key k]) (transformAt cfg (p ++ [.key k])) v)
            (mapTChild cfg (p ++ [.key k]) (transformAt cfg (p ++ [.key k])) w) with
        | emit r0' s0' => rw [hc, hc'] at hact; exact hact.elim
        | descend =>
          obtain ⟨ht, hns⟩ := tr_classifyEntry_descend hc
          have hns' : isPyScalar (transformAt cfg (p ++ [.key k]) w) = false := by
            rw [← tyOf_scalar_eq ht]; exact hns
          simp only
          rw [mapT_child_nonscalar hf cfg _ v hns, mapT_child_nonscalar hf cfg _ w hns']
          exact tr_erel_bind _ _ _ _
            (trck_sub cfg hd hl hb .entry (p ++ [.key k]) v w ⟨hk.1, fun z hz => hkk z (.inl hz)⟩
              ⟨hrw, fun z hz => hok z (trck_allItemsK_lookup okvs k w hlk z hz)⟩)
            (trck_dictWalk cfg hd hl hb p sa oa sa' oa' skvs okvs still still' rest hk.2 ho hkr hok)
termination_by structural kvs

/-- **the walk with general keys.**  Both runs hold the same keys (`mapE` keeps key and position), so they pair the
same positions `(i, j)`; the pair of the mapped run is `(mapT … prefix[i] x, mapT … prefix[j] y)`, which under
`TrIdxBlind` is the pair mapped with the walk's own path `prefix[i]<>[j]` -/
theorem trck_keyedWalk (cfg : Cfg) (hd : cfg.direct = false) (hl : LeafTransform cfg) (hb : TrIdxBlind cfg)
    (p : Path) (sa oa sa' oa' : Val) (i : Nat) (xs : List Val) (ks : List Str) (sr orr : List KE)
    (hx : recOnlyL xs = true) (hkx : ∀ z ∈ allItemsL xs, keyFieldsLeaf cfg z)
    (ho : ∀ e ∈ orr, CkOk cfg e.2.2) :
    TrERel (keyedWalk cfg p sa oa i xs ks sr orr)
      (keyedWalk (noTransf cfg) p sa' oa' i (mapTL cfg p (transformAt cfg p) i xs) ks
        (sr.map (mapE cfg p)) (orr.map (mapE cfg p))) :=
  match xs, ks, i, sr, orr, hx, hkx, ho with
  | [], ks, i, sr, orr, _, _, _ => by
    simp only [mapTL, keyedWalk]
    show Res.shape _ = Res.shape _
    exact trk_keyedTail_shape p _ _ _ _ (trk_mapE_idx cfg p sr) (trk_mapE_idx cfg p orr)
  | x :: xs, [], i, sr, orr, _, _, _ => by
    rw [mapTL_cons]
    simp [keyedWalk]
  | x :: xs, k :: ks, i, sr, orr, hx, hkx, ho => by
    simp only [recOnlyL, Bool.and_eq_true] at hx
    simp only [allItemsL, List.mem_append] at hkx
    have hkr : ∀ z ∈ allItemsL xs, keyFieldsLeaf cfg z := fun z hz => hkx z (.inr hz)
    have hf := tr_leafFn_transformAt hl p
    rw [mapTL_cons]
    simp only [keyedWalk, trk_findKey_map]
    cases hfk : findKey k orr with
    | none =>
      simp only [Option.map_none]
      exact trck_keyedWalk cfg hd hl hb p sa oa sa' oa' (i + 1) xs ks sr orr hx.2 hkr ho
    | some jy =>
      obtain ⟨j, y⟩ := jy
      simp only [Option.map_some, trk_eraseKey_map]
      obtain ⟨k', hmem⟩ := trk_findKey_mem orr k j y hfk
      have hy : CkOk cfg y := ho _ hmem
      have ih := trck_keyedWalk cfg hd hl hb p sa oa sa' oa' (i + 1) xs ks (eraseKey k sr) (eraseKey k orr) hx.2 hkr
        (fun e he => ho e (trck_eraseKey_sub k orr e he))
      have hact := tr_classifyItem_shape cfg p (p ++ [pairSeg i j]) (p ++ [pairSeg i j]) sa oa sa' oa' x y
        (mapTChild cfg (p ++ [.idx i]) (transformAt cfg p) x)
        (mapTChild cfg (p ++ [.idx j]) (transformAt cfg p) y)
        (mapT_child_tyOf hf cfg _ x) (mapT_child_tyOf hf cfg _ y) (mapT_child_scalar hf cfg _ x) (mapT_child_scalar hf cfg _ y)
      cases hc : classifyItem cfg p (p ++ [pairSeg i j]) (p ++ [pairSeg i j]) sa oa x y with
      | emit r0 s0 =>
        cases hc' : classifyItem (noTransf cfg) p (p ++ [pairSeg i j]) (p ++ [pairSeg i j]) sa' oa'
            (mapTChild cfg (p ++ [.idx i]) (transformAt cfg p) x)
            (mapTChild cfg (p ++ [.idx j]) (transformAt cfg p) y) with
        | emit r0' s0' =>
          rw [hc, hc'] at hact
          simp only
          exact tr_erel_cons hact _ _ ih
        | descend => rw [hc, hc'] at hact; exact hact.elim
      | descend =>
        cases hc' : classifyItem (noTransf cfg) p (p ++ [pairSeg i j]) (p ++ [pairSeg i j]) sa' oa'
            (mapTChild cfg (p ++ [.idx i]) (transformAt cfg p) x)
            (mapTChild cfg (p ++ [.idx j]) (transformAt cfg p) y) with
        | emit r0' s0' => rw [hc, hc'] at hact; exact hact.elim
        | descend =>
          obtain ⟨ht, hns⟩ := tr_classifyItem_descend hc
          have hns' : isPyScalar (transformAt cfg p y) = false := by
            rw [← tyOf_scalar_eq ht]; exact hns
          simp only
          rw [mapT_child_nonscalar hf cfg _ x hns, mapT_child_nonscalar hf cfg _ y hns',
            trck_mapT_congr cfg x _ _ (trck_same_left hb p i j), trck_mapT_congr cfg y _ _ (trck_same_right hb p i j)]
          exact tr_erel_bind _ _ _ _
            (trck_sub cfg hd hl hb .item (p ++ [pairSeg i j]) x y ⟨hx.1, fun z hz => hkx z (.inl hz)⟩ hy) ih
termination_by structural xs
end

/-- **transform, keyed/default entry point, composite key, `TrIdxBlind`**: the run with `transform` and the run without
`transform` on the mapped trees end in the same error or in results of the same shape -/
theorem compareTop_tr_ck (cfg : Cfg) (hd : cfg.direct = false) (hl : LeafTransform cfg) (hb : TrIdxBlind cfg)
    (a b : Val) (ha : CkOk cfg a) (hb' : CkOk cfg b) :
    TrERel (compareTop cfg a b) (compareTop (noTransf cfg) (mapT cfg [] a) (mapT cfg [] b)) := by
  cases a with
  | dict c kvs =>
    cases c with
    | plain => cases b <;> simp [compareTop, mapT]
    | n0 =>
      cases b with
      | dict c' kvs' =>
        cases c' with
        | plain => simp [compareTop, mapT]
        | n0 =>
          obtain ⟨ha1, ha2⟩ := ha
          obtain ⟨hb1, hb2⟩ := hb'
          simp only [recOnly] at ha1 hb1
          simp only [allItems] at ha2 hb2
          simp only [compareTop, mapT]
          exact trck_dictWalk cfg hd hl hb [] _ _ _ _ kvs kvs' true true kvs ha1 hb1 ha2 hb2
      | _ => simp [compareTop, mapT]
  | list c xs =>
    cases c with
    | plain => cases b <;> simp [compareTop, mapT]
    | n0 =>
      cases b with
      | list c' ys =>
        cases c' with
        | plain => simp [compareTop, mapT]
        | n0 =>
          have h := trck_sub cfg hd hl hb .entry [] (.list .n0 xs) (.list .n0 ys) ha hb'
          simp only [mapT] at h
          simp only [compareTop, mapT]
          exact h
      | _ => simp [compareTop, mapT]
  | _ => cases b <;> simp [compareTop, mapT]

/-! ### a syntactic criterion for `IdxBlind`: no transform pattern contains the character `]`

The parts of a rendered path are `key[i][j]…`; replacing one index segment `[i]<>[j]` by `[i]` or `[j]` changes one part
only, and that part contains `]` before and after.  A pattern part without `]` is `*` (matches both) or a text that
equals neither (case folding neither creates nor removes a `]`). -/

theorem trck_lower_bracket_aux : ∀ n < 91, 65 ≤ n → Char.ofNat (n + 32) ≠ ']' := by decide

theorem trck_lower_bracket (c : Char) (h : Py.toLowerAscii c = ']') : c = ']' := by
  unfold Py.toLowerAscii at h
  split at h
  · rename_i hc
    simp only [Bool.and_eq_true, decide_eq_true_eq] at hc
    have h1 : 65 ≤ c.toNat := hc.1
    have h2 : c.toNat ≤ 90 := hc.2
    exact absurd h (trck_lower_bracket_aux c.toNat (by omega) h1)
  · exact h

/-- a text without `]` does not equal, case-insensitively, a text with `]` -/
theorem trck_lower_ne {p a : Str} (hp : ']' ∉ p) (ha : ']' ∈ a) : Py.lower p ≠ Py.lower a := by
  intro he
  have h1 : ']' ∈ Py.lower a := by
    simp only [Py.lower, List.mem_map]
    exact ⟨']', ha, by decide⟩
  rw [← he] at h1
  simp only [Py.lower, List.mem_map] at h1
  obtain ⟨c, hc, hcl⟩ := h1
  exact hp (trck_lower_bracket c hcl ▸ hc)

/-- two lists of parts that differ in one part only, which contains `]` on both sides -/
def PartsBr (xs xs' : List Str) : Prop :=
  ∃ (L : List Str) (a a' : Str) (T : List Str), xs = L ++ a :: T ∧ xs' = L ++ a' :: T ∧ ']' ∈ a ∧ ']' ∈ a'

theorem trck_splitChar_ne_nil (c : Char) : ∀ s : Str, Py.splitChar c s ≠ []
  | [] => by simp [Py.splitChar]
  | x :: s => by
    simp only [Py.splitChar]
    split
    · simp
    · split <;> simp

theorem trck_splitChar_mem (c : Char) : ∀ (s t : Str), t ∈ Py.splitChar c s → ∀ x ∈ t, x ∈ s
  | [], t, ht, x, hx => by
    simp only [Py.splitChar, List.mem_singleton] at ht
    subst ht; exact hx
  | y :: s, t, ht, x, hx => by
    simp only [Py.splitChar] at ht
    split at ht
    · rcases List.mem_cons.1 ht with rfl | ht'
      · cases hx
      · exact List.mem_cons_of_mem _ (trck_splitChar_mem c s t ht' x hx)
    · split at ht
      · simp only [List.mem_singleton] at ht
        subst ht
        simp only [List.mem_singleton] at hx
        subst hx; exact List.mem_cons_self
      · rename_i h t' heq
        rcases List.mem_cons.1 ht with rfl | ht'
        · rcases List.mem_cons.1 hx with rfl | hx'
          · exact List.mem_cons_self
          · exact List.mem_cons_of_mem _ (trck_splitChar_mem c s h (heq ▸ List.mem_cons_self) x hx')
        · exact List.mem_cons_of_mem _ (trck_splitChar_mem c s t (heq ▸ List.mem_cons_of_mem _ ht') x hx)

/-- a text without the separator in front of `B` goes to the first part of `B` -/
theorem trck_splitChar_nosep (c : Char) : ∀ (M : Str), (∀ x ∈ M, x ≠ c) → ∀ B : Str,
    ∃ h t, Py.splitChar c B = h :: t ∧ Py.splitChar c (M ++ B) = (M ++ h) :: t
  | [], _, B => by
    cases hB : Py.splitChar c B with
    | nil => exact absurd hB (trck_splitChar_ne_nil c B)
    | cons h t => exact ⟨h, t, rfl, by simpa using hB⟩
  | m :: M, hM, B => by
    obtain ⟨h, t, e1, e2⟩ := trck_splitChar_nosep c M (fun x hx => hM x (List.mem_cons_of_mem _ hx)) B
    refine ⟨h, t, e1, ?_⟩
    have hm : m ≠ c := hM m List.mem_cons_self
    simp only [List.cons_append, Py.splitChar, hm, if_false, e2]

/-- a common prefix keeps the relation -/
theorem trck_splitChar_prefix : ∀ (A X X' : Str), PartsBr (Py.splitChar '/' X) (Py.splitChar '/' X') →
    PartsBr (Py.splitChar '/' (A ++ X)) (Py.splitChar '/' (A ++ X'))
  | [], _, _, h => by simpa using h
  | a :: A, X, X', h => by
    obtain ⟨L, b, b', T, e1, e2, hb, hb'⟩ := trck_splitChar_prefix A X X' h
    simp only [List.cons_append, Py.splitChar, e1, e2]
    by_cases ha : a = '/'
    · simp only [ha, if_true]
      exact ⟨[] :: L, b, b', T, rfl, rfl, hb, hb'⟩
    · simp only [ha, if_false]
      cases L with
      | nil => exact ⟨[], a :: b, a :: b', T, rfl, rfl, List.mem_cons_of_mem _ hb, List.mem_cons_of_mem _ hb'⟩
      | cons l L' => exact ⟨(a :: l) :: L', b, b', T, rfl, rfl, hb, hb'⟩

theorem trck_natDigitsAux_chars : ∀ (f n : Nat) (acc : List Char), ∀ c ∈ natDigitsAux f n acc,
    c ∈ acc ∨ ∃ d, d < 10 ∧ c = Char.ofNat (48 + d)
  | 0, _, _, c, hc => .inl (by simpa [natDigitsAux] using hc)
  | f + 1, n, acc, c, hc => by
    rw [natDigitsAux] at hc
    split at hc
    · rcases List.mem_cons.1 hc with rfl | h
      · exact .inr ⟨n % 10, Nat.mod_lt _ (by decide), rfl⟩
      · exact .inl h
    · rcases trck_natDigitsAux_chars f (n / 10) _ c hc with h | h
      · rcases List.mem_cons.1 h with rfl | h'
        · exact .inr ⟨n % 10, Nat.mod_lt _ (by decide), rfl⟩
        · exact .inl h'
      · exact .inr h

theorem trck_digit_noslash : ∀ d < 10, Char.ofNat (48 + d) ≠ '/' := by decide

theorem trck_natStr_noslash (n : Nat) : ∀ c ∈ natStr n, c ≠ '/' := by
  intro c hc
  rcases trck_natDigitsAux_chars (n + 1) n [] c hc with h | ⟨d, hd, rfl⟩
  · cases h
  · exact trck_digit_noslash d hd

/-- an index segment: its text has no `/` and contains `]` -/
def isIdxSeg : PSeg → Bool | .key _ => false | _ => true

theorem trck_idxSeg_noslash {s : PSeg} (hs : isIdxSeg s = true) : ∀ c ∈ renderSeg s, c ≠ '/' := by
  intro c hc
  cases s with
  | key k => cases hs
  | idx i =>
    simp only [renderSeg, List.mem_cons, List.mem_append, List.not_mem_nil, or_false, or_assoc] at hc
    rcases hc with rfl | h | rfl
    · decide
    · exact trck_natStr_noslash i c h
    · decide
  | idx2 i j =>
    simp only [renderSeg, List.mem_cons, List.mem_append, List.not_mem_nil, or_false, or_assoc] at hc
    rcases hc with rfl | h | rfl | rfl | rfl | rfl | h | rfl
    · decide
    · exact trck_natStr_noslash i c h
    · decide
    · decide
    · decide
    · decide
    · exact trck_natStr_noslash j c h
    · decide

theorem trck_idxSeg_bracket {s : PSeg} (hs : isIdxSeg s = true) : ']' ∈ renderSeg s := by
  cases s with
  | key k => cases hs
  | idx i => simp [renderSeg]
  | idx2 i j => simp [renderSeg]

/-- replacing one index segment by another changes one part of the rendered path, which has a `]` before and after -/
theorem trck_render_parts (p : Path) (s s' : PSeg) (q : Path) (hs : isIdxSeg s = true) (hs' : isIdxSeg s' = true) :
    PartsBr (Py.splitChar '/' (render (p ++ s :: q))) (Py.splitChar '/' (render (p ++ s' :: q))) := by
  have e : ∀ z : PSeg, render (p ++ z :: q) = render p ++ (renderSeg z ++ render q) := by
    intro z; simp [render, List.flatMap_append, List.flatMap_cons]
  rw [e, e]
  apply trck_splitChar_prefix
  obtain ⟨h, t, e1, e2⟩ := trck_splitChar_nosep '/' (renderSeg s) (trck_idxSeg_noslash hs) (render q)
  obtain ⟨h', t', e1', e2'⟩ := trck_splitChar_nosep '/' (renderSeg s') (trck_idxSeg_noslash hs') (render q)
  rw [e1] at e1'
  obtain ⟨rfl, rfl⟩ := List.cons.inj e1'
  rw [e2, e2']
  exact ⟨[], _, _, t, rfl, rfl, List.mem_append_left _ (trck_idxSeg_bracket hs), List.mem_append_left _ (trck_idxSeg_bracket hs')⟩

theorem trck_matchParts_br : ∀ (ps : List Str), (∀ p ∈ ps, ']' ∉ p) → ∀ (T : List Str) (a a' : Str) (L : List Str),
    ']' ∈ a → ']' ∈ a' → matchParts ps (T ++ a :: L) = matchParts ps (T ++ a' :: L)
  | [], _, _, _, _, _, _, _ => by simp [matchParts]
  | p :: ps, hps, T, a, a', L, ha, ha' => by
    have hp : ']' ∉ p := hps p List.mem_cons_self
    have hps' : ∀ z ∈ ps, ']' ∉ z := fun z hz => hps z (List.mem_cons_of_mem _ hz)
    cases T with
    | nil =>
      simp only [matchParts, List.nil_append, trck_lower_ne hp ha, trck_lower_ne hp ha', ne_eq, not_false_eq_true, and_true]
    | cons t T' =>
      simp only [matchParts, List.cons_append]
      rw [trck_matchParts_br ps hps' T' a a' L ha ha']

theorem trck_matchOne_br (pat : Str) (hpat : ']' ∉ pat) (x x' : Str)
    (h : PartsBr (Py.splitChar '/' x) (Py.splitChar '/' x')) : matchOne x pat = matchOne x' pat := by
  obtain ⟨L, a, a', T, e1, e2, ha, ha'⟩ := h
  unfold matchOne
  rw [e1, e2]
  simp only [List.reverse_append, List.reverse_cons, List.append_assoc, List.singleton_append]
  apply trck_matchParts_br _ _ _ _ _ _ ha ha'
  intro z hz
  have hz' : z ∈ Py.splitChar '/' pat := by simpa using hz
  exact fun hbr => hpat (trck_splitChar_mem '/' pat z hz' _ hbr)

theorem trck_xpathMatchFrom_br (x x' : Str) (h : PartsBr (Py.splitChar '/' x) (Py.splitChar '/' x')) :
    ∀ (pats : List Str) (n : Nat), (∀ p ∈ pats, ']' ∉ p) → xpathMatchFrom x n pats = xpathMatchFrom x' n pats
  | [], _, _ => rfl
  | p :: ps, n, hp => by
    simp only [xpathMatchFrom, trck_matchOne_br p (hp p List.mem_cons_self) x x' h,
      trck_xpathMatchFrom_br x x' h ps (n + 1) (fun z hz => hp z (List.mem_cons_of_mem _ hz))]

/-- **no pattern contains `]` ⇒ `IdxBlind`**: a transform whose patterns name no list index does not tell `[i]`, `[j]`
and `[i]<>[j]` apart, whatever the keys of the tree are -/
theorem trck_idxBlind_of_noBracket (cfg : Cfg) (h : ∀ t ∈ cfg.tr, ']' ∉ t.pat) : TrIdxBlind cfg := by
  have hp : ∀ z ∈ cfg.tr.map (·.pat), ']' ∉ z := by
    intro z hz
    obtain ⟨t, ht, rfl⟩ := List.mem_map.1 hz
    exact h t ht
  have key : ∀ (p : Path) (s s' : PSeg) (q : Path), isIdxSeg s = true → isIdxSeg s' = true →
      transformAt cfg (p ++ s :: q) = transformAt cfg (p ++ s' :: q) := by
    intro p s s' q hs hs'
    unfold transformAt transformAtStr
    rw [trck_xpathMatchFrom_br _ _ (trck_render_parts p s s' q hs hs') _ 0 hp]
  intro p i j q
  exact ⟨key p _ _ q rfl rfl, key p _ _ q rfl rfl⟩

end N0.Compare
