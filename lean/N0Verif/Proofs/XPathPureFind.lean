import N0Verif.Proofs.XPathPure
import N0Verif.Proofs.XPathTree
/-!
  C04, tree layer: under a safety predicate on the tokens, on `found` and on every dict key of
  the tree, the resolver (`findD`, `starKeys`, `starIdx`, `findL`) never reaches the `new()`
  branch.  Hence it returns the root unchanged (purity) and can only fail with one of the
  classes `_get` funnels, or with the model-only outcomes `OutOfFuel`/`Unsupported` (totality).
  One induction on the fuel over the whole resolver proves both.
-/
namespace N0.XPath
open N0 N0.Py N0.Val

mutual
/-- every dict key anywhere in the value satisfies `P` -/
def SafeKeys (P : Str → Prop) : Val → Prop
  | .list _ xs => SafeKeysL P xs
  | .dict _ kvs => SafeKeysK P kvs
  | _ => True
def SafeKeysL (P : Str → Prop) : List Val → Prop
  | [] => True
  | x :: xs => SafeKeys P x ∧ SafeKeysL P xs
def SafeKeysK (P : Str → Prop) : List (Str × Val) → Prop
  | [] => True
  | (k, v) :: kvs => P k ∧ SafeKeys P v ∧ SafeKeysK P kvs
end

section
variable {P : Str → Prop}

theorem SafeKeysK_lookup {k : Str} {v : Val} : ∀ {kvs : List (Str × Val)},
    SafeKeysK P kvs → lookup k kvs = some v → SafeKeys P v
  | [], _, h => by simp [lookup] at h
  | (k', x) :: kvs, hs, h => by
    simp only [SafeKeysK] at hs
    simp only [lookup] at h
    split at h
    · cases h; exact hs.2.1
    · exact SafeKeysK_lookup hs.2.2 h

theorem SafeKeysK_keys : ∀ {kvs : List (Str × Val)}, SafeKeysK P kvs → ∀ k ∈ kvs.map Prod.fst, P k
  | [], _, k, h => by simp at h
  | (k', x) :: kvs, hs, k, h => by
    simp only [SafeKeysK] at hs
    simp only [List.map_cons, List.mem_cons] at h
    rcases h with rfl | h
    · exact hs.1
    · exact SafeKeysK_keys hs.2.2 k h

theorem SafeKeysL_mem : ∀ {xs : List Val}, SafeKeysL P xs → ∀ v ∈ xs, SafeKeys P v
  | [], _, v, h => by simp at h
  | x :: xs, hs, v, h => by
    simp only [SafeKeysL] at hs
    simp only [List.mem_cons] at h
    rcases h with rfl | h
    · exact hs.1
    · exact SafeKeysL_mem hs.2 v h

theorem SafeKeys_child {v c : Val} {s : Seg} (hv : SafeKeys P v) (h : child v s = some c) : SafeKeys P c := by
  cases v <;> cases s <;> simp only [child] at h <;> try cases h
  · rename_i cl xs i
    simp only [SafeKeys] at hv
    exact SafeKeysL_mem hv c (List.mem_of_getElem? h)
  · rename_i cl kvs k
    simp only [SafeKeys] at hv
    exact SafeKeysK_lookup hv h

theorem SafeKeys_getAt : ∀ {p : Pos} {v c : Val}, SafeKeys P v → getAt v p = some c → SafeKeys P c
  | [], v, c, hv, h => by simp only [getAt, Option.some.injEq] at h; subst h; exact hv
  | s :: p, v, c, hv, h => by
    simp only [getAt] at h
    cases hc : child v s with
    | none => simp [hc] at h
    | some x =>
      simp only [hc, Option.bind_some] at h
      exact SafeKeys_getAt (SafeKeys_child hv hc) h

/-- the object a parent reference denotes has safe keys -/
def SafeRef (P : Str → Prop) (root : Val) (r : PRef) : Prop := ∀ v, valOf root r = some v → SafeKeys P v

theorem SafeRef_at {root : Val} (h : SafeKeys P root) (p : Pos) : SafeRef P root (.at p) :=
  fun _ hv => SafeKeys_getAt h hv

theorem SafeRef_wrap {root : Val} {r : PRef} (h : SafeRef P root r) : SafeRef P root (.wrap r) := by
  intro v hv
  simp only [valOf] at hv
  cases hr : valOf root r with
  | none => simp [hr] at hv
  | some x =>
    simp only [hr, Option.map_some, Option.some.injEq] at hv
    subst hv
    simp only [SafeKeys, SafeKeysL, and_true]
    exact h x hr

theorem SafeRef_det_none {root : Val} : SafeRef P root (.det Val.none) := by
  intro v hv
  simp only [valOf, Option.some.injEq] at hv
  subst hv; simp [SafeKeys]

theorem SafeRef_child {root : Val} {r : PRef} (h : SafeRef P root r) (s : Seg) :
    SafeRef P root (childRef root r s) := by
  have hdet : ∀ c, (valOf root r).bind (fun v => child v s) = some c → SafeRef P root (.det c) := by
    intro c heq x hx
    simp only [valOf, Option.some.injEq] at hx
    subst hx
    obtain ⟨v, hv, hc⟩ := Option.bind_eq_some_iff.1 heq
    exact SafeKeys_child (h v hv) hc
  cases r with
  | «at» p =>
    intro v hv
    simp only [childRef, valOf] at hv
    rw [getAt_snoc] at hv
    cases hp : getAt root p with
    | none => simp [hp] at hv
    | some x =>
      simp only [hp, Option.bind_some] at hv
      exact SafeKeys_child (h x (by simpa [valOf] using hp)) hv
  | wrap r' =>
    cases s with
    | key k =>
      simp only [childRef]
      split
      · rename_i c heq; exact hdet c heq
      · exact SafeRef_det_none
    | idx i =>
      cases i with
      | zero =>
        simp only [childRef]
        intro v hv
        have := h (Val.list .plain [v]) (by simp [valOf, hv])
        simpa [SafeKeys, SafeKeysL] using this
      | succ n =>
        simp only [childRef]
        split
        · rename_i c heq; exact hdet c heq
        · exact SafeRef_det_none
  | det v =>
    simp only [childRef]
    split
    · rename_i c heq; exact hdet c heq
    · exact SafeRef_det_none

/-! ### what a search returns -/

/-- the name/index a result reports really addresses a child of the reported parent: a dict
parent has the reported key (and the key is a plain token), otherwise the parent is a list.
This is what keeps `parent[name]` in the `..` branch from raising KeyError. -/
def Linked (root : Val) (r : Res) : Prop :=
  ∀ ni, r.nameIdx = some ni → ∀ cpv, valOf root r.parent = some cpv →
    (∃ c kvs x, cpv = .dict c kvs ∧ lookup ni kvs = some x ∧ splitNameIndex ni = .ok (ni, .none) ∧ ni ≠ []) ∨
    isList cpv = true

structure Good (P : Str → Prop) (root : Val) (r : Res) : Prop where
  par : SafeRef P root r.parent
  found : P r.found
  ni : ∀ ni, r.nameIdx = some ni → P ni
  linked : Linked root r

/-- postcondition of a search on `root`: the root is returned unchanged with a good result, or
the search fails with a funnelled class (or a model-only outcome) -/
def Post (P : Str → Prop) (root : Val) : PyM (Val × Res) → Prop
  | .ok (root', r) => root' = root ∧ Good P root r
  | .error e => okErr e = true

def IHD (P : Str → Prop) (root : Val) (fuel : Nat) : Prop :=
  ∀ sp entry toks par rl found, SafeRef P root par → (∀ t ∈ toks, P t) → P found →
    Post P root (findD fuel root sp false entry toks par rl found)

def IHK (P : Str → Prop) (root : Val) (fuel : Nat) : Prop :=
  ∀ sp keys toks par rl found acc fst, SafeRef P root par → (∀ k ∈ keys, P k) → (∀ t ∈ toks, P t) → P found →
    (∀ f, fst = some f → Good P root f) →
    Post P root (starKeys fuel root sp false keys toks par rl found acc fst)

def IHI (P : Str → Prop) (root : Val) (fuel : Nat) : Prop :=
  ∀ sp n i rest par rl found acc fst all, SafeRef P root par → (∀ t ∈ rest, P t) → P found →
    (∀ f, fst = some f → Good P root f) →
    Post P root (starIdx fuel root sp false n i rest par rl found acc fst all)

theorem Post_err {root : Val} {e : PyErr} (h : okErr e = true) : Post P root (.error e) := h

theorem Good_mk_none {root : Val} {par : PRef} {found : Str} {v : Val} {nf : Option (List Str)}
    (hpar : SafeRef P root par) (hf : P found) :
    Good P root { parent := par, nameIdx := Option.none, value := v, found := found, notFound := nf } :=
  { par := hpar, found := hf, ni := fun _ h => (by cases h), linked := fun _ h => (by cases h) }

/-- the found text `'..'` continues with (fix C06-b puts the index of an index result back) is safe -/
theorem Good.upFound [SafePred P] {root : Val} {r : Res} (h : Good P root r) : P (upFound r) := by
  unfold XPath.upFound
  split
  · rename_i ni hni
    split
    · exact h.found
    · split
      · rename_i cn s hsp
        split
        · exact P_found_idx h.found (splitNameIndex_ok (P := P) (h.ni ni hni) hsp).2
        · exact h.found
      · exact h.found
  · exact h.found

theorem findD_step [SafePred P] (root : Val) (hroot : SafeKeys P root) (fuel : Nat)
    (ihD : IHD P root fuel) (ihK : IHK P root fuel) (ihI : IHI P root fuel) : IHD P root (fuel + 1) := by
  intro sp entry toks par rl found hpar htoks hfound
  cases toks with
  | nil =>
    rw [findD]
    simp only [Bool.false_and, Bool.false_eq_true, if_false]
    split
    · split
      · exact ⟨rfl, Good_mk_none hpar hfound⟩
      · exact Post_err rfl
    · exact ihD _ _ _ _ _ _ (SafeRef_at hroot sp) (P_tokenize hfound) P_slash
  | cons tok rest =>
    rw [findD]
    simp only [Bool.false_and, Bool.false_eq_true, if_false]
    have htok : P tok := htoks tok (by simp)
    have hrest : ∀ t ∈ rest, P t := fun t ht => htoks t (by simp [ht])
    split
    · exact Post_err rfl
    · rename_i pv hpv
      have hpvS : SafeKeys P pv := hpar pv hpv
      split
      · rename_i e he; exact Post_err (splitNameIndex_err he)
      · rename_i name idx hsplit
        obtain ⟨hname, hidx⟩ := splitNameIndex_ok (P := P) htok hsplit
        split
        · exact Post_err rfl
        · split
          · -- ####### key step #######
            rename_i hne
            split
            · -- `..`
              have hup := ihD sp false _ (.at sp) rl slash (SafeRef_at hroot sp) (P_upToks hfound) P_slash
              split
              · rename_i e he; rw [he] at hup; exact hup
              · rename_i root' cur hcur
                rw [hcur] at hup
                obtain ⟨hr, hg⟩ := hup
                subst hr
                split
                · exact Post_err rfl
                · rename_i cpv hcpv
                  split
                  · -- computing the node to go up from failed
                    rename_i e heq
                    split at heq
                    · rename_i ni hni
                      have hlink := hg.linked ni hni cpv hcpv
                      split at heq
                      · cases heq
                      · split at heq
                        · rename_i e' hsp; cases heq; exact Post_err (splitNameIndex_err hsp)
                        · rename_i cn ci hsp
                          split at heq
                          · split at heq
                            · cases heq
                            · rename_i e' hk
                              cases heq
                              rcases hlink with ⟨c, kvs, x, rfl, hl, hsn, _⟩ | hL
                              · rw [hsn] at hsp; cases hsp
                                simp [pyGetKey, hl] at hk
                              · cases cpv <;> simp only [isList, Bool.false_eq_true] at hL
                                simp only [pyGetKey, Except.error.injEq] at hk
                                subst hk; exact Post_err rfl
                          · rename_i hcn
                            split at heq
                            · split at heq
                              · rename_i e' hev; cases heq; rw [n0eval_err hev]; exact Post_err rfl
                              · split at heq
                                · rename_i e' hgi
                                  cases heq
                                  rcases hlink with ⟨c, kvs, x, rfl, hl, hsn, hne'⟩ | hL
                                  · rw [hsn] at hsp; cases hsp
                                  · rename_i ev hev _
                                    clear hev
                                    cases cpv <;> simp only [isList, Bool.false_eq_true] at hL
                                    cases ev <;> simp only [pyGetIdx] at hgi
                                    · split at hgi
                                      · cases hgi
                                      · cases hgi; exact Post_err rfl
                                    · cases hgi; exact Post_err rfl
                                · cases heq
                                · split at heq
                                  · cases heq
                                  · cases heq; exact Post_err rfl
                            · cases heq; exact Post_err rfl
                    · cases heq
                  · rename_i nxt heq
                    have hnxt : SafeRef P root' nxt := by
                      repeat' split at heq
                      all_goals first
                        | (cases heq; done)
                        | (cases heq; exact hg.par)
                        | (cases heq; exact SafeRef_child hg.par _)
                    split
                    · split
                      · split
                        · refine ihD _ _ _ _ _ _ hnxt ?_ hg.upFound
                          intro t ht
                          simp only [List.mem_cons] at ht
                          rcases ht with rfl | ht
                          · exact P_bracket hidx
                          · exact hrest t ht
                        · exact Post_err rfl
                      · exact ihD _ _ _ _ _ _ hnxt hrest hg.upFound
                    · split
                      · rename_i ni nv hni hnv
                        split
                        · exact Post_err rfl
                        · refine ⟨rfl, { par := hg.par, found := P_append_slash hfound (hg.ni ni hni), ni := ?_, linked := ?_ }⟩
                          · intro ni' h'; cases h'; exact hg.ni ni hni
                          · intro ni' h' cpv' hcpv'; cases h'
                            exact hg.linked ni hni cpv' hcpv'
                      · -- `'..'` surfaced to the root (fix C04-g)
                        split
                        · exact ⟨rfl, Good_mk_none hg.par hg.found⟩
                        · exact Post_err rfl
                      · exact Post_err rfl
                      · exact Post_err rfl
            · split
              · refine ihD _ _ _ _ _ _ hpar ?_ hfound
                intro t ht
                simp only [List.mem_cons] at ht
                rcases ht with rfl | rfl | ht
                · exact P_starTok
                · exact htok
                · exact hrest t ht
              · split
                · exact Post_err rfl
                · split
                  · -- `*`
                    refine ihK _ _ _ _ _ _ _ _ hpar ?_ htoks hfound (fun _ h => by cases h)
                    cases pv <;> simp only [dictKeys, List.not_mem_nil, false_implies, implies_true]
                    simp only [SafeKeys] at hpvS
                    exact SafeKeysK_keys hpvS
                  · split
                    · rename_i cl kvs _ _
                      have hcref : SafeRef P root (childRef root par (Seg.key name)) := SafeRef_child hpar _
                      have hf' : P (found ++ slash ++ name) := P_append_slash hfound hname
                      split
                      · exact ⟨rfl, Good_mk_none hpar hfound⟩
                      · rename_i cv hcv
                        split
                        · refine ⟨rfl, { par := hpar, found := hf', ni := ?_, linked := ?_ }⟩
                          · intro ni hni; cases hni; exact hname
                          · intro ni hni cpv hcpv
                            cases hni
                            simp only at hcpv
                            rw [hpv] at hcpv
                            cases hcpv
                            left
                            refine ⟨cl, kvs, cv, rfl, hcv, splitNameIndex_name hsplit, ?_⟩
                            intro h0; subst h0; simp at hne
                        · split
                          · exact ihD _ _ _ _ _ _ hcref hrest hf'
                          · refine ihD _ _ _ _ _ _ hcref ?_ hf'
                            intro t ht
                            simp only [List.mem_cons] at ht
                            rcases ht with rfl | ht
                            · exact P_bracket hidx
                            · exact hrest t ht
                          · refine ihD _ _ _ _ _ _ hcref ?_ hf'
                            intro t ht
                            simp only [List.mem_cons] at ht
                            rcases ht with rfl | ht
                            · exact P_condTok hidx.1 hidx.2.1 hidx.2.2
                            · exact hrest t ht
                    · exact Post_err rfl
          · -- ####### index step #######
            split
            · exact Post_err rfl
            · -- [s]
              rename_i s
              simp only [PIdx] at hidx
              split
              · -- [new()] (fix C04-a: the search writes nothing; no `KeyError` at the root)
                rename_i hnew; subst hnew
                have hre := ihD sp false _ (.at sp) rl slash (SafeRef_at hroot sp) (P_tokenize hfound) P_slash
                split
                · rename_i e he; rw [he] at hre; exact hre
                · rename_i root' cur hcur
                  rw [hcur] at hre
                  obtain ⟨hr, hg⟩ := hre
                  subst hr
                  split
                  · exact Post_err rfl
                  · rename_i cpv hcpv
                    split
                    · exact Post_err rfl
                    · rename_i ni hni
                      split
                      · split
                        · split
                          · exact ⟨rfl, Good_mk_none (SafeRef_child hg.par _) hg.found⟩
                          · exact ⟨rfl, Good_mk_none hg.par hg.found⟩
                        · exact ⟨rfl, Good_mk_none hg.par hg.found⟩
                      · split
                        · exact Post_err rfl
                        · split
                          · exact Post_err rfl
                          · split
                            · exact ⟨rfl, Good_mk_none (SafeRef_child hg.par _) hg.found⟩
                            · exact Post_err rfl
                      · exact Post_err rfl
              · split
                · -- [*]
                  split
                  · exact ihI _ _ _ _ _ _ _ _ _ _ hpar hrest hfound (fun _ h => by cases h)
                  · exact ihI _ _ _ _ _ _ _ _ _ _ (SafeRef_wrap hpar) hrest hfound (fun _ h => by cases h)
                · -- pure index
                  split
                  · rename_i e he; rw [n0eval_err he]; exact Post_err rfl
                  · rename_i ev hev
                    split
                    · exact Post_err rfl
                    · rename_i i
                      have hni : P (bracket (intStr i)) := P_bracket (P_intStr i)
                      have hwrapL : ∀ v, valOf root (PRef.wrap par) = some v → isList v = true := by
                        intro v hv
                        simp only [valOf, hpv, Option.map_some, Option.some.injEq] at hv
                        subst hv; rfl
                      have goodIdx : ∀ (par' : PRef) (v : Val) (nf : Option (List Str)), SafeRef P root par' →
                          (∀ x, valOf root par' = some x → isList x = true) →
                          Good P root { parent := par', nameIdx := some (bracket (intStr i)), value := v,
                                        found := found, notFound := nf } := by
                        intro par' v nf h1 h2
                        refine { par := h1, found := hfound, ni := ?_, linked := ?_ }
                        · intro ni hni; cases hni; exact hni
                        · intro ni _ cpv hcpv; right; exact h2 cpv hcpv
                      have hL : ∀ c xs, pv = Val.list c xs → ∀ v, valOf root par = some v → isList v = true := by
                        intro c xs hc v hv; rw [hpv, hc] at hv; cases hv; rfl
                      cases pv
                      all_goals
                        simp only
                        split
                        · first
                          | exact ⟨rfl, goodIdx _ _ _ hpar (hL _ _ rfl)⟩
                          | exact ⟨rfl, goodIdx _ _ _ (SafeRef_wrap hpar) hwrapL⟩
                        · split
                          · exact Post_err rfl
                          · split
                            · first
                              | exact ⟨rfl, goodIdx _ _ _ hpar (hL _ _ rfl)⟩
                              | exact ⟨rfl, goodIdx _ _ _ (SafeRef_wrap hpar) hwrapL⟩
                            · first
                              | exact ihD _ _ _ _ _ _ (SafeRef_child hpar _) hrest (P_found_idx hfound (P_intStr i))
                              | exact ihD _ _ _ _ _ _ (SafeRef_child (SafeRef_wrap hpar) _) hrest (P_found_idx hfound (P_intStr i))
            · -- [k op v]
              rename_i k op v _
              simp only [PIdx] at hidx
              obtain ⟨hk, hop, hv⟩ := hidx
              split
              · -- text() condition on the parent itself
                split
                · exact Post_err rfl
                · split
                  · rename_i e heq
                    split at heq
                    · cases heq
                    · split at heq
                      · cases heq
                      · cases heq; exact Post_err rfl
                  · split
                    · rename_i e heq
                      split at heq
                      · cases heq
                      · split at heq
                        · cases heq; exact Post_err rfl
                        · cases heq
                    · exact ihD _ _ _ _ _ _ hpar hrest hfound
                    · exact ⟨rfl, Good_mk_none hpar hfound⟩
              · -- condition on a child
                split
                · refine ihD _ _ _ _ _ _ hpar ?_ hfound
                  intro t ht
                  simp only [List.mem_cons] at ht
                  rcases ht with rfl | rfl | ht
                  · exact P_starTok
                  · exact htok
                  · exact hrest t ht
                · split
                  · exact ⟨rfl, Good_mk_none hpar hfound⟩
                  · refine ihD _ _ _ _ _ _ (SafeRef_child hpar _) ?_ (P_append_slash hfound hk)
                    intro t ht
                    simp only [List.mem_cons] at ht
                    rcases ht with rfl | rfl | ht
                    · exact P_textTok hop hv
                    · exact P_upTok
                    · exact hrest t ht
                · exact ⟨rfl, Good_mk_none hpar hfound⟩

theorem Good_of_fst {root : Val} {f : Res} {v : Val} (h : Good P root f) :
    Good P root { parent := f.parent, nameIdx := f.nameIdx, value := v, found := f.found, notFound := Option.none } :=
  { par := h.par, found := h.found, ni := h.ni, linked := h.linked }

theorem starKeys_step [SafePred P] (root : Val) (fuel : Nat)
    (ihD : IHD P root fuel) (ihK : IHK P root fuel) : IHK P root (fuel + 1) := by
  intro sp keys toks par rl found acc fst hpar hkeys htoks hfound hfst
  cases keys with
  | nil =>
    simp only [starKeys]
    cases fst with
    | some f => exact ⟨rfl, Good_of_fst (hfst f rfl)⟩
    | none => exact ⟨rfl, Good_mk_none hpar hfound⟩
  | cons k ks =>
    simp only [starKeys]
    have hk : P k := hkeys k (by simp)
    have hks : ∀ x ∈ ks, P x := fun x hx => hkeys x (by simp [hx])
    have h1 := ihD sp false (k :: toks) par rl found hpar
      (by intro t ht; simp only [List.mem_cons] at ht; rcases ht with rfl | ht; exact hk; exact htoks t ht) hfound
    split
    · rename_i e he; rw [he] at h1; exact h1
    · rename_i root' r hr
      rw [hr] at h1
      obtain ⟨hroot', hg⟩ := h1
      subst hroot'
      split
      · refine ihK _ _ _ _ _ _ _ _ hpar hks htoks hfound ?_
        intro f hf
        split at hf
        · cases hf; exact hfst _ rfl
        · cases hf; exact hg
      · exact ihK _ _ _ _ _ _ _ _ hpar hks htoks hfound hfst

theorem starIdx_step [SafePred P] (root : Val) (fuel : Nat)
    (ihD : IHD P root fuel) (ihI : IHI P root fuel) : IHI P root (fuel + 1) := by
  intro sp n i rest par rl found acc fst all hpar hrest hfound hfst
  rw [starIdx]
  split
  · cases fst with
    | some f => exact ⟨rfl, Good_of_fst (hfst f rfl)⟩
    | none => exact ⟨rfl, Good_mk_none hpar hfound⟩
  · have h1 := ihD sp false (bracket (natStr i) :: rest) par rl found hpar
      (by intro t ht; simp only [List.mem_cons] at ht; rcases ht with rfl | ht
          exact P_bracket (P_natStr i); exact hrest t ht) hfound
    split
    · rename_i e he; rw [he] at h1; exact h1
    · rename_i root' r hr
      rw [hr] at h1
      obtain ⟨hroot', hg⟩ := h1
      subst hroot'
      split
      · refine ihI _ _ _ _ _ _ _ _ _ _ hpar hrest hfound ?_
        intro f hf
        split at hf
        · cases hf; exact hfst _ rfl
        · cases hf; exact hg
      · exact ihI _ _ _ _ _ _ _ _ _ _ hpar hrest hfound hfst

/-- **The resolver never reaches `new()` from safe inputs**: purity and error classes of
`findD`, `starKeys`, `starIdx`, by induction on the fuel. -/
theorem find_post [SafePred P] (root : Val) (hroot : SafeKeys P root) :
    ∀ fuel, IHD P root fuel ∧ IHK P root fuel ∧ IHI P root fuel := by
  intro fuel
  induction fuel with
  | zero =>
    refine ⟨?_, ?_, ?_⟩
    · intro sp entry toks par rl found _ _ _; rw [findD]; exact Post_err rfl
    · intro sp keys toks par rl found acc fst _ _ _ _ _; rw [starKeys]; exact Post_err rfl
    · intro sp n i rest par rl found acc fst all _ _ _ _; rw [starIdx]; exact Post_err rfl
  | succ fuel ih =>
    obtain ⟨ihD, ihK, ihI⟩ := ih
    exact ⟨findD_step root hroot fuel ihD ihK ihI, starKeys_step root fuel ihD ihK, starIdx_step root fuel ihD ihI⟩

/-! ### list roots: `n0list._find` -/

def IHL (P : Str → Prop) (root : Val) (fuel : Nat) : Prop :=
  ∀ sp toks par rl found, SafeRef P root par → (∀ t ∈ toks, P t) → P found →
    Post P root (findL fuel root sp toks par rl found)

def IHLoop (P : Str → Prop) (root : Val) (fuel : Nat) : Prop :=
  ∀ sp par rl found tok rest i items acc fst, SafeRef P root par → (∀ t ∈ rest, P t) → P found →
    (∀ f, fst = some f → Good P root f) →
    Post P root (findL.loop sp par rl found tok rest fuel root i items acc fst)

theorem dispatchD_post [SafePred P] (root : Val) (hroot : SafeKeys P root) (fuel : Nat) (sp : Pos) (elem : PRef) (ev : Val)
    (toks : List Str) (rl : Bool) (found : Str) (helem : SafeRef P root elem) (htoks : ∀ t ∈ toks, P t)
    (hfound : P found) : Post P root (dispatchD fuel root sp elem ev toks rl found) := by
  unfold dispatchD
  split
  · exact (find_post root hroot fuel).1 _ _ _ _ _ _ helem htoks hfound
  · exact Post_err rfl

theorem findL_loop_step [SafePred P] (root : Val) (hroot : SafeKeys P root) (fuel : Nat)
    (ihL : IHL P root fuel) (ihLoop : IHLoop P root fuel) : IHLoop P root (fuel + 1) := by
  intro sp par rl found tok rest i items acc fst hpar hrest hfound hfst
  cases items with
  | nil =>
    simp only [findL.loop]
    cases fst with
    | some f => exact ⟨rfl, Good_of_fst (hfst f rfl)⟩
    | none => exact ⟨rfl, Good_mk_none hpar hfound⟩
  | cons it its =>
    simp only [findL.loop]
    have heref : SafeRef P root (childRef root par (Seg.idx i)) := SafeRef_child hpar _
    have hf' : P (found ++ bracket (natStr i)) := P_found_idx hfound (P_natStr i)
    split
    · rename_i e he
      split at he
      · rw [← he]; exact dispatchD_post root hroot fuel sp _ _ rest rl _ heref hrest hf'
      · rw [← he]; exact ihL sp rest _ rl _ heref hrest hf'
      · cases he; exact Post_err rfl
    · rename_i root' r hr
      have h1 : Post P root (Except.ok (root', r)) := by
        split at hr
        · rw [← hr]; exact dispatchD_post root hroot fuel sp _ _ rest rl _ heref hrest hf'
        · rw [← hr]; exact ihL sp rest _ rl _ heref hrest hf'
        · cases hr
      obtain ⟨hroot', hg⟩ := h1
      subst hroot'
      split
      · refine ihLoop _ _ _ _ _ _ _ _ _ _ hpar hrest hfound ?_
        intro f hf
        split at hf
        · cases hf; exact hfst _ rfl
        · cases hf; exact hg
      · exact ihLoop _ _ _ _ _ _ _ _ _ _ hpar hrest hfound hfst

theorem findL_step [SafePred P] (root : Val) (hroot : SafeKeys P root) (fuel : Nat)
    (ihL : IHL P root fuel) (ihLoop : IHLoop P root fuel) : IHL P root (fuel + 1) := by
  intro sp toks par rl found hpar htoks hfound
  cases toks with
  | nil =>
    rw [findL]
    split
    · split
      · exact ⟨rfl, Good_mk_none hpar hfound⟩
      · exact Post_err rfl
    · exact ihL _ _ _ _ _ (SafeRef_at hroot sp) (P_tokenize hfound) P_slash
  | cons tok rest =>
    rw [findL]
    have htok : P tok := htoks tok (by simp)
    have hrest : ∀ t ∈ rest, P t := fun t ht => htoks t (by simp [ht])
    split
    · exact Post_err rfl
    · rename_i pv hpv
      split
      · rename_i e he; exact Post_err (splitNameIndex_err he)
      · rename_i name idx hsplit
        obtain ⟨hname, hidx⟩ := splitNameIndex_ok (P := P) htok hsplit
        split
        · exact (find_post root hroot fuel).1 _ _ _ _ _ _ hpar htoks hfound
        · split
          · exact Post_err rfl
          · exact (find_post root hroot fuel).1 _ _ _ _ _ _ hpar htoks hfound
          · rename_i s _
            simp only [PIdx] at hidx
            split
            · -- [*]
              simp only
              split
              · rename_i e he; split at he <;> cases he; exact Post_err rfl
              · exact ihLoop _ _ _ _ _ _ _ _ _ _ hpar hrest hfound (fun _ h => by cases h)
            · split
              · rename_i e he; rw [n0eval_err he]; exact Post_err rfl
              · rename_i ev hev
                clear hev
                have hwrapL : ∀ v, valOf root (PRef.wrap par) = some v → isList v = true := by
                  intro v hv
                  simp only [valOf, hpv, Option.map_some, Option.some.injEq] at hv
                  subst hv; rfl
                have hL : ∀ c xs, pv = Val.list c xs → ∀ v, valOf root par = some v → isList v = true := by
                  intro c xs hc v hv; rw [hpv, hc] at hv; cases hv; rfl
                cases ev with
                | str _ => cases pv <;> exact Post_err rfl
                | int i =>
                  have goodIdx : ∀ (par' : PRef) (v : Val) (nf : Option (List Str)), SafeRef P root par' →
                      (∀ x, valOf root par' = some x → isList x = true) →
                      Good P root { parent := par', nameIdx := some (bracket (intStr i)), value := v,
                                    found := found, notFound := nf } := by
                    intro par' v nf h1 h2
                    refine { par := h1, found := hfound, ni := ?_, linked := ?_ }
                    · intro ni hni; cases hni; exact P_bracket (P_intStr i)
                    · intro ni _ cpv hcpv; right; exact h2 cpv hcpv
                  have hfi : P (found ++ bracket (intStr i)) := P_found_idx hfound (P_intStr i)
                  cases pv
                  all_goals
                    simp only
                    split
                    · first
                      | exact ⟨rfl, goodIdx _ _ _ hpar (hL _ _ rfl)⟩
                      | exact ⟨rfl, goodIdx _ _ _ (SafeRef_wrap hpar) hwrapL⟩
                    · split
                      · exact Post_err rfl
                      · split
                        · first
                          | exact ⟨rfl, goodIdx _ _ _ hpar (hL _ _ rfl)⟩
                          | exact ⟨rfl, goodIdx _ _ _ (SafeRef_wrap hpar) hwrapL⟩
                        · split
                          · first
                            | exact dispatchD_post root hroot fuel sp _ _ rest rl _ (SafeRef_child hpar _) hrest hfi
                            | exact dispatchD_post root hroot fuel sp _ _ rest rl _ (SafeRef_child (SafeRef_wrap hpar) _) hrest hfi
                          · first
                            | exact ihL sp rest _ rl _ (SafeRef_child hpar _) hrest hfi
                            | exact ihL sp rest _ rl _ (SafeRef_child (SafeRef_wrap hpar) _) hrest hfi
                          · exact Post_err rfl

theorem findL_post [SafePred P] (root : Val) (hroot : SafeKeys P root) :
    ∀ fuel, IHL P root fuel ∧ IHLoop P root fuel := by
  intro fuel
  induction fuel with
  | zero =>
    refine ⟨?_, ?_⟩
    · intro sp toks par rl found _ _ _; rw [findL]; exact Post_err rfl
    · intro sp par rl found tok rest i items acc fst _ _ _ _; rw [findL.loop]; exact Post_err rfl
  | succ fuel ih =>
    exact ⟨findL_step root hroot fuel ih.1 ih.2, findL_loop_step root hroot fuel ih.1 ih.2⟩

end
end N0.XPath
