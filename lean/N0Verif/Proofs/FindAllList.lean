import N0Verif.Proofs.FindAllDesc
/-!
  `findall` on a **list-rooted** container (`n0list.findall` hands `self` to the same `_findall`
  as `n0dict.findall` does; the model has one entry point `findallTop` for both roots).

  What differs from a dict root: the search starts with an empty path list on a *list* node, so the
  first `[*]`/index step rebinds the local name to `[""]` and the first element of the path list is
  a group without a name (`"[0]"`, `"[1][0]"`); the keys reported are `"//" ++ "[0]/a/b[1]"`.

  * part 1: the descendant search `//*/name` (document order, exactly the nodes called `name`);
  * part 2: the invariant "the path list renders the position of the current node" through every
    branch of `_findall` for a list root, hence every key of every result spells its value.

  All names carry the prefix `fal` / `Fal` (namespace `N0.FindAll` is shared).
-/
namespace N0.FindAll
open N0 N0.Py N0.Val N0.XPath

/-! ## part 1: the descendant search below a list root -/

/-- positions below a list root: empty, or starting with an index -/
def FalRooted : Pos → Prop
  | [] => True
  | .idx _ :: _ => True
  | .key _ :: _ => False

/-- `found_xpath_list[-1] += "[n]"` whatever the list is (an empty one is rebound to `[""]` first) -/
theorem fal_bump_eq (fl : FL) (n : Nat) :
    bump fl n = fl.dropLast ++ [fl.getLast?.getD [] ++ bracket (natRepr n)] := by
  cases fl with
  | nil => simp [bump, setLast]
  | cons x r => simp [bump, setLast]

theorem fal_flPath_ne {q : Pos} (h : FalRooted q) (hne : q ≠ []) : flPath [] q ≠ [] := by
  cases q with
  | nil => exact absurd rfl hne
  | cons a r => cases a with
    | key k => exact h.elim
    | idx n => exact fad_flPath_ne r _ (bump_ne_nil [] n)

theorem fal_rooted_snoc {q : Pos} (h : FalRooted q) (s : Seg) (hs : q = [] → ∃ n, s = .idx n) :
    FalRooted (q ++ [s]) := by
  cases q with
  | nil => obtain ⟨n, rfl⟩ := hs rfl; trivial
  | cons a r => cases a with
    | key k => exact h.elim
    | idx n => trivial

/-- the key `findall` reports for a position below a list root: `"//"` followed by the rendered
position (`//[0]/a/b[1]`) -/
theorem fal_keyOf_rooted {q : Pos} (h : FalRooted q) (hne : q ≠ []) (hp : PlainPos q) :
    keyOf (flPath [] q) = '/' :: '/' :: renderPos q := by
  cases q with
  | nil => exact absurd rfl hne
  | cons a r => cases a with
    | key k => exact h.elim
    | idx n =>
      have hb : bump [] n = [bracket (natRepr n)] := by simp [bump, setLast]
      have h1 : join ['/'] (flPath [] (.idx n :: r)) = bracket (natRepr n) ++ renderPos r := by
        rw [flPath, join_flPath r (bump [] n) (bump_ne_nil [] n), hb]
        simp [join]
      have h2 : renderPos (.idx n :: r) = bracket (natRepr n) ++ renderPos r := by
        simp [renderPos, renderSeg, natStr]
      have h3 := delSB_render (.idx n :: r) hp
      simp only [keyOf, h1]
      rw [← h2, h3]

/-- the pairs reported for the nodes `l` found below the node at position `q` of a list root -/
def falMapR (q : Pos) (l : List (Pos × Val)) : Found :=
  l.map (fun pv => ('/' :: '/' :: renderPos (q ++ pv.1), pv.2))

theorem falMapR_append (q : Pos) (a b : List (Pos × Val)) : falMapR q (a ++ b) = falMapR q a ++ falMapR q b := by
  simp [falMapR]

theorem falMapR_snoc (q : Pos) (s : Seg) (l : List (Pos × Val)) :
    falMapR (q ++ [s]) l = falMapR q (l.map (fun pv => (s :: pv.1, pv.2))) := by
  simp [falMapR, List.map_map, Function.comp_def]

section desc
variable (re : Bool) (name : Str)

def FalPV (v : Val) : Prop :=
  isContainer v = true → KeysOkV v → ContOkV v → ∃ N, ∀ fuel ≥ N, ∀ (q : Pos) (ps : PS),
    FalRooted q → q ≠ [] → PlainPos q →
    ((falMapR q (descV name v)).map Prod.fst).Nodup →
    (fa re fuel v (fadT name) (flPath [] q) ps).res = .ok (some (falMapR q (descV name v)))

def FalPK (kvs : List (Str × Val)) : Prop :=
  KeysOkK kvs → ContOkK kvs → ∃ N, ∀ fuel ≥ N, ∀ (q : Pos) (ps : PS) (acc : Found),
    FalRooted q → q ≠ [] → PlainPos q →
    ((acc ++ falMapR q (descK name kvs)).map Prod.fst).Nodup →
    keysLoop (fun k c => fa re fuel c (fadT name) (flPath [] q ++ [k]) ps) kvs acc =
      .ok (some (acc ++ falMapR q (descK name kvs)))

/-- the `[*]` loop; `q = []` is the root itself (its path list `[]` was rebound to `[""]`) -/
def FalPL (xs : List Val) : Prop :=
  KeysOkL xs → ContOkL xs → ∃ N, ∀ fuel ≥ N, ∀ (q : Pos) (ps : PS) (node : Val) (i : Nat) (cur : FL) (acc : Found),
    FalRooted q → PlainPos q → cur.dropLast = (flPath [] q).dropLast →
    ((acc ++ falMapR q (descL name i xs)).map Prod.fst).Nodup →
    (starLoop (fun x cur1 => fa re fuel x (fadT name) cur1 (push ps cur1 node)) re
      ((flPath [] q).getLast?.getD []) i xs cur acc).1 = .ok (some (acc ++ falMapR q (descL name i xs)))

theorem fal_desc_dict (hn : PlainKey name) (c : Cls) (kvs : List (Str × Val)) (hk : FalPK re name kvs) :
    FalPV re name (.dict c kvs) := by
  intro _ hko hco
  simp only [KeysOkV, ContOkV] at hko hco
  obtain ⟨N, hN⟩ := hk hko hco
  refine ⟨N + 3, fun fuel hf q ps hr hq hp hnd => ?_⟩
  obtain ⟨f, rfl⟩ : ∃ f, fuel = f + 3 := ⟨fuel - 3, by omega⟩
  have h1 := fad_self_check re hn f c kvs (flPath [] q) ps
  have h2 := fad_star_dict re (f + 2) c kvs [name] (flPath [] q) ps _ h1
  show (fa re (f + 2 + 1) (.dict c kvs) (['*'] :: [name]) (flPath [] q) ps).res = _
  rw [h2]
  simp only
  have hpn : PlainPos (q ++ [Seg.key name]) := fad_plainPos_append hp ⟨hn, trivial⟩
  have hkey : keyOf (flPath [] q ++ [name]) = '/' :: '/' :: renderPos (q ++ [Seg.key name]) := by
    rw [← fad_flPath_snoc_key]
    exact fal_keyOf_rooted (fal_rooted_snoc hr _ (fun h => absurd h hq)) (by simp) hpn
  simp only [descV, falMapR_append] at hnd ⊢
  revert hnd
  cases hl : lookup name kvs with
  | none =>
    intro hnd
    exact hN (f + 2) (by omega) q _ _ hr hq hp hnd
  | some x =>
    intro hnd
    have hacc : upd [] (some [(keyOf (flPath [] q ++ [name]), x)]) = falMapR q [([Seg.key name], x)] := by
      simp only [hkey]; rfl
    simp only [hacc]
    exact hN (f + 2) (by omega) q _ _ hr hq hp hnd

theorem fal_desc_list (c : Cls) (xs : List Val) (hl : FalPL re name xs) : FalPV re name (.list c xs) := by
  intro _ hko hco
  simp only [KeysOkV, ContOkV] at hko hco
  obtain ⟨N, hN⟩ := hl hko hco
  refine ⟨N + 2, fun fuel hf q ps hr hq hp hnd => ?_⟩
  obtain ⟨f, rfl⟩ : ∃ f, fuel = f + 2 := ⟨fuel - 2, by omega⟩
  show (fa re (f + 2) (.list c xs) (['*'] :: [name]) (flPath [] q) ps).res = _
  rw [fad_star_list re f c xs [name] (flPath [] q) ps (fal_flPath_ne hr hq)]
  simp only [descV] at hnd ⊢
  have := hN f (by omega) q ps (.list c xs) 0 (flPath [] q) [] hr hp rfl (by simpa using hnd)
  simpa [fadT] using this

theorem fal_desc_kcons (k : Str) (c : Val) (kvs : List (Str × Val)) (hv : FalPV re name c) (hk : FalPK re name kvs) :
    FalPK re name ((k, c) :: kvs) := by
  intro hko hco
  simp only [KeysOkK, ContOkK] at hko hco
  obtain ⟨hpk, _, hkc, hkk⟩ := hko
  obtain ⟨N2, hN2⟩ := hk hkk hco.2
  by_cases hc : isContainer c = true
  · obtain ⟨N1, hN1⟩ := hv hc hkc hco.1
    refine ⟨max N1 N2, fun fuel hf q ps acc hr hq hp hnd => ?_⟩
    have hf1 : fuel ≥ N1 := by omega
    have hf2 : fuel ≥ N2 := by omega
    simp only [descK, falMapR_append] at hnd ⊢
    rw [← falMapR_snoc] at hnd ⊢
    obtain ⟨hd1, hd2, hd3⟩ := fad_nodup_split hnd
    have hcall := hN1 fuel hf1 (q ++ [Seg.key k]) ps (fal_rooted_snoc hr _ (fun h => absurd h hq)) (by simp)
      (fad_plainPos_append hp ⟨hpk, trivial⟩) hd1
    rw [fad_flPath_snoc_key] at hcall
    simp only [keysLoop, hc, if_true, hcall]
    rw [fad_upd_append _ _ hd2, hN2 fuel hf2 q ps _ hr hq hp hd3, List.append_assoc]
  · have hc' : isContainer c = false := by simpa using hc
    refine ⟨N2, fun fuel hf q ps acc hr hq hp hnd => ?_⟩
    simp only [descK, fad_descV_scalar name c hc', List.map_nil, List.nil_append] at hnd ⊢
    simp only [keysLoop, hc', Bool.false_eq_true, if_false]
    exact hN2 fuel hf q ps acc hr hq hp hnd

theorem fal_desc_lcons (x : Val) (xs : List Val) (hv : FalPV re name x) (hl : FalPL re name xs) :
    FalPL re name (x :: xs) := by
  intro hko hco
  simp only [KeysOkL, ContOkL] at hko hco
  obtain ⟨hcx, hcv, hcl⟩ := hco
  obtain ⟨N1, hN1⟩ := hv hcx hko.1 hcv
  obtain ⟨N2, hN2⟩ := hl hko.2 hcl
  refine ⟨max N1 N2, fun fuel hf q ps node i cur acc hr hp hcur hnd => ?_⟩
  have hf1 : fuel ≥ N1 := by omega
  have hf2 : fuel ≥ N2 := by omega
  simp only [descL, falMapR_append] at hnd ⊢
  rw [← falMapR_snoc] at hnd ⊢
  obtain ⟨hd1, hd2, hd3⟩ := fad_nodup_split hnd
  have hcur1 : setLast cur ((flPath [] q).getLast?.getD [] ++ bracket (natRepr i)) = flPath [] (q ++ [Seg.idx i]) := by
    rw [fad_flPath_snoc_idx, fal_bump_eq]
    simp only [setLast, hcur]
  have hcall := hN1 fuel hf1 (q ++ [Seg.idx i]) (push ps (flPath [] (q ++ [Seg.idx i])) node)
    (fal_rooted_snoc hr _ (fun _ => ⟨i, rfl⟩)) (by simp)
    (fad_plainPos_append hp (by trivial)) hd1
  simp only [starLoop, hcx, if_true, hcur1, hcall]
  rw [fad_upd_append _ _ hd2]
  have hdl : (fa re fuel x (fadT name) (flPath [] (q ++ [Seg.idx i])) (push ps (flPath [] (q ++ [Seg.idx i])) node)).fl.dropLast
      = (flPath [] q).dropLast := by
    rw [fa_dl, ← hcur1, setLast_dropLast, hcur]
  rw [hN2 fuel hf2 q ps node (i + 1) _ _ hr hp hdl hd3, List.append_assoc]

theorem fal_desc_all (hn : PlainKey name) :
    (∀ v, FalPV re name v) ∧ (∀ kvs, FalPK re name kvs) ∧ (∀ xs, FalPL re name xs) := by
  refine fad_val_ind (fun c kvs h => fal_desc_dict re name hn c kvs h) (fun c xs h => fal_desc_list re name c xs h)
    (fun v hv hc => by rw [hv] at hc; cases hc) ?_ (fun k c kvs h1 h2 => fal_desc_kcons re name k c kvs h1 h2) ?_
    (fun x xs h1 h2 => fal_desc_lcons re name x xs h1 h2)
  · intro _ _
    exact ⟨0, fun fuel _ q ps acc _ _ _ _ => by simp [keysLoop, descK, falMapR]⟩
  · intro _ _
    exact ⟨0, fun fuel _ q ps node i cur acc _ _ _ _ => by simp [starLoop, descL, falMapR]⟩

end desc

/-- a name (here `*`) applied to the list root: the `[*]` loop on the rebound path list `[""]` -/
theorem fal_star_root (re : Bool) (f : Nat) (c : Cls) (xs : List Val) (rest : List Str) (ps : PS) :
    (fa re (f + 2) (.list c xs) (['*'] :: rest) [] ps).res =
      (starLoop (fun x cur1 => fa re f x (['*'] :: rest) cur1 (push ps cur1 (.list c xs))) re
        [] 0 xs [[]] []).1 := by
  have hs : classify ['*'] = .name ['*'] := by decide
  have hb : classify ['[', '*', ']'] = .star := by decide
  simp only [fa, step, hs, stepName, hb, stepStar, List.isEmpty_nil, if_true]
  rfl

theorem fal_keys_nodup (l : List (Pos × Val)) (hd : FadDistinct l) (hp : ∀ pv ∈ l, PlainPos pv.1) :
    ((falMapR [] l).map Prod.fst).Nodup := by
  simp only [falMapR, List.map_map]
  refine List.pairwise_map.2 (hd.imp_of_mem ?_)
  intro a b ha hb hne heq
  simp only [Function.comp, List.nil_append, List.cons.injEq, true_and] at heq
  exact hne (fad_renderPos_inj _ _ (hp a ha) (hp b hb) heq)

/-- **`'//*/name'` on a list root**: exactly the pairs of `descV`, keys `"//" ++` rendered position,
document order -/
theorem fal_descendant (re : Bool) {name : Str} (hn : PlainKey name) (c : Cls) (xs : List Val)
    (hko : KeysOkV (.list c xs)) (hco : ContOkV (.list c xs)) :
    ∃ N, ∀ fuel ≥ N, (fa re fuel (.list c xs) (fadT name) [] []).res =
      .ok (some ((descV name (.list c xs)).map (fun pv => ('/' :: '/' :: renderPos pv.1, pv.2)))) := by
  have hko' : KeysOkL xs := by simpa only [KeysOkV] using hko
  have hco' : ContOkL xs := by simpa only [ContOkV] using hco
  obtain ⟨N, hN⟩ := (fal_desc_all re name hn).2.2 xs hko' hco'
  refine ⟨N + 2, fun fuel hf => ?_⟩
  obtain ⟨f, rfl⟩ : ∃ f, fuel = f + 2 := ⟨fuel - 2, by omega⟩
  have hnd := fal_keys_nodup _ ((fad_desc_distinct name).1 _ hko).1 (fad_desc_plain hko)
  simp only [descV] at hnd ⊢
  have := hN f (by omega) [] [] (.list c xs) 0 [[]] [] trivial trivial rfl (by simpa using hnd)
  show (fa re (f + 2) (.list c xs) (['*'] :: [name]) [] []).res = _
  rw [fal_star_root]
  simpa [fadT, falMapR, flPath] using this

/-! ## part 2: the found-path list of a search on a list root

The path list is `[]` (at the root), or a first element without a name that carries the indexes
applied so far (`"[1][0]"`) followed by ordinary groups (`a`, `b[2]`).  It is described by the
integer indexes `is` of that first element and the groups `gs` that follow. -/

/-- text of the first element: `"[1][0]"` -/
def falT (is : List Int) : Str := is.flatMap (fun i => bracket (intRepr i))

/-- contents of the path list -/
def falFl (is : List Int) (gs : List Grp) : FL := if is = [] then [] else falT is :: flOfG gs

/-- the steps it spells -/
def falSteps (is : List Int) (gs : List Grp) : List StepSp :=
  is.map (fun i => StepSp.idx (spOfInt i) false) ++ stepsOfG gs

theorem falT_snoc (is : List Int) (i : Int) : falT (is ++ [i]) = falT is ++ bracket (intRepr i) := by
  simp [falT]

theorem falT_ne {is : List Int} (h : is ≠ []) : falT is ≠ [] := by
  cases is with
  | nil => exact absurd rfl h
  | cons i r => simp [falT, bracket]

theorem falT_head {is : List Int} (h : is ≠ []) : ∃ t, falT is = '[' :: t := by
  cases is with
  | nil => exact absurd rfl h
  | cons i r => exact ⟨_, by simp [falT, bracket]; rfl⟩

theorem falT_noSlash (is : List Int) : ∀ c ∈ falT is, c ≠ '/' := by
  intro c hc
  simp only [falT, List.mem_flatMap] at hc
  obtain ⟨i, _, hc⟩ := hc
  have := bracketSp_noSlash (spOfInt i) c
  rw [spOfInt_text] at this
  exact this hc

theorem falFl_ne {is : List Int} (h : is ≠ []) (gs : List Grp) : falFl is gs = falT is :: flOfG gs := by
  simp [falFl, h]

theorem fal_plainSteps_idx (is : List Int) (t : List StepSp) (ht : PlainSteps t) :
    PlainSteps (is.map (fun i => StepSp.idx (spOfInt i) false) ++ t) := by
  induction is with
  | nil => exact ht
  | cons i r ih => exact ih

theorem fal_plainSteps (is : List Int) (gs : List Grp) (h : GrpsPlain gs) : PlainSteps (falSteps is gs) :=
  fal_plainSteps_idx is _ (fad_plainSteps gs h)

theorem fal_renderSteps_idx (is : List Int) :
    renderSteps (is.map (fun i => StepSp.idx (spOfInt i) false)) = falT is := by
  induction is with
  | nil => rfl
  | cons i r ih =>
    simp only [List.map_cons, renderSteps_cons, renderStep, spOfInt_text, ih, falT, List.flatMap_cons]

theorem fal_renderSteps (is : List Int) (gs : List Grp) : renderSteps (falSteps is gs) = falT is ++ grpsR gs := by
  have happ : ∀ a b : List StepSp, renderSteps (a ++ b) = renderSteps a ++ renderSteps b := by
    intro a b; simp [renderSteps]
  rw [falSteps, happ, fal_renderSteps_idx, fad_renderSteps_groups]

/-- `replace('/[', '[')` does nothing to the joined groups preceded by their '/' -/
theorem fal_delSB_grpsR (gs : List Grp) (h : GrpsPlain gs) : delSB (grpsR gs) = grpsR gs := by
  cases gs with
  | nil => rfl
  | cons g r =>
    rw [← fad_slash_join (g :: r) (by simp)]
    obtain ⟨c, t, hct, hc⟩ := fad_join_head g r (h g (by simp))
    have : delSB ('/' :: join ['/'] (flOfG (g :: r))) = '/' :: delSB (join ['/'] (flOfG (g :: r))) := by
      rw [delSB, hct]
      simp [hc]
    rw [this, fad_delSB_join _ h]

theorem fal_join (is : List Int) (gs : List Grp) : join ['/'] (falT is :: flOfG gs) = falT is ++ grpsR gs := by
  cases gs with
  | nil => simp [flOfG, join, grpsR]
  | cons g r =>
    have e : join ['/'] (falT is :: flOfG (g :: r)) = falT is ++ ['/'] ++ join ['/'] (flOfG (g :: r)) :=
      join_cons_of_ne_nil _ _ _ (by simp [flOfG])
    rw [e, ← fad_slash_join (g :: r) (by simp)]
    simp

/-- the key reported for a non-empty path list of a list-rooted search -/
theorem fal_keyOf {is : List Int} (hi : is ≠ []) (gs : List Grp) (h : GrpsPlain gs) :
    keyOf (falFl is gs) = '/' :: '/' :: (falT is ++ grpsR gs) := by
  rw [falFl_ne hi, keyOf, fal_join, delSB_append_noSlash _ _ (falT_noSlash is), fal_delSB_grpsR gs h]

theorem fal_keyOf_nil : keyOf [] = ['/', '/'] := rfl

/-- **the key `findall` reports on a list root is the `//` spelling of the steps** -/
theorem fal_keyOf_renderSp (is : List Int) (gs : List Grp) (hh : is = [] → gs = []) (h : GrpsPlain gs) :
    keyOf (falFl is gs) = renderSp .two (falSteps is gs) := by
  by_cases hi : is = []
  · subst hi
    rw [hh rfl]
    rfl
  · rw [fal_keyOf hi gs h, renderSp, fal_renderSteps]
    obtain ⟨t, ht⟩ := falT_head hi
    simp [leadStr, dropSlash, ht]

theorem fal_keyOf_ne_root {is : List Int} (hi : is ≠ []) (gs : List Grp) (h : GrpsPlain gs) :
    keyOf (falFl is gs) ≠ keyOf [] := by
  rw [fal_keyOf hi gs h, fal_keyOf_nil]
  obtain ⟨t, ht⟩ := falT_head hi
  simp [ht]

theorem fal_take_prefix_ne {is : List Int} (hi : is ≠ []) {gs : List Grp} (hp : GrpsPlain gs) {m : Nat}
    (hm : m < gs.length) : keyOf (falFl is (gs.take m)) ≠ keyOf (falFl is gs) := by
  have e : gs.take m ++ gs.drop m = gs := List.take_append_drop m gs
  have hd : gs.drop m ≠ [] := by
    intro h
    have := congrArg List.length h
    simp at this
    omega
  have h1 : GrpsPlain (gs.take m) := fun g hg => hp g (List.mem_of_mem_take hg)
  have h2 : GrpsPlain (gs.drop m) := fun g hg => hp g (List.mem_of_mem_drop hg)
  rw [fal_keyOf hi _ h1, fal_keyOf hi _ hp]
  intro heq
  simp only [List.cons.injEq, true_and] at heq
  have h3 := List.append_cancel_left heq
  have h4 : grpsR gs = grpsR (gs.take m) ++ grpsR (gs.drop m) := by rw [← fad_grpsR_append, e]
  rw [h4] at h3
  have h5 := congrArg List.length h3
  have h6 := fad_grpsR_len h2 hd
  simp only [List.length_append] at h5
  omega

/-! ### the invariant -/

/-- invariant of a call `_findall(node, …, found_xpath_list = fl, parent_nodes_stack = ps)` inside
a search on the list `root`: the path list spells a walk from the root to `node`; the root key
`'//'`, if registered, is registered with the root; every proper prefix of the path list that is
registered in the stack is registered with the node that prefix leads to -/
structure FalInv (root : Val) (is : List Int) (gs : List Grp) (node : Val) (fl : FL) (ps : PS) : Prop where
  plain : GrpsPlain gs
  head : is = [] → gs = []
  fl_eq : fl = falFl is gs
  at_ : stepsGet root (falSteps is gs) = some node
  stack0 : ∀ nd, lookup (keyOf []) ps = some nd → nd = root
  stack : ∀ m, m < gs.length → ∀ nd, lookup (keyOf (falFl is (gs.take m))) ps = some nd →
    stepsGet root (falSteps is (gs.take m)) = some nd

theorem fal_steps_nil : falSteps [] [] = [] := rfl

theorem FalInv.start (root : Val) : FalInv root [] [] root [] [] where
  plain := fun _ h => by cases h
  head := fun _ => rfl
  fl_eq := rfl
  at_ := by rw [fal_steps_nil]; exact fad_stepsGet_nil root
  stack0 := fun nd h => by cases h
  stack := fun m h => by simp at h

/-- below a list root a path list is empty only at the root -/
theorem FalInv.is_ne {root : Val} {is : List Int} {gs : List Grp} {node : Val} {fl : FL} {ps : PS}
    (h : FalInv root is gs node fl ps) (hne : node ≠ root) : is ≠ [] := by
  intro hi
  subst hi
  have hg := h.head rfl
  subst hg
  have := h.at_
  rw [fal_steps_nil, fad_stepsGet_nil] at this
  cases this
  exact hne rfl

theorem fal_falSteps_snoc_key (is : List Int) (gs : List Grp) (k : Str) :
    falSteps is (gs ++ [(k, [])]) = falSteps is gs ++ [StepSp.key k] := by
  simp [falSteps, fad_stepsOfG_snoc_key]

/-- a name step (also the descent of `*` into a child) -/
theorem FalInv.key {root : Val} {is : List Int} {gs : List Grp} {c : Cls} {kvs : List (Str × Val)} {fl : FL} {ps : PS}
    (h : FalInv root is gs (.dict c kvs) fl ps) (hroot : ∃ c xs, root = .list c xs) {k : Str} {child : Val}
    (hk : PlainKey k) (hl : lookup k kvs = some child) :
    FalInv root is (gs ++ [(k, [])]) child (fl ++ [k]) (push ps fl (.dict c kvs)) := by
  have hi : is ≠ [] := h.is_ne (by obtain ⟨c', xs, rfl⟩ := hroot; intro h'; cases h')
  have hpl : GrpsPlain (gs ++ [(k, [])]) := by
    intro g hg
    simp only [List.mem_append, List.mem_singleton] at hg
    rcases hg with hg | rfl
    · exact h.plain g hg
    · exact hk
  refine ⟨hpl, fun h' => absurd h' hi, ?_, ?_, ?_, ?_⟩
  · simp [falFl, hi, flOfG, grpText, h.fl_eq]
  · rw [fal_falSteps_snoc_key, fad_stepsGet_append, h.at_]
    simp [stepsGet, hl]
  · intro nd hlk
    rw [push, lookup_kvSet_other _ _ _ _ (by rw [h.fl_eq]; exact (fal_keyOf_ne_root hi gs h.plain).symm)] at hlk
    exact h.stack0 nd hlk
  · intro m hm nd hlk
    simp only [List.length_append, List.length_singleton] at hm
    have htake : (gs ++ [((k, []) : Grp)]).take m = gs.take m := List.take_append_of_le_length (by omega)
    rw [htake] at hlk ⊢
    by_cases hmm : m = gs.length
    · subst hmm
      rw [List.take_length] at hlk ⊢
      rw [← h.fl_eq, push, lookup_kvSet_same] at hlk
      cases hlk
      exact h.at_
    · have hm' : m < gs.length := by omega
      have hne := fal_take_prefix_ne hi h.plain hm'
      rw [push, lookup_kvSet_other _ _ _ _ (by rw [h.fl_eq]; exact hne)] at hlk
      exact h.stack m hm' nd hlk

/-- registering the current node under its own xpath (what a `text()` condition does) -/
theorem FalInv.register {root : Val} {is : List Int} {gs : List Grp} {node : Val} {fl : FL} {ps : PS}
    (h : FalInv root is gs node fl ps) : FalInv root is gs node fl (push ps fl node) := by
  refine ⟨h.plain, h.head, h.fl_eq, h.at_, ?_, ?_⟩
  · intro nd hlk
    by_cases hi : is = []
    · have hg := h.head hi
      subst hi; subst hg
      have hfl : fl = [] := h.fl_eq
      subst hfl
      rw [push, lookup_kvSet_same] at hlk
      cases hlk
      have := h.at_
      rw [fal_steps_nil, fad_stepsGet_nil] at this
      cases this; rfl
    · rw [push, lookup_kvSet_other _ _ _ _ (by rw [h.fl_eq]; exact (fal_keyOf_ne_root hi gs h.plain).symm)] at hlk
      exact h.stack0 nd hlk
  · intro m hm nd hlk
    have hi : is ≠ [] := by
      intro hi
      have := h.head hi
      subst this
      simp at hm
    have hne := fal_take_prefix_ne hi h.plain hm
    rw [push, lookup_kvSet_other _ _ _ _ (by rw [h.fl_eq]; exact hne)] at hlk
    exact h.stack m hm nd hlk

/-- the groups after `found_xpath_list[-1] += "[i]"` -/
def falAddIs (is : List Int) (gs : List Grp) (i : Int) : List Int := if gs = [] then is ++ [i] else is
def falAddGs (gs : List Grp) (i : Int) : List Grp := addIdx gs i

theorem fal_getLast_cons_snoc (a : Str) (l : FL) (x : Str) : (a :: (l ++ [x])).getLast?.getD [] = x := by
  rw [← List.cons_append, List.getLast?_concat]; rfl

/-- the path list after the in-place update of its last element (an empty one having been rebound
to `[""]`), whatever the last element currently is -/
theorem fal_setLast_add (is : List Int) (gs : List Grp) (hh : is = [] → gs = []) (cur : FL)
    (hcur : cur.dropLast = (falFl is gs).dropLast) (i : Int) :
    setLast (if (falFl is gs).isEmpty = true then [[]] else cur)
      ((if (falFl is gs).isEmpty = true then ([[]] : FL) else falFl is gs).getLast?.getD [] ++ bracket (intRepr i)) =
      falFl (falAddIs is gs i) (falAddGs gs i) := by
  by_cases hi : is = []
  · have hg := hh hi
    subst hi; subst hg
    simp [falFl, falAddIs, falAddGs, addIdx, setLast, falT, flOfG]
  · by_cases hg : gs = []
    · subst hg
      have hc : cur.dropLast = [] := by simpa [falFl, hi, flOfG] using hcur
      simp [falFl, hi, falAddIs, falAddGs, addIdx, setLast, flOfG, falT_snoc, hc]
    · obtain ⟨init, g, rfl⟩ := fad_snoc_of_ne hg
      have e1 : falFl is (init ++ [g]) = (falT is :: flOfG init) ++ [grpText g] := by
        simp [falFl, hi, flOfG]
      have hc : cur.dropLast = falT is :: flOfG init := by
        rw [hcur, e1, List.dropLast_concat]
      have hne : (init ++ [g] = []) = False := by simp
      simp only [falAddIs, falAddGs, hne, if_false, fad_addIdx_snoc]
      rw [e1]
      simp [setLast, hc, falFl, hi, flOfG, fad_grpText_addIdx, fal_getLast_cons_snoc]

theorem fal_falSteps_add (is : List Int) (gs : List Grp) (i : Int) :
    falSteps (falAddIs is gs i) (falAddGs gs i) = falSteps is gs ++ [StepSp.idx (spOfInt i) false] := by
  by_cases hg : gs = []
  · subst hg
    simp [falSteps, falAddIs, falAddGs, addIdx, stepsOfG]
  · obtain ⟨init, g, rfl⟩ := fad_snoc_of_ne hg
    have hne : (init ++ [g] = []) = False := by simp
    simp only [falSteps, falAddIs, falAddGs, hne, if_false, fad_addIdx_snoc, fad_stepsOfG_addIdx, List.append_assoc]

/-- an index step (also one round of the `[*]` loop) -/
theorem FalInv.idx {root : Val} {is : List Int} {gs : List Grp} {c : Cls} {xs : List Val} {fl : FL} {ps : PS}
    (h : FalInv root is gs (.list c xs) fl ps) {i : Int} {n : Nat} {child : Val}
    (hn : normIdx i xs.length = some n) (hx : xs[n]? = some child) :
    FalInv root (falAddIs is gs i) (falAddGs gs i) child (falFl (falAddIs is gs i) (falAddGs gs i))
      (push ps (falFl (falAddIs is gs i) (falAddGs gs i)) (.list c xs)) := by
  have hat : stepsGet root (falSteps (falAddIs is gs i) (falAddGs gs i)) = some child := by
    rw [fal_falSteps_add, fad_stepsGet_append, h.at_]
    simp [stepsGet, pyIndex, spOfInt_val, hn, hx]
  by_cases hg : gs = []
  · subst hg
    have e1 : falAddIs is [] i = is ++ [i] := by simp [falAddIs]
    have e2 : falAddGs [] i = [] := by simp [falAddGs, addIdx]
    rw [e1, e2] at hat ⊢
    have hi' : is ++ [i] ≠ [] := by simp
    refine ⟨(fun _ hg => by cases hg), fun h' => absurd h' hi', rfl, hat, ?_, (fun m hm => by simp at hm)⟩
    intro nd hlk
    rw [push, lookup_kvSet_other _ _ _ _ (fal_keyOf_ne_root hi' [] (fun _ hg => by cases hg)).symm] at hlk
    exact h.stack0 nd hlk
  · have hi : is ≠ [] := fun hi => hg (h.head hi)
    obtain ⟨init, g, rfl⟩ := fad_snoc_of_ne hg
    have hne : (init ++ [g] = []) = False := by simp
    have e1 : falAddIs is (init ++ [g]) i = is := by simp [falAddIs]
    have e2 : falAddGs (init ++ [g]) i = init ++ [(g.1, g.2 ++ [i])] := by simp [falAddGs, fad_addIdx_snoc]
    rw [e1, e2] at hat ⊢
    have hpl : GrpsPlain (init ++ [(g.1, g.2 ++ [i])]) := by
      intro g' hg'
      simp only [List.mem_append, List.mem_singleton] at hg'
      rcases hg' with hg' | rfl
      · exact h.plain g' (by simp [hg'])
      · exact h.plain g (by simp)
    refine ⟨hpl, fun h' => absurd h' hi, rfl, hat, ?_, ?_⟩
    · intro nd hlk
      rw [push, lookup_kvSet_other _ _ _ _ (fal_keyOf_ne_root hi _ hpl).symm] at hlk
      exact h.stack0 nd hlk
    · intro m hm nd hlk
      simp only [List.length_append, List.length_singleton] at hm
      have htake : (init ++ [((g.1, g.2 ++ [i]) : Grp)]).take m = init.take m := List.take_append_of_le_length (by omega)
      have htake' : (init ++ [g]).take m = init.take m := List.take_append_of_le_length (by omega)
      have hne' : keyOf (falFl is (init.take m)) ≠ keyOf (falFl is (init ++ [((g.1, g.2 ++ [i]) : Grp)])) := by
        have := fal_take_prefix_ne hi hpl (m := m) (by simp; omega)
        rwa [htake] at this
      rw [htake] at hlk ⊢
      rw [push, lookup_kvSet_other _ _ _ _ hne'] at hlk
      have := h.stack m (by simp; omega) nd (by rw [htake']; exact hlk)
      rwa [htake'] at this

/-- a `'..'` step -/
theorem FalInv.up {root : Val} {is : List Int} {gs : List Grp} {node : Val} {fl : FL} {ps : PS}
    (h : FalInv root is gs node fl ps) (hne : fl ≠ []) {target : Val}
    (hl : lookup (keyOf fl.dropLast) ps = some target) :
    ∃ is' gs', FalInv root is' gs' target fl.dropLast ps := by
  have hi : is ≠ [] := by
    intro hi
    apply hne
    rw [h.fl_eq, hi]
    rfl
  by_cases hg : gs = []
  · subst hg
    have hfl : fl.dropLast = [] := by rw [h.fl_eq]; simp [falFl, hi, flOfG]
    rw [hfl] at hl ⊢
    have := h.stack0 target hl
    subst this
    exact ⟨[], [], ⟨(fun _ hg => by cases hg), fun _ => rfl, rfl, (by rw [fal_steps_nil]; exact fad_stepsGet_nil _),
      h.stack0, (fun m hm => by simp at hm)⟩⟩
  · obtain ⟨init, g, rfl⟩ := fad_snoc_of_ne hg
    have hfl : fl.dropLast = falFl is init := by
      rw [h.fl_eq]
      simp only [falFl, hi, if_false, flOfG, List.map_append, List.map_cons, List.map_nil]
      rw [← List.cons_append, List.dropLast_concat]
    have htake : (init ++ [g]).take init.length = init := by simp
    rw [hfl] at hl ⊢
    refine ⟨is, init, ⟨fun g' hg' => h.plain g' (by simp [hg']), fun h' => absurd h' hi, rfl, ?_, h.stack0, ?_⟩⟩
    · have := h.stack init.length (by simp) target (by rw [htake]; exact hl)
      rwa [htake] at this
    · intro m hm nd hlk
      have htk : (init ++ [g]).take m = init.take m := List.take_append_of_le_length (by omega)
      have := h.stack m (by simp; omega) nd (by rw [htk]; exact hlk)
      rwa [htk] at this

/-! ### every result of a search on a list root spells the position of its node -/

/-- every pair of the mapping: the key is the text of a path list that spells a walk from the
root to the value -/
def FalRes (root : Val) (f : Found) : Prop :=
  ∀ kv ∈ f, ∃ is gs, GrpsPlain gs ∧ (is = [] → gs = []) ∧ kv.1 = keyOf (falFl is gs) ∧
    stepsGet root (falSteps is gs) = some kv.2

def FalRecOk (root : Val) (rec : Val → List Str → FL → PS → Out) : Prop :=
  ∀ node toks fl ps is gs, FalInv root is gs node fl ps →
    ∀ f, (rec node toks fl ps).res = .ok (some f) → FalRes root f

theorem FalRes.nil (root : Val) : FalRes root [] := fun _ h => by cases h

theorem FalRes.upd {root : Val} {acc : Found} (h : FalRes root acc) {f : Option Found}
    (hf : ∀ f', f = some f' → FalRes root f') : FalRes root (upd acc f) := by
  cases f with
  | none => exact h
  | some l =>
    have hl := hf l rfl
    simp only [FindAll.upd]
    clear hf
    induction l generalizing acc with
    | nil => exact h
    | cons e r ih =>
      simp only [List.foldl_cons]
      apply ih
      · intro kv hkv
        rcases fad_mem_kvSet hkv with h' | h'
        · rw [h']; exact hl e (by simp)
        · exact h kv h'
      · intro kv hkv; exact hl kv (by simp [hkv])

theorem fal_starLoop_ok {root : Val} (call : Val → FL → Out) (re : Bool) (last : Str) (base : FL)
    (hcall : ∀ c cur, (call c cur).fl.dropLast = cur.dropLast) :
    ∀ (xs : List Val) (i : Nat) (cur : FL) (acc : Found), cur.dropLast = base → FalRes root acc →
      (∀ j c f, xs[j]? = some c → (call c (base ++ [last ++ bracket (natRepr (i + j))])).res = .ok (some f) →
        FalRes root f) →
      ∀ f, (starLoop call re last i xs cur acc).1 = .ok (some f) → FalRes root f := by
  intro xs
  induction xs with
  | nil => intro i cur acc _ ha _ f h; simp only [starLoop] at h; cases h; exact ha
  | cons c cs ih =>
    intro i cur acc hcur ha hc f h
    simp only [starLoop] at h
    split at h
    · have hcur1 : setLast cur (last ++ bracket (natRepr i)) = base ++ [last ++ bracket (natRepr (i + 0))] := by
        simp [setLast, hcur]
      rw [hcur1] at h
      split at h
      · cases h
      · rename_i f1 hres
        refine ih (i + 1) _ _ ?_ (ha.upd (fun f' hf' => hc 0 c f' (by simp) (by rw [hres, hf']))) ?_ f h
        · rw [hcall]; simp
        · intro j c' f' hj hres'
          refine hc (j + 1) c' f' (by simpa using hj) ?_
          rw [show i + (j + 1) = i + 1 + j by omega]; exact hres'
    · cases re <;> simp [raiseOr] at h

theorem fal_keysLoop_ok {root : Val} (call : Str → Val → Out) :
    ∀ (kvs : List (Str × Val)) (acc : Found), FalRes root acc →
      (∀ kc ∈ kvs, ∀ f, (call kc.1 kc.2).res = .ok (some f) → FalRes root f) →
      ∀ f, keysLoop call kvs acc = .ok (some f) → FalRes root f := by
  intro kvs
  induction kvs with
  | nil => intro acc ha _ f h; simp only [keysLoop] at h; cases h; exact ha
  | cons e r ih =>
    obtain ⟨k, c⟩ := e
    intro acc ha hc f h
    simp only [keysLoop] at h
    split at h
    · split at h
      · cases h
      · rename_i f1 hres
        exact ih _ (ha.upd (fun f' hf' => hc (k, c) (by simp) f' (by rw [hres, hf'])))
          (fun kc hkc => hc kc (by simp [hkc])) f h
    · exact ih _ ha (fun kc hkc => hc kc (by simp [hkc])) f h

theorem fal_falFl_isEmpty (is : List Int) (gs : List Grp) : (falFl is gs).isEmpty = decide (is = []) := by
  by_cases hi : is = []
  · simp [falFl, hi]
  · simp [falFl, hi]

theorem fal_step_ok {root : Val} (hroot : ∃ c xs, root = .list c xs) (hko : KeysOkV root)
    {rec : Val → List Str → FL → PS → Out} (hr : FalRecOk root rec) (hps : PsInv rec) (hdl : FlDL rec)
    (hfd : ∀ c kvs t f p, (rec (.dict c kvs) t f p).fl = f) (re : Bool) :
    FalRecOk root (step rec re) := by
  intro node toks fl ps is gs hinv f h
  have hfl := hinv.fl_eq
  unfold step at h
  split at h
  · simp only [Except.ok.injEq, Option.some.injEq] at h
    subst h
    intro kv hkv
    simp only [List.mem_singleton] at hkv
    subst hkv
    exact ⟨is, gs, hinv.plain, hinv.head, by rw [hfl], hinv.at_⟩
  · rename_i tok rest
    split at h
    · -- '..'
      unfold stepUp at h
      split at h
      · cases re <;> simp [raiseOr] at h
      · rename_i target hl
        split at hl
        · cases hl
        · rename_i hne
          have hne' : fl ≠ [] := by
            intro hf
            rw [hf] at hne
            exact hne rfl
          obtain ⟨is', gs', hinv'⟩ := hinv.up hne' hl
          exact hr _ _ _ _ _ _ hinv' f h
    · cases h
    · -- text(): the condition only filters
      rcases stepText_cases rec node _ _ _ fl ps with h' | h' | ⟨_, h'⟩ <;> rw [h'] at h
      · cases h
      · cases h
      · exact hr _ _ _ _ _ _ hinv.register f h
    · -- index
      rename_i i _
      unfold stepIdx at h
      split at h
      · rename_i c xs
        split at h
        · cases re <;> simp [raiseOr] at h
        · rename_i n hn
          split at h
          · cases h
          · rename_i child hx
            split at h
            · have e := fal_setLast_add is gs hinv.head fl (by rw [hfl]) i
              rw [← hfl] at e
              have e' : (setLast (if fl.isEmpty = true then [[]] else fl)
                  ((if fl.isEmpty = true then ([[]] : FL) else fl).getLast?.getD [] ++ bracket (intRepr i))) =
                  falFl (falAddIs is gs i) (falAddGs gs i) := e
              simp only [e'] at h
              exact hr _ _ _ _ _ _ (hinv.idx hn hx) f h
            · cases re <;> simp [raiseOr] at h
      · split at h <;> cases re <;> simp [raiseOr] at h
      · cases h
    · -- [*]
      unfold stepStar at h
      split at h
      · rename_i c xs
        simp only at h
        have hbase : (if fl.isEmpty = true then ([[]] : FL) else fl).dropLast = fl.dropLast := by
          cases fl <;> rfl
        refine fal_starLoop_ok _ re _ fl.dropLast (fun c cur => hdl _ _ _ _) xs 0 _ [] hbase (FalRes.nil root) ?_ f h
        intro j x f' hj hres
        have hjl : j < xs.length := by
          rcases Nat.lt_or_ge j xs.length with hlt | hge
          · exact hlt
          · rw [List.getElem?_eq_none hge] at hj; cases hj
        have e : fl.dropLast ++ [(if fl.isEmpty = true then ([[]] : FL) else fl).getLast?.getD [] ++ bracket (natRepr (0 + j))]
            = falFl (falAddIs is gs (j : Int)) (falAddGs gs (j : Int)) := by
          have := fal_setLast_add is gs hinv.head fl (by rw [hfl]) (j : Int)
          rw [← hfl] at this
          rw [← this, Nat.zero_add]
          simp only [setLast, hbase]
          rfl
        rw [e] at hres
        exact hr _ _ _ _ _ _ (hinv.idx (normIdx_nat hjl) hj) f' hres
      · cases re <;> simp [raiseOr] at h
      · cases h
    · -- name
      rename_i name hcl
      have hnm := fad_classify_name hcl
      subst hnm
      unfold stepName at h
      split at h
      · -- on a list: re-enter with "[*]" prepended
        exact hr _ _ _ _ _ _ hinv f h
      · rename_i c kvs
        have hkn : KeysOkK kvs := by
          have := fad_keysOk_stepsGet _ hko hinv.at_
          simpa only [KeysOkV] using this
        split at h
        · cases re <;> simp [raiseOr] at h
        · split at h
          · -- '*'
            simp only at h
            split at h
            · cases h
            · rename_i f1 hres
              simp only at h
              rw [hfd, hps] at h
              have h1 : FalRes root (upd [] f1) :=
                (FalRes.nil root).upd (fun f' hf' => hr _ _ _ _ _ _ hinv f' (by rw [hres, hf']))
              refine fal_keysLoop_ok _ kvs _ h1 ?_ f h
              intro kc hkc f' hf'
              have hl := fad_keysOk_mem_lookup hkn (show (kc.1, kc.2) ∈ kvs from hkc)
              exact hr _ _ _ _ _ _ (hinv.key hroot (fad_keysOk_lookup hkn hl).1 hl) f' hf'
          · split at h
            · rename_i x hl
              exact hr _ _ _ _ _ _ (hinv.key hroot (fad_keysOk_lookup hkn hl).1 hl) f h
            · cases h
      · cases h

/-- **every key spells its value's position** on a list root, for every fuel, path list and stack
satisfying the invariant, and every expression -/
theorem fal_fa_ok {root : Val} (hroot : ∃ c xs, root = .list c xs) (hko : KeysOkV root) (re : Bool) :
    ∀ fuel, FalRecOk root (fa re fuel) := by
  intro fuel
  induction fuel with
  | zero => intro node toks fl ps is gs _ f h; cases h
  | succ k ih =>
    exact fal_step_ok hroot hko ih (fun n t f p => fa_ps re k n t f p) (fa_dl re k)
      (fun c kvs t f p => fad_fa_fl_dict re k c kvs t f p) re

/-- **every key of a result on a list root spells the position of its value** -/
theorem fal_findall_spells (c : Cls) (xs : List Val) (hko : KeysOkV (.list c xs)) (e : Str)
    (fuel : Nat) (f : Found) (re : Bool := true)
    (h : (findallTop fuel fresh (.list c xs) e re).res = .ok (some f)) : FalRes (.list c xs) f :=
  fal_fa_ok ⟨c, xs, rfl⟩ hko re fuel _ _ _ _ [] [] (FalInv.start _) f h

/-- item access on `'//'` returns the list root -/
theorem fal_getItem_root (fuel : Nat) (c : Cls) (xs : List Val) :
    getItem (fuel + 1) (.list c xs) ['/', '/'] = (.list c xs, .ok (.list c xs)) := by
  have ht : tokenize ['/', '/'] = [] := by decide
  have hq : startsWith ['/', '/'] ['?'] = false := by decide
  have hpc : hasPathChar ['/', '/'] = true := by decide
  simp only [getItem, getCore, hq, Bool.false_eq_true, if_false, hpc, if_true, ht]
  rw [findL]
  simp [valOf, Res.isFound, Val.getAt]

theorem fal_get_root (fuel : Nat) (c : Cls) (xs : List Val) (d : Val) :
    XPath.get (fuel + 1) (.list c xs) ['/', '/'] d = (.list c xs, .ok (.list c xs)) := by
  have ht : tokenize ['/', '/'] = [] := by decide
  have hq : startsWith ['/', '/'] ['?'] = false := by decide
  have hpc : hasPathChar ['/', '/'] = true := by decide
  simp only [XPath.get, getCore, hq, Bool.false_eq_true, if_false, hpc, if_true, ht]
  rw [findL]
  simp [valOf, Res.isFound, Val.getAt]

/-! ## exact paths and fan-out at a list root -/

/-- **string layer, list root**: `findall` turns the canonical xpath of a position below a list
root — written with the prefix `//` (as `findall` reports it), `/` or none — into one token per key
and one per index -/
theorem fal_tokens_render (lead : Lead) (n : Nat) (rest : Pos) (hp : PlainPos rest) :
    tokens (leadStr lead ++ renderPos (.idx n :: rest)) = toksOf (.idx n :: rest) := by
  have hpp : PlainPos (.idx n :: rest) := hp
  have hform : renderPos (.idx n :: rest) = '[' :: (natRepr n ++ ']' :: renderPos rest) := by
    simp [renderPos, renderSeg, bracket, natStr]
  have hnorm : normExpr (leadStr lead ++ renderPos (.idx n :: rest)) = renderPos (.idx n :: rest) := by
    rw [hform]
    cases lead <;> simp [normExpr, startsWith, leadStr]
  unfold tokens
  rw [hnorm, insLB_render _ hpp, replSS_renderIns _ hpp]
  have := splitChar_renderIns (.idx n :: rest) hpp [] (by intro c hc; cases hc)
  simp only [List.nil_append] at this
  rw [this]
  have h2 := toksOf_nonempty (.idx n :: rest) hpp
  simpa using h2

/-- a name applied to the list root itself (empty path list, rebound to `[""]`): the merged
outcomes of all elements in order, element `i` under the path `[i]` -/
theorem fal_fanout_root (re : Bool) (fuel : Nat) (cls : Cls) (xs : List Val) (name : Str) (rest : List Str)
    (ps : PS) (hn : classify name = .name name) (hall : ∀ x ∈ xs, isContainer x = true) :
    (fa re (fuel + 2) (.list cls xs) (name :: rest) [] ps).res =
      mergeAll (fanCalls (fun c cur => fa re fuel c (name :: rest) cur (push ps cur (.list cls xs)))
        [] [] 0 xs) [] := by
  have hs : classify ['[', '*', ']'] = .star := by decide
  simp only [fa, step, hn, stepName, hs, stepStar, List.isEmpty_nil, if_true]
  exact starLoop_fan _ re _ (fun c cur => fa_dl re fuel c _ cur _) xs hall 0 [[]] []

end N0.FindAll
