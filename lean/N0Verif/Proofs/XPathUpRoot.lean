import N0Verif.Proofs.XPathSelect
import N0Verif.Proofs.XPathFirst
/-!
  `'..'` that surfaces to the ROOT as the last step of a path (fix C04-g): the root is found, the way an empty
  xpath finds it (parent = the root, no name, value = the root, found text `/`).  Before the fix the branch built the
  found text from the missing name (`str + None`): `TypeError`, i.e. a miss for a path that resolves.
-/
namespace N0.XPath
open N0 N0.Py N0.Val

/-- the result `_find` reports for the root -/
def upRootRes (root : Val) : Res :=
  { parent := .at [], nameIdx := Option.none, value := root, found := slash, notFound := Option.none }

theorem upRoot_find_nil (fuel : Nat) (root : Val) (rl : Bool) :
    findD (fuel + 1) root [] false false [] (.at []) rl slash = .ok (root, upRootRes root) := by
  rw [findD]
  simp [valOf_at, getAt, upRootRes]

/-- the found text `//k` minus its last piece is the empty path -/
theorem upRoot_split (k : Str) (hk : PlainKey k) :
    ((splitChar '/' (fixBr (slash ++ slash ++ k))).filter (fun t => !t.isEmpty)).dropLast = [] := by
  have := up_joinSlash [k] (by simp) (by simpa [joinSlash] using fixBr_noRB k hk.noRB)
    (by intro p hp; simp only [List.mem_singleton] at hp; subst hp; exact hk.noSlash)
    (by intro p hp; simp only [List.mem_singleton] at hp; subst hp; exact hk.ne)
  simpa [joinSlash] using this

/-- **`k/..` on a dict root** (token level): the key step goes down, `'..'` re-resolves the empty path from the root
and — being the last step — reports the root as found -/
theorem upRoot_find (fuel : Nat) (cls : Cls) (kvs : List (Str × Val)) (k : Str) (c : Val) (entry rl : Bool)
    (hk : PlainKey k) (hl : lookup k kvs = some c) :
    findD (fuel + 3) (.dict cls kvs) [] false entry [k, ['.', '.']] (.at []) rl slash
      = .ok (.dict cls kvs, upRootRes (.dict cls kvs)) := by
  rw [find_key_step (fuel + 2) (.dict cls kvs) entry rl [] slash k [['.', '.']] cls kvs c (by simp) (by simp [getAt])
    hk.keyTok hl]
  have hc : getAt (.dict cls kvs) ([] ++ [Seg.key k]) = some c := by simp [getAt, child, hl]
  rw [findD]
  simp only [Bool.false_and, Bool.false_eq_true, if_false, valOf_at, hc, split_up, List.isEmpty_cons,
    Bool.not_false, Idx.truthy, if_true, upRoot_split k hk, upRoot_find_nil fuel (.dict cls kvs) rl]
  simp [upRootRes, valOf_at, getAt, Res.isFound]

theorem upRoot_tokenize (k : Str) (hk : PlainKey k) : tokenize (k ++ slash ++ ['.', '.']) = [k, ['.', '.']] := by
  have hform : k ++ slash ++ ['.', '.'] = joinSlash [k, ['.', '.']] := by simp [joinSlash, slash]
  rw [hform]
  apply tokenize_joinSlash
  · simp
  · apply fixBr_noRB
    intro c hc
    simp only [joinSlash, List.mem_append, List.mem_cons, List.not_mem_nil, or_false] at hc
    rcases hc with hc | hc | hc | hc
    · exact hk.noRB c hc
    · subst hc; decide
    · subst hc; decide
    · subst hc; decide
  · intro p hp c hc
    simp only [List.mem_cons, List.not_mem_nil, or_false] at hp
    rcases hp with rfl | rfl
    · exact hk.noSlash c hc
    · simp only [List.mem_cons, List.not_mem_nil, or_false] at hc
      rcases hc with rfl | rfl <;> decide
  · intro p hp
    simp only [List.mem_cons, List.not_mem_nil, or_false] at hp
    rcases hp with rfl | rfl
    · exact ⟨hk.ne, hk.stripWs⟩
    · exact ⟨by simp, by decide⟩

/-- **`k/..` through every lookup entry point**: the root itself, for every default and both flags -/
theorem upRoot_getCore (fuel : Nat) (cls : Cls) (kvs : List (Str × Val)) (k : Str) (c d : Val) (raise rl : Bool)
    (hk : PlainKey k) (hl : lookup k kvs = some c) :
    getCore (fuel + 3) (.dict cls kvs) (k ++ slash ++ ['.', '.']) d raise rl = (.dict cls kvs, .ok (.dict cls kvs)) := by
  rw [getCore_of_find cls kvs _ [k, ['.', '.']] d raise rl (fuel + 3) (upRootRes (.dict cls kvs))
    (by simpa [List.append_assoc] using hk.head_ne_q (slash ++ ['.', '.'])) (hasPathChar_slash _ _) (upRoot_tokenize k hk)
    (upRoot_find fuel cls kvs k c true rl hk hl)]
  simp [upRootRes, Res.isFound]

end N0.XPath
