import N0Verif.Model.Compare
/-!
Specification-side definitions and helper lemmas for the compare engine (C07–C10).
-/
namespace N0.Compare
open N0

/-! ### specification vocabulary -/

/-- invariant of the flag machine: `equal` is on iff exactly one of its two sub-flags is -/
def FlagInv (f : Flags) : Prop :=
  f.equal = (f.records || f.elements) ∧ ¬(f.records = true ∧ f.elements = true)

instance (f : Flags) : Decidable (FlagInv f) := by unfold FlagInv; infer_instance

mutual
/-- converted recursively: every container is an `n0dict` / `n0list` -/
def isN0 : Val → Bool
  | .list c xs => c == .n0 && isN0L xs
  | .dict c kvs => c == .n0 && isN0K kvs
  | _ => true
def isN0L : List Val → Bool
  | [] => true
  | x :: xs => isN0 x && isN0L xs
def isN0K : List (Str × Val) → Bool
  | [] => true
  | (_, x) :: xs => isN0 x && isN0K xs
end

mutual
/-- structural equality: same constructor and class, dictionaries with the same key set and equal
values per key (insertion order is irrelevant), lists of equal length with pairwise equal items,
leaves equal with equal type -/
def deq : Val → Val → Bool
  | .none, .none => true
  | .bool a, .bool b => a == b
  | .int a, .int b => a == b
  | .flt a, .flt b => a == b
  | .str a, .str b => a == b
  | .list c xs, .list c' ys => c == c' && deqL xs ys
  | .dict c kvs, .dict c' kvs' => c == c' && deqK kvs kvs' && kvs'.all (fun kv => hasKey kv.1 kvs)
  | _, _ => false
def deqL : List Val → List Val → Bool
  | [], [] => true
  | x :: xs, y :: ys => deq x y && deqL xs ys
  | _, _ => false
/-- every entry of the left dictionary has an equal partner under the same key on the right -/
def deqK : List (Str × Val) → List (Str × Val) → Bool
  | [], _ => true
  | (k, v) :: rest, o =>
    (match Val.lookup k o with
     | some w => deq v w
     | none => false) && deqK rest o
end

/-- the options are at their defaults -/
structure NoOpts (cfg : Cfg) : Prop where
  ck : cfg.ck = .many []
  only : cfg.only = .many []
  excl : cfg.excl = .many []
  tr : cfg.tr = []

/-- both roots are dictionaries, or both are lists (the code raises `TypeError` otherwise) -/
def RootPair : Val → Val → Prop
  | .dict .n0 _, .dict .n0 _ => True
  | .list .n0 _, .list .n0 _ => True
  | _, _ => False

/-- number of structured difference entries -/
def Res.count (r : Res) : Nat :=
  r.notEqual.length + r.selfUnique.length + r.otherUnique.length + r.diffTypes.length

/-! ### `Res.append` -/

@[simp] theorem append_diffs (a b : Res) : (a ++ b).diffs = a.diffs + b.diffs := rfl
@[simp] theorem append_notEqual (a b : Res) : (a ++ b).notEqual = a.notEqual ++ b.notEqual := rfl
@[simp] theorem append_selfUnique (a b : Res) : (a ++ b).selfUnique = a.selfUnique ++ b.selfUnique := rfl
@[simp] theorem append_otherUnique (a b : Res) : (a ++ b).otherUnique = a.otherUnique ++ b.otherUnique := rfl
@[simp] theorem append_diffTypes (a b : Res) : (a ++ b).diffTypes = a.diffTypes ++ b.diffTypes := rfl
@[simp] theorem append_selfEqual (a b : Res) : (a ++ b).selfEqual = a.selfEqual ++ b.selfEqual := rfl
@[simp] theorem append_otherEqual (a b : Res) : (a ++ b).otherEqual = a.otherEqual ++ b.otherEqual := rfl

@[simp] theorem append_count (a b : Res) : (a ++ b).count = a.count + b.count := by
  simp [Res.count]; omega

@[simp] theorem empty_diffs : Res.empty.diffs = 0 := rfl
@[simp] theorem empty_count : Res.empty.count = 0 := rfl

/-! ### the options at their defaults -/

theorem xpathMatch_nil (s : Str) : xpathMatch s (.many []) = 0 := rfl

theorem excluded_noOpts {cfg : Cfg} (h : NoOpts cfg) (p : Path) : excluded cfg p = false := by
  simp [excluded, h.excl, xpathMatch_nil]

theorem onlyOk_noOpts {cfg : Cfg} (h : NoOpts cfg) (p : Path) : onlyOk cfg p = true := by
  simp [onlyOk, h.only, PatArg.truthy]

theorem transformAt_noOpts {cfg : Cfg} (h : NoOpts cfg) (p : Path) : transformAt cfg p = id := by
  simp [transformAt, transformAtStr, h.tr, xpathMatchFrom]

theorem noOpts_default (fl : Flags) (d : Bool) : NoOpts (Cfg.default fl d) := ⟨rfl, rfl, rfl, rfl⟩

/-! ### types -/

theorem tyOf_scalar_eq {x y : Val} (h : tyOf x = tyOf y) : isPyScalar x = isPyScalar y := by
  cases x <;> cases y <;> simp_all [tyOf, isPyScalar]

/-- on equal types, scalar leaves are `deq` iff they are equal -/
theorem deq_scalar {x y : Val} (hs : isPyScalar x = true) : deq x y = true ↔ x = y := by
  cases x <;> cases y <;> simp_all [isPyScalar, deq]

theorem deq_tyOf {x y : Val} (h : deq x y = true) : tyOf x = tyOf y := by
  cases x <;> cases y <;> simp_all [deq, tyOf]

end N0.Compare

namespace N0.Compare
open N0

/-! ### leaf decisions under default options -/

theorem classifyItem_noOpts {cfg : Cfg} (h : NoOpts cfg) (p pne pdt : Path) (sa oa x y : Val) :
    classifyItem cfg p pne pdt sa oa x y =
      if tyOf x = tyOf y then
        if isPyScalar x then
          if x ≠ y then .emit { diffs := 1, notEqual := [⟨pne, x, y, .lst, cfg.fl.delta⟩] } false
          else if cfg.fl.equal then .emit { selfEqual := [sa], otherEqual := [oa] } true
          else .emit Res.empty true
        else .descend
      else if cfg.fl.types then .emit { diffs := 1, diffTypes := [⟨pdt, x, y⟩] } false
      else .emit { diffs := 1, notEqual := [⟨pne, x, y, .tup, false⟩] } false := by
  simp [classifyItem, transformAt_noOpts h]

theorem classifyEntry_noOpts {cfg : Cfg} (h : NoOpts cfg) (full : Path) (x y : Val) :
    classifyEntry cfg full x y =
      if tyOf x = tyOf y then
        if isPyScalar x then
          if x ≠ y then .emit { diffs := 1, notEqual := [⟨full, x, y, .lst, cfg.fl.delta⟩] } false
          else .emit Res.empty true
        else .descend
      else if cfg.fl.types then .emit { diffs := 1, diffTypes := [⟨full, x, y⟩] } false
      else .emit { diffs := 1, notEqual := [⟨full, x, y, .tup, false⟩] } false := by
  simp [classifyEntry, transformAt_noOpts h, excluded_noOpts h, onlyOk_noOpts h]

/-- what a leaf decision says about the verdict -/
def ActExact (a : Act) (x y : Val) : Prop :=
  match a with
  | .emit r _ => (r.diffs = 0 ↔ deq x y = true)
  | .descend => tyOf x = tyOf y ∧ isPyScalar x = false

theorem classify_exact_aux (x y : Val) (fl : Flags) (eq0 : Res) (h0 : eq0.diffs = 0) (ne1 dt1 tu1 : Res)
    (h1 : ne1.diffs = 1) (h2 : dt1.diffs = 1) (h3 : tu1.diffs = 1) (s1 s2 s3 s4 : Bool) :
    ActExact
      (if tyOf x = tyOf y then
        if isPyScalar x then
          if x ≠ y then .emit ne1 s1 else .emit eq0 s2
        else .descend
      else if fl.types then .emit dt1 s3 else .emit tu1 s4) x y := by
  by_cases ht : tyOf x = tyOf y
  · by_cases hs : isPyScalar x = true
    · by_cases hxy : x = y
      · subst hxy
        simp [ht, hs, ActExact, h0, (deq_scalar hs).2 rfl]
      · have : ¬ deq x y = true := fun h => hxy ((deq_scalar hs).1 h)
        simp [ht, hs, hxy, ActExact, h1, this]
    · simp [ht, hs, ActExact]
  · have : ¬ deq x y = true := fun h => ht (deq_tyOf h)
    by_cases hf : fl.types = true <;> simp [ht, hf, ActExact, h2, h3, this]

theorem classifyItem_exact {cfg : Cfg} (h : NoOpts cfg) (p pne pdt : Path) (sa oa x y : Val) :
    ActExact (classifyItem cfg p pne pdt sa oa x y) x y := by
  rw [classifyItem_noOpts h]
  by_cases he : cfg.fl.equal = true
  · simpa [he] using classify_exact_aux x y cfg.fl { selfEqual := [sa], otherEqual := [oa] } rfl
      { diffs := 1, notEqual := [⟨pne, x, y, .lst, cfg.fl.delta⟩] } { diffs := 1, diffTypes := [⟨pdt, x, y⟩] }
      { diffs := 1, notEqual := [⟨pne, x, y, .tup, false⟩] } rfl rfl rfl false true false false
  · simpa [he] using classify_exact_aux x y cfg.fl Res.empty rfl
      { diffs := 1, notEqual := [⟨pne, x, y, .lst, cfg.fl.delta⟩] } { diffs := 1, diffTypes := [⟨pdt, x, y⟩] }
      { diffs := 1, notEqual := [⟨pne, x, y, .tup, false⟩] } rfl rfl rfl false true false false

theorem classifyEntry_exact {cfg : Cfg} (h : NoOpts cfg) (full : Path) (x y : Val) :
    ActExact (classifyEntry cfg full x y) x y := by
  rw [classifyEntry_noOpts h]
  exact classify_exact_aux x y cfg.fl Res.empty rfl
      { diffs := 1, notEqual := [⟨full, x, y, .lst, cfg.fl.delta⟩] } { diffs := 1, diffTypes := [⟨full, x, y⟩] }
      { diffs := 1, notEqual := [⟨full, x, y, .tup, false⟩] } rfl rfl rfl false true false false

end N0.Compare

namespace N0.Compare
open N0

/-! ### direct_compare is exact -/

theorem isN0K_lookup : ∀ (kvs : List (Str × Val)) (k : Str) (w : Val),
    isN0K kvs = true → Val.lookup k kvs = some w → isN0 w = true
  | [], _, _, _, h => by simp [Val.lookup] at h
  | (k', v) :: rest, k, w, hn, h => by
    simp only [isN0K, Bool.and_eq_true] at hn
    simp only [Val.lookup] at h
    split at h
    · cases h; exact hn.1
    · exact isN0K_lookup rest k w hn.2 h

theorem otherTail_length (p : Path) : ∀ (ys : List Val) (i : Nat), (otherTail p i ys).length = ys.length
  | [], _ => rfl
  | _ :: ys, i => by simp [otherTail, otherTail_length p ys (i + 1)]

theorem deqK_hasKey : ∀ (kvs o : List (Str × Val)), deqK kvs o = true →
    ∀ kv ∈ kvs, hasKey kv.1 o = true
  | [], _, _, kv, hm => by cases hm
  | (k, v) :: rest, o, h, kv, hm => by
    simp only [deqK, Bool.and_eq_true] at h
    cases hm with
    | head =>
      simp only [hasKey]
      cases hl : Val.lookup k o with
      | none => rw [hl] at h; simp at h
      | some w => rfl
    | tail _ hm' => exact deqK_hasKey rest o h.2 kv hm'

/-- number of prose lines produced after the loop of `n0dict.compare` under default options -/
theorem dictTail_diffs_noOpts {cfg : Cfg} (h : NoOpts cfg) (p : Path) (sa oa : Val)
    (skvs okvs : List (Str × Val)) (still : Bool) :
    (dictTail cfg p sa oa skvs okvs still).diffs = 0 ↔
      (skvs.all (fun kv => hasKey kv.1 okvs) = true ∧ okvs.all (fun kv => hasKey kv.1 skvs) = true) := by
  have hl : ∀ kv, leftover cfg p kv = some ⟨p ++ [.key kv.1], kv.2⟩ := by
    intro kv; simp [leftover, excluded_noOpts h, onlyOk_noOpts h]
  have hfm : ∀ l : List (Str × Val), (l.filterMap (leftover cfg p)).length = l.length := by
    intro l; induction l with
    | nil => rfl
    | cons a l ih => simp [List.filterMap_cons, hl, ih]
  simp only [dictTail, hfm]
  rw [Nat.add_eq_zero_iff, List.length_eq_zero_iff, List.length_eq_zero_iff,
    List.filter_eq_nil_iff, List.filter_eq_nil_iff]
  simp [List.all_eq_true]

/-- the common keys carry equal values (keys missing on the right are skipped) -/
def commonK : List (Str × Val) → List (Str × Val) → Bool
  | [], _ => true
  | (k, v) :: rest, o =>
    (match Val.lookup k o with
     | some w => deq v w
     | none => true) && commonK rest o

theorem deqK_eq_common : ∀ (kvs o : List (Str × Val)),
    deqK kvs o = (commonK kvs o && kvs.all (fun kv => hasKey kv.1 o))
  | [], _ => rfl
  | (k, v) :: rest, o => by
    simp only [deqK, commonK, List.all_cons, hasKey, deqK_eq_common rest o]
    cases hl : Val.lookup k o with
    | none => simp
    | some w =>
      simp only [Option.isSome_some, Bool.true_and]
      cases deq v w <;> cases commonK rest o <;> simp

mutual
theorem sub_direct_exact (cfg : Cfg) (h : NoOpts cfg) (hd : cfg.direct = true) (site : Site) (p : Path)
    (v w : Val) (hv : isN0 v = true) (hw : isN0 w = true) (ht : tyOf v = tyOf w) (hs : isPyScalar v = false) :
      ∃ r, sub cfg site p v w = .ok r ∧ (r.diffs = 0 ↔ deq v w = true) :=
  match v, w, hv, hw, ht, hs with
  | .list c xs, w, hv, hw, ht, _ => by
    cases w with
    | list c' ys =>
      simp only [isN0, Bool.and_eq_true, beq_iff_eq] at hv hw
      obtain ⟨hc, hxs⟩ := hv
      obtain ⟨hc', hys⟩ := hw
      subst hc; subst hc'
      obtain ⟨r, hr, hiff⟩ := directWalk_direct_exact cfg h hd p (.list .n0 xs) (.list .n0 ys) xs ys 0 hxs hys
      refine ⟨r, ?_, ?_⟩
      · simp [sub, hd, excluded_noOpts h, hr]
      · simpa [deq] using hiff
    | _ => simp [tyOf] at ht
  | .dict c kvs, w, hv, hw, ht, _ => by
    cases w with
    | dict c' kvs' =>
      simp only [isN0, Bool.and_eq_true, beq_iff_eq] at hv hw
      obtain ⟨hc, hxs⟩ := hv
      obtain ⟨hc', hys⟩ := hw
      subst hc; subst hc'
      obtain ⟨r, hr, hiff⟩ := dictWalk_direct_exact cfg h hd p (.dict .n0 kvs) (.dict .n0 kvs') kvs kvs' kvs true hxs hys
      refine ⟨r, ?_, ?_⟩
      · simp [sub, hd, hr]
      · rw [hiff, dictTail_diffs_noOpts h]
        simp only [deq, Bool.and_eq_true, beq_self_eq_true, true_and, deqK_eq_common]
        exact and_assoc.symm
    | _ => simp [tyOf] at ht
  | .none, w, _, _, ht, _ => by
    cases w <;> simp [tyOf] at ht
    exact ⟨Res.empty, by simp [sub], by simp [deq]⟩
  | .bool _, _, _, _, _, hs => by simp [isPyScalar] at hs
  | .int _, _, _, _, _, hs => by simp [isPyScalar] at hs
  | .flt _, _, _, _, _, hs => by simp [isPyScalar] at hs
  | .str _, _, _, _, _, hs => by simp [isPyScalar] at hs
termination_by structural v

theorem dictWalk_direct_exact (cfg : Cfg) (h : NoOpts cfg) (hd : cfg.direct = true) (p : Path)
    (sa oa : Val) (skvs okvs : List (Str × Val))
    (kvs : List (Str × Val)) (still : Bool) (hk : isN0K kvs = true) (ho : isN0K okvs = true) :
      ∃ r, dictWalk cfg p sa oa skvs okvs still kvs = .ok r ∧
        (r.diffs = 0 ↔ (commonK kvs okvs = true ∧ (dictTail cfg p sa oa skvs okvs true).diffs = 0)) :=
  match kvs, still, hk, ho with
  | [], still, _, _ => by
    refine ⟨_, by rw [dictWalk], ?_⟩
    simp [commonK, dictTail]
  | (k, v) :: rest, still, hk, ho => by
    simp only [isN0K, Bool.and_eq_true] at hk
    cases hl : Val.lookup k okvs with
    | none =>
      obtain ⟨r, hr, hiff⟩ := dictWalk_direct_exact cfg h hd p sa oa skvs okvs rest still hk.2 ho
      refine ⟨r, by simp [dictWalk, hl, hr], ?_⟩
      simpa [commonK, hl] using hiff
    | some w =>
      have hw := isN0K_lookup okvs k w ho hl
      have hce := classifyEntry_exact h (p ++ [.key k]) v w
      cases hcl : classifyEntry cfg (p ++ [.key k]) v w with
      | emit r0 s =>
        rw [hcl] at hce
        obtain ⟨r, hr, hiff⟩ := dictWalk_direct_exact cfg h hd p sa oa skvs okvs rest (still && s) hk.2 ho
        refine ⟨r0 ++ r, by simp [dictWalk, hl, hcl, hr], ?_⟩
        simp only [ActExact] at hce
        simp only [append_diffs, Nat.add_eq_zero_iff, hiff, commonK, hl, Bool.and_eq_true, hce]
        exact and_assoc.symm
      | descend =>
        rw [hcl] at hce
        obtain ⟨r1, hr1, hiff1⟩ := sub_direct_exact cfg h hd .entry (p ++ [.key k]) v w hk.1 hw hce.1 hce.2
        obtain ⟨r, hr, hiff⟩ := dictWalk_direct_exact cfg h hd p sa oa skvs okvs rest still hk.2 ho
        refine ⟨r1 ++ r, by simp [dictWalk, hl, hcl, hr1, hr], ?_⟩
        simp only [append_diffs, Nat.add_eq_zero_iff, hiff, hiff1, commonK, hl, Bool.and_eq_true]
        exact and_assoc.symm
termination_by structural kvs

theorem directWalk_direct_exact (cfg : Cfg) (h : NoOpts cfg) (hd : cfg.direct = true) (p : Path)
    (sa oa : Val) (xs ys : List Val) (i : Nat) (hx : isN0L xs = true) (hy : isN0L ys = true) :
      ∃ r, directWalk cfg p sa oa i xs ys = .ok r ∧ (r.diffs = 0 ↔ deqL xs ys = true) :=
  match xs, ys, i, hx, hy with
  | [], ys, i, _, _ => by
    refine ⟨_, by rw [directWalk], ?_⟩
    cases ys <;> simp [otherTail_length, deqL]
  | x :: xs, [], i, hx, hy => by
    simp only [isN0L, Bool.and_eq_true] at hx
    obtain ⟨r, hr, _⟩ := directWalk_direct_exact cfg h hd p sa oa xs [] (i + 1) hx.2 hy
    refine ⟨_, by rw [directWalk, hr], ?_⟩
    simp [deqL]
  | x :: xs, y :: ys, i, hx, hy => by
    simp only [isN0L, Bool.and_eq_true] at hx hy
    have hce := classifyItem_exact h p (p ++ [.idx i]) (p ++ [.idx i]) sa oa x y
    cases hcl : classifyItem cfg p (p ++ [.idx i]) (p ++ [.idx i]) sa oa x y with
    | emit r0 s =>
      rw [hcl] at hce
      obtain ⟨r, hr, hiff⟩ := directWalk_direct_exact cfg h hd p sa oa xs ys (i + 1) hx.2 hy.2
      refine ⟨r0 ++ r, by simp [directWalk, hcl, hr], ?_⟩
      simp only [ActExact] at hce
      simp only [append_diffs, Nat.add_eq_zero_iff, hiff, hce, deqL, Bool.and_eq_true]
    | descend =>
      rw [hcl] at hce
      obtain ⟨r1, hr1, hiff1⟩ := sub_direct_exact cfg h hd .item (p ++ [.idx i]) x y hx.1 hy.1 hce.1 hce.2
      obtain ⟨r, hr, hiff⟩ := directWalk_direct_exact cfg h hd p sa oa xs ys (i + 1) hx.2 hy.2
      refine ⟨r1 ++ r, by simp [directWalk, hcl, hr1, hr], ?_⟩
      simp only [append_diffs, Nat.add_eq_zero_iff, hiff, hiff1, deqL, Bool.and_eq_true]
termination_by structural xs
end

end N0.Compare

namespace N0.Compare
open N0

/-- on a pair of roots of the same kind the entry point is the container step -/
theorem compareTop_eq_sub (cfg : Cfg) (a b : Val) (h : RootPair a b) :
    compareTop cfg a b = sub cfg .entry [] a b := by
  cases a with
  | dict c kvs =>
    cases c <;> cases b <;> try (simp [RootPair] at h)
    rename_i c' kvs'
    cases c' <;> simp [RootPair] at h
    simp [compareTop, sub]
  | list c xs =>
    cases c <;> cases b <;> try (simp [RootPair] at h)
    rename_i c' ys
    cases c' <;> simp [RootPair] at h
    simp [compareTop]
  | _ => simp [RootPair] at h

theorem rootPair_ty {a b : Val} (h : RootPair a b) : tyOf a = tyOf b ∧ isPyScalar a = false := by
  cases a with
  | dict c kvs =>
    cases c <;> cases b <;> try (simp [RootPair] at h)
    rename_i c' kvs'
    cases c' <;> simp [RootPair] at h
    simp [tyOf, isPyScalar]
  | list c xs =>
    cases c <;> cases b <;> try (simp [RootPair] at h)
    rename_i c' ys
    cases c' <;> simp [RootPair] at h
    simp [tyOf, isPyScalar]
  | _ => simp [RootPair] at h

/-! ### the flag machine -/

theorem flagInv_set (f : Flags) (s : Setter) (v : Bool) (h : FlagInv f) : FlagInv (f.set s v) := by
  obtain ⟨t, d, e, r, el, pl⟩ := f
  cases s <;> cases v <;> cases e <;> cases r <;> cases el <;> simp_all [FlagInv, Flags.set]

theorem flagInv_run : ∀ (seq : List (Setter × Bool)) (f : Flags), FlagInv f → FlagInv (f.run seq)
  | [], _, h => h
  | (s, v) :: rest, f, h => flagInv_run rest (f.set s v) (flagInv_set f s v h)

/-- a history that reaches a given configuration -/
def historyFor (f : Flags) : List (Setter × Bool) :=
  [(.types, f.types), (.delta, f.delta), (.place, f.place)] ++
    (if f.records then [(.records, true)] else if f.elements then [(.elements, true)] else [])

theorem historyFor_run (f : Flags) (h : FlagInv f) : Flags.init.run (historyFor f) = f := by
  obtain ⟨t, d, e, r, el, pl⟩ := f
  cases t <;> cases d <;> cases e <;> cases r <;> cases el <;> cases pl <;>
    simp_all [FlagInv, historyFor, Flags.run, Flags.set, Flags.init]

end N0.Compare
