import N0Verif.Model.Csv
namespace N0.Csv
open N0 N0.Py

/-! ### rstrip -/

theorem dropWhile_append_of_all {α} (p : α → Bool) (e s : List α) (h : ∀ x ∈ e, p x = true) :
    (e ++ s).dropWhile p = s.dropWhile p := by
  induction e with
  | nil => rfl
  | cons x e ih =>
    have hx : p x = true := h x (by simp)
    simp [hx]
    exact ih (fun y hy => h y (by simp [hy]))

theorem rstrip_append (chars s e : Str) (he : ∀ c ∈ e, chars.contains c = true)
    (hs : ∀ c, s.getLast? = some c → chars.contains c = false) :
    rstrip chars (s ++ e) = s := by
  unfold rstrip
  rw [List.reverse_append, dropWhile_append_of_all _ _ _ (by intro x hx; exact he x (by simpa using hx))]
  cases hrev : s.reverse with
  | nil => simp at hrev; simp [hrev]
  | cons c r =>
    have hl : s.getLast? = some c := by
      rw [List.getLast?_eq_head?_reverse, hrev]; rfl
    have := hs c hl
    rw [List.dropWhile_cons_of_neg (by rw [this]; simp)]
    rw [← hrev]; simp

/-! ### the body of a quoted field -/

def body (f : Str) : Str := f.flatMap (fun c => if c = '"' then ['"', '"'] else [c])

theorem quoted_eq (f : Str) : quoted f = '"' :: (body f ++ ['"']) := rfl

theorem run_append (d : Char) (st : St) (a b : Str) :
    run d st (a ++ b) = (run d st a) >>= (fun st' => run d st' b) := by
  induction a generalizing st with
  | nil => simp [run, bind, Except.bind]
  | cons c a ih =>
    simp only [List.cons_append, run]
    cases h : step d st c with
    | error e => rfl
    | ok st' => simp [ih, bind, Except.bind]

theorem run_body (d : Char) (hd : d ≠ '"') (pre : Str) (o : List Str) (f rest : Str) :
    run d { field := pre, out := o, qb := true, ex := false } (body f ++ rest)
      = run d { field := pre ++ f, out := o, qb := true, ex := false } rest := by
  induction f generalizing pre with
  | nil => simp [body]
  | cons c f ih =>
    have hb : body (c :: f) = (if c = '"' then ['"', '"'] else [c]) ++ body f := by
      simp [body]
    rw [hb]
    by_cases hc : c = '"'
    · subst hc
      have hd' : ¬ ('"' = d) := fun h => hd h.symm
      simp only [if_true, List.cons_append, List.nil_append, run, step, hd', false_and, if_false,
        Bool.true_eq_false, and_false, bind, Except.bind]
      simp
      have := ih (pre ++ ['"'])
      simpa [List.append_assoc] using this
    · simp only [hc, if_false, List.cons_append, List.nil_append, run, step]
      by_cases hcd : c = d
      · subst hcd
        simp [bind, Except.bind, hc]
        have := ih (pre ++ [c])
        simpa [List.append_assoc] using this
      · simp [hcd, hc, bind, Except.bind]
        have := ih (pre ++ [c])
        simpa [List.append_assoc] using this

/-- reading a quoted field from a fresh field state -/
theorem run_quoted (d : Char) (hd : d ≠ '"') (o : List Str) (f rest : Str) :
    run d { field := [], out := o, qb := false, ex := false } (quoted f ++ rest)
      = run d { field := f, out := o, qb := true, ex := true } rest := by
  have hd' : ¬ ('"' = d) := fun h => hd h.symm
  rw [quoted_eq]
  simp only [List.cons_append, run, step, hd', false_and, if_false]
  simp only [List.isEmpty_nil, and_self, if_true, bind, Except.bind, List.append_assoc]
  rw [run_body d hd]
  simp only [List.nil_append, List.cons_append, run, step, hd', false_and, if_false, if_true]
  simp [bind, Except.bind]

/-- reading an unquoted field: no delimiter inside, no leading quote -/
theorem run_plain_aux (d : Char) (o : List Str) (pre f rest : Str)
    (hnd : d ∉ f) (hq : pre = [] → f.head? ≠ some '"') :
    run d { field := pre, out := o, qb := false, ex := false } (f ++ rest)
      = run d { field := pre ++ f, out := o, qb := false, ex := false } rest := by
  induction f generalizing pre with
  | nil => simp
  | cons c f ih =>
    have hcd : c ≠ d := fun h => hnd (by simp [h])
    have hnd' : d ∉ f := fun h => hnd (by simp [h])
    simp only [List.cons_append, run, step]
    by_cases hc : c = '"'
    · subst hc
      have hpre : pre ≠ [] := fun h => (hq h) (by simp)
      have hpe : pre.isEmpty = false := by cases pre <;> simp_all
      simp [hcd, hpe, bind, Except.bind]
      have := ih (pre ++ ['"']) hnd' (by simp)
      simpa [List.append_assoc] using this
    · simp [hcd, hc, bind, Except.bind]
      have := ih (pre ++ [c]) hnd' (by simp)
      simpa [List.append_assoc] using this

theorem run_plain (d : Char) (o : List Str) (f rest : Str)
    (hnd : d ∉ f) (hq : f.head? ≠ some '"') :
    run d { field := [], out := o, qb := false, ex := false } (f ++ rest)
      = run d { field := f, out := o, qb := false, ex := false } rest := by
  simpa using run_plain_aux d o [] f rest hnd (fun _ => hq)

/-- A quoting decision is *adequate* when it quotes at least what must be quoted. -/
def Adequate (d : Char) (q : Str → Bool) : Prop :=
  ∀ f, (d ∈ f ∨ f.head? = some '"') → q f = true

/-- One field followed by a delimiter pushes the field and resets the machine. -/
theorem run_field_delim (d : Char) (hd : d ≠ '"') (q : Str → Bool) (hq : Adequate d q)
    (o : List Str) (f rest : Str) :
    run d { field := [], out := o, qb := false, ex := false } (encWith q f ++ d :: rest)
      = run d { field := [], out := o ++ [f], qb := false, ex := false } rest := by
  unfold encWith
  by_cases h : q f = true
  · simp only [h, if_true]
    rw [run_quoted d hd]
    simp [run, step, bind, Except.bind]
  · have h1 : d ∉ f := fun hm => h (hq f (Or.inl hm))
    have h2 : f.head? ≠ some '"' := fun hm => h (hq f (Or.inr hm))
    simp only [h]
    simp only [Bool.false_eq_true, if_false]
    rw [run_plain d o f _ h1 h2]
    simp [run, step, bind, Except.bind]

/-- The last field of a line. -/
theorem run_field_end (d : Char) (hd : d ≠ '"') (q : Str → Bool) (hq : Adequate d q)
    (o : List Str) (f : Str) :
    ∃ qb ex, run d { field := [], out := o, qb := false, ex := false } (encWith q f)
      = .ok { field := f, out := o, qb := qb, ex := ex } := by
  unfold encWith
  by_cases h : q f = true
  · refine ⟨true, true, ?_⟩
    simp only [h, if_true]
    have := run_quoted d hd o f []
    simpa [run] using this
  · have h1 : d ∉ f := fun hm => h (hq f (Or.inl hm))
    have h2 : f.head? ≠ some '"' := fun hm => h (hq f (Or.inr hm))
    refine ⟨false, false, ?_⟩
    simp only [h]
    simp only [Bool.false_eq_true, if_false]
    have := run_plain d o f [] h1 h2
    simpa [run] using this

/-- text of a non-empty row: fields separated by the delimiter -/
def rowStr (d : Char) (q : Str → Bool) : Str → List Str → Str
  | f, [] => encWith q f
  | f, g :: gs => encWith q f ++ d :: rowStr d q g gs

theorem run_row (d : Char) (hd : d ≠ '"') (q : Str → Bool) (hq : Adequate d q)
    (o : List Str) (f : Str) (fs : List Str) :
    ∃ st, run d { field := [], out := o, qb := false, ex := false } (rowStr d q f fs) = .ok st
      ∧ st.out ++ [st.field] = o ++ f :: fs := by
  induction fs generalizing o f with
  | nil =>
    obtain ⟨qb, ex, h⟩ := run_field_end d hd q hq o f
    exact ⟨_, h, rfl⟩
  | cons g gs ih =>
    simp only [rowStr]
    rw [run_field_delim d hd q hq]
    obtain ⟨st, h1, h2⟩ := ih (o ++ [f]) g
    exact ⟨st, h1, by simp [h2]⟩

/-! ### the generators produce `rowStr` -/

theorem join_eq_rowStr (d : Char) (q : Str → Bool) (f : Str) (fs : List Str) :
    join [d] ((f :: fs).map (encWith q)) = rowStr d q f fs := by
  induction fs generalizing f with
  | nil => simp [join, rowStr]
  | cons g gs ih =>
    simp only [List.map, join, rowStr]
    have := ih g
    simp only [List.map] at this
    rw [this]; simp

theorem gen_acc_dropLast (d : Char) (q : Str → Bool) (f : Str) (fs : List Str) :
    ((f :: fs).flatMap (fun f => encWith q f ++ [d])).dropLast = rowStr d q f fs := by
  induction fs generalizing f with
  | nil => simp [rowStr]
  | cons g gs ih =>
    have h := ih g
    simp only [List.flatMap_cons] at h ⊢
    simp only [rowStr]
    rw [List.dropLast_append_of_ne_nil (by simp)]
    rw [h]; simp

/-- last character of an encoded row is never CR/LF when fields contain none -/
def NoBreak (f : Str) : Prop := '\r' ∉ f ∧ '\n' ∉ f

theorem getLast_quoted (f : Str) : (quoted f).getLast? = some '"' := by
  rw [quoted_eq, ← List.cons_append, List.getLast?_append]; simp

theorem body_mem (f : Str) (c : Char) (h : c ∈ body f) : c ∈ f ∨ c = '"' := by
  induction f with
  | nil => simp [body] at h
  | cons x f ih =>
    simp only [body, List.flatMap_cons, List.mem_append] at h
    rcases h with h | h
    · by_cases hx : x = '"'
      · simp [hx] at h; right; exact h
      · simp [hx] at h; left; simp [h]
    · rcases ih h with h | h
      · left; simp [h]
      · right; exact h

theorem enc_mem (q : Str → Bool) (f : Str) (c : Char) (h : c ∈ encWith q f) : c ∈ f ∨ c = '"' := by
  unfold encWith at h
  split at h
  · rw [quoted_eq] at h
    simp only [List.mem_cons, List.mem_append, List.not_mem_nil, or_false] at h
    rcases h with h | h | h
    · right; exact h
    · exact body_mem f c h
    · right; exact h
  · left; exact h

theorem rowStr_mem (d : Char) (q : Str → Bool) (f : Str) (fs : List Str) (c : Char)
    (h : c ∈ rowStr d q f fs) : c = d ∨ c = '"' ∨ ∃ g ∈ f :: fs, c ∈ g := by
  induction fs generalizing f with
  | nil =>
    rcases enc_mem q f c h with h | h
    · right; right; exact ⟨f, by simp, h⟩
    · right; left; exact h
  | cons g gs ih =>
    simp only [rowStr, List.mem_append, List.mem_cons] at h
    rcases h with h | h | h
    · rcases enc_mem q f c h with h | h
      · right; right; exact ⟨f, by simp, h⟩
      · right; left; exact h
    · left; exact h
    · rcases ih g h with h | h | ⟨x, hx, hc⟩
      · left; exact h
      · right; left; exact h
      · right; right; exact ⟨x, by simp at hx ⊢; right; exact hx, hc⟩

end N0.Csv
