import N0Verif.Proofs.XPathPure
/-!
  C04, the substring instance of the safety predicate: "`new()` does not occur as a substring".
  It is weaker than `NoW` (so the theorems instantiated with it are stronger).
-/
namespace N0.XPath
open N0 N0.Py N0.Val

/-- "`new()` does not occur as a substring" -/
def NoNew (s : Str) : Prop := ¬ sNew <:+: s

/-- a prefix that avoids `c` of `l ++ c :: b` is a prefix of `l` -/
theorem prefix_of_prefix_glue {c : Char} : ∀ {l p b : Str}, c ∉ p → p <+: l ++ c :: b → p <+: l
  | [], p, b, hc, h => by
    simp only [List.nil_append] at h
    rcases List.prefix_cons_iff.1 h with rfl | ⟨t, rfl, _⟩
    · exact List.prefix_refl _
    · exact absurd (List.mem_cons_self) hc
  | y :: l, p, b, hc, h => by
    simp only [List.cons_append] at h
    rcases List.prefix_cons_iff.1 h with rfl | ⟨t, rfl, ht⟩
    · exact List.nil_prefix
    · have hct : c ∉ t := fun hm => hc (List.mem_cons_of_mem _ hm)
      exact (List.prefix_cons_inj y).2 (prefix_of_prefix_glue hct ht)

/-- an occurrence of `p` in `a ++ c :: b` lies in `a` or in `b` when `c` does not occur in `p` -/
theorem infix_glue {c : Char} {p : Str} (hc : c ∉ p) : ∀ {a b : Str}, p <:+: a ++ c :: b → p <:+: a ∨ p <:+: b
  | [], b, h => by
    simp only [List.nil_append] at h
    rcases List.infix_cons_iff.1 h with h | h
    · rcases List.prefix_cons_iff.1 h with rfl | ⟨t, rfl, _⟩
      · exact Or.inr List.nil_infix
      · exact absurd (List.mem_cons_self) hc
    · exact Or.inr h
  | x :: a, b, h => by
    simp only [List.cons_append] at h
    rcases List.infix_cons_iff.1 h with h | h
    · left
      have : p <+: (x :: a) ++ c :: b := by simpa using h
      exact (prefix_of_prefix_glue hc this).isInfix
    · rcases infix_glue hc h with h | h
      · exact Or.inl (h.trans (List.suffix_cons x a).isInfix)
      · exact Or.inr h

theorem fixBr_cons_cons (x y : Char) (rest : Str) (h : ¬ (x = ']' ∧ y = '[')) :
    fixBr (x :: y :: rest) = x :: fixBr (y :: rest) := by
  rw [fixBr]
  intro rest' h1 h2
  simp only [List.cons.injEq] at h2
  exact h ⟨h1, h2.1⟩

theorem fixBr_single (x : Char) : fixBr [x] = [x] := by
  rw [fixBr]
  · rfl
  · intro rest _ hc; simp at hc

/-- a prefix of `fixBr l` without `]` is a prefix of `l` -/
theorem prefix_fixBr : ∀ {l q : Str}, ']' ∉ q → q <+: fixBr l → q <+: l
  | [], q, _, h => by simpa [fixBr] using h
  | [x], q, _, h => by rw [fixBr_single] at h; exact h
  | x :: y :: rest, q, hq, h => by
    by_cases hxy : x = ']' ∧ y = '['
    · obtain ⟨rfl, rfl⟩ := hxy
      simp only [fixBr] at h
      rcases List.prefix_cons_iff.1 h with rfl | ⟨t, rfl, _⟩
      · exact List.nil_prefix
      · exact absurd (List.mem_cons_self) hq
    · rw [fixBr_cons_cons x y rest hxy] at h
      rcases List.prefix_cons_iff.1 h with rfl | ⟨t, rfl, ht⟩
      · exact List.nil_prefix
      · have hqt : ']' ∉ t := fun hm => hq (List.mem_cons_of_mem _ hm)
        exact (List.prefix_cons_inj x).2 (prefix_fixBr hqt ht)

/-- an occurrence in `fixBr l` of a string that contains neither `]`, `[` nor `/` (at its head)
comes from an occurrence in `l` -/
theorem infix_fixBr {p : Str} (hne : p ≠ []) (h1 : ']' ∉ p) (h2 : p.head? ≠ some '/') (h3 : p.head? ≠ some '[') :
    ∀ {l : Str}, p <:+: fixBr l → p <:+: l
  | [], h => by simpa [fixBr] using h
  | [x], h => by rw [fixBr_single] at h; exact h
  | x :: y :: rest, h => by
    have notpre : ∀ (d : Char) (l : Str), p.head? ≠ some d → ¬ p <+: d :: l := by
      intro d l hd hp
      rcases List.prefix_cons_iff.1 hp with rfl | ⟨t, rfl, _⟩
      · exact hne rfl
      · exact hd rfl
    have hrb : p.head? ≠ some ']' := by
      intro hh
      cases p with
      | nil => exact hne rfl
      | cons a p' => simp only [List.head?_cons, Option.some.injEq] at hh; subst hh; exact h1 (List.mem_cons_self)
    by_cases hxy : x = ']' ∧ y = '['
    · obtain ⟨rfl, rfl⟩ := hxy
      simp only [fixBr] at h
      rcases List.infix_cons_iff.1 h with h | h
      · exact absurd h (notpre _ _ hrb)
      · rcases List.infix_cons_iff.1 h with h | h
        · exact absurd h (notpre _ _ h2)
        · rcases List.infix_cons_iff.1 h with h | h
          · exact absurd h (notpre _ _ h3)
          · have := infix_fixBr hne h1 h2 h3 h
            exact this.trans ((List.suffix_cons _ _).trans (List.suffix_cons _ _)).isInfix
    · rw [fixBr_cons_cons x y rest hxy] at h
      rcases List.infix_cons_iff.1 h with h | h
      · have h' : p <+: fixBr (x :: y :: rest) := by rw [fixBr_cons_cons x y rest hxy]; exact h
        exact (prefix_fixBr h1 h').isInfix
      · exact (infix_fixBr hne h1 h2 h3 h).trans (List.suffix_cons _ _).isInfix

instance : SafePred NoNew where
  sub := fun hi hs hp => hs (hp.trans hi)
  noW := fun h hp => h (hp.subset (by decide))
  glue := by
    intro a b c hc ha hb hp
    rcases infix_glue hc hp with h | h
    · exact ha h
    · exact hb h
  fixBr := by
    intro s hs hp
    exact hs (infix_fixBr (by decide) (by decide) (by decide) (by decide) hp)

/-- the character-level predicate implies the substring one -/
theorem NoNew_of_NoW {s : Str} (h : NoW s) : NoNew s := fun hp => h (hp.subset (by decide))

instance : DecidablePred NoNew := fun s => inferInstanceAs (Decidable (¬ sNew <:+: s))

end N0.XPath
