import N0Verif.Model.Tlv
namespace N0.Tlv
open N0 N0.Py

theorem slice_length (s : Str) (a b : Nat) : (slice s a b).length = min (b - a) (s.length - a) := by
  simp [slice]

theorem slice_append (s : Str) {a b c : Nat} (h1 : a ≤ b) (h2 : b ≤ c) :
    slice s a b ++ slice s b c = slice s a c := by
  unfold slice
  have hb : s.drop b = (s.drop a).drop (b - a) := by
    rw [List.drop_drop]; congr 1; omega
  have hc : c - a = (b - a) + (c - b) := by omega
  rw [hb, hc, List.take_add]

theorem slice_zero_of_le (s : Str) {n : Nat} (h : s.length ≤ n) : slice s 0 n = s := by
  simp [slice, List.take_of_length_le h]

theorem slice_eq_nil_of_le (s : Str) {a b : Nat} (h : s.length ≤ a) : slice s a b = [] := by
  simp [slice, List.drop_eq_nil_of_le h]

theorem slice_self (s : Str) (a : Nat) : slice s a a = [] := by simp [slice]

/-- what one successful iteration yields -/
structure WellCut (pyInt : Str → Option Int) (s : Str) (tl ll : Nat) (t : Trip) : Prop where
  tag : t.tag = slice s t.off (t.off + tl)
  lenText : t.lenText = slice s (t.off + tl) (t.off + tl + ll)
  int : pyInt t.lenText = some t.len
  nonneg : 0 ≤ t.len
  value : t.value = slice s (t.off + tl + ll) t.next
  next : t.next = t.off + tl + ll + t.len.toNat

theorem step_ok {pyInt : Str → Option Int} {s : Str} {tl ll off : Nat} {t : Trip}
    (h : step pyInt s tl ll off = .ok t) : t.off = off ∧ WellCut pyInt s tl ll t := by
  unfold step at h
  simp only at h
  split at h
  · cases h
  · rename_i n hn
    split at h
    · cases h
    · rename_i hneg
      cases h
      exact ⟨rfl, ⟨rfl, rfl, hn, Int.not_lt.mp hneg, rfl, rfl⟩⟩

theorem step_error {pyInt : Str → Option Int} {s : Str} {tl ll off : Nat} {e : PyErr}
    (h : step pyInt s tl ll off = .error e) : e = .ValueError := by
  unfold step at h
  simp only at h
  split at h
  · cases h; rfl
  · split at h
    · cases h; rfl
    · cases h

theorem WellCut.cells {pyInt s tl ll t} (w : WellCut pyInt s tl ll t) :
    t.cells = slice s t.off t.next := by
  unfold Trip.cells
  rw [w.tag, w.lenText, w.value, slice_append s (by omega) (by omega), slice_append s (by omega)]
  rw [w.next]; omega

/-- progress: a successful iteration that starts inside the input moves forward,
for every `pyInt` that rejects the empty string -/
theorem WellCut.progress {pyInt s tl ll t} (w : WellCut pyInt s tl ll t)
    (hE : pyInt [] = none) : t.off + tl < s.length ∧ 1 ≤ ll ∧ t.off < t.next := by
  have hne : t.lenText ≠ [] := by
    intro h; have := w.int; rw [h, hE] at this; cases this
  have hlen : 0 < t.lenText.length := List.length_pos_iff.mpr hne
  rw [w.lenText, slice_length] at hlen
  have := w.next
  omega

/-! ### the loop -/

/-- `Tiles o trips e`: the triplets are cut out of `s` one after the other, the first at
offset `o`, each one starting strictly inside the input and exactly where the previous one
ended, the last one ending at `e` -/
inductive Tiles (pyInt : Str → Option Int) (s : Str) (tl ll : Nat) : Nat → List Trip → Nat → Prop
  | nil (o : Nat) : Tiles pyInt s tl ll o [] o
  | cons {o e : Nat} {t : Trip} {rest : List Trip} :
      t.off = o → o < s.length → o < t.next → WellCut pyInt s tl ll t →
      Tiles pyInt s tl ll t.next rest e → Tiles pyInt s tl ll o (t :: rest) e

section
variable {pyInt : Str → Option Int} {s : Str} {tl ll : Nat}

theorem Tiles.le {o e : Nat} {trips : List Trip} (h : Tiles pyInt s tl ll o trips e) : o ≤ e := by
  induction h with
  | nil => exact Nat.le_refl _
  | cons _ _ hlt _ _ ih => omega

theorem Tiles.concat {o e : Nat} {trips : List Trip} (h : Tiles pyInt s tl ll o trips e) :
    trips.flatMap Trip.cells = slice s o e := by
  induction h with
  | nil o => simp [slice_self]
  | cons ho _ hlt w hrest ih =>
    rw [List.flatMap_cons, ih, w.cells, ho, slice_append s (by omega) hrest.le]

theorem Tiles.count {o e : Nat} {trips : List Trip} (h : Tiles pyInt s tl ll o trips e) :
    trips.length ≤ s.length - o := by
  induction h with
  | nil => simp
  | cons _ hin hlt _ hrest ih =>
    cases hrest with
    | nil => simp; omega
    | cons _ hin' _ _ _ => simp only [List.length_cons] at ih ⊢; omega

theorem Tiles.off_ge {o e : Nat} {trips : List Trip} (h : Tiles pyInt s tl ll o trips e) :
    ∀ t ∈ trips, o ≤ t.off := by
  induction h with
  | nil => simp
  | cons ho _ hlt _ _ ih =>
    intro t ht
    rcases List.mem_cons.mp ht with h | h
    · subst h; omega
    · have := ih t h; omega

theorem Tiles.increasing {o e : Nat} {trips : List Trip} (h : Tiles pyInt s tl ll o trips e) :
    List.Pairwise (· < ·) (trips.map Trip.off) := by
  induction h with
  | nil => simp
  | cons ho _ hlt _ hrest ih =>
    simp only [List.map_cons, List.pairwise_cons]
    refine ⟨?_, ih⟩
    intro x hx
    obtain ⟨t', ht', rfl⟩ := List.mem_map.mp hx
    have := hrest.off_ge t' ht'
    omega

theorem Tiles.wellCut {o e : Nat} {trips : List Trip} (h : Tiles pyInt s tl ll o trips e) :
    ∀ t ∈ trips, WellCut pyInt s tl ll t ∧ t.off < s.length := by
  induction h with
  | nil => simp
  | cons ho hin _ w _ ih =>
    intro t ht
    rcases List.mem_cons.mp ht with h | h
    · subst h; exact ⟨w, by omega⟩
    · exact ih t h

/-- every triplet starts exactly at the end of the cells of its predecessors -/
theorem Tiles.split {o e : Nat} {trips : List Trip} (h : Tiles pyInt s tl ll o trips e)
    (pre : List Trip) (t : Trip) (post : List Trip) (heq : trips = pre ++ t :: post) :
    pre.flatMap Trip.cells = slice s o t.off ∧ o ≤ t.off ∧ t.off < s.length := by
  induction h generalizing pre with
  | nil => cases pre <;> cases heq
  | cons ho hin hlt w hrest ih =>
    cases pre with
    | nil =>
      simp only [List.nil_append, List.cons.injEq] at heq
      obtain ⟨rfl, _⟩ := heq
      subst ho
      simp [slice_self, hin]
    | cons p pre =>
      simp only [List.cons_append, List.cons.injEq] at heq
      obtain ⟨rfl, hrest'⟩ := heq
      obtain ⟨h1, h2, h3⟩ := ih pre hrest'
      refine ⟨?_, by omega, h3⟩
      rw [List.flatMap_cons, h1, w.cells, ho, slice_append s (by omega) h2]

/-- the loop of the fixed code: result shape -/
theorem loop_spec (hE : pyInt [] = none) (fuel off : Nat) :
    let r := loop (step pyInt s tl ll) s.length fuel off
    Tiles pyInt s tl ll off r.trips r.off
    ∧ (r.status = .done → s.length ≤ r.off)
    ∧ (r.status = .done ∨ r.status = .raised .ValueError ∨ r.status = .raised .OutOfFuel)
    ∧ (s.length - off < fuel → r.status ≠ .raised .OutOfFuel) := by
  induction fuel generalizing off with
  | zero =>
    simp only [loop]
    exact ⟨.nil _, by simp, by simp, by omega⟩
  | succ fuel ih =>
    simp only [loop]
    by_cases hin : off < s.length
    · simp only [hin, if_true]
      cases hs : step pyInt s tl ll off with
      | error e =>
        have := step_error hs
        subst this
        exact ⟨.nil _, by simp, by simp, by simp⟩
      | ok t =>
        obtain ⟨hoff, w⟩ := step_ok hs
        have hp := w.progress hE
        obtain ⟨h1, h2, h3, h4⟩ := ih t.next
        refine ⟨.cons hoff hin (by omega) w h1, h2, h3, ?_⟩
        intro hf
        exact h4 (by omega)
    · simp only [hin, if_false]
      exact ⟨.nil _, by intro _; omega, by simp, by simp⟩

/-- any two fuels above `|s| - offset` give the same run -/
theorem loop_fuel_irrelevant (hE : pyInt [] = none) (f1 f2 off : Nat)
    (h1 : s.length - off < f1) (h2 : s.length - off < f2) :
    loop (step pyInt s tl ll) s.length f1 off = loop (step pyInt s tl ll) s.length f2 off := by
  induction f1 generalizing f2 off with
  | zero => omega
  | succ f1 ih =>
    cases f2 with
    | zero => omega
    | succ f2 =>
      simp only [loop]
      by_cases hin : off < s.length
      · simp only [hin, if_true]
        cases hs : step pyInt s tl ll off with
        | error e => rfl
        | ok t =>
          obtain ⟨hoff, w⟩ := step_ok hs
          have hp := w.progress hE
          simp only
          rw [ih f2 t.next (by omega) (by omega)]
      · simp only [hin, if_false]

end


/-! ### `int()` reads padded decimals back -/

theorem pyInt_nil : pyInt [] = none := by decide

theorem isAsciiDigit_of_isDigit {c : Char} (h : c.isDigit = true) : isAsciiDigit c = true := by
  simp only [Char.isDigit, Bool.and_eq_true, decide_eq_true_eq] at h
  simp only [isAsciiDigit, Bool.and_eq_true, decide_eq_true_eq]
  constructor
  · show (48 : UInt32) ≤ c.val
    exact h.1
  · show c.val ≤ (57 : UInt32)
    exact h.2

theorem decimal_digits (n : Nat) : ∀ c ∈ decimal n, isAsciiDigit c = true := by
  intro c hc
  exact isAsciiDigit_of_isDigit (Nat.isDigit_of_mem_toDigits (by decide) (by decide) hc)

theorem decimal_ne_nil (n : Nat) : decimal n ≠ [] := Nat.toDigits_ne_nil

theorem digit_ne_underscore {c : Char} (h : isAsciiDigit c = true) : c ≠ '_' := by
  intro hc; subst hc; revert h; decide

theorem digitsTail_digits (ds : Str) (acc : Nat) (h : ∀ c ∈ ds, isAsciiDigit c = true) :
    digitsTail acc ds = some (Nat.ofDigitChars 10 ds acc) := by
  induction ds generalizing acc with
  | nil => simp [digitsTail]
  | cons c ds ih =>
    have hc : isAsciiDigit c = true := h c (by simp)
    have hne := digit_ne_underscore hc
    have : digitsTail acc (c :: ds) = digitsTail (acc * 10 + digitVal c) ds := by
      rw [digitsTail.eq_def]
      split
      · rename_i heq; cases heq
      · rename_i heq
        simp only [List.cons.injEq] at heq
        exact absurd heq.1 hne
      · rename_i heq
        cases heq
        simp [hc]
    rw [this, ih _ (fun x hx => h x (by simp [hx])), Nat.ofDigitChars_cons]
    simp [digitVal, Nat.mul_comm]

theorem digitsNat_digits (ds : Str) (hne : ds ≠ []) (h : ∀ c ∈ ds, isAsciiDigit c = true) :
    digitsNat ds = some (Nat.ofDigitChars 10 ds 0) := by
  cases ds with
  | nil => exact absurd rfl hne
  | cons c ds =>
    have hc : isAsciiDigit c = true := h c (by simp)
    simp only [digitsNat, hc, if_true]
    rw [digitsTail_digits ds _ (fun x hx => h x (by simp [hx])), Nat.ofDigitChars_cons]
    simp [digitVal]

theorem digit_not_space {c : Char} (h : isAsciiDigit c = true) : isIntSpace c = false := by
  simp only [isAsciiDigit, Bool.and_eq_true, decide_eq_true_eq] at h
  have h1 : 48 ≤ c.toNat := h.1
  have h2 : c.toNat ≤ 57 := h.2
  simp only [isIntSpace]
  simp
  omega

theorem dropWhile_replicate_append {α} (p : α → Bool) (k : Nat) (x : α) (l : List α) (hx : p x = true) :
    (List.replicate k x ++ l).dropWhile p = l.dropWhile p := by
  induction k with
  | zero => simp
  | succ k ih => simp [List.replicate_succ, hx, ih]

theorem dropWhile_of_head {α} (p : α → Bool) (x : α) (l : List α) (hx : p x = false) :
    (x :: l).dropWhile p = x :: l := by simp [hx]

/-- stripping leaves a string that neither starts nor ends with a blank unchanged -/
theorem stripInt_id (s : Str) (c d : Char) (hh : s.head? = some c) (hl : s.getLast? = some d)
    (hc : isIntSpace c = false) (hd : isIntSpace d = false) : stripInt s = s := by
  unfold stripInt
  cases s with
  | nil => simp at hh
  | cons x s =>
    simp only [List.head?_cons, Option.some.injEq] at hh
    subst hh
    rw [dropWhile_of_head _ _ _ hc]
    cases hr : (x :: s).reverse with
    | nil => simp at hr
    | cons y r =>
      have : (x :: s).getLast? = some y := by
        rw [List.getLast?_eq_head?_reverse, hr]; rfl
      rw [hl] at this
      cases this
      rw [dropWhile_of_head _ _ _ hd, ← hr, List.reverse_reverse]

theorem head_digits {ds : Str} (hne : ds ≠ []) (h : ∀ c ∈ ds, isAsciiDigit c = true) :
    ∃ c, ds.head? = some c ∧ isAsciiDigit c = true := by
  cases ds with
  | nil => exact absurd rfl hne
  | cons c ds => exact ⟨c, rfl, h c (by simp)⟩

theorem last_digits {ds : Str} (hne : ds ≠ []) (h : ∀ c ∈ ds, isAsciiDigit c = true) :
    ∃ c, ds.getLast? = some c ∧ isAsciiDigit c = true := by
  refine ⟨ds.getLast hne, List.getLast?_eq_some_getLast hne, h _ (List.getLast_mem hne)⟩

/-- all-digit text is read as the decimal number it spells -/
theorem pyInt_digits (ds : Str) (hne : ds ≠ []) (h : ∀ c ∈ ds, isAsciiDigit c = true) :
    pyInt ds = some (Int.ofNat (Nat.ofDigitChars 10 ds 0)) := by
  obtain ⟨c, hc, hcd⟩ := head_digits hne h
  obtain ⟨d, hd, hdd⟩ := last_digits hne h
  unfold pyInt
  rw [stripInt_id ds c d hc hd (digit_not_space hcd) (digit_not_space hdd)]
  cases ds with
  | nil => exact absurd rfl hne
  | cons x ds =>
    simp only [List.head?_cons, Option.some.injEq] at hc
    subst hc
    have hp : x ≠ '+' := by intro hx; subst hx; revert hcd; decide
    have hm : x ≠ '-' := by intro hx; subst hx; revert hcd; decide
    split
    · rename_i heq; simp only [List.cons.injEq] at heq; exact absurd heq.1 hp
    · rename_i heq; simp only [List.cons.injEq] at heq; exact absurd heq.1 hm
    · rw [digitsNat_digits _ hne h]; rfl

/-- zero padding: `int(str(n).rjust(k, '0')) == n` -/
theorem pyInt_zero_padded (k n : Nat) :
    pyInt (List.replicate k '0' ++ decimal n) = some (n : Int) := by
  have hall : ∀ c ∈ List.replicate k '0' ++ decimal n, isAsciiDigit c = true := by
    intro c hc
    rcases List.mem_append.mp hc with h | h
    · rw [(List.mem_replicate.mp h).2]; decide
    · exact decimal_digits n c h
  rw [pyInt_digits _ (by simp [decimal_ne_nil]) hall, Nat.ofDigitChars_append,
    Nat.ofDigitChars_replicate_zero]
  simp [decimal]

/-- blank padding: `int(str(n).rjust(k, ' ')) == n` for every character `int()` strips -/
theorem pyInt_blank_padded (k n : Nat) (c : Char) (hc : isIntSpace c = true) :
    pyInt (List.replicate k c ++ decimal n) = some (n : Int) := by
  have key : stripInt (List.replicate k c ++ decimal n) = decimal n := by
    obtain ⟨x, hx, hxd⟩ := head_digits (decimal_ne_nil n) (decimal_digits n)
    obtain ⟨y, hy, hyd⟩ := last_digits (decimal_ne_nil n) (decimal_digits n)
    have := stripInt_id (decimal n) x y hx hy (digit_not_space hxd) (digit_not_space hyd)
    unfold stripInt at this ⊢
    rw [dropWhile_replicate_append _ _ _ _ hc]
    exact this
  have h0 := pyInt_zero_padded 0 n
  simp only [List.replicate_zero, List.nil_append] at h0
  unfold pyInt at h0 ⊢
  rw [key]
  obtain ⟨x, hx, hxd⟩ := head_digits (decimal_ne_nil n) (decimal_digits n)
  obtain ⟨y, hy, hyd⟩ := last_digits (decimal_ne_nil n) (decimal_digits n)
  rw [stripInt_id (decimal n) x y hx hy (digit_not_space hxd) (digit_not_space hyd)] at h0
  exact h0


/-! ### generate_tlv, then parse_tlv -/

theorem slice_mid (p m q : Str) (a b : Nat) (ha : a = p.length) (hb : b = p.length + m.length) :
    slice (p ++ m ++ q) a b = m := by
  subst ha hb
  unfold slice
  rw [List.append_assoc, List.drop_left]
  simp

theorem ljust_length (n : Nat) (c : Char) (s : Str) (h : s.length ≤ n) : (ljust n c s).length = n := by
  simp [ljust]; omega

theorem rjust_length (n : Nat) (c : Char) (s : Str) (h : s.length ≤ n) : (rjust n c s).length = n := by
  simp [rjust]; omega

theorem step_entry {pyInt : Str → Option Int} {tl ll : Nat} {tp lp : Char} {tag v : Str}
    (hI : IntReads pyInt ll lp) (htag : tag.length ≤ tl) (hlen : (decimal v.length).length ≤ ll)
    (pre rest : Str) :
    step pyInt (pre ++ (ljust tl tp tag ++ rjust ll lp (decimal v.length) ++ v) ++ rest) tl ll pre.length
      = .ok { tag := ljust tl tp tag, lenText := rjust ll lp (decimal v.length), len := v.length,
              value := v, off := pre.length, next := pre.length + tl + ll + v.length } := by
  have hA := ljust_length tl tp tag htag
  have hB := rjust_length ll lp (decimal v.length) hlen
  generalize hAe : ljust tl tp tag = A at hA
  generalize hBe : rjust ll lp (decimal v.length) = B at hB
  have h1 : slice (pre ++ (A ++ B ++ v) ++ rest) pre.length (pre.length + tl) = A := by
    have : pre ++ (A ++ B ++ v) ++ rest = pre ++ A ++ (B ++ v ++ rest) := by simp [List.append_assoc]
    rw [this]; exact slice_mid _ _ _ _ _ rfl (by omega)
  have h2 : slice (pre ++ (A ++ B ++ v) ++ rest) (pre.length + tl) (pre.length + tl + ll) = B := by
    have : pre ++ (A ++ B ++ v) ++ rest = (pre ++ A) ++ B ++ (v ++ rest) := by simp [List.append_assoc]
    rw [this]; exact slice_mid _ _ _ _ _ (by simp; omega) (by simp; omega)
  have h3 : slice (pre ++ (A ++ B ++ v) ++ rest) (pre.length + tl + ll)
      (pre.length + tl + ll + v.length) = v := by
    have : pre ++ (A ++ B ++ v) ++ rest = (pre ++ A ++ B) ++ v ++ rest := by simp [List.append_assoc]
    rw [this]; exact slice_mid _ _ _ _ _ (by simp; omega) (by simp; omega)
  have hi : pyInt B = some (v.length : Int) := by rw [← hBe]; exact hI v.length hlen
  unfold step
  simp only [h1, h2, hi]
  have : ¬ ((v.length : Int) < 0) := by omega
  simp only [this, if_false, Int.toNat_natCast, h3]

theorem genEntries_cons_ok {tl ll : Nat} {tp lp : Char} {t v : Str} {rest : List (Str × Str)} {g : Str}
    (h : genEntries tl ll tp lp ((t, v) :: rest) = .ok g) :
    t.length ≤ tl ∧ (decimal v.length).length ≤ ll ∧
    ∃ r, genEntries tl ll tp lp rest = .ok r ∧
      g = (ljust tl tp t ++ rjust ll lp (decimal v.length) ++ v) ++ r := by
  simp only [genEntries] at h
  cases he : genEntry tl ll tp lp t v with
  | error e => rw [he] at h; cases h
  | ok e =>
    rw [he] at h
    cases hr : genEntries tl ll tp lp rest with
    | error e' => rw [hr] at h; cases h
    | ok r =>
      rw [hr] at h
      cases h
      unfold genEntry at he
      split at he
      · split at he
        · cases he; exact ⟨‹_›, ‹_›, r, rfl, rfl⟩
        · cases he
      · cases he

/-- the entries are written exactly when everything fits -/
theorem genEntries_ok_iff (tl ll : Nat) (tp lp : Char) (d : List (Str × Str)) :
    (∃ g, genEntries tl ll tp lp d = .ok g) ↔ Fits tl ll d := by
  induction d with
  | nil => simp [genEntries, Fits]
  | cons e d ih =>
    obtain ⟨t, v⟩ := e
    constructor
    · rintro ⟨g, hg⟩
      obtain ⟨h1, h2, r, hr, _⟩ := genEntries_cons_ok hg
      intro e he
      rcases List.mem_cons.mp he with h | h
      · subst h; exact ⟨h1, h2⟩
      · exact (ih.mp ⟨r, hr⟩) e h
    · intro hf
      have h0 := hf (t, v) (by simp)
      obtain ⟨r, hr⟩ := ih.mpr (fun e he => hf e (by simp [he]))
      have h01 : t.length ≤ tl := h0.1
      have h02 : (decimal v.length).length ≤ ll := h0.2
      refine ⟨(ljust tl tp t ++ rjust ll lp (decimal v.length) ++ v) ++ r, ?_⟩
      simp only [genEntries, genEntry, h01, h02, if_true, hr]

/-- the only way writing the entries fails is `AssertionError` -/
theorem genEntries_error (tl ll : Nat) (tp lp : Char) (d : List (Str × Str)) (e : PyErr)
    (h : genEntries tl ll tp lp d = .error e) : e = .AssertionError := by
  induction d with
  | nil => simp [genEntries] at h
  | cons x d ih =>
    obtain ⟨t, v⟩ := x
    simp only [genEntries] at h
    cases he : genEntry tl ll tp lp t v with
    | error e' =>
      rw [he] at h
      cases h
      unfold genEntry at he
      split at he
      · split at he
        · cases he
        · cases he; rfl
      · cases he; rfl
    | ok s =>
      rw [he] at h
      cases hr : genEntries tl ll tp lp d with
      | error e' => rw [hr] at h; cases h; exact ih hr
      | ok r => rw [hr] at h; cases h

/-- parsing what was generated, started after any already consumed prefix -/
theorem loop_generated {pyInt : Str → Option Int} {tl ll : Nat} {tp lp : Char}
    (hI : IntReads pyInt ll lp) (d : List (Str × Str)) (g : Str)
    (hg : genEntries tl ll tp lp d = .ok g) (pre : Str) (fuel : Nat) (hf : d.length < fuel) :
    let r := loop (step pyInt (pre ++ g) tl ll) (pre ++ g).length fuel pre.length
    r.status = .done ∧ r.off = (pre ++ g).length ∧ r.trips.map Trip.view = d.map (expected tl tp) := by
  induction d generalizing g pre fuel with
  | nil =>
    simp only [genEntries] at hg
    cases hg
    cases fuel with
    | zero => simp at hf
    | succ fuel => simp [loop]
  | cons e d ih =>
    obtain ⟨t, v⟩ := e
    obtain ⟨h1, h2, r, hr, rfl⟩ := genEntries_cons_ok hg
    cases fuel with
    | zero => simp at hf
    | succ fuel =>
      have hll : 1 ≤ ll := by
        have := Nat.length_toDigits_pos (b := 10) (n := v.length)
        unfold decimal at h2; omega
      have hB := rjust_length ll lp (decimal v.length) h2
      have hin : pre.length < (pre ++ ((ljust tl tp t ++ rjust ll lp (decimal v.length) ++ v) ++ r)).length := by
        simp only [List.length_append]; omega
      have hs := step_entry (tp := tp) hI h1 h2 pre r
      rw [← List.append_assoc] at hin ⊢
      simp only [loop, hin, if_true, hs]
      have hA := ljust_length tl tp t h1
      have hnext : pre.length + tl + ll + v.length
          = (pre ++ (ljust tl tp t ++ rjust ll lp (decimal v.length) ++ v)).length := by
        simp only [List.length_append]; omega
      rw [hnext]
      obtain ⟨i1, i2, i3⟩ := ih r hr (pre ++ (ljust tl tp t ++ rjust ll lp (decimal v.length) ++ v)) fuel
        (by simp at hf; omega)
      refine ⟨i1, i2, ?_⟩
      simp only [List.map_cons, i3]
      rfl

theorem generated_length {tl ll : Nat} {tp lp : Char} {d : List (Str × Str)} {g : Str}
    (hg : genEntries tl ll tp lp d = .ok g) : d.length ≤ g.length := by
  induction d generalizing g with
  | nil => simp
  | cons e d ih =>
    obtain ⟨t, v⟩ := e
    obtain ⟨_, h2, r, hr, rfl⟩ := genEntries_cons_ok hg
    have := ih hr
    have hpos := Nat.length_toDigits_pos (b := 10) (n := v.length)
    have hB := rjust_length ll lp (decimal v.length) h2
    unfold decimal at h2
    simp only [List.length_cons, List.length_append]
    omega

/-! ### the argument check on `len_padding` (fix C16-c) -/

theorem digitsTail_digit (acc : Nat) (c : Char) (rest : Str) (h : isAsciiDigit c = true) :
    digitsTail acc (c :: rest) = digitsTail (acc * 10 + digitVal c) rest := by
  have hu : c ≠ '_' := by intro e; subst e; revert h; decide
  rw [digitsTail.eq_def]
  split
  · rename_i heq; cases heq
  · rename_i heq; simp only [List.cons.injEq] at heq; exact absurd heq.1 hu
  · rename_i heq; simp only [List.cons.injEq] at heq; obtain ⟨rfl, rfl⟩ := heq; simp [h]

/-- **the probe is exact**: `int(pad + pad + '1') == 1` holds exactly when the padding is `'0'`
or a character `int()` strips — a sign, an underscore, another digit, a letter fail it -/
theorem lenPadOk_iff (lp : Char) : lenPadOk lp = true ↔ (lp = '0' ∨ isIntSpace lp = true) := by
  unfold lenPadOk
  constructor
  · intro h
    have h1 : pyInt [lp, lp, '1'] = some 1 := by simpa using h
    cases hsp : isIntSpace lp with
    | true => exact Or.inr rfl
    | false =>
      left
      have hst : stripInt [lp, lp, '1'] = [lp, lp, '1'] :=
        stripInt_id _ lp '1' rfl rfl hsp (by decide)
      unfold pyInt at h1
      rw [hst] at h1
      by_cases hplus : lp = '+'
      · subst hplus; revert h1; decide
      by_cases hminus : lp = '-'
      · subst hminus; revert h1; decide
      have h2 : (digitsNat [lp, lp, '1']).map Int.ofNat = some 1 := by
        split at h1
        · rename_i r heq; simp only [List.cons.injEq] at heq; exact absurd heq.1 hplus
        · rename_i r heq; simp only [List.cons.injEq] at heq; exact absurd heq.1 hminus
        · exact h1
      by_cases hd : isAsciiDigit lp = true
      · have h3 : digitsNat [lp, lp, '1'] = some ((digitVal lp * 10 + digitVal lp) * 10 + 1) := by
          have h1d : isAsciiDigit '1' = true := by decide
          simp only [digitsNat, hd, if_true]
          rw [digitsTail_digit _ _ _ hd, digitsTail_digit _ _ _ h1d]
          rfl
        rw [h3] at h2
        simp only [Option.map_some, Option.some.injEq] at h2
        have hv : digitVal lp = 0 := by
          have h4 : ((((digitVal lp * 10 + digitVal lp) * 10 + 1 : Nat) : Int)) = 1 := h2
          omega
        simp only [isAsciiDigit, Bool.and_eq_true, decide_eq_true_eq] at hd
        have hge : 48 ≤ lp.toNat := hd.1
        have h48 : lp.toNat = 48 := by
          unfold digitVal at hv
          have : '0'.toNat = 48 := rfl
          omega
        apply Char.ext
        apply UInt32.toNat_inj.mp
        exact h48
      · have : digitsNat [lp, lp, '1'] = none := by
          simp [digitsNat, hd]
        rw [this] at h2; cases h2
  · rintro (h | h)
    · subst h; decide
    · have := pyInt_blank_padded 2 1 lp h
      have hd : decimal 1 = ['1'] := by decide
      rw [hd] at this
      simpa using this

/-- an accepted padding is `'0'` or a character `int()` strips -/
theorem lenPadOk_reads {lp : Char} (h : lenPadOk lp = true) : lp = '0' ∨ isIntSpace lp = true :=
  (lenPadOk_iff lp).mp h

theorem generateTlv_accepted {lp : Char} (h : lenPadOk lp = true) (tl ll : Nat) (tp : Char)
    (d : List (Str × Str)) : generateTlv tl ll tp lp d = genEntries tl ll tp lp d := by
  simp [generateTlv, h]

theorem generateTlv_refused {lp : Char} (h : lenPadOk lp = false) (tl ll : Nat) (tp : Char)
    (d : List (Str × Str)) : generateTlv tl ll tp lp d = .error .AssertionError := by
  simp [generateTlv, h]

/-- whatever `generate_tlv` returns was written by the entry loop under an accepted padding -/
theorem generateTlv_ok {tl ll : Nat} {tp lp : Char} {d : List (Str × Str)} {g : Str}
    (h : generateTlv tl ll tp lp d = .ok g) : lenPadOk lp = true ∧ genEntries tl ll tp lp d = .ok g := by
  unfold generateTlv at h
  split at h
  · exact ⟨‹_›, h⟩
  · cases h

end N0.Tlv
