import N0Verif.Proofs.XPathHidden
import N0Verif.Proofs.XPathDeleteRec
/-!
  `pop` and `delete(recursively=True)` through a hidden-list spelling (`name[0]`, `name[-1]`, `name[last()]`, …) on
  the single value of a key (worker `c05hidden`).

  * `getItem_hidden`: item access through the spelling returns the single value;
  * `delete_hidden_first`: the first round of the loop of `delete` (either `recursively`) removes `name` from the dict
    where it really is; what remains is the loop over the tokens of the parent;
  * `delete_rec_hidden`: with `recursively=True` the rest of the loop is `pruneUp` over the real ancestors — the same
    tree as `delete` of the canonical path (`deleteLoop_rec_spelled`);
  * `pop_hidden`, `pop_rec_hidden`: `pop` returns the value and has the effect of `delete`.
-/
namespace N0.XPath
open N0 N0.Py N0.Val

/-- item access through `name[e]`, `e` denoting `0` or `-1`, on the single value `old` of `name`: `old` -/
theorem getItem_hidden (cls : Cls) (kvs : List (Str × Val)) (q : Pos) (kcls : Cls) (nkvs : List (Str × Val))
    (name : Str) (old : Val) (e : IdxSp) (fuel : Nat)
    (hp : PlainPos q) (hget : getAt (.dict cls kvs) q = some (.dict kcls nkvs)) (hn : PlainKey name)
    (hl : lookup name nkvs = some old) (hs : isList old = false) (he : e.val = 0 ∨ e.val = -1)
    (hf : fuel ≥ 2 * q.length + 2) :
    getItem fuel (.dict cls kvs) (slash ++ renderPos q ++ slash ++ (name ++ bracket e.text)) = (.dict cls kvs, .ok old) := by
  have hP : getAt (.dict cls kvs) (q ++ [Seg.key name]) = some old := by
    rw [getAt_snoc, hget]; simp [child, hl]
  obtain ⟨f, en, _, hwalk⟩ := hidden_walk cls kvs q kcls nkvs name old e [] fuel hp hget hn hl hf
  rw [hidden_find_last f _ en true _ _ _ _ _ old hP hs e.idxTok he] at hwalk
  have htok : tokenize (slash ++ renderPos q ++ slash ++ (name ++ bracket e.text)) = mergedToks q ++ [name ++ bracket e.text] := by
    have := tokenize_elem_path q hp hn (hidden_cleanIdx e) [] (by simp)
    simpa [renderPos] using this
  unfold getItem getCore
  simp only [show startsWith (slash ++ renderPos q ++ slash ++ (name ++ bracket e.text)) ['?'] = false by
      simp [slash, startsWith, List.append_assoc],
    Bool.false_eq_true, if_false,
    show hasPathChar (slash ++ renderPos q ++ slash ++ (name ++ bracket e.text)) = true by simp [hasPathChar, slash],
    if_true, htok, hwalk, Res.isFound]

/-- the first round of `delete` through the hidden spelling: `name` is removed where it really is; the loop goes on
with the tokens of the parent -/
theorem delete_hidden_first (cls : Cls) (kvs : List (Str × Val)) (q : Pos) (kcls : Cls) (nkvs : List (Str × Val))
    (name : Str) (old : Val) (e : IdxSp) (t' : Val) (fuel : Nat) (r : Bool)
    (hp : PlainPos q) (hget : getAt (.dict cls kvs) q = some (.dict kcls nkvs)) (hn : PlainKey name)
    (hl : lookup name nkvs = some old) (hs : isList old = false) (he : e.val = 0 ∨ e.val = -1)
    (hdel : delAt (.dict cls kvs) (q ++ [.key name]) = some t') (hf : fuel ≥ 2 * q.length + 2) :
    delete fuel (.dict cls kvs) (slash ++ renderPos q ++ slash ++ (name ++ bracket e.text)) r
      = deleteLoop fuel (mergedToks q) r t' (mergedToks q).length false := by
  have hP : getAt (.dict cls kvs) (q ++ [Seg.key name]) = some old := by
    rw [getAt_snoc, hget]; simp [child, hl]
  obtain ⟨f, en, _, hwalk⟩ := hidden_walk cls kvs q kcls nkvs name old e [] fuel hp hget hn hl hf
  rw [hidden_find_last f _ en true _ _ _ _ _ old hP hs e.idxTok he] at hwalk
  have htok : tokenize (slash ++ renderPos q ++ slash ++ (name ++ bracket e.text)) = mergedToks q ++ [name ++ bracket e.text] := by
    have := tokenize_elem_path q hp hn (hidden_cleanIdx e) [] (by simp)
    simpa [renderPos] using this
  obtain ⟨r1, hr1, hpar, hni, hfound⟩ := hidden_resolve fuel (.dict cls kvs) q kcls nkvs name old hp hn hget hl (by omega)
  have hdt := delThrough_found (.dict cls kvs) _ old r1 t' hfound hdel
  have hlen : (mergedToks q ++ [name ++ bracket e.text]).length = (mergedToks q).length + 1 := by simp
  have htake : (mergedToks q ++ [name ++ bracket e.text]).take ((mergedToks q).length + 1) = mergedToks q ++ [name ++ bracket e.text] := by
    rw [List.take_of_length_le (by simp)]
  have hgetD : (mergedToks q ++ [name ++ bracket e.text]).getD (mergedToks q).length [] = name ++ bracket e.text := by
    simp [List.getD_eq_getElem?_getD]
  have hname : name.isEmpty = false := isEmpty_false_of_ne hn.ne
  have hdp : delPlace fuel (.dict cls kvs) (name ++ bracket e.text)
      { parent := .wrap (.at (q ++ [Seg.key name])), nameIdx := some (bracket (intStr e.val)), value := old,
        found := slash ++ renderPos (q ++ [Seg.key name]), notFound := Option.none } = .ok (some r1) := by
    simp only [delPlace, isWrap, Res.isFound, Bool.and_self, if_true, (e.keyIdxTok hn).split, hname, Bool.false_eq_true, if_false, hr1]
  unfold delete deleteTokens
  simp only [show stripQ (slash ++ renderPos q ++ slash ++ (name ++ bracket e.text))
      = slash ++ renderPos q ++ slash ++ (name ++ bracket e.text) by
    apply stripQ_noQ; simp [slash, startsWith, List.append_assoc], htok, hlen]
  rw [deleteLoop, htake, hwalk]
  simp only [hgetD, hdp, Bool.true_or, if_true, hdt]
  exact deleteLoop_init fuel r (mergedToks q) _ t' false

/-- **`delete('//…q…/name[e]', recursively=True)`, `e` denoting `0` or `-1` on a single value**: `name` is removed, then
the real ancestors that became empty dictionaries, deepest first — `pruneUp` over the position `q` of the parent -/
theorem delete_rec_hidden (cls : Cls) (kvs : List (Str × Val)) (q : Pos) (kcls : Cls) (nkvs : List (Str × Val))
    (name : Str) (old : Val) (e : IdxSp) (t' : Val) (fuel : Nat)
    (hp : PlainPos q) (hget : getAt (.dict cls kvs) q = some (.dict kcls nkvs)) (hn : PlainKey name)
    (hl : lookup name nkvs = some old) (hs : isList old = false) (he : e.val = 0 ∨ e.val = -1)
    (hdel : delAt (.dict cls kvs) (q ++ [.key name]) = some t') (hf : fuel ≥ 2 * q.length + 2) :
    delete fuel (.dict cls kvs) (slash ++ renderPos q ++ slash ++ (name ++ bracket e.text)) true
      = (pruneUp t' q q.length, .ok ()) := by
  rw [delete_hidden_first cls kvs q kcls nkvs name old e t' fuel true hp hget hn hl hs he hdel hf]
  have hx : delChild (.dict kcls nkvs) (.key name) = some (.dict kcls (kvDel name nkvs)) := by
    have : kvHas name nkvs = true := by simp [kvHas, hl]
    simp [delChild, this]
  have hsn := delAt_snoc q (.dict cls kvs) (.key name) _ _ hget hx
  rw [hdel] at hsn
  have hg' : getAt t' q = some (.dict kcls (kvDel name nkvs)) :=
    getAt_setAt_same _ _ _ _ hsn.symm (fun _ _ => trivial)
  have hlen := mergedToks_length_le q
  exact deleteLoop_prune fuel _ (mergedToks q) t' q _ rfl (spells_merged q t' _ hp hg') (by omega)

/-- … which is the tree `delete(recursively=True)` of the canonical path `//…q…/name` yields -/
theorem delete_rec_hidden_eq_canonical (cls : Cls) (kvs : List (Str × Val)) (q : Pos) (kcls : Cls) (nkvs : List (Str × Val))
    (name : Str) (old : Val) (e : IdxSp) (fuel : Nat)
    (hp : PlainPos q) (hget : getAt (.dict cls kvs) q = some (.dict kcls nkvs)) (hn : PlainKey name)
    (hl : lookup name nkvs = some old) (hs : isList old = false) (he : e.val = 0 ∨ e.val = -1)
    (hf : fuel ≥ 2 * q.length + 2) :
    delete fuel (.dict cls kvs) (slash ++ renderPos q ++ slash ++ (name ++ bracket e.text)) true
      = delete fuel (.dict cls kvs) (slash ++ renderPos (q ++ [.key name])) true := by
  have hP : getAt (.dict cls kvs) (q ++ [Seg.key name]) = some old := by
    rw [getAt_snoc, hget]; simp [child, hl]
  have hpp : PlainPos (q ++ [Seg.key name]) := hp.append ⟨hn, trivial⟩
  obtain ⟨t', hdel⟩ := delAt_isSome' (q ++ [.key name]) _ old (by simp) hP
  rw [delete_rec_hidden cls kvs q kcls nkvs name old e t' fuel hp hget hn hl hs he hdel hf]
  have hlen := mergedToks_length_le (q ++ [Seg.key name])
  have hcan := deleteLoop_rec_spelled fuel _ (.dict cls kvs) _ old t' (spells_merged _ _ old hpp hP)
    (mergedToks_ne_nil _ (by simp)) hdel (by simp at hlen ⊢; omega)
  have htok : tokenize (slash ++ renderPos (q ++ [Seg.key name])) = mergedToks (q ++ [Seg.key name]) :=
    tokenize_render _ hpp
  unfold delete deleteTokens
  simp only [stripQ_slash, htok, hcan]
  simp

/-- **`pop` through the hidden spelling** (either `recursively`): the value, and the tree `delete` yields -/
theorem pop_hidden (cls : Cls) (kvs : List (Str × Val)) (q : Pos) (kcls : Cls) (nkvs : List (Str × Val))
    (name : Str) (old d : Val) (e : IdxSp) (t' : Val) (fuel : Nat) (r : Bool)
    (hp : PlainPos q) (hget : getAt (.dict cls kvs) q = some (.dict kcls nkvs)) (hn : PlainKey name)
    (hl : lookup name nkvs = some old) (hs : isList old = false) (he : e.val = 0 ∨ e.val = -1)
    (hdel : delAt (.dict cls kvs) (q ++ [.key name]) = some t') (hf : fuel ≥ 2 * q.length + 2) :
    pop fuel (.dict cls kvs) (slash ++ renderPos q ++ slash ++ (name ++ bracket e.text)) d r
      = .ok (if r then pruneUp t' q q.length else t', old) := by
  have hsq : stripQ (slash ++ renderPos q ++ slash ++ (name ++ bracket e.text))
      = slash ++ renderPos q ++ slash ++ (name ++ bracket e.text) := by
    apply stripQ_noQ; simp [slash, startsWith, List.append_assoc]
  unfold pop
  rw [hsq, getItem_hidden cls kvs q kcls nkvs name old e fuel hp hget hn hl hs he hf]
  cases r with
  | false =>
    simp only [delete_hidden cls kvs q kcls nkvs name old e t' fuel hp hget hn hl hs he hdel hf]
    rfl
  | true =>
    simp only [delete_rec_hidden cls kvs q kcls nkvs name old e t' fuel hp hget hn hl hs he hdel hf]
    rfl

/-! ### the single value is an element of a list: `…h[i][e]` -/

/-- the search for `//…P…[e]` where `P` ends in a list index and holds the single value `old`, `e` denoting `0` or `-1`:
FOUND, the parent is the hidden list around the element -/
theorem hidden_elem_find (cls : Cls) (kvs : List (Str × Val)) (q0 : Pos) (i : Nat) (old : Val) (e : IdxSp) (fuel : Nat)
    (hp : PlainPos (q0 ++ [Seg.idx i])) (hget : getAt (.dict cls kvs) (q0 ++ [Seg.idx i]) = some old)
    (hs : isList old = false) (he : e.val = 0 ∨ e.val = -1) (hf : fuel ≥ 2 * (q0.length + 1) + 1) :
    findD fuel (.dict cls kvs) [] false true (mergedToks (q0 ++ [Seg.idx i]) ++ [bracket e.text]) (.at []) true slash
      = .ok (.dict cls kvs,
        ({ parent := .wrap (.at (q0 ++ [Seg.idx i])), nameIdx := some (bracket (intStr e.val)),
           value := old, found := slash ++ renderPos (q0 ++ [Seg.idx i]), notFound := Option.none } : Res)) := by
  have hlen := mergedToks_length_le (q0 ++ [Seg.idx i])
  simp only [List.length_append, List.length_cons, List.length_nil] at hlen
  obtain ⟨f', e', h1, _, hwalk⟩ := find_walk (.dict cls kvs) true (spellsF_merged (q0 ++ [Seg.idx i]) _ _ hp hget)
    [bracket e.text] (by simp) fuel [] slash true rfl (by omega)
  obtain ⟨f, rfl⟩ : ∃ f, f' = f + 1 := ⟨f' - 1, by omega⟩
  rw [hwalk, List.nil_append]
  exact hidden_find_last f _ e' true _ _ _ _ _ old hget hs e.idxTok he

theorem hidden_elem_tokenize (q0 : Pos) (i : Nat) (e : IdxSp) (hp : PlainPos (q0 ++ [Seg.idx i])) :
    tokenize (slash ++ renderPos (q0 ++ [Seg.idx i]) ++ bracket e.text) = mergedToks (q0 ++ [Seg.idx i]) ++ [bracket e.text] := by
  have := tokenize_idx_first_path' q0 i hp e.text (hidden_cleanIdx e) [] (by simp)
  simpa [renderCStep] using this

/-- item access through `…h[i][e]` on the element `old` that is not a list: `old` -/
theorem getItem_hidden_elem (cls : Cls) (kvs : List (Str × Val)) (q0 : Pos) (i : Nat) (old : Val) (e : IdxSp) (fuel : Nat)
    (hp : PlainPos (q0 ++ [Seg.idx i])) (hget : getAt (.dict cls kvs) (q0 ++ [Seg.idx i]) = some old)
    (hs : isList old = false) (he : e.val = 0 ∨ e.val = -1) (hf : fuel ≥ 2 * (q0.length + 1) + 1) :
    getItem fuel (.dict cls kvs) (slash ++ renderPos (q0 ++ [Seg.idx i]) ++ bracket e.text) = (.dict cls kvs, .ok old) := by
  have hfind := hidden_elem_find cls kvs q0 i old e fuel hp hget hs he hf
  unfold getItem getCore
  simp only [show startsWith (slash ++ renderPos (q0 ++ [Seg.idx i]) ++ bracket e.text) ['?'] = false by
      simp [slash, startsWith, List.append_assoc],
    Bool.false_eq_true, if_false,
    show hasPathChar (slash ++ renderPos (q0 ++ [Seg.idx i]) ++ bracket e.text) = true by simp [hasPathChar, slash],
    if_true, hidden_elem_tokenize q0 i e hp, hfind, Res.isFound]

/-- **`delete('//…h[i][e]', recursively)`, `e` denoting `0` or `-1`, on an element that is not a list** is `delete` of the
canonical path `//…h[i]` of that element: the index step on the hidden list is passed over, the loop goes on with the
shorter path, still as its first round -/
theorem delete_hidden_elem (cls : Cls) (kvs : List (Str × Val)) (q0 : Pos) (i : Nat) (old : Val) (e : IdxSp) (fuel : Nat)
    (r : Bool)
    (hp : PlainPos (q0 ++ [Seg.idx i])) (hget : getAt (.dict cls kvs) (q0 ++ [Seg.idx i]) = some old)
    (hs : isList old = false) (he : e.val = 0 ∨ e.val = -1) (hf : fuel ≥ 2 * (q0.length + 1) + 1) :
    delete fuel (.dict cls kvs) (slash ++ renderPos (q0 ++ [Seg.idx i]) ++ bracket e.text) r
      = delete fuel (.dict cls kvs) (slash ++ renderPos (q0 ++ [Seg.idx i])) r := by
  have hfind := hidden_elem_find cls kvs q0 i old e fuel hp hget hs he hf
  have htok := hidden_elem_tokenize q0 i e hp
  have htok2 : tokenize (slash ++ renderPos (q0 ++ [Seg.idx i])) = mergedToks (q0 ++ [Seg.idx i]) := tokenize_render _ hp
  have hlen : (mergedToks (q0 ++ [Seg.idx i]) ++ [bracket e.text]).length = (mergedToks (q0 ++ [Seg.idx i])).length + 1 := by simp
  have htake : (mergedToks (q0 ++ [Seg.idx i]) ++ [bracket e.text]).take ((mergedToks (q0 ++ [Seg.idx i])).length + 1)
      = mergedToks (q0 ++ [Seg.idx i]) ++ [bracket e.text] := by
    rw [List.take_of_length_le (by simp)]
  have hgetD : (mergedToks (q0 ++ [Seg.idx i]) ++ [bracket e.text]).getD (mergedToks (q0 ++ [Seg.idx i])).length []
      = bracket e.text := by
    simp [List.getD_eq_getElem?_getD]
  have hdp : delPlace fuel (.dict cls kvs) (bracket e.text)
      { parent := .wrap (.at (q0 ++ [Seg.idx i])), nameIdx := some (bracket (intStr e.val)), value := old,
        found := slash ++ renderPos (q0 ++ [Seg.idx i]), notFound := Option.none } = .ok Option.none := by
    simp only [delPlace, isWrap, Res.isFound, Bool.and_self, if_true, e.idxTok.split, List.isEmpty_nil]
  unfold delete deleteTokens
  simp only [show stripQ (slash ++ renderPos (q0 ++ [Seg.idx i]) ++ bracket e.text)
      = slash ++ renderPos (q0 ++ [Seg.idx i]) ++ bracket e.text by
    apply stripQ_noQ; simp [slash, startsWith, List.append_assoc], stripQ_slash, htok, htok2, hlen]
  rw [deleteLoop, htake, hfind]
  simp only [hgetD, hdp]
  exact deleteLoop_init fuel r _ _ _ true

/-- `pop` through `…h[i][e]` is `pop` of the canonical path `…h[i]` -/
theorem pop_hidden_elem (cls : Cls) (kvs : List (Str × Val)) (q0 : Pos) (i : Nat) (old d : Val) (e : IdxSp) (fuel : Nat)
    (r : Bool)
    (hp : PlainPos (q0 ++ [Seg.idx i])) (hget : getAt (.dict cls kvs) (q0 ++ [Seg.idx i]) = some old)
    (hs : isList old = false) (he : e.val = 0 ∨ e.val = -1) (hf : fuel ≥ 2 * (q0.length + 1) + 1) :
    pop fuel (.dict cls kvs) (slash ++ renderPos (q0 ++ [Seg.idx i]) ++ bracket e.text) d r
      = .ok ((delete fuel (.dict cls kvs) (slash ++ renderPos (q0 ++ [Seg.idx i])) r).1, old) := by
  have hsq : stripQ (slash ++ renderPos (q0 ++ [Seg.idx i]) ++ bracket e.text)
      = slash ++ renderPos (q0 ++ [Seg.idx i]) ++ bracket e.text := by
    apply stripQ_noQ; simp [slash, startsWith, List.append_assoc]
  have hsp := spells_merged _ (.dict cls kvs) old hp hget
  have hlen := mergedToks_length_le (q0 ++ [Seg.idx i])
  simp only [List.length_append, List.length_cons, List.length_nil] at hlen
  obtain ⟨t', hdel⟩ := delAt_isSome' (q0 ++ [Seg.idx i]) _ old (by simp) hget
  have htok2 : tokenize (slash ++ renderPos (q0 ++ [Seg.idx i])) = mergedToks (q0 ++ [Seg.idx i]) := tokenize_render _ hp
  have hcan : ∃ t2, delete fuel (.dict cls kvs) (slash ++ renderPos (q0 ++ [Seg.idx i])) r = (t2, .ok ()) := by
    unfold delete deleteTokens
    simp only [stripQ_slash, htok2]
    cases r with
    | false => exact ⟨_, deleteLoop_spelled fuel _ _ _ old t' hsp (mergedToks_ne_nil _ (by simp)) hdel (by omega)⟩
    | true => exact ⟨_, deleteLoop_rec_spelled fuel _ _ _ old t' hsp (mergedToks_ne_nil _ (by simp)) hdel (by omega)⟩
  obtain ⟨t2, ht2⟩ := hcan
  unfold pop
  rw [hsq, getItem_hidden_elem cls kvs q0 i old e fuel hp hget hs he hf]
  simp only [delete_hidden_elem cls kvs q0 i old e fuel r hp hget hs he hf, ht2]

end N0.XPath
