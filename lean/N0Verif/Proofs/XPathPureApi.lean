import N0Verif.Proofs.XPathPureFind
/-!
  C04, entry points: `_get` (`getCore`) on dict and list roots returns the tree unchanged and
  lets only `OutOfFuel`/`Unsupported` (model-only outcomes) escape when `raise = false`,
  for every safe path on a tree with safe keys.
-/
namespace N0.XPath
open N0 N0.Py N0.Val

section
variable {P : Str → Prop} [SafePred P]

theorem okErr_not_caught {e : PyErr} (h : okErr e = true) (hc : ¬ caught e = true) :
    e = .OutOfFuel ∨ e = .Unsupported := by
  cases e <;> simp_all [okErr, caught]

/-- what `_get` can do on a safe path: the tree is unchanged; an exception is either a model-only
outcome, or (only when the caller asked for exceptions) a funnelled class or KeyError -/
theorem getCore_safe (fuel : Nat) (root : Val) (xp : Str) (dflt : Val) (raise rl : Bool)
    (hxp : P xp) (hroot : SafeKeys P root) :
    (getCore fuel root xp dflt raise rl).1 = root ∧
    ∀ e, (getCore fuel root xp dflt raise rl).2 = .error e →
      (raise = true ∧ startsWith xp ['?'] = false ∧ (caught e = true ∨ e = .KeyError)) ∨
        e = .OutOfFuel ∨ e = .Unsupported := by
  have hdrop : P (xp.drop 1) := P_drop 1 hxp
  cases root with
  | dict c kvs =>
    unfold getCore
    simp only
    split
    · -- '?' prefix
      simp only
      split
      · have h := (find_post (P := P) _ hroot fuel).1 [] true (tokenize (xp.drop 1)) (.at []) rl slash
          (SafeRef_at hroot []) (P_tokenize hdrop) P_slash
        split
        · rename_i e he
          rw [he] at h
          split
          · simp
          · rename_i hc
            refine ⟨rfl, ?_⟩
            intro e' he'; cases he'
            right; exact okErr_not_caught h hc
        · rename_i root' r hr
          rw [hr] at h
          obtain ⟨rfl, _⟩ := h
          split <;> simp
      · split <;> simp
    · rename_i hq
      have hq : startsWith xp ['?'] = false := by simpa using hq
      simp only
      split
      · have h := (find_post (P := P) _ hroot fuel).1 [] true (tokenize xp) (.at []) rl slash
          (SafeRef_at hroot []) (P_tokenize hxp) P_slash
        split
        · rename_i e he
          rw [he] at h
          split
          · rename_i hc
            split
            · rename_i hr
              refine ⟨rfl, ?_⟩
              intro e' he'; cases he'
              left; exact ⟨hr, hq, Or.inl hc⟩
            · simp
          · rename_i hc
            refine ⟨rfl, ?_⟩
            intro e' he'; cases he'
            right; exact okErr_not_caught h hc
        · rename_i root' r hr
          rw [hr] at h
          obtain ⟨rfl, _⟩ := h
          split
          · simp
          · split
            · rename_i hr
              refine ⟨rfl, ?_⟩
              intro e' he'; cases he'
              left; exact ⟨hr, hq, Or.inl rfl⟩
            · simp
      · split
        · simp
        · split
          · rename_i hr
            refine ⟨rfl, ?_⟩
            intro e' he'; cases he'
            left; exact ⟨hr, hq, Or.inr rfl⟩
          · simp
  | list c xs =>
    unfold getCore
    simp only
    split
    · simp
    · split
      · -- '?' prefix
        simp only
        split
        · have h := (findL_post (P := P) _ hroot fuel).1 [] (tokenize (xp.drop 1)) (.at []) rl slash
            (SafeRef_at hroot []) (P_tokenize hdrop) P_slash
          split
          · rename_i e he
            rw [he] at h
            split
            · simp
            · rename_i hc
              refine ⟨rfl, ?_⟩
              intro e' he'; cases he'
              right; exact okErr_not_caught h hc
          · rename_i root' r hr
            rw [hr] at h
            obtain ⟨rfl, _⟩ := h
            split <;> simp
        · split
          · rename_i e he
            refine ⟨rfl, ?_⟩
            intro e' he'; cases he'
            right; right; exact n0eval_err he
          · split <;> simp
          · simp
      · rename_i hq
        have hq : startsWith xp ['?'] = false := by simpa using hq
        simp only
        split
        · have h := (findL_post (P := P) _ hroot fuel).1 [] (tokenize xp) (.at []) rl slash
            (SafeRef_at hroot []) (P_tokenize hxp) P_slash
          split
          · rename_i e he
            rw [he] at h
            split
            · rename_i hc
              split
              · rename_i hr
                refine ⟨rfl, ?_⟩
                intro e' he'; cases he'
                left; exact ⟨hr, hq, Or.inl hc⟩
              · simp
            · rename_i hc
              refine ⟨rfl, ?_⟩
              intro e' he'; cases he'
              right; exact okErr_not_caught h hc
          · rename_i root' r hr
            rw [hr] at h
            obtain ⟨rfl, _⟩ := h
            split
            · simp
            · split
              · rename_i hr
                refine ⟨rfl, ?_⟩
                intro e' he'; cases he'
                left; exact ⟨hr, hq, Or.inl rfl⟩
              · simp
        · split
          · rename_i e he
            refine ⟨rfl, ?_⟩
            intro e' he'; cases he'
            right; right; exact n0eval_err he
          · split
            · simp
            · split
              · rename_i hr
                refine ⟨rfl, ?_⟩
                intro e' he'; cases he'
                left; exact ⟨hr, hq, Or.inl rfl⟩
              · simp
          · split
            · rename_i hr
              refine ⟨rfl, ?_⟩
              intro e' he'; cases he'
              left; exact ⟨hr, hq, Or.inl rfl⟩
            · simp
  | none => unfold getCore; simp
  | bool b => unfold getCore; simp
  | int i => unfold getCore; simp
  | flt r => unfold getCore; simp
  | str s => unfold getCore; simp

end
/-! ### no hypothesis at all (after fix C04-a)

Since the `new()` step of the search no longer writes (and no longer raises `KeyError` at the root), no
index text has to be excluded: the always-true predicate is a safety predicate, every tree has "safe"
keys, and every theorem of this development holds for every path and every tree. -/

/-- the always-true predicate -/
def AnyStr : Str → Prop := fun _ => True

instance : SafePred AnyStr where
  sub := fun _ _ => trivial
  noW := fun _ => trivial
  glue := fun _ _ _ => trivial
  fixBr := fun _ => trivial

mutual
theorem safeKeys_any : ∀ (v : Val), SafeKeys AnyStr v
  | .list _ xs => by rw [SafeKeys]; exact safeKeysL_any xs
  | .dict _ kvs => by rw [SafeKeys]; exact safeKeysK_any kvs
  | .none => by simp [SafeKeys]
  | .bool _ => by simp [SafeKeys]
  | .int _ => by simp [SafeKeys]
  | .flt _ => by simp [SafeKeys]
  | .str _ => by simp [SafeKeys]
theorem safeKeysL_any : ∀ (xs : List Val), SafeKeysL AnyStr xs
  | [] => by rw [SafeKeysL]; trivial
  | x :: xs => by rw [SafeKeysL]; exact ⟨safeKeys_any x, safeKeysL_any xs⟩
theorem safeKeysK_any : ∀ (kvs : List (Str × Val)), SafeKeysK AnyStr kvs
  | [] => by rw [SafeKeysK]; trivial
  | (k, v) :: kvs => by rw [SafeKeysK]; exact ⟨trivial, safeKeys_any v, safeKeysK_any kvs⟩
end

/-- `_get` on **any** path and **any** tree: the tree is unchanged; an exception is a model-only
outcome, or (only when the caller asked for exceptions) a funnelled class or KeyError -/
theorem getCore_any (fuel : Nat) (root : Val) (xp : Str) (dflt : Val) (raise rl : Bool) :
    (getCore fuel root xp dflt raise rl).1 = root ∧
    ∀ e, (getCore fuel root xp dflt raise rl).2 = .error e →
      (raise = true ∧ startsWith xp ['?'] = false ∧ (caught e = true ∨ e = .KeyError)) ∨
        e = .OutOfFuel ∨ e = .Unsupported :=
  getCore_safe (P := AnyStr) fuel root xp dflt raise rl trivial (safeKeys_any root)

/-- the dict-side resolver never changes the tree and fails only with funnelled or model-only classes -/
theorem findD_any (fuel : Nat) (root : Val) (sp : Pos) (entry rl : Bool) (toks : List Str) (par : PRef) (found : Str) :
    Post AnyStr root (findD fuel root sp false entry toks par rl found) :=
  (find_post (P := AnyStr) root (safeKeys_any root) fuel).1 sp entry toks par rl found
    (fun v _ => safeKeys_any v) (fun _ _ => trivial) trivial

end N0.XPath
