import N0Verif.Model.Ini
import N0Verif.Proofs.Esc
import N0Verif.Proofs.Digits
/-!
  Lemmas about the INI model (`Model/Ini.lean`) for property C17: `strip()`, the typing of values
  (`default_parse_value` against the shape-based description `typedSpec`), keys, one line, the loop.
-/
namespace N0.Ini
open N0 N0.Py N0.Esc

/-! ### `strip()` -/

/-- a text that `strip()` leaves alone: neither its first nor its last character is white space -/
def Stripped (t : Str) : Prop :=
  (∀ c, t.head? = some c → isPySpace c = false) ∧ (∀ c, t.getLast? = some c → isPySpace c = false)

theorem dropWhile_head_false {α} (p : α → Bool) (l : List α) (h : ∀ c, l.head? = some c → p c = false) :
    l.dropWhile p = l := by
  cases l with
  | nil => rfl
  | cons a l => simp [List.dropWhile, h a rfl]

theorem head_dropWhile_false {α} (p : α → Bool) (l : List α) :
    ∀ c, (l.dropWhile p).head? = some c → p c = false := by
  intro c hc
  have := List.head?_dropWhile_not p l
  rw [hc] at this
  exact this

theorem stripWs_of_stripped (t : Str) (h : Stripped t) : stripWs t = t := by
  unfold stripWs
  rw [dropWhile_head_false _ t h.1, dropWhile_head_false _ t.reverse (by
    intro c hc; rw [List.head?_reverse] at hc; exact h.2 c hc), List.reverse_reverse]

theorem prefix_head {α} (a l : List α) (hp : a <+: l) (hne : a ≠ []) : a.head? = l.head? := by
  obtain ⟨t, rfl⟩ := hp
  cases a with
  | nil => exact absurd rfl hne
  | cons x a => rfl

theorem stripped_stripWs (s : Str) : Stripped (stripWs s) := by
  unfold stripWs
  constructor
  · intro c hc
    -- the result is a prefix of `s.dropWhile isPySpace`
    have hpre : ((s.dropWhile isPySpace).reverse.dropWhile isPySpace).reverse <+: s.dropWhile isPySpace := by
      have := List.dropWhile_suffix (l := (s.dropWhile isPySpace).reverse) isPySpace
      rw [← List.reverse_prefix, List.reverse_reverse] at this
      exact this
    by_cases hne : ((s.dropWhile isPySpace).reverse.dropWhile isPySpace).reverse = []
    · rw [hne] at hc; cases hc
    · rw [prefix_head _ _ hpre hne] at hc
      exact head_dropWhile_false _ _ c hc
  · intro c hc
    rw [List.getLast?_reverse] at hc
    exact head_dropWhile_false _ _ c hc

theorem stripWs_idem (s : Str) : stripWs (stripWs s) = stripWs s :=
  stripWs_of_stripped _ (stripped_stripWs s)

theorem stripped_of_eq (t : Str) (h : stripWs t = t) : Stripped t := by
  rw [← h]; exact stripped_stripWs t

theorem stripped_of_no_space (t : Str) (h : ∀ c ∈ t, isPySpace c = false) : Stripped t :=
  ⟨fun c hc => h c (List.mem_of_mem_head? hc), fun c hc => h c (List.mem_of_mem_getLast? hc)⟩

theorem mem_dropWhile_of_not {α} (p : α → Bool) (c : α) (hc : p c = false) :
    ∀ l : List α, c ∈ l → c ∈ l.dropWhile p := by
  intro l
  induction l with
  | nil => intro h; cases h
  | cons a l ih =>
    intro h
    by_cases hp : p a = true
    · rw [List.dropWhile_cons_of_pos hp]
      rcases List.mem_cons.1 h with rfl | h
      · rw [hc] at hp; cases hp
      · exact ih h
    · rw [List.dropWhile_cons_of_neg hp]; exact h

theorem mem_stripWs_of_not_space (c : Char) (s : Str) (hc : isPySpace c = false) (h : c ∈ s) :
    c ∈ stripWs s := by
  unfold stripWs
  rw [List.mem_reverse]
  apply mem_dropWhile_of_not _ _ hc
  rw [List.mem_reverse]
  exact mem_dropWhile_of_not _ _ hc _ h

/-! ### typing of values -/

/-- **How a stripped text is typed** (a description by shape, independent of `isnumber`):
`[+-]digits` is that integer; `[+-]digits.digits` (a digit on at least one side) is that decimal,
printed without superfluous zeros; a text in matching quotes loses them; anything else is itself. -/
def typedSpec (t : Str) : Val :=
  if isIntLit t then .int (intVal t)
  else match decParts t with
    | some (ip, fp) => .flt (decLexeme (isNeg t) ip fp)
    | none => textOf t

/-- the texts on which the model answers: no numeric or white-space character outside ASCII, and a
decimal is short enough for `round(float(x), 7)` to be the decimal itself -/
def Exact (t : Str) : Prop :=
  (∀ c ∈ t, c.toNat < 128 ∨ (isNumericChar c = false ∧ isPySpace c = false)) ∧
  (∀ ip fp, decParts t = some (ip, fp) → shortDec ip fp = true)

theorem takeWhile_all {α} (p : α → Bool) : ∀ (l : List α), ∀ c ∈ l.takeWhile p, p c = true := by
  intro l
  induction l with
  | nil => intro c hc; cases hc
  | cons a l ih =>
    intro c hc
    by_cases hp : p a = true
    · rw [List.takeWhile_cons_of_pos hp] at hc
      rcases List.mem_cons.1 hc with rfl | hc
      · exact hp
      · exact ih c hc
    · rw [List.takeWhile_cons_of_neg hp] at hc; cases hc

theorem allDigits_iff (s : Str) : allDigits s = true ↔ ∀ c ∈ s, isAsciiDigit c = true := by
  simp [allDigits, List.all_eq_true]

theorem digit_numeric {c : Char} (h : isAsciiDigit c = true) : isNumericChar c = true := by
  have := (digit_ne h).2.2.2.2.2.2.2.2.2.2.2.2.2
  simp [isNumericChar, this, h]

theorem isNumeric_digits (s : Str) (hne : s ≠ []) (h : allDigits s = true) : isNumeric s = true := by
  rw [allDigits_iff] at h
  simp only [isNumeric, Bool.and_eq_true, Bool.not_eq_true', List.isEmpty_eq_false_iff, List.all_eq_true]
  exact ⟨hne, fun c hc => digit_numeric (h c hc)⟩

theorem stripWs_digits_like (s : Str) (h : ∀ c ∈ s, isAsciiDigit c = true ∨ c = '.') : stripWs s = s := by
  apply stripWs_of_stripped
  apply stripped_of_no_space
  intro c hc
  rcases h c hc with h | rfl
  · exact (digit_ne h).2.2.2.2.2.2.2.2.2.2.2.1
  · decide

/-- what `isnumber` computes on a stripped text: strip of the sign, then the digit test -/
theorem isnumber_stripped (t : Str) (ht : Stripped t) :
    isnumber t = (let v := if startsWith t ['+'] || startsWith t ['-'] then stripWs (t.drop 1) else t
                  isNumeric (if v.count '.' = 1 then dotToZero v else v)) := by
  unfold isnumber
  rw [stripWs_of_stripped t ht]

theorem unsigned_cases (t : Str) :
    (t = '+' :: unsigned t ∧ (startsWith t ['+'] || startsWith t ['-']) = true ∧ isNeg t = false) ∨
    (t = '-' :: unsigned t ∧ (startsWith t ['+'] || startsWith t ['-']) = true ∧ isNeg t = true) ∨
    (t = unsigned t ∧ (startsWith t ['+'] || startsWith t ['-']) = false ∧ isNeg t = false) := by
  cases t with
  | nil => right; right; simp [unsigned, startsWith, isNeg]
  | cons a r =>
    by_cases h1 : a = '+'
    · subst h1; left; simp [unsigned, startsWith, isNeg]
    · by_cases h2 : a = '-'
      · subst h2; right; left; simp [unsigned, startsWith, isNeg]
      · right; right
        have hu : unsigned (a :: r) = a :: r := by
          unfold unsigned
          split
          · rename_i heq; cases heq; exact absurd rfl h1
          · rename_i heq; cases heq; exact absurd rfl h2
          · rfl
        refine ⟨hu.symm, ?_, ?_⟩
        · simp [startsWith, h1, h2]
        · simp [isNeg, startsWith, h2]

/-- on a text made of an optional sign and a body of digits and points, `isnumber` tests the body -/
theorem isnumber_body (t : Str) (hb : ∀ c ∈ unsigned t, isAsciiDigit c = true ∨ c = '.') :
    isnumber t = isNumeric (if (unsigned t).count '.' = 1 then dotToZero (unsigned t) else unsigned t) := by
  have hsb := stripWs_digits_like _ hb
  have hst : Stripped t := by
    rcases unsigned_cases t with ⟨h, _⟩ | ⟨h, _⟩ | ⟨h, _⟩
    · rw [h]; apply stripped_of_no_space
      intro c hc
      rcases List.mem_cons.1 hc with rfl | hc
      · decide
      · rcases hb c hc with h | rfl
        · exact (digit_ne h).2.2.2.2.2.2.2.2.2.2.2.1
        · decide
    · rw [h]; apply stripped_of_no_space
      intro c hc
      rcases List.mem_cons.1 hc with rfl | hc
      · decide
      · rcases hb c hc with h | rfl
        · exact (digit_ne h).2.2.2.2.2.2.2.2.2.2.2.1
        · decide
    · rw [h]; exact stripped_of_eq _ hsb
  rw [isnumber_stripped t hst]
  rcases unsigned_cases t with ⟨h, hs, _⟩ | ⟨h, hs, _⟩ | ⟨h, hs, _⟩
  · have hd : t.drop 1 = unsigned t := by rw [h]; simp [unsigned]
    simp only [hs, if_true, hd, hsb]
  · have hd : t.drop 1 = unsigned t := by rw [h]; simp [unsigned]
    simp only [hs, if_true, hd, hsb]
  · simp only [hs, Bool.false_eq_true, if_false]
    rw [← h]

theorem ascii_of_body (t : Str) (hb : ∀ c ∈ unsigned t, isAsciiDigit c = true ∨ c = '.') :
    isAsciiStr t = true := by
  have hb' : ∀ c ∈ unsigned t, c.toNat < 128 := by
    intro c hc
    rcases hb c hc with h | rfl
    · exact (digit_ne h).2.2.2.2.2.2.2.2.2.2.2.2.2
    · decide
  simp only [isAsciiStr, List.all_eq_true, decide_eq_true_eq]
  intro c hc
  rcases unsigned_cases t with ⟨h, _⟩ | ⟨h, _⟩ | ⟨h, _⟩
  · rw [h] at hc
    rcases List.mem_cons.1 hc with rfl | hc
    · decide
    · exact hb' c hc
  · rw [h] at hc
    rcases List.mem_cons.1 hc with rfl | hc
    · decide
    · exact hb' c hc
  · rw [h] at hc; exact hb' c hc

theorem contains_dot_iff (t : Str) : t.contains '.' = (unsigned t).contains '.' := by
  rcases unsigned_cases t with ⟨h, _⟩ | ⟨h, _⟩ | ⟨h, _⟩
  · conv => lhs; rw [h]
    simp
  · conv => lhs; rw [h]
    simp
  · conv => lhs; rw [h]

/-- the shape behind `decParts` -/
theorem decParts_shape (t ip fp : Str) (h : decParts t = some (ip, fp)) :
    unsigned t = ip ++ '.' :: fp ∧ allDigits ip = true ∧ allDigits fp = true ∧ (ip ≠ [] ∨ fp ≠ []) := by
  unfold decParts at h
  simp only at h
  have hsplit := List.takeWhile_append_dropWhile (p := isAsciiDigit) (l := unsigned t)
  split at h
  · rename_i fp' hdw
    split at h
    · rename_i hcond
      simp only [Option.some.injEq, Prod.mk.injEq] at h
      obtain ⟨rfl, rfl⟩ := h
      simp only [Bool.and_eq_true, Bool.not_eq_true', Bool.and_eq_false_iff, List.isEmpty_eq_false_iff] at hcond
      refine ⟨?_, ?_, hcond.1, ?_⟩
      · rw [← hdw]; exact hsplit.symm
      · rw [allDigits_iff]; exact takeWhile_all _ _
      · rcases hcond.2 with h | h
        · left; exact h
        · right; exact h
    · cases h
  · cases h

theorem count_dot_digits (s : Str) (h : allDigits s = true) : s.count '.' = 0 := by
  rw [List.count_eq_zero]
  intro hm
  exact (digit_ne ((allDigits_iff s).1 h _ hm)).2.2.2.2.1 rfl

theorem dotToZero_digits (s : Str) (h : allDigits s = true) : dotToZero s = s := by
  unfold dotToZero
  conv => rhs; rw [← List.map_id s]
  apply List.map_congr_left
  intro c hc
  have : c ≠ '.' := (digit_ne ((allDigits_iff s).1 h _ hc)).2.2.2.2.1
  simp [this]

theorem intLit_no_dot (t : Str) (h : isIntLit t = true) : t.contains '.' = false := by
  simp only [isIntLit, Bool.and_eq_true] at h
  rw [contains_dot_iff]
  have := count_dot_digits _ h.2
  rw [List.count_eq_zero] at this
  simpa using this

theorem intLit_no_dot' (t : Str) (h : isIntLit t = true) : '.' ∉ t := by
  simpa using intLit_no_dot t h

theorem decParts_intLit (t : Str) (h : isIntLit t = true) : decParts t = none := by
  cases hd : decParts t with
  | none => rfl
  | some p =>
    obtain ⟨ip, fp⟩ := p
    have hs := (decParts_shape t ip fp hd).1
    have := intLit_no_dot t h
    rw [contains_dot_iff, hs] at this
    simp at this

/-- an integer literal is read as that integer -/
theorem numberOf_int (t : Str) (h : isIntLit t = true) : numberOf t = .ok (some (.int (intVal t))) := by
  have h' := h
  simp only [isIntLit, Bool.and_eq_true, Bool.not_eq_true', List.isEmpty_eq_false_iff] at h'
  have hb : ∀ c ∈ unsigned t, isAsciiDigit c = true ∨ c = '.' :=
    fun c hc => Or.inl ((allDigits_iff _).1 h'.2 c hc)
  have hnum : isnumber t = true := by
    rw [isnumber_body t hb, count_dot_digits _ h'.2]
    simp only [Nat.zero_ne_one, if_false]
    exact isNumeric_digits _ h'.1 h'.2
  unfold numberOf
  simp [hnum, ascii_of_body t hb, intLit_no_dot' t h, intOfText, h]

/-- a decimal literal in the exact range is read as that decimal -/
theorem numberOf_dec (t ip fp : Str) (h : decParts t = some (ip, fp)) (hs : shortDec ip fp = true) :
    numberOf t = .ok (some (.flt (decLexeme (isNeg t) ip fp))) := by
  obtain ⟨hu, hi, hf, hne⟩ := decParts_shape t ip fp h
  have hb : ∀ c ∈ unsigned t, isAsciiDigit c = true ∨ c = '.' := by
    intro c hc
    rw [hu] at hc
    rcases List.mem_append.1 hc with hc | hc
    · exact Or.inl ((allDigits_iff _).1 hi c hc)
    · rcases List.mem_cons.1 hc with rfl | hc
      · exact Or.inr rfl
      · exact Or.inl ((allDigits_iff _).1 hf c hc)
  have hcount : (unsigned t).count '.' = 1 := by
    rw [hu, List.count_append, List.count_cons_self, count_dot_digits _ hi, count_dot_digits _ hf]
  have hnum : isnumber t = true := by
    rw [isnumber_body t hb, hcount]
    simp only [if_true]
    have hz : dotToZero (unsigned t) = ip ++ '0' :: fp := by
      rw [hu]; unfold dotToZero
      rw [List.map_append, List.map_cons]
      have h1 := dotToZero_digits ip hi
      have h2 := dotToZero_digits fp hf
      unfold dotToZero at h1 h2
      rw [h1, h2]; simp
    rw [hz]
    apply isNumeric_digits _ (by simp)
    rw [allDigits_iff]
    intro c hc
    rcases List.mem_append.1 hc with hc | hc
    · exact (allDigits_iff _).1 hi c hc
    · rcases List.mem_cons.1 hc with rfl | hc
      · decide
      · exact (allDigits_iff _).1 hf c hc
  have hdot : '.' ∈ t := by
    have : t.contains '.' = true := by rw [contains_dot_iff, hu]; simp
    simpa using this
  unfold numberOf
  simp [hnum, ascii_of_body t hb, hdot, floatOfText, h, hs]

/-- everything else is not a number (fix C17-f: no exception either) -/
theorem numberOf_other (t : Str) (hst : Stripped t) (hex : Exact t) (hi : isIntLit t = false)
    (hd : decParts t = none) : numberOf t = .ok none := by
  unfold numberOf
  by_cases hnum : isnumber t = true
  · -- then the text is ASCII
    have hascii : isAsciiStr t = true := by
      simp only [isAsciiStr, List.all_eq_true, decide_eq_true_eq]
      intro c hc
      rcases hex.1 c hc with h | ⟨hn, hsp⟩
      · exact h
      · by_cases hlt : c.toNat < 128
        · exact hlt
        · exfalso
          rw [isnumber_stripped t hst] at hnum
          simp only at hnum
          have hne : ∀ d : Char, d.toNat < 128 → c ≠ d := by
            intro d hd' heq; subst heq; exact hlt hd'
          -- `c` survives the removal of the sign and the strip …
          have hv : c ∈ (if (startsWith t ['+'] || startsWith t ['-']) = true then stripWs (t.drop 1) else t) := by
            rcases unsigned_cases t with ⟨h, hs, _⟩ | ⟨h, hs, _⟩ | ⟨h, hs, _⟩
            · rw [if_pos hs]
              apply mem_stripWs_of_not_space c _ hsp
              rw [h] at hc
              rcases List.mem_cons.1 hc with rfl | hc
              · exact absurd rfl (hne '+' (by decide))
              · rw [h]; simpa using hc
            · rw [if_pos hs]
              apply mem_stripWs_of_not_space c _ hsp
              rw [h] at hc
              rcases List.mem_cons.1 hc with rfl | hc
              · exact absurd rfl (hne '-' (by decide))
              · rw [h]; simpa using hc
            · rw [if_neg (by rw [hs]; decide)]; exact hc
          generalize (if (startsWith t ['+'] || startsWith t ['-']) = true then stripWs (t.drop 1) else t) = v at hv hnum
          -- … and the replacement of the point
          have hv' : c ∈ (if v.count '.' = 1 then dotToZero v else v) := by
            split
            · unfold dotToZero
              rw [List.mem_map]
              exact ⟨c, hv, by simp [hne '.' (by decide)]⟩
            · exact hv
          simp only [isNumeric, Bool.and_eq_true, List.all_eq_true] at hnum
          have := hnum.2 c hv'
          rw [hn] at this; cases this
    simp [hnum, hascii, floatOfText, hd, intOfText, hi]
  · simp [hnum]

/-- **`default_parse_value` types a text as `typedSpec` describes** (wherever the model answers) -/
theorem parseValue_spec (raw : Str) (h : Exact (stripWs raw)) :
    parseValue raw = .ok (typedSpec (stripWs raw)) := by
  unfold parseValue typedSpec
  simp only
  by_cases hi : isIntLit (stripWs raw) = true
  · rw [numberOf_int _ hi, if_pos hi]
  · have hi' : isIntLit (stripWs raw) = false := by simpa using hi
    rw [if_neg hi]
    cases hd : decParts (stripWs raw) with
    | some p =>
      obtain ⟨ip, fp⟩ := p
      rw [numberOf_dec _ ip fp hd (h.2 ip fp hd)]
    | none =>
      rw [numberOf_other _ (stripped_stripWs raw) h hi' hd]

/-! ### what is written for an integer comes back as that integer -/

theorem unsigned_eq_self (s : Str) (h : ∀ c, s.head? = some c → c ≠ '+' ∧ c ≠ '-') : unsigned s = s := by
  cases s with
  | nil => rfl
  | cons a r =>
    have := h a rfl
    unfold unsigned
    split
    · rename_i heq; cases heq; exact absurd rfl this.1
    · rename_i heq; cases heq; exact absurd rfl this.2
    · rfl

theorem natDigits_head (n : Nat) : ∀ c, (natDigits n).head? = some c → isAsciiDigit c = true :=
  fun c hc => natDigits_all_digit n c (List.mem_of_mem_head? hc)

theorem unsigned_natDigits (n : Nat) : unsigned (natDigits n) = natDigits n :=
  unsigned_eq_self _ (fun c hc => ⟨(digit_ne (natDigits_head n c hc)).2.1, (digit_ne (natDigits_head n c hc)).2.2.1⟩)

theorem allDigits_natDigits (n : Nat) : allDigits (natDigits n) = true :=
  (allDigits_iff _).2 (natDigits_all_digit n)

theorem isNeg_natDigits (n : Nat) : isNeg (natDigits n) = false := by
  unfold isNeg
  cases h : natDigits n with
  | nil => rfl
  | cons a r =>
    have : a ≠ '-' := (digit_ne (natDigits_head n a (by rw [h]; rfl))).2.2.1
    simp [startsWith, this]

theorem isIntLit_intRepr (i : Int) : isIntLit (intRepr i) = true := by
  cases i with
  | ofNat n =>
    simp only [intRepr, natRepr, isIntLit, unsigned_natDigits, allDigits_natDigits, Bool.and_true,
      Bool.not_eq_true', List.isEmpty_eq_false_iff]
    exact natDigits_ne_nil n
  | negSucc n =>
    simp only [intRepr, natRepr, isIntLit, unsigned, allDigits_natDigits, Bool.and_true,
      Bool.not_eq_true', List.isEmpty_eq_false_iff]
    exact natDigits_ne_nil _

theorem intVal_intRepr (i : Int) : intVal (intRepr i) = i := by
  cases i with
  | ofNat n =>
    simp only [intRepr, natRepr, intVal, isNeg_natDigits, unsigned_natDigits, natOfDigits_natDigits]
    rfl
  | negSucc n =>
    simp only [intRepr, natRepr, intVal, isNeg, startsWith, unsigned, natOfDigits_natDigits]
    simp [Int.negSucc_eq]

theorem intRepr_no_space (i : Int) : ∀ c ∈ intRepr i, isPySpace c = false ∧ c.toNat < 128 := by
  intro c hc
  cases i with
  | ofNat n =>
    have := digit_ne (natDigits_all_digit n c hc)
    exact ⟨this.2.2.2.2.2.2.2.2.2.2.2.1, this.2.2.2.2.2.2.2.2.2.2.2.2.2⟩
  | negSucc n =>
    simp only [intRepr, natRepr] at hc
    rcases List.mem_cons.1 hc with rfl | hc
    · decide
    · have := digit_ne (natDigits_all_digit _ c hc)
      exact ⟨this.2.2.2.2.2.2.2.2.2.2.2.1, this.2.2.2.2.2.2.2.2.2.2.2.2.2⟩

theorem stripWs_intRepr (i : Int) : stripWs (intRepr i) = intRepr i :=
  stripWs_of_stripped _ (stripped_of_no_space _ (fun c hc => (intRepr_no_space i c hc).1))

theorem exact_intRepr (i : Int) : Exact (intRepr i) :=
  ⟨fun c hc => Or.inl (intRepr_no_space i c hc).2,
   fun ip fp h => by rw [decParts_intLit _ (isIntLit_intRepr i)] at h; cases h⟩

theorem typedSpec_intRepr (i : Int) : typedSpec (intRepr i) = .int i := by
  unfold typedSpec
  rw [if_pos (isIntLit_intRepr i), intVal_intRepr]

/-! ### keys and one line -/

/-- the keys the statement speaks about: non-empty stripped ASCII names that contain no character
of the equal tag and do not start a comment -/
structure IniKey (eq k : Str) : Prop where
  ne : k ≠ []
  stripped : stripWs k = k
  ascii : ∀ c ∈ k, c.toNat < 128
  clean : Clean eq k
  noHash : startsWith k ['#'] = false
  noSlash : startsWith k ['/', '/'] = false

theorem isInfix_mid (p a b : Str) (hp : p ≠ []) : isInfix p (a ++ p ++ b) = true := by
  induction a with
  | nil =>
    cases p with
    | nil => exact absurd rfl hp
    | cons x p =>
      have := startsWith_append_self (x :: p) b
      simp only [List.nil_append, List.cons_append] at this ⊢
      simp [isInfix, this]
  | cons c a ih =>
    simp only [List.cons_append, isInfix, Bool.or_eq_true]
    right
    simpa using ih

theorem splitPair_key (eq k raw : Str) (heq : eq ≠ []) (hk : Clean eq k) :
    splitPair eq (k ++ eq ++ raw) = .ok (k, raw) := by
  unfold splitPair
  have h1 : eq.isEmpty = false := by cases eq with
    | nil => exact absurd rfl heq
    | cons _ _ => rfl
  rw [isInfix_mid eq k raw heq, splitAux_pair eq k raw heq hk]
  simp [h1]

theorem parseKey_key (k : Str) (hs : stripWs k = k) (ha : ∀ c ∈ k, c.toNat < 128) :
    parseKey k = .ok (upper k) := by
  unfold parseKey
  simp only [hs]
  have : isAsciiStr k = true := by
    simp only [isAsciiStr, List.all_eq_true, decide_eq_true_eq]; exact ha
  simp [this]

/-- a line `key eq value` is not skipped and yields the upper-cased key and the typed value -/
theorem parseLine_key (eq k raw : Str) (heq : eq ≠ []) (hk : IniKey eq k) (hv : Exact (stripWs raw)) :
    isIgnored (k ++ eq ++ raw) = false ∧
      parseLine eq (k ++ eq ++ raw) = .ok (upper k, typedSpec (stripWs raw)) := by
  obtain ⟨hne, hst, hascii, hclean, hhash, hslash⟩ := hk
  cases k with
  | nil => exact absurd rfl hne
  | cons a k' =>
    have hsp : isPySpace a = false := (stripped_of_eq _ hst).1 a rfl
    have hdw : ((a :: k') ++ eq ++ raw).dropWhile isPySpace = (a :: k') ++ eq ++ raw := by
      simp [hsp]
    constructor
    · unfold isIgnored
      simp only [hdw]
      have h1 : (a == '#') = false := by simpa [startsWith] using hhash
      have h2 : startsWith ((a :: k') ++ eq ++ raw) ['/', '/'] = false := by
        by_cases ha : a = '/'
        · subst ha
          cases k' with
          | nil =>
            cases eq with
            | nil => exact absurd rfl heq
            | cons e eq' =>
              have : '/' ∉ e :: eq' := hclean '/' (by simp)
              have he : e ≠ '/' := fun h => this (by simp [h])
              simp [startsWith, he]
          | cons b k'' =>
            have : (b == '/') = false := by simpa [startsWith] using hslash
            simp [startsWith, this]
        · simp [startsWith, ha]
      simp only [List.cons_append] at h2 ⊢
      rw [h2]
      simp [startsWith, h1]
    · unfold parseLine
      rw [hdw, splitPair_key eq _ raw heq hclean]
      simp only [bind, Except.bind, parseKey_key _ hst hascii, parseValue_spec raw hv, pure, Except.pure]

/-- white space that may stand between a key and its `+` -/
def Blanks (eq ws : Str) : Prop := ∀ c ∈ ws, isPySpace c = true ∧ c.toNat < 128 ∧ c ∉ eq

theorem iniKey_plus (eq k ws : Str) (hk : IniKey eq k) (hws : Blanks eq ws) (hplus : '+' ∉ eq) :
    IniKey eq (k ++ ws ++ ['+']) := by
  obtain ⟨hne, hst, hascii, hclean, hhash, hslash⟩ := hk
  cases k with
  | nil => exact absurd rfl hne
  | cons a k' =>
    refine ⟨by simp, ?_, ?_, ?_, ?_, ?_⟩
    · apply stripWs_of_stripped
      constructor
      · intro c hc
        simp only [List.cons_append, List.head?_cons, Option.some.injEq] at hc
        subst hc
        exact (stripped_of_eq _ hst).1 _ rfl
      · intro c hc
        rw [List.getLast?_append] at hc
        simp at hc
        subst hc; decide
    · intro c hc
      rcases List.mem_append.1 hc with hc | hc
      · rcases List.mem_append.1 hc with hc | hc
        · exact hascii c hc
        · exact (hws c hc).2.1
      · simp at hc; subst hc; decide
    · intro c hc
      rcases List.mem_append.1 hc with hc | hc
      · rcases List.mem_append.1 hc with hc | hc
        · exact hclean c hc
        · exact (hws c hc).2.2
      · simp at hc; subst hc; exact hplus
    · simpa [startsWith] using hhash
    · cases k' with
      | nil =>
        cases ws with
        | nil => simp [startsWith]
        | cons w ws' =>
          have : w ≠ '/' := by
            intro h; have := (hws w (by simp)).1; rw [h] at this; revert this; decide
          simp [startsWith, this]
      | cons b k'' =>
        have : (a == '/' && b == '/') = false := by simpa [startsWith] using hslash
        simpa [startsWith] using this

/-! ### the `+` rule -/

theorem toUpper_aux : ∀ k : Fin 26,
    Char.ofNat (97 + k.val - 32) ≠ '+' ∧ isPySpace (Char.ofNat (97 + k.val - 32)) = false := by decide

theorem toUpperAscii_cases (c : Char) :
    toUpperAscii c = c ∨ (isPySpace c = false ∧ c ≠ '+' ∧ toUpperAscii c ≠ '+' ∧ isPySpace (toUpperAscii c) = false) := by
  unfold toUpperAscii
  split
  · rename_i hc
    right
    simp only [Bool.and_eq_true, decide_eq_true_eq] at hc
    have h1 : 97 ≤ c.toNat := hc.1
    have h2 : c.toNat ≤ 122 := hc.2
    have := toUpper_aux ⟨c.toNat - 97, by omega⟩
    have e : 97 + (c.toNat - 97) = c.toNat := by omega
    simp only [e] at this
    refine ⟨?_, ?_, this.1, this.2⟩
    · simp only [isPySpace]
      simp; omega
    · intro h; subst h; revert h1; decide
  · left; rfl

theorem toUpperAscii_plus (c : Char) : toUpperAscii c = '+' ↔ c = '+' := by
  constructor
  · intro h
    rcases toUpperAscii_cases c with h' | h'
    · rw [← h', h]
    · exact absurd h h'.2.2.1
  · rintro rfl; decide

theorem toUpperAscii_space (c : Char) : isPySpace (toUpperAscii c) = isPySpace c := by
  rcases toUpperAscii_cases c with h' | h'
  · rw [h']
  · rw [h'.1, h'.2.2.2]

theorem upper_last_plus (k : Str) : (upper k).getLast? = some '+' ↔ k.getLast? = some '+' := by
  unfold upper
  rw [List.getLast?_map]
  cases k.getLast? with
  | none => simp
  | some c => simp [toUpperAscii_plus]

theorem upper_append_plus (k : Str) : upper (k ++ ['+']) = upper k ++ ['+'] := by
  simp [upper, toUpperAscii]

theorem store_plain (acc : List (Str × Val)) (key : Str) (v : Val) (h : key.getLast? ≠ some '+') :
    store acc key v = dictSet key v acc := by
  unfold store; rw [if_neg h]

theorem dropWhile_append_all {α} (p : α → Bool) (l2 : List α) : ∀ (l1 : List α), (∀ x ∈ l1, p x = true) →
    (l1 ++ l2).dropWhile p = l2.dropWhile p := by
  intro l1
  induction l1 with
  | nil => intro _; rfl
  | cons a l1 ih =>
    intro h
    rw [List.cons_append, List.dropWhile_cons_of_pos (h a (by simp))]
    exact ih (fun x hx => h x (by simp [hx]))

/-- `(K + blanks).rstrip() == K` when `K` does not end with white space -/
theorem rstripWs_blanks (K ws : Str) (hK : ∀ c, K.getLast? = some c → isPySpace c = false)
    (hws : ∀ c ∈ ws, isPySpace c = true) : rstripWs (K ++ ws) = K := by
  unfold rstripWs
  rw [List.reverse_append, dropWhile_append_all _ _ _ (by simpa using hws),
    dropWhile_head_false _ _ (by intro c hc; rw [List.head?_reverse] at hc; exact hK c hc),
    List.reverse_reverse]

theorem store_plus (acc : List (Str × Val)) (K ws : Str) (v : Val)
    (hK : ∀ c, K.getLast? = some c → isPySpace c = false) (hws : ∀ c ∈ ws, isPySpace c = true) :
    store acc (K ++ ws ++ ['+']) v =
      match Val.lookup K acc with
      | some old => dictSet K (.str (pyStr old ++ pyStr v)) acc
      | none => dictSet K (.str (marker :: pyStr v)) acc := by
  unfold store
  have : (K ++ ws ++ ['+']).getLast? = some '+' := by simp
  rw [if_pos this]
  simp only [List.dropLast_concat, rstripWs_blanks K ws hK hws]
  cases Val.lookup K acc <;> rfl

theorem upper_key_last (k : Str) (hst : stripWs k = k) :
    ∀ c, (upper k).getLast? = some c → isPySpace c = false := by
  intro c hc
  unfold upper at hc
  rw [List.getLast?_map] at hc
  cases hl : k.getLast? with
  | none => rw [hl] at hc; cases hc
  | some d =>
    rw [hl] at hc
    simp only [Option.map_some, Option.some.injEq] at hc
    subst hc
    rw [toUpperAscii_space]
    exact (stripped_of_eq _ hst).2 d hl

theorem upper_blanks (ws : Str) (h : ∀ c ∈ ws, isPySpace c = true) : ∀ c ∈ upper ws, isPySpace c = true := by
  intro c hc
  unfold upper at hc
  obtain ⟨d, hd, rfl⟩ := List.mem_map.1 hc
  rw [toUpperAscii_space]; exact h d hd

/-! ### the loop -/

theorem parseFrom_append (eq : Str) (l2 : List Str) : ∀ (l1 : List Str) (acc : List (Str × Val)),
    parseFrom eq acc (l1 ++ l2) =
      match parseFrom eq acc l1 with
      | .error e => .error e
      | .ok acc' => parseFrom eq acc' l2 := by
  intro l1
  induction l1 with
  | nil => intro acc; rfl
  | cons l l1 ih =>
    intro acc
    simp only [List.cons_append, parseFrom]
    cases stepLine eq acc l with
    | error e => rfl
    | ok acc' => exact ih acc'

theorem parseFrom_filter (eq : Str) : ∀ (lines : List Str) (acc : List (Str × Val)),
    parseFrom eq acc (lines.filter (fun l => !isIgnored l)) = parseFrom eq acc lines := by
  intro lines
  induction lines with
  | nil => intro acc; rfl
  | cons l lines ih =>
    intro acc
    by_cases h : isIgnored l = true
    · rw [List.filter_cons_of_neg (by simp [h])]
      simp only [parseFrom, stepLine, h, if_true]
      exact ih acc
    · rw [List.filter_cons_of_pos (by simpa using h)]
      simp only [parseFrom]
      cases stepLine eq acc l with
      | error e => rfl
      | ok acc' => exact ih acc'

/-- what a value of the mapping loads back as: its printed form, stripped and typed -/
def loaded (v : Val) : Val := typedSpec (stripWs (pyStr v))

/-- hypotheses on one entry of the mapping -/
def EntryOk (eq : Str) (kv : Str × Val) : Prop :=
  IniKey eq kv.1 ∧ kv.1.getLast? ≠ some '+' ∧ Exact (stripWs (pyStr kv.2))

theorem stepLine_entry (eq : Str) (heq : eq ≠ []) (kv : Str × Val) (h : EntryOk eq kv)
    (acc : List (Str × Val)) :
    stepLine eq acc (kv.1 ++ eq ++ pyStr kv.2) = .ok (dictSet (upper kv.1) (loaded kv.2) acc) := by
  obtain ⟨hk, hp, hv⟩ := h
  obtain ⟨hig, hpl⟩ := parseLine_key eq kv.1 (pyStr kv.2) heq hk hv
  unfold stepLine
  rw [hig, hpl]
  simp only [Bool.false_eq_true, if_false]
  rw [store_plain _ _ _ (by rw [Ne, upper_last_plus]; exact hp)]
  rfl

theorem parseFrom_iniLines (eq : Str) (heq : eq ≠ []) : ∀ (m : List (Str × Val)),
    (∀ kv ∈ m, EntryOk eq kv) → ∀ acc : List (Str × Val),
    parseFrom eq acc (iniLines eq m)
      = .ok (m.foldl (fun acc kv => dictSet (upper kv.1) (loaded kv.2) acc) acc) := by
  intro m
  induction m with
  | nil => intro _ acc; rfl
  | cons kv m ih =>
    intro hm acc
    simp only [iniLines, List.map_cons, parseFrom, List.foldl_cons]
    rw [stepLine_entry eq heq kv (hm kv (by simp)) acc]
    exact ih (fun kv' h' => hm kv' (by simp [h'])) _

/-! ### the file: `load_lines` reads back the lines that were joined -/

theorem readLinesAux_line (l : Str) (h : ∀ c ∈ l, c ≠ '\n' ∧ c ≠ '\r') : ∀ (cur rest : Str),
    readLinesAux cur (l ++ rest) = readLinesAux (l.reverse ++ cur) rest := by
  induction l with
  | nil => intro cur rest; rfl
  | cons c l ih =>
    intro cur rest
    have hc := h c (by simp)
    have step : readLinesAux cur (c :: (l ++ rest)) = readLinesAux (c :: cur) (l ++ rest) := by
      exact readLinesAux.eq_5 cur c (l ++ rest) hc.1 (fun _ h _ => hc.2 h) hc.2
    rw [List.cons_append, step, ih (fun c' h' => h c' (by simp [h'])) (c :: cur) rest]
    simp

theorem readLines_join : ∀ (lines : List Str),
    (∀ l ∈ lines, l ≠ [] ∧ ∀ c ∈ l, c ≠ '\n' ∧ c ≠ '\r') →
    readLines (join ['\n'] lines) = lines := by
  intro lines
  unfold readLines
  induction lines with
  | nil => intro _; rfl
  | cons l rest ih =>
    intro h
    have hl := h l (by simp)
    cases rest with
    | nil =>
      have := readLinesAux_line l hl.2 [] []
      simp only [List.append_nil] at this
      simp only [join]
      rw [this, readLinesAux]
      simp [hl.1]
    | cons l2 rest =>
      simp only [join]
      rw [List.append_assoc, readLinesAux_line l hl.2 [] _]
      simp only [List.append_nil, List.singleton_append, readLinesAux, List.reverse_reverse]
      rw [ih (fun l' h' => h l' (by simp [h']))]

/-! ### the values of the statement's mappings -/

/-- is the text no decimal literal, or one in the exact range -/
def decOk (t : Str) : Bool :=
  match decParts t with
  | some (ip, fp) => shortDec ip fp
  | none => true

/-- `Exact` from two decidable checks -/
theorem exact_of (t : Str)
    (h1 : ∀ c ∈ t, c.toNat < 128 ∨ (isNumericChar c = false ∧ isPySpace c = false))
    (h2 : decOk t = true) : Exact t := by
  refine ⟨h1, ?_⟩
  intro ip fp h
  simp only [decOk, h] at h2
  exact h2

/-- an integer, or a text on which the model answers -/
inductive IniValue : Val → Prop
  | int (i : Int) : IniValue (.int i)
  | text (s : Str) : Exact (stripWs s) → IniValue (.str s)

theorem IniValue.exact {v : Val} (h : IniValue v) : Exact (stripWs (pyStr v)) := by
  cases h with
  | int i => simp only [pyStr]; rw [stripWs_intRepr]; exact exact_intRepr i
  | text s hs => exact hs

theorem loaded_int (i : Int) : loaded (.int i) = .int i := by
  simp only [loaded, pyStr]; rw [stripWs_intRepr, typedSpec_intRepr]

theorem iniLines_line_ok (eq : Str) (heq : eq ≠ []) (m : List (Str × Val))
    (hk : ∀ kv ∈ m, ∀ c ∈ kv.1, c ≠ '\n' ∧ c ≠ '\r') (heqc : ∀ c ∈ eq, c ≠ '\n' ∧ c ≠ '\r')
    (hv : ∀ kv ∈ m, ∀ c ∈ pyStr kv.2, c ≠ '\n' ∧ c ≠ '\r') :
    ∀ l ∈ iniLines eq m, l ≠ [] ∧ ∀ c ∈ l, c ≠ '\n' ∧ c ≠ '\r' := by
  intro l hl
  obtain ⟨kv, hkv, rfl⟩ := List.mem_map.1 hl
  constructor
  · cases eq with
    | nil => exact absurd rfl heq
    | cons e eq' => simp
  · intro c hc
    rcases List.mem_append.1 hc with hc | hc
    · rcases List.mem_append.1 hc with hc | hc
      · exact hk kv hkv c hc
      · exact heqc c hc
    · exact hv kv hkv c hc

end N0.Ini
