import N0Verif.Model.Esc
/-! helper lemmas for C17 (`Props/C17.lean`) -/
namespace N0.Esc
open N0 N0.Py

/-! ### `splitAux` -/

theorem consHead_ne_nil (c : Char) (l : List Str) : consHead c l ≠ [] := by
  cases l <;> simp [consHead]

theorem consHead_length (c : Char) (l : List Str) (h : l ≠ []) : (consHead c l).length = l.length := by
  cases l with
  | nil => exact absurd rfl h
  | cons a t => simp [consHead]

theorem splitAux_ne_nil (sep : Str) (lim : Option Nat) (skip : Nat) (s : Str) :
    splitAux sep lim skip s ≠ [] := by
  induction s generalizing lim skip with
  | nil => simp [splitAux]
  | cons c s ih =>
    cases skip with
    | succ k => simp only [splitAux]; exact ih _ _
    | zero =>
      simp only [splitAux]
      split
      · simp
      · exact consHead_ne_nil _ _

theorem splitAux_length_le (sep : Str) (lim : Option Nat) (skip : Nat) (s : Str) :
    (splitAux sep lim skip s).length ≤ s.length + 1 := by
  induction s generalizing lim skip with
  | nil => simp [splitAux]
  | cons c s ih =>
    cases skip with
    | succ k => simp only [splitAux]; have := ih lim k; simp only [List.length_cons]; omega
    | zero =>
      simp only [splitAux]
      split
      · have := ih (decLim lim) (sep.length - 1); simp only [List.length_cons]; omega
      · rw [consHead_length _ _ (splitAux_ne_nil _ _ _ _)]
        have := ih lim 0; simp only [List.length_cons]; omega

theorem splitAux_length_lim (sep : Str) (k skip : Nat) (s : Str) :
    (splitAux sep (some k) skip s).length ≤ k + 1 := by
  induction s generalizing k skip with
  | nil => simp [splitAux]
  | cons c s ih =>
    cases skip with
    | succ j => simp only [splitAux]; exact ih k j
    | zero =>
      simp only [splitAux]
      split
      · rename_i h
        have hk : k ≠ 0 := by
          intro h0; subst h0; simp [canSplit] at h
        have := ih (k - 1) (sep.length - 1)
        simp only [decLim, List.length_cons]; omega
      · rw [consHead_length _ _ (splitAux_ne_nil _ _ _ _)]
        exact ih k 0

theorem mem_consHead {c : Char} {l : List Str} {p : Str} (h : p ∈ consHead c l) :
    p = [c] ∨ (∃ q, q ∈ l ∧ (p = c :: q ∨ p = q)) := by
  cases l with
  | nil => left; simpa [consHead] using h
  | cons a t =>
    simp only [consHead, List.mem_cons] at h
    rcases h with h | h
    · right; exact ⟨a, by simp, Or.inl h⟩
    · right; exact ⟨p, by simp [h], Or.inr rfl⟩

/-- every character of every piece comes from the text -/
theorem splitAux_mem (sep : Str) (lim : Option Nat) (skip : Nat) (s : Str) (p : Str)
    (hp : p ∈ splitAux sep lim skip s) (c : Char) (hc : c ∈ p) : c ∈ s := by
  induction s generalizing lim skip p with
  | nil => simp [splitAux] at hp; subst hp; simp at hc
  | cons x s ih =>
    cases skip with
    | succ k =>
      simp only [splitAux] at hp
      exact List.mem_cons_of_mem _ (ih _ _ _ hp hc)
    | zero =>
      simp only [splitAux] at hp
      split at hp
      · simp only [List.mem_cons] at hp
        rcases hp with hp | hp
        · subst hp; simp at hc
        · exact List.mem_cons_of_mem _ (ih _ _ _ hp hc)
      · rcases mem_consHead hp with h | ⟨q, hq, h | h⟩
        · subst h; simp at hc; subst hc; simp
        · subst h
          simp only [List.mem_cons] at hc
          rcases hc with hc | hc
          · subst hc; simp
          · exact List.mem_cons_of_mem _ (ih _ _ _ hq hc)
        · subst h; exact List.mem_cons_of_mem _ (ih _ _ _ hq hc)

theorem splitAux_lim_zero (sep : Str) (s : Str) : splitAux sep (some 0) 0 s = [s] := by
  induction s with
  | nil => rfl
  | cons c s ih => simp [splitAux, canSplit, ih, consHead]

theorem splitMax_length_le (d : Str) (m : Nat) (s : Str) : (splitMax d m s).length ≤ s.length + 1 :=
  splitAux_length_le _ _ _ _

theorem splitMax_length_lim (d : Str) (m : Nat) (s : Str) (hm : m ≠ 0) :
    (splitMax d m s).length ≤ m + 1 := by
  unfold splitMax limOf
  rw [if_neg hm]
  exact splitAux_length_lim _ _ _ _

theorem splitMax_ne_nil (d : Str) (m : Nat) (s : Str) : splitMax d m s ≠ [] :=
  splitAux_ne_nil _ _ _ _

/-! ### runs of escapes -/

theorem run_pos_iff (e : Char) (s : Str) : s.getLast? = some e ↔ 0 < run e s := by
  unfold run
  rw [List.getLast?_eq_head?_reverse]
  cases s.reverse with
  | nil => simp
  | cons c r =>
    by_cases h : c = e
    · subst h; simp [List.takeWhile]
    · have h' : (c == e) = false := by simpa using h
      simp [List.takeWhile, h', h]

theorem run_eq_zero (e : Char) (s : Str) (h : ¬ s.getLast? = some e) : run e s = 0 := by
  have := mt (run_pos_iff e s).2 h
  omega

theorem run_nil (e : Char) : run e [] = 0 := rfl

theorem halve_eq_self (e : Char) (s : Str) (h : run e s / 2 = 0) : halve e s = s := by
  unfold halve
  simp [h]

theorem halveIf_eq_self (tr : Bool) (e : Char) (s : Str) (h : run e s / 2 = 0) : halveIf tr e s = s := by
  unfold halveIf
  split
  · exact halve_eq_self e s h
  · rfl

/-! ### list surgery at a known position -/

theorem set_mid {α} (A : List α) (x y : α) (T : List α) : (A ++ x :: T).set A.length y = A ++ y :: T := by
  induction A with
  | nil => rfl
  | cons a A ih => simp [ih]

theorem get_mid1 {α} (A : List α) (x n : α) (T : List α) : (A ++ x :: n :: T)[A.length + 1]? = some n := by
  induction A with
  | nil => rfl
  | cons a A ih => simp

theorem erase_mid1 {α} (A : List α) (x n : α) (T : List α) :
    (A ++ x :: n :: T).eraseIdx (A.length + 1) = A ++ x :: T := by
  induction A with
  | nil => rfl
  | cons a A ih => simpa using ih

theorem dropLast_drop_mid {α} (A : List α) (L : List α) : ((A ++ L).dropLast).drop A.length = L.dropLast := by
  induction A with
  | nil => simp
  | cons a A ih =>
    cases hAL : A ++ L with
    | nil =>
      have h1 : A = [] := (List.append_eq_nil_iff.1 hAL).1
      have h2 : L = [] := (List.append_eq_nil_iff.1 hAL).2
      subst h1; subst h2; simp
    | cons b t =>
      rw [List.cons_append, hAL, List.dropLast_cons_cons, List.length_cons, List.drop_succ_cons, ← hAL]
      exact ih

/-! ### re-splitting the raw remainder (fix C17-j) -/

theorem canSplit_eq_false {lim : Option Nat} (h : canSplit lim = false) : lim = some 0 := by
  cases lim with
  | none => simp [canSplit] at h
  | some k => simp [canSplit] at h; rw [h]

theorem decLim_isSome (lim : Option Nat) : (decLim lim).isSome = lim.isSome := by
  cases lim <;> rfl

/-- `items[-1:] = items[-1].split(d, 1)`, structurally -/
def resplitLast (d : Str) : List Str → List Str
  | [] => []
  | [z] => splitAux d (some 1) 0 z
  | a :: b :: r => a :: resplitLast d (b :: r)

theorem resplitLast_cons (d : Str) (a : Str) (L : List Str) (h : L ≠ []) :
    resplitLast d (a :: L) = a :: resplitLast d L := by
  cases L with
  | nil => exact absurd rfl h
  | cons b r => rfl

theorem resplitLast_append (d : Str) (A L : List Str) (h : L ≠ []) :
    resplitLast d (A ++ L) = A ++ resplitLast d L := by
  induction A with
  | nil => rfl
  | cons a A ih => rw [List.cons_append, resplitLast_cons _ _ _ (by simp [h]), ih]; rfl

theorem resplit_append (d : Str) (B L : List Str) (h : L ≠ []) :
    resplit d (B ++ L) = .ok (B ++ resplitLast d L) := by
  have hs : L = L.dropLast ++ [L.getLast h] := (List.dropLast_concat_getLast h).symm
  rw [hs, resplitLast_append d _ _ (by simp), ← List.append_assoc]
  simp [resplit, resplitLast]

/-- a split that made no cut returns the text -/
theorem splitAux_single (d : Str) : ∀ (s : Str) (lim : Option Nat) (sk : Nat) (p : Str),
    splitAux d lim sk s = [p] → p = s.drop sk := by
  intro s
  induction s with
  | nil => intro lim sk p h; cases sk <;> simp [splitAux] at h <;> simp [h]
  | cons c s ih =>
    intro lim sk p h
    cases sk with
    | succ k => rw [splitAux] at h; simpa using ih lim k p h
    | zero =>
      rw [splitAux] at h
      split at h
      · injection h with _ h2
        exact absurd h2 (splitAux_ne_nil _ _ _ _)
      · cases hL : splitAux d lim 0 s with
        | nil => exact absurd hL (splitAux_ne_nil _ _ _ _)
        | cons p' L' =>
          rw [hL, consHead] at h
          injection h with h1 h2
          subst h2
          have := ih lim 0 p' hL
          simp at this
          rw [← h1, this]; rfl

/-- **splitting the last piece of a limited split once more is the split with one more cut allowed** -/
theorem resplitLast_splitAux (d : Str) : ∀ (s : Str) (k sk : Nat),
    resplitLast d (splitAux d (some k) sk s) = splitAux d (some (k + 1)) sk s := by
  intro s
  induction s with
  | nil => intro k sk; cases sk <;> simp [splitAux, resplitLast]
  | cons c s ih =>
    intro k sk
    cases sk with
    | succ j => simp only [splitAux]; exact ih k j
    | zero =>
      cases k with
      | zero =>
        rw [splitAux_lim_zero]
        rfl
      | succ k' =>
        rw [splitAux, splitAux]
        by_cases hsw : startsWith (c :: s) d = true
        · simp only [canSplit, hsw, decLim, Nat.add_sub_cancel]
          have h1 : ((k' + 1 != 0) && true) = true := by simp
          have h2 : ((k' + 1 + 1 != 0) && true) = true := by simp
          rw [if_pos h1, if_pos h2, resplitLast_cons _ _ _ (splitAux_ne_nil _ _ _ _), ih]
        · have hsw' : startsWith (c :: s) d = false := by simpa using hsw
          simp only [hsw', Bool.and_false, Bool.false_eq_true, if_false]
          rw [← ih (k' + 1) 0]
          cases hL : splitAux d (some (k' + 1)) 0 s with
          | nil => exact absurd hL (splitAux_ne_nil _ _ _ _)
          | cons a L' =>
            cases L' with
            | nil =>
              have ha := splitAux_single d s _ 0 a hL
              simp at ha
              subst ha
              show splitAux d (some 1) 0 (c :: a) = consHead c (splitAux d (some 1) 0 a)
              rw [splitAux]
              simp only [hsw', Bool.and_false, Bool.false_eq_true, if_false]
            | cons b r => simp [consHead, resplitLast]

/-! ### the character-level reference, one piece of the limited split at a time -/

/-- no cut: the reference returns the text as its only item -/
theorem refAux_single (e : Char) (d : Str) (tr : Bool) : ∀ (s : Str) (lim : Option Nat) (sk : Nat) (cur p : Str),
    splitAux d lim sk s = [p] → refAux e d tr lim sk cur s = [halveIf tr e (cur ++ p)] := by
  intro s
  induction s with
  | nil => intro lim sk cur p h; cases sk <;> simp [splitAux] at h <;> subst h <;> simp [refAux]
  | cons c s ih =>
    intro lim sk cur p h
    cases sk with
    | succ k => rw [splitAux] at h; rw [refAux]; exact ih lim k cur p h
    | zero =>
      rw [splitAux] at h
      rw [refAux]
      by_cases hsw : startsWith (c :: s) d = true
      · cases hcs : canSplit lim with
        | false =>
          have hl := canSplit_eq_false hcs
          subst hl
          simp only [canSplit, hsw] at h
          simp only [bne_self_eq_false, Bool.false_and, Bool.false_eq_true, if_false, splitAux_lim_zero, consHead] at h
          injection h with h1 _
          simp [hsw, ← h1]
        | true =>
          simp only [hcs, hsw, Bool.and_self, if_true] at h
          injection h with _ h2
          exact absurd h2 (splitAux_ne_nil _ _ _ _)
      · have hsw' : startsWith (c :: s) d = false := by simpa using hsw
        simp only [hsw', Bool.and_false, Bool.false_eq_true, if_false] at h ⊢
        cases hL : splitAux d lim 0 s with
        | nil => exact absurd hL (splitAux_ne_nil _ _ _ _)
        | cons p' L' =>
          rw [hL, consHead] at h
          injection h with h1 h2
          subst h2
          rw [ih lim 0 (cur ++ [c]) p' hL, ← h1]
          simp

/-- at least one cut: up to the first cut of the limited split the reference collects the piece; the
delimiter after it is escaped (odd run: it stays, the budget too) or a real cut -/
theorem refAux_piece (e : Char) (d : Str) (tr : Bool) : ∀ (s : Str) (lim : Option Nat) (sk : Nat) (p q : Str)
    (rest : List Str), splitAux d lim sk s = p :: q :: rest →
    ∃ s' : Str, s'.length < s.length ∧ canSplit lim = true ∧
      splitAux d (decLim lim) (d.length - 1) s' = q :: rest ∧
      ∀ cur : Str, refAux e d tr lim sk cur s =
        if run e (cur ++ p) % 2 = 1 then refAux e d tr lim (d.length - 1) ((cur ++ p).dropLast ++ d) s'
        else halveIf tr e (cur ++ p) :: refAux e d tr (decLim lim) (d.length - 1) [] s' := by
  intro s
  induction s with
  | nil => intro lim sk p q rest h; cases sk <;> simp [splitAux] at h
  | cons c s ih =>
    intro lim sk p q rest h
    cases sk with
    | succ k =>
      rw [splitAux] at h
      obtain ⟨s', hlen, hcs, hsp, hr⟩ := ih lim k p q rest h
      refine ⟨s', by simp only [List.length_cons]; omega, hcs, hsp, ?_⟩
      intro cur; rw [refAux]; exact hr cur
    | zero =>
      rw [splitAux] at h
      by_cases hsw : startsWith (c :: s) d = true
      · cases hcs : canSplit lim with
        | false =>
          have hl := canSplit_eq_false hcs
          subst hl
          simp only [canSplit, hsw] at h
          simp [splitAux_lim_zero, consHead] at h
        | true =>
          simp only [hcs, hsw, Bool.and_self, if_true] at h
          injection h with hp hrest
          subst hp
          refine ⟨s, by simp, rfl, hrest, ?_⟩
          intro cur
          rw [refAux]
          simp only [hsw, if_true, hcs, Bool.not_true, Bool.false_eq_true, if_false, List.append_nil]
      · have hsw' : startsWith (c :: s) d = false := by simpa using hsw
        simp only [hsw', Bool.and_false, Bool.false_eq_true, if_false] at h
        cases hL : splitAux d lim 0 s with
        | nil => exact absurd hL (splitAux_ne_nil _ _ _ _)
        | cons p' L' =>
          rw [hL, consHead] at h
          injection h with hp hrest
          subst hp; subst hrest
          obtain ⟨s', hlen, hcs, hsp, hr⟩ := ih lim 0 p' q rest hL
          refine ⟨s', by simp only [List.length_cons]; omega, hcs, hsp, ?_⟩
          intro cur
          rw [refAux]
          simp only [hsw', Bool.false_eq_true, if_false]
          rw [hr (cur ++ [c])]
          simp

/-! ### the loop equals the character-level reference -/

/-- what `whileLoop` does with the outcome of the `for` -/
def cont (cfg : Cfg) (fuel : Nat) : PyM ForRes → PyM (List Str)
  | .error e => .error e
  | .ok (.broke it st) => whileLoop cfg fuel it st
  | .ok (.exhausted it) => finalTrim cfg it

theorem whileLoop_succ (cfg : Cfg) (fuel : Nat) (items : List Str) (start : Nat) :
    whileLoop cfg (fuel + 1) items start
      = cont cfg fuel (forScan cfg start (items.dropLast.drop start) 0 items) := by
  rw [whileLoop]
  cases forScan cfg start (items.dropLast.drop start) 0 items with
  | error e => rfl
  | ok r => cases r <;> rfl

theorem specG_glue (e : Char) (d : Str) (tr : Bool) (pre p : Str) (rest : List Str) :
    specG e d tr pre (p :: rest) = specG e d tr [] ((pre ++ p) :: rest) := by
  cases rest with
  | nil => simp [specG]
  | cons q rest => simp [specG]

theorem finalTrim_spec (cfg : Cfg) (A : List Str) (z : Str) :
    finalTrim cfg (A ++ [z]) = .ok (A ++ [halveIf cfg.tr cfg.e z]) := by
  unfold finalTrim halveIf
  cases htr : cfg.tr with
  | false => simp
  | true =>
    simp only [if_true, List.getLast?_append, List.getLast?_singleton, Option.some_or]
    by_cases hl : z.getLast? = some cfg.e
    · simp only [hl, if_true]
      by_cases hd : run cfg.e z / 2 = 0
      · simp [hd, halve_eq_self _ _ hd]
      · have : (run cfg.e z / 2 != 0) = true := by simpa using hd
        simp [this, halve, List.dropLast_append_of_ne_nil]
    · simp only [hl, if_false]
      rw [halve_eq_self _ _ (by rw [run_eq_zero _ _ hl])]

/-- The `for` loop.  State: `A` are the items closed so far, the item at `start + i` is `pre ++ p` where `p` and
the items after it are the pieces of the limited split of the text `t` that is still to be read
(`lim` = real cuts still allowed, the same number for the code and for the reference); the answer is what
the reference makes of `t` with `pre` already collected. -/
theorem scan_ref (cfg : Cfg) (fuel : Nat)
    (IH : ∀ (A : List Str) (pre p : Str) (rest : List Str) (t : Str) (lim : Option Nat) (sk : Nat),
        t.length < fuel → lim.isSome = (cfg.m != 0) → splitAux cfg.d lim sk t = p :: rest →
        whileLoop cfg fuel (A ++ (pre ++ p) :: rest) A.length
          = .ok (A ++ refAux cfg.e cfg.d cfg.tr lim sk pre t))
    (snap : List Str) : ∀ (A : List Str) (z : Str) (start i : Nat) (pre p : Str) (tail : List Str)
      (t : Str) (lim : Option Nat) (sk : Nat), start + i = A.length →
      t.length ≤ fuel → lim.isSome = (cfg.m != 0) → splitAux cfg.d lim sk t = p :: tail →
      (pre ++ p) :: tail = snap ++ [z] →
      cont cfg fuel (forScan cfg start snap i (A ++ (snap ++ [z])))
        = .ok (A ++ refAux cfg.e cfg.d cfg.tr lim sk pre t) := by
  induction snap with
  | nil =>
    intro A z start i pre p tail t lim sk _ _ _ hsp hz
    simp only [List.nil_append, List.cons.injEq] at hz
    obtain ⟨hz1, hz2⟩ := hz
    subst hz2
    rw [refAux_single _ _ _ t lim sk pre p hsp, ← hz1]
    simp [forScan, cont, finalTrim_spec]
  | cons x snap ih =>
    intro A z start i pre p tail t lim sk hk hlen hlim hsp hz
    simp only [List.cons_append, List.cons.injEq] at hz
    obtain ⟨hx, htail⟩ := hz
    obtain ⟨nxt, rest', hT⟩ : ∃ nxt rest', snap ++ [z] = nxt :: rest' := by
      cases snap <;> simp
    rw [htail, hT] at hsp
    obtain ⟨t', ht', hcs, hsp', href⟩ := refAux_piece cfg.e cfg.d cfg.tr t lim sk p nxt rest' hsp
    rw [href pre, hx]
    -- the continue step, shared by the two even cases
    have hcont : forall hx' : Str, hx' = halveIf cfg.tr cfg.e x → run cfg.e x % 2 ≠ 1 →
        cont cfg fuel (forScan cfg start snap (i + 1) (A ++ hx' :: (snap ++ [z])))
          = .ok (A ++ (if run cfg.e x % 2 = 1 then
                refAux cfg.e cfg.d cfg.tr lim (cfg.d.length - 1) (x.dropLast ++ cfg.d) t'
              else halveIf cfg.tr cfg.e x :: refAux cfg.e cfg.d cfg.tr (decLim lim) (cfg.d.length - 1) [] t')) := by
      intro hx' hhx hev
      have h1 : A ++ hx' :: (snap ++ [z]) = (A ++ [hx']) ++ (snap ++ [z]) := by simp
      rw [h1, ih (A ++ [hx']) z start (i + 1) [] nxt rest' t' (decLim lim) (cfg.d.length - 1)
        (by simp; omega) (by omega) (by rw [decLim_isSome]; exact hlim) hsp' (by rw [hT]; rfl)]
      simp only [if_neg hev, hhx]
      simp
    rw [forScan]
    by_cases hl : x.getLast? = some cfg.e
    · simp only [hl, if_true]
      by_cases hodd : run cfg.e x % 2 = 1
      · -- odd run: glue with the next piece and start again from here
        simp only [hodd, if_true]
        have hitems1 : ∃ y, (if (cfg.tr && run cfg.e x / 2 != 0) = true then
              (A ++ (x :: snap ++ [z])).set (start + i)
                (List.take (x.length - run cfg.e x / 2 * 2) x ++ List.replicate (run cfg.e x / 2) cfg.e)
            else A ++ (x :: snap ++ [z])) = A ++ y :: nxt :: rest' := by
          split
          · exact ⟨_, by rw [hk]; simp only [List.cons_append, hT]; rw [set_mid]⟩
          · exact ⟨x, by simp only [List.cons_append, hT]⟩
        obtain ⟨y, hy⟩ := hitems1
        simp only [hy]
        -- the list after the re-split: the pieces of `t'` with the budget `lim` again
        obtain ⟨q', rest'', hre, hsp''⟩ : ∃ q' rest'',
            (if (cfg.m != 0) = true then resplit cfg.d (A ++ y :: nxt :: rest') else .ok (A ++ y :: nxt :: rest'))
              = .ok (A ++ y :: q' :: rest'') ∧
            splitAux cfg.d lim (cfg.d.length - 1) t' = q' :: rest'' := by
          cases lim with
          | none =>
            have hm : (cfg.m != 0) = false := by rw [← hlim]; rfl
            exact ⟨nxt, rest', by simp [hm], hsp'⟩
          | some k =>
            have hm : (cfg.m != 0) = true := by rw [← hlim]; rfl
            obtain ⟨k', rfl⟩ : ∃ k', k = k' + 1 := by
              cases k with
              | zero => simp [canSplit] at hcs
              | succ k' => exact ⟨k', rfl⟩
            simp only [decLim, Nat.add_sub_cancel] at hsp'
            cases hq : splitAux cfg.d (some (k' + 1)) (cfg.d.length - 1) t' with
            | nil => exact absurd hq (splitAux_ne_nil _ _ _ _)
            | cons q' rest'' =>
              refine ⟨q', rest'', ?_, rfl⟩
              have h2 : A ++ y :: nxt :: rest' = (A ++ [y]) ++ (nxt :: rest') := by simp
              rw [if_pos hm, h2, resplit_append _ _ _ (by simp), ← hsp', resplitLast_splitAux, hq]
              simp
        simp only [hre]
        have hset : ((A ++ y :: q' :: rest'').eraseIdx (start + i + 1)).set (start + i)
            (x.dropLast ++ cfg.d ++ q') = A ++ (x.dropLast ++ cfg.d ++ q') :: rest'' := by
          rw [hk, erase_mid1, set_mid]
        have hget : (A ++ y :: q' :: rest'')[start + i + 1]? = some q' := by
          rw [hk, get_mid1]
        simp only [hget, hset]
        simp only [cont, hk]
        have := IH A (x.dropLast ++ cfg.d) q' rest'' t' lim (cfg.d.length - 1) (by omega) hlim hsp''
        rw [List.append_assoc] at this ⊢
        rw [this]
      · simp only [hodd, if_false]
        have hx2 : (if (cfg.tr && run cfg.e x / 2 != 0) = true then
              (A ++ (x :: snap ++ [z])).set (start + i)
                (List.take (x.length - run cfg.e x / 2 * 2) x ++ List.replicate (run cfg.e x / 2) cfg.e)
            else A ++ (x :: snap ++ [z])) = A ++ halveIf cfg.tr cfg.e x :: (snap ++ [z]) := by
          split
          · rename_i h
            simp only [Bool.and_eq_true] at h
            rw [hk]; simp only [List.cons_append]; rw [set_mid]
            simp [halveIf, h.1, halve]
          · rename_i h
            simp only [List.cons_append]
            cases htr : cfg.tr with
            | false => simp [halveIf]
            | true =>
              have : run cfg.e x / 2 = 0 := by simpa [htr] using h
              rw [halveIf_eq_self _ _ _ this]
        rw [hx2]
        have := hcont _ rfl hodd
        simpa only [hodd, if_false] using this
    · simp only [hl, if_false]
      have hr := run_eq_zero _ _ hl
      have := hcont x (by rw [halveIf_eq_self _ _ _ (by rw [hr])]) (by rw [hr]; decide)
      simpa using this

theorem whileLoop_ref (cfg : Cfg) :
    ∀ (fuel : Nat) (A : List Str) (pre p : Str) (rest : List Str) (t : Str) (lim : Option Nat) (sk : Nat),
      t.length < fuel → lim.isSome = (cfg.m != 0) → splitAux cfg.d lim sk t = p :: rest →
      whileLoop cfg fuel (A ++ (pre ++ p) :: rest) A.length
        = .ok (A ++ refAux cfg.e cfg.d cfg.tr lim sk pre t) := by
  intro fuel
  induction fuel with
  | zero => intro A pre p rest t lim sk h; exact absurd h (Nat.not_lt_zero _)
  | succ fuel ih =>
    intro A pre p rest t lim sk hlen hlim hsp
    rw [whileLoop_succ, dropLast_drop_mid]
    have hne : (pre ++ p) :: rest ≠ [] := by simp
    have hsplit : (pre ++ p) :: rest = ((pre ++ p) :: rest).dropLast ++ [((pre ++ p) :: rest).getLast hne] :=
      (List.dropLast_concat_getLast hne).symm
    have h := scan_ref cfg fuel ih ((pre ++ p) :: rest).dropLast A (((pre ++ p) :: rest).getLast hne) A.length 0
      pre p rest t lim sk rfl (by omega) hlim hsp hsplit
    rw [← hsplit] at h
    exact h

theorem limOf_isSome (m : Nat) : (limOf m).isSome = (m != 0) := by
  unfold limOf
  split <;> simp [*]

/-- **Fuel adequacy and the main fact in one statement**: with more fuel than the text has characters the
loop ends, and it computes the character-level reference (real cuts are counted; fix C17-j). -/
theorem splitWithEscapeD_ref (fuel : Nat) (s d : Str) (m : Nat) (e : Char) (tr : Bool)
    (hd : d ≠ []) (hf : s.length < fuel) :
    splitWithEscapeD fuel s d m (some e) tr = .ok (refAux e d tr (limOf m) 0 [] s) := by
  rw [splitWithEscapeD, if_neg hd]
  simp only
  cases hs : splitMax d m s with
  | nil => exact absurd hs (splitMax_ne_nil d m s)
  | cons c rest =>
    have := whileLoop_ref ⟨e, d, tr, m⟩ fuel [] [] c rest s (limOf m) 0 hf (limOf_isSome m) hs
    simpa using this

/-! ### the local specification -/

theorem takeWhile_append_length {α} (f : α → Bool) (l1 l2 : List α) (h : l2.takeWhile f = []) :
    ((l1 ++ l2).takeWhile f).length = (l1.takeWhile f).length := by
  induction l1 with
  | nil => simp [h]
  | cons a l1 ih =>
    simp only [List.cons_append, List.takeWhile_cons]
    split
    · simp [ih]
    · rfl

theorem run_append (e : Char) (pre p : Str) (h : run e pre = 0) : run e (pre ++ p) = run e p := by
  unfold run at *
  rw [List.reverse_append]
  exact takeWhile_append_length _ _ _ (List.length_eq_zero_iff.1 h)

theorem run_le_length (e : Char) (s : Str) : run e s ≤ s.length := by
  unfold run
  have := List.Sublist.length_le (List.takeWhile_sublist (fun c => c == e) (l := s.reverse))
  simpa using this

theorem halve_append (e : Char) (pre p : Str) (h : run e pre = 0) :
    halve e (pre ++ p) = pre ++ halve e p := by
  unfold halve
  simp only [run_append e pre p h]
  have hle := run_le_length e p
  rw [List.take_append]
  have h1 : (pre ++ p).length - run e p / 2 * 2 - pre.length = p.length - run e p / 2 * 2 := by
    simp only [List.length_append]; omega
  have h2 : List.take ((pre ++ p).length - run e p / 2 * 2) pre = pre := by
    apply List.take_of_length_le
    simp only [List.length_append]; omega
  rw [h1, h2, List.append_assoc]

theorem halveIf_append (tr : Bool) (e : Char) (pre p : Str) (h : run e pre = 0) :
    halveIf tr e (pre ++ p) = pre ++ halveIf tr e p := by
  unfold halveIf
  split
  · exact halve_append e pre p h
  · rfl

theorem run_append_delim (e : Char) (x d : Str) (hd : d ≠ []) (hl : d.getLast? ≠ some e) :
    run e (x ++ d) = 0 := by
  apply run_eq_zero
  rw [List.getLast?_append]
  cases hdl : d.getLast? with
  | none => exact absurd (List.getLast?_eq_none_iff.1 hdl) hd
  | some c => rw [hdl] at hl; simpa using hl

theorem specG_eq_splitSpec (e : Char) (d : Str) (tr : Bool) (hd : d ≠ []) (hl : d.getLast? ≠ some e)
    (ps : List Str) : ∀ pre : Str, run e pre = 0 →
      specG e d tr pre ps = splitSpec e d tr pre ps := by
  induction ps with
  | nil => intro pre _; rfl
  | cons p ps ih =>
    intro pre hpre
    cases ps with
    | nil => simp [specG, splitSpec, halveIf_append _ _ _ _ hpre]
    | cons q rest =>
      simp only [specG, splitSpec, run_append e pre p hpre]
      by_cases hodd : run e p % 2 = 1
      · simp only [hodd, if_true]
        have hp : p ≠ [] := by
          intro h; subst h; simp [run_nil] at hodd
        rw [List.dropLast_append_of_ne_nil hp]
        exact ih _ (run_append_delim e _ d hd hl)
      · simp only [hodd, if_false]
        rw [halveIf_append _ _ _ _ hpre, ih [] (run_nil e)]

/-- on pieces that contain no escape character the reference does nothing -/
theorem specG_no_escape (e : Char) (d : Str) (tr : Bool) (ps : List Str)
    (h : ∀ p ∈ ps, e ∉ p) : specG e d tr [] ps = ps := by
  induction ps with
  | nil => rfl
  | cons p ps ih =>
    have hp : e ∉ p := h p (by simp)
    have hr : run e p = 0 := by
      apply run_eq_zero
      intro hl
      exact hp (List.mem_of_getLast? hl)
    cases ps with
    | nil => simp [specG, halveIf_eq_self _ _ _ (by rw [hr])]
    | cons q rest =>
      simp only [specG, List.nil_append, hr]
      rw [halveIf_eq_self _ _ _ (by rw [hr])]
      simp only [Nat.zero_mod, Nat.zero_ne_one, if_false]
      rw [ih (fun p' hp' => h p' (by simp [hp']))]

/-- independence of neighbours: a boundary after a piece with an even run separates the
computation of what is before from what is after. -/
theorem splitSpec_append (e : Char) (d : Str) (tr : Bool) (p q : Str) (qs : List Str)
    (hev : run e p % 2 ≠ 1) (ps : List Str) : ∀ pre : Str,
    splitSpec e d tr pre (ps ++ p :: q :: qs)
      = splitSpec e d tr pre (ps ++ [p]) ++ splitSpec e d tr [] (q :: qs) := by
  induction ps with
  | nil => intro pre; simp [splitSpec, hev]
  | cons a ps ih =>
    intro pre
    cases ps with
    | nil =>
      simp only [List.cons_append, List.nil_append, splitSpec, hev, if_false]
      split <;> simp
    | cons b ps =>
      simp only [List.cons_append, splitSpec]
      split
      · have := ih (pre ++ a.dropLast ++ d)
        simpa using this
      · have := ih []
        simp only [List.cons_append] at this
        rw [this]; simp

/-! ### split after join -/

/-- no character of `x` occurs in `sep` -/
def Clean (sep x : Str) : Prop := ∀ c ∈ x, c ∉ sep

instance (sep x : Str) : Decidable (Clean sep x) := by unfold Clean; infer_instance

def prependHead (x : Str) : List Str → List Str
  | [] => [x]
  | h :: t => (x ++ h) :: t

theorem consHead_prependHead (a : Char) (x : Str) (l : List Str) :
    consHead a (prependHead x l) = prependHead (a :: x) l := by
  cases l <;> rfl

theorem startsWith_ne (a s0 : Char) (s sep : Str) (h : a ≠ s0) : startsWith (a :: s) (s0 :: sep) = false := by
  simp [startsWith, h]

theorem startsWith_append_self (sep r : Str) : startsWith (sep ++ r) sep = true := by
  induction sep with
  | nil => cases r <;> rfl
  | cons a sep ih => simp [startsWith, ih]

theorem splitAux_clean_append (sep : Str) (lim : Option Nat) (x r : Str) (hs : sep ≠ [])
    (hx : Clean sep x) : splitAux sep lim 0 (x ++ r) = prependHead x (splitAux sep lim 0 r) := by
  induction x with
  | nil =>
    have := splitAux_ne_nil sep lim 0 r
    cases h : splitAux sep lim 0 r with
    | nil => exact absurd h this
    | cons a t => simp [prependHead, h]
  | cons a x ih =>
    cases sep with
    | nil => exact absurd rfl hs
    | cons s0 sep' =>
      have ha : a ≠ s0 := by
        intro h; exact hx a (by simp) (by simp [h])
      simp only [List.cons_append, splitAux, startsWith_ne a s0 _ _ ha, Bool.and_false,
        Bool.false_eq_true, if_false]
      rw [ih (fun c hc => hx c (by simp [hc])), consHead_prependHead]

theorem splitAux_skip (sep : Str) (lim : Option Nat) (pre r : Str) :
    splitAux sep lim pre.length (pre ++ r) = splitAux sep lim 0 r := by
  induction pre with
  | nil => rfl
  | cons a pre ih => simp only [List.length_cons, List.cons_append, splitAux]; exact ih

theorem splitAux_at_sep (sep : Str) (lim : Option Nat) (r : Str) (hs : sep ≠ [])
    (hl : canSplit lim = true) :
    splitAux sep lim 0 (sep ++ r) = [] :: splitAux sep (decLim lim) 0 r := by
  cases sep with
  | nil => exact absurd rfl hs
  | cons s0 sep' =>
    have h1 : startsWith (s0 :: (sep' ++ r)) (s0 :: sep') = true := startsWith_append_self (s0 :: sep') r
    simp only [List.cons_append, splitAux, hl, h1, Bool.and_self, if_true, List.length_cons,
      Nat.add_sub_cancel]
    rw [splitAux_skip]

theorem splitAux_no_occ (sep : Str) (lim : Option Nat) (s : Str) (h : isInfix sep s = false) :
    splitAux sep lim 0 s = [s] := by
  induction s with
  | nil => rfl
  | cons c s ih =>
    simp only [isInfix, Bool.or_eq_false_iff] at h
    simp only [splitAux, h.1, Bool.and_false, Bool.false_eq_true, if_false, ih h.2, consHead]

theorem splitAux_clean (sep : Str) (lim : Option Nat) (x : Str) (hs : sep ≠ []) (hx : Clean sep x) :
    splitAux sep lim 0 x = [x] := by
  have := splitAux_clean_append sep lim x [] hs hx
  simpa [splitAux, prependHead] using this

theorem split_join (sep : Str) (hs : sep ≠ []) (items : List Str) (hne : items ≠ [])
    (hc : ∀ it ∈ items, Clean sep it) : splitAux sep none 0 (join sep items) = items := by
  induction items with
  | nil => exact absurd rfl hne
  | cons x items ih =>
    cases items with
    | nil => simpa [join] using splitAux_clean sep none x hs (hc x (by simp))
    | cons y rest =>
      simp only [join, List.append_assoc]
      rw [splitAux_clean_append sep none x _ hs (hc x (by simp)),
        splitAux_at_sep sep none _ hs rfl]
      simp only [decLim]
      rw [ih (by simp) (fun it hit => hc it (by simp [hit]))]
      simp [prependHead]

theorem mem_join (sep : Str) (items : List Str) (c : Char) (h : c ∈ join sep items) :
    c ∈ sep ∨ ∃ it ∈ items, c ∈ it := by
  induction items with
  | nil => simp [join] at h
  | cons x items ih =>
    cases items with
    | nil => right; exact ⟨x, by simp, by simpa [join] using h⟩
    | cons y rest =>
      simp only [join, List.mem_append] at h
      rcases h with (h | h) | h
      · right; exact ⟨x, by simp, h⟩
      · left; exact h
      · rcases ih h with h | ⟨it, hit, hc⟩
        · left; exact h
        · right; exact ⟨it, by simp [hit], hc⟩

/-- key=value: the first equal tag splits, the rest stays -/
theorem splitAux_pair (eq k v : Str) (hs : eq ≠ []) (hk : Clean eq k) :
    splitAux eq (some 1) 0 (k ++ eq ++ v) = [k, v] := by
  rw [List.append_assoc, splitAux_clean_append eq _ k _ hs hk, splitAux_at_sep eq _ _ hs rfl]
  simp [decLim, splitAux_lim_zero, prependHead]

/-- joining clean items with a clean separator gives a clean text -/
theorem clean_join (sep ds : Str) (l : List Str) (hl : ∀ it ∈ l, Clean sep it) (hds : Clean sep ds) :
    Clean sep (join ds l) := by
  intro c hc
  rcases mem_join ds l c hc with h | ⟨it, hit, h⟩
  · exact hds c h
  · exact hl it hit c h

/-- the joined text of a non-empty list is empty exactly for the list `['']` -/
theorem join_eq_nil_iff (ds : Str) (hds : ds ≠ []) (l : List Str) (hl : l ≠ []) :
    join ds l = [] ↔ l = [[]] := by
  cases l with
  | nil => exact absurd rfl hl
  | cons x t =>
    cases t with
    | nil => simp [join]
    | cons y t' =>
      simp only [join]
      constructor
      · intro h
        have := (List.append_eq_nil_iff.mp h).1
        exact absurd (List.append_eq_nil_iff.mp this).2 hds
      · intro h; cases h

/-! ### escape / unescape -/

def isLowerHex (c : Char) : Bool := ('0' ≤ c && c ≤ '9') || ('a' ≤ c && c ≤ 'f')

/-- a separator that cannot be confused with the `\xNN` notation -/
def SafeSep (sep : Str) : Prop := ∀ c ∈ sep, c ≠ '\\' ∧ c ≠ 'x' ∧ isLowerHex c = false

/-- separators and the wide notation: either all their characters are below U+0100 (then no
`\uNNNN` / `\UNNNNNNNN` is ever written), or none of them is `u` or `U` -/
def WideOk (d eq : Str) : Prop :=
  (∀ c ∈ d ++ eq, c.toNat < 0x100) ∨ (∀ c ∈ d ++ eq, c ≠ 'u' ∧ c ≠ 'U')

instance (d eq : Str) : Decidable (WideOk d eq) := by unfold WideOk; infer_instance

instance (sep : Str) : Decidable (SafeSep sep) := by unfold SafeSep; infer_instance

theorem hexDigit_facts : ∀ k : Fin 16,
    hexVal (hexDigit k) = some k.val ∧ (hexDigit k).toNat < 128 ∧ isLowerHex (hexDigit k) = true
      ∧ hexDigit k ≠ '\\' ∧ hexDigit k ≠ 'x' := by decide

theorem hexDigit_val (k : Nat) (h : k < 16) : hexVal (hexDigit k) = some k := (hexDigit_facts ⟨k, h⟩).1
theorem hexDigit_ascii (k : Nat) (h : k < 16) : (hexDigit k).toNat < 128 := (hexDigit_facts ⟨k, h⟩).2.1
theorem hexDigit_lower (k : Nat) (h : k < 16) : isLowerHex (hexDigit k) = true := (hexDigit_facts ⟨k, h⟩).2.2.1

theorem hex2_digits (n : Nat) (h : n < 256) : ∀ c ∈ hex2 n, ∃ k, k < 16 ∧ c = hexDigit k := by
  intro c hc
  simp only [hex2, List.mem_cons, List.not_mem_nil, or_false] at hc
  rcases hc with rfl | rfl
  · exact ⟨n / 16, by omega, rfl⟩
  · exact ⟨n % 16, by omega, rfl⟩

theorem hex4_digits (n : Nat) : ∀ c ∈ hex4 n, ∃ k, k < 16 ∧ c = hexDigit k := by
  intro c hc
  simp only [hex4, List.mem_cons, List.not_mem_nil, or_false] at hc
  rcases hc with rfl | rfl | rfl | rfl <;> exact ⟨_, Nat.mod_lt _ (by decide), rfl⟩

theorem hex8_digits (n : Nat) : ∀ c ∈ hex8 n, ∃ k, k < 16 ∧ c = hexDigit k := by
  intro c hc
  simp only [hex8, List.mem_cons, List.not_mem_nil, or_false] at hc
  rcases hc with rfl | rfl | rfl | rfl | rfl | rfl | rfl | rfl <;> exact ⟨_, Nat.mod_lt _ (by decide), rfl⟩

/-- the characters of an escape notation: backslash, `x`, hex digits, and `u`/`U` above U+00FF only -/
theorem mem_escNote (n : Nat) (c : Char) (h : c ∈ escNote n) :
    c = '\\' ∨ c = 'x' ∨ (∃ k, k < 16 ∧ c = hexDigit k) ∨ ((c = 'u' ∨ c = 'U') ∧ 0x100 ≤ n) := by
  unfold escNote at h
  split at h
  · rename_i hn
    rcases List.mem_cons.1 h with rfl | h
    · left; rfl
    · rcases List.mem_cons.1 h with rfl | h
      · right; left; rfl
      · right; right; left; exact hex2_digits n hn c h
  · rename_i hn
    split at h
    · rcases List.mem_cons.1 h with rfl | h
      · left; rfl
      · rcases List.mem_cons.1 h with rfl | h
        · right; right; right; exact ⟨Or.inl rfl, by omega⟩
        · right; right; left; exact hex4_digits n c h
    · rcases List.mem_cons.1 h with rfl | h
      · left; rfl
      · rcases List.mem_cons.1 h with rfl | h
        · right; right; right; exact ⟨Or.inr rfl, by omega⟩
        · right; right; left; exact hex8_digits n c h

theorem escNote_ascii (n : Nat) : ∀ c ∈ escNote n, c.toNat < 256 := by
  intro c hc
  rcases mem_escNote n c hc with rfl | rfl | ⟨k, hk, rfl⟩ | ⟨rfl | rfl, _⟩
  · decide
  · decide
  · have := hexDigit_ascii k hk; omega
  · decide
  · decide

theorem toBytes_cons (c : Char) (s : Str) :
    toBytes (c :: s) = (if c.toNat < 0x100 then [c] else escNote c.toNat) ++ toBytes s := by
  simp [toBytes]

theorem toBytes_append (a b : Str) : toBytes (a ++ b) = toBytes a ++ toBytes b := by
  simp [toBytes]

/-- text below U+0100 is its own Latin-1 byte string -/
theorem toBytes_small (s : Str) (h : ∀ c ∈ s, c.toNat < 256) : toBytes s = s := by
  induction s with
  | nil => rfl
  | cons c s ih =>
    have hc : c.toNat < 256 := h c (by simp)
    rw [toBytes_cons, ih (fun c' hc' => h c' (by simp [hc'])), if_pos hc]
    rfl

/-- characters of an escaped value: untouched harmless characters, or `\`, `x`, hex digits, or —
only when a reserved character above U+00FF occurs — `u`, `U` -/
theorem mem_escapeValue (dang v : Str) (c : Char) (h : c ∈ escapeValue dang v) :
    (c ∈ v ∧ dang.contains c = false) ∨ c = '\\' ∨ c = 'x' ∨ (∃ k, k < 16 ∧ c = hexDigit k)
      ∨ ((c = 'u' ∨ c = 'U') ∧ ∃ a ∈ dang, 0x100 ≤ a.toNat) := by
  unfold escapeValue at h
  rw [List.mem_flatMap] at h
  obtain ⟨a, ha, hc⟩ := h
  unfold escChar at hc
  split at hc
  · rename_i hd
    rcases mem_escNote a.toNat c hc with h | h | h | ⟨h, hn⟩
    · right; left; exact h
    · right; right; left; exact h
    · right; right; right; left; exact h
    · right; right; right; right; exact ⟨h, a, by simpa using hd, hn⟩
  · rename_i hnd
    simp only [List.mem_cons, List.not_mem_nil, or_false] at hc
    subst hc
    left; exact ⟨ha, by simpa using hnd⟩

theorem unescB_plain (f : Nat) (c : Char) (s : Str) (h : c ≠ '\\') :
    unescB (f + 1) (c :: s) = (unescB f s).map (c :: ·) := by
  rw [unescB.eq_def]
  simp only [ne_eq, h, not_false_eq_true, if_true]

theorem mkChar_toNat (a : Char) : mkChar a.toNat = .ok a := by
  unfold mkChar
  have hv := a.valid
  have hv' : a.toNat < 0xD800 ∨ (0xDFFF < a.toNat ∧ a.toNat < 0x110000) := hv
  have : ¬ (a.toNat > 0x10FFFF) := by omega
  have h3 : ¬ (0xD800 ≤ a.toNat ∧ a.toNat ≤ 0xDFFF) := by omega
  simp only [this, h3, if_false, Char.ofNat_toNat]

theorem unescB_hex (f : Nat) (a : Char) (s : Str) (h256 : a.toNat < 256) :
    unescB (f + 1) ('\\' :: 'x' :: hexDigit (a.toNat / 16) :: hexDigit (a.toNat % 16) :: s)
      = (unescB f s).map (a :: ·) := by
  have h1 := hexDigit_val (a.toNat / 16) (by omega)
  have h2 := hexDigit_val (a.toNat % 16) (by omega)
  have hx : simpleEsc 'x' = none := by decide
  have ho : isOct 'x' = false := by decide
  have hn : ¬ ('x' = '\n') := by decide
  have hval : (0 * 16 + a.toNat / 16) * 16 + a.toNat % 16 = a.toNat := by omega
  rw [unescB.eq_def]
  simp only [ne_eq, not_true_eq_false, if_false, hn, hx, ho, Bool.false_eq_true, true_or, if_true,
    takeHex, h1, h2, hval, mkChar_toNat]

theorem unescB_u4 (f : Nat) (a : Char) (s : Str) (h : a.toNat < 0x10000) :
    unescB (f + 1) ('\\' :: 'u' :: (hex4 a.toNat ++ s)) = (unescB f s).map (a :: ·) := by
  have h1 := hexDigit_val (a.toNat / 4096 % 16) (Nat.mod_lt _ (by decide))
  have h2 := hexDigit_val (a.toNat / 256 % 16) (Nat.mod_lt _ (by decide))
  have h3 := hexDigit_val (a.toNat / 16 % 16) (Nat.mod_lt _ (by decide))
  have h4 := hexDigit_val (a.toNat % 16) (Nat.mod_lt _ (by decide))
  have hx : simpleEsc 'u' = none := by decide
  have ho : isOct 'u' = false := by decide
  have hn : ¬ ('u' = '\n') := by decide
  have hux : ¬ ('u' = 'x') := by decide
  have hval : (((0 * 16 + a.toNat / 4096 % 16) * 16 + a.toNat / 256 % 16) * 16 + a.toNat / 16 % 16) * 16
      + a.toNat % 16 = a.toNat := by omega
  rw [unescB.eq_def]
  simp only [hex4, List.cons_append, List.nil_append, ne_eq, not_true_eq_false, if_false, hn, hx, ho,
    Bool.false_eq_true, hux, false_or, true_or, if_true, takeHex, h1, h2, h3, h4, hval, mkChar_toNat]

theorem unescB_U8 (f : Nat) (a : Char) (s : Str) :
    unescB (f + 1) ('\\' :: 'U' :: (hex8 a.toNat ++ s)) = (unescB f s).map (a :: ·) := by
  have hv : a.toNat < 0xD800 ∨ (0xDFFF < a.toNat ∧ a.toNat < 0x110000) := a.valid
  have h1 := hexDigit_val (a.toNat / 268435456 % 16) (Nat.mod_lt _ (by decide))
  have h2 := hexDigit_val (a.toNat / 16777216 % 16) (Nat.mod_lt _ (by decide))
  have h3 := hexDigit_val (a.toNat / 1048576 % 16) (Nat.mod_lt _ (by decide))
  have h4 := hexDigit_val (a.toNat / 65536 % 16) (Nat.mod_lt _ (by decide))
  have h5 := hexDigit_val (a.toNat / 4096 % 16) (Nat.mod_lt _ (by decide))
  have h6 := hexDigit_val (a.toNat / 256 % 16) (Nat.mod_lt _ (by decide))
  have h7 := hexDigit_val (a.toNat / 16 % 16) (Nat.mod_lt _ (by decide))
  have h8 := hexDigit_val (a.toNat % 16) (Nat.mod_lt _ (by decide))
  have hx : simpleEsc 'U' = none := by decide
  have ho : isOct 'U' = false := by decide
  have hn : ¬ ('U' = '\n') := by decide
  have hux : ¬ ('U' = 'x') := by decide
  have huu : ¬ ('U' = 'u') := by decide
  have hval : (((((((0 * 16 + a.toNat / 268435456 % 16) * 16 + a.toNat / 16777216 % 16) * 16
      + a.toNat / 1048576 % 16) * 16 + a.toNat / 65536 % 16) * 16 + a.toNat / 4096 % 16) * 16
      + a.toNat / 256 % 16) * 16 + a.toNat / 16 % 16) * 16 + a.toNat % 16 = a.toNat := by omega
  rw [unescB.eq_def]
  simp only [hex8, List.cons_append, List.nil_append, ne_eq, not_true_eq_false, if_false, hn, hx, ho,
    Bool.false_eq_true, hux, huu, or_true, if_true, takeHex, h1, h2, h3, h4, h5, h6, h7, h8,
    hval, mkChar_toNat]

/-- the decoder reads an escape notation back as the character it spells -/
theorem unescB_note (f : Nat) (a : Char) (s : Str) :
    unescB (f + 1) (escNote a.toNat ++ s) = (unescB f s).map (a :: ·) := by
  unfold escNote
  split
  · rename_i h
    simp only [hex2, List.cons_append, List.nil_append]
    exact unescB_hex f a s h
  · split
    · rename_i h
      simp only [List.cons_append]
      exact unescB_u4 f a s h
    · simp only [List.cons_append]
      exact unescB_U8 f a s

theorem escNote_length_pos (n : Nat) : 1 ≤ (escNote n).length := by
  unfold escNote; split
  · simp
  · split <;> simp

/-- what `unescape` sees of one character of a value, and that it reads it back -/
theorem unescB_unit (dang : Str) (hb : '\\' ∈ dang) (a : Char) (f : Nat) (s : Str) :
    1 ≤ (toBytes (escChar dang a)).length ∧
      unescB (f + 1) (toBytes (escChar dang a) ++ s) = (unescB f s).map (a :: ·) := by
  unfold escChar
  by_cases hd : dang.contains a = true
  · rw [if_pos hd, toBytes_small _ (escNote_ascii a.toNat)]
    exact ⟨escNote_length_pos _, unescB_note f a s⟩
  · rw [if_neg hd]
    have hne : a ≠ '\\' := by
      intro h; subst h
      exact hd (by simpa using hb)
    rw [toBytes_cons]
    simp only [toBytes, List.flatMap_nil, List.append_nil]
    by_cases hs : a.toNat < 0x100
    · rw [if_pos hs]
      exact ⟨by simp, unescB_plain f a s hne⟩
    · rw [if_neg hs]
      exact ⟨escNote_length_pos _, unescB_note f a s⟩

theorem unescB_escapeValue (dang v : Str) (hb : '\\' ∈ dang) :
    ∀ fuel, (toBytes (escapeValue dang v)).length ≤ fuel →
      unescB fuel (toBytes (escapeValue dang v)) = .ok v := by
  induction v with
  | nil => intro fuel _; cases fuel <;> rfl
  | cons a v ih =>
    intro fuel hf
    have hcons : escapeValue dang (a :: v) = escChar dang a ++ escapeValue dang v := by
      simp [escapeValue]
    rw [hcons, toBytes_append] at hf ⊢
    obtain ⟨hpos, hstep⟩ := unescB_unit dang hb a (fuel - 1) (toBytes (escapeValue dang v))
    rw [List.length_append] at hf
    obtain ⟨f, rfl⟩ : ∃ f, fuel = f + 1 := ⟨fuel - 1, by omega⟩
    simp only [Nat.add_sub_cancel] at hstep
    rw [hstep, ih f (by omega)]
    rfl

/-- `unescape(escape(v)) = v` for every text (fix C17-e) -/
theorem unescape_escapeValue (dang v : Str) (hb : '\\' ∈ dang) :
    unescape (escapeValue dang v) = .ok v := by
  unfold unescape
  exact unescB_escapeValue dang v hb _ (Nat.le_refl _)

/-- an escaped value contains no character of a safe separator that is reserved; when a reserved
character above U+00FF exists the notation `\uNNNN` / `\UNNNNNNNN` appears, so the separator must
then contain neither `u` nor `U` -/
theorem escapeValue_clean (dang sep v : Str) (hs : SafeSep sep) (hsub : ∀ c ∈ sep, c ∈ dang)
    (hu : (∀ a ∈ dang, a.toNat < 0x100) ∨ (∀ c ∈ sep, c ≠ 'u' ∧ c ≠ 'U')) :
    Clean sep (escapeValue dang v) := by
  intro c hc hcs
  obtain ⟨h1, h2, h3⟩ := hs c hcs
  rcases mem_escapeValue dang v c hc with h | h | h | ⟨k, hk, h⟩ | ⟨h, a, ha, hn⟩
  · have := hsub c hcs
    have h' : dang.contains c = true := by simpa using this
    rw [h.2] at h'; cases h'
  · exact h1 h
  · exact h2 h
  · subst h; rw [hexDigit_lower k hk] at h3; cases h3
  · rcases hu with hu | hu
    · have := hu a ha; omega
    · rcases h with h | h
      · exact (hu c hcs).1 h
      · exact (hu c hcs).2 h

theorem wideOk_dangerous (d eq sep : Str) (hw : WideOk d eq) (hsub : ∀ c ∈ sep, c ∈ d ++ eq) :
    (∀ a ∈ dangerous d eq, a.toNat < 0x100) ∨ (∀ c ∈ sep, c ≠ 'u' ∧ c ≠ 'U') := by
  rcases hw with hw | hw
  · left
    intro a ha
    simp only [dangerous, List.append_assoc, List.mem_append, List.mem_cons, List.not_mem_nil, or_false] at ha
    rcases ha with (rfl | rfl | rfl | rfl | rfl | rfl) | ha | ha
    all_goals first | decide | exact hw a (by simp [ha])
  · right
    intro c hc
    exact hw c (hsub c hc)

/-! ### flat mappings -/

/-- a flat mapping with string values as a `Val` -/
def flatVal (c : Cls) (m : List (Str × Str)) : Val := .dict c (m.map (fun kv => (kv.1, Val.str kv.2)))

/-- the text of one entry -/
def itemOf (d eq : Str) (kv : Str × Str) : Str := kv.1 ++ eq ++ escapeValue (dangerous d eq) kv.2

def c0 (d eq : Str) : SCfg := ⟨d, eq, true, true, 0, 0⟩

theorem ser_str (d eq : Str) (lvl : Nat) (s : Str) :
    ser (c0 d eq) lvl (.str s) = .ok (some (escapeValue (dangerous d eq) s)) := by
  simp [ser, c0, capStr, bind, Except.bind, pure, Except.pure]

theorem addValue_some (c : SCfg) (h : c.genEmpty = true) (b s : Str) :
    addValue c b (some s) = b ++ c.eq ++ s := by
  cases s <;> simp [addValue, h]

theorem serKvs_flat (d eq : Str) (m : List (Str × Str)) : ∀ buf : Str, buf ≠ [] →
    serKvs (c0 d eq) 0 buf (m.map (fun kv => (kv.1, Val.str kv.2)))
      = .ok (buf ++ m.flatMap (fun kv => d ++ itemOf d eq kv)) := by
  induction m with
  | nil => intro buf _; simp [serKvs]
  | cons kv m ih =>
    intro buf hb
    have hne : buf.isEmpty = false := by cases buf <;> simp_all
    simp only [List.map_cons, serKvs, ser_str, bind, Except.bind, opener, hne]
    simp only [capStr, c0, if_true, addValue_some]
    have := ih (buf ++ d ++ kv.1 ++ eq ++ escapeValue (dangerous d eq) kv.2) (by simp [hb])
    simp only [c0] at this
    simp only [Bool.not_false, if_true]
    rw [this]
    simp [itemOf, List.append_assoc]

theorem join_cons_flatMap (d : Str) (x : Str) (xs : List Str) :
    join d (x :: xs) = x ++ xs.flatMap (fun y => d ++ y) := by
  induction xs generalizing x with
  | nil => simp [join]
  | cons y ys ih => simp only [join, List.flatMap_cons, ih y, List.append_assoc]

theorem serializeDict_flat (d eq : Str) (heq : eq ≠ []) (c : Cls) (m : List (Str × Str)) :
    serializeDict d eq (flatVal c m) = .ok (some (join d (m.map (itemOf d eq)))) := by
  unfold serializeDict flatVal
  cases m with
  | nil => simp [ser, serKvs, closer, join, bind, Except.bind, pure, Except.pure]
  | cons kv m =>
    have hitem : itemOf d eq kv ≠ [] := by
      unfold itemOf
      cases eq with
      | nil => exact absurd rfl heq
      | cons a t => simp
    have h1 : serKvs (c0 d eq) 0 [] ((kv :: m).map (fun kv => (kv.1, Val.str kv.2)))
        = serKvs (c0 d eq) 0 (itemOf d eq kv) (m.map (fun kv => (kv.1, Val.str kv.2))) := by
      simp only [List.map_cons, serKvs, ser_str, bind, Except.bind, opener]
      simp only [capStr, c0, if_true, addValue_some]
      simp [itemOf]
    have h2 := serKvs_flat d eq m (itemOf d eq kv) hitem
    simp only [ser, bind, Except.bind, pure, Except.pure]
    have h1' := h1; simp only [c0] at h1' h2
    rw [h1', h2]
    simp [closer, join_cons_flatMap, List.flatMap_map]

/-! ### `dict(pairs)` and `mapM` -/

theorem dictSet_fresh {α} (k : Str) (v : α) (acc : List (Str × α)) (h : ∀ kv ∈ acc, kv.1 ≠ k) :
    dictSet k v acc = acc ++ [(k, v)] := by
  induction acc with
  | nil => rfl
  | cons a acc ih =>
    obtain ⟨k', v'⟩ := a
    have hk : k' ≠ k := h (k', v') (by simp)
    simp only [dictSet, hk, if_false, List.cons_append]
    rw [ih (fun kv hkv => h kv (by simp [hkv]))]

theorem foldl_dictSet_fresh {α} (ps : List (Str × α)) : ∀ acc : List (Str × α),
    (ps.map Prod.fst).Nodup → (∀ kv ∈ acc, ∀ kv' ∈ ps, kv.1 ≠ kv'.1) →
    ps.foldl (fun acc kv => dictSet kv.1 kv.2 acc) acc = acc ++ ps := by
  induction ps with
  | nil => intro acc _ _; simp
  | cons p ps ih =>
    intro acc hnd hdis
    simp only [List.map_cons, List.nodup_cons] at hnd
    simp only [List.foldl_cons]
    rw [dictSet_fresh p.1 p.2 acc (fun kv hkv => hdis kv hkv p (by simp))]
    rw [ih _ hnd.2]
    · simp
    · intro kv hkv kv' hkv'
      simp only [List.mem_append, List.mem_singleton] at hkv
      rcases hkv with hkv | hkv
      · exact hdis kv hkv kv' (by simp [hkv'])
      · subst hkv
        intro heq
        apply hnd.1
        rw [heq]
        exact List.mem_map_of_mem hkv'

theorem dictOfPairs_nodup {α} (ps : List (Str × α)) (h : (ps.map Prod.fst).Nodup) :
    dictOfPairs ps = ps := by
  unfold dictOfPairs
  have := foldl_dictSet_fresh ps [] h (by simp)
  simpa using this

theorem mapM_ok {α β} (f : α → PyM β) (g : α → β) (l : List α) (h : ∀ x ∈ l, f x = .ok (g x)) :
    l.mapM f = .ok (l.map g) := by
  induction l with
  | nil => rfl
  | cons a l ih =>
    simp only [List.mapM_cons, h a (by simp), ih (fun x hx => h x (by simp [hx])), bind, Except.bind,
      pure, Except.pure, List.map_cons]

theorem unescapeDict_ok (ps : List (Str × Str)) (f : Str → Str)
    (h : ∀ kv ∈ ps, unescape (f kv.2) = .ok kv.2) :
    unescapeDict (ps.map (fun kv => (kv.1, some (f kv.2)))) = .ok (ps.map (fun kv => (kv.1, some kv.2))) := by
  induction ps with
  | nil => rfl
  | cons p ps ih =>
    simp only [List.map_cons, unescapeDict, unescapeOpt, h p (by simp), Except.map,
      ih (fun kv hkv => h kv (by simp [hkv]))]

/-- `unescape` of a mapping, value by value (fix C17-h: a `None` value is kept) -/
theorem unescapeDict_map {α} (l : List α) (f g : α → Str × Option Str)
    (h : ∀ x ∈ l, (f x).1 = (g x).1 ∧ unescapeOpt (f x).2 = .ok (g x).2) :
    unescapeDict (l.map f) = .ok (l.map g) := by
  induction l with
  | nil => rfl
  | cons x l ih =>
    obtain ⟨h1, h2⟩ := h x (by simp)
    simp only [List.map_cons, unescapeDict, h2, Except.map, ih (fun y hy => h y (by simp [hy]))]
    rw [h1]

/-- fix C17-h: `unescape` of a mapping never fails because of a `None` value — it fails exactly
when one of the string values does -/
theorem unescapeDict_error (ps : List (Str × Option Str)) (e : UErr) (h : unescapeDict ps = .error e) :
    ∃ kv ∈ ps, ∃ s, kv.2 = some s ∧ unescape s = .error e := by
  induction ps with
  | nil => cases h
  | cons p ps ih =>
    obtain ⟨k, v⟩ := p
    simp only [unescapeDict] at h
    cases v with
    | none =>
      simp only [unescapeOpt] at h
      cases hr : unescapeDict ps with
      | error e' =>
        rw [hr] at h; simp only [Except.map] at h; cases h
        obtain ⟨kv, hkv, s, hs, hu⟩ := ih hr
        exact ⟨kv, by simp [hkv], s, hs, hu⟩
      | ok r => rw [hr] at h; cases h
    | some s =>
      simp only [unescapeOpt] at h
      cases hu : unescape s with
      | error e' =>
        rw [hu] at h; simp only [Except.map] at h; cases h
        exact ⟨(k, some s), by simp, s, rfl, hu⟩
      | ok s' =>
        rw [hu] at h; simp only [Except.map] at h
        cases hr : unescapeDict ps with
        | error e' =>
          rw [hr] at h; cases h
          obtain ⟨kv, hkv, s2, hs, hu2⟩ := ih hr
          exact ⟨kv, by simp [hkv], s2, hs, hu2⟩
        | ok r => rw [hr] at h; cases h

/-! ### flat mappings with `None` values and the flags `generate_empty` / `generate_none` -/

/-- a string or `None` as a `Val` -/
def optVal : Option Str → Val
  | some s => .str s
  | none => .none

/-- a flat mapping whose values are strings or `None` -/
def flatValO (c : Cls) (m : List (Str × Option Str)) : Val := .dict c (m.map (fun kv => (kv.1, optVal kv.2)))

/-- does `serialize_dict(…, generate_empty=ge, generate_none=gn)` write the equal tag after the key -/
def writesEq (ge gn : Bool) : Option Str → Bool
  | none => gn || ge
  | some [] => ge
  | some (_ :: _) => true

/-- the text of one entry under the flags: `k=v`, `k=` or the bare key -/
def itemOfF (d eq : Str) (ge gn : Bool) (kv : Str × Option Str) : Str :=
  if writesEq ge gn kv.2 then kv.1 ++ eq ++ escapeValue (dangerous d eq) (kv.2.getD []) else kv.1

def cF (d eq : Str) (ge gn : Bool) : SCfg := ⟨d, eq, ge, gn, 0, 0⟩

theorem escChar_ne_nil (dang : Str) (c : Char) : escChar dang c ≠ [] := by
  unfold escChar escNote
  split
  · split
    · simp
    · split <;> simp
  · simp

theorem escapeValue_cons_ne_nil (dang : Str) (a : Char) (s : Str) : escapeValue dang (a :: s) ≠ [] := by
  unfold escapeValue
  simp only [List.flatMap_cons]
  intro h
  exact escChar_ne_nil dang a (List.append_eq_nil_iff.mp h).1

theorem ser_optVal (d eq : Str) (ge gn : Bool) (lvl : Nat) (v : Option Str) :
    ser (cF d eq ge gn) lvl (optVal v) = .ok (v.map (escapeValue (dangerous d eq))) := by
  cases v <;> simp [optVal, ser, cF, capStr, bind, Except.bind, pure, Except.pure]

theorem addValue_item (d eq : Str) (ge gn : Bool) (buf k : Str) (v : Option Str) :
    addValue (cF d eq ge gn) (buf ++ k) (v.map (escapeValue (dangerous d eq)))
      = buf ++ itemOfF d eq ge gn (k, v) := by
  cases v with
  | none => cases ge <;> cases gn <;> simp [addValue, cF, itemOfF, writesEq, escapeValue]
  | some s =>
    cases s with
    | nil => cases ge <;> simp [addValue, cF, itemOfF, writesEq, escapeValue]
    | cons a s =>
      have hne := escapeValue_cons_ne_nil (dangerous d eq) a s
      cases he : escapeValue (dangerous d eq) (a :: s) with
      | nil => exact absurd he hne
      | cons b t => simp [addValue, cF, itemOfF, writesEq, he]

theorem serKvs_flatF (d eq : Str) (ge gn : Bool) (m : List (Str × Option Str)) : ∀ buf : Str, buf ≠ [] →
    serKvs (cF d eq ge gn) 0 buf (m.map (fun kv => (kv.1, optVal kv.2)))
      = .ok (buf ++ m.flatMap (fun kv => d ++ itemOfF d eq ge gn kv)) := by
  induction m with
  | nil => intro buf _; simp [serKvs]
  | cons kv m ih =>
    intro buf hb
    have hne : buf.isEmpty = false := by cases buf <;> simp_all
    simp only [List.map_cons, serKvs, ser_optVal, bind, Except.bind, opener, hne]
    have hcap : capStr (cF d eq ge gn).capK kv.1 = .ok kv.1 := by simp [capStr, cF]
    simp only [hcap, Bool.not_false, if_true]
    have hd : (cF d eq ge gn).d = d := rfl
    rw [hd, addValue_item d eq ge gn (buf ++ d) kv.1 kv.2]
    rw [ih _ (by simp [hb])]
    simp [List.append_assoc]

/-- `serialize_dict(m, d, eq, generate_empty=ge, generate_none=gn)` of a flat mapping (values strings
or `None`) all of whose entries write something -/
theorem ser_flatF (d eq : Str) (ge gn : Bool) (c : Cls) (m : List (Str × Option Str))
    (hne : ∀ kv ∈ m, itemOfF d eq ge gn kv ≠ []) :
    ser (cF d eq ge gn) 0 (flatValO c m) = .ok (some (join d (m.map (itemOfF d eq ge gn)))) := by
  unfold flatValO
  cases m with
  | nil => simp [ser, serKvs, closer, join, bind, Except.bind, pure, Except.pure]
  | cons kv m =>
    have hitem := hne kv (by simp)
    have h1 : serKvs (cF d eq ge gn) 0 [] ((kv :: m).map (fun kv => (kv.1, optVal kv.2)))
        = serKvs (cF d eq ge gn) 0 (itemOfF d eq ge gn kv) (m.map (fun kv => (kv.1, optVal kv.2))) := by
      simp only [List.map_cons, serKvs, ser_optVal, bind, Except.bind, opener]
      have hcap : capStr (cF d eq ge gn).capK kv.1 = .ok kv.1 := by simp [capStr, cF]
      simp only [hcap]
      have := addValue_item d eq ge gn [] kv.1 kv.2
      simp only [List.nil_append] at this
      simp [this]
    have h2 := serKvs_flatF d eq ge gn m (itemOfF d eq ge gn kv) hitem
    simp only [ser, bind, Except.bind, pure, Except.pure]
    rw [h1, h2]
    simp [closer, join_cons_flatMap, List.flatMap_map]

/-! ### `serialize_dict` on nested values -/

def isNone : Val → Bool
  | .none => true
  | _ => false

mutual
/-- no list directly contains `None` (`str += None` is the only failing statement) -/
def noNone : Val → Bool
  | .list _ xs => noNoneItems xs
  | .dict _ kvs => noNoneKvs kvs
  | _ => true
def noNoneItems : List Val → Bool
  | [] => true
  | v :: r => !isNone v && noNone v && noNoneItems r
def noNoneKvs : List (Str × Val) → Bool
  | [] => true
  | (_, v) :: r => noNone v && noNoneKvs r
end

/-- the only way the model of `serialize_dict` does not return: a case conversion of text outside
the modelled (ASCII) tables -/
def Good {α} (c : SCfg) (r : PyM α) : Prop :=
  ∀ e, r = .error e → e = .Unsupported ∧ (c.capK ≠ 0 ∨ c.capV ≠ 0)

theorem capStr_err (cap : Int) (s : Str) (e : PyErr) (h : capStr cap s = .error e) :
    e = .Unsupported ∧ cap ≠ 0 := by
  unfold capStr at h
  split at h
  · cases h
  · rename_i h0
    split at h
    · cases h; exact ⟨rfl, h0⟩
    · split at h <;> cases h

theorem good_scalar (c : SCfg) (s : Str) (f : Str → Option Str) :
    Good c (do let s' ← capStr c.capV s; pure (f s') : PyM (Option Str)) := by
  intro e h
  cases hc : capStr c.capV s with
  | error e' =>
    rw [hc] at h
    simp only [bind, Except.bind] at h
    cases h
    have := capStr_err _ _ _ hc
    exact ⟨this.1, Or.inr this.2⟩
  | ok s' =>
    rw [hc] at h
    simp [bind, Except.bind, pure, Except.pure] at h

theorem ser_not_none (c : SCfg) (lvl : Nat) (v : Val) (hv : isNone v = false) :
    ser c lvl v ≠ .ok none := by
  cases v with
  | none => simp [isNone] at hv
  | bool b =>
    simp only [ser, bind, Except.bind, pure, Except.pure]
    cases capStr c.capV (pyStr (.bool b)) <;> simp
  | int i =>
    simp only [ser, bind, Except.bind, pure, Except.pure]
    cases capStr c.capV (pyStr (.int i)) <;> simp
  | flt r =>
    simp only [ser, bind, Except.bind, pure, Except.pure]
    cases capStr c.capV r <;> simp
  | str s =>
    simp only [ser, bind, Except.bind, pure, Except.pure]
    cases capStr c.capV s <;> simp
  | list cl xs =>
    simp only [ser, bind, Except.bind, pure, Except.pure]
    cases serItems c lvl [] xs <;> simp
  | dict cl kvs =>
    simp only [ser, bind, Except.bind, pure, Except.pure]
    cases serKvs c lvl [] kvs <;> simp

mutual
theorem ser_good (c : SCfg) : ∀ (v : Val) (lvl : Nat), noNone v = true → Good c (ser c lvl v)
  | .none, lvl, _ => by intro e h; simp [ser] at h
  | .bool b, lvl, _ => by simp only [ser]; exact good_scalar c _ _
  | .int i, lvl, _ => by simp only [ser]; exact good_scalar c _ _
  | .flt r, lvl, _ => by simp only [ser]; exact good_scalar c _ _
  | .str s, lvl, _ => by simp only [ser]; exact good_scalar c _ _
  | .list cl xs, lvl, h => by
      intro e he
      simp only [ser, bind, Except.bind, pure, Except.pure] at he
      cases hr : serItems c lvl [] xs with
      | error e' =>
        rw [hr] at he; cases he
        exact serItems_good c xs lvl [] (by simpa [noNone] using h) _ hr
      | ok b => rw [hr] at he; cases he
  | .dict cl kvs, lvl, h => by
      intro e he
      simp only [ser, bind, Except.bind, pure, Except.pure] at he
      cases hr : serKvs c lvl [] kvs with
      | error e' =>
        rw [hr] at he; cases he
        exact serKvs_good c kvs lvl [] (by simpa [noNone] using h) _ hr
      | ok b => rw [hr] at he; cases he
theorem serItems_good (c : SCfg) : ∀ (xs : List Val) (lvl : Nat) (buf : Str),
    noNoneItems xs = true → Good c (serItems c lvl buf xs)
  | [], lvl, buf, _ => by intro e h; simp [serItems] at h
  | v :: rest, lvl, buf, h => by
      simp only [noNoneItems, Bool.and_eq_true, Bool.not_eq_true'] at h
      intro e he
      simp only [serItems, bind, Except.bind] at he
      cases hr : ser c (lvl + 1) v with
      | error e' =>
        rw [hr] at he; cases he
        exact ser_good c v (lvl + 1) h.1.2 _ hr
      | ok sv =>
        rw [hr] at he
        cases sv with
        | none => exact absurd hr (ser_not_none c (lvl + 1) v h.1.1)
        | some s => exact serItems_good c rest lvl _ h.2 _ he
theorem serKvs_good (c : SCfg) : ∀ (kvs : List (Str × Val)) (lvl : Nat) (buf : Str),
    noNoneKvs kvs = true → Good c (serKvs c lvl buf kvs)
  | [], lvl, buf, _ => by intro e h; simp [serKvs] at h
  | (k, v) :: rest, lvl, buf, h => by
      simp only [noNoneKvs, Bool.and_eq_true] at h
      intro e he
      simp only [serKvs, bind, Except.bind] at he
      cases hr : ser c (lvl + 1) v with
      | error e' =>
        rw [hr] at he; cases he
        exact ser_good c v (lvl + 1) h.1 _ hr
      | ok sv =>
        rw [hr] at he
        cases hk : capStr c.capK k with
        | error e' =>
          rw [hk] at he; cases he
          have := capStr_err _ _ _ hk
          exact ⟨this.1, Or.inl this.2⟩
        | ok k' =>
          rw [hk] at he
          exact serKvs_good c rest lvl _ h.2 _ he
end

end N0.Esc
