import N0Verif.Model.Esc
/-! helper lemmas for C17 (`Props/C17.lean`) -/
namespace N0.Esc
open N0 N0.Py

/-! ### `splitAux` -/

theorem consHead_ne_nil (c : Char) (l : List Str) : consHead c l ≠ [] := by
  cases l <;> simp [consHead]

theorem consHead_length (c : Char) (l : List Str) (h : l ≠ []) : (consHead c l).length = l.length := by
  cases l with
  | nil => exact absurd rfl h
  | cons a t => simp [consHead]

theorem splitAux_ne_nil (sep : Str) (lim : Option Nat) (skip : Nat) (s : Str) :
    splitAux sep lim skip s ≠ [] := by
  induction s generalizing lim skip with
  | nil => simp [splitAux]
  | cons c s ih =>
    cases skip with
    | succ k => simp only [splitAux]; exact ih _ _
    | zero =>
      simp only [splitAux]
      split
      · simp
      · exact consHead_ne_nil _ _

theorem splitAux_length_le (sep : Str) (lim : Option Nat) (skip : Nat) (s : Str) :
    (splitAux sep lim skip s).length ≤ s.length + 1 := by
  induction s generalizing lim skip with
  | nil => simp [splitAux]
  | cons c s ih =>
    cases skip with
    | succ k => simp only [splitAux]; have := ih lim k; simp only [List.length_cons]; omega
    | zero =>
      simp only [splitAux]
      split
      · have := ih (decLim lim) (sep.length - 1); simp only [List.length_cons]; omega
      · rw [consHead_length _ _ (splitAux_ne_nil _ _ _ _)]
        have := ih lim 0; simp only [List.length_cons]; omega

theorem splitAux_length_lim (sep : Str) (k skip : Nat) (s : Str) :
    (splitAux sep (some k) skip s).length ≤ k + 1 := by
  induction s generalizing k skip with
  | nil => simp [splitAux]
  | cons c s ih =>
    cases skip with
    | succ j => simp only [splitAux]; exact ih k j
    | zero =>
      simp only [splitAux]
      split
      · rename_i h
        have hk : k ≠ 0 := by
          intro h0; subst h0; simp [canSplit] at h
        have := ih (k - 1) (sep.length - 1)
        simp only [decLim, List.length_cons]; omega
      · rw [consHead_length _ _ (splitAux_ne_nil _ _ _ _)]
        exact ih k 0

theorem mem_consHead {c : Char} {l : List Str} {p : Str} (h : p ∈ consHead c l) :
    p = [c] ∨ (∃ q, q ∈ l ∧ (p = c :: q ∨ p = q)) := by
  cases l with
  | nil => left; simpa [consHead] using h
  | cons a t =>
    simp only [consHead, List.mem_cons] at h
    rcases h with h | h
    · right; exact ⟨a, by simp, Or.inl h⟩
    · right; exact ⟨p, by simp [h], Or.inr rfl⟩

/-- every character of every piece comes from the text -/
theorem splitAux_mem (sep : Str) (lim : Option Nat) (skip : Nat) (s : Str) (p : Str)
    (hp : p ∈ splitAux sep lim skip s) (c : Char) (hc : c ∈ p) : c ∈ s := by
  induction s generalizing lim skip p with
  | nil => simp [splitAux] at hp; subst hp; simp at hc
  | cons x s ih =>
    cases skip with
    | succ k =>
      simp only [splitAux] at hp
      exact List.mem_cons_of_mem _ (ih _ _ _ hp hc)
    | zero =>
      simp only [splitAux] at hp
      split at hp
      · simp only [List.mem_cons] at hp
        rcases hp with hp | hp
        · subst hp; simp at hc
        · exact List.mem_cons_of_mem _ (ih _ _ _ hp hc)
      · rcases mem_consHead hp with h | ⟨q, hq, h | h⟩
        · subst h; simp at hc; subst hc; simp
        · subst h
          simp only [List.mem_cons] at hc
          rcases hc with hc | hc
          · subst hc; simp
          · exact List.mem_cons_of_mem _ (ih _ _ _ hq hc)
        · subst h; exact List.mem_cons_of_mem _ (ih _ _ _ hq hc)

theorem splitMax_length_le (d : Str) (m : Nat) (s : Str) : (splitMax d m s).length ≤ s.length + 1 :=
  splitAux_length_le _ _ _ _

theorem splitMax_length_lim (d : Str) (m : Nat) (s : Str) (hm : m ≠ 0) :
    (splitMax d m s).length ≤ m + 1 := by
  unfold splitMax limOf
  rw [if_neg hm]
  exact splitAux_length_lim _ _ _ _

theorem splitMax_ne_nil (d : Str) (m : Nat) (s : Str) : splitMax d m s ≠ [] :=
  splitAux_ne_nil _ _ _ _

/-! ### runs of escapes -/

theorem run_pos_iff (e : Char) (s : Str) : s.getLast? = some e ↔ 0 < run e s := by
  unfold run
  rw [List.getLast?_eq_head?_reverse]
  cases s.reverse with
  | nil => simp
  | cons c r =>
    by_cases h : c = e
    · subst h; simp [List.takeWhile]
    · have h' : (c == e) = false := by simpa using h
      simp [List.takeWhile, h', h]

theorem run_eq_zero (e : Char) (s : Str) (h : ¬ s.getLast? = some e) : run e s = 0 := by
  have := mt (run_pos_iff e s).2 h
  omega

theorem run_nil (e : Char) : run e [] = 0 := rfl

theorem halve_eq_self (e : Char) (s : Str) (h : run e s / 2 = 0) : halve e s = s := by
  unfold halve
  simp [h]

theorem halveIf_eq_self (tr : Bool) (e : Char) (s : Str) (h : run e s / 2 = 0) : halveIf tr e s = s := by
  unfold halveIf
  split
  · exact halve_eq_self e s h
  · rfl

/-! ### list surgery at a known position -/

theorem set_mid {α} (A : List α) (x y : α) (T : List α) : (A ++ x :: T).set A.length y = A ++ y :: T := by
  induction A with
  | nil => rfl
  | cons a A ih => simp [ih]

theorem get_mid1 {α} (A : List α) (x n : α) (T : List α) : (A ++ x :: n :: T)[A.length + 1]? = some n := by
  induction A with
  | nil => rfl
  | cons a A ih => simp

theorem erase_mid1 {α} (A : List α) (x n : α) (T : List α) :
    (A ++ x :: n :: T).eraseIdx (A.length + 1) = A ++ x :: T := by
  induction A with
  | nil => rfl
  | cons a A ih => simpa using ih

theorem dropLast_drop_mid {α} (A : List α) (L : List α) : ((A ++ L).dropLast).drop A.length = L.dropLast := by
  induction A with
  | nil => simp
  | cons a A ih =>
    cases hAL : A ++ L with
    | nil =>
      have h1 : A = [] := (List.append_eq_nil_iff.1 hAL).1
      have h2 : L = [] := (List.append_eq_nil_iff.1 hAL).2
      subst h1; subst h2; simp
    | cons b t =>
      rw [List.cons_append, hAL, List.dropLast_cons_cons, List.length_cons, List.drop_succ_cons, ← hAL]
      exact ih

/-! ### the loop equals the general reference -/

/-- what `whileLoop` does with the outcome of the `for` -/
def cont (cfg : Cfg) (rec : Str → PyM (List Str)) (fuel : Nat) : PyM ForRes → PyM (List Str)
  | .error e => .error e
  | .ok (.broke it st) => whileLoop cfg rec fuel it st
  | .ok (.exhausted it) => finalTrim cfg it

theorem whileLoop_succ (cfg : Cfg) (rec : Str → PyM (List Str)) (fuel : Nat) (items : List Str) (start : Nat) :
    whileLoop cfg rec (fuel + 1) items start
      = cont cfg rec fuel (forScan cfg rec start (items.dropLast.drop start) 0 items) := by
  rw [whileLoop]
  cases forScan cfg rec start (items.dropLast.drop start) 0 items with
  | error e => rfl
  | ok r => cases r <;> rfl

theorem specG_glue (e : Char) (d : Str) (tr : Bool) (pre p : Str) (rest : List Str) :
    specG e d tr pre (p :: rest) = specG e d tr [] ((pre ++ p) :: rest) := by
  cases rest with
  | nil => simp [specG]
  | cons q rest => simp [specG]

theorem finalTrim_spec (cfg : Cfg) (A : List Str) (z : Str) :
    finalTrim cfg (A ++ [z]) = .ok (A ++ [halveIf cfg.tr cfg.e z]) := by
  unfold finalTrim halveIf
  cases htr : cfg.tr with
  | false => simp
  | true =>
    simp only [if_true, List.getLast?_append, List.getLast?_singleton, Option.some_or]
    by_cases hl : z.getLast? = some cfg.e
    · simp only [hl, if_true]
      by_cases hd : run cfg.e z / 2 = 0
      · simp [hd, halve_eq_self _ _ hd]
      · have : (run cfg.e z / 2 != 0) = true := by simpa using hd
        simp [this, halve, List.dropLast_append_of_ne_nil]
    · simp only [hl, if_false]
      rw [halve_eq_self _ _ (by rw [run_eq_zero _ _ hl])]


theorem scan_spec (cfg : Cfg) (rec : Str → PyM (List Str)) (fuel : Nat)
    (IH : ∀ (A : List Str) (c : Str) (rest : List Str), rest.length < fuel →
        (cfg.m = 0 ∨ (A ++ c :: rest).length ≤ cfg.m + 1) →
        whileLoop cfg rec fuel (A ++ c :: rest) A.length
          = .ok (A ++ specG cfg.e cfg.d cfg.tr [] (c :: rest)))
    (snap : List Str) : ∀ (A : List Str) (z : Str) (start i : Nat), start + i = A.length →
      snap.length ≤ fuel → (cfg.m = 0 ∨ (A ++ (snap ++ [z])).length ≤ cfg.m + 1) →
      cont cfg rec fuel (forScan cfg rec start snap i (A ++ (snap ++ [z])))
        = .ok (A ++ specG cfg.e cfg.d cfg.tr [] (snap ++ [z])) := by
  induction snap with
  | nil =>
    intro A z start i _ _ _
    simp [forScan, cont, finalTrim_spec, specG]
  | cons x snap ih =>
    intro A z start i hk hlen hm
    obtain ⟨nxt, rest', hT⟩ : ∃ nxt rest', snap ++ [z] = nxt :: rest' := by
      cases snap <;> simp
    have hrl : rest'.length = snap.length := by
      have := congrArg List.length hT
      simp at this; omega
    -- the continue step, shared by the two even cases
    have hcont : forall hx : Str, hx = halveIf cfg.tr cfg.e x → run cfg.e x % 2 ≠ 1 →
        cont cfg rec fuel (forScan cfg rec start snap (i + 1) (A ++ hx :: (snap ++ [z])))
          = .ok (A ++ specG cfg.e cfg.d cfg.tr [] (x :: snap ++ [z])) := by
      intro hx hhx hev
      have h1 : A ++ hx :: (snap ++ [z]) = (A ++ [hx]) ++ (snap ++ [z]) := by simp
      rw [h1, ih (A ++ [hx]) z start (i + 1) (by simp; omega) (by simp at hlen; omega)
        (by simpa using hm)]
      simp only [List.cons_append, hT, specG, List.nil_append, if_neg hev, hhx]
      simp
    rw [forScan]
    by_cases hl : x.getLast? = some cfg.e
    · simp only [hl, if_true]
      by_cases hodd : run cfg.e x % 2 = 1
      · -- odd run: glue with the next piece and start again from here
        simp only [hodd, if_true]
        -- whatever the trimming did, position start+i is overwritten
        have hset : ∀ y : Str, ((A ++ y :: nxt :: rest').eraseIdx (start + i + 1)).set (start + i)
            (x.dropLast ++ cfg.d ++ nxt) = A ++ (x.dropLast ++ cfg.d ++ nxt) :: rest' := by
          intro y
          rw [hk, erase_mid1, set_mid]
        have hget : ∀ y : Str, (A ++ y :: nxt :: rest')[start + i + 1]? = some nxt := by
          intro y; rw [hk, get_mid1]
        have hitems1 : ∃ y, (if (cfg.tr && run cfg.e x / 2 != 0) = true then
              (A ++ (x :: snap ++ [z])).set (start + i)
                (List.take (x.length - run cfg.e x / 2 * 2) x ++ List.replicate (run cfg.e x / 2) cfg.e)
            else A ++ (x :: snap ++ [z])) = A ++ y :: nxt :: rest' := by
          split
          · exact ⟨_, by rw [hk]; simp only [List.cons_append, hT]; rw [set_mid]⟩
          · exact ⟨x, by simp only [List.cons_append, hT]⟩
        obtain ⟨y, hy⟩ := hitems1
        simp only [hy, hget, hset]
        have hlast : ∃ l, (A ++ (x.dropLast ++ cfg.d ++ nxt) :: rest').getLast? = some l := by
          cases h : (A ++ (x.dropLast ++ cfg.d ++ nxt) :: rest').getLast? with
          | none => simp at h
          | some l => exact ⟨l, rfl⟩
        obtain ⟨l, hlst⟩ := hlast
        simp only [hlst]
        have hlen2 : cfg.m = 0 ∨ (A ++ (x.dropLast ++ cfg.d ++ nxt) :: rest').length ≤ cfg.m + 1 := by
          rcases hm with hm | hm
          · exact Or.inl hm
          · right
            simp only [List.length_append, List.length_cons, List.length_nil] at hm ⊢
            omega
        have hguard : (cfg.m != 0 && decide (cfg.m + 1 < (A ++ (x.dropLast ++ cfg.d ++ nxt) :: rest').length)) = false := by
          rcases hlen2 with hm | hm
          · simp [hm]
          · have : decide (cfg.m + 1 < (A ++ (x.dropLast ++ cfg.d ++ nxt) :: rest').length) = false := by
              rw [decide_eq_false_iff_not]; omega
            rw [this]; simp
        simp only [hguard, Bool.false_and, if_false, Bool.false_eq_true]
        simp only [cont, hk]
        rw [IH A _ rest' (by rw [hrl]; simp at hlen; omega) hlen2]
        simp only [List.cons_append, hT, specG, List.nil_append, if_pos hodd]
        rw [specG_glue _ _ _ (x.dropLast ++ cfg.d) nxt rest']
      · simp only [hodd, if_false]
        have hx : (if (cfg.tr && run cfg.e x / 2 != 0) = true then
              (A ++ (x :: snap ++ [z])).set (start + i)
                (List.take (x.length - run cfg.e x / 2 * 2) x ++ List.replicate (run cfg.e x / 2) cfg.e)
            else A ++ (x :: snap ++ [z])) = A ++ halveIf cfg.tr cfg.e x :: (snap ++ [z]) := by
          split
          · rename_i h
            simp only [Bool.and_eq_true] at h
            rw [hk]; simp only [List.cons_append]; rw [set_mid]
            simp [halveIf, h.1, halve]
          · rename_i h
            simp only [List.cons_append]
            cases htr : cfg.tr with
            | false => simp [halveIf]
            | true =>
              have : run cfg.e x / 2 = 0 := by simpa [htr] using h
              rw [halveIf_eq_self _ _ _ this]
        rw [hx]
        exact hcont _ rfl hodd
    · simp only [hl, if_false]
      have hr := run_eq_zero _ _ hl
      have := hcont x (by rw [halveIf_eq_self _ _ _ (by rw [hr])]) (by rw [hr]; decide)
      simpa using this


theorem whileLoop_spec (cfg : Cfg) (rec : Str → PyM (List Str)) :
    ∀ (fuel : Nat) (A : List Str) (c : Str) (rest : List Str), rest.length < fuel →
      (cfg.m = 0 ∨ (A ++ c :: rest).length ≤ cfg.m + 1) →
      whileLoop cfg rec fuel (A ++ c :: rest) A.length
        = .ok (A ++ specG cfg.e cfg.d cfg.tr [] (c :: rest)) := by
  intro fuel
  induction fuel with
  | zero => intro A c rest h; exact absurd h (Nat.not_lt_zero _)
  | succ fuel ih =>
    intro A c rest hlen hm
    rw [whileLoop_succ, dropLast_drop_mid]
    have hne : c :: rest ≠ [] := by simp
    have hsplit : c :: rest = (c :: rest).dropLast ++ [(c :: rest).getLast hne] :=
      (List.dropLast_concat_getLast hne).symm
    have h := scan_spec cfg rec fuel ih (c :: rest).dropLast A ((c :: rest).getLast hne) A.length 0 rfl
      (by simp; omega) (by rw [← hsplit]; exact hm)
    rw [← hsplit] at h
    exact h

/-- fuel adequacy and the general reference in one statement: with at least one unit of fuel
per piece the loop ends, and it computes `specG`. -/
theorem splitWithEscapeD_spec (depth fuel : Nat) (s d : Str) (m : Nat) (e : Char) (tr : Bool)
    (hd : d ≠ []) (hf : (splitMax d m s).length ≤ fuel) :
    splitWithEscapeD (depth + 1) fuel s d m (some e) tr = .ok (specG e d tr [] (splitMax d m s)) := by
  rw [splitWithEscapeD, if_neg hd]
  simp only
  cases hs : splitMax d m s with
  | nil => exact absurd hs (splitMax_ne_nil d m s)
  | cons c rest =>
    have hm : m = 0 ∨ ([] ++ c :: rest).length ≤ m + 1 := by
      by_cases h0 : m = 0
      · exact Or.inl h0
      · right; rw [List.nil_append, ← hs]; exact splitMax_length_lim d m s h0
    have hl : rest.length < fuel := by rw [hs] at hf; simp at hf; omega
    have := whileLoop_spec ⟨e, d, tr, m⟩ (fun s' => splitWithEscapeD depth fuel s' d 1 (some e) tr)
      fuel [] c rest hl hm
    simpa using this

end N0.Esc
