import N0Verif.Py.Basic
/-! facts about the decimal rendering of naturals -/
namespace N0.Py

theorem digitChar_isDigit (d : Nat) (h : d < 10) : isAsciiDigit (digitChar d) = true := by
  have : ∀ d : Fin 10, isAsciiDigit (digitChar d.val) = true := by decide
  exact this ⟨d, h⟩

theorem digitVal_digitChar (d : Nat) (h : d < 10) : digitVal (digitChar d) = d := by
  have : ∀ d : Fin 10, digitVal (digitChar d.val) = d.val := by decide
  exact this ⟨d, h⟩

theorem natDigitsAux_ne_nil (f n : Nat) (h : n < f) : natDigitsAux f n ≠ [] := by
  cases f with
  | zero => omega
  | succ f => rw [natDigitsAux]; split <;> simp

theorem natDigits_ne_nil (n : Nat) : natDigits n ≠ [] := natDigitsAux_ne_nil (n + 1) n (by omega)

theorem natDigitsAux_all_digit (f : Nat) : ∀ n, n < f → ∀ c ∈ natDigitsAux f n, isAsciiDigit c = true := by
  induction f with
  | zero => intro n h; omega
  | succ f ih =>
    intro n h
    rw [natDigitsAux]
    split
    · intro c hc; simp at hc; subst hc; exact digitChar_isDigit n (by assumption)
    · intro c hc
      simp only [List.mem_append, List.mem_singleton] at hc
      rcases hc with hc | hc
      · exact ih (n / 10) (by omega) c hc
      · subst hc; exact digitChar_isDigit _ (by omega)

theorem natDigits_all_digit (n : Nat) : ∀ c ∈ natDigits n, isAsciiDigit c = true :=
  natDigitsAux_all_digit (n + 1) n (by omega)

theorem natOfDigits_append (a : Str) (c : Char) :
    natOfDigits (a ++ [c]) = natOfDigits a * 10 + digitVal c := by
  simp [natOfDigits, List.foldl_append]

theorem natOfDigits_natDigitsAux (f : Nat) : ∀ n, n < f → natOfDigits (natDigitsAux f n) = n := by
  induction f with
  | zero => intro n h; omega
  | succ f ih =>
    intro n h
    rw [natDigitsAux]
    split
    · simp [natOfDigits, digitVal_digitChar n (by assumption)]
    · rw [natOfDigits_append, ih (n / 10) (by omega), digitVal_digitChar _ (by omega)]
      omega

theorem natOfDigits_natDigits (n : Nat) : natOfDigits (natDigits n) = n :=
  natOfDigits_natDigitsAux (n + 1) n (by omega)

/-- a digit is none of the characters below (used to see through string tests) -/
theorem digit_ne {c : Char} (h : isAsciiDigit c = true) :
    c ≠ ' ' ∧ c ≠ '+' ∧ c ≠ '-' ∧ c ≠ '_' ∧ c ≠ '.' ∧ c ≠ '[' ∧ c ≠ ']' ∧ c ≠ '/' ∧ c ≠ '=' ∧ c ≠ '~'
      ∧ c ≠ '*' ∧ isPySpace c = false ∧ toLowerAscii c = c ∧ c.toNat < 128 := by
  simp only [isAsciiDigit, Bool.and_eq_true, decide_eq_true_eq] at h
  obtain ⟨h1, h2⟩ := h
  have h1' : 48 ≤ c.toNat := h1
  have h2' : c.toNat ≤ 57 := h2
  have ne : ∀ d : Char, (d.toNat < 48 ∨ 57 < d.toNat) → c ≠ d := by
    intro d hd heq; subst heq; omega
  refine ⟨ne _ (by decide), ne _ (by decide), ne _ (by decide), ne _ (by decide), ne _ (by decide),
    ne _ (by decide), ne _ (by decide), ne _ (by decide), ne _ (by decide), ne _ (by decide), ne _ (by decide), ?_, ?_, by omega⟩
  · simp only [isPySpace]
    have : ¬ (9 ≤ c.toNat ∧ c.toNat ≤ 13) := by omega
    simp; omega
  · unfold toLowerAscii
    have : ¬ ('A' ≤ c ∧ c ≤ 'Z') := by
      intro ⟨_, hz⟩
      have : c.toNat ≤ 90 := hz
      have : 65 ≤ c.toNat := by assumption
      omega
    simp [this]

end N0.Py
