import N0Verif.Proofs.XPathCreate
import N0Verif.Proofs.XPathDelete
/-!
  C03, continued:
  * a creation path whose **first step is a bare `[new()]` / `[len]`** below an existing list
    (the list is the value of a dict key, or an element of an enclosing list);
  * (finding C03-c is fixed: `[new()]` below a list that is an element of a plain `list` appends like below an
    `n0list`; fix C03-b: element-creating steps may follow one another — tokenisation of such paths is here);
  * the general **read-back** through `replace("new()", "last()")` for every creation path of the
    honoured grammar.
-/
namespace N0.XPath
open N0 N0.Py N0.Val

/-! ### small facts -/

theorem pyInt_intStr (i : Int) : pyInt (intStr i) = some i := by
  rcases intStr_cases i with ⟨n, hi, h⟩ | ⟨n, hi, h⟩
  · rw [h, hi, pyInt_digits (natStr_digits n),
      show natOfDigits (natStr n) = n from natOfDigits_natDigits _]
  · rw [h, hi, pyInt_neg_digits (natStr_digits (n + 1)),
      show natOfDigits (natStr (n + 1)) = n + 1 from natOfDigits_natDigits _]

theorem PlainPos.prefix {p r : Pos} (h : PlainPos (p ++ r)) : PlainPos p := by
  induction p with
  | nil => trivial
  | cons s p ih =>
    cases s with
    | key k => exact ⟨h.1, ih h.2⟩
    | idx n => exact ih h

theorem plainPos_idx (i : Nat) : PlainPos [Seg.idx i] := trivial

theorem GOk.headName_of_idx {e : Str} {r : List CStep} (h : GOk (.idx e :: r)) : HeadName r := by
  cases r with
  | nil => trivial
  | cons s2 r' =>
    rcases h.1 with h1 | h1
    · simp [CStep.isName] at h1
    · exact h1

theorem GOk.idx_as_elem {e : Str} {r : List CStep} (n : Str) (h : GOk (.idx e :: r)) : GOk (.elem n e :: r) := by
  cases r with
  | nil => trivial
  | cons s2 r' => exact ⟨by simpa [CStep.isName] using h.1, h.2⟩

theorem GW.idx_as_elem {e : Str} {r : List CStep} (n : Str) (h : GW (.idx e :: r)) : GW (.elem n e :: r) := by
  cases r with
  | nil => trivial
  | cons s2 r' => exact ⟨by simp [CStep.isName], h.2⟩

theorem natStr_ne_new (n : Nat) : natStr n ≠ sNew := (natStr_digits n).ne_new.1

/-- what `createIn` does on a bare index step -/
theorem createIn_idx_inv {c : Cls} {xs : List Val} {e : Str} {r : List CStep} {v cur' : Val}
    (h : createIn (.list c xs) (.idx e :: r) v = some cur') :
    (e = sNew ∨ e = natStr xs.length) ∧ cur' = .list c (xs ++ [fill r v]) := by
  simp only [createIn] at h
  split at h
  · rename_i he; cases h; exact ⟨he, rfl⟩
  · cases h

theorem createIn_idx_list {cur : Val} {e : Str} {r : List CStep} {v cur' : Val}
    (h : createIn cur (.idx e :: r) v = some cur') : ∃ c xs, cur = .list c xs := by
  cases cur <;> simp [createIn] at h
  exact ⟨_, _, rfl⟩

/-! ### the list is the value of a dict key: the text is the one of `name[new()]` / `name[len]` -/

theorem render_idx_under_key (q0 : Pos) (name e : Str) (steps : List CStep) :
    slash ++ renderPos (q0 ++ [Seg.key name]) ++ (CStep.idx e :: steps).flatMap renderCStep
      = slash ++ renderPos q0 ++ (CStep.elem name e :: steps).flatMap renderCStep := by
  simp [renderPos, renderSeg, renderCStep, List.flatMap_cons, List.flatMap_append]

/-! ### the list is an element of a list: tokenisation -/

theorem fixBr_append_rb_lb : ∀ (X Y : Str),
    fixBr (X ++ ']' :: '[' :: Y) = fixBr (X ++ [']']) ++ '/' :: '[' :: fixBr Y
  | [], Y => by
    rw [List.nil_append, fixBr_rb_lb, List.nil_append, fixBr_rb_nil]; rfl
  | [c], Y => by
    by_cases hc : c = ']'
    · subst hc
      rw [show [']'] ++ ']' :: '[' :: Y = ']' :: ']' :: '[' :: Y from rfl, fixBr_rb_other ']' _ (by decide),
        fixBr_rb_lb, show [']'] ++ [']'] = ']' :: [']'] from rfl, fixBr_rb_other ']' _ (by decide), fixBr_rb_nil]
      rfl
    · rw [show [c] ++ ']' :: '[' :: Y = c :: ']' :: '[' :: Y from rfl, fixBr_cons_ne c _ hc, fixBr_rb_lb,
        show [c] ++ [']'] = c :: [']'] from rfl, fixBr_cons_ne c _ hc, fixBr_rb_nil]
      rfl
  | c :: d :: rest, Y => by
    by_cases hc : c = ']'
    · subst hc
      by_cases hd : d = '['
      · subst hd
        rw [show (']' :: '[' :: rest) ++ ']' :: '[' :: Y = ']' :: '[' :: (rest ++ ']' :: '[' :: Y) from rfl, fixBr_rb_lb,
          show (']' :: '[' :: rest) ++ [']'] = ']' :: '[' :: (rest ++ [']']) from rfl, fixBr_rb_lb,
          fixBr_append_rb_lb rest Y]
        rfl
      · have ih := fixBr_append_rb_lb (d :: rest) Y
        rw [List.cons_append, List.cons_append] at ih
        rw [show (']' :: d :: rest) ++ ']' :: '[' :: Y = ']' :: d :: (rest ++ ']' :: '[' :: Y) from rfl,
          fixBr_rb_other d _ hd, show (']' :: d :: rest) ++ [']'] = ']' :: d :: (rest ++ [']']) from rfl,
          fixBr_rb_other d _ hd, ih]
        rfl
    · have ih := fixBr_append_rb_lb (d :: rest) Y
      rw [show (c :: d :: rest) ++ ']' :: '[' :: Y = c :: ((d :: rest) ++ ']' :: '[' :: Y) from rfl,
        fixBr_cons_ne c _ hc, show (c :: d :: rest) ++ [']'] = c :: ((d :: rest) ++ [']']) from rfl,
        fixBr_cons_ne c _ hc, ih]
      rfl

theorem bracket_stripWs' (e : Str) : stripWs (bracket e) = bracket e := by
  apply stripWs_eq_self
  · intro c hc; simp [bracket] at hc; subst hc; decide
  · intro c hc
    have : bracket e = ('[' :: e) ++ [']'] := by simp [bracket]
    rw [this, List.getLast?_append] at hc
    simp at hc; subst hc; decide

/-- a bracketed index directly after a `]` is a token of its own -/
theorem tokenize_append_bracket (A0 e : Str) (he : CleanIdx e) :
    tokenize (A0 ++ [']'] ++ bracket e) = tokenize (A0 ++ [']']) ++ [bracket e] := by
  have hform : A0 ++ [']'] ++ bracket e = A0 ++ ']' :: '[' :: (e ++ [']']) := by simp [bracket]
  have hfe : fixBr (e ++ [']']) = e ++ [']'] := by
    rw [fixBr_append_noRB e _ (fun c hc => (he c hc).1), fixBr_rb_nil]
  have hns : ∀ x ∈ bracket e, x ≠ '/' := by
    intro x hx
    simp only [bracket, List.mem_cons, List.mem_append, List.not_mem_nil, or_false] at hx
    rcases hx with (hx | hx) | hx
    · subst hx; decide
    · exact (he x hx).2
    · subst hx; decide
  unfold tokenize
  rw [hform, fixBr_append_rb_lb, hfe, splitChar_append_sep,
    show '[' :: (e ++ [']']) = bracket e by simp [bracket], splitChar_no_delim '/' _ hns,
    List.filter_append, List.map_append]
  simp [isEmpty_false_of_ne (bracket_ne_nil e), bracket_stripWs']

theorem renderPos_snoc_idx (q0 : Pos) (i : Nat) :
    slash ++ renderPos (q0 ++ [Seg.idx i]) = ('/' :: renderPos q0 ++ '[' :: natStr i) ++ [']'] := by
  simp [renderPos, renderSeg, slash, bracket]

/-- the text ends with `]` -/
def EndsRB (T : Str) : Prop := ∃ A0, T = A0 ++ [']']

theorem endsRB_bracket (A e : Str) : EndsRB (A ++ bracket e) := ⟨A ++ '[' :: e, by simp [bracket]⟩

theorem cleanIdx_of_laterW_idx {e : Str} (he : e = sNew ∨ e = ['0']) : CleanIdx e := cleanIdx_of_new_or_zero he

/-- a text followed by the rendering of later steps of the whole grammar (after fix C03-b): a bare index
step directly follows a `]` and is a token of its own -/
theorem tokenize_then_stepsW : ∀ (steps : List CStep) (T : Str), (∀ x ∈ steps, x.laterW) → GW steps →
    (∀ e r, steps = .idx e :: r → EndsRB T) →
    tokenize (T ++ steps.flatMap renderCStep) = tokenize T ++ steps.map stepTok
  | [], T, _, _, _ => by simp
  | .idx e :: r, T, h, hg, hT => by
    obtain ⟨A0, rfl⟩ := hT e r rfl
    have he : e = sNew ∨ e = ['0'] := h (.idx e) (by simp)
    have ih := tokenize_then_stepsW r (A0 ++ [']'] ++ bracket e) (fun x hx => h x (by simp [hx])) hg.tail
      (fun _ _ _ => endsRB_bracket _ e)
    rw [List.flatMap_cons, show renderCStep (.idx e) = bracket e from rfl, ← List.append_assoc, ih,
      tokenize_append_bracket A0 e (cleanIdx_of_new_or_zero he)]
    simp [stepTok]
  | .name n :: r, T, h, hg, _ => by
    have hs : (CStep.name n).later := h (.name n) (by simp)
    have ih := tokenize_then_stepsW r (stepTok (.name n)) (fun x hx => h x (by simp [hx])) hg.tail
      (by
        rintro e r' rfl
        have := hg.1 rfl
        simp [CStep.isIdx] at this)
    rw [List.flatMap_cons, renderStep_later hs,
      show T ++ ('/' :: stepTok (.name n) ++ r.flatMap renderCStep) = T ++ '/' :: (stepTok (.name n) ++ r.flatMap renderCStep) by simp,
      tokenize_append_slash, ih, tokenize_stepTok hs]
    simp
  | .elem n e :: r, T, h, hg, _ => by
    have hs : (CStep.elem n e).later := h (.elem n e) (by simp)
    have ih := tokenize_then_stepsW r (stepTok (.elem n e)) (fun x hx => h x (by simp [hx])) hg.tail
      (fun _ _ _ => endsRB_bracket n e)
    rw [List.flatMap_cons, renderStep_later hs,
      show T ++ ('/' :: stepTok (.elem n e) ++ r.flatMap renderCStep) = T ++ '/' :: (stepTok (.elem n e) ++ r.flatMap renderCStep) by simp,
      tokenize_append_slash, ih, tokenize_stepTok hs]
    simp

/-- tokens of `//…q…` followed by a first named step and later steps of the whole grammar -/
theorem tokenize_steps_pathW (q : Pos) (hp : PlainPos q) (s : CStep) (steps : List CStep)
    (hs : PlainKey s.nameOf) (hce : ∀ n e, s = .elem n e → CleanIdx e) (hidx : ∀ e, s ≠ .idx e)
    (hsteps : ∀ x ∈ steps, x.laterW) (hg : GW (s :: steps)) :
    tokenize (slash ++ renderPos q ++ (s :: steps).flatMap renderCStep) = mergedToks q ++ stepTok s :: steps.map stepTok := by
  have hT : ∀ e r, steps = .idx e :: r → EndsRB (slash ++ renderPos q ++ renderCStep s) := by
    rintro e r rfl
    cases s with
    | idx e' => exact absurd rfl (hidx e')
    | name n =>
      have := hg.1 rfl
      simp [CStep.isIdx] at this
    | elem n e' => exact ⟨slash ++ renderPos q ++ '/' :: n ++ '[' :: e', by simp [renderCStep, bracket]⟩
  rw [List.flatMap_cons, ← List.append_assoc, tokenize_then_stepsW steps _ hsteps hg.tail hT]
  have h0 := tokenize_steps_path q hp s [] hs hce hidx (by simp)
  simp only [List.flatMap_cons, List.flatMap_nil, List.append_nil, List.map_nil] at h0
  rw [h0]
  simp

/-- tokens of `//…q0…[i][e]/step/step…` -/
theorem tokenize_idx_first_path (q0 : Pos) (i : Nat) (hp : PlainPos (q0 ++ [Seg.idx i])) (e : Str) (he : CleanIdx e)
    (steps : List CStep) (hsteps : ∀ x ∈ steps, x.laterW) (hg : GW steps) :
    tokenize (slash ++ renderPos (q0 ++ [Seg.idx i]) ++ (CStep.idx e :: steps).flatMap renderCStep)
      = mergedToks (q0 ++ [Seg.idx i]) ++ bracket e :: steps.map stepTok := by
  rw [List.flatMap_cons, ← List.append_assoc, show renderCStep (.idx e) = bracket e from rfl,
    tokenize_then_stepsW steps _ hsteps hg (fun _ _ _ => endsRB_bracket _ e)]
  rw [renderPos_snoc_idx, tokenize_append_bracket _ e he, ← renderPos_snoc_idx,
    show slash ++ renderPos (q0 ++ [Seg.idx i]) = '/' :: renderPos (q0 ++ [Seg.idx i]) from rfl,
    tokenize_render _ hp]
  simp

/-- **bare `[new()]` / `[len]` below a list held by a key** — the same call as `name[new()]` /
`name[len]` from the parent dictionary -/
theorem setItem_create_idx_under_key (cls : Cls) (kvs : List (Str × Val)) (q0 : Pos) (name : Str) (kcls : Cls)
    (nkvs : List (Str × Val)) (c : Cls) (xs : List Val) (e : Str) (steps : List CStep) (v t' : Val) (fuel : Nat)
    (hp : PlainPos q0) (hn : PlainKey name) (hq0 : getAt (.dict cls kvs) q0 = some (.dict kcls nkvs))
    (hl : lookup name nkvs = some (.list c xs)) (he : e = sNew ∨ e = natStr xs.length)
    (hsteps : ∀ x ∈ steps, x.laterW) (hg : GW (.idx e :: steps))
    (hset : setAt (.dict cls kvs) (q0 ++ [.key name]) (.list c (xs ++ [fill steps v])) = some t')
    (hf : fuel ≥ 4 * (q0.length + 1)) :
    setItem fuel (.dict cls kvs)
      (slash ++ renderPos (q0 ++ [.key name]) ++ (CStep.idx e :: steps).flatMap renderCStep) v = (t', .ok ()) := by
  rw [render_idx_under_key]
  have hcreate : createIn (.dict kcls nkvs) (.elem name e :: steps) v
      = some (.dict kcls (kvSet name (.list c (xs ++ [fill steps v])) nkvs)) := by
    rcases he with rfl | rfl
    · simp [createIn, hl, appendTo]
    · simp [createIn, hl, natStr_ne_new]
  have hset' : setAt (.dict cls kvs) q0 (.dict kcls (kvSet name (.list c (xs ++ [fill steps v])) nkvs)) = some t' := by
    rw [← setAt_snoc q0 _ (.key name) (.list c (xs ++ [fill steps v])) (.dict kcls nkvs) _ hq0 (by simp [setChild])]
    exact hset
  have hce : CleanIdx e := by
    rcases he with rfl | rfl
    · exact cleanIdx_new
    · exact cleanIdx_nat _
  exact setItem_create_stepsW cls kvs q0 kcls nkvs (.elem name e) steps v _ t' fuel hp hq0 hn
    (by intro e' h; cases h) hsteps (hg.idx_as_elem name)
    (tokenize_steps_pathW q0 hp (.elem name e) steps hn (by intro _ _ h; cases h; exact hce) (by intro e' h; cases h)
      hsteps (hg.idx_as_elem name))
    hcreate hset' hf

/-! ### `_find` on `[new()]` below a list that is a list element -/

/-- `[new()]` below an element of a list: `_find` resolves `found` again and takes the element that
search returns (`cur_value`, fix C03-c) — whatever the class of the enclosing list -/
theorem find_new_step_in_list (fuel : Nat) (root : Val) (entry rl : Bool) (q0 : Pos) (i : Nat) (rest : List Str)
    (c0 : Cls) (ys : List Val) (old : Val)
    (hp : PlainPos q0) (hq0 : getAt root q0 = some (.list c0 ys)) (hi : ys[i]? = some old)
    (hold : isList old = true) (hf : fuel ≥ 2 * (q0.length + 1)) :
    ∃ fnd, findD (fuel + 1) root [] false entry (bracket sNew :: rest) (.at (q0 ++ [.idx i])) rl
        (slash ++ renderPos (q0 ++ [.idx i]))
      = .ok (root, { parent := .at (q0 ++ [.idx i]), nameIdx := Option.none, value := Val.none, found := fnd,
                     notFound := some (bracket sNew :: rest) }) := by
  have hP : getAt root (q0 ++ [Seg.idx i]) = some old := by
    rw [getAt_snoc, hq0]; simp [child, hi]
  have hpp : PlainPos (q0 ++ [Seg.idx i]) := hp.append (plainPos_idx i)
  have hs := spells_merged _ root old hpp hP
  have hlen := mergedToks_length_le (q0 ++ [Seg.idx i])
  obtain ⟨r, hr, hfound⟩ := find_spells root rl hs (mergedToks_ne_nil _ (by simp)) fuel [] slash false rfl
    (by simp at hlen ⊢; omega)
  have htok : tokenize (slash ++ renderPos (q0 ++ [Seg.idx i])) = mergedToks (q0 ++ [Seg.idx i]) :=
    tokenize_render _ hpp
  obtain ⟨_, _, pp, s, pv, ni, hpeq, hpar, hpv, hni, hname⟩ := hfound
  obtain ⟨rfl, hs'⟩ := List.append_inj' hpeq rfl
  simp only [List.cons.injEq, and_true] at hs'
  subst hs'
  simp only [List.nil_append] at hpar hpv
  rw [hq0] at hpv
  cases hpv
  rcases hname.inv with ⟨_, _, k, _, hk, _⟩ | ⟨_, _, n, j, hpveq, hk, hnij, hn⟩
  · cases hk
  · cases hk
    cases hpveq
    subst hnij
    refine ⟨r.found, ?_⟩
    rw [findD]
    simp only [Bool.false_and, Bool.false_eq_true, if_false, valOf_at, hP, split_bracket_new, List.isEmpty_nil,
      Idx.truthy, Bool.not_true, if_true, htok, hr, hpar, hni, hq0]
    have hinner : (List.tail (bracket (intStr j))).dropLast = intStr j := by simp [bracket]
    simp [(by decide : sNew ≠ []), startsWith_bracket, endsWith_bracket, hinner, pyInt_intStr, hn, hi, hold,
      childRef]

/-! ### `__setitem__` with a bare index first step below a list element -/

/-- **bare `[new()]` / `[len]` below a list that is an element of a list** (plain or `n0list`, after
fix C03-c): exactly one element is appended. -/
theorem setItem_create_idx_in_list (cls : Cls) (kvs : List (Str × Val)) (q0 : Pos) (i : Nat) (c0 : Cls) (ys : List Val)
    (c : Cls) (xs : List Val) (e : Str) (steps : List CStep) (v t' : Val) (fuel : Nat)
    (hp : PlainPos q0) (hq0 : getAt (.dict cls kvs) q0 = some (.list c0 ys)) (hi : ys[i]? = some (.list c xs))
    (he : e = sNew ∨ e = natStr xs.length)
    (hsteps : ∀ x ∈ steps, x.laterW) (hg : GW (.idx e :: steps))
    (hset : setAt (.dict cls kvs) (q0 ++ [.idx i]) (.list c (xs ++ [fill steps v])) = some t')
    (hf : fuel ≥ 4 * (q0.length + 2)) :
    setItem fuel (.dict cls kvs)
      (slash ++ renderPos (q0 ++ [.idx i]) ++ (CStep.idx e :: steps).flatMap renderCStep) v = (t', .ok ()) := by
  have hpp : PlainPos (q0 ++ [Seg.idx i]) := hp.append (plainPos_idx i)
  have hP : getAt (.dict cls kvs) (q0 ++ [Seg.idx i]) = some (.list c xs) := by
    rw [getAt_snoc, hq0]; simp [child, hi]
  have hlen := mergedToks_length_le (q0 ++ [Seg.idx i])
  have hqm : startsWith (slash ++ renderPos (q0 ++ [Seg.idx i]) ++ (CStep.idx e :: steps).flatMap renderCStep) ['?'] = false := by
    simp [slash, startsWith]
  have hpc : hasPathChar (slash ++ renderPos (q0 ++ [Seg.idx i]) ++ (CStep.idx e :: steps).flatMap renderCStep) = true := by
    simp [hasPathChar, slash]
  have hce : CleanIdx e := by
    rcases he with rfl | rfl
    · exact cleanIdx_new
    · exact cleanIdx_nat _
  have htok := tokenize_idx_first_path q0 i hpp e hce steps hsteps hg.tail
  obtain ⟨f', e', h1, _, hwalk⟩ := find_walk (.dict cls kvs) true (spellsF_merged _ _ _ hpp hP)
    (bracket e :: steps.map stepTok) (by simp) fuel [] slash true rfl (by simp at hlen ⊢; omega)
  rw [List.nil_append] at hwalk
  obtain ⟨f, rfl⟩ : ∃ f, f' = f + 1 := ⟨f' - 1, by simp at hlen h1; omega⟩
  rcases he with rfl | rfl
  · obtain ⟨fnd, hnew⟩ := find_new_step_in_list f (.dict cls kvs) e' true q0 i (steps.map stepTok) c0 ys (.list c xs)
      hp hq0 hi rfl (by simp at hlen h1; omega)
    rw [hnew] at hwalk
    exact setItem_of_find hqm hpc htok hwalk rfl (by simp)
      (addStores_new_on_list' _ _ c xs steps v t' hP hsteps hg.tail hset)
  · rw [find_idx_miss f _ e' true (q0 ++ [Seg.idx i]) _ _ _ (xs.length : Int) (steps.map stepTok) c xs hP
      (natStr_idxTok xs.length) (Or.inl (Int.le_refl _))] at hwalk
    exact setItem_of_find hqm hpc htok hwalk rfl (by simp)
      (addStores_len_on_list' _ _ c xs steps v t' hP hsteps hg.tail hset)

/-- the position `q` is an element of a plain `list` (before fix C03-c a bare `[new()]` was refused there;
still used by `Hist.ValidOp`) -/
def PlainListEncloses (t : Val) (q : Pos) : Prop :=
  ∃ q0 i ys, q = q0 ++ [Seg.idx i] ∧ getAt t q0 = some (.list .plain ys)

/-- **bare `[new()]` / `[len]` first step**, wherever the target list sits: exactly one element is
appended. -/
theorem setItem_create_idx (cls : Cls) (kvs : List (Str × Val)) (q : Pos) (cur cur' : Val) (e : Str)
    (steps : List CStep) (v t' : Val) (fuel : Nat)
    (hp : PlainPos q) (hget : getAt (.dict cls kvs) q = some cur) (hsteps : ∀ x ∈ steps, x.laterW)
    (hg : GW (.idx e :: steps)) (hcreate : createIn cur (.idx e :: steps) v = some cur')
    (hset : setAt (.dict cls kvs) q cur' = some t') (hf : fuel ≥ 4 * (q.length + 1)) :
    setItem fuel (.dict cls kvs) (slash ++ renderPos q ++ (CStep.idx e :: steps).flatMap renderCStep) v = (t', .ok ()) := by
  obtain ⟨c, xs, rfl⟩ := createIn_idx_list hcreate
  obtain ⟨he, rfl⟩ := createIn_idx_inv hcreate
  have hne : q ≠ [] := by
    rintro rfl
    simp [getAt] at hget
  obtain ⟨q0, last, rfl⟩ : ∃ q0 last, q = q0 ++ [last] :=
    ⟨q.dropLast, q.getLast hne, (List.dropLast_concat_getLast hne).symm⟩
  have hp0 : PlainPos q0 := hp.prefix
  rw [getAt_snoc] at hget
  cases hpv : getAt (.dict cls kvs) q0 with
  | none => simp [hpv] at hget
  | some pv =>
    simp only [hpv, Option.bind] at hget
    cases last with
    | key name =>
      obtain ⟨kcls, nkvs, rfl, hl⟩ := child_key_some hget
      exact setItem_create_idx_under_key cls kvs q0 name kcls nkvs c xs e steps v t' fuel hp0 hp.last_key hpv hl he
        hsteps hg hset (by simp at hf; omega)
    | idx i =>
      obtain ⟨c0, ys, rfl, hi, _⟩ := child_idx_some hget
      exact setItem_create_idx_in_list cls kvs q0 i c0 ys c xs e steps v t' fuel hp0 hpv hi he hsteps hg hset
        (by simp at hf; omega)

theorem createIn_named_dict {cur : Val} {s : CStep} {steps : List CStep} {v cur' : Val}
    (h : createIn cur (s :: steps) v = some cur') (hidx : ∀ e, s ≠ .idx e) : ∃ kcls nkvs, cur = .dict kcls nkvs := by
  cases s with
  | idx e => exact absurd rfl (hidx e)
  | name n =>
    cases cur <;> simp [createIn] at h
    exact ⟨_, _, rfl⟩
  | elem n e =>
    cases cur <;> simp [createIn] at h
    exact ⟨_, _, rfl⟩

/-- **every path of the creation grammar**, whatever the first step: exactly `createIn` -/
theorem setItem_create_any (cls : Cls) (kvs : List (Str × Val)) (q : Pos) (cur cur' : Val) (s : CStep)
    (steps : List CStep) (v t' : Val) (fuel : Nat)
    (hp : PlainPos q) (hget : getAt (.dict cls kvs) q = some cur) (hfirst : s.first)
    (hsteps : ∀ x ∈ steps, x.laterW) (hg : GW (s :: steps))
    (hcreate : createIn cur (s :: steps) v = some cur') (hset : setAt (.dict cls kvs) q cur' = some t')
    (hf : fuel ≥ 4 * (q.length + 1)) :
    setItem fuel (.dict cls kvs) (slash ++ renderPos q ++ (s :: steps).flatMap renderCStep) v = (t', .ok ()) := by
  by_cases hidx : ∀ e, s ≠ .idx e
  · obtain ⟨kcls, nkvs, rfl⟩ := createIn_named_dict hcreate hidx
    have hs : PlainKey s.nameOf := by
      cases s with
      | name n => exact hfirst
      | elem n e => exact hfirst
      | idx e => exact absurd rfl (hidx e)
    exact setItem_create_stepsW cls kvs q kcls nkvs s steps v cur' t' fuel hp hget hs hidx hsteps hg
      (tokenize_steps_pathW q hp s steps hs (fun n e h => by subst h; exact createIn_elem_clean hcreate) hidx hsteps hg)
      hcreate hset hf
  · obtain ⟨e, rfl⟩ : ∃ e, s = .idx e := by
      cases s with
      | idx e => exact ⟨e, rfl⟩
      | name n => exact absurd (by intro e h; cases h) hidx
      | elem n e => exact absurd (by intro e h; cases h) hidx
    exact setItem_create_idx cls kvs q cur cur' e steps v t' fuel hp hget hsteps hg hcreate hset hf

/-! ## read-back through `replace("new()", "last()")` -/

/-! ### `str.replace` as a left-to-right scan -/

/-- `s.replace("new()", "last()")` as a scan (fuel = length + 1 suffices) -/
def replF : Nat → Str → Str
  | 0, s => s
  | _ + 1, [] => []
  | f + 1, c :: s => if startsWith (c :: s) sNew then sLast ++ replF f ((c :: s).drop 5) else c :: replF f s

theorem splitAux_ne_nil (sep : Str) (n : Nat) : ∀ (fuel : Nat) (cur s : Str), splitAux sep n fuel cur s ≠ []
  | 0, _, _ => by simp [splitAux]
  | _ + 1, _, [] => by simp [splitAux]
  | f + 1, cur, c :: s => by
    rw [splitAux]
    split
    · simp
    · exact splitAux_ne_nil sep n f _ _

theorem join_cons_of_ne_nil (sep x : Str) {xs : List Str} (h : xs ≠ []) : join sep (x :: xs) = x ++ sep ++ join sep xs := by
  cases xs with
  | nil => exact absurd rfl h
  | cons y ys => rfl

theorem join_splitAux_new : ∀ (fuel : Nat) (cur s : Str), s.length < fuel →
    join sLast (splitAux sNew 5 fuel cur s) = cur.reverse ++ replF fuel s
  | 0, _, _, h => by omega
  | f + 1, cur, [], _ => by simp [splitAux, join, replF]
  | f + 1, cur, c :: s, h => by
    rw [splitAux, replF]
    by_cases hs : startsWith (c :: s) sNew = true
    · simp only [hs, if_true]
      rw [join_cons_of_ne_nil _ _ (splitAux_ne_nil _ _ _ _ _),
        join_splitAux_new f [] ((c :: s).drop 5) (by simp at h ⊢; omega)]
      simp
    · simp only [hs, Bool.false_eq_true, if_false]
      rw [join_splitAux_new f (c :: cur) s (by simp at h; omega)]
      simp

theorem replF_fuel : ∀ (f1 f2 : Nat) (s : Str), s.length < f1 → s.length < f2 → replF f1 s = replF f2 s
  | 0, _, _, h, _ => by omega
  | _ + 1, 0, _, _, h => by omega
  | f1 + 1, f2 + 1, [], _, _ => by simp [replF]
  | f1 + 1, f2 + 1, c :: s, h1, h2 => by
    rw [replF, replF]
    split
    · rw [replF_fuel f1 f2 ((c :: s).drop 5) (by simp at h1 ⊢; omega) (by simp at h2 ⊢; omega)]
    · rw [replF_fuel f1 f2 s (by simp at h1; omega) (by simp at h2; omega)]

/-- the scan, with the fuel hidden -/
def replNew (s : Str) : Str := replF (s.length + 1) s

theorem replace_new_last (s : Str) : replace sNew sLast s = replNew s := by
  unfold replace split replNew
  rw [show sNew.length = 5 from rfl, join_splitAux_new _ [] s (by omega)]
  rfl

theorem replNew_nil : replNew [] = [] := rfl

theorem replNew_cons_ne (c : Char) (s : Str) (h : startsWith (c :: s) sNew = false) :
    replNew (c :: s) = c :: replNew s := by
  unfold replNew
  rw [replF]
  simp only [h, Bool.false_eq_true, if_false]
  rw [replF_fuel _ (s.length + 1) s (by simp) (by simp)]

theorem replNew_new (b : Str) : replNew (sNew ++ b) = sLast ++ replNew b := by
  unfold replNew
  rw [show sNew ++ b = 'n' :: (['e', 'w', '(', ')'] ++ b) from rfl, replF]
  have : startsWith ('n' :: (['e', 'w', '(', ')'] ++ b)) sNew = true := by simp [startsWith, sNew]
  simp only [this, if_true]
  rw [show ('n' :: (['e', 'w', '(', ')'] ++ b)).drop 5 = b from rfl,
    replF_fuel _ (b.length + 1) b (by simp; omega) (by simp)]

/-- a text no character of which is `(` -/
def NoParen (s : Str) : Prop := ∀ c ∈ s, c ≠ '('

/-- what follows starts a new step (or nothing follows) -/
def SafeStart (b : Str) : Prop := b = [] ∨ ∃ c r, b = c :: r ∧ (c = '/' ∨ c = '[')

theorem startsWith_new_false (a b : Str) (ha : NoParen a) (hne : a ≠ []) (hb : SafeStart b) :
    startsWith (a ++ b) sNew = false := by
  have h3 : ∀ x1 x2 x3 x4 (r : Str), x4 ≠ '(' → startsWith (x1 :: x2 :: x3 :: x4 :: r) sNew = false := by
    intro x1 x2 x3 x4 r h
    simp [startsWith, sNew, h]
  match a, hne, ha with
  | x1 :: x2 :: x3 :: x4 :: a4, _, ha => exact h3 _ _ _ _ _ (ha x4 (by simp))
  | [x1, x2, x3], _, _ =>
    rcases hb with rfl | ⟨c, r, rfl, hc | hc⟩
    · simp [startsWith, sNew]
    · subst hc; exact h3 _ _ _ _ _ (by decide)
    · subst hc; exact h3 _ _ _ _ _ (by decide)
  | [x1, x2], _, _ =>
    rcases hb with rfl | ⟨c, r, rfl, hc | hc⟩
    · simp [startsWith, sNew]
    · subst hc; simp [startsWith, sNew]
    · subst hc; simp [startsWith, sNew]
  | [x1], _, _ =>
    rcases hb with rfl | ⟨c, r, rfl, hc | hc⟩
    · simp [startsWith, sNew]
    · subst hc; simp [startsWith, sNew]
    · subst hc; simp [startsWith, sNew]

/-- a stretch without `(` followed by the start of a step is copied -/
theorem replNew_append (a b : Str) (ha : NoParen a) (hb : SafeStart b) : replNew (a ++ b) = a ++ replNew b := by
  induction a with
  | nil => rfl
  | cons x a ih =>
    rw [List.cons_append, replNew_cons_ne x (a ++ b) (startsWith_new_false (x :: a) b ha (by simp) hb),
      ih (fun c hc => ha c (by simp [hc]))]
    rfl

theorem replNew_noParen (a : Str) (ha : NoParen a) : replNew a = a := by
  have := replNew_append a [] ha (Or.inl rfl)
  simpa [replNew_nil] using this

theorem replNew_bracket_new (b : Str) : replNew (bracket sNew ++ b) = bracket sLast ++ replNew b := by
  rw [show bracket sNew ++ b = '[' :: (sNew ++ ']' :: b) by simp [bracket],
    replNew_cons_ne '[' _ (by simp [startsWith, sNew]), replNew_new,
    replNew_cons_ne ']' _ (by simp [startsWith, sNew])]
  simp [bracket]

/-! ### the path text after the replacement -/

/-- the index text after `replace("new()", "last()")` -/
def lastIdx (e : Str) : Str := if e = sNew then sLast else e

/-- the creation step as it is read back -/
def lastify : CStep → CStep
  | .name n => .name n
  | .elem n e => .elem n (lastIdx e)
  | .idx e => .idx (lastIdx e)

/-- index texts of the grammar: `new()`, or a text without `(` (a number) -/
def IdxOk (e : Str) : Prop := e = sNew ∨ NoParen e

/-- no name of the step contains `(` (otherwise `replace` could rewrite a *name* containing `new()`) -/
def CStep.noParen : CStep → Prop
  | .name n => NoParen n
  | .elem n e => NoParen n ∧ IdxOk e
  | .idx e => IdxOk e

/-- no key on the position contains `(` -/
def NoParenPos : Pos → Prop
  | [] => True
  | .key k :: rest => NoParen k ∧ NoParenPos rest
  | .idx _ :: rest => NoParenPos rest

theorem noParen_natStr (n : Nat) : NoParen (natStr n) := by
  intro c hc h
  subst h
  exact absurd (natDigits_all_digit n _ hc) (by decide)

theorem noParen_bracket {e : Str} (h : NoParen e) : NoParen (bracket e) := by
  intro c hc
  simp only [bracket, List.mem_cons, List.mem_append, List.not_mem_nil, or_false] at hc
  rcases hc with (hc | hc) | hc
  · subst hc; decide
  · exact h c hc
  · subst hc; decide

theorem noParen_renderPos : ∀ (q : Pos), NoParenPos q → NoParen (renderPos q)
  | [], _ => by intro c hc; simp [renderPos] at hc
  | .key k :: rest, h => by
    intro c hc
    simp only [renderPos, List.flatMap_cons, renderSeg, List.mem_append, List.mem_cons] at hc
    rcases hc with (hc | hc) | hc
    · subst hc; decide
    · exact h.1 c hc
    · exact noParen_renderPos rest h.2 c hc
  | .idx n :: rest, h => by
    intro c hc
    simp only [renderPos, List.flatMap_cons, renderSeg, List.mem_append] at hc
    rcases hc with hc | hc
    · exact noParen_bracket (noParen_natStr n) c hc
    · exact noParen_renderPos rest h c hc

theorem safeStart_steps (steps : List CStep) : SafeStart (steps.flatMap renderCStep) := by
  cases steps with
  | nil => exact Or.inl rfl
  | cons s r =>
    cases s with
    | name n => exact Or.inr ⟨'/', n ++ r.flatMap renderCStep, by simp [renderCStep], Or.inl rfl⟩
    | elem n e => exact Or.inr ⟨'/', n ++ bracket e ++ r.flatMap renderCStep, by simp [renderCStep], Or.inl rfl⟩
    | idx e => exact Or.inr ⟨'[', e ++ ']' :: r.flatMap renderCStep, by simp [renderCStep, bracket], Or.inr rfl⟩

theorem replNew_bracket (e b : Str) (he : IdxOk e) (hb : SafeStart b) :
    replNew (bracket e ++ b) = bracket (lastIdx e) ++ replNew b := by
  by_cases h : e = sNew
  · subst h
    simp only [lastIdx, if_true]
    exact replNew_bracket_new b
  · have hn : NoParen e := by
      rcases he with he | he
      · exact absurd he h
      · exact he
    simp only [lastIdx, h, if_false]
    exact replNew_append _ b (noParen_bracket hn) hb

theorem replNew_steps : ∀ (steps : List CStep), (∀ x ∈ steps, x.noParen) →
    replNew (steps.flatMap renderCStep) = (steps.map lastify).flatMap renderCStep
  | [], _ => rfl
  | s :: r, h => by
    have ih := replNew_steps r (fun x hx => h x (by simp [hx]))
    have hs := h s (by simp)
    have hsafe := safeStart_steps r
    cases s with
    | name n =>
      have hn : NoParen ('/' :: n) := by
        intro c hc; simp at hc; rcases hc with rfl | hc
        · decide
        · exact hs c hc
      simp only [List.flatMap_cons, List.map_cons, lastify, renderCStep]
      rw [replNew_append _ _ hn hsafe, ih]
    | elem n e =>
      have hn : NoParen ('/' :: n) := by
        intro c hc; simp at hc; rcases hc with rfl | hc
        · decide
        · exact hs.1 c hc
      simp only [List.flatMap_cons, List.map_cons, lastify, renderCStep]
      rw [show ('/' :: n ++ bracket e) ++ r.flatMap renderCStep = ('/' :: n) ++ (bracket e ++ r.flatMap renderCStep) by simp,
        replNew_append _ _ hn (Or.inr ⟨'[', e ++ ']' :: r.flatMap renderCStep, by simp [bracket], Or.inr rfl⟩), replNew_bracket e _ hs.2 hsafe, ih]
      simp
    | idx e =>
      simp only [List.flatMap_cons, List.map_cons, lastify, renderCStep]
      rw [replNew_bracket e _ hs hsafe, ih]

/-- **the path after `replace("new()", "last()")`**: every `new()` index becomes `last()`, nothing
else changes -/
theorem replace_path (q : Pos) (steps : List CStep) (hq : NoParenPos q) (hsteps : ∀ x ∈ steps, x.noParen) :
    replace sNew sLast (slash ++ renderPos q ++ steps.flatMap renderCStep)
      = slash ++ renderPos q ++ (steps.map lastify).flatMap renderCStep := by
  have hn : NoParen (slash ++ renderPos q) := by
    intro c hc
    simp only [slash, List.mem_append, List.mem_cons, List.not_mem_nil, or_false] at hc
    rcases hc with rfl | hc
    · decide
    · exact noParen_renderPos q hq c hc
  rw [replace_new_last, replNew_append _ _ hn (safeStart_steps steps), replNew_steps steps hsteps]

/-! ### tokens and spelling of the read-back path -/

/-- steps that can be read: names, and `name[e]` with a tokeniser-clean index text -/
def CStep.tokOk : CStep → Prop
  | .name n => PlainKey n
  | .elem n e => PlainKey n ∧ CleanIdx e
  | .idx _ => False

theorem lastIdx_of_later {e : Str} (he : e = sNew ∨ e = ['0']) : lastIdx e = sLast ∨ lastIdx e = natStr 0 := by
  rcases he with rfl | rfl
  · left; simp [lastIdx]
  · right; decide

theorem tokOk_lastify {s : CStep} (h : s.later) : (lastify s).tokOk := by
  cases s with
  | name n => exact h
  | elem n e =>
    refine ⟨h.1, ?_⟩
    rcases lastIdx_of_later h.2 with h' | h'
    · simp only [h']; exact cleanIdx_last
    · simp only [h']; exact cleanIdx_nat 0
  | idx e => exact absurd h (by simp [CStep.later])

theorem renderStep_tokOk {s : CStep} (hs : s.tokOk) : renderCStep s = '/' :: stepTok s := by
  cases s with
  | name n => rfl
  | elem n e => rfl
  | idx e => exact absurd hs (by simp [CStep.tokOk])

theorem tokenize_stepTok' {s : CStep} (hs : s.tokOk) : tokenize (stepTok s) = [stepTok s] := by
  cases s with
  | name n => exact tokenize_key hs
  | elem n e => exact tokenize_keyBracket hs.1 hs.2
  | idx e => exact absurd hs (by simp [CStep.tokOk])

theorem tokenize_then_steps' : ∀ (steps : List CStep) (T : Str), (∀ x ∈ steps, x.tokOk) →
    tokenize (T ++ steps.flatMap renderCStep) = tokenize T ++ steps.map stepTok
  | [], T, _ => by simp
  | s :: r, T, h => by
    have hs := h s (by simp)
    have ih := tokenize_then_steps' r (stepTok s) (fun x hx => h x (by simp [hx]))
    rw [List.flatMap_cons, renderStep_tokOk hs,
      show T ++ ('/' :: stepTok s ++ r.flatMap renderCStep) = T ++ '/' :: (stepTok s ++ r.flatMap renderCStep) by simp,
      tokenize_append_slash, ih, tokenize_stepTok' hs]
    simp

/-- tokens of the read-back path `//…q…/s'/steps'…` -/
theorem tokenize_readback_path (q : Pos) (hp : PlainPos q) (s : CStep) (steps : List CStep)
    (hs : s.tokOk) (hsteps : ∀ x ∈ steps, x.tokOk) :
    tokenize (slash ++ renderPos q ++ (s :: steps).flatMap renderCStep) = mergedToks q ++ stepTok s :: steps.map stepTok := by
  have hname : PlainKey s.nameOf := by
    cases s with
    | name n => exact hs
    | elem n e => exact hs.1
    | idx e => exact absurd hs (by simp [CStep.tokOk])
  have h1 := tokenize_steps_path q hp s [] hname
    (by intro n e h; subst h; exact hs.2) (by intro e h; subst h; exact absurd hs (by simp [CStep.tokOk])) (by simp)
  simp only [List.flatMap_cons, List.flatMap_nil, List.append_nil, List.map_nil] at h1
  rw [List.flatMap_cons, ← List.append_assoc, tokenize_then_steps' steps _ hsteps, h1]
  simp

/-- the position the later steps reach inside what they created -/
def fillPos : List CStep → Pos
  | [] => []
  | .name n :: r => .key n :: fillPos r
  | .elem n _ :: r => .key n :: .idx 0 :: fillPos r
  | .idx _ :: r => .idx 0 :: fillPos r

theorem keyIdxTok_zero {name : Str} (hn : PlainKey name) : KeyIdxTok (name ++ bracket (natStr 0)) name (natStr 0) 0 :=
  keyIdxTok_of hn (natStr_idxExpr 0) (natStr_ne_special 0).1 (natStr_ne_special 0).2 (n0eval_nat 0)

/-- the read-back tokens of later steps walk through what those steps created, down to `v` -/
theorem spells_fill : ∀ (steps : List CStep) (v : Val), (∀ x ∈ steps, x.later) →
    Spells ((steps.map lastify).map stepTok) (fill steps v) (fillPos steps) v
  | [], v, _ => .nil v
  | s :: r, v, h => by
    have ih := spells_fill r v (fun x hx => h x (by simp [hx]))
    have hs := h s (by simp)
    cases s with
    | idx e => exact absurd hs (by simp [CStep.later])
    | name n =>
      simp only [List.map_cons, lastify, stepTok, fill, fillPos]
      exact .key (PlainKey.keyTok hs) (by simp [lookup]) ih
    | elem n e =>
      simp only [List.map_cons, lastify, stepTok, fill, fillPos]
      rcases lastIdx_of_later hs.2 with h' | h'
      · rw [h']
        exact .keyIdx (cls' := .n0) (xs := [fill r v]) (n := 0) (keyIdxTok_last hs.1) (by simp [lookup])
          (show normIdx (-1) 1 = some 0 by decide) (by simp) ih
      · rw [h']
        exact .keyIdx (cls' := .n0) (xs := [fill r v]) (n := 0) (keyIdxTok_zero hs.1) (by simp [lookup])
          (show normIdx 0 1 = some 0 by decide) (by simp) ih

/-- what the first step makes of the dict it is applied to -/
theorem createIn_elem_inv {kcls : Cls} {nkvs : List (Str × Val)} {n e : Str} {r : List CStep} {v cur' : Val}
    (h : createIn (.dict kcls nkvs) (.elem n e :: r) v = some cur') :
    ∃ c ys, cur' = .dict kcls (kvSet n (.list c (ys ++ [fill r v])) nkvs) ∧ (e = sNew ∨ e = natStr ys.length) := by
  simp only [createIn] at h
  split at h
  · split at h
    · rename_i he
      cases h
      refine ⟨.n0, [], rfl, ?_⟩
      rcases he with he | he
      · exact Or.inl he
      · exact Or.inr (by rw [he]; decide)
    · cases h
  · rename_i old _
    split at h
    · cases h
      by_cases hl : isList old = true
      · obtain ⟨c, xs, rfl⟩ := isList_inv hl
        exact ⟨c, xs, rfl, Or.inl ‹_›⟩
      · rw [appendTo_nonlist (by simpa using hl)]
        exact ⟨.n0, [old], rfl, Or.inl ‹_›⟩
    · split at h
      · split at h
        · cases h
          exact ⟨_, _, rfl, Or.inr (by assumption)⟩
        · cases h
      · cases h

theorem createIn_dict (c : Cls) (kvs : List (Str × Val)) (steps : List CStep) (v cur' : Val)
    (h : createIn (.dict c kvs) steps v = some cur') : ∃ kvs', cur' = .dict c kvs' := by
  cases steps with
  | nil => simp [createIn] at h
  | cons s r =>
    cases s with
    | name n =>
      simp only [createIn] at h
      split at h
      · cases h; exact ⟨_, rfl⟩
      · cases h
    | elem n e =>
      obtain ⟨_, _, rfl, _⟩ := createIn_elem_inv h
      exact ⟨_, rfl⟩
    | idx e => simp [createIn] at h

/-- **general read-back.**  After the creation `d[//…q…/s/steps…] = v` of `setItem_create_steps`,
`d[xpath.replace("new()", "last()")]` returns `v` and leaves the tree as it is. -/
theorem getItem_readback_steps (cls : Cls) (kvs : List (Str × Val)) (q : Pos) (kcls : Cls) (nkvs : List (Str × Val))
    (s : CStep) (steps : List CStep) (v cur' t' : Val) (fuel : Nat)
    (hp : PlainPos q) (hget : getAt (.dict cls kvs) q = some (.dict kcls nkvs))
    (hfirst : s.first) (hidx : ∀ e, s ≠ .idx e) (hsteps : ∀ x ∈ steps, x.later)
    (hnq : NoParenPos q) (hnp : ∀ x ∈ s :: steps, NoParen x.nameOf)
    (hcreate : createIn (.dict kcls nkvs) (s :: steps) v = some cur')
    (hset : setAt (.dict cls kvs) q cur' = some t') (hf : fuel ≥ 2 * (q.length + steps.length + 1)) :
    getItem fuel t' (replace sNew sLast (slash ++ renderPos q ++ (s :: steps).flatMap renderCStep)) = (t', .ok v) := by
  -- the root after the creation is a dict
  obtain ⟨kvs', rfl⟩ : ∃ kvs', t' = .dict cls kvs' := by
    cases q with
    | nil =>
      simp only [getAt, Option.some.injEq] at hget
      cases hget
      simp only [setAt, Option.some.injEq] at hset
      subst hset
      exact createIn_dict _ _ _ _ _ hcreate
    | cons s0 q' => exact setAt_dict_root' cls kvs (s0 :: q') cur' _ (by simp) hset
  have hgq : getAt (.dict cls kvs') q = some cur' := getAt_setAt_same q _ _ _ hset (fun _ _ => trivial)
  have hlen := mergedToks_length_le q
  have hs1 := spells_merged q _ _ hp hgq
  have hfill := spells_fill steps v hsteps
  have hstepsTok : ∀ x ∈ steps.map lastify, x.tokOk := by
    intro x hx
    obtain ⟨y, hy, rfl⟩ := List.mem_map.1 hx
    exact tokOk_lastify (hsteps y hy)
  have hstepsNP : ∀ x ∈ steps, x.noParen := by
    intro x hx
    have hl := hsteps x hx
    have hn := hnp x (by simp [hx])
    cases x with
    | name n => exact hn
    | elem n e =>
      refine ⟨hn, ?_⟩
      rcases hl.2 with rfl | rfl
      · exact Or.inl rfl
      · exact Or.inr (by intro c hc h; subst h; simp at hc)
    | idx e => exact absurd hl (by simp [CStep.later])
  have hpc : ∀ (T : Str), hasPathChar (slash ++ T) = true := by intro T; simp [hasPathChar, slash]
  have hqm : ∀ (T : Str), startsWith (slash ++ T) ['?'] = false := by intro T; simp [slash, startsWith]
  cases s with
  | idx e => exact absurd rfl (hidx e)
  | name n =>
    have hn : PlainKey n := hfirst
    simp only [createIn] at hcreate
    split at hcreate
    · cases hcreate
      rw [replace_path q _ hnq (by
        intro x hx; simp only [List.mem_cons] at hx
        rcases hx with rfl | hx
        · exact hnp (.name n) (by simp)
        · exact hstepsNP x hx)]
      simp only [List.map_cons, lastify]
      have htok := tokenize_readback_path q hp (.name n) (steps.map lastify) hn hstepsTok
      have hs2 : Spells (n :: (steps.map lastify).map stepTok) (.dict kcls (kvSet n (fill steps v) nkvs))
          (.key n :: fillPos steps) v := .key hn.keyTok (lookup_kvSet_same _ _ _) hfill
      have hs := hs1.append hs2
      rw [List.append_assoc]
      exact getItem_spelled cls kvs' _ _ _ v fuel (hqm _) (hpc _) (by rw [← List.append_assoc]; exact htok) hs (by simp)
        (by simp; omega)
    · cases hcreate
  | elem n e =>
    have hn : PlainKey n := hfirst
    obtain ⟨c, ys, rfl, he⟩ := createIn_elem_inv hcreate
    -- the index after the replacement denotes the last element
    obtain ⟨i, hki, hni⟩ : ∃ i : Int, KeyIdxTok (n ++ bracket (lastIdx e)) n (lastIdx e) i ∧
        normIdx i (ys ++ [fill steps v]).length = some ys.length := by
      by_cases h : e = sNew
      · subst h
        refine ⟨-1, by simpa [lastIdx] using keyIdxTok_last hn, ?_⟩
        have := normIdx_last (ys ++ [fill steps v]).length (by simp)
        simpa using this
      · have he' : e = natStr ys.length := by
          rcases he with he | he
          · exact absurd he h
          · exact he
        subst he'
        refine ⟨(ys.length : Int), ?_, ?_⟩
        · simp only [lastIdx, h, if_false]
          exact keyIdxTok_of hn (natStr_idxExpr _) (natStr_ne_special _).1 (natStr_ne_special _).2 (n0eval_nat _)
        · exact normIdx_nat (by simp)
    have heOk : IdxOk e := by
      rcases he with he | he
      · exact Or.inl he
      · exact Or.inr (by rw [he]; exact noParen_natStr _)
    have hce : CleanIdx (lastIdx e) := by
      by_cases h : e = sNew
      · simp only [lastIdx, h, if_true]; exact cleanIdx_last
      · simp only [lastIdx, h, if_false]
        rcases he with he | he
        · exact absurd he h
        · rw [he]; exact cleanIdx_nat _
    rw [replace_path q _ hnq (by
      intro x hx; simp only [List.mem_cons] at hx
      rcases hx with rfl | hx
      · exact ⟨hnp (.elem n e) (by simp), heOk⟩
      · exact hstepsNP x hx)]
    simp only [List.map_cons, lastify]
    have htok := tokenize_readback_path q hp (.elem n (lastIdx e)) (steps.map lastify) ⟨hn, hce⟩ hstepsTok
    have hs2 : Spells ((n ++ bracket (lastIdx e)) :: (steps.map lastify).map stepTok)
        (.dict kcls (kvSet n (.list c (ys ++ [fill steps v])) nkvs)) (.key n :: .idx ys.length :: fillPos steps) v :=
      .keyIdx hki (lookup_kvSet_same _ _ _) hni (by simp) hfill
    have hs := hs1.append hs2
    rw [List.append_assoc]
    exact getItem_spelled cls kvs' _ _ _ v fuel (hqm _) (hpc _) (by rw [← List.append_assoc]; exact htok) hs (by simp)
      (by simp; omega)

/-! ### read-back when the first step is a bare `[new()]` / `[len]` -/

theorem NoParenPos.prefix {p r : Pos} (h : NoParenPos (p ++ r)) : NoParenPos p := by
  induction p with
  | nil => trivial
  | cons s p ih =>
    cases s with
    | key k => exact ⟨h.1, ih h.2⟩
    | idx n => exact ih h

theorem NoParenPos.last_key {pp : Pos} {k : Str} (h : NoParenPos (pp ++ [.key k])) : NoParen k := by
  induction pp with
  | nil => exact h.1
  | cons s pp ih =>
    cases s with
    | key k' => exact ih h.2
    | idx n => exact ih h

theorem tokenize_idx_first_path' (q0 : Pos) (i : Nat) (hp : PlainPos (q0 ++ [Seg.idx i])) (e : Str) (he : CleanIdx e)
    (steps : List CStep) (hsteps : ∀ x ∈ steps, x.tokOk) :
    tokenize (slash ++ renderPos (q0 ++ [Seg.idx i]) ++ (CStep.idx e :: steps).flatMap renderCStep)
      = mergedToks (q0 ++ [Seg.idx i]) ++ bracket e :: steps.map stepTok := by
  rw [List.flatMap_cons, ← List.append_assoc, tokenize_then_steps' steps _ hsteps]
  simp only [renderCStep]
  rw [renderPos_snoc_idx, tokenize_append_bracket _ e he, ← renderPos_snoc_idx,
    show slash ++ renderPos (q0 ++ [Seg.idx i]) = '/' :: renderPos (q0 ++ [Seg.idx i]) from rfl,
    tokenize_render _ hp]
  simp

theorem idxTok_last : IdxTok (bracket sLast) sLast (-1) :=
  idxExpr_last.idxTok (by decide) (by decide) n0eval_last

/-- **read-back, bare index first step**: after `d[//…q…[new()]/steps…] = v` (or `[len]`) on the list
at `q`, the value reads back through the path with `new()` replaced by `last()`. -/
theorem getItem_readback_idx (cls : Cls) (kvs : List (Str × Val)) (q : Pos) (cur cur' : Val) (e : Str)
    (steps : List CStep) (v t' : Val) (fuel : Nat)
    (hp : PlainPos q) (hget : getAt (.dict cls kvs) q = some cur) (hsteps : ∀ x ∈ steps, x.later)
    (hnq : NoParenPos q) (hnp : ∀ x ∈ steps, NoParen x.nameOf)
    (hcreate : createIn cur (.idx e :: steps) v = some cur') (hset : setAt (.dict cls kvs) q cur' = some t')
    (hf : fuel ≥ 2 * (q.length + steps.length + 1)) :
    getItem fuel t' (replace sNew sLast (slash ++ renderPos q ++ (CStep.idx e :: steps).flatMap renderCStep))
      = (t', .ok v) := by
  obtain ⟨c, xs, rfl⟩ := createIn_idx_list hcreate
  obtain ⟨he, rfl⟩ := createIn_idx_inv hcreate
  have hne : q ≠ [] := by
    rintro rfl
    simp [getAt] at hget
  obtain ⟨q0, last, rfl⟩ : ∃ q0 last, q = q0 ++ [last] :=
    ⟨q.dropLast, q.getLast hne, (List.dropLast_concat_getLast hne).symm⟩
  have hp0 : PlainPos q0 := hp.prefix
  have hget' := hget
  rw [getAt_snoc] at hget'
  cases hpv : getAt (.dict cls kvs) q0 with
  | none => simp [hpv] at hget'
  | some pv =>
    simp only [hpv, Option.bind] at hget'
    cases last with
    | key name =>
      obtain ⟨kcls, nkvs, rfl, hl⟩ := child_key_some hget'
      rw [render_idx_under_key]
      have hcreate' : createIn (.dict kcls nkvs) (.elem name e :: steps) v
          = some (.dict kcls (kvSet name (.list c (xs ++ [fill steps v])) nkvs)) := by
        rcases he with rfl | rfl
        · simp [createIn, hl, appendTo]
        · simp [createIn, hl, natStr_ne_new]
      have hset' : setAt (.dict cls kvs) q0 (.dict kcls (kvSet name (.list c (xs ++ [fill steps v])) nkvs)) = some t' := by
        rw [← setAt_snoc q0 _ (.key name) (.list c (xs ++ [fill steps v])) (.dict kcls nkvs) _ hpv (by simp [setChild])]
        exact hset
      exact getItem_readback_steps cls kvs q0 kcls nkvs (.elem name e) steps v _ t' fuel hp0 hpv hp.last_key
        (by intro e' h; cases h) hsteps hnq.prefix
        (by
          intro x hx; simp only [List.mem_cons] at hx
          rcases hx with rfl | hx
          · exact hnq.last_key
          · exact hnp x hx)
        hcreate' hset' (by simp at hf ⊢; omega)
    | idx i =>
      obtain ⟨c0, ys, rfl, hi, _⟩ := child_idx_some hget'
      obtain ⟨kvs', rfl⟩ := setAt_dict_root' cls kvs _ _ t' (by simp) hset
      have hgq : getAt (.dict cls kvs') (q0 ++ [Seg.idx i]) = some (.list c (xs ++ [fill steps v])) :=
        getAt_setAt_same _ _ _ _ hset (fun _ _ => trivial)
      have hlen := mergedToks_length_le (q0 ++ [Seg.idx i])
      have hs1 := spells_merged _ _ _ hp hgq
      have hfill := spells_fill steps v hsteps
      have hstepsTok : ∀ x ∈ steps.map lastify, x.tokOk := by
        intro x hx
        obtain ⟨y, hy, rfl⟩ := List.mem_map.1 hx
        exact tokOk_lastify (hsteps y hy)
      have hstepsNP : ∀ x ∈ steps, x.noParen := by
        intro x hx
        have hl := hsteps x hx
        have hn := hnp x hx
        cases x with
        | name n => exact hn
        | elem n e =>
          refine ⟨hn, ?_⟩
          rcases hl.2 with rfl | rfl
          · exact Or.inl rfl
          · exact Or.inr (by intro c hc h; subst h; simp at hc)
        | idx e => exact absurd hl (by simp [CStep.later])
      obtain ⟨j, hkj, hnj⟩ : ∃ j : Int, IdxTok (bracket (lastIdx e)) (lastIdx e) j ∧
          normIdx j (xs ++ [fill steps v]).length = some xs.length := by
        by_cases h : e = sNew
        · subst h
          refine ⟨-1, by simpa [lastIdx] using idxTok_last, ?_⟩
          have := normIdx_last (xs ++ [fill steps v]).length (by simp)
          simpa using this
        · have he' : e = natStr xs.length := by
            rcases he with he | he
            · exact absurd he h
            · exact he
          subst he'
          refine ⟨(xs.length : Int), ?_, normIdx_nat (by simp)⟩
          simp only [lastIdx, h, if_false]
          exact natStr_idxTok _
      have heOk : IdxOk e := by
        rcases he with he | he
        · exact Or.inl he
        · exact Or.inr (by rw [he]; exact noParen_natStr _)
      have hce : CleanIdx (lastIdx e) := by
        by_cases h : e = sNew
        · simp only [lastIdx, h, if_true]; exact cleanIdx_last
        · simp only [lastIdx, h, if_false]
          rcases he with he | he
          · exact absurd he h
          · rw [he]; exact cleanIdx_nat _
      rw [replace_path _ _ hnq (by
        intro x hx; simp only [List.mem_cons] at hx
        rcases hx with rfl | hx
        · exact heOk
        · exact hstepsNP x hx)]
      simp only [List.map_cons, lastify]
      have htok := tokenize_idx_first_path' q0 i hp (lastIdx e) hce (steps.map lastify) hstepsTok
      have hs2 : Spells (bracket (lastIdx e) :: (steps.map lastify).map stepTok)
          (.list c (xs ++ [fill steps v])) (.idx xs.length :: fillPos steps) v :=
        .idx hkj hnj (by simp) hfill
      have hs := hs1.append hs2
      rw [List.append_assoc]
      exact getItem_spelled cls kvs' _ _ _ v fuel (by simp [slash, startsWith]) (by simp [hasPathChar, slash])
        (by rw [← List.append_assoc]; exact htok) hs (by simp) (by simp at hlen hf ⊢; omega)

/-- **read-back, every path of the honoured grammar** (whatever the first step) -/
theorem getItem_readback_any (cls : Cls) (kvs : List (Str × Val)) (q : Pos) (cur cur' : Val) (s : CStep)
    (steps : List CStep) (v t' : Val) (fuel : Nat)
    (hp : PlainPos q) (hget : getAt (.dict cls kvs) q = some cur) (hfirst : s.first)
    (hsteps : ∀ x ∈ steps, x.later) (hnq : NoParenPos q) (hnp : ∀ x ∈ s :: steps, NoParen x.nameOf)
    (hcreate : createIn cur (s :: steps) v = some cur') (hset : setAt (.dict cls kvs) q cur' = some t')
    (hf : fuel ≥ 2 * (q.length + steps.length + 1)) :
    getItem fuel t' (replace sNew sLast (slash ++ renderPos q ++ (s :: steps).flatMap renderCStep)) = (t', .ok v) := by
  by_cases hidx : ∀ e, s ≠ .idx e
  · obtain ⟨kcls, nkvs, rfl⟩ := createIn_named_dict hcreate hidx
    exact getItem_readback_steps cls kvs q kcls nkvs s steps v cur' t' fuel hp hget hfirst hidx hsteps hnq hnp hcreate hset hf
  · obtain ⟨e, rfl⟩ : ∃ e, s = .idx e := by
      cases s with
      | idx e => exact ⟨e, rfl⟩
      | name n => exact absurd (by intro e h; cases h) hidx
      | elem n e => exact absurd (by intro e h; cases h) hidx
    exact getItem_readback_idx cls kvs q cur cur' e steps v t' fuel hp hget hsteps hnq
      (fun x hx => hnp x (by simp [hx])) hcreate hset hf

/-! ## a refused assignment (fix C03-a) -/

/-- the part of `__setitem__` after the search: whatever raises there (`_add`, the final store), the tree
is the one the search left — what `_add` had inserted is taken back -/
theorem setItem_tail_error (root1 : Val) (par0 : PRef) (ni0 : Option Str) (nf : List Str) (v t' : Val) (e : PyErr)
    (h : (if (!nf.isEmpty) = true then
            match add root1 par0 ni0 nf with
            | (_, .error e) => (root1, Except.error e)
            | (root2, .ok (par, ni)) =>
              match storeAt root2 par (some ni) v with
              | .error e => (root1, .error e)
              | .ok root' => (root', .ok ())
          else
            match storeAt root1 par0 ni0 v with
            | .error e => (root1, .error e)
            | .ok root' => (root', .ok ())) = (t', (.error e : PyM Unit))) : t' = root1 := by
  by_cases hne : (!nf.isEmpty) = true
  · rw [if_pos hne] at h
    cases hadd : add root1 par0 ni0 nf with
    | mk root2 res =>
      cases res with
      | error e2 => simp only [hadd] at h; cases h; rfl
      | ok pn =>
        obtain ⟨par, ni⟩ := pn
        simp only [hadd] at h
        cases hst : storeAt root2 par (some ni) v with
        | error e3 => simp only [hst] at h; cases h; rfl
        | ok r' => simp only [hst] at h; cases h
  · rw [if_neg hne] at h
    cases hst : storeAt root1 par0 ni0 v with
    | error e3 => simp only [hst] at h; cases h; rfl
    | ok r' => simp only [hst] at h; cases h

/-- **a raising `__setitem__`, every tree, every path text, every value**: the tree afterwards is the tree
before the call, or the tree the *search* returned (the only thing `_find` ever writes is the conversion of
a single value into a one-element list by a `new()` step) -/
theorem setItem_error_tree (fuel : Nat) (t : Val) (xp : Str) (v t' : Val) (e : PyErr)
    (h : setItem fuel t xp v = (t', .error e)) :
    t' = t ∨ ∃ r, findD fuel t [] false true (tokenize (if startsWith xp ['?'] then xp.drop 1 else xp)) (.at []) true
      slash = .ok (t', r) := by
  cases t with
  | dict c kvs =>
    simp only [setItem] at h
    by_cases hskip : (startsWith xp ['?'] && (decide (v = Val.none) || decide (v = emptyStr))) = true
    · rw [if_pos hskip] at h; cases h
    · rw [if_neg hskip] at h
      generalize (if startsWith xp ['?'] = true then List.drop 1 xp else xp) = xp' at h ⊢
      by_cases hpc : hasPathChar xp' = true
      · rw [if_pos hpc] at h
        cases hfind : findD fuel (.dict c kvs) [] false true (tokenize xp') (.at []) true slash with
        | error e' => simp only [hfind] at h; cases h; left; rfl
        | ok pr =>
          obtain ⟨root1, r⟩ := pr
          simp only [hfind] at h
          right
          refine ⟨r, ?_⟩
          -- the hidden-list part (fix C03-e) raises or hands over another place: the tree is `root1` either way
          cases hhid : hiddenPlace fuel root1 r with
          | error e' => simp only [hhid] at h; cases h; rfl
          | ok r' =>
            simp only [hhid] at h
            rw [setItem_tail_error root1 _ _ _ v t' e h]
      · rw [if_neg hpc] at h; cases h
  | _ => simp only [setItem] at h; cases h; left; rfl

end N0.XPath
