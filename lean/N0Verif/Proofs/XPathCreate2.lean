import N0Verif.Proofs.XPathCreate
import N0Verif.Proofs.XPathDelete
/-!
  C03, continued:
  * a creation path whose **first step is a bare `[new()]` / `[len]`** below an existing list
    (the list is the value of a dict key, or an element of an enclosing list);
  * the general finding C03-c: `[new()]` below a list that is an element of a plain `list` raises;
  * the general **read-back** through `replace("new()", "last()")` for every creation path of the
    honoured grammar.
-/
namespace N0.XPath
open N0 N0.Py N0.Val

/-! ### small facts -/

theorem pyInt_intStr (i : Int) : pyInt (intStr i) = some i := by
  rcases intStr_cases i with ⟨n, hi, h⟩ | ⟨n, hi, h⟩
  · rw [h, hi, pyInt_digits (natStr_digits n),
      show natOfDigits (natStr n) = n from natOfDigits_natDigits _]
  · rw [h, hi, pyInt_neg_digits (natStr_digits (n + 1)),
      show natOfDigits (natStr (n + 1)) = n + 1 from natOfDigits_natDigits _]

theorem PlainPos.prefix {p r : Pos} (h : PlainPos (p ++ r)) : PlainPos p := by
  induction p with
  | nil => trivial
  | cons s p ih =>
    cases s with
    | key k => exact ⟨h.1, ih h.2⟩
    | idx n => exact ih h

theorem plainPos_idx (i : Nat) : PlainPos [Seg.idx i] := trivial

theorem GOk.headName_of_idx {e : Str} {r : List CStep} (h : GOk (.idx e :: r)) : HeadName r := by
  cases r with
  | nil => trivial
  | cons s2 r' =>
    rcases h.1 with h1 | h1
    · simp [CStep.isName] at h1
    · exact h1

theorem GOk.idx_as_elem {e : Str} {r : List CStep} (n : Str) (h : GOk (.idx e :: r)) : GOk (.elem n e :: r) := by
  cases r with
  | nil => trivial
  | cons s2 r' => exact ⟨by simpa [CStep.isName] using h.1, h.2⟩

theorem natStr_ne_new (n : Nat) : natStr n ≠ sNew := (natStr_digits n).ne_new.1

/-- what `createIn` does on a bare index step -/
theorem createIn_idx_inv {c : Cls} {xs : List Val} {e : Str} {r : List CStep} {v cur' : Val}
    (h : createIn (.list c xs) (.idx e :: r) v = some cur') :
    (e = sNew ∨ e = natStr xs.length) ∧ cur' = .list c (xs ++ [fill r v]) := by
  simp only [createIn] at h
  split at h
  · rename_i he; cases h; exact ⟨he, rfl⟩
  · cases h

theorem createIn_idx_list {cur : Val} {e : Str} {r : List CStep} {v cur' : Val}
    (h : createIn cur (.idx e :: r) v = some cur') : ∃ c xs, cur = .list c xs := by
  cases cur <;> simp [createIn] at h
  exact ⟨_, _, rfl⟩

/-! ### the list is the value of a dict key: the text is the one of `name[new()]` / `name[len]` -/

theorem render_idx_under_key (q0 : Pos) (name e : Str) (steps : List CStep) :
    slash ++ renderPos (q0 ++ [Seg.key name]) ++ (CStep.idx e :: steps).flatMap renderCStep
      = slash ++ renderPos q0 ++ (CStep.elem name e :: steps).flatMap renderCStep := by
  simp [renderPos, renderSeg, renderCStep, List.flatMap_cons, List.flatMap_append]

/-- **bare `[new()]` / `[len]` below a list held by a key** — the same call as `name[new()]` /
`name[len]` from the parent dictionary -/
theorem setItem_create_idx_under_key (cls : Cls) (kvs : List (Str × Val)) (q0 : Pos) (name : Str) (kcls : Cls)
    (nkvs : List (Str × Val)) (c : Cls) (xs : List Val) (e : Str) (steps : List CStep) (v t' : Val) (fuel : Nat)
    (hp : PlainPos q0) (hn : PlainKey name) (hq0 : getAt (.dict cls kvs) q0 = some (.dict kcls nkvs))
    (hl : lookup name nkvs = some (.list c xs)) (he : e = sNew ∨ e = natStr xs.length)
    (hsteps : ∀ x ∈ steps, x.later) (hg : GOk (.idx e :: steps))
    (hset : setAt (.dict cls kvs) (q0 ++ [.key name]) (.list c (xs ++ [fill steps v])) = some t')
    (hf : fuel ≥ 4 * (q0.length + 1)) :
    setItem fuel (.dict cls kvs)
      (slash ++ renderPos (q0 ++ [.key name]) ++ (CStep.idx e :: steps).flatMap renderCStep) v = (t', .ok ()) := by
  rw [render_idx_under_key]
  have hcreate : createIn (.dict kcls nkvs) (.elem name e :: steps) v
      = some (.dict kcls (kvSet name (.list c (xs ++ [fill steps v])) nkvs)) := by
    rcases he with rfl | rfl
    · simp [createIn, hl, appendTo]
    · simp [createIn, hl, natStr_ne_new]
  have hset' : setAt (.dict cls kvs) q0 (.dict kcls (kvSet name (.list c (xs ++ [fill steps v])) nkvs)) = some t' := by
    rw [← setAt_snoc q0 _ (.key name) (.list c (xs ++ [fill steps v])) (.dict kcls nkvs) _ hq0 (by simp [setChild])]
    exact hset
  exact setItem_create_steps cls kvs q0 kcls nkvs (.elem name e) steps v _ t' fuel hp hq0 hn
    (by intro e' h; cases h) hsteps (hg.idx_as_elem name) hcreate hset' hf

/-! ### the list is an element of a list: tokenisation -/

theorem fixBr_append_rb_lb : ∀ (X Y : Str),
    fixBr (X ++ ']' :: '[' :: Y) = fixBr (X ++ [']']) ++ '/' :: '[' :: fixBr Y
  | [], Y => by
    rw [List.nil_append, fixBr_rb_lb, List.nil_append, fixBr_rb_nil]; rfl
  | [c], Y => by
    by_cases hc : c = ']'
    · subst hc
      rw [show [']'] ++ ']' :: '[' :: Y = ']' :: ']' :: '[' :: Y from rfl, fixBr_rb_other ']' _ (by decide),
        fixBr_rb_lb, show [']'] ++ [']'] = ']' :: [']'] from rfl, fixBr_rb_other ']' _ (by decide), fixBr_rb_nil]
      rfl
    · rw [show [c] ++ ']' :: '[' :: Y = c :: ']' :: '[' :: Y from rfl, fixBr_cons_ne c _ hc, fixBr_rb_lb,
        show [c] ++ [']'] = c :: [']'] from rfl, fixBr_cons_ne c _ hc, fixBr_rb_nil]
      rfl
  | c :: d :: rest, Y => by
    by_cases hc : c = ']'
    · subst hc
      by_cases hd : d = '['
      · subst hd
        rw [show (']' :: '[' :: rest) ++ ']' :: '[' :: Y = ']' :: '[' :: (rest ++ ']' :: '[' :: Y) from rfl, fixBr_rb_lb,
          show (']' :: '[' :: rest) ++ [']'] = ']' :: '[' :: (rest ++ [']']) from rfl, fixBr_rb_lb,
          fixBr_append_rb_lb rest Y]
        rfl
      · have ih := fixBr_append_rb_lb (d :: rest) Y
        rw [List.cons_append, List.cons_append] at ih
        rw [show (']' :: d :: rest) ++ ']' :: '[' :: Y = ']' :: d :: (rest ++ ']' :: '[' :: Y) from rfl,
          fixBr_rb_other d _ hd, show (']' :: d :: rest) ++ [']'] = ']' :: d :: (rest ++ [']']) from rfl,
          fixBr_rb_other d _ hd, ih]
        rfl
    · have ih := fixBr_append_rb_lb (d :: rest) Y
      rw [show (c :: d :: rest) ++ ']' :: '[' :: Y = c :: ((d :: rest) ++ ']' :: '[' :: Y) from rfl,
        fixBr_cons_ne c _ hc, show (c :: d :: rest) ++ [']'] = c :: ((d :: rest) ++ [']']) from rfl,
        fixBr_cons_ne c _ hc, ih]
      rfl

theorem bracket_stripWs' (e : Str) : stripWs (bracket e) = bracket e := by
  apply stripWs_eq_self
  · intro c hc; simp [bracket] at hc; subst hc; decide
  · intro c hc
    have : bracket e = ('[' :: e) ++ [']'] := by simp [bracket]
    rw [this, List.getLast?_append] at hc
    simp at hc; subst hc; decide

/-- a bracketed index directly after a `]` is a token of its own -/
theorem tokenize_append_bracket (A0 e : Str) (he : CleanIdx e) :
    tokenize (A0 ++ [']'] ++ bracket e) = tokenize (A0 ++ [']']) ++ [bracket e] := by
  have hform : A0 ++ [']'] ++ bracket e = A0 ++ ']' :: '[' :: (e ++ [']']) := by simp [bracket]
  have hfe : fixBr (e ++ [']']) = e ++ [']'] := by
    rw [fixBr_append_noRB e _ (fun c hc => (he c hc).1), fixBr_rb_nil]
  have hns : ∀ x ∈ bracket e, x ≠ '/' := by
    intro x hx
    simp only [bracket, List.mem_cons, List.mem_append, List.not_mem_nil, or_false] at hx
    rcases hx with (hx | hx) | hx
    · subst hx; decide
    · exact (he x hx).2
    · subst hx; decide
  unfold tokenize
  rw [hform, fixBr_append_rb_lb, hfe, splitChar_append_sep,
    show '[' :: (e ++ [']']) = bracket e by simp [bracket], splitChar_no_delim '/' _ hns,
    List.filter_append, List.map_append]
  simp [isEmpty_false_of_ne (bracket_ne_nil e), bracket_stripWs']

theorem renderPos_snoc_idx (q0 : Pos) (i : Nat) :
    slash ++ renderPos (q0 ++ [Seg.idx i]) = ('/' :: renderPos q0 ++ '[' :: natStr i) ++ [']'] := by
  simp [renderPos, renderSeg, slash, bracket]

/-- tokens of `//…q0…[i][e]/step/step…` -/
theorem tokenize_idx_first_path (q0 : Pos) (i : Nat) (hp : PlainPos (q0 ++ [Seg.idx i])) (e : Str) (he : CleanIdx e)
    (steps : List CStep) (hsteps : ∀ x ∈ steps, x.later) :
    tokenize (slash ++ renderPos (q0 ++ [Seg.idx i]) ++ (CStep.idx e :: steps).flatMap renderCStep)
      = mergedToks (q0 ++ [Seg.idx i]) ++ bracket e :: steps.map stepTok := by
  rw [List.flatMap_cons, ← List.append_assoc, tokenize_then_steps steps _ hsteps]
  simp only [renderCStep]
  rw [renderPos_snoc_idx, tokenize_append_bracket _ e he, ← renderPos_snoc_idx,
    show slash ++ renderPos (q0 ++ [Seg.idx i]) = '/' :: renderPos (q0 ++ [Seg.idx i]) from rfl,
    tokenize_render _ hp]
  simp

/-! ### `_find` on `[new()]` below a list that is a list element -/

/-- `[new()]` below an element of a list: `_find` resolves `found` again and reads the element
through its parent as `parent["[i]"]` — an xpath lookup on an `n0list`, a `TypeError` on a plain
`list` -/
theorem find_new_step_in_list (fuel : Nat) (root : Val) (entry rl : Bool) (q0 : Pos) (i : Nat) (rest : List Str)
    (c0 : Cls) (ys : List Val) (old : Val)
    (hp : PlainPos q0) (hq0 : getAt root q0 = some (.list c0 ys)) (hi : ys[i]? = some old)
    (hold : isList old = true) (hf : fuel ≥ 2 * (q0.length + 1)) :
    ∃ fnd, findD (fuel + 1) root [] false entry (bracket sNew :: rest) (.at (q0 ++ [.idx i])) rl
        (slash ++ renderPos (q0 ++ [.idx i]))
      = match c0 with
        | .n0 => .ok (root, { parent := .at (q0 ++ [.idx i]), nameIdx := Option.none, value := Val.none, found := fnd,
                              notFound := some (bracket sNew :: rest) })
        | .plain => .error .TypeError := by
  have hP : getAt root (q0 ++ [Seg.idx i]) = some old := by
    rw [getAt_snoc, hq0]; simp [child, hi]
  have hpp : PlainPos (q0 ++ [Seg.idx i]) := hp.append (plainPos_idx i)
  have hs := spells_merged _ root old hpp hP
  have hlen := mergedToks_length_le (q0 ++ [Seg.idx i])
  obtain ⟨r, hr, hfound⟩ := find_spells root rl hs (mergedToks_ne_nil _ (by simp)) fuel [] slash false rfl
    (by simp at hlen ⊢; omega)
  have htok : tokenize (slash ++ renderPos (q0 ++ [Seg.idx i])) = mergedToks (q0 ++ [Seg.idx i]) :=
    tokenize_render _ hpp
  obtain ⟨_, _, pp, s, pv, ni, hpeq, hpar, hpv, hni, hname⟩ := hfound
  obtain ⟨rfl, hs'⟩ := List.append_inj' hpeq rfl
  simp only [List.cons.injEq, and_true] at hs'
  subst hs'
  simp only [List.nil_append] at hpar hpv
  rw [hq0] at hpv
  cases hpv
  rcases hname.inv with ⟨_, _, k, _, hk, _⟩ | ⟨_, _, n, j, hpveq, hk, hnij, hn⟩
  · cases hk
  · cases hk
    cases hpveq
    subst hnij
    refine ⟨r.found, ?_⟩
    rw [findD]
    simp only [Bool.false_and, Bool.false_eq_true, if_false, valOf_at, hP, split_bracket_new, List.isEmpty_nil,
      Idx.truthy, Bool.not_true, if_true, htok, hr, hpar, hni, hq0]
    cases c0 with
    | plain => simp [(by decide : sNew ≠ [])]
    | n0 =>
      have hinner : (List.tail (bracket (intStr j))).dropLast = intStr j := by simp [bracket]
      simp [(by decide : sNew ≠ []), startsWith_bracket, endsWith_bracket, hinner, pyInt_intStr, hn, hi, hold,
        childRef]

/-! ### `__setitem__` with a bare index first step below a list element -/

/-- **bare `[new()]` / `[len]` below a list that is an element of a list**: exactly one element is
appended.  `[new()]` needs the enclosing list to be an `n0list`; `[len]` works below any list. -/
theorem setItem_create_idx_in_list (cls : Cls) (kvs : List (Str × Val)) (q0 : Pos) (i : Nat) (c0 : Cls) (ys : List Val)
    (c : Cls) (xs : List Val) (e : Str) (steps : List CStep) (v t' : Val) (fuel : Nat)
    (hp : PlainPos q0) (hq0 : getAt (.dict cls kvs) q0 = some (.list c0 ys)) (hi : ys[i]? = some (.list c xs))
    (he : e = sNew ∨ e = natStr xs.length) (hn0 : e = sNew → c0 = .n0)
    (hsteps : ∀ x ∈ steps, x.later) (hg : GOk (.idx e :: steps))
    (hset : setAt (.dict cls kvs) (q0 ++ [.idx i]) (.list c (xs ++ [fill steps v])) = some t')
    (hf : fuel ≥ 4 * (q0.length + 2)) :
    setItem fuel (.dict cls kvs)
      (slash ++ renderPos (q0 ++ [.idx i]) ++ (CStep.idx e :: steps).flatMap renderCStep) v = (t', .ok ()) := by
  have hpp : PlainPos (q0 ++ [Seg.idx i]) := hp.append (plainPos_idx i)
  have hP : getAt (.dict cls kvs) (q0 ++ [Seg.idx i]) = some (.list c xs) := by
    rw [getAt_snoc, hq0]; simp [child, hi]
  have hlen := mergedToks_length_le (q0 ++ [Seg.idx i])
  have hqm : startsWith (slash ++ renderPos (q0 ++ [Seg.idx i]) ++ (CStep.idx e :: steps).flatMap renderCStep) ['?'] = false := by
    simp [slash, startsWith]
  have hpc : hasPathChar (slash ++ renderPos (q0 ++ [Seg.idx i]) ++ (CStep.idx e :: steps).flatMap renderCStep) = true := by
    simp [hasPathChar, slash]
  have hh := hg.headName_of_idx
  have hce : CleanIdx e := by
    rcases he with rfl | rfl
    · exact cleanIdx_new
    · exact cleanIdx_nat _
  have htok := tokenize_idx_first_path q0 i hpp e hce steps hsteps
  obtain ⟨f', e', h1, _, hwalk⟩ := find_walk (.dict cls kvs) true (spellsF_merged _ _ _ hpp hP)
    (bracket e :: steps.map stepTok) (by simp) fuel [] slash true rfl (by simp at hlen ⊢; omega)
  rw [List.nil_append] at hwalk
  obtain ⟨f, rfl⟩ : ∃ f, f' = f + 1 := ⟨f' - 1, by simp at hlen h1; omega⟩
  rcases he with rfl | rfl
  · obtain ⟨fnd, hnew⟩ := find_new_step_in_list f (.dict cls kvs) e' true q0 i (steps.map stepTok) c0 ys (.list c xs)
      hp hq0 hi rfl (by simp at hlen h1; omega)
    rw [hn0 rfl] at hnew
    rw [hnew] at hwalk
    exact setItem_of_find hqm hpc htok hwalk rfl (by simp)
      (addStores_new_on_list' _ _ c xs steps v t' hP hsteps hg.tail hh hset)
  · rw [find_idx_miss f _ e' true (q0 ++ [Seg.idx i]) _ _ _ (xs.length : Int) (steps.map stepTok) c xs hP
      (natStr_idxTok xs.length) (Or.inl (Int.le_refl _))] at hwalk
    exact setItem_of_find hqm hpc htok hwalk rfl (by simp)
      (addStores_len_on_list' _ _ c xs steps v t' hP hsteps hg.tail hh hset)

/-- **finding C03-c, in general.**  `[new()]` (followed by any later steps) directly below a list
that is an element of a **plain** `list` raises `TypeError` and leaves the tree as it was — whatever
the tree, the depth and the rest of the path. -/
theorem setItem_new_in_plain_list_raises (cls : Cls) (kvs : List (Str × Val)) (q0 : Pos) (i : Nat) (ys : List Val)
    (c : Cls) (xs : List Val) (steps : List CStep) (v : Val) (fuel : Nat)
    (hp : PlainPos q0) (hq0 : getAt (.dict cls kvs) q0 = some (.list .plain ys)) (hi : ys[i]? = some (.list c xs))
    (hsteps : ∀ x ∈ steps, x.later) (hf : fuel ≥ 4 * (q0.length + 2)) :
    setItem fuel (.dict cls kvs)
      (slash ++ renderPos (q0 ++ [.idx i]) ++ (CStep.idx sNew :: steps).flatMap renderCStep) v
        = (.dict cls kvs, .error .TypeError) := by
  have hpp : PlainPos (q0 ++ [Seg.idx i]) := hp.append (plainPos_idx i)
  have hP : getAt (.dict cls kvs) (q0 ++ [Seg.idx i]) = some (.list c xs) := by
    rw [getAt_snoc, hq0]; simp [child, hi]
  have hlen := mergedToks_length_le (q0 ++ [Seg.idx i])
  have hqm : startsWith (slash ++ renderPos (q0 ++ [Seg.idx i]) ++ (CStep.idx sNew :: steps).flatMap renderCStep) ['?'] = false := by
    simp [slash, startsWith]
  have hpc : hasPathChar (slash ++ renderPos (q0 ++ [Seg.idx i]) ++ (CStep.idx sNew :: steps).flatMap renderCStep) = true := by
    simp [hasPathChar, slash]
  have htok := tokenize_idx_first_path q0 i hpp sNew cleanIdx_new steps hsteps
  obtain ⟨f', e', h1, _, hwalk⟩ := find_walk (.dict cls kvs) true (spellsF_merged _ _ _ hpp hP)
    (bracket sNew :: steps.map stepTok) (by simp) fuel [] slash true rfl (by simp at hlen ⊢; omega)
  rw [List.nil_append] at hwalk
  obtain ⟨f, rfl⟩ : ∃ f, f' = f + 1 := ⟨f' - 1, by simp at hlen h1; omega⟩
  obtain ⟨fnd, hnew⟩ := find_new_step_in_list f (.dict cls kvs) e' true q0 i (steps.map stepTok) .plain ys (.list c xs)
    hp hq0 hi rfl (by simp at hlen h1; omega)
  rw [hnew] at hwalk
  unfold setItem
  simp only [hqm, Bool.false_and, Bool.false_eq_true, if_false, hpc, if_true, htok, hwalk]

/-- the position `q` is an element of a plain `list` -/
def PlainListEncloses (t : Val) (q : Pos) : Prop :=
  ∃ q0 i ys, q = q0 ++ [Seg.idx i] ∧ getAt t q0 = some (.list .plain ys)

/-- **bare `[new()]` / `[len]` first step**, wherever the target list sits: exactly one element is
appended, provided no plain `list` directly encloses the target list when the step is `[new()]`. -/
theorem setItem_create_idx (cls : Cls) (kvs : List (Str × Val)) (q : Pos) (cur cur' : Val) (e : Str)
    (steps : List CStep) (v t' : Val) (fuel : Nat)
    (hp : PlainPos q) (hget : getAt (.dict cls kvs) q = some cur) (hsteps : ∀ x ∈ steps, x.later)
    (hg : GOk (.idx e :: steps)) (hcreate : createIn cur (.idx e :: steps) v = some cur')
    (hset : setAt (.dict cls kvs) q cur' = some t')
    (hencl : e = sNew → ¬ PlainListEncloses (.dict cls kvs) q) (hf : fuel ≥ 4 * (q.length + 1)) :
    setItem fuel (.dict cls kvs) (slash ++ renderPos q ++ (CStep.idx e :: steps).flatMap renderCStep) v = (t', .ok ()) := by
  obtain ⟨c, xs, rfl⟩ := createIn_idx_list hcreate
  obtain ⟨he, rfl⟩ := createIn_idx_inv hcreate
  have hne : q ≠ [] := by
    rintro rfl
    simp [getAt] at hget
  obtain ⟨q0, last, rfl⟩ : ∃ q0 last, q = q0 ++ [last] :=
    ⟨q.dropLast, q.getLast hne, (List.dropLast_concat_getLast hne).symm⟩
  have hp0 : PlainPos q0 := hp.prefix
  rw [getAt_snoc] at hget
  cases hpv : getAt (.dict cls kvs) q0 with
  | none => simp [hpv] at hget
  | some pv =>
    simp only [hpv, Option.bind] at hget
    cases last with
    | key name =>
      obtain ⟨kcls, nkvs, rfl, hl⟩ := child_key_some hget
      exact setItem_create_idx_under_key cls kvs q0 name kcls nkvs c xs e steps v t' fuel hp0 hp.last_key hpv hl he
        hsteps hg hset (by simp at hf; omega)
    | idx i =>
      obtain ⟨c0, ys, rfl, hi, _⟩ := child_idx_some hget
      refine setItem_create_idx_in_list cls kvs q0 i c0 ys c xs e steps v t' fuel hp0 hpv hi he ?_ hsteps hg hset
        (by simp at hf; omega)
      intro hnew
      cases c0 with
      | n0 => rfl
      | plain => exact absurd ⟨q0, i, ys, rfl, hpv⟩ (hencl hnew)

theorem createIn_named_dict {cur : Val} {s : CStep} {steps : List CStep} {v cur' : Val}
    (h : createIn cur (s :: steps) v = some cur') (hidx : ∀ e, s ≠ .idx e) : ∃ kcls nkvs, cur = .dict kcls nkvs := by
  cases s with
  | idx e => exact absurd rfl (hidx e)
  | name n =>
    cases cur <;> simp [createIn] at h
    exact ⟨_, _, rfl⟩
  | elem n e =>
    cases cur <;> simp [createIn] at h
    exact ⟨_, _, rfl⟩

/-- **every path of the honoured grammar**, whatever the first step: exactly `createIn` -/
theorem setItem_create_any (cls : Cls) (kvs : List (Str × Val)) (q : Pos) (cur cur' : Val) (s : CStep)
    (steps : List CStep) (v t' : Val) (fuel : Nat)
    (hp : PlainPos q) (hget : getAt (.dict cls kvs) q = some cur) (hfirst : s.first)
    (hsteps : ∀ x ∈ steps, x.later) (hg : GOk (s :: steps))
    (hcreate : createIn cur (s :: steps) v = some cur') (hset : setAt (.dict cls kvs) q cur' = some t')
    (hencl : s = .idx sNew → ¬ PlainListEncloses (.dict cls kvs) q)
    (hf : fuel ≥ 4 * (q.length + 1)) :
    setItem fuel (.dict cls kvs) (slash ++ renderPos q ++ (s :: steps).flatMap renderCStep) v = (t', .ok ()) := by
  by_cases hidx : ∀ e, s ≠ .idx e
  · obtain ⟨kcls, nkvs, rfl⟩ := createIn_named_dict hcreate hidx
    have hs : PlainKey s.nameOf := by
      cases s with
      | name n => exact hfirst
      | elem n e => exact hfirst
      | idx e => exact absurd rfl (hidx e)
    exact setItem_create_steps cls kvs q kcls nkvs s steps v cur' t' fuel hp hget hs hidx hsteps hg hcreate hset hf
  · obtain ⟨e, rfl⟩ : ∃ e, s = .idx e := by
      cases s with
      | idx e => exact ⟨e, rfl⟩
      | name n => exact absurd (by intro e h; cases h) hidx
      | elem n e => exact absurd (by intro e h; cases h) hidx
    exact setItem_create_idx cls kvs q cur cur' e steps v t' fuel hp hget hsteps hg hcreate hset
      (fun h => hencl (by rw [h])) hf

end N0.XPath
