import N0Verif.Model.XPathApi
/-!
  C04: a dict key that is literally `*` makes a `*` step of a lookup recurse for ever
  (`[next_node_name] + xpath_list` re-inserts the wildcard): the model runs out of fuel for
  every fuel; the implementation raises RecursionError, which `_get` does not funnel.
-/
namespace N0.XPath
open N0 N0.Py N0.Val

def starTree : Val := .dict .n0 [(['*'], .int 1)]

/-- the token lists `*`, `*/*`, `*/*/*` … followed by `x` -/
def starToks (n : Nat) : List Str := List.replicate (n + 1) ['*'] ++ [['x']]

theorem splitNameIndex_star : splitNameIndex ['*'] = .ok (['*'], .none) := by decide

theorem star_diverges : ∀ fuel : Nat,
    (∀ n entry rl, findD fuel starTree [] false entry (starToks n) (.at []) rl slash = .error .OutOfFuel) ∧
    (∀ n rl acc fst, starKeys fuel starTree [] false [['*']] (starToks n) (.at []) rl slash acc fst = .error .OutOfFuel) := by
  intro fuel
  induction fuel with
  | zero =>
    constructor
    · intro n entry rl; rw [findD]
    · intro n rl acc fst; rw [starKeys]
  | succ fuel ih =>
    constructor
    · intro n entry rl
      have h := ih.2 n rl [] Option.none
      have e : starToks n = ['*'] :: (List.replicate n ['*'] ++ [['x']]) := by
        simp [starToks, List.replicate_succ]
      rw [e] at h ⊢
      rw [findD]
      simp only [Bool.false_and, Bool.false_eq_true, if_false, valOf, starTree, getAt, splitNameIndex_star]
      simp only [starTree] at h
      simpa [isList, isDict, dictKeys, Idx.truthy] using h
    · intro n rl acc fst
      have h := ih.1 (n + 1) false rl
      have e : starToks (n + 1) = ['*'] :: starToks n := by
        simp [starToks, List.replicate_succ]
      rw [e] at h
      simp only [starKeys, h]

end N0.XPath
