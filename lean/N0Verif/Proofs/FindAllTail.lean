import N0Verif.Proofs.FindAllDesc
/-!
  The descendant wildcard with a two-step tail, `'//*/name/sub'` (dict roots).

  The induction of `Proofs/FindAllDesc.lean` (`FadPV`/`FadPK`/`FadPL`, written for the token list
  `['*', name]`) is redone for `['*', name, sub]`: the `*` step's check of the node itself is now
  `name/sub` (`fat_self_check`), which — since fix C19-d — answers `None` when the entry `name` is a
  final element, so the search goes on with the children.  The nodes to be found are derived from
  `descV name` (`tailOf`): below every node called `name` that is a dictionary, its entry `sub`.
  Hypothesis `NnlV name t`: no entry called `name` is a list (below a list `sub` fans out).
-/
namespace N0.FindAll
open N0 N0.Py N0.Val N0.XPath

/-- what `sub` finds below one node `pv` called `name` -/
def tl1 (sub : Str) (pv : Pos × Val) : List (Pos × Val) :=
  match pv.2 with
  | .dict _ kvs =>
    (match lookup sub kvs with
      | some x => [(pv.1 ++ [Seg.key sub], x)]
      | Option.none => [])
  | _ => []

/-- the nodes `'//*/name/sub'` must find, from the nodes called `name` (document order) -/
def tailOf (sub : Str) (l : List (Pos × Val)) : List (Pos × Val) := l.flatMap (tl1 sub)

theorem tailOf_append (sub : Str) (a b : List (Pos × Val)) :
    tailOf sub (a ++ b) = tailOf sub a ++ tailOf sub b := by simp [tailOf]

theorem tailOf_map_cons (sub : Str) (s : Seg) (l : List (Pos × Val)) :
    tailOf sub (l.map (fun pv => (s :: pv.1, pv.2))) = (tailOf sub l).map (fun pv => (s :: pv.1, pv.2)) := by
  induction l with
  | nil => rfl
  | cons a r ih =>
    have h1 : tl1 sub (s :: a.1, a.2) = (tl1 sub a).map (fun pv => (s :: pv.1, pv.2)) := by
      obtain ⟨p, w⟩ := a
      cases w <;> simp only [tl1, List.map_nil]
      next c kvs => cases lookup sub kvs <;> simp
    simp only [tailOf, List.map_cons, List.flatMap_cons, List.map_append] at ih ⊢
    rw [h1, ih]

theorem mem_tl1 {sub : Str} {b y : Pos × Val} (h : y ∈ tl1 sub b) :
    y.1 = b.1 ++ [Seg.key sub] ∧ ∃ c kvs, b.2 = .dict c kvs ∧ lookup sub kvs = some y.2 := by
  obtain ⟨p, w⟩ := b
  cases w <;> simp only [tl1, List.not_mem_nil] at h
  next c kvs =>
    cases hl : lookup sub kvs with
    | none => rw [hl] at h; cases h
    | some x =>
      rw [hl] at h
      simp only [List.mem_singleton] at h
      subst h
      exact ⟨rfl, c, kvs, rfl, hl⟩

mutual
/-- no entry called `name` is a list -/
def NnlV (name : Str) : Val → Prop
  | .dict _ kvs => (∀ c xs, lookup name kvs ≠ some (.list c xs)) ∧ NnlK name kvs
  | .list _ xs => NnlL name xs
  | _ => True
def NnlK (name : Str) : List (Str × Val) → Prop
  | [] => True
  | (_, c) :: kvs => NnlV name c ∧ NnlK name kvs
def NnlL (name : Str) : List Val → Prop
  | [] => True
  | x :: xs => NnlV name x ∧ NnlL name xs
end

/-- the tokens of `'//*/name/sub'` -/
def fatT (name sub : Str) : List Str := [['*'], name, sub]

/-- the answer of `_findall(node, [name, sub], …)` on a dictionary whose entry `name` is `c'` -/
def fatSelf (sub : Str) (fl : FL) (name : Str) : Option Val → Option Found
  | some (.dict _ kvs') =>
    (match lookup sub kvs' with
      | some x => some [(keyOf (fl ++ [name] ++ [sub]), x)]
      | Option.none => Option.none)
  | _ => Option.none

/-- `_findall(node, [name, sub], …)` on a dictionary: the `*` step's check of the node itself.
An entry `name` that is a final element is a miss (fix C19-d). -/
theorem fat_self_check (re : Bool) {name sub : Str} (hn : PlainKey name) (hs : PlainKey sub) (f : Nat) (c : Cls)
    (kvs : List (Str × Val)) (fl : FL) (ps : PS) (hnl : ∀ c xs, lookup name kvs ≠ some (.list c xs)) :
    fa re (f + 3) (.dict c kvs) [name, sub] fl ps = ⟨.ok (fatSelf sub fl name (lookup name kvs)), fl, ps⟩ := by
  have hke : name.isEmpty = false := by
    cases name with
    | nil => exact absurd rfl hn.ne
    | cons _ _ => rfl
  have hks : name ≠ ['*'] := hn.keyTok.notStar
  have hse : sub.isEmpty = false := by
    cases sub with
    | nil => exact absurd rfl hs.ne
    | cons _ _ => rfl
  have hss : sub ≠ ['*'] := hs.keyTok.notStar
  rw [fa, step]
  simp only [classify_plain hn, stepName, hke, Bool.false_eq_true, if_false, hks]
  cases hl : lookup name kvs with
  | none => rfl
  | some c' =>
    simp only
    cases c' with
    | dict c2 kvs' =>
      rw [fad_self_check re hs f c2 kvs' (fl ++ [name]) _]
      rfl
    | list c2 xs => exact absurd hl (hnl c2 xs)
    | _ => simp [fa, step, classify_plain hs, stepName, fatSelf]

section tail
variable (re : Bool) (name sub : Str)

def FatPV (v : Val) : Prop :=
  isContainer v = true → KeysOkV v → ContOkV v → NnlV name v → ∃ N, ∀ fuel ≥ N, ∀ (q : Pos) (ps : PS),
    Rooted q → PlainPos q → ((∃ c xs, v = .list c xs) → q ≠ []) →
    ((fadMapR q (tailOf sub (descV name v))).map Prod.fst).Nodup →
    (fa re fuel v (fatT name sub) (flPath [] q) ps).res = .ok (some (fadMapR q (tailOf sub (descV name v))))

def FatPK (kvs : List (Str × Val)) : Prop :=
  KeysOkK kvs → ContOkK kvs → NnlK name kvs → ∃ N, ∀ fuel ≥ N, ∀ (q : Pos) (ps : PS) (acc : Found),
    Rooted q → PlainPos q →
    ((acc ++ fadMapR q (tailOf sub (descK name kvs))).map Prod.fst).Nodup →
    keysLoop (fun k c => fa re fuel c (fatT name sub) (flPath [] q ++ [k]) ps) kvs acc =
      .ok (some (acc ++ fadMapR q (tailOf sub (descK name kvs))))

def FatPL (xs : List Val) : Prop :=
  KeysOkL xs → ContOkL xs → NnlL name xs → ∃ N, ∀ fuel ≥ N, ∀ (q : Pos) (ps : PS) (node : Val) (i : Nat) (cur : FL) (acc : Found),
    Rooted q → q ≠ [] → PlainPos q → cur.dropLast = (flPath [] q).dropLast →
    ((acc ++ fadMapR q (tailOf sub (descL name i xs))).map Prod.fst).Nodup →
    (starLoop (fun x cur1 => fa re fuel x (fatT name sub) cur1 (push ps cur1 node)) re
      ((flPath [] q).getLast?.getD []) i xs cur acc).1 = .ok (some (acc ++ fadMapR q (tailOf sub (descL name i xs))))

theorem fat_desc_dict (hn : PlainKey name) (hs : PlainKey sub) (c : Cls) (kvs : List (Str × Val))
    (hk : FatPK re name sub kvs) : FatPV re name sub (.dict c kvs) := by
  intro _ hko hco hnl
  simp only [KeysOkV, ContOkV, NnlV] at hko hco hnl
  obtain ⟨N, hN⟩ := hk hko hco hnl.2
  refine ⟨N + 4, fun fuel hf q ps hr hp _ hnd => ?_⟩
  obtain ⟨f, rfl⟩ : ∃ f, fuel = f + 4 := ⟨fuel - 4, by omega⟩
  have h1 := fat_self_check re hn hs f c kvs (flPath [] q) ps hnl.1
  have h2 := fad_star_dict re (f + 3) c kvs [name, sub] (flPath [] q) ps _ h1
  show (fa re (f + 3 + 1) (.dict c kvs) (['*'] :: [name, sub]) (flPath [] q) ps).res = _
  rw [h2]
  simp only
  have hpn : PlainPos (q ++ [Seg.key name] ++ [Seg.key sub]) :=
    fad_plainPos_append (fad_plainPos_append hp ⟨hn, trivial⟩) ⟨hs, trivial⟩
  have hkey : keyOf (flPath [] q ++ [name] ++ [sub]) = slash ++ renderPos (q ++ [Seg.key name] ++ [Seg.key sub]) := by
    rw [← fad_flPath_snoc_key, ← fad_flPath_snoc_key]
    exact fad_keyOf_rooted (fad_rooted_snoc (fad_rooted_snoc hr _ (fun _ => ⟨name, rfl⟩)) _ (fun h => by simp at h))
      (by simp) hpn
  simp only [descV, tailOf_append, fadMapR_append] at hnd ⊢
  have hacc : upd [] (fatSelf sub (flPath [] q) name (lookup name kvs)) =
      fadMapR q (tailOf sub (match lookup name kvs with
        | some c => [([Seg.key name], c)]
        | Option.none => [])) := by
    cases lookup name kvs with
    | none => rfl
    | some c' =>
      cases c' with
      | dict c2 kvs' =>
        simp only [fatSelf, tailOf, List.flatMap_cons, List.flatMap_nil, List.append_nil, tl1]
        cases lookup sub kvs' with
        | none => rfl
        | some x =>
          have hkey' : keyOf (flPath [] q ++ [name, sub]) = slash ++ renderPos (q ++ [Seg.key name, Seg.key sub]) := by
            simpa using hkey
          simp only [fadMapR, List.map_cons, List.map_nil, upd, List.foldl_cons, List.foldl_nil, kvSet,
            List.append_assoc, List.cons_append, List.nil_append, hkey']
      | _ => rfl
  rw [hacc]
  exact hN (f + 3) (by omega) q _ _ hr hp hnd

theorem fat_desc_list (c : Cls) (xs : List Val) (hl : FatPL re name sub xs) : FatPV re name sub (.list c xs) := by
  intro _ hko hco hnl
  simp only [KeysOkV, ContOkV, NnlV] at hko hco hnl
  obtain ⟨N, hN⟩ := hl hko hco hnl
  refine ⟨N + 2, fun fuel hf q ps hr hp hq hnd => ?_⟩
  obtain ⟨f, rfl⟩ : ∃ f, fuel = f + 2 := ⟨fuel - 2, by omega⟩
  have hq' : q ≠ [] := hq ⟨c, xs, rfl⟩
  show (fa re (f + 2) (.list c xs) (['*'] :: [name, sub]) (flPath [] q) ps).res = _
  rw [fad_star_list re f c xs [name, sub] (flPath [] q) ps (fad_flPath_rooted_ne hr hq')]
  simp only [descV] at hnd ⊢
  have := hN f (by omega) q ps (.list c xs) 0 (flPath [] q) [] hr hq' hp rfl (by simpa using hnd)
  simpa [fatT] using this

theorem fat_desc_kcons (k : Str) (c : Val) (kvs : List (Str × Val)) (hv : FatPV re name sub c)
    (hk : FatPK re name sub kvs) : FatPK re name sub ((k, c) :: kvs) := by
  intro hko hco hnl
  simp only [KeysOkK, ContOkK, NnlK] at hko hco hnl
  obtain ⟨hpk, _, hkc, hkk⟩ := hko
  obtain ⟨N2, hN2⟩ := hk hkk hco.2 hnl.2
  by_cases hc : isContainer c = true
  · obtain ⟨N1, hN1⟩ := hv hc hkc hco.1 hnl.1
    refine ⟨max N1 N2, fun fuel hf q ps acc hr hp hnd => ?_⟩
    have hf1 : fuel ≥ N1 := by omega
    have hf2 : fuel ≥ N2 := by omega
    simp only [descK, tailOf_append, tailOf_map_cons, fadMapR_append] at hnd ⊢
    rw [← fadMapR_snoc] at hnd ⊢
    obtain ⟨hd1, hd2, hd3⟩ := fad_nodup_split hnd
    have hcall := hN1 fuel hf1 (q ++ [Seg.key k]) ps (fad_rooted_snoc hr _ (fun _ => ⟨k, rfl⟩))
      (fad_plainPos_append hp ⟨hpk, trivial⟩) (fun _ => by simp) hd1
    rw [fad_flPath_snoc_key] at hcall
    simp only [keysLoop, hc, if_true, hcall]
    rw [fad_upd_append _ _ hd2, hN2 fuel hf2 q ps _ hr hp hd3, List.append_assoc]
  · have hc' : isContainer c = false := by simpa using hc
    refine ⟨N2, fun fuel hf q ps acc hr hp hnd => ?_⟩
    simp only [descK, fad_descV_scalar name c hc', List.map_nil, List.nil_append] at hnd ⊢
    simp only [keysLoop, hc', Bool.false_eq_true, if_false]
    exact hN2 fuel hf q ps acc hr hp hnd

theorem fat_desc_lcons (x : Val) (xs : List Val) (hv : FatPV re name sub x) (hl : FatPL re name sub xs) :
    FatPL re name sub (x :: xs) := by
  intro hko hco hnl
  simp only [KeysOkL, ContOkL, NnlL] at hko hco hnl
  obtain ⟨hcx, hcv, hcl⟩ := hco
  obtain ⟨N1, hN1⟩ := hv hcx hko.1 hcv hnl.1
  obtain ⟨N2, hN2⟩ := hl hko.2 hcl hnl.2
  refine ⟨max N1 N2, fun fuel hf q ps node i cur acc hr hq hp hcur hnd => ?_⟩
  have hf1 : fuel ≥ N1 := by omega
  have hf2 : fuel ≥ N2 := by omega
  simp only [descL, tailOf_append, tailOf_map_cons, fadMapR_append] at hnd ⊢
  rw [← fadMapR_snoc] at hnd ⊢
  obtain ⟨hd1, hd2, hd3⟩ := fad_nodup_split hnd
  have hfl := fad_flPath_rooted_ne hr hq
  have hcur1 : setLast cur ((flPath [] q).getLast?.getD [] ++ bracket (natRepr i)) = flPath [] (q ++ [Seg.idx i]) := by
    rw [fad_flPath_snoc_idx]
    have he : (flPath [] q).isEmpty = false := by
      cases hh : flPath [] q with
      | nil => exact absurd hh hfl
      | cons _ _ => rfl
    simp only [bump, he, Bool.false_eq_true, if_false, setLast, hcur]
  have hcall := hN1 fuel hf1 (q ++ [Seg.idx i]) (push ps (flPath [] (q ++ [Seg.idx i])) node)
    (fad_rooted_snoc hr _ (fun h => absurd h hq))
    (fad_plainPos_append hp (by trivial)) (fun _ => by simp) hd1
  simp only [starLoop, hcx, if_true, hcur1, hcall]
  rw [fad_upd_append _ _ hd2]
  have hdl : (fa re fuel x (fatT name sub) (flPath [] (q ++ [Seg.idx i])) (push ps (flPath [] (q ++ [Seg.idx i])) node)).fl.dropLast
      = (flPath [] q).dropLast := by
    rw [fa_dl, ← hcur1, setLast_dropLast, hcur]
  rw [hN2 fuel hf2 q ps node (i + 1) _ _ hr hq hp hdl hd3, List.append_assoc]

theorem fat_desc_all (hn : PlainKey name) (hs : PlainKey sub) :
    (∀ v, FatPV re name sub v) ∧ (∀ kvs, FatPK re name sub kvs) ∧ (∀ xs, FatPL re name sub xs) := by
  refine fad_val_ind (fun c kvs h => fat_desc_dict re name sub hn hs c kvs h)
    (fun c xs h => fat_desc_list re name sub c xs h)
    (fun v hv hc => by rw [hv] at hc; cases hc) ?_ (fun k c kvs h1 h2 => fat_desc_kcons re name sub k c kvs h1 h2) ?_
    (fun x xs h1 h2 => fat_desc_lcons re name sub x xs h1 h2)
  · intro _ _ _
    exact ⟨0, fun fuel _ q ps acc _ _ _ => by simp [keysLoop, descK, fadMapR, tailOf]⟩
  · intro _ _ _
    exact ⟨0, fun fuel _ q ps node i cur acc _ _ _ _ _ => by simp [starLoop, descL, fadMapR, tailOf]⟩

end tail

/-! ## top level -/

theorem fat_tokens {name sub : Str} (hn : PlainKey name) (hs : PlainKey sub) :
    tokens (['/', '/', '*', '/'] ++ name ++ ['/'] ++ sub) = fatT name sub := by
  obtain ⟨c, r, rfl, hc1, hc2⟩ := PlainKey.head_ne hn
  obtain ⟨d, t, rfl, hd1, hd2⟩ := PlainKey.head_ne hs
  have hnorm : normExpr (['/', '/', '*', '/'] ++ (c :: r) ++ ['/'] ++ (d :: t)) = '*' :: '/' :: ((c :: r) ++ '/' :: d :: t) := by
    simp [normExpr, startsWith]
  have hins : insLB ('*' :: '/' :: ((c :: r) ++ '/' :: d :: t)) = '*' :: '/' :: ((c :: r) ++ '/' :: d :: t) :=
    insLB_id _ (by
      intro x hx
      simp only [List.mem_cons, List.mem_append] at hx
      rcases hx with rfl | rfl | hx | rfl | hx
      · decide
      · decide
      · exact PlainKey.noLB hn x (by simpa using hx)
      · decide
      · exact PlainKey.noLB hs x (by simpa using hx))
  have hrep : replSS ('*' :: '/' :: ((c :: r) ++ '/' :: d :: t)) = '*' :: '/' :: ((c :: r) ++ '/' :: d :: t) := by
    rw [replSS_cons_ne '*' _ (by decide)]
    have h1 : replSS ('/' :: ((c :: r) ++ '/' :: d :: t)) = '/' :: replSS ((c :: r) ++ '/' :: d :: t) :=
      replSS_slash_ne c _ hc1
    have h2 := replSS_append_noSlash (c :: r) ('/' :: d :: t) hn.noSlash
    have h3 := replSS_slash_ne d t hd1
    have h4 := replSS_append_noSlash (d :: t) [] hs.noSlash
    simp only [List.append_nil, replSS] at h4
    rw [h1, h2, h3, h4]
  have hsplit : splitChar '/' ('*' :: '/' :: ((c :: r) ++ '/' :: d :: t)) = [['*'], c :: r, d :: t] := by
    have e1 := splitChar_append '/' ['*'] ((c :: r) ++ '/' :: d :: t) (by intro x hx; simp at hx; subst hx; decide)
    have e2 := splitChar_append '/' (c :: r) (d :: t) hn.noSlash
    simp only [List.cons_append, List.nil_append] at e1 e2 ⊢
    rw [e1, e2, splitChar_no_delim '/' (d :: t) hs.noSlash]
  unfold tokens
  rw [hnorm, hins, hrep, hsplit]
  rfl

/-- the positions of `tailOf` are distinct when those of the list are -/
theorem fat_tail_distinct (sub : Str) : ∀ (l : List (Pos × Val)), FadDistinct l → FadDistinct (tailOf sub l) := by
  intro l
  induction l with
  | nil => intro _; exact List.Pairwise.nil
  | cons a r ih =>
    intro h
    obtain ⟨ha, hr⟩ := List.pairwise_cons.1 h
    have hone : FadDistinct (tl1 sub a) := by
      obtain ⟨p, w⟩ := a
      cases w <;> simp only [tl1] <;> try exact List.Pairwise.nil
      next c kvs => cases lookup sub kvs <;> simp
    show FadDistinct (tl1 sub a ++ tailOf sub r)
    refine List.pairwise_append.2 ⟨hone, ih hr, ?_⟩
    intro x hx y hy
    obtain ⟨b, hb, hyb⟩ := List.mem_flatMap.1 hy
    rw [(mem_tl1 hx).1, (mem_tl1 hyb).1]
    intro e
    exact ha b hb (List.append_cancel_right e)

theorem fat_tail_plain {sub : Str} (hs : PlainKey sub) (l : List (Pos × Val)) (hp : ∀ pv ∈ l, PlainPos pv.1) :
    ∀ pv ∈ tailOf sub l, PlainPos pv.1 := by
  intro pv hpv
  obtain ⟨b, hb, hm⟩ := List.mem_flatMap.1 hpv
  rw [(mem_tl1 hm).1]
  exact fad_plainPos_append (hp b hb) ⟨hs, trivial⟩

/-- **`'//*/name/sub'` on a dict root**: exactly the entries `sub` of the dictionaries called `name`
(`tailOf sub (descV name root)`), canonical xpaths, document order -/
theorem fat_descendant (re : Bool) {name sub : Str} (hn : PlainKey name) (hs : PlainKey sub) (c : Cls)
    (kvs : List (Str × Val)) (hko : KeysOkV (.dict c kvs)) (hco : ContOkV (.dict c kvs))
    (hnl : NnlV name (.dict c kvs)) :
    ∃ N, ∀ fuel ≥ N, (fa re fuel (.dict c kvs) (fatT name sub) [] []).res =
      .ok (some ((tailOf sub (descV name (.dict c kvs))).map (fun pv => (slash ++ renderPos pv.1, pv.2)))) := by
  obtain ⟨N, hN⟩ := (fat_desc_all re name sub hn hs).1 (.dict c kvs) rfl hko hco hnl
  refine ⟨N, fun fuel hf => ?_⟩
  have := hN fuel hf [] [] trivial trivial (fun h => by obtain ⟨_, _, h⟩ := h; cases h)
    (fad_keys_nodup _ (fat_tail_distinct sub _ ((fad_desc_distinct name).1 _ hko).1)
      (fat_tail_plain hs _ (fad_desc_plain hko)))
  simpa [fadMapR, flPath] using this

/-- `tailOf sub (descV name t)` lists a pair `(p, v)` iff `p` ends with the keys `name`, `sub`, the
node called `name` there is a dictionary and `v` is the node at `p` -/
theorem fat_tail_mem (name sub : Str) (t : Val) (hk : KeysOkV t) (p : Pos) (v : Val) :
    (p, v) ∈ tailOf sub (descV name t) ↔
      ∃ q, p = q ++ [Seg.key name, Seg.key sub] ∧
        ∃ c kvs, getAt t (q ++ [Seg.key name]) = some (.dict c kvs) ∧ lookup sub kvs = some v := by
  constructor
  · intro h
    obtain ⟨b, hb, hm⟩ := List.mem_flatMap.1 h
    obtain ⟨hp, c, kvs, hb2, hl⟩ := mem_tl1 hm
    obtain ⟨⟨q, hq⟩, hg⟩ := ((fad_desc_mem name).1 t hk b.1 b.2).1 hb
    refine ⟨q, ?_, c, kvs, ?_, hl⟩
    · show p = _
      have : p = b.1 ++ [Seg.key sub] := hp
      rw [this, hq]; simp
    · rw [← hq, hg, hb2]
  · rintro ⟨q, rfl, c, kvs, hg, hl⟩
    refine List.mem_flatMap.2 ⟨(q ++ [Seg.key name], .dict c kvs), ?_, ?_⟩
    · exact ((fad_desc_mem name).1 t hk _ _).2 ⟨⟨q, rfl⟩, hg⟩
    · simp [tl1, hl]

/-- the node at `q ++ [name, sub]`: the entry `sub` of the dictionary at `q ++ [name]` -/
theorem fat_getAt_tail (t : Val) (q : Pos) (name sub : Str) (v : Val) :
    getAt t (q ++ [Seg.key name, Seg.key sub]) = some v ↔
      ∃ c kvs, getAt t (q ++ [Seg.key name]) = some (.dict c kvs) ∧ lookup sub kvs = some v := by
  have e : q ++ [Seg.key name, Seg.key sub] = (q ++ [Seg.key name]) ++ [Seg.key sub] := by simp
  rw [e, getAt_snoc]
  cases hg : getAt t (q ++ [Seg.key name]) with
  | none => simp
  | some w =>
    cases w <;> simp [child]
    next c kvs =>
      constructor
      · intro h; exact ⟨c, kvs, ⟨rfl, rfl⟩, h⟩
      · rintro ⟨_, _, ⟨rfl, rfl⟩, h⟩; exact h

/-- membership in the form "found iff it is the node at a position ending with `name`, `sub`" -/
theorem fat_tail_mem_getAt (name sub : Str) (t : Val) (hk : KeysOkV t) (p : Pos) (v : Val) :
    (p, v) ∈ tailOf sub (descV name t) ↔
      ∃ q, p = q ++ [Seg.key name, Seg.key sub] ∧ getAt t p = some v := by
  rw [fat_tail_mem name sub t hk p v]
  constructor
  · rintro ⟨q, rfl, c, kvs, hg, hl⟩
    exact ⟨q, rfl, (fat_getAt_tail t q name sub v).2 ⟨c, kvs, hg, hl⟩⟩
  · rintro ⟨q, rfl, hg⟩
    obtain ⟨c, kvs, h1, h2⟩ := (fat_getAt_tail t q name sub v).1 hg
    exact ⟨q, rfl, c, kvs, h1, h2⟩

end N0.FindAll
