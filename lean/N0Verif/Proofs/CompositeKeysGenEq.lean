import N0Verif.Gen.CompositeKeysPy
/-!
# The record branch of `generate_composite_keys` translated from the source = the hand-written model

`Gen/CompositeKeysPy.lean` is regenerated from the Python text by `harness/translate_py_keys.py`; the lemmas below
prove it equal to `Compare.recordFields` / `fieldsKey` / `keyOf` / `keysOf` for every input.
-/
namespace N0.Gen.CompositeKeysPy
open N0 N0.Compare

theorem ckList_eq (ck : PatArg) : ckList ck = ck.pats := by
  cases ck <;> rfl

theorem attrs_eq (tr : List Tr) : attrs tr = tr.map (·.pat) := by
  unfold attrs
  cases tr <;> simp

/-- the lookup-and-apply of the translated code is the model's `transformAtStr` -/
theorem applyTr_eq (cfg : Cfg) (s : Str) (v : Val) :
    (if xpathMatchFrom s 0 (cfg.tr.map (·.pat)) != 0
      then callTr cfg.tr (xpathMatchFrom s 0 (cfg.tr.map (·.pat)) - 1) v else v) = transformAtStr cfg s v := by
  unfold transformAtStr callTr
  cases h : xpathMatchFrom s 0 (cfg.tr.map (·.pat)) with
  | zero => simp
  | succ n =>
    simp only [Nat.add_sub_cancel]
    cases cfg.tr[n]? <;> simp

/-- one iteration of the translated loop is one step of `recordFields` -/
theorem step_eq (cfg : Cfg) (q : Path) (kvs acc : List (Str × Val)) (key : Str) :
    RecordKey.step cfg.tr (cfg.tr.map (·.pat)) q kvs acc key =
      (match Val.lookup key kvs with
       | none => acc
       | some v => setField key (transformAt cfg (q ++ [.key key]) v) acc) := by
  unfold RecordKey.step hasKey getItem itemFieldPath
  cases h : Val.lookup key kvs with
  | none => simp
  | some v =>
    simp only [Option.isSome_some, if_true, Option.getD_some, transformAt]
    rw [← applyTr_eq cfg (render (q ++ [PSeg.key key])) v]
    split <;> rfl

theorem foldl_eq (cfg : Cfg) (q : Path) (kvs : List (Str × Val)) (keys : List Str) (acc : List (Str × Val)) :
    List.foldl (RecordKey.step cfg.tr (cfg.tr.map (·.pat)) q kvs) acc keys = recordFields cfg q kvs keys acc := by
  induction keys generalizing acc with
  | nil => rfl
  | cons k ks ih =>
    rw [List.foldl_cons, ih, step_eq]
    conv => rhs; unfold recordFields
    cases Val.lookup k kvs <;> rfl

theorem fieldsKey_eq (fs : List (Str × Val)) :
    (if (!(List.isEmpty fs)) then jsonVal (.dict .plain fs) else ([] : Str)) = fieldsKey fs := by
  cases fs <;> rfl

/-- **the translated record branch computes the model's record key**, for every option record, path, index and record -/
theorem recordKey_eq (cfg : Cfg) (q : Path) (kvs : List (Str × Val)) :
    recordKey cfg.ck cfg.tr q kvs = fieldsKey (recordFields cfg q kvs cfg.ck.pats []) := by
  unfold recordKey recordKeyOf
  simp only [ckList_eq, attrs_eq, foldl_eq, fieldsKey_eq]
  cases cfg.ck.pats <;> rfl

theorem keyOf_dict_eq (cfg : Cfg) (p : Path) (i : Nat) (o : Cls) (kvs : List (Str × Val)) :
    keyOf cfg p i (.dict o kvs) = .ok (recordKey cfg.ck cfg.tr (p ++ [.idx i]) kvs) := by
  rw [recordKey_eq]; rfl

/-- the records of a list (`enumerate(input_list)`, all items dictionaries), keyed by the translated code -/
def recordKeys (cfg : Cfg) (p : Path) : Nat → List (Cls × List (Str × Val)) → List Str
  | _, [] => []
  | i, r :: rs => recordKey cfg.ck cfg.tr (p ++ [.idx i]) r.2 :: recordKeys cfg p (i + 1) rs

theorem keysOf_records_eq (cfg : Cfg) (p : Path) (i : Nat) (rs : List (Cls × List (Str × Val))) :
    keysOf cfg p i (rs.map (fun r => Val.dict r.1 r.2)) = .ok (recordKeys cfg p i rs) := by
  induction rs generalizing i with
  | nil => rfl
  | cons r rs ih =>
    simp only [List.map_cons, keysOf, keyOf_dict_eq, ih, recordKeys]

end N0.Gen.CompositeKeysPy
