import N0Verif.Proofs.XPathHiddenSet
/-!
  Several hidden indexes in a row (`a[0][0]`, `a[0][-1][last()]`, `h[1][0][0]`) on the single value at a plain
  position `P`: item 0 of the hidden list is the value itself, which is again read as a list of one item, and so on.
  `_find` reports the last hidden list with `found` = the path of `P` followed by the indexes already passed (as
  `[0]` / `[-1]`); `__setitem__` (`hiddenPlace` + `realPlace`) resolves that text again and again — one index less each
  time — until the parent reported is a node of the structure.

  * `tokenize_row`, `hidden_row_from`, `hidden_row_arrive`, `hidden_row_find`: the search;
  * `hidden_row_real`: the `while isinstance(real_parent_node, tuple)` loop;
  * `setItem_hidden_row`: the write is `setAt` at `P`.
-/
namespace N0.XPath
open N0 N0.Py N0.Val

def GoodIdx (e : IdxSp) : Prop := e.val = 0 ∨ e.val = -1

/-- the indexes already passed, the way `_find` appends them to `xpath_found_str` -/
def rowText (is : List Int) : Str := is.flatMap (fun i => bracket (intStr i))

theorem tokenize_row : ∀ (es : List IdxSp) (T : Str), EndsRB T →
    tokenize (T ++ es.flatMap (fun e => bracket e.text)) = tokenize T ++ es.map (fun e => bracket e.text)
  | [], T, _ => by simp
  | e :: es, T, hT => by
    obtain ⟨A0, rfl⟩ := hT
    rw [List.flatMap_cons, ← List.append_assoc, tokenize_row es _ (endsRB_bracket _ e.text),
      tokenize_append_bracket A0 e.text (hidden_cleanIdx e)]
    simp

/-- the hidden index steps, once the search stands at the single value -/
theorem hidden_row_from (root : Val) (P : Pos) (old : Val) (hP : getAt root P = some old) (hl : isList old = false) :
    ∀ (init : List IdxSp) (l : IdxSp), (∀ e ∈ init, GoodIdx e) → GoodIdx l → ∀ (f : Nat) (en : Bool) (found : Str),
      f ≥ init.length →
      findD (f + 1) root [] false en ((init ++ [l]).map (fun e => bracket e.text)) (.at P) true found
        = .ok (root, { parent := .wrap (.at P), nameIdx := some (bracket (intStr l.val)), value := old,
                       found := found ++ rowText (init.map IdxSp.val), notFound := Option.none })
  | [], l, _, hg, f, en, found, _ => by
    simp only [List.nil_append, List.map_cons, List.map_nil]
    rw [hidden_find_last f root en true P found _ _ _ old hP hl l.idxTok hg]
    simp [rowText]
  | e :: init, l, hgi, hg, f, en, found, hf => by
    obtain ⟨f', rfl⟩ : ∃ f', f = f' + 1 := ⟨f - 1, by simp at hf; omega⟩
    simp only [List.cons_append, List.map_cons]
    rw [hidden_find_step (f' + 1) root en true P found _ _ _ old _ (by simp) hP hl e.idxTok (hgi e (by simp))]
    have ih := hidden_row_from root P old hP hl init l (fun x hx => hgi x (by simp [hx])) hg f' false
      (found ++ bracket (intStr e.val)) (by simp at hf; omega)
    rw [ih]
    simp [rowText, List.append_assoc]

/-- the search for `//…P…[e1][e2]…` arrives at the single value at `P` with the index tokens left -/
theorem hidden_row_arrive (cls : Cls) (kvs : List (Str × Val)) (P : Pos) (old : Val) (es : List IdxSp) (fuel : Nat)
    (hp : PlainPos P) (hne : P ≠ []) (hP : getAt (.dict cls kvs) P = some old) (hes : es ≠ [])
    (hf : fuel ≥ 2 * P.length + 2) :
    ∃ f en, fuel ≤ f + 2 + 2 * P.length ∧
      findD fuel (.dict cls kvs) [] false true (tokenize (slash ++ renderPos P ++ es.flatMap (fun e => bracket e.text)))
          (.at []) true slash
        = findD (f + 1) (.dict cls kvs) [] false en (es.map (fun e => bracket e.text)) (.at P) true (slash ++ renderPos P) := by
  rcases List.eq_nil_or_concat P with h | ⟨q, s, h⟩
  · exact absurd h hne
  · rw [List.concat_eq_append] at h
    subst h
    cases s with
    | key name =>
      have hpq : PlainPos q := hp.prefix
      have hn : PlainKey name := hp.last_key
      rw [getAt_snoc] at hP
      cases hq : getAt (.dict cls kvs) q with
      | none => simp [hq] at hP
      | some qv =>
        simp only [hq, Option.bind] at hP
        obtain ⟨kcls, nkvs, rfl, hl⟩ := child_key_some hP
        cases es with
        | nil => exact absurd rfl hes
        | cons e rest =>
          have htok : tokenize (slash ++ renderPos (q ++ [Seg.key name]) ++ (e :: rest).flatMap (fun e => bracket e.text))
              = mergedToks q ++ (name ++ bracket e.text) :: rest.map (fun e => bracket e.text) := by
            rw [← renderPos_snoc_key, List.flatMap_cons, ← List.append_assoc,
              show slash ++ renderPos q ++ slash ++ name ++ bracket e.text
                = slash ++ renderPos q ++ slash ++ (name ++ bracket e.text) by simp [List.append_assoc],
              tokenize_row rest _ (by
                have := endsRB_bracket (slash ++ renderPos q ++ slash ++ name) e.text
                simpa [List.append_assoc] using this)]
            have := tokenize_elem_path q hpq hn (hidden_cleanIdx e) [] (by simp)
            have h0 : renderPos (([] : List Str).map Seg.key) = [] := rfl
            rw [h0, List.append_nil] at this
            rw [this]; simp
          obtain ⟨f, en, h1, hwalk⟩ := hidden_walk cls kvs q kcls nkvs name old e (rest.map (fun e => bracket e.text)) fuel
            hpq hq hn hl (by simp at hf; omega)
          refine ⟨f, en, by simp; omega, ?_⟩
          rw [htok, hwalk]
          simp
    | idx i =>
      have hlen := mergedToks_length_le (q ++ [Seg.idx i])
      have htok : tokenize (slash ++ renderPos (q ++ [Seg.idx i]) ++ es.flatMap (fun e => bracket e.text))
          = mergedToks (q ++ [Seg.idx i]) ++ es.map (fun e => bracket e.text) := by
        rw [tokenize_row es _ ⟨_, renderPos_snoc_idx q i⟩,
          show slash ++ renderPos (q ++ [Seg.idx i]) = '/' :: renderPos (q ++ [Seg.idx i]) from rfl,
          tokenize_render _ hp]
      obtain ⟨f', en, h1, _, hwalk⟩ := find_walk (.dict cls kvs) true (spellsF_merged _ _ _ hp hP)
        (es.map (fun e => bracket e.text)) (by simpa using hes) fuel [] slash true rfl (by omega)
      obtain ⟨f, rfl⟩ : ∃ f, f' = f + 1 := ⟨f' - 1, by omega⟩
      refine ⟨f, en, by omega, ?_⟩
      rw [htok, hwalk]
      simp

/-- `_find` on `//…P…[e1]…[en][l]`: the last hidden list, `found` carries the indexes passed -/
theorem hidden_row_find (cls : Cls) (kvs : List (Str × Val)) (P : Pos) (old : Val) (init : List IdxSp) (l : IdxSp)
    (fuel : Nat) (hp : PlainPos P) (hne : P ≠ []) (hP : getAt (.dict cls kvs) P = some old) (hs : isList old = false)
    (hgi : ∀ e ∈ init, GoodIdx e) (hg : GoodIdx l) (hf : fuel ≥ 2 * P.length + 2 + init.length) :
    findD fuel (.dict cls kvs) [] false true
        (tokenize (slash ++ renderPos P ++ (init ++ [l]).flatMap (fun e => bracket e.text))) (.at []) true slash
      = .ok (.dict cls kvs, ({ parent := .wrap (.at P), nameIdx := some (bracket (intStr l.val)), value := old,
                                found := (slash ++ renderPos P ++ rowText (init.map IdxSp.val)), notFound := Option.none } : Res)) := by
  obtain ⟨f, en, h1, harr⟩ := hidden_row_arrive cls kvs P old (init ++ [l]) fuel hp hne hP (by simp) (by omega)
  rw [harr, hidden_row_from _ P old hP hs init l hgi hg f en _ (by omega)]

/-- the canonical spelling `_find` writes into `found` -/
def canonIdx (e : IdxSp) : IdxSp := if e.val = 0 then .lit 0 else .neg 1

theorem canonIdx_spec {e : IdxSp} (h : GoodIdx e) :
    bracket (canonIdx e).text = bracket (intStr e.val) ∧ GoodIdx (canonIdx e) ∧ (canonIdx e).val = e.val := by
  rcases h with h | h
  · simp only [canonIdx, h, if_true]; exact ⟨by decide, Or.inl rfl, rfl⟩
  · have : ¬ (e.val = 0) := by omega
    simp only [canonIdx, h]; exact ⟨by decide, Or.inr rfl, rfl⟩

theorem rowText_canon : ∀ (es : List IdxSp), (∀ e ∈ es, GoodIdx e) →
    rowText (es.map IdxSp.val) = (es.map canonIdx).flatMap (fun e => bracket e.text) ∧
    (∀ e ∈ es.map canonIdx, GoodIdx e) ∧ (es.map canonIdx).map IdxSp.val = es.map IdxSp.val
  | [], _ => by simp [rowText]
  | e :: es, h => by
    obtain ⟨h1, h2, h3⟩ := rowText_canon es (fun x hx => h x (by simp [hx]))
    obtain ⟨c1, c2, c3⟩ := canonIdx_spec (h e (by simp))
    refine ⟨?_, ?_, ?_⟩
    · simp only [rowText, List.map_cons, List.flatMap_cons] at h1 ⊢
      rw [c1, h1]
    · intro x hx
      simp only [List.map_cons, List.mem_cons] at hx
      rcases hx with rfl | hx
      · exact c2
      · exact h2 x hx
    · simp only [List.map_cons, c3, h3]

/-- **the loop of `__setitem__`**: resolving `found` (the path of `P` followed by `n` passed indexes) again, then as long
as the parent reported is a hidden list, ends at what the plain path of `P` finds -/
theorem hidden_row_real (cls : Cls) (kvs : List (Str × Val)) (P : Pos) (old : Val) (fuel : Nat)
    (hp : PlainPos P) (hne : P ≠ []) (hP : getAt (.dict cls kvs) P = some old) (hs : isList old = false) :
    ∀ (n : Nat) (is : List IdxSp), is.length = n → (∀ e ∈ is, GoodIdx e) → fuel ≥ 2 * P.length + 2 + n → ∀ k, k ≥ n →
      ∃ r1 r0, findD fuel (.dict cls kvs) [] false true (tokenize (slash ++ renderPos P ++ rowText (is.map IdxSp.val)))
          (.at []) true slash = .ok (.dict cls kvs, r1) ∧
        realPlace fuel (.dict cls kvs) (k + 1) r1 = .ok r0 ∧ FoundAt (.dict cls kvs) [] P old r0
  | 0, is, hlen, _, hf, k, _ => by
    have : is = [] := List.eq_nil_of_length_eq_zero hlen
    subst this
    have hs' := spells_merged P (.dict cls kvs) old hp hP
    have hl := mergedToks_length_le P
    obtain ⟨r1, hr1, hfound⟩ := find_spells (.dict cls kvs) true hs' (mergedToks_ne_nil P hne) fuel [] slash true rfl
      (by omega)
    refine ⟨r1, r1, ?_, ?_, hfound⟩
    · simp only [List.map_nil, rowText, List.flatMap_nil, List.append_nil]
      rw [show slash ++ renderPos P = '/' :: renderPos P from rfl, tokenize_render P hp]; exact hr1
    · obtain ⟨_, _, pp, _, _, _, _, hpar, _⟩ := hfound
      exact realPlace_at fuel _ k r1 _ hpar
  | n + 1, is, hlen, hg, hf, k, hk => by
    rcases List.eq_nil_or_concat is with h | ⟨init, l, h⟩
    · subst h; simp at hlen
    · rw [List.concat_eq_append] at h
      subst h
      have hgi : ∀ e ∈ init, GoodIdx e := fun e he => hg e (by simp [he])
      have hgl : GoodIdx l := hg l (by simp)
      have hil : init.length = n := by simpa using hlen
      obtain ⟨c1, c2, c3⟩ := rowText_canon (init ++ [l]) hg
      obtain ⟨k', rfl⟩ : ∃ k', k = k' + 1 := ⟨k - 1, by omega⟩
      obtain ⟨r1', r0, hr1', hreal, hfound⟩ := hidden_row_real cls kvs P old fuel hp hne hP hs n init hil hgi (by omega) k'
        (by omega)
      have hfind := hidden_row_find cls kvs P old (init.map canonIdx) (canonIdx l) fuel hp hne hP hs
        (fun e he => c2 e (by simp at he ⊢; rcases he with ⟨a, ha, rfl⟩; exact Or.inl ⟨a, ha, rfl⟩))
        (c2 _ (by simp)) (by simp; omega)
      have hmap : (init.map canonIdx).map IdxSp.val = init.map IdxSp.val := (rowText_canon init hgi).2.2
      rw [hmap] at hfind
      refine ⟨({ parent := .wrap (.at P), nameIdx := some (bracket (intStr (canonIdx l).val)), value := old,
                 found := slash ++ renderPos P ++ rowText (init.map IdxSp.val), notFound := Option.none } : Res),
        r0, ?_, ?_, hfound⟩
      · rw [c1]
        simpa using hfind
      · rw [realPlace]
        simp only [isWrap, if_true, hr1', hreal]

/-- **several hidden indexes in a row on the single value at `P`: the value is replaced** -/
theorem setItem_hidden_row (cls : Cls) (kvs : List (Str × Val)) (P : Pos) (old : Val) (init : List IdxSp) (l : IdxSp)
    (v t' : Val) (fuel : Nat)
    (hp : PlainPos P) (hne : P ≠ []) (hP : getAt (.dict cls kvs) P = some old) (hs : isList old = false)
    (hgi : ∀ e ∈ init, GoodIdx e) (hg : GoodIdx l) (hset : setAt (.dict cls kvs) P v = some t')
    (hf : fuel ≥ 2 * P.length + 3 + init.length) :
    setItem fuel (.dict cls kvs) (slash ++ renderPos P ++ (init ++ [l]).flatMap (fun e => bracket e.text)) v
      = (t', .ok ()) := by
  have hfind := hidden_row_find cls kvs P old init l fuel hp hne hP hs hgi hg (by omega)
  obtain ⟨f, rfl⟩ : ∃ f, fuel = f + 1 := ⟨fuel - 1, by omega⟩
  obtain ⟨r1, r0, hr1, hreal, hfound⟩ := hidden_row_real cls kvs P old (f + 1) hp hne hP hs init.length init rfl hgi
    (by omega) f (by omega)
  have hst := storeAt_found (.dict cls kvs) P old r0 v t' hfound hp hset
  have hhid : hiddenPlace (f + 1) (.dict cls kvs)
      ({ parent := .wrap (.at P), nameIdx := some (bracket (intStr l.val)), value := old,
         found := slash ++ renderPos P ++ rowText (init.map IdxSp.val), notFound := Option.none } : Res)
      = .ok ({ parent := r0.parent, nameIdx := r0.nameIdx, value := old,
               found := slash ++ renderPos P ++ rowText (init.map IdxSp.val), notFound := Option.none } : Res) := by
    simp only [hiddenPlace, isWrap, List.isEmpty_nil, Bool.true_or, Bool.and_self, if_true, hr1, hreal]
  unfold setItem
  simp only [show startsWith (slash ++ renderPos P ++ (init ++ [l]).flatMap (fun e => bracket e.text)) ['?'] = false by
      simp [slash, startsWith],
    Bool.false_and, Bool.false_eq_true, if_false,
    show hasPathChar (slash ++ renderPos P ++ (init ++ [l]).flatMap (fun e => bracket e.text)) = true by
      simp [hasPathChar, slash],
    if_true, hfind, hhid, List.isEmpty_nil, Bool.not_true, hst]

end N0.XPath
