import N0Verif.Model.Fwf
import N0Verif.Gen.FwfPy
/-!
  The definitions that `harness/translate_py_fwf.py` regenerates from two fragments of the Python source
  (`Gen/FwfPy.lean`) are equal to the hand-written model (`Model/Fwf.lean`): the slice computation of `parse_fwf_row` is
  `Fwf.colValue`, the cell rendering of `generate_fwf_row` is `Fwf.place`.  The model has natural numbers (or `None`)
  for offsets / widths / sizes, the translated code `Int` (or `None`): the theorems are about natural numbers.
-/
namespace N0.FwfGenEq
open N0 N0.Py N0.Fwf N0.Gen.FwfPy

theorem normBound_nat (len a : Nat) : normBound len (a : Int) = a := by
  simp [normBound]
  omega

theorem sliceO_nat (s : Str) (a b : Nat) : sliceO s (some (a : Int)) (some (b : Int)) = Tlv.slice s a b := by
  simp [sliceO, normBound_nat, Tlv.slice]

theorem sliceO_to (s : Str) (b : Nat) : sliceO s none (some (b : Int)) = s.take b := by
  simp [sliceO, normBound_nat]

theorem sliceO_from (s : Str) (a : Nat) : sliceO s (some (a : Int)) none = s.drop a := by
  simp only [sliceO, normBound_nat]
  exact List.take_of_length_le (by simp)

/-- the slice computation of `parse_fwf_row` never raises (offsets / widths that are natural numbers or `None`) and
gives the value of the model -/
theorem colValue_eq (row : Str) (c : PCol) :
    ParseFwfRow.colValue row (c.offset.map Int.ofNat) (c.width.map Int.ofNat) (c.till.map Int.ofNat)
      = .ok (Fwf.colValue row c) := by
  rcases ho : c.offset with _ | off <;> rcases hw : c.width with _ | wd <;> rcases ht : c.till with _ | tl <;>
    simp [ParseFwfRow.colValue, Fwf.colValue, ho, hw, ht, pyAddO, ← Int.natCast_add, sliceO_nat]

/-- the cell rendering of `generate_fwf_row` (`ty` = `column_format.get('type')`, a str or `None`) -/
theorem place_eq (c : GCol) (v : Val) (r : Str) (ty : Option Str) (h : c.isInt = decide (ty = some "int".toList)) :
    GenerateFwfRow.place r v c.size c.offset c.till ty = Fwf.place c v r := by
  have h' : c.isInt = decide (ty = some ['i', 'n', 't']) := h
  simp only [GenerateFwfRow.place, Fwf.place, Fwf.padOrTrunc, h', sliceO_to, sliceO_from, Int.toNat_natCast]
  by_cases ht : ty = some ['i', 'n', 't'] <;> cases Fwf.pyStr v <;> simp [ht]

end N0.FwfGenEq
