import N0Verif.Proofs.XPathSelect3
/-!
  Audit repairs (worker `afixxp`): selecting paths on an **n0list-rooted** record list (fix C06-f).

  `n0list._find` keeps itself as `self` when it hands a dict element to `n0dict._find` (`dispatchD`: `sp` stays the root), and a
  name or a condition applied to a list is handed to `n0dict._find` as it is (which supplies the skipped `[*]`).  With that, the
  tree-level lemmas of `Proofs/XPathSelect*.lean` - which never assumed a dict root, only `sp = []` - apply to the list root itself
  (`Sel3Norm [] t [] t`, `found = "/"`).
-/
namespace N0.XPath
open N0 N0.Py N0.Val

/-! ### steps of `findL` -/

/-- a name applied to a list is handed to the dict-side search -/
theorem xa_findL_name (fuel : Nat) (root : Val) (sp : Pos) (rl : Bool) (par : PRef) (pv : Val) (found tok nm : Str) (idx : Idx)
    (rest : List Str) (hpv : valOf root par = some pv) (ht : splitNameIndex tok = .ok (nm, idx)) (hne : nm ≠ []) :
    findL (fuel + 1) root sp (tok :: rest) par rl found = findD fuel root sp false true (tok :: rest) par rl found := by
  rw [findL]
  simp only [hpv, ht, isEmpty_false_of_ne hne, Bool.not_false, if_true]

/-- a condition applied to a list is handed to the dict-side search -/
theorem xa_findL_cond (fuel : Nat) (root : Val) (sp : Pos) (rl : Bool) (par : PRef) (pv : Val) (found tok k op : Str) (v : CondVal)
    (rest : List Str) (hpv : valOf root par = some pv) (ht : splitNameIndex tok = .ok ([], .cond k op v)) :
    findL (fuel + 1) root sp (tok :: rest) par rl found = findD fuel root sp false true (tok :: rest) par rl found := by
  rw [findL]
  simp only [hpv, ht, List.isEmpty_nil, Bool.not_true, Bool.false_eq_true, if_false]

/-- **the `[*]` loop of `n0list._find`** over dict records: if the dict-side search of record `i + j` (fuel ≥ `F0`) leaves the tree
unchanged and is found exactly when `todo[j]` is `some v`, with value `v`, the loop collects the `some`s in order -/
theorem xa_findL_loop (root : Val) (sp : Pos) (q : Pos) (rl : Bool) (found tok : Str) (rest : List Str) (F0 : Nat) :
    ∀ (items : List Val) (todo : List (Option Val)) (i : Nat) (acc : List Val) (fst : Option Res) (fuel : Nat),
      todo.length = items.length → (∀ it ∈ items, isDict it = true) →
      (∀ j (hj : j < todo.length), ∀ fu ≥ F0, ∃ r,
          findD fu root sp false true rest (.at (q ++ [.idx (i + j)])) rl (found ++ bracket (natStr (i + j))) = .ok (root, r)
          ∧ r.isFound = (todo[j]).isSome ∧ ∀ v, todo[j] = some v → r.value = v) →
      fuel ≥ F0 + todo.length + 1 →
      fst.isSome = !acc.isEmpty →
      ∃ r, findL.loop sp (.at q) rl found tok rest fuel root i items acc fst = .ok (root, r) ∧
        r.isFound = !(acc ++ somes todo).isEmpty ∧
        (r.isFound = true → r.value = collect rl (acc ++ somes todo)) := by
  intro items
  induction items with
  | nil =>
    intro todo i acc fst fuel hlen _ _ hf hfst
    have htodo : todo = [] := by cases todo with | nil => rfl | cons _ _ => simp at hlen
    subst htodo
    obtain ⟨f, rfl⟩ : ∃ f, fuel = f + 1 := ⟨fuel - 1, by omega⟩
    simp only [findL.loop, somes, List.append_nil]
    cases fst with
    | none =>
      have hacc : acc = [] := by simpa using hfst
      subst hacc
      exact ⟨_, rfl, by simp [Res.isFound], by simp [Res.isFound]⟩
    | some f0 =>
      have hacc : acc.isEmpty = false := by simpa using hfst
      exact ⟨_, rfl, by simp [Res.isFound, hacc], by intro _; simp [collect]⟩
  | cons it its ih =>
    intro todo i acc fst fuel hlen hd hel hf hfst
    cases todo with
    | nil => simp at hlen
    | cons o todo =>
    obtain ⟨f, rfl⟩ : ∃ f, fuel = f + 1 := ⟨fuel - 1, by omega⟩
    obtain ⟨r0, hr0, hfound0, hval0⟩ := hel 0 (by simp) f (by simp at hf; omega)
    simp only [Nat.add_zero] at hr0
    simp only [List.getElem_cons_zero] at hfound0 hval0
    have hit : isDict it = true := hd it (by simp)
    obtain ⟨c, kvs', rfl⟩ : ∃ c kvs', it = Val.dict c kvs' := by
      cases it with
      | dict c kvs' => exact ⟨c, kvs', rfl⟩
      | _ => simp [isDict] at hit
    have hsub : dispatchD f root sp (childRef root (.at q) (.idx i)) (.dict c kvs') rest rl (found ++ bracket (natStr i))
        = .ok (root, r0) := by
      simpa [dispatchD, childRef, refPos] using hr0
    simp only [findL.loop]
    rw [hsub]
    have hel' : ∀ j (hj : j < todo.length), ∀ fu ≥ F0, ∃ r,
        findD fu root sp false true rest (.at (q ++ [.idx (i + 1 + j)])) rl (found ++ bracket (natStr (i + 1 + j))) = .ok (root, r)
        ∧ r.isFound = (todo[j]).isSome ∧ ∀ v, todo[j] = some v → r.value = v := by
      intro j hj fu hfu
      have := hel (j + 1) (by simp; omega) fu hfu
      have hidx : i + (j + 1) = i + 1 + j := by omega
      simpa [hidx] using this
    have hlen' : todo.length = its.length := by simpa using hlen
    have hd' : ∀ x ∈ its, isDict x = true := fun x hx => hd x (by simp [hx])
    cases o with
    | none =>
      have hnf : r0.isFound = false := by simpa using hfound0
      simp only [hnf, Bool.false_eq_true, if_false]
      obtain ⟨r, hr, h1, h2⟩ := ih todo (i + 1) acc fst f hlen' hd' hel' (by simp at hf; omega) hfst
      exact ⟨r, hr, by simpa [somes] using h1, by simpa [somes] using h2⟩
    | some v =>
      have hnf : r0.isFound = true := by simpa using hfound0
      have hv : r0.value = v := hval0 v rfl
      simp only [hnf, if_true, hv]
      have hfst' : (match fst with | some f => some f | Option.none => some r0).isSome = !(acc ++ [v]).isEmpty := by
        cases fst <;> simp
      obtain ⟨r, hr, h1, h2⟩ := ih todo (i + 1) (acc ++ [v]) _ f hlen' hd' hel' (by simp at hf; omega) hfst'
      exact ⟨r, hr, by simpa [somes] using h1, by simpa [somes] using h2⟩

/-- `[*] :: rest` on a list of dict records through `n0list._find` -/
theorem xa_findL_star (root : Val) (q : Pos) (rl : Bool) (found tok : Str) (rest : List Str) (lc : Cls) (rs : List Val)
    (o : Val → Option Val) (F0 : Nat)
    (hq : getAt root q = some (.list lc rs)) (hrs : ∀ r ∈ rs, isDict r = true)
    (ht : splitNameIndex tok = .ok ([], .str ['*']))
    (helem : ∀ (j : Nat) (rec : Val), rs[j]? = some rec → ∀ fu ≥ F0,
      Sel2Out root (findD fu root [] false true rest (.at (q ++ [.idx j])) rl (found ++ bracket (natStr j))) (o rec))
    (fuel : Nat) (hfuel : fuel ≥ F0 + rs.length + 2) :
    Sel2Coll root rl (findL fuel root [] (tok :: rest) (.at q) rl found) (somes (rs.map o)) := by
  obtain ⟨g, rfl⟩ : ∃ g, fuel = g + 1 := ⟨fuel - 1, by omega⟩
  rw [findL]
  simp only [valOf_at, hq, ht, List.isEmpty_nil, Bool.not_true, Bool.false_eq_true, if_false, if_true]
  have := xa_findL_loop root [] q rl found tok rest F0 rs (rs.map o) 0 [] Option.none g (by simp) hrs ?_ (by simp; omega) (by simp)
  · simpa [Sel2Coll] using this
  · intro j hj fu hfu
    have hj' : j < rs.length := by simpa using hj
    obtain ⟨r, hr, h1, h2⟩ := helem j rs[j] (List.getElem?_eq_getElem hj') fu hfu
    refine ⟨r, by simpa using hr, by simpa using h1, ?_⟩
    intro v hv; apply h2; simpa using hv

/-! ### the selecting forms on a list root that is itself the record list -/

/-- **Fan-out on a list root, token level.**  `t` is an n0list of dict records.  `n0list._find` on `["[*]", f]` (its own loop over
the elements) and on `[f]` (the shorthand: the name is handed to `n0dict._find`, which supplies the `[*]`) finds exactly
`[r[f] for r in rs if f in r]`, for both values of `return_lists`; the tree is unchanged. -/
theorem xa_star_list_root (lc : Cls) (rs : List Val) (rl : Bool) (f : Str) (hrs : ∀ r ∈ rs, isDict r = true) (hf : PlainKey f)
    (fuel : Nat) (hfuel : fuel ≥ rs.length + 6) :
    ∀ toks ∈ [[bracket ['*'], f], [f]],
      Sel2Coll (.list lc rs) rl (findL fuel (.list lc rs) [] toks (.at []) rl slash) (somes (rs.map (fieldOf f))) := by
  intro toks htoks
  simp only [List.mem_cons, List.not_mem_nil, or_false] at htoks
  have hq : getAt (Val.list lc rs) [] = some (.list lc rs) := rfl
  rcases htoks with rfl | rfl
  · refine xa_findL_star (.list lc rs) [] rl slash _ [f] lc rs (fieldOf f) 1 hq hrs split_star ?_ fuel (by omega)
    intro j rec hj fu hfu
    have hd := hrs rec (List.mem_of_getElem? hj)
    cases rec with
    | dict c kvs' =>
      -- `entry` does not matter for a key step
      obtain ⟨g, rfl⟩ : ∃ g, fu = g + 1 := ⟨fu - 1, by omega⟩
      have hq' : getAt (Val.list lc rs) ([] ++ [.idx j]) = some (.dict c kvs') := sel2_getAt_snoc_idx hq hj
      cases hl : lookup f kvs' with
      | none =>
        rw [find_key_missing g _ true rl _ _ f [] c kvs' hq' hf.keyTok hl]
        simpa [fieldOf, hl] using sel2Out_notFound (.list lc rs) _ _ _ _ _ (by simp)
      | some v =>
        rw [find_key_last g _ true rl _ _ f c kvs' v hq' hf.keyTok hl]
        exact ⟨_, rfl, by simp [Res.isFound, fieldOf, hl], by intro v' hv'; simp [fieldOf, hl] at hv'; subst hv'; rfl⟩
    | _ => simp [isDict] at hd
  · obtain ⟨g, rfl⟩ : ∃ g, fuel = g + 2 := ⟨fuel - 2, by omega⟩
    rw [xa_findL_name (g + 1) _ [] rl (.at []) (.list lc rs) slash f f .none [] rfl hf.keyTok.split hf.ne]
    rw [find_name_on_list g _ true rl [] slash f f .none [] lc rs hq hf.keyTok.split hf.ne hf.notUp]
    exact star_records (.list lc rs) rl [] slash _ f lc rs hq hrs hf.keyTok split_star g false (by omega)

/-- **Predicates on a list root, token level.**  `t` is an n0list of dict records.  `n0list._find` on `["[k op v]", f]` and on
`["k[text() op v]", "..", f]` - a condition / a name applied to the list: handed to `n0dict._find` with `self` = the list, so
that the `'..'` of the rewritten condition resolves `/[j]` from the list again - finds `f` of exactly the records whose `k` passes
the comparison, for both values of `return_lists`; the tree is unchanged. -/
theorem xa_pred_list_root (lc : Cls) (rs : List Val) (rl : Bool) (k f opx op vq v : Str)
    (hk : FieldKey k) (hf : PlainKey f) (hop : OpSpell opx op) (hlit : LitSpell vq v) (hv : PlainLit v)
    (hrs : ∀ r ∈ rs, isDict r = true)
    (hg : ∀ c kvs' kv, Val.dict c kvs' ∈ rs → lookup k kvs' = some kv → textGuard kv (.str v) = false)
    (fuel : Nat) (hfuel : fuel ≥ rs.length + 12) :
    ∀ toks ∈ [[bracket (k ++ opx ++ vq), f], [k ++ bracket (sTextFn ++ opx ++ vq), ['.', '.'], f]],
      Sel2Coll (.list lc rs) rl (findL fuel (.list lc rs) [] toks (.at []) rl slash)
        (somes (rs.map (condOutcome k f op (.str v)))) := by
  intro toks htoks
  simp only [List.mem_cons, List.not_mem_nil, or_false] at htoks
  have hq : getAt (Val.list lc rs) [] = some (.list lc rs) := rfl
  have hn : Sel3Norm [] (.list lc rs) [] (.list lc rs) := .nil _
  have hopc := opSpell_canon hop
  obtain ⟨g, rfl⟩ : ∃ g, fuel = g + 1 := ⟨fuel - 1, by omega⟩
  have hcont : ∀ (j : Nat) (c : Cls) (kvs' : List (Str × Val)), rs[j]? = some (.dict c kvs') → ∀ fu ≥ 1, Sel2Out (.list lc rs)
      (findD fu (.list lc rs) [] false false [f] (.at ([] ++ [.idx j])) rl ('/' :: sel2Render ([] ++ [.br (natStr j)])))
      (fieldOf f (.dict c kvs')) :=
    fun j c kvs' hj fu hfu => sel2_field_cont _ rl _ c kvs' f _ (sel2_getAt_snoc_idx hq hj) hf.keyTok fu hfu
  rw [← sel2Sel_fieldOf]
  rcases htoks with rfl | rfl
  · have hs1 : splitNameIndex (bracket (k ++ opx ++ vq)) = .ok ([], .cond k op (.str v)) := by
      simpa using split_cond [] k opx op vq v (Or.inl rfl) hk.cond hop hlit hv
    rw [xa_findL_cond g _ [] rl (.at []) (.list lc rs) slash _ k op (.str v) [f] rfl hs1]
    have := sel3_cond_list (.list lc rs) rl true [] [] k op _ (.str v) lc rs [f] (fieldOf f) 1 hn hk.plain hk.notText hrs hs1
      (sel2_tok_text_bare op v hopc hv) hopc hg (by simp) hcont g (by simp; omega)
    simpa [sel2Render, slash] using this
  · have hs1 := split_cond k sTextFn opx op vq v (Or.inr hk.plain) condKey_text hop hlit hv
    rw [xa_findL_name g _ [] rl (.at []) (.list lc rs) slash _ k _ _ rfl hs1 hk.plain.ne]
    have := sel3_textform_list (.list lc rs) rl true [] [] k op _ (.str v) lc rs [f] (fieldOf f) 1 hn hk.plain hrs hs1
      (sel2_tok_text_quoted op v hopc hv) hopc hg (by simp) hcont g (by simp; omega)
    simpa [sel2Render, slash] using this

/-! ### API level, list receiver -/

theorem xa_getCore_of_findL (lc : Cls) (xs : List Val) (xp : Str) (toks : List Str) (d : Val) (raise rl : Bool)
    (fuel : Nat) (r : Res)
    (hq : startsWith xp ['?'] = false) (hpc : hasPathChar xp = true) (htok : tokenize xp = toks)
    (hr : findL fuel (.list lc xs) [] toks (.at []) rl slash = .ok (.list lc xs, r)) :
    getCore fuel (.list lc xs) xp d raise rl
      = (.list lc xs, if r.isFound then .ok r.value else if raise then .error .IndexError else .ok d) := by
  have hxe : xp.isEmpty = false := by
    cases xp with
    | nil => simp [hasPathChar] at hpc
    | cons _ _ => rfl
  simp only [getCore, hxe, Bool.false_eq_true, if_false, hq, hpc, if_true, htok, hr]
  cases r.isFound <;> cases raise <;> simp

/-- **API layer, list receiver** (the statement of `select_api` for an n0list root) -/
theorem xa_select_api (lc : Cls) (xs : List Val) (xp : Str) (toks : List Str) (vals : List Val) (d : Val)
    (fuel : Nat) (hq : startsWith xp ['?'] = false) (hpc : hasPathChar xp = true) (htok : tokenize xp = toks)
    (hfind : ∀ rl, Sel2Coll (.list lc xs) rl (findL fuel (.list lc xs) [] toks (.at []) rl slash) vals) :
    get fuel (.list lc xs) xp d = (.list lc xs, .ok (if vals.isEmpty then d else .list .n0 vals)) ∧
    getItem fuel (.list lc xs) xp = (.list lc xs, if vals.isEmpty then .error .IndexError else .ok (.list .n0 vals)) ∧
    first fuel (.list lc xs) xp d = (.list lc xs, .ok (firstOf vals d)) := by
  obtain ⟨r1, hr1, hf1, hv1⟩ := hfind true
  obtain ⟨r0, hr0, hf0, hv0⟩ := hfind false
  refine ⟨?_, ?_, ?_⟩
  · rw [get, xa_getCore_of_findL lc xs xp toks d false true fuel r1 hq hpc htok hr1]
    cases he : vals.isEmpty with
    | true => simp [hf1, he]
    | false =>
      have : r1.isFound = true := by simp [hf1, he]
      simp [this, hv1 this, collect]
  · rw [getItem, xa_getCore_of_findL lc xs xp toks Val.none true true fuel r1 hq hpc htok hr1]
    cases he : vals.isEmpty with
    | true => simp [hf1, he]
    | false =>
      have : r1.isFound = true := by simp [hf1, he]
      simp [this, hv1 this, collect]
  · exact first_of_collect vals
      (fun d' => xa_getCore_of_findL lc xs xp toks d' false false fuel r0 hq hpc htok hr0) hf0 hv0 d

/-- the texts `[c]/…` and `/k…` (a selecting tail written from the root of a list) tokenise into their pieces -/
theorem xa_tokenize_tail (gs : List GSeg) (hg : GoodG gs) : tokenize ('/' :: sel2Render gs) = sel2Toks gs := sel2_tokenize gs hg

end N0.XPath
