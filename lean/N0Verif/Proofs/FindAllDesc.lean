import N0Verif.Proofs.FindAll
import N0Verif.Proofs.XPathSpellings
/-!
  The descendant search `//*/name` (completeness, both inclusions, document order) and the
  invariant "the found-path list renders the position of the current node" through every branch of
  `_findall`.

  All names carry the prefix `fad` (namespace `N0.FindAll` is shared with `Proofs/FindAll.lean`).
-/
namespace N0.FindAll
open N0 N0.Py N0.Val N0.XPath

/-! ## a generic induction principle over trees (value / entries / elements) -/

theorem fad_val_ind {PV : Val → Prop} {PK : List (Str × Val) → Prop} {PL : List Val → Prop}
    (hd : ∀ c kvs, PK kvs → PV (.dict c kvs)) (hl : ∀ c xs, PL xs → PV (.list c xs))
    (hs : ∀ v, isContainer v = false → PV v)
    (hk0 : PK []) (hk1 : ∀ k c kvs, PV c → PK kvs → PK ((k, c) :: kvs))
    (hl0 : PL []) (hl1 : ∀ x xs, PV x → PL xs → PL (x :: xs)) :
    (∀ v, PV v) ∧ (∀ kvs, PK kvs) ∧ (∀ xs, PL xs) := by
  have key : ∀ n : Nat, (∀ v, sizeOf v ≤ n → PV v) ∧ (∀ kvs, sizeOf kvs ≤ n → PK kvs) ∧ (∀ xs, sizeOf xs ≤ n → PL xs) := by
    intro n
    induction n with
    | zero =>
      refine ⟨fun v h => ?_, fun kvs h => ?_, fun xs h => ?_⟩
      · cases v <;> simp at h
      · cases kvs <;> simp at h
      · cases xs <;> simp at h
    | succ n ih =>
      obtain ⟨ihv, ihk, ihl⟩ := ih
      refine ⟨fun v h => ?_, fun kvs h => ?_, fun xs h => ?_⟩
      · cases v with
        | dict c kvs => exact hd c kvs (ihk kvs (by simp at h; omega))
        | list c xs => exact hl c xs (ihl xs (by simp at h; omega))
        | none => exact hs _ rfl
        | bool b => exact hs _ rfl
        | int i => exact hs _ rfl
        | flt r => exact hs _ rfl
        | str s => exact hs _ rfl
      · cases kvs with
        | nil => exact hk0
        | cons e r =>
          obtain ⟨k, c⟩ := e
          exact hk1 k c r (ihv c (by simp at h; omega)) (ihk r (by simp at h; omega))
      · cases xs with
        | nil => exact hl0
        | cons x r => exact hl1 x r (ihv x (by simp at h; omega)) (ihl r (by simp at h; omega))
  exact ⟨fun v => (key _).1 v (Nat.le_refl _), fun kvs => (key _).2.1 kvs (Nat.le_refl _),
    fun xs => (key _).2.2 xs (Nat.le_refl _)⟩

/-! ## rendered positions are distinct -/

theorem fad_prefix_unique (P : Char → Prop) : ∀ (a b x y : Str), (∀ c ∈ a, ¬ P c) → (∀ c ∈ b, ¬ P c) →
    (∀ c, x.head? = some c → P c) → (∀ c, y.head? = some c → P c) → a ++ x = b ++ y → a = b ∧ x = y := by
  intro a
  induction a with
  | nil =>
    intro b x y _ hb hx _ h
    cases b with
    | nil => exact ⟨rfl, h⟩
    | cons c b =>
      simp only [List.nil_append, List.cons_append] at h
      exact absurd (hx c (by rw [h]; rfl)) (hb c (by simp))
  | cons d a ih =>
    intro b x y ha hb hx hy h
    cases b with
    | nil =>
      simp only [List.nil_append, List.cons_append] at h
      exact absurd (hy d (by rw [← h]; rfl)) (ha d (by simp))
    | cons c b =>
      simp only [List.cons_append, List.cons.injEq] at h
      obtain ⟨rfl, h⟩ := h
      obtain ⟨rfl, rfl⟩ := ih b x y (fun c hc => ha c (by simp [hc])) (fun c hc => hb c (by simp [hc])) hx hy h
      exact ⟨rfl, rfl⟩

theorem fad_renderPos_head (p : Pos) : ∀ c, (renderPos p).head? = some c → c = '/' ∨ c = '[' := by
  intro c h
  cases p with
  | nil => simp [renderPos] at h
  | cons s r =>
    cases s with
    | key k => simp [renderPos, renderSeg] at h; exact Or.inl h.symm
    | idx n => simp [renderPos, renderSeg, bracket] at h; exact Or.inr h.symm

theorem fad_natStr_inj {n m : Nat} (h : natStr n = natStr m) : n = m := by
  have := congrArg natOfDigits h
  rwa [show natOfDigits (natStr n) = n from natOfDigits_natDigits n,
    show natOfDigits (natStr m) = m from natOfDigits_natDigits m] at this

/-- the canonical rendering is injective on positions with plain keys -/
theorem fad_renderPos_inj : ∀ (p q : Pos), PlainPos p → PlainPos q → renderPos p = renderPos q → p = q := by
  intro p
  induction p with
  | nil =>
    intro q _ _ h
    cases q with
    | nil => rfl
    | cons s r => cases s <;> simp [renderPos, renderSeg, bracket] at h
  | cons s r ih =>
    intro q hp hq h
    cases q with
    | nil => cases s <;> simp [renderPos, renderSeg, bracket] at h
    | cons s' r' =>
      have e1 : ∀ (s : Seg) (r : Pos), renderPos (s :: r) = renderSeg s ++ renderPos r := by
        intro s r; simp [renderPos]
      rw [e1, e1] at h
      cases s with
      | key k =>
        cases s' with
        | key k' =>
          simp only [renderSeg, List.cons_append, List.cons.injEq, true_and] at h
          obtain ⟨hk, hr⟩ := hp
          obtain ⟨hk', hr'⟩ := hq
          obtain ⟨rfl, h2⟩ := fad_prefix_unique (fun c => c = '/' ∨ c = '[') k k' _ _
            (fun c hc hP => hP.elim (hk.noSlash c hc) (PlainKey.noLB hk c hc))
            (fun c hc hP => hP.elim (hk'.noSlash c hc) (PlainKey.noLB hk' c hc))
            (fad_renderPos_head r) (fad_renderPos_head r') h
          rw [ih r' hr hr' h2]
        | idx n => simp [renderSeg, bracket] at h
      | idx n =>
        cases s' with
        | key k' => simp [renderSeg, bracket] at h
        | idx n' =>
          simp only [renderSeg, bracket, List.cons_append, List.cons.injEq, true_and, List.append_assoc,
            List.nil_append] at h
          obtain ⟨h1, h2⟩ := fad_prefix_unique (fun c => c = ']') (natStr n) (natStr n') _ _
            (fun c hc hP => natStr_noRB n c hc hP) (fun c hc hP => natStr_noRB n' c hc hP)
            (by intro c hc; simp at hc; exact hc.symm) (by intro c hc; simp at hc; exact hc.symm) h
          simp only [List.cons.injEq, true_and] at h2
          rw [fad_natStr_inj h1, ih r' hp hq h2]

/-! ## the nodes a descendant search must find -/

mutual
/-- positions (relative to `v`) whose last segment is the key `name`, with the node there, in
document order: the entry of the node itself first, then what lies below each child -/
def descV (name : Str) : Val → List (Pos × Val)
  | .dict _ kvs =>
    (match lookup name kvs with
      | some c => [([Seg.key name], c)]
      | Option.none => []) ++ descK name kvs
  | .list _ xs => descL name 0 xs
  | _ => []
def descK (name : Str) : List (Str × Val) → List (Pos × Val)
  | [] => []
  | (k, c) :: kvs => (descV name c).map (fun pv => (Seg.key k :: pv.1, pv.2)) ++ descK name kvs
def descL (name : Str) : Nat → List Val → List (Pos × Val)
  | _, [] => []
  | i, x :: xs => (descV name x).map (fun pv => (Seg.idx i :: pv.1, pv.2)) ++ descL name (i + 1) xs
end

mutual
/-- every key is a plain name and no dictionary lists a key twice (a Python `dict` cannot) -/
def KeysOkV : Val → Prop
  | .dict _ kvs => KeysOkK kvs
  | .list _ xs => KeysOkL xs
  | _ => True
def KeysOkK : List (Str × Val) → Prop
  | [] => True
  | (k, c) :: kvs => PlainKey k ∧ lookup k kvs = Option.none ∧ KeysOkV c ∧ KeysOkK kvs
def KeysOkL : List Val → Prop
  | [] => True
  | x :: xs => KeysOkV x ∧ KeysOkL xs
end

mutual
/-- the property's quantifier: every list contains only dictionaries or lists -/
def ContOkV : Val → Prop
  | .dict _ kvs => ContOkK kvs
  | .list _ xs => ContOkL xs
  | _ => True
def ContOkK : List (Str × Val) → Prop
  | [] => True
  | (_, c) :: kvs => ContOkV c ∧ ContOkK kvs
def ContOkL : List Val → Prop
  | [] => True
  | x :: xs => isContainer x = true ∧ ContOkV x ∧ ContOkL xs
end

theorem fad_descV_scalar (name : Str) (v : Val) (h : isContainer v = false) : descV name v = [] := by
  cases v <;> simp [isContainer] at h <;> simp [descV]

/-! ## small facts about the model used below -/

/-- a call on a dictionary never changes the list object it received (all in-place updates of the
last element happen on a list node; a `text()` condition goes on in the same dictionary) -/
theorem fad_fa_fl_dict (re : Bool) : ∀ (fuel : Nat) (c : Cls) (kvs : List (Str × Val)) (toks : List Str) (fl : FL) (ps : PS),
    (fa re fuel (.dict c kvs) toks fl ps).fl = fl := by
  intro fuel
  induction fuel with
  | zero => intros; rfl
  | succ f ih =>
    intro c kvs toks fl ps
    simp only [fa, step]
    split
    · rfl
    · split
      · unfold stepUp; split <;> rfl
      · rfl
      · -- text(): a dictionary has no text; `!=` continues in the same dictionary (fix C19-f)
        rcases stepText_cases (fa re f) (.dict c kvs) _ _ _ fl ps with h | h | ⟨_, h⟩ <;> rw [h]
        exact ih _ _ _ _ _
      · simp only [stepIdx]; split <;> rfl
      · simp only [stepStar]
      · simp only [stepName]
        split
        · rfl
        · split
          · split <;> exact ih _ _ _ _ _
          · split <;> rfl

theorem fad_flPath_snoc_key : ∀ (p : Pos) (fl : FL) (k : Str), flPath fl (p ++ [.key k]) = flPath fl p ++ [k]
  | [], _, _ => rfl
  | .key _ :: r, fl, k => by simp only [List.cons_append, flPath]; exact fad_flPath_snoc_key r _ k
  | .idx _ :: r, fl, k => by simp only [List.cons_append, flPath]; exact fad_flPath_snoc_key r _ k

theorem fad_flPath_snoc_idx : ∀ (p : Pos) (fl : FL) (n : Nat), flPath fl (p ++ [.idx n]) = bump (flPath fl p) n
  | [], _, _ => rfl
  | .key _ :: r, fl, n => by simp only [List.cons_append, flPath]; exact fad_flPath_snoc_idx r _ n
  | .idx _ :: r, fl, n => by simp only [List.cons_append, flPath]; exact fad_flPath_snoc_idx r _ n

theorem fad_flPath_ne : ∀ (p : Pos) (fl : FL), fl ≠ [] → flPath fl p ≠ []
  | [], _, h => h
  | .key k :: r, fl, _ => fad_flPath_ne r _ (by simp)
  | .idx n :: r, fl, _ => fad_flPath_ne r _ (bump_ne_nil fl n)

/-- positions below a dict root: empty, or starting with a key -/
def Rooted : Pos → Prop
  | [] => True
  | .key _ :: _ => True
  | .idx _ :: _ => False

theorem fad_rooted_snoc {q : Pos} (h : Rooted q) (s : Seg) (hs : q = [] → ∃ k, s = .key k) : Rooted (q ++ [s]) := by
  cases q with
  | nil => obtain ⟨k, rfl⟩ := hs rfl; trivial
  | cons a r => cases a with
    | key k => trivial
    | idx n => exact h.elim

theorem fad_flPath_rooted_ne {q : Pos} (h : Rooted q) (hne : q ≠ []) : flPath [] q ≠ [] := by
  cases q with
  | nil => exact absurd rfl hne
  | cons a r => cases a with
    | key k => exact fad_flPath_ne r _ (by simp)
    | idx n => exact h.elim

theorem fad_keyOf_rooted {q : Pos} (h : Rooted q) (hne : q ≠ []) (hp : PlainPos q) :
    keyOf (flPath [] q) = slash ++ renderPos q := by
  cases q with
  | nil => exact absurd rfl hne
  | cons a r => cases a with
    | key k => exact keyOf_flPath k r hp
    | idx n => exact h.elim

theorem fad_plainPos_append : ∀ {p q : Pos}, PlainPos p → PlainPos q → PlainPos (p ++ q)
  | [], _, _, hq => hq
  | .key _ :: _, _, hp, hq => ⟨hp.1, fad_plainPos_append hp.2 hq⟩
  | .idx _ :: r, _, hp, hq => fad_plainPos_append (p := r) hp hq

/-! ## `dict.update` with new keys appends -/

theorem fad_kvSet_new (k : Str) (v : Val) : ∀ (l : List (Str × Val)), k ∉ l.map Prod.fst → kvSet k v l = l ++ [(k, v)]
  | [], _ => rfl
  | (k', x) :: r, h => by
    simp only [List.map_cons, List.mem_cons, not_or] at h
    simp only [kvSet, h.1, if_false, List.cons_append, fad_kvSet_new k v r h.2]

theorem fad_upd_append : ∀ (l acc : Found), ((acc ++ l).map Prod.fst).Nodup → upd acc (some l) = acc ++ l := by
  intro l
  induction l with
  | nil => intro acc _; simp [upd]
  | cons e r ih =>
    intro acc h
    obtain ⟨k, v⟩ := e
    have hk : k ∉ acc.map Prod.fst := by
      simp only [List.map_append, List.map_cons, List.nodup_append, List.nodup_cons] at h
      intro hm
      exact h.2.2 k hm k (by simp) rfl
    have := ih (acc ++ [(k, v)]) (by simpa using h)
    simp only [upd, List.foldl_cons] at this ⊢
    rw [fad_kvSet_new k v acc hk, this]
    simp

theorem fad_nodup_split {acc F R : Found} (h : ((acc ++ (F ++ R)).map Prod.fst).Nodup) :
    (F.map Prod.fst).Nodup ∧ ((acc ++ F).map Prod.fst).Nodup ∧ (((acc ++ F) ++ R).map Prod.fst).Nodup := by
  have h3 : (((acc ++ F) ++ R).map Prod.fst).Nodup := by rwa [List.append_assoc]
  have h2 : ((acc ++ F).map Prod.fst).Nodup := by
    rw [List.map_append] at h3
    exact (List.nodup_append.1 h3).1
  have h1 : (F.map Prod.fst).Nodup := by
    rw [List.map_append] at h2
    exact (List.nodup_append.1 h2).2.1
  exact ⟨h1, h2, h3⟩

/-! ## the descendant search, by induction over the tree -/

/-- the tokens of `'//*/name'` -/
def fadT (name : Str) : List Str := [['*'], name]

/-- the pairs reported for the nodes `l` found below the node at position `q` -/
def fadMapR (q : Pos) (l : List (Pos × Val)) : Found :=
  l.map (fun pv => (slash ++ renderPos (q ++ pv.1), pv.2))

theorem fadMapR_append (q : Pos) (a b : List (Pos × Val)) : fadMapR q (a ++ b) = fadMapR q a ++ fadMapR q b := by
  simp [fadMapR]

theorem fadMapR_snoc (q : Pos) (s : Seg) (l : List (Pos × Val)) :
    fadMapR (q ++ [s]) l = fadMapR q (l.map (fun pv => (s :: pv.1, pv.2))) := by
  simp [fadMapR, List.map_map, Function.comp_def]

/-- `_findall(node, [name], …)` on a dictionary: the `*` step's check of the node itself -/
theorem fad_self_check (re : Bool) {name : Str} (hn : PlainKey name) (f : Nat) (c : Cls) (kvs : List (Str × Val))
    (fl : FL) (ps : PS) :
    fa re (f + 2) (.dict c kvs) [name] fl ps =
      ⟨.ok (match lookup name kvs with
        | some x => some [(keyOf (fl ++ [name]), x)]
        | Option.none => Option.none), fl, ps⟩ := by
  have hke : name.isEmpty = false := by
    cases name with
    | nil => exact absurd rfl hn.ne
    | cons _ _ => rfl
  have hks : name ≠ ['*'] := hn.keyTok.notStar
  simp only [fa, step, classify_plain hn, stepName, hke, Bool.false_eq_true, if_false, hks]
  cases lookup name kvs <;> rfl

theorem fad_star_dict (re : Bool) (f : Nat) (c : Cls) (kvs : List (Str × Val)) (rest : List Str) (fl : FL) (ps : PS)
    (self : Option Found) (h1 : fa re f (.dict c kvs) rest fl ps = ⟨.ok self, fl, ps⟩) :
    fa re (f + 1) (.dict c kvs) (['*'] :: rest) fl ps =
      ⟨keysLoop (fun k c' => fa re f c' (['*'] :: rest) (fl ++ [k]) (push ps fl (.dict c kvs))) kvs (upd [] self), fl, ps⟩ := by
  have hs : classify ['*'] = .name ['*'] := by decide
  simp only [fa, step, hs, stepName, List.isEmpty_cons, Bool.false_eq_true, if_false, if_true]
  rw [h1]

theorem fad_star_list (re : Bool) (f : Nat) (c : Cls) (xs : List Val) (rest : List Str) (fl : FL) (ps : PS)
    (hfl : fl ≠ []) :
    (fa re (f + 2) (.list c xs) (['*'] :: rest) fl ps).res =
      (starLoop (fun x cur1 => fa re f x (['*'] :: rest) cur1 (push ps cur1 (.list c xs))) re
        (fl.getLast?.getD []) 0 xs fl []).1 := by
  have hs : classify ['*'] = .name ['*'] := by decide
  have hb : classify ['[', '*', ']'] = .star := by decide
  have he : fl.isEmpty = false := by cases fl with | nil => exact absurd rfl hfl | cons _ _ => rfl
  simp only [fa, step, hs, stepName, hb, stepStar, he, Bool.false_eq_true, if_false]

section desc
variable (re : Bool) (name : Str)

/-- a container node at a rooted plain position `q` (the path list renders `q`): the search for
`*/name` returns the pairs of `descV` under their canonical xpaths, in document order -/
def FadPV (v : Val) : Prop :=
  isContainer v = true → KeysOkV v → ContOkV v → ∃ N, ∀ fuel ≥ N, ∀ (q : Pos) (ps : PS),
    Rooted q → PlainPos q → ((∃ c xs, v = .list c xs) → q ≠ []) →
    ((fadMapR q (descV name v)).map Prod.fst).Nodup →
    (fa re fuel v (fadT name) (flPath [] q) ps).res = .ok (some (fadMapR q (descV name v)))

def FadPK (kvs : List (Str × Val)) : Prop :=
  KeysOkK kvs → ContOkK kvs → ∃ N, ∀ fuel ≥ N, ∀ (q : Pos) (ps : PS) (acc : Found),
    Rooted q → PlainPos q →
    ((acc ++ fadMapR q (descK name kvs)).map Prod.fst).Nodup →
    keysLoop (fun k c => fa re fuel c (fadT name) (flPath [] q ++ [k]) ps) kvs acc =
      .ok (some (acc ++ fadMapR q (descK name kvs)))

def FadPL (xs : List Val) : Prop :=
  KeysOkL xs → ContOkL xs → ∃ N, ∀ fuel ≥ N, ∀ (q : Pos) (ps : PS) (node : Val) (i : Nat) (cur : FL) (acc : Found),
    Rooted q → q ≠ [] → PlainPos q → cur.dropLast = (flPath [] q).dropLast →
    ((acc ++ fadMapR q (descL name i xs)).map Prod.fst).Nodup →
    (starLoop (fun x cur1 => fa re fuel x (fadT name) cur1 (push ps cur1 node)) re
      ((flPath [] q).getLast?.getD []) i xs cur acc).1 = .ok (some (acc ++ fadMapR q (descL name i xs)))

theorem fad_desc_dict (hn : PlainKey name) (c : Cls) (kvs : List (Str × Val)) (hk : FadPK re name kvs) :
    FadPV re name (.dict c kvs) := by
  intro _ hko hco
  simp only [KeysOkV, ContOkV] at hko hco
  obtain ⟨N, hN⟩ := hk hko hco
  refine ⟨N + 3, fun fuel hf q ps hr hp _ hnd => ?_⟩
  obtain ⟨f, rfl⟩ : ∃ f, fuel = f + 3 := ⟨fuel - 3, by omega⟩
  have h1 := fad_self_check re hn f c kvs (flPath [] q) ps
  have h2 := fad_star_dict re (f + 2) c kvs [name] (flPath [] q) ps _ h1
  show (fa re (f + 2 + 1) (.dict c kvs) (['*'] :: [name]) (flPath [] q) ps).res = _
  rw [h2]
  simp only
  have hpn : PlainPos (q ++ [Seg.key name]) := fad_plainPos_append hp ⟨hn, trivial⟩
  have hkey : keyOf (flPath [] q ++ [name]) = slash ++ renderPos (q ++ [Seg.key name]) := by
    rw [← fad_flPath_snoc_key]
    exact fad_keyOf_rooted (fad_rooted_snoc hr _ (fun _ => ⟨name, rfl⟩)) (by simp) hpn
  simp only [descV, fadMapR_append] at hnd ⊢
  have hacc : upd [] (match lookup name kvs with
      | some x => some [(keyOf (flPath [] q ++ [name]), x)]
      | Option.none => Option.none) =
      fadMapR q (match lookup name kvs with
        | some c => [([Seg.key name], c)]
        | Option.none => []) := by
    cases lookup name kvs with
    | none => rfl
    | some x => simp only [hkey]; rfl
  rw [hacc]
  exact hN (f + 2) (by omega) q _ _ hr hp hnd

theorem fad_desc_list (c : Cls) (xs : List Val) (hl : FadPL re name xs) : FadPV re name (.list c xs) := by
  intro _ hko hco
  simp only [KeysOkV, ContOkV] at hko hco
  obtain ⟨N, hN⟩ := hl hko hco
  refine ⟨N + 2, fun fuel hf q ps hr hp hq hnd => ?_⟩
  obtain ⟨f, rfl⟩ : ∃ f, fuel = f + 2 := ⟨fuel - 2, by omega⟩
  have hq' : q ≠ [] := hq ⟨c, xs, rfl⟩
  show (fa re (f + 2) (.list c xs) (['*'] :: [name]) (flPath [] q) ps).res = _
  rw [fad_star_list re f c xs [name] (flPath [] q) ps (fad_flPath_rooted_ne hr hq')]
  simp only [descV] at hnd ⊢
  have := hN f (by omega) q ps (.list c xs) 0 (flPath [] q) [] hr hq' hp rfl (by simpa using hnd)
  simpa [fadT] using this

theorem fad_desc_kcons (k : Str) (c : Val) (kvs : List (Str × Val)) (hv : FadPV re name c) (hk : FadPK re name kvs) :
    FadPK re name ((k, c) :: kvs) := by
  intro hko hco
  simp only [KeysOkK, ContOkK] at hko hco
  obtain ⟨hpk, _, hkc, hkk⟩ := hko
  obtain ⟨N2, hN2⟩ := hk hkk hco.2
  by_cases hc : isContainer c = true
  · obtain ⟨N1, hN1⟩ := hv hc hkc hco.1
    refine ⟨max N1 N2, fun fuel hf q ps acc hr hp hnd => ?_⟩
    have hf1 : fuel ≥ N1 := by omega
    have hf2 : fuel ≥ N2 := by omega
    simp only [descK, fadMapR_append] at hnd ⊢
    rw [← fadMapR_snoc] at hnd ⊢
    obtain ⟨hd1, hd2, hd3⟩ := fad_nodup_split hnd
    have hcall := hN1 fuel hf1 (q ++ [Seg.key k]) ps (fad_rooted_snoc hr _ (fun _ => ⟨k, rfl⟩))
      (fad_plainPos_append hp ⟨hpk, trivial⟩) (fun _ => by simp) hd1
    rw [fad_flPath_snoc_key] at hcall
    simp only [keysLoop, hc, if_true, hcall]
    rw [fad_upd_append _ _ hd2, hN2 fuel hf2 q ps _ hr hp hd3, List.append_assoc]
  · have hc' : isContainer c = false := by simpa using hc
    refine ⟨N2, fun fuel hf q ps acc hr hp hnd => ?_⟩
    simp only [descK, fad_descV_scalar name c hc', List.map_nil, List.nil_append] at hnd ⊢
    simp only [keysLoop, hc', Bool.false_eq_true, if_false]
    exact hN2 fuel hf q ps acc hr hp hnd

theorem fad_desc_lcons (x : Val) (xs : List Val) (hv : FadPV re name x) (hl : FadPL re name xs) :
    FadPL re name (x :: xs) := by
  intro hko hco
  simp only [KeysOkL, ContOkL] at hko hco
  obtain ⟨hcx, hcv, hcl⟩ := hco
  obtain ⟨N1, hN1⟩ := hv hcx hko.1 hcv
  obtain ⟨N2, hN2⟩ := hl hko.2 hcl
  refine ⟨max N1 N2, fun fuel hf q ps node i cur acc hr hq hp hcur hnd => ?_⟩
  have hf1 : fuel ≥ N1 := by omega
  have hf2 : fuel ≥ N2 := by omega
  simp only [descL, fadMapR_append] at hnd ⊢
  rw [← fadMapR_snoc] at hnd ⊢
  obtain ⟨hd1, hd2, hd3⟩ := fad_nodup_split hnd
  have hfl := fad_flPath_rooted_ne hr hq
  have hcur1 : setLast cur ((flPath [] q).getLast?.getD [] ++ bracket (natRepr i)) = flPath [] (q ++ [Seg.idx i]) := by
    rw [fad_flPath_snoc_idx]
    have he : (flPath [] q).isEmpty = false := by
      cases hh : flPath [] q with
      | nil => exact absurd hh hfl
      | cons _ _ => rfl
    simp only [bump, he, Bool.false_eq_true, if_false, setLast, hcur]
  have hcall := hN1 fuel hf1 (q ++ [Seg.idx i]) (push ps (flPath [] (q ++ [Seg.idx i])) node)
    (fad_rooted_snoc hr _ (fun h => absurd h hq))
    (fad_plainPos_append hp (by trivial)) (fun _ => by simp) hd1
  simp only [starLoop, hcx, if_true, hcur1, hcall]
  rw [fad_upd_append _ _ hd2]
  have hdl : (fa re fuel x (fadT name) (flPath [] (q ++ [Seg.idx i])) (push ps (flPath [] (q ++ [Seg.idx i])) node)).fl.dropLast
      = (flPath [] q).dropLast := by
    rw [fa_dl, ← hcur1, setLast_dropLast, hcur]
  rw [hN2 fuel hf2 q ps node (i + 1) _ _ hr hq hp hdl hd3, List.append_assoc]

theorem fad_desc_all (hn : PlainKey name) :
    (∀ v, FadPV re name v) ∧ (∀ kvs, FadPK re name kvs) ∧ (∀ xs, FadPL re name xs) := by
  refine fad_val_ind (fun c kvs h => fad_desc_dict re name hn c kvs h) (fun c xs h => fad_desc_list re name c xs h)
    (fun v hv hc => by rw [hv] at hc; cases hc) ?_ (fun k c kvs h1 h2 => fad_desc_kcons re name k c kvs h1 h2) ?_
    (fun x xs h1 h2 => fad_desc_lcons re name x xs h1 h2)
  · intro _ _
    exact ⟨0, fun fuel _ q ps acc _ _ _ => by simp [keysLoop, descK, fadMapR]⟩
  · intro _ _
    exact ⟨0, fun fuel _ q ps node i cur acc _ _ _ _ _ => by simp [starLoop, descL, fadMapR]⟩

end desc

/-! ## the positions listed by `descV` are distinct -/

/-- distinct first components -/
abbrev FadDistinct (l : List (Pos × Val)) : Prop := l.Pairwise (fun a b => a.1 ≠ b.1)

theorem fad_lookup_some_of_mem {k : Str} {c : Val} : ∀ {kvs : List (Str × Val)}, (k, c) ∈ kvs → (lookup k kvs).isSome = true
  | [], h => by cases h
  | (k', x) :: r, h => by
    simp only [lookup]
    split
    · rfl
    · simp only [List.mem_cons, Prod.mk.injEq] at h
      rcases h with ⟨rfl, _⟩ | h
      · contradiction
      · exact fad_lookup_some_of_mem h

theorem fad_desc_distinct (name : Str) :
    (∀ v, KeysOkV v → FadDistinct (descV name v) ∧ ∀ pv ∈ descV name v, pv.1 ≠ []) ∧
    (∀ kvs, KeysOkK kvs → FadDistinct (descK name kvs) ∧
      ∀ pv ∈ descK name kvs, ∃ k r, pv.1 = Seg.key k :: r ∧ r ≠ [] ∧ (lookup k kvs).isSome = true) ∧
    (∀ xs, KeysOkL xs → ∀ i, FadDistinct (descL name i xs) ∧
      ∀ pv ∈ descL name i xs, ∃ j r, pv.1 = Seg.idx j :: r ∧ i ≤ j) := by
  refine fad_val_ind ?_ ?_ ?_ ?_ ?_ ?_ ?_
  · intro c kvs ih hk
    simp only [KeysOkV] at hk
    obtain ⟨hd, hm⟩ := ih hk
    simp only [descV]
    constructor
    · refine List.pairwise_append.2 ⟨?_, hd, ?_⟩
      · cases lookup name kvs <;> simp
      · intro a ha b hb
        obtain ⟨k, r, hb1, hr, _⟩ := hm b hb
        cases hl : lookup name kvs with
        | none => rw [hl] at ha; cases ha
        | some x =>
          rw [hl] at ha
          simp only [List.mem_singleton] at ha
          subst ha
          rw [hb1]
          intro h
          simp only [List.cons.injEq] at h
          exact hr h.2.symm
    · intro pv hpv
      simp only [List.mem_append] at hpv
      rcases hpv with h | h
      · cases hl : lookup name kvs with
        | none => rw [hl] at h; cases h
        | some x => rw [hl] at h; simp only [List.mem_singleton] at h; subst h; simp
      · obtain ⟨k, r, h1, _, _⟩ := hm pv h
        rw [h1]; simp
  · intro c xs ih hk
    simp only [KeysOkV] at hk
    obtain ⟨hd, hm⟩ := ih hk 0
    simp only [descV]
    refine ⟨hd, fun pv hpv => ?_⟩
    obtain ⟨j, r, h1, _⟩ := hm pv hpv
    rw [h1]; simp
  · intro v hv _
    rw [fad_descV_scalar name v hv]
    exact ⟨List.Pairwise.nil, fun _ h => by cases h⟩
  · intro _
    simp [descK]
  · intro k c kvs ihv ihk hk
    simp only [KeysOkK] at hk
    obtain ⟨_, hnone, hkc, hkk⟩ := hk
    obtain ⟨hd1, hm1⟩ := ihv hkc
    obtain ⟨hd2, hm2⟩ := ihk hkk
    simp only [descK]
    constructor
    · refine List.pairwise_append.2 ⟨?_, hd2, ?_⟩
      · refine List.pairwise_map.2 ?_
        exact hd1.imp (fun h h' => h (by simpa using h'))
      · intro a ha b hb
        simp only [List.mem_map] at ha
        obtain ⟨a', _, rfl⟩ := ha
        obtain ⟨k', r, hb1, _, hsome⟩ := hm2 b hb
        rw [hb1]
        intro h
        simp only [List.cons.injEq, Seg.key.injEq] at h
        rw [← h.1, hnone] at hsome
        cases hsome
    · intro pv hpv
      simp only [List.mem_append, List.mem_map] at hpv
      rcases hpv with ⟨a, ha, rfl⟩ | h
      · exact ⟨k, a.1, rfl, hm1 a ha, by simp [lookup]⟩
      · obtain ⟨k', r, h1, hr, hsome⟩ := hm2 pv h
        refine ⟨k', r, h1, hr, ?_⟩
        simp only [lookup]
        split
        · rfl
        · exact hsome
  · intro _ i
    simp [descL]
  · intro x xs ihv ihl hk i
    simp only [KeysOkL] at hk
    obtain ⟨hd1, _⟩ := ihv hk.1
    obtain ⟨hd2, hm2⟩ := ihl hk.2 (i + 1)
    simp only [descL]
    constructor
    · refine List.pairwise_append.2 ⟨?_, hd2, ?_⟩
      · refine List.pairwise_map.2 ?_
        exact hd1.imp (fun h h' => h (by simpa using h'))
      · intro a ha b hb
        simp only [List.mem_map] at ha
        obtain ⟨a', _, rfl⟩ := ha
        obtain ⟨j, r, hb1, hj⟩ := hm2 b hb
        rw [hb1]
        intro h
        simp only [List.cons.injEq, Seg.idx.injEq] at h
        omega
    · intro pv hpv
      simp only [List.mem_append, List.mem_map] at hpv
      rcases hpv with ⟨a, _, rfl⟩ | h
      · exact ⟨i, a.1, rfl, Nat.le_refl _⟩
      · obtain ⟨j, r, h1, hj⟩ := hm2 pv h
        exact ⟨j, r, h1, by omega⟩

/-! ## `descV` lists exactly the positions whose last segment is the key `name` -/

theorem fad_keysOk_lookup : ∀ {kvs : List (Str × Val)} {k : Str} {c : Val}, KeysOkK kvs → lookup k kvs = some c →
    PlainKey k ∧ KeysOkV c ∧ (k, c) ∈ kvs
  | [], _, _, _, h => by cases h
  | (k', x) :: r, k, c, hk, h => by
    simp only [KeysOkK] at hk
    simp only [lookup] at h
    split at h
    · cases h
      rename_i heq
      subst heq
      exact ⟨hk.1, hk.2.2.1, by simp⟩
    · obtain ⟨h1, h2, h3⟩ := fad_keysOk_lookup hk.2.2.2 h
      exact ⟨h1, h2, by simp [h3]⟩

theorem fad_keysOk_mem_lookup : ∀ {kvs : List (Str × Val)} {k : Str} {c : Val}, KeysOkK kvs → (k, c) ∈ kvs →
    lookup k kvs = some c
  | [], _, _, _, h => by cases h
  | (k', x) :: r, k, c, hk, h => by
    simp only [KeysOkK] at hk
    simp only [List.mem_cons, Prod.mk.injEq] at h
    simp only [lookup]
    rcases h with ⟨rfl, rfl⟩ | h
    · simp
    · split
      · rename_i heq
        subst heq
        have := fad_lookup_some_of_mem h
        rw [hk.2.1] at this
        cases this
      · exact fad_keysOk_mem_lookup hk.2.2.2 h

theorem fad_keysOk_elem : ∀ {xs : List Val} {i : Nat} {x : Val}, KeysOkL xs → xs[i]? = some x → KeysOkV x
  | [], _, _, _, h => by simp at h
  | y :: r, 0, x, hk, h => by
    simp only [KeysOkL] at hk
    simp only [List.getElem?_cons_zero, Option.some.injEq] at h
    subst h; exact hk.1
  | y :: r, i + 1, x, hk, h => by
    simp only [KeysOkL] at hk
    simp only [List.getElem?_cons_succ] at h
    exact fad_keysOk_elem hk.2 h

/-- along an existing position the keys are plain and the node reached is well-formed again -/
theorem fad_keysOk_getAt : ∀ (p : Pos) {t v : Val}, KeysOkV t → getAt t p = some v → PlainPos p ∧ KeysOkV v
  | [], t, v, hk, h => by
    simp only [Val.getAt, Option.some.injEq] at h
    subst h; exact ⟨trivial, hk⟩
  | .key k :: r, t, v, hk, h => by
    cases t with
    | dict c kvs =>
      simp only [Val.getAt, child] at h
      cases hl : lookup k kvs with
      | none => rw [hl] at h; cases h
      | some x =>
        rw [hl] at h
        simp only [KeysOkV] at hk
        obtain ⟨h1, h2, _⟩ := fad_keysOk_lookup hk hl
        obtain ⟨h3, h4⟩ := fad_keysOk_getAt r h2 h
        exact ⟨⟨h1, h3⟩, h4⟩
    | _ => simp [Val.getAt, child] at h
  | .idx n :: r, t, v, hk, h => by
    cases t with
    | list c xs =>
      simp only [Val.getAt, child] at h
      cases hl : xs[n]? with
      | none => rw [hl] at h; cases h
      | some x =>
        rw [hl] at h
        simp only [KeysOkV] at hk
        obtain ⟨h3, h4⟩ := fad_keysOk_getAt r (fad_keysOk_elem hk hl) h
        exact ⟨h3, h4⟩
    | _ => simp [Val.getAt, child] at h

theorem fad_desc_mem (name : Str) :
    (∀ v, KeysOkV v → ∀ p w, (p, w) ∈ descV name v ↔ (∃ q, p = q ++ [Seg.key name]) ∧ getAt v p = some w) ∧
    (∀ kvs, KeysOkK kvs → ∀ p w, (p, w) ∈ descK name kvs ↔
      ∃ k c r, (k, c) ∈ kvs ∧ p = Seg.key k :: r ∧ (∃ q, r = q ++ [Seg.key name]) ∧ getAt c r = some w) ∧
    (∀ xs, KeysOkL xs → ∀ i p w, (p, w) ∈ descL name i xs ↔
      ∃ j x r, xs[j]? = some x ∧ p = Seg.idx (i + j) :: r ∧ (∃ q, r = q ++ [Seg.key name]) ∧ getAt x r = some w) := by
  refine fad_val_ind ?_ ?_ ?_ ?_ ?_ ?_ ?_
  · intro c kvs ih hk p w
    simp only [KeysOkV] at hk
    simp only [descV, List.mem_append, ih hk]
    constructor
    · rintro (h | ⟨k, x, r, hm, rfl, ⟨q, rfl⟩, hg⟩)
      · cases hl : lookup name kvs with
        | none => rw [hl] at h; cases h
        | some x =>
          rw [hl] at h
          simp only [List.mem_singleton, Prod.mk.injEq] at h
          obtain ⟨rfl, rfl⟩ := h
          exact ⟨⟨[], rfl⟩, by simp [Val.getAt, child, hl]⟩
      · refine ⟨⟨Seg.key k :: q, rfl⟩, ?_⟩
        simp only [Val.getAt, child, fad_keysOk_mem_lookup hk hm, Option.bind_some]
        exact hg
    · rintro ⟨⟨q, rfl⟩, hg⟩
      cases q with
      | nil =>
        left
        simp only [List.nil_append, Val.getAt, child] at hg
        cases hl : lookup name kvs with
        | none => rw [hl] at hg; cases hg
        | some x =>
          rw [hl] at hg
          simp only [Option.bind_some, Option.some.injEq] at hg
          subst hg
          simp
      | cons s q =>
        right
        cases s with
        | key k =>
          simp only [List.cons_append, Val.getAt, child] at hg
          cases hl : lookup k kvs with
          | none => rw [hl] at hg; cases hg
          | some x =>
            rw [hl] at hg
            exact ⟨k, x, q ++ [Seg.key name], (fad_keysOk_lookup hk hl).2.2, rfl, ⟨q, rfl⟩, hg⟩
        | idx n => simp [Val.getAt, child] at hg
  · intro c xs ih hk p w
    simp only [KeysOkV] at hk
    simp only [descV, ih hk 0]
    constructor
    · rintro ⟨j, x, r, hx, rfl, ⟨q, rfl⟩, hg⟩
      refine ⟨⟨Seg.idx (0 + j) :: q, rfl⟩, ?_⟩
      simp only [Val.getAt, child, Nat.zero_add, hx, Option.bind_some]
      exact hg
    · rintro ⟨⟨q, rfl⟩, hg⟩
      cases q with
      | nil => simp [Val.getAt, child] at hg
      | cons s q =>
        cases s with
        | key k => simp [Val.getAt, child] at hg
        | idx n =>
          simp only [List.cons_append, Val.getAt, child] at hg
          cases hl : xs[n]? with
          | none => rw [hl] at hg; cases hg
          | some x =>
            rw [hl] at hg
            exact ⟨n, x, q ++ [Seg.key name], hl, by simp, ⟨q, rfl⟩, hg⟩
  · intro v hv _ p w
    rw [fad_descV_scalar name v hv]
    constructor
    · intro h; cases h
    · rintro ⟨⟨q, rfl⟩, hg⟩
      cases q with
      | nil => cases v <;> simp [isContainer] at hv <;> simp [Val.getAt, child] at hg
      | cons s q => cases v <;> simp [isContainer] at hv <;> simp [Val.getAt, child] at hg
  · intro _ p w
    simp [descK]
  · intro k c kvs ihv ihk hk p w
    simp only [KeysOkK] at hk
    simp only [descK, List.mem_append, List.mem_map, ihk hk.2.2.2]
    constructor
    · rintro (⟨⟨r, w'⟩, hm, heq⟩ | ⟨k', c', r, hm, rfl, hq, hg⟩)
      · simp only [Prod.mk.injEq] at heq
        obtain ⟨rfl, rfl⟩ := heq
        obtain ⟨hq, hg⟩ := (ihv hk.2.2.1 r w').1 hm
        exact ⟨k, c, r, by simp, rfl, hq, hg⟩
      · exact ⟨k', c', r, by simp [hm], rfl, hq, hg⟩
    · rintro ⟨k', c', r, hm, rfl, hq, hg⟩
      simp only [List.mem_cons, Prod.mk.injEq] at hm
      rcases hm with ⟨rfl, rfl⟩ | hm
      · left
        exact ⟨(r, w), (ihv hk.2.2.1 r w).2 ⟨hq, hg⟩, rfl⟩
      · right
        exact ⟨k', c', r, hm, rfl, hq, hg⟩
  · intro _ i p w
    simp [descL]
  · intro x xs ihv ihl hk i p w
    simp only [KeysOkL] at hk
    simp only [descL, List.mem_append, List.mem_map, ihl hk.2]
    constructor
    · rintro (⟨⟨r, w'⟩, hm, heq⟩ | ⟨j, x', r, hx, rfl, hq, hg⟩)
      · simp only [Prod.mk.injEq] at heq
        obtain ⟨rfl, rfl⟩ := heq
        obtain ⟨hq, hg⟩ := (ihv hk.1 r w').1 hm
        exact ⟨0, x, r, by simp, rfl, hq, hg⟩
      · exact ⟨j + 1, x', r, by simpa using hx, by simp; omega, hq, hg⟩
    · rintro ⟨j, x', r, hx, rfl, hq, hg⟩
      cases j with
      | zero =>
        left
        simp only [List.getElem?_cons_zero, Option.some.injEq] at hx
        subst hx
        exact ⟨(r, w), (ihv hk.1 r w).2 ⟨hq, hg⟩, rfl⟩
      | succ j =>
        right
        simp only [List.getElem?_cons_succ] at hx
        exact ⟨j, x', r, hx, by simp; omega, hq, hg⟩

/-! ## the found-path list as a list of groups (a key and the indexes attached to it) -/

/-- one element of `found_xpath_list`: a key and the integer indexes appended to it -/
abbrev Grp := Str × List Int

def grpText (g : Grp) : Str := g.1 ++ g.2.flatMap (fun i => bracket (intRepr i))

def flOfG (gs : List Grp) : FL := gs.map grpText

/-- the index spelling `findall` writes: the integer as `str()` prints it -/
def spOfInt : Int → IdxSp
  | .ofNat n => .lit n
  | .negSucc n => .neg (n + 1)

theorem spOfInt_text (i : Int) : (spOfInt i).text = intRepr i := by cases i <;> rfl

theorem spOfInt_val (i : Int) : (spOfInt i).val = i := by
  cases i with
  | ofNat n => rfl
  | negSucc n => simp only [spOfInt, IdxSp.val]; omega

/-- the steps a list of groups spells (every index attached) -/
def stepsOfG (gs : List Grp) : List StepSp :=
  gs.flatMap (fun g => StepSp.key g.1 :: g.2.map (fun i => StepSp.idx (spOfInt i) false))

/-- `found_xpath_list[-1] += "[i]"` -/
def addIdx (gs : List Grp) (i : Int) : List Grp :=
  match gs.getLast? with
  | some g => gs.dropLast ++ [(g.1, g.2 ++ [i])]
  | Option.none => []

def GrpsPlain (gs : List Grp) : Prop := ∀ g ∈ gs, PlainKey g.1

theorem fad_plainSteps : ∀ (gs : List Grp), GrpsPlain gs → PlainSteps (stepsOfG gs) := by
  intro gs
  induction gs with
  | nil => intro _; trivial
  | cons g r ih =>
    intro h
    have h1 : PlainKey g.1 := h g (by simp)
    have h2 := ih (fun g' hg' => h g' (by simp [hg']))
    have aux : ∀ (is : List Int) (t : List StepSp), PlainSteps t →
        PlainSteps (is.map (fun i => StepSp.idx (spOfInt i) false) ++ t) := by
      intro is t ht
      induction is with
      | nil => exact ht
      | cons i r ih' => exact ih'
    simp only [stepsOfG, List.flatMap_cons, List.cons_append]
    exact ⟨h1, aux _ _ h2⟩

theorem grpText_noSlash {g : Grp} (hk : PlainKey g.1) : ∀ c ∈ grpText g, c ≠ '/' := by
  intro c hc
  simp only [grpText, List.mem_append, List.mem_flatMap] at hc
  rcases hc with hc | ⟨i, _, hc⟩
  · exact hk.noSlash c hc
  · have := bracketSp_noSlash (spOfInt i) c
    rw [spOfInt_text] at this
    exact this hc

theorem grpText_head {g : Grp} (hk : PlainKey g.1) : ∃ c r, grpText g = c :: r ∧ c ≠ '[' := by
  obtain ⟨c, r, hcr, _, h2⟩ := PlainKey.head_ne hk
  exact ⟨c, r ++ g.2.flatMap (fun i => bracket (intRepr i)), by simp [grpText, hcr], h2⟩

theorem fad_join_head (g : Grp) (r : List Grp) (hk : PlainKey g.1) :
    ∃ c t, join ['/'] (flOfG (g :: r)) = c :: t ∧ c ≠ '[' := by
  obtain ⟨c, t, hct, hc⟩ := grpText_head hk
  cases r with
  | nil => exact ⟨c, t, by simp [flOfG, join, hct], hc⟩
  | cons g' r' =>
    refine ⟨c, t ++ ['/'] ++ join ['/'] (flOfG (g' :: r')), ?_, hc⟩
    simp [flOfG, join, hct]

/-- `replace('/[', '[')` does nothing to the joined groups: a '/' is always followed by a key -/
theorem fad_delSB_join : ∀ (gs : List Grp), GrpsPlain gs → delSB (join ['/'] (flOfG gs)) = join ['/'] (flOfG gs) := by
  intro gs
  induction gs with
  | nil => intro _; rfl
  | cons g r ih =>
    intro h
    have hk : PlainKey g.1 := h g (by simp)
    have hr : GrpsPlain r := fun g' hg' => h g' (by simp [hg'])
    cases r with
    | nil =>
      have := delSB_append_noSlash (grpText g) [] (grpText_noSlash hk)
      simpa [flOfG, join, delSB] using this
    | cons g' r' =>
      have e : join ['/'] (flOfG (g :: g' :: r')) = grpText g ++ '/' :: join ['/'] (flOfG (g' :: r')) := by
        simp [flOfG, join]
      obtain ⟨c, t, hct, hc⟩ := fad_join_head g' r' (hr g' (by simp))
      rw [e, delSB_append_noSlash _ _ (grpText_noSlash hk)]
      have : delSB ('/' :: join ['/'] (flOfG (g' :: r'))) = '/' :: delSB (join ['/'] (flOfG (g' :: r'))) := by
        rw [delSB, hct]
        simp [hc]
      rw [this, ih hr]

theorem fad_keyOf_groups (gs : List Grp) (h : GrpsPlain gs) : keyOf (flOfG gs) = '/' :: '/' :: join ['/'] (flOfG gs) := by
  simp only [keyOf, fad_delSB_join gs h]

/-- text of the groups with a '/' before each -/
def grpsR (gs : List Grp) : Str := gs.flatMap (fun g => '/' :: grpText g)

theorem fad_slash_join : ∀ (gs : List Grp), gs ≠ [] → '/' :: join ['/'] (flOfG gs) = grpsR gs := by
  intro gs
  induction gs with
  | nil => intro h; exact absurd rfl h
  | cons g r ih =>
    intro _
    cases r with
    | nil => simp [flOfG, join, grpsR]
    | cons g' r' =>
      have e : join ['/'] (flOfG (g :: g' :: r')) = grpText g ++ '/' :: join ['/'] (flOfG (g' :: r')) := by
        simp [flOfG, join]
      rw [e, ih (by simp)]
      simp [grpsR]

theorem fad_renderSteps_groups (gs : List Grp) : renderSteps (stepsOfG gs) = grpsR gs := by
  induction gs with
  | nil => rfl
  | cons g r ih =>
    have aux : ∀ (is : List Int), renderSteps (is.map (fun i => StepSp.idx (spOfInt i) false)) =
        is.flatMap (fun i => bracket (intRepr i)) := by
      intro is
      induction is with
      | nil => rfl
      | cons i r ih' =>
        simp only [List.map_cons, renderSteps_cons, renderStep, spOfInt_text, ih', List.flatMap_cons]
    have e : stepsOfG (g :: r) = (StepSp.key g.1 :: g.2.map (fun i => StepSp.idx (spOfInt i) false)) ++ stepsOfG r := by
      simp [stepsOfG]
    have happ : ∀ a b : List StepSp, renderSteps (a ++ b) = renderSteps a ++ renderSteps b := by
      intro a b; simp [renderSteps]
    rw [e, happ, renderSteps_cons, aux, ih]
    simp [grpsR, grpText, renderStep]

/-- **the key `findall` reports is the `//` spelling of the steps** the path list stands for -/
theorem fad_keyOf_renderSp (gs : List Grp) (h : GrpsPlain gs) : keyOf (flOfG gs) = renderSp .two (stepsOfG gs) := by
  rw [fad_keyOf_groups gs h, renderSp, fad_renderSteps_groups]
  cases gs with
  | nil => rfl
  | cons g r =>
    rw [← fad_slash_join (g :: r) (by simp)]
    simp [leadStr, dropSlash]

theorem fad_grpsR_append (a b : List Grp) : grpsR (a ++ b) = grpsR a ++ grpsR b := by simp [grpsR]

theorem fad_grpsR_len {gs : List Grp} (h : GrpsPlain gs) (hne : gs ≠ []) : (grpsR gs).length ≥ 2 := by
  cases gs with
  | nil => exact absurd rfl hne
  | cons g r =>
    obtain ⟨c, t, hct, _⟩ := grpText_head (h g (by simp))
    simp [grpsR, hct]

theorem fad_join_len (gs : List Grp) : (join ['/'] (flOfG gs)).length + 1 = (grpsR gs).length ∨ gs = [] := by
  by_cases h : gs = []
  · exact Or.inr h
  · left
    rw [← fad_slash_join gs h]
    simp

/-- the key of a proper prefix of the path list differs from the key of the whole list -/
theorem fad_keyOf_prefix_ne (gs1 gs2 : List Grp) (h : GrpsPlain (gs1 ++ gs2)) (hne : gs2 ≠ []) :
    keyOf (flOfG gs1) ≠ keyOf (flOfG (gs1 ++ gs2)) := by
  have h1 : GrpsPlain gs1 := fun g hg => h g (by simp [hg])
  have h2 : GrpsPlain gs2 := fun g hg => h g (by simp [hg])
  rw [fad_keyOf_groups _ h1, fad_keyOf_groups _ h]
  intro heq
  simp only [List.cons.injEq, true_and] at heq
  have hl := congrArg List.length heq
  have l2 := fad_grpsR_len h2 hne
  have la := fad_grpsR_append gs1 gs2
  have lb := congrArg List.length la
  simp only [List.length_append] at lb
  rcases fad_join_len (gs1 ++ gs2) with e | e
  · rcases fad_join_len gs1 with e1 | e1
    · omega
    · subst e1
      simp only [List.nil_append] at hl e
      have : (join ['/'] (flOfG [])).length = 0 := rfl
      omega
  · simp at e
    exact hne e.2

/-! ## the invariant: the path list renders the position of the current node -/

theorem fad_stepsGet_nil (v : Val) : stepsGet v [] = some v := by cases v <;> rfl

theorem fad_stepsGet_append : ∀ (a b : List StepSp) (v : Val),
    stepsGet v (a ++ b) = (stepsGet v a).bind (fun n => stepsGet n b)
  | [], b, v => by simp [fad_stepsGet_nil]
  | .key k :: r, b, v => by
    cases v with
    | dict c kvs =>
      simp only [List.cons_append, stepsGet]
      cases lookup k kvs with
      | none => rfl
      | some x => simp only [Option.bind_some]; exact fad_stepsGet_append r b x
    | _ => simp [stepsGet]
  | .idx e s :: r, b, v => by
    cases v with
    | list c xs =>
      simp only [List.cons_append, stepsGet]
      cases pyIndex xs e.val with
      | none => rfl
      | some x => simp only [Option.bind_some]; exact fad_stepsGet_append r b x
    | _ => simp [stepsGet]

theorem fad_keysOk_stepsGet : ∀ (steps : List StepSp) {v n : Val}, KeysOkV v → stepsGet v steps = some n → KeysOkV n
  | [], v, n, hk, h => by
    rw [fad_stepsGet_nil] at h
    cases h; exact hk
  | .key k :: r, v, n, hk, h => by
    obtain ⟨cls, kvs, x, rfl, hl, hr⟩ := stepsGet_key_inv h
    simp only [KeysOkV] at hk
    exact fad_keysOk_stepsGet r (fad_keysOk_lookup hk hl).2.1 hr
  | .idx e s :: r, v, n, hk, h => by
    obtain ⟨cls, xs, m, y, rfl, _, hx, hr⟩ := stepsGet_idx_inv h
    simp only [KeysOkV] at hk
    exact fad_keysOk_stepsGet r (fad_keysOk_elem hk hx) hr

theorem fad_addIdx_snoc (init : List Grp) (g : Grp) (i : Int) :
    addIdx (init ++ [g]) i = init ++ [(g.1, g.2 ++ [i])] := by
  simp [addIdx]

theorem fad_snoc_of_ne {gs : List Grp} (h : gs ≠ []) : ∃ init g, gs = init ++ [g] :=
  ⟨gs.dropLast, gs.getLast h, (List.dropLast_concat_getLast h).symm⟩

theorem fad_grpText_addIdx (g : Grp) (i : Int) : grpText (g.1, g.2 ++ [i]) = grpText g ++ bracket (intRepr i) := by
  simp [grpText]

theorem fad_stepsOfG_snoc_key (gs : List Grp) (k : Str) : stepsOfG (gs ++ [(k, [])]) = stepsOfG gs ++ [StepSp.key k] := by
  simp [stepsOfG]

theorem fad_stepsOfG_addIdx (init : List Grp) (g : Grp) (i : Int) :
    stepsOfG (init ++ [(g.1, g.2 ++ [i])]) = stepsOfG (init ++ [g]) ++ [StepSp.idx (spOfInt i) false] := by
  simp [stepsOfG]

/-- the in-place update of the last element, whatever the last element currently is -/
theorem fad_setLast_addIdx {gs : List Grp} (hne : gs ≠ []) (cur : FL) (hcur : cur.dropLast = (flOfG gs).dropLast) (i : Int) :
    setLast cur ((flOfG gs).getLast?.getD [] ++ bracket (intRepr i)) = flOfG (addIdx gs i) := by
  obtain ⟨init, g, rfl⟩ := fad_snoc_of_ne hne
  rw [fad_addIdx_snoc]
  simp only [setLast, hcur, flOfG, List.map_append, List.map_cons, List.map_nil, List.dropLast_concat,
    List.getLast?_append, List.getLast?_singleton, Option.some_or, Option.getD_some, fad_grpText_addIdx]

theorem fad_flOfG_isEmpty {gs : List Grp} (hne : gs ≠ []) : (flOfG gs).isEmpty = false := by
  cases gs with
  | nil => exact absurd rfl hne
  | cons _ _ => rfl

/-- **the invariant** of a call `_findall(node, …, found_xpath_list = fl, parent_nodes_stack = ps)`
inside a search on `root`: the path list is the text of groups that spell a walk from the root to
`node`, and every proper prefix of the path list that is registered in the stack is registered
with the node that prefix leads to -/
structure FadInv (root : Val) (gs : List Grp) (node : Val) (fl : FL) (ps : PS) : Prop where
  plain : GrpsPlain gs
  fl_eq : fl = flOfG gs
  at_ : stepsGet root (stepsOfG gs) = some node
  stack : ∀ m, m < gs.length → ∀ nd, lookup (keyOf (flOfG (gs.take m))) ps = some nd →
    stepsGet root (stepsOfG (gs.take m)) = some nd

theorem FadInv.start (root : Val) : FadInv root [] root [] [] where
  plain := fun _ h => by cases h
  fl_eq := rfl
  at_ := fad_stepsGet_nil root
  stack := fun m h => by simp at h

theorem fad_take_prefix_ne {gs : List Grp} (hp : GrpsPlain gs) {m : Nat} (hm : m < gs.length) :
    keyOf (flOfG (gs.take m)) ≠ keyOf (flOfG gs) := by
  have e : gs.take m ++ gs.drop m = gs := List.take_append_drop m gs
  have hd : gs.drop m ≠ [] := by
    intro h
    have := congrArg List.length h
    simp at this
    omega
  have := fad_keyOf_prefix_ne (gs.take m) (gs.drop m) (by rw [e]; exact hp) hd
  rwa [e] at this

/-- a name step (also the descent of `*` into a child) -/
theorem FadInv.key {root : Val} {gs : List Grp} {c : Cls} {kvs : List (Str × Val)} {fl : FL} {ps : PS}
    (h : FadInv root gs (.dict c kvs) fl ps) {k : Str} {child : Val} (hk : PlainKey k)
    (hl : lookup k kvs = some child) :
    FadInv root (gs ++ [(k, [])]) child (fl ++ [k]) (push ps fl (.dict c kvs)) := by
  have hpl : GrpsPlain (gs ++ [(k, [])]) := by
    intro g hg
    simp only [List.mem_append, List.mem_singleton] at hg
    rcases hg with hg | rfl
    · exact h.plain g hg
    · exact hk
  refine ⟨hpl, ?_, ?_, ?_⟩
  · simp [flOfG, grpText, h.fl_eq]
  · rw [fad_stepsOfG_snoc_key, fad_stepsGet_append, h.at_]
    simp [stepsGet, hl]
  · intro m hm nd hlk
    simp only [List.length_append, List.length_singleton] at hm
    have htake : (gs ++ [((k, []) : Grp)]).take m = gs.take m := List.take_append_of_le_length (by omega)
    rw [htake] at hlk ⊢
    by_cases hmm : m = gs.length
    · subst hmm
      rw [List.take_length] at hlk ⊢
      rw [← h.fl_eq, push, lookup_kvSet_same] at hlk
      cases hlk
      exact h.at_
    · have hm' : m < gs.length := by omega
      have hne := fad_take_prefix_ne h.plain hm'
      rw [push, lookup_kvSet_other _ _ _ _ (by rw [h.fl_eq]; exact hne)] at hlk
      exact h.stack m hm' nd hlk

/-- registering the current node under its own xpath (what a `text()` condition does) -/
theorem FadInv.register {root : Val} {gs : List Grp} {node : Val} {fl : FL} {ps : PS}
    (h : FadInv root gs node fl ps) : FadInv root gs node fl (push ps fl node) := by
  refine ⟨h.plain, h.fl_eq, h.at_, ?_⟩
  intro m hm nd hlk
  have hne := fad_take_prefix_ne h.plain hm
  rw [push, lookup_kvSet_other _ _ _ _ (by rw [h.fl_eq]; exact hne)] at hlk
  exact h.stack m hm nd hlk

theorem FadInv.gs_ne_of_list {root : Val} {gs : List Grp} {c : Cls} {xs : List Val} {fl : FL} {ps : PS}
    (h : FadInv root gs (.list c xs) fl ps) (hroot : ∃ c kvs, root = .dict c kvs) : gs ≠ [] := by
  intro hgs
  subst hgs
  obtain ⟨c', kvs, rfl⟩ := hroot
  have := h.at_
  simp [stepsOfG, stepsGet] at this

/-- an index step (also one round of the `[*]` loop) -/
theorem FadInv.idx {root : Val} {gs : List Grp} {c : Cls} {xs : List Val} {fl : FL} {ps : PS}
    (h : FadInv root gs (.list c xs) fl ps) (hroot : ∃ c kvs, root = .dict c kvs) {i : Int} {n : Nat} {child : Val}
    (hn : normIdx i xs.length = some n) (hx : xs[n]? = some child) :
    FadInv root (addIdx gs i) child (flOfG (addIdx gs i)) (push ps (flOfG (addIdx gs i)) (.list c xs)) := by
  obtain ⟨init, g, rfl⟩ := fad_snoc_of_ne (h.gs_ne_of_list hroot)
  rw [fad_addIdx_snoc]
  have hpl : GrpsPlain (init ++ [(g.1, g.2 ++ [i])]) := by
    intro g' hg
    simp only [List.mem_append, List.mem_singleton] at hg
    rcases hg with hg | rfl
    · exact h.plain g' (by simp [hg])
    · exact h.plain g (by simp)
  refine ⟨hpl, rfl, ?_, ?_⟩
  · rw [fad_stepsOfG_addIdx, fad_stepsGet_append, h.at_]
    simp [stepsGet, pyIndex, spOfInt_val, hn, hx]
  · intro m hm nd hlk
    simp only [List.length_append, List.length_singleton] at hm
    have htake : (init ++ [((g.1, g.2 ++ [i]) : Grp)]).take m = init.take m := List.take_append_of_le_length (by omega)
    have htake' : (init ++ [g]).take m = init.take m := List.take_append_of_le_length (by omega)
    have hne : keyOf (flOfG (init.take m)) ≠ keyOf (flOfG (init ++ [((g.1, g.2 ++ [i]) : Grp)])) := by
      have := fad_take_prefix_ne hpl (m := m) (by simp; omega)
      rwa [htake] at this
    rw [htake] at hlk ⊢
    rw [push, lookup_kvSet_other _ _ _ _ hne] at hlk
    have := h.stack m (by simp; omega) nd (by rw [htake']; exact hlk)
    rwa [htake'] at this

/-- a `'..'` step -/
theorem FadInv.up {root : Val} {gs : List Grp} {node : Val} {fl : FL} {ps : PS}
    (h : FadInv root gs node fl ps) (hne : gs ≠ []) {target : Val}
    (hl : lookup (keyOf fl.dropLast) ps = some target) :
    FadInv root gs.dropLast target fl.dropLast ps := by
  obtain ⟨init, g, rfl⟩ := fad_snoc_of_ne hne
  have hfl : fl.dropLast = flOfG init := by simp [h.fl_eq, flOfG]
  have htake : (init ++ [g]).take init.length = init := by simp
  rw [List.dropLast_concat, hfl]
  rw [hfl] at hl
  refine ⟨fun g' hg => h.plain g' (by simp [hg]), rfl, ?_, ?_⟩
  · have := h.stack init.length (by simp) target (by rw [htake]; exact hl)
    rwa [htake] at this
  · intro m hm nd hlk
    have htk : (init ++ [g]).take m = init.take m := List.take_append_of_le_length (by omega)
    have := h.stack m (by simp; omega) nd (by rw [htk]; exact hlk)
    rwa [htk] at this

/-! ## every result of a search spells the position of its node -/

/-- every pair of the mapping: the key is the text of groups that spell a walk from the root to
the value -/
def FadRes (root : Val) (f : Found) : Prop :=
  ∀ kv ∈ f, ∃ gs, GrpsPlain gs ∧ kv.1 = keyOf (flOfG gs) ∧ stepsGet root (stepsOfG gs) = some kv.2

def FadRecOk (root : Val) (rec : Val → List Str → FL → PS → Out) : Prop :=
  ∀ node toks fl ps gs, FadInv root gs node fl ps →
    ∀ f, (rec node toks fl ps).res = .ok (some f) → FadRes root f

theorem fad_mem_kvSet {k : Str} {v : Val} : ∀ {l : List (Str × Val)} {kv : Str × Val}, kv ∈ kvSet k v l →
    kv = (k, v) ∨ kv ∈ l
  | [], kv, h => by simp [kvSet] at h; exact Or.inl h
  | (k', x) :: r, kv, h => by
    simp only [kvSet] at h
    split at h
    · rename_i heq
      simp only [List.mem_cons] at h
      rcases h with h | h
      · subst heq; exact Or.inl h
      · exact Or.inr (by simp [h])
    · simp only [List.mem_cons] at h
      rcases h with h | h
      · exact Or.inr (by simp [h])
      · rcases fad_mem_kvSet h with h' | h'
        · exact Or.inl h'
        · exact Or.inr (by simp [h'])

theorem FadRes.nil (root : Val) : FadRes root [] := fun _ h => by cases h

theorem FadRes.upd {root : Val} {acc : Found} (h : FadRes root acc) {f : Option Found}
    (hf : ∀ f', f = some f' → FadRes root f') : FadRes root (upd acc f) := by
  cases f with
  | none => exact h
  | some l =>
    have hl := hf l rfl
    simp only [FindAll.upd]
    clear hf
    induction l generalizing acc with
    | nil => exact h
    | cons e r ih =>
      simp only [List.foldl_cons]
      apply ih
      · intro kv hkv
        rcases fad_mem_kvSet hkv with h' | h'
        · rw [h']; exact hl e (by simp)
        · exact h kv h'
      · intro kv hkv; exact hl kv (by simp [hkv])

theorem fad_starLoop_ok {root : Val} (call : Val → FL → Out) (re : Bool) (last : Str) (base : FL)
    (hcall : ∀ c cur, (call c cur).fl.dropLast = cur.dropLast) :
    ∀ (xs : List Val) (i : Nat) (cur : FL) (acc : Found), cur.dropLast = base → FadRes root acc →
      (∀ j c f, xs[j]? = some c → (call c (base ++ [last ++ bracket (natRepr (i + j))])).res = .ok (some f) →
        FadRes root f) →
      ∀ f, (starLoop call re last i xs cur acc).1 = .ok (some f) → FadRes root f := by
  intro xs
  induction xs with
  | nil => intro i cur acc _ ha _ f h; simp only [starLoop] at h; cases h; exact ha
  | cons c cs ih =>
    intro i cur acc hcur ha hc f h
    simp only [starLoop] at h
    split at h
    · have hcur1 : setLast cur (last ++ bracket (natRepr i)) = base ++ [last ++ bracket (natRepr (i + 0))] := by
        simp [setLast, hcur]
      rw [hcur1] at h
      split at h
      · cases h
      · rename_i f1 hres
        refine ih (i + 1) _ _ ?_ (ha.upd (fun f' hf' => hc 0 c f' (by simp) (by rw [hres, hf']))) ?_ f h
        · rw [hcall]; simp
        · intro j c' f' hj hres'
          refine hc (j + 1) c' f' (by simpa using hj) ?_
          rw [show i + (j + 1) = i + 1 + j by omega]; exact hres'
    · cases re <;> simp [raiseOr] at h

theorem fad_keysLoop_ok {root : Val} (call : Str → Val → Out) :
    ∀ (kvs : List (Str × Val)) (acc : Found), FadRes root acc →
      (∀ kc ∈ kvs, ∀ f, (call kc.1 kc.2).res = .ok (some f) → FadRes root f) →
      ∀ f, keysLoop call kvs acc = .ok (some f) → FadRes root f := by
  intro kvs
  induction kvs with
  | nil => intro acc ha _ f h; simp only [keysLoop] at h; cases h; exact ha
  | cons e r ih =>
    obtain ⟨k, c⟩ := e
    intro acc ha hc f h
    simp only [keysLoop] at h
    split at h
    · split at h
      · cases h
      · rename_i f1 hres
        exact ih _ (ha.upd (fun f' hf' => hc (k, c) (by simp) f' (by rw [hres, hf'])))
          (fun kc hkc => hc kc (by simp [hkc])) f h
    · exact ih _ ha (fun kc hkc => hc kc (by simp [hkc])) f h

theorem fad_classify_name {tok n : Str} (h : classify tok = .name n) : n = tok := by
  by_cases h1 : stripWs tok = ['.', '.']
  · simp only [classify, h1, if_true] at h; cases h
  · by_cases h2 : startsWith tok ['['] = true
    · exfalso
      simp only [classify, h1, if_false, h2, if_true] at h
      by_cases h3 : endsWith tok [']'] = true
      · simp only [h3, Bool.not_true, Bool.false_eq_true, if_false] at h
        by_cases h4 : (tok.any fun c => decide (c.toNat ≥ 128)) = true
        · simp only [h4, if_true] at h; cases h
        · simp only [h4] at h
          by_cases h5 : isNumber (stripWs (List.drop 1 tok).dropLast) = true
          · simp only [h5, if_true] at h
            cases hp : pyInt (stripWs (List.drop 1 tok).dropLast) <;> rw [hp] at h <;> cases h
          · simp only [h5] at h
            simp only [Bool.false_eq_true, if_false] at h
            generalize List.filter (fun x => decide (x ≠ ' ')) (lower (stripWs (List.drop 1 tok).dropLast)) = L at h
            by_cases h6 : L = ['*']
            · simp only [h6, if_true] at h; cases h
            · simp only [h6, if_false] at h
              by_cases h7 : startsWith L sLastFn = true
              · simp only [h7, if_true] at h
                cases hp : evalLast (List.drop 6 L) <;> rw [hp] at h <;> cases h
              · simp only [h7, Bool.false_eq_true, if_false] at h
                by_cases h8 : startsWith L sTextFn = true
                · simp only [h8, if_true] at h
                  split at h
                  · cases h
                  · split at h <;> cases h
                · simp only [h8, Bool.false_eq_true, if_false] at h
                  cases h
      · simp only [h3] at h; cases h
    · simp only [classify, h1, if_false, h2] at h
      cases h; rfl

theorem fad_step_ok {root : Val} (hroot : ∃ c kvs, root = .dict c kvs) (hko : KeysOkV root)
    {rec : Val → List Str → FL → PS → Out} (hr : FadRecOk root rec) (hps : PsInv rec) (hdl : FlDL rec)
    (hfd : ∀ c kvs t f p, (rec (.dict c kvs) t f p).fl = f) (re : Bool) :
    FadRecOk root (step rec re) := by
  intro node toks fl ps gs hinv f h
  have hfl := hinv.fl_eq
  unfold step at h
  split at h
  · simp only [Except.ok.injEq, Option.some.injEq] at h
    subst h
    intro kv hkv
    simp only [List.mem_singleton] at hkv
    subst hkv
    exact ⟨gs, hinv.plain, by rw [hfl], hinv.at_⟩
  · rename_i tok rest
    split at h
    · -- '..'
      unfold stepUp at h
      split at h
      · cases re <;> simp [raiseOr] at h
      · rename_i target hl
        split at hl
        · cases hl
        · rename_i hne
          have hgs : gs ≠ [] := by
            intro hg
            subst hg
            rw [hfl] at hne
            exact hne rfl
          exact hr _ _ _ _ _ (hinv.up hgs hl) f h
    · cases h
    · -- text(): the condition only filters
      rcases stepText_cases rec node _ _ _ fl ps with h' | h' | ⟨_, h'⟩ <;> rw [h'] at h
      · cases h
      · cases h
      · exact hr _ _ _ _ _ hinv.register f h
    · -- index
      rename_i i _
      unfold stepIdx at h
      split at h
      · rename_i c xs
        have hgs := hinv.gs_ne_of_list hroot
        split at h
        · cases re <;> simp [raiseOr] at h
        · rename_i n hn
          split at h
          · cases h
          · rename_i child hx
            split at h
            · have he : fl.isEmpty = false := by rw [hfl]; exact fad_flOfG_isEmpty hgs
              simp only [he, Bool.false_eq_true, if_false] at h
              have e := fad_setLast_addIdx hgs fl (by rw [hfl]) i
              rw [← hfl] at e
              rw [e] at h
              exact hr _ _ _ _ _ (hinv.idx hroot hn hx) f h
            · cases re <;> simp [raiseOr] at h
      · split at h <;> cases re <;> simp [raiseOr] at h
      · cases h
    · -- [*]
      unfold stepStar at h
      split at h
      · rename_i c xs
        have hgs := hinv.gs_ne_of_list hroot
        have he : fl.isEmpty = false := by rw [hfl]; exact fad_flOfG_isEmpty hgs
        simp only [he, Bool.false_eq_true, if_false] at h
        refine fad_starLoop_ok _ re _ fl.dropLast (fun c cur => hdl _ _ _ _) xs 0 fl [] rfl (FadRes.nil root) ?_ f h
        intro j x f' hj hres
        have hjl : j < xs.length := by
          rcases Nat.lt_or_ge j xs.length with hlt | hge
          · exact hlt
          · rw [List.getElem?_eq_none hge] at hj; cases hj
        have e : fl.dropLast ++ [fl.getLast?.getD [] ++ bracket (natRepr (0 + j))] = flOfG (addIdx gs (j : Int)) := by
          have := fad_setLast_addIdx hgs fl (by rw [hfl]) (j : Int)
          rw [← hfl] at this
          rw [← this, Nat.zero_add]
          rfl
        rw [e] at hres
        exact hr _ _ _ _ _ (hinv.idx hroot (normIdx_nat hjl) hj) f' hres
      · cases re <;> simp [raiseOr] at h
      · cases h
    · -- name
      rename_i name hcl
      have hnm := fad_classify_name hcl
      subst hnm
      unfold stepName at h
      split at h
      · -- on a list: re-enter with "[*]" prepended
        exact hr _ _ _ _ _ hinv f h
      · rename_i c kvs
        have hkn : KeysOkK kvs := by
          have := fad_keysOk_stepsGet _ hko hinv.at_
          simpa only [KeysOkV] using this
        split at h
        · cases re <;> simp [raiseOr] at h
        · split at h
          · -- '*'
            simp only at h
            split at h
            · cases h
            · rename_i f1 hres
              simp only at h
              rw [hfd, hps] at h
              have h1 : FadRes root (upd [] f1) :=
                (FadRes.nil root).upd (fun f' hf' => hr _ _ _ _ _ hinv f' (by rw [hres, hf']))
              refine fad_keysLoop_ok _ kvs _ h1 ?_ f h
              intro kc hkc f' hf'
              have hl := fad_keysOk_mem_lookup hkn (show (kc.1, kc.2) ∈ kvs from hkc)
              exact hr _ _ _ _ _ (hinv.key (fad_keysOk_lookup hkn hl).1 hl) f' hf'
          · split at h
            · rename_i x hl
              exact hr _ _ _ _ _ (hinv.key (fad_keysOk_lookup hkn hl).1 hl) f h
            · cases h
      · cases h

/-- **every key spells its value's position**, for every fuel, path list and stack satisfying the
invariant, and every expression -/
theorem fad_fa_ok {root : Val} (hroot : ∃ c kvs, root = .dict c kvs) (hko : KeysOkV root) (re : Bool) :
    ∀ fuel, FadRecOk root (fa re fuel) := by
  intro fuel
  induction fuel with
  | zero => intro node toks fl ps gs _ f h; cases h
  | succ k ih =>
    exact fad_step_ok hroot hko ih (fun n t f p => fa_ps re k n t f p) (fa_dl re k)
      (fun c kvs t f p => fad_fa_fl_dict re k c kvs t f p) re

/-! ## top level -/

theorem fad_tokens_desc {name : Str} (hn : PlainKey name) : tokens (['/', '/', '*', '/'] ++ name) = fadT name := by
  obtain ⟨c, r, rfl, hc1, hc2⟩ := PlainKey.head_ne hn
  have hnorm : normExpr (['/', '/', '*', '/'] ++ (c :: r)) = '*' :: '/' :: c :: r := by
    simp [normExpr, startsWith]
  have hins : insLB ('*' :: '/' :: c :: r) = '*' :: '/' :: c :: r :=
    insLB_id _ (by
      intro x hx
      simp only [List.mem_cons] at hx
      rcases hx with rfl | rfl | hx
      · decide
      · decide
      · exact PlainKey.noLB hn x (by simpa using hx))
  have hrep : replSS ('*' :: '/' :: c :: r) = '*' :: '/' :: c :: r := by
    rw [replSS_cons_ne '*' _ (by decide), replSS_slash_ne c _ hc1]
    have := replSS_append_noSlash (c :: r) [] hn.noSlash
    simp only [List.append_nil, replSS] at this
    rw [this]
  have hsplit : splitChar '/' ('*' :: '/' :: c :: r) = [['*'], c :: r] := by
    have := splitChar_append '/' ['*'] (c :: r) (by intro x hx; simp at hx; subst hx; decide)
    simp only [List.cons_append, List.nil_append] at this
    rw [this, splitChar_no_delim '/' (c :: r) hn.noSlash]
  unfold tokens
  rw [hnorm, hins, hrep, hsplit]
  rfl

theorem fad_keys_nodup (l : List (Pos × Val)) (hd : FadDistinct l) (hp : ∀ pv ∈ l, PlainPos pv.1) :
    ((fadMapR [] l).map Prod.fst).Nodup := by
  simp only [fadMapR, List.map_map]
  refine List.pairwise_map.2 (hd.imp_of_mem ?_)
  intro a b ha hb hne heq
  simp only [Function.comp, List.nil_append] at heq
  exact hne (fad_renderPos_inj _ _ (hp a ha) (hp b hb) (List.append_cancel_left heq))

theorem fad_desc_plain {name : Str} {t : Val} (hko : KeysOkV t) : ∀ pv ∈ descV name t, PlainPos pv.1 := by
  intro pv hpv
  have := ((fad_desc_mem name).1 t hko pv.1 pv.2).1 hpv
  exact (fad_keysOk_getAt pv.1 hko this.2).1

/-- **`'//*/name'` on a dict root**: exactly the pairs of `descV`, canonical xpaths, document order -/
theorem fad_descendant (re : Bool) {name : Str} (hn : PlainKey name) (c : Cls) (kvs : List (Str × Val))
    (hko : KeysOkV (.dict c kvs)) (hco : ContOkV (.dict c kvs)) :
    ∃ N, ∀ fuel ≥ N, (fa re fuel (.dict c kvs) (fadT name) [] []).res =
      .ok (some ((descV name (.dict c kvs)).map (fun pv => (slash ++ renderPos pv.1, pv.2)))) := by
  obtain ⟨N, hN⟩ := (fad_desc_all re name hn).1 (.dict c kvs) rfl hko hco
  refine ⟨N, fun fuel hf => ?_⟩
  have := hN fuel hf [] [] trivial trivial (fun h => by obtain ⟨_, _, h⟩ := h; cases h)
    (fad_keys_nodup _ ((fad_desc_distinct name).1 _ hko).1 (fad_desc_plain hko))
  simpa [fadMapR, flPath] using this

/-- **every key of a result spells the position of its value** -/
theorem fad_findall_spells (c : Cls) (kvs : List (Str × Val)) (hko : KeysOkV (.dict c kvs)) (e : Str)
    (fuel : Nat) (f : Found) (re : Bool := true)
    (h : (findallTop fuel fresh (.dict c kvs) e re).res = .ok (some f)) : FadRes (.dict c kvs) f :=
  fad_fa_ok ⟨c, kvs, rfl⟩ hko re fuel _ _ _ _ [] (FadInv.start _) f h

/-- item access on `'//'` returns the root -/
theorem fad_getItem_root (fuel : Nat) (c : Cls) (kvs : List (Str × Val)) :
    getItem (fuel + 1) (.dict c kvs) ['/', '/'] = (.dict c kvs, .ok (.dict c kvs)) := by
  have ht : tokenize ['/', '/'] = [] := by decide
  have hq : startsWith ['/', '/'] ['?'] = false := by decide
  have hpc : hasPathChar ['/', '/'] = true := by decide
  simp only [getItem, getCore, hq, Bool.false_eq_true, if_false, hpc, if_true, ht]
  rw [findD]
  simp [valOf, Res.isFound, Val.getAt]

theorem fad_get_root (fuel : Nat) (c : Cls) (kvs : List (Str × Val)) (d : Val) :
    XPath.get (fuel + 1) (.dict c kvs) ['/', '/'] d = (.dict c kvs, .ok (.dict c kvs)) := by
  have ht : tokenize ['/', '/'] = [] := by decide
  have hq : startsWith ['/', '/'] ['?'] = false := by decide
  have hpc : hasPathChar ['/', '/'] = true := by decide
  simp only [XPath.get, getCore, hq, Bool.false_eq_true, if_false, hpc, if_true, ht]
  rw [findD]
  simp [valOf, Res.isFound, Val.getAt]

/-! ## the structural hypotheses along positions -/

theorem fad_contOk_lookup : ∀ {kvs : List (Str × Val)} {k : Str} {c : Val}, ContOkK kvs → lookup k kvs = some c → ContOkV c
  | [], _, _, _, h => by cases h
  | (k', x) :: r, k, c, hk, h => by
    simp only [ContOkK] at hk
    simp only [lookup] at h
    split at h
    · cases h; exact hk.1
    · exact fad_contOk_lookup hk.2 h

theorem fad_contOk_elem : ∀ {xs : List Val} {i : Nat} {x : Val}, ContOkL xs → xs[i]? = some x →
    isContainer x = true ∧ ContOkV x
  | [], _, _, _, h => by simp at h
  | y :: r, 0, x, hk, h => by
    simp only [ContOkL] at hk
    simp only [List.getElem?_cons_zero, Option.some.injEq] at h
    subst h; exact ⟨hk.1, hk.2.1⟩
  | y :: r, i + 1, x, hk, h => by
    simp only [ContOkL] at hk
    simp only [List.getElem?_cons_succ] at h
    exact fad_contOk_elem hk.2.2 h

theorem fad_contOk_mem {xs : List Val} {x : Val} (hk : ContOkL xs) (hx : x ∈ xs) : isContainer x = true := by
  obtain ⟨i, hi, rfl⟩ := List.getElem_of_mem hx
  exact (fad_contOk_elem hk (List.getElem?_eq_getElem hi)).1

theorem fad_contOk_getAt : ∀ (p : Pos) {t v : Val}, ContOkV t → getAt t p = some v → ContOkV v
  | [], t, v, hk, h => by
    simp only [Val.getAt, Option.some.injEq] at h
    subst h; exact hk
  | .key k :: r, t, v, hk, h => by
    cases t with
    | dict c kvs =>
      simp only [Val.getAt, child] at h
      cases hl : lookup k kvs with
      | none => rw [hl] at h; cases h
      | some x =>
        rw [hl] at h
        simp only [ContOkV] at hk
        exact fad_contOk_getAt r (fad_contOk_lookup hk hl) h
    | _ => simp [Val.getAt, child] at h
  | .idx n :: r, t, v, hk, h => by
    cases t with
    | list c xs =>
      simp only [Val.getAt, child] at h
      cases hl : xs[n]? with
      | none => rw [hl] at h; cases h
      | some x =>
        rw [hl] at h
        simp only [ContOkV] at hk
        exact fad_contOk_getAt r (fad_contOk_elem hk hl).2 h
    | _ => simp [Val.getAt, child] at h

end N0.FindAll
