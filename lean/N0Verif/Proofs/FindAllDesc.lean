import N0Verif.Proofs.FindAll
/-!
  The descendant search `//*/name` (completeness, both inclusions, document order) and the
  invariant "the found-path list renders the position of the current node" through every branch of
  `_findall` that is not a `text()` condition.

  All names carry the prefix `fad` (namespace `N0.FindAll` is shared with `Proofs/FindAll.lean`).
-/
namespace N0.FindAll
open N0 N0.Py N0.Val N0.XPath

/-! ## a generic induction principle over trees (value / entries / elements) -/

theorem fad_val_ind {PV : Val → Prop} {PK : List (Str × Val) → Prop} {PL : List Val → Prop}
    (hd : ∀ c kvs, PK kvs → PV (.dict c kvs)) (hl : ∀ c xs, PL xs → PV (.list c xs))
    (hs : ∀ v, isContainer v = false → PV v)
    (hk0 : PK []) (hk1 : ∀ k c kvs, PV c → PK kvs → PK ((k, c) :: kvs))
    (hl0 : PL []) (hl1 : ∀ x xs, PV x → PL xs → PL (x :: xs)) :
    (∀ v, PV v) ∧ (∀ kvs, PK kvs) ∧ (∀ xs, PL xs) := by
  have key : ∀ n : Nat, (∀ v, sizeOf v ≤ n → PV v) ∧ (∀ kvs, sizeOf kvs ≤ n → PK kvs) ∧ (∀ xs, sizeOf xs ≤ n → PL xs) := by
    intro n
    induction n with
    | zero =>
      refine ⟨fun v h => ?_, fun kvs h => ?_, fun xs h => ?_⟩
      · cases v <;> simp at h
      · cases kvs <;> simp at h
      · cases xs <;> simp at h
    | succ n ih =>
      obtain ⟨ihv, ihk, ihl⟩ := ih
      refine ⟨fun v h => ?_, fun kvs h => ?_, fun xs h => ?_⟩
      · cases v with
        | dict c kvs => exact hd c kvs (ihk kvs (by simp at h; omega))
        | list c xs => exact hl c xs (ihl xs (by simp at h; omega))
        | none => exact hs _ rfl
        | bool b => exact hs _ rfl
        | int i => exact hs _ rfl
        | flt r => exact hs _ rfl
        | str s => exact hs _ rfl
      · cases kvs with
        | nil => exact hk0
        | cons e r =>
          obtain ⟨k, c⟩ := e
          exact hk1 k c r (ihv c (by simp at h; omega)) (ihk r (by simp at h; omega))
      · cases xs with
        | nil => exact hl0
        | cons x r => exact hl1 x r (ihv x (by simp at h; omega)) (ihl r (by simp at h; omega))
  exact ⟨fun v => (key _).1 v (Nat.le_refl _), fun kvs => (key _).2.1 kvs (Nat.le_refl _),
    fun xs => (key _).2.2 xs (Nat.le_refl _)⟩

/-! ## rendered positions are distinct -/

theorem fad_prefix_unique (P : Char → Prop) : ∀ (a b x y : Str), (∀ c ∈ a, ¬ P c) → (∀ c ∈ b, ¬ P c) →
    (∀ c, x.head? = some c → P c) → (∀ c, y.head? = some c → P c) → a ++ x = b ++ y → a = b ∧ x = y := by
  intro a
  induction a with
  | nil =>
    intro b x y _ hb hx _ h
    cases b with
    | nil => exact ⟨rfl, h⟩
    | cons c b =>
      simp only [List.nil_append, List.cons_append] at h
      exact absurd (hx c (by rw [h]; rfl)) (hb c (by simp))
  | cons d a ih =>
    intro b x y ha hb hx hy h
    cases b with
    | nil =>
      simp only [List.nil_append, List.cons_append] at h
      exact absurd (hy d (by rw [← h]; rfl)) (ha d (by simp))
    | cons c b =>
      simp only [List.cons_append, List.cons.injEq] at h
      obtain ⟨rfl, h⟩ := h
      obtain ⟨rfl, rfl⟩ := ih b x y (fun c hc => ha c (by simp [hc])) (fun c hc => hb c (by simp [hc])) hx hy h
      exact ⟨rfl, rfl⟩

theorem fad_renderPos_head (p : Pos) : ∀ c, (renderPos p).head? = some c → c = '/' ∨ c = '[' := by
  intro c h
  cases p with
  | nil => simp [renderPos] at h
  | cons s r =>
    cases s with
    | key k => simp [renderPos, renderSeg] at h; exact Or.inl h.symm
    | idx n => simp [renderPos, renderSeg, bracket] at h; exact Or.inr h.symm

theorem fad_natStr_inj {n m : Nat} (h : natStr n = natStr m) : n = m := by
  have := congrArg natOfDigits h
  rwa [show natOfDigits (natStr n) = n from natOfDigits_natDigits n,
    show natOfDigits (natStr m) = m from natOfDigits_natDigits m] at this

/-- the canonical rendering is injective on positions with plain keys -/
theorem fad_renderPos_inj : ∀ (p q : Pos), PlainPos p → PlainPos q → renderPos p = renderPos q → p = q := by
  intro p
  induction p with
  | nil =>
    intro q _ _ h
    cases q with
    | nil => rfl
    | cons s r => cases s <;> simp [renderPos, renderSeg, bracket] at h
  | cons s r ih =>
    intro q hp hq h
    cases q with
    | nil => cases s <;> simp [renderPos, renderSeg, bracket] at h
    | cons s' r' =>
      have e1 : ∀ (s : Seg) (r : Pos), renderPos (s :: r) = renderSeg s ++ renderPos r := by
        intro s r; simp [renderPos]
      rw [e1, e1] at h
      cases s with
      | key k =>
        cases s' with
        | key k' =>
          simp only [renderSeg, List.cons_append, List.cons.injEq, true_and] at h
          obtain ⟨hk, hr⟩ := hp
          obtain ⟨hk', hr'⟩ := hq
          obtain ⟨rfl, h2⟩ := fad_prefix_unique (fun c => c = '/' ∨ c = '[') k k' _ _
            (fun c hc hP => hP.elim (hk.noSlash c hc) (PlainKey.noLB hk c hc))
            (fun c hc hP => hP.elim (hk'.noSlash c hc) (PlainKey.noLB hk' c hc))
            (fad_renderPos_head r) (fad_renderPos_head r') h
          rw [ih r' hr hr' h2]
        | idx n => simp [renderSeg, bracket] at h
      | idx n =>
        cases s' with
        | key k' => simp [renderSeg, bracket] at h
        | idx n' =>
          simp only [renderSeg, bracket, List.cons_append, List.cons.injEq, true_and, List.append_assoc,
            List.nil_append] at h
          obtain ⟨h1, h2⟩ := fad_prefix_unique (fun c => c = ']') (natStr n) (natStr n') _ _
            (fun c hc hP => natStr_noRB n c hc hP) (fun c hc hP => natStr_noRB n' c hc hP)
            (by intro c hc; simp at hc; exact hc.symm) (by intro c hc; simp at hc; exact hc.symm) h
          simp only [List.cons.injEq, true_and] at h2
          rw [fad_natStr_inj h1, ih r' hp hq h2]

/-! ## the nodes a descendant search must find -/

mutual
/-- positions (relative to `v`) whose last segment is the key `name`, with the node there, in
document order: the entry of the node itself first, then what lies below each child -/
def descV (name : Str) : Val → List (Pos × Val)
  | .dict _ kvs =>
    (match lookup name kvs with
      | some c => [([Seg.key name], c)]
      | Option.none => []) ++ descK name kvs
  | .list _ xs => descL name 0 xs
  | _ => []
def descK (name : Str) : List (Str × Val) → List (Pos × Val)
  | [] => []
  | (k, c) :: kvs => (descV name c).map (fun pv => (Seg.key k :: pv.1, pv.2)) ++ descK name kvs
def descL (name : Str) : Nat → List Val → List (Pos × Val)
  | _, [] => []
  | i, x :: xs => (descV name x).map (fun pv => (Seg.idx i :: pv.1, pv.2)) ++ descL name (i + 1) xs
end

mutual
/-- every key is a plain name and no dictionary lists a key twice (a Python `dict` cannot) -/
def KeysOkV : Val → Prop
  | .dict _ kvs => KeysOkK kvs
  | .list _ xs => KeysOkL xs
  | _ => True
def KeysOkK : List (Str × Val) → Prop
  | [] => True
  | (k, c) :: kvs => PlainKey k ∧ lookup k kvs = Option.none ∧ KeysOkV c ∧ KeysOkK kvs
def KeysOkL : List Val → Prop
  | [] => True
  | x :: xs => KeysOkV x ∧ KeysOkL xs
end

mutual
/-- the property's quantifier: every list contains only dictionaries or lists -/
def ContOkV : Val → Prop
  | .dict _ kvs => ContOkK kvs
  | .list _ xs => ContOkL xs
  | _ => True
def ContOkK : List (Str × Val) → Prop
  | [] => True
  | (_, c) :: kvs => ContOkV c ∧ ContOkK kvs
def ContOkL : List Val → Prop
  | [] => True
  | x :: xs => isContainer x = true ∧ ContOkV x ∧ ContOkL xs
end

theorem fad_descV_scalar (name : Str) (v : Val) (h : isContainer v = false) : descV name v = [] := by
  cases v <;> simp [isContainer] at h <;> simp [descV]

/-! ## small facts about the model used below -/

/-- a call on a dictionary never changes the list object it received (all in-place updates of the
last element happen on a list node or behind a `text()` condition on a string) -/
theorem fad_fa_fl_dict (re : Bool) : ∀ (fuel : Nat) (c : Cls) (kvs : List (Str × Val)) (toks : List Str) (fl : FL) (ps : PS),
    (fa re fuel (.dict c kvs) toks fl ps).fl = fl := by
  intro fuel
  induction fuel with
  | zero => intros; rfl
  | succ f ih =>
    intro c kvs toks fl ps
    simp only [fa, step]
    split
    · rfl
    · split
      · unfold stepUp; split <;> rfl
      · rfl
      · simp only [stepText]
      · simp only [stepIdx]; split <;> rfl
      · simp only [stepStar]
      · simp only [stepName]
        split
        · rfl
        · split
          · split <;> exact ih _ _ _ _ _
          · split <;> rfl

theorem fad_flPath_snoc_key : ∀ (p : Pos) (fl : FL) (k : Str), flPath fl (p ++ [.key k]) = flPath fl p ++ [k]
  | [], _, _ => rfl
  | .key _ :: r, fl, k => by simp only [List.cons_append, flPath]; exact fad_flPath_snoc_key r _ k
  | .idx _ :: r, fl, k => by simp only [List.cons_append, flPath]; exact fad_flPath_snoc_key r _ k

theorem fad_flPath_snoc_idx : ∀ (p : Pos) (fl : FL) (n : Nat), flPath fl (p ++ [.idx n]) = bump (flPath fl p) n
  | [], _, _ => rfl
  | .key _ :: r, fl, n => by simp only [List.cons_append, flPath]; exact fad_flPath_snoc_idx r _ n
  | .idx _ :: r, fl, n => by simp only [List.cons_append, flPath]; exact fad_flPath_snoc_idx r _ n

theorem fad_flPath_ne : ∀ (p : Pos) (fl : FL), fl ≠ [] → flPath fl p ≠ []
  | [], _, h => h
  | .key k :: r, fl, _ => fad_flPath_ne r _ (by simp)
  | .idx n :: r, fl, _ => fad_flPath_ne r _ (bump_ne_nil fl n)

/-- positions below a dict root: empty, or starting with a key -/
def Rooted : Pos → Prop
  | [] => True
  | .key _ :: _ => True
  | .idx _ :: _ => False

theorem fad_rooted_snoc {q : Pos} (h : Rooted q) (s : Seg) (hs : q = [] → ∃ k, s = .key k) : Rooted (q ++ [s]) := by
  cases q with
  | nil => obtain ⟨k, rfl⟩ := hs rfl; trivial
  | cons a r => cases a with
    | key k => trivial
    | idx n => exact h.elim

theorem fad_flPath_rooted_ne {q : Pos} (h : Rooted q) (hne : q ≠ []) : flPath [] q ≠ [] := by
  cases q with
  | nil => exact absurd rfl hne
  | cons a r => cases a with
    | key k => exact fad_flPath_ne r _ (by simp)
    | idx n => exact h.elim

theorem fad_keyOf_rooted {q : Pos} (h : Rooted q) (hne : q ≠ []) (hp : PlainPos q) :
    keyOf (flPath [] q) = slash ++ renderPos q := by
  cases q with
  | nil => exact absurd rfl hne
  | cons a r => cases a with
    | key k => exact keyOf_flPath k r hp
    | idx n => exact h.elim

theorem fad_plainPos_append : ∀ {p q : Pos}, PlainPos p → PlainPos q → PlainPos (p ++ q)
  | [], _, _, hq => hq
  | .key _ :: _, _, hp, hq => ⟨hp.1, fad_plainPos_append hp.2 hq⟩
  | .idx _ :: r, _, hp, hq => fad_plainPos_append (p := r) hp hq

/-! ## `dict.update` with new keys appends -/

theorem fad_kvSet_new (k : Str) (v : Val) : ∀ (l : List (Str × Val)), k ∉ l.map Prod.fst → kvSet k v l = l ++ [(k, v)]
  | [], _ => rfl
  | (k', x) :: r, h => by
    simp only [List.map_cons, List.mem_cons, not_or] at h
    simp only [kvSet, h.1, if_false, List.cons_append, fad_kvSet_new k v r h.2]

theorem fad_upd_append : ∀ (l acc : Found), ((acc ++ l).map Prod.fst).Nodup → upd acc (some l) = acc ++ l := by
  intro l
  induction l with
  | nil => intro acc _; simp [upd]
  | cons e r ih =>
    intro acc h
    obtain ⟨k, v⟩ := e
    have hk : k ∉ acc.map Prod.fst := by
      simp only [List.map_append, List.map_cons, List.nodup_append, List.nodup_cons] at h
      intro hm
      exact h.2.2 k hm k (by simp) rfl
    have := ih (acc ++ [(k, v)]) (by simpa using h)
    simp only [upd, List.foldl_cons] at this ⊢
    rw [fad_kvSet_new k v acc hk, this]
    simp

theorem fad_nodup_split {acc F R : Found} (h : ((acc ++ (F ++ R)).map Prod.fst).Nodup) :
    (F.map Prod.fst).Nodup ∧ ((acc ++ F).map Prod.fst).Nodup ∧ (((acc ++ F) ++ R).map Prod.fst).Nodup := by
  have h3 : (((acc ++ F) ++ R).map Prod.fst).Nodup := by rwa [List.append_assoc]
  have h2 : ((acc ++ F).map Prod.fst).Nodup := by
    rw [List.map_append] at h3
    exact (List.nodup_append.1 h3).1
  have h1 : (F.map Prod.fst).Nodup := by
    rw [List.map_append] at h2
    exact (List.nodup_append.1 h2).2.1
  exact ⟨h1, h2, h3⟩

/-! ## the descendant search, by induction over the tree -/

/-- the tokens of `'//*/name'` -/
def fadT (name : Str) : List Str := [['*'], name]

/-- the pairs reported for the nodes `l` found below the node at position `q` -/
def fadMapR (q : Pos) (l : List (Pos × Val)) : Found :=
  l.map (fun pv => (slash ++ renderPos (q ++ pv.1), pv.2))

theorem fadMapR_append (q : Pos) (a b : List (Pos × Val)) : fadMapR q (a ++ b) = fadMapR q a ++ fadMapR q b := by
  simp [fadMapR]

theorem fadMapR_snoc (q : Pos) (s : Seg) (l : List (Pos × Val)) :
    fadMapR (q ++ [s]) l = fadMapR q (l.map (fun pv => (s :: pv.1, pv.2))) := by
  simp [fadMapR, List.map_map, Function.comp_def]

/-- `_findall(node, [name], …)` on a dictionary: the `*` step's check of the node itself -/
theorem fad_self_check (re : Bool) {name : Str} (hn : PlainKey name) (f : Nat) (c : Cls) (kvs : List (Str × Val))
    (fl : FL) (ps : PS) :
    fa re (f + 2) (.dict c kvs) [name] fl ps =
      ⟨.ok (match lookup name kvs with
        | some x => some [(keyOf (fl ++ [name]), x)]
        | Option.none => Option.none), fl, ps⟩ := by
  have hke : name.isEmpty = false := by
    cases name with
    | nil => exact absurd rfl hn.ne
    | cons _ _ => rfl
  have hks : name ≠ ['*'] := hn.keyTok.notStar
  simp only [fa, step, classify_plain hn, stepName, hke, Bool.false_eq_true, if_false, hks]
  cases lookup name kvs <;> rfl

theorem fad_star_dict (re : Bool) (f : Nat) (c : Cls) (kvs : List (Str × Val)) (rest : List Str) (fl : FL) (ps : PS)
    (self : Option Found) (h1 : fa re f (.dict c kvs) rest fl ps = ⟨.ok self, fl, ps⟩) :
    fa re (f + 1) (.dict c kvs) (['*'] :: rest) fl ps =
      ⟨keysLoop (fun k c' => fa re f c' (['*'] :: rest) (fl ++ [k]) (push ps fl (.dict c kvs))) kvs (upd [] self), fl, ps⟩ := by
  have hs : classify ['*'] = .name ['*'] := by decide
  simp only [fa, step, hs, stepName, List.isEmpty_cons, Bool.false_eq_true, if_false, if_true]
  rw [h1]

theorem fad_star_list (re : Bool) (f : Nat) (c : Cls) (xs : List Val) (rest : List Str) (fl : FL) (ps : PS)
    (hfl : fl ≠ []) :
    (fa re (f + 2) (.list c xs) (['*'] :: rest) fl ps).res =
      (starLoop (fun x cur1 => fa re f x (['*'] :: rest) cur1 (push ps cur1 (.list c xs))) re
        (fl.getLast?.getD []) 0 xs fl []).1 := by
  have hs : classify ['*'] = .name ['*'] := by decide
  have hb : classify ['[', '*', ']'] = .star := by decide
  have he : fl.isEmpty = false := by cases fl with | nil => exact absurd rfl hfl | cons _ _ => rfl
  simp only [fa, step, hs, stepName, hb, stepStar, he, Bool.false_eq_true, if_false]

section desc
variable (re : Bool) (name : Str)

/-- a container node at a rooted plain position `q` (the path list renders `q`): the search for
`*/name` returns the pairs of `descV` under their canonical xpaths, in document order -/
def FadPV (v : Val) : Prop :=
  isContainer v = true → KeysOkV v → ContOkV v → ∃ N, ∀ fuel ≥ N, ∀ (q : Pos) (ps : PS),
    Rooted q → PlainPos q → ((∃ c xs, v = .list c xs) → q ≠ []) →
    ((fadMapR q (descV name v)).map Prod.fst).Nodup →
    (fa re fuel v (fadT name) (flPath [] q) ps).res = .ok (some (fadMapR q (descV name v)))

def FadPK (kvs : List (Str × Val)) : Prop :=
  KeysOkK kvs → ContOkK kvs → ∃ N, ∀ fuel ≥ N, ∀ (q : Pos) (ps : PS) (acc : Found),
    Rooted q → PlainPos q →
    ((acc ++ fadMapR q (descK name kvs)).map Prod.fst).Nodup →
    keysLoop (fun k c => fa re fuel c (fadT name) (flPath [] q ++ [k]) ps) kvs acc =
      .ok (some (acc ++ fadMapR q (descK name kvs)))

def FadPL (xs : List Val) : Prop :=
  KeysOkL xs → ContOkL xs → ∃ N, ∀ fuel ≥ N, ∀ (q : Pos) (ps : PS) (node : Val) (i : Nat) (cur : FL) (acc : Found),
    Rooted q → q ≠ [] → PlainPos q → cur.dropLast = (flPath [] q).dropLast →
    ((acc ++ fadMapR q (descL name i xs)).map Prod.fst).Nodup →
    (starLoop (fun x cur1 => fa re fuel x (fadT name) cur1 (push ps cur1 node)) re
      ((flPath [] q).getLast?.getD []) i xs cur acc).1 = .ok (some (acc ++ fadMapR q (descL name i xs)))

theorem fad_desc_dict (hn : PlainKey name) (c : Cls) (kvs : List (Str × Val)) (hk : FadPK re name kvs) :
    FadPV re name (.dict c kvs) := by
  intro _ hko hco
  simp only [KeysOkV, ContOkV] at hko hco
  obtain ⟨N, hN⟩ := hk hko hco
  refine ⟨N + 3, fun fuel hf q ps hr hp _ hnd => ?_⟩
  obtain ⟨f, rfl⟩ : ∃ f, fuel = f + 3 := ⟨fuel - 3, by omega⟩
  have h1 := fad_self_check re hn f c kvs (flPath [] q) ps
  have h2 := fad_star_dict re (f + 2) c kvs [name] (flPath [] q) ps _ h1
  show (fa re (f + 2 + 1) (.dict c kvs) (['*'] :: [name]) (flPath [] q) ps).res = _
  rw [h2]
  simp only
  have hpn : PlainPos (q ++ [Seg.key name]) := fad_plainPos_append hp ⟨hn, trivial⟩
  have hkey : keyOf (flPath [] q ++ [name]) = slash ++ renderPos (q ++ [Seg.key name]) := by
    rw [← fad_flPath_snoc_key]
    exact fad_keyOf_rooted (fad_rooted_snoc hr _ (fun _ => ⟨name, rfl⟩)) (by simp) hpn
  simp only [descV, fadMapR_append] at hnd ⊢
  have hacc : upd [] (match lookup name kvs with
      | some x => some [(keyOf (flPath [] q ++ [name]), x)]
      | Option.none => Option.none) =
      fadMapR q (match lookup name kvs with
        | some c => [([Seg.key name], c)]
        | Option.none => []) := by
    cases lookup name kvs with
    | none => rfl
    | some x => simp only [hkey]; rfl
  rw [hacc]
  exact hN (f + 2) (by omega) q _ _ hr hp hnd

theorem fad_desc_list (c : Cls) (xs : List Val) (hl : FadPL re name xs) : FadPV re name (.list c xs) := by
  intro _ hko hco
  simp only [KeysOkV, ContOkV] at hko hco
  obtain ⟨N, hN⟩ := hl hko hco
  refine ⟨N + 2, fun fuel hf q ps hr hp hq hnd => ?_⟩
  obtain ⟨f, rfl⟩ : ∃ f, fuel = f + 2 := ⟨fuel - 2, by omega⟩
  have hq' : q ≠ [] := hq ⟨c, xs, rfl⟩
  show (fa re (f + 2) (.list c xs) (['*'] :: [name]) (flPath [] q) ps).res = _
  rw [fad_star_list re f c xs [name] (flPath [] q) ps (fad_flPath_rooted_ne hr hq')]
  simp only [descV] at hnd ⊢
  have := hN f (by omega) q ps (.list c xs) 0 (flPath [] q) [] hr hq' hp rfl (by simpa using hnd)
  simpa [fadT] using this

theorem fad_desc_kcons (k : Str) (c : Val) (kvs : List (Str × Val)) (hv : FadPV re name c) (hk : FadPK re name kvs) :
    FadPK re name ((k, c) :: kvs) := by
  intro hko hco
  simp only [KeysOkK, ContOkK] at hko hco
  obtain ⟨hpk, _, hkc, hkk⟩ := hko
  obtain ⟨N2, hN2⟩ := hk hkk hco.2
  by_cases hc : isContainer c = true
  · obtain ⟨N1, hN1⟩ := hv hc hkc hco.1
    refine ⟨max N1 N2, fun fuel hf q ps acc hr hp hnd => ?_⟩
    have hf1 : fuel ≥ N1 := by omega
    have hf2 : fuel ≥ N2 := by omega
    simp only [descK, fadMapR_append] at hnd ⊢
    rw [← fadMapR_snoc] at hnd ⊢
    obtain ⟨hd1, hd2, hd3⟩ := fad_nodup_split hnd
    have hcall := hN1 fuel hf1 (q ++ [Seg.key k]) ps (fad_rooted_snoc hr _ (fun _ => ⟨k, rfl⟩))
      (fad_plainPos_append hp ⟨hpk, trivial⟩) (fun _ => by simp) hd1
    rw [fad_flPath_snoc_key] at hcall
    simp only [keysLoop, hc, if_true, hcall]
    rw [fad_upd_append _ _ hd2, hN2 fuel hf2 q ps _ hr hp hd3, List.append_assoc]
  · have hc' : isContainer c = false := by simpa using hc
    refine ⟨N2, fun fuel hf q ps acc hr hp hnd => ?_⟩
    simp only [descK, fad_descV_scalar name c hc', List.map_nil, List.nil_append] at hnd ⊢
    simp only [keysLoop, hc', Bool.false_eq_true, if_false]
    exact hN2 fuel hf q ps acc hr hp hnd

theorem fad_desc_lcons (x : Val) (xs : List Val) (hv : FadPV re name x) (hl : FadPL re name xs) :
    FadPL re name (x :: xs) := by
  intro hko hco
  simp only [KeysOkL, ContOkL] at hko hco
  obtain ⟨hcx, hcv, hcl⟩ := hco
  obtain ⟨N1, hN1⟩ := hv hcx hko.1 hcv
  obtain ⟨N2, hN2⟩ := hl hko.2 hcl
  refine ⟨max N1 N2, fun fuel hf q ps node i cur acc hr hq hp hcur hnd => ?_⟩
  have hf1 : fuel ≥ N1 := by omega
  have hf2 : fuel ≥ N2 := by omega
  simp only [descL, fadMapR_append] at hnd ⊢
  rw [← fadMapR_snoc] at hnd ⊢
  obtain ⟨hd1, hd2, hd3⟩ := fad_nodup_split hnd
  have hfl := fad_flPath_rooted_ne hr hq
  have hcur1 : setLast cur ((flPath [] q).getLast?.getD [] ++ bracket (natRepr i)) = flPath [] (q ++ [Seg.idx i]) := by
    rw [fad_flPath_snoc_idx]
    have he : (flPath [] q).isEmpty = false := by
      cases hh : flPath [] q with
      | nil => exact absurd hh hfl
      | cons _ _ => rfl
    simp only [bump, he, Bool.false_eq_true, if_false, setLast, hcur]
  have hcall := hN1 fuel hf1 (q ++ [Seg.idx i]) (push ps (flPath [] (q ++ [Seg.idx i])) node)
    (fad_rooted_snoc hr _ (fun h => absurd h hq))
    (fad_plainPos_append hp (by trivial)) (fun _ => by simp) hd1
  simp only [starLoop, hcx, if_true, hcur1, hcall]
  rw [fad_upd_append _ _ hd2]
  have hdl : (fa re fuel x (fadT name) (flPath [] (q ++ [Seg.idx i])) (push ps (flPath [] (q ++ [Seg.idx i])) node)).fl.dropLast
      = (flPath [] q).dropLast := by
    rw [fa_dl, ← hcur1, setLast_dropLast, hcur]
  rw [hN2 fuel hf2 q ps node (i + 1) _ _ hr hq hp hdl hd3, List.append_assoc]

theorem fad_desc_all (hn : PlainKey name) :
    (∀ v, FadPV re name v) ∧ (∀ kvs, FadPK re name kvs) ∧ (∀ xs, FadPL re name xs) := by
  refine fad_val_ind (fun c kvs h => fad_desc_dict re name hn c kvs h) (fun c xs h => fad_desc_list re name c xs h)
    (fun v hv hc => by rw [hv] at hc; cases hc) ?_ (fun k c kvs h1 h2 => fad_desc_kcons re name k c kvs h1 h2) ?_
    (fun x xs h1 h2 => fad_desc_lcons re name x xs h1 h2)
  · intro _ _
    exact ⟨0, fun fuel _ q ps acc _ _ _ => by simp [keysLoop, descK, fadMapR]⟩
  · intro _ _
    exact ⟨0, fun fuel _ q ps node i cur acc _ _ _ _ _ => by simp [starLoop, descL, fadMapR]⟩

end desc

end N0.FindAll
