import N0Verif.Proofs.Compare
import N0Verif.Proofs.CompareFaithful
/-!
(A) every unique entry names a node that is absent at that place on the other side;
(B) swapping the operands swaps the two unique lists and mirrors each pair.
-/
namespace N0.Compare
open N0

/-! ## (A) unique entries are absent on the other side -/

/-- the node `q ++ [seg]` is absent in `B` (operand side `s`): its parent `q` resolves, and for a dictionary the
key is missing, for a list (direct mode) the index is beyond the end -/
def AbsentAt (cfg : Cfg) (s : Side) (q : Path) (seg : PSeg) (B : Val) : Prop :=
  (∃ k c kvs, seg = .key k ∧ getAt s q B = some (.dict c kvs) ∧ Val.lookup k kvs = none) ∨
  (∃ i c ys, seg = .idx i ∧ getAt s q B = some (.list c ys) ∧ (cfg.direct = true → ys.length ≤ i))

structure Absent (cfg : Cfg) (p : Path) (A B : Val) (r : Res) : Prop where
  su : ∀ e ∈ r.selfUnique, ∃ q s, e.path = p ++ q ++ [s] ∧ AbsentAt cfg .right q s B
  ou : ∀ e ∈ r.otherUnique, ∃ q s, e.path = p ++ q ++ [s] ∧ AbsentAt cfg .left q s A

theorem AbsentAt.lift {cfg : Cfg} {s : Side} {q : Path} {seg seg0 : PSeg} {B w : Val}
    (hw : segGet s seg0 B = some w) (h : AbsentAt cfg s q seg w) : AbsentAt cfg s (seg0 :: q) seg B := by
  rcases h with ⟨k, c, kvs, h1, h2, h3⟩ | ⟨i, c, ys, h1, h2, h3⟩
  · exact Or.inl ⟨k, c, kvs, h1, by simp [getAt, hw, h2], h3⟩
  · exact Or.inr ⟨i, c, ys, h1, by simp [getAt, hw, h2], h3⟩

theorem absent_append {cfg : Cfg} {p : Path} {A B : Val} {a b : Res}
    (ha : Absent cfg p A B a) (hb : Absent cfg p A B b) : Absent cfg p A B (a ++ b) := by
  refine ⟨?_, ?_⟩
  · intro e he
    simp only [append_selfUnique, List.mem_append] at he
    exact he.elim (ha.su e) (hb.su e)
  · intro e he
    simp only [append_otherUnique, List.mem_append] at he
    exact he.elim (ha.ou e) (hb.ou e)

theorem absent_empty (cfg : Cfg) (p : Path) (A B : Val) : Absent cfg p A B Res.empty :=
  ⟨by intro e he; simp [Res.empty] at he, by intro e he; simp [Res.empty] at he⟩

theorem Absent.lift {cfg : Cfg} {p : Path} {seg : PSeg} {A B v w : Val} {r : Res}
    (hl : segGet .left seg A = some v) (hr : segGet .right seg B = some w)
    (h : Absent cfg (p ++ [seg]) v w r) : Absent cfg p A B r := by
  refine ⟨?_, ?_⟩
  · intro e he
    obtain ⟨q, s, hp, ha⟩ := h.su e he
    exact ⟨seg :: q, s, by simp [hp], ha.lift hr⟩
  · intro e he
    obtain ⟨q, s, hp, ha⟩ := h.ou e he
    exact ⟨seg :: q, s, by simp [hp], ha.lift hl⟩

theorem absent_of_shape {cfg : Cfg} {p pne pdt : Path} {A B x y : Val} {r : Res}
    (hs : ItemShape pne pdt x y r) : Absent cfg p A B r := by
  obtain ⟨_, _, hsu, hou⟩ := hs
  exact ⟨(by intro e he; rw [hsu] at he; cases he), (by intro e he; rw [hou] at he; cases he)⟩

theorem lookup_none_of_not_hasKey {k : Str} {kvs : List (Str × Val)} (h : (!hasKey k kvs) = true) :
    Val.lookup k kvs = none := by
  simp only [hasKey, Bool.not_eq_true', Option.isSome_eq_false_iff, Option.isNone_iff_eq_none] at h
  exact h

theorem dictTail_absent (cfg : Cfg) (p : Path) (sa oa : Val) (c c' : Cls) (skvs okvs : List (Str × Val))
    (still : Bool) :
    Absent cfg p (.dict c skvs) (.dict c' okvs) (dictTail cfg p sa oa skvs okvs still) := by
  refine ⟨?_, ?_⟩
  · intro e he
    simp only [dictTail, List.mem_filterMap, List.mem_filter] at he
    obtain ⟨kv, ⟨_, hnk⟩, hlo⟩ := he
    have := leftover_eq hlo
    subst this
    exact ⟨[], .key kv.1, by simp, Or.inl ⟨kv.1, c', okvs, rfl, rfl, lookup_none_of_not_hasKey hnk⟩⟩
  · intro e he
    simp only [dictTail, List.mem_filterMap, List.mem_filter] at he
    obtain ⟨kv, ⟨_, hnk⟩, hlo⟩ := he
    have := leftover_eq hlo
    subst this
    exact ⟨[], .key kv.1, by simp, Or.inl ⟨kv.1, c, skvs, rfl, rfl, lookup_none_of_not_hasKey hnk⟩⟩

theorem keyedTail_absent (cfg : Cfg) (p : Path) (c c' : Cls) (sl ol : List Val) (sr orr : List KE)
    (hd : cfg.direct = false) :
    Absent cfg p (.list c sl) (.list c' ol) (keyedTail p sr orr) := by
  refine ⟨?_, ?_⟩
  · intro e he
    simp only [keyedTail, List.mem_map] at he
    obtain ⟨ke, _, rfl⟩ := he
    exact ⟨[], .idx ke.2.1, by simp, Or.inr ⟨_, c', ol, rfl, rfl, fun h => by rw [hd] at h; cases h⟩⟩
  · intro e he
    simp only [keyedTail, List.mem_map] at he
    obtain ⟨ke, _, rfl⟩ := he
    exact ⟨[], .idx ke.2.1, by simp, Or.inr ⟨_, c, sl, rfl, rfl, fun h => by rw [hd] at h; cases h⟩⟩

/-! ### the four walks -/

mutual
theorem sub_absent (cfg : Cfg) (site : Site) (p : Path) (v w : Val) (r : Res)
    (hv : wf v = true) (hw : wf w = true)
    (h : sub cfg site p v w = .ok r) : Absent cfg p v w r :=
  match v, w, hv, hw, h with
  | .list c xs, w, hv, hw, h => by
    cases w with
    | list c' ys =>
      simp only [wf] at hv hw
      simp only [sub] at h
      split at h
      · cases h
      · split at h
        · cases h
        · split at h
          · cases h; exact absent_empty ..
          · split at h
            · exact directWalk_absent cfg p _ _ c c' xs ys 0 xs ys r (by simp) (by simp) hv hw h
            · rename_i hd
              split at h
              · cases h
              · split at h
                · cases h
                · exact keyedWalk_absent cfg p _ _ c c' xs ys 0 xs _ _ _ r (by simpa using hd) (by simp) hv hw
                    (mkEntries_get xs _ xs 0 (by simp)) (mkEntries_get ys _ ys 0 (by simp)) h
    | _ => simp [sub] at h
  | .dict c kvs, w, hv, hw, h => by
    cases w with
    | dict c' kvs' =>
      simp only [wf, Bool.and_eq_true] at hv hw
      simp only [sub] at h
      split at h
      · cases h
      · exact dictWalk_absent cfg p _ _ c c' kvs kvs' true kvs r hv.2 hw.2 hw.1
          (fun k v hm => lookup_of_mem kvs k v hv.2 hm) hv.1 h
    | _ => simp [sub] at h
  | .none, _, _, _, h => by simp [sub] at h; subst h; exact absent_empty ..
  | .bool _, _, _, _, h => by simp [sub] at h
  | .int _, _, _, _, h => by simp [sub] at h
  | .flt _, _, _, _, h => by simp [sub] at h
  | .str _, _, _, _, h => by simp [sub] at h
termination_by structural v

theorem dictWalk_absent (cfg : Cfg) (p : Path) (sa oa : Val) (c c' : Cls) (skvs okvs : List (Str × Val))
    (still : Bool) (kvs : List (Str × Val)) (r : Res)
    (hs : keysNodup skvs = true) (ho : keysNodup okvs = true) (hwo : wfK okvs = true)
    (hk : ∀ k v, (k, v) ∈ kvs → Val.lookup k skvs = some v) (hwk : wfK kvs = true)
    (h : dictWalk cfg p sa oa skvs okvs still kvs = .ok r) :
    Absent cfg p (.dict c skvs) (.dict c' okvs) r :=
  match kvs, still, hk, hwk, h with
  | [], still, _, _, h => by
    simp only [dictWalk] at h
    cases h; exact dictTail_absent cfg p sa oa c c' skvs okvs still
  | (k, v) :: rest, still, hk, hwk, h => by
    simp only [dictWalk] at h
    simp only [wfK, Bool.and_eq_true] at hwk
    have hk' : ∀ k v, (k, v) ∈ rest → Val.lookup k skvs = some v :=
      fun k v hm => hk k v (List.mem_cons_of_mem _ hm)
    have hkv : Val.lookup k skvs = some v := hk k v (List.mem_cons_self ..)
    cases hl : Val.lookup k okvs with
    | none =>
      rw [hl] at h
      exact dictWalk_absent cfg p sa oa c c' skvs okvs still rest r hs ho hwo hk' hwk.2 h
    | some w =>
      rw [hl] at h
      simp only at h
      have hww : wf w = true := wfK_lookup okvs k w hwo hl
      have hL : segGet .left (.key k) (.dict c skvs) = some v := by simpa using hkv
      have hR : segGet .right (.key k) (.dict c' okvs) = some w := by simpa using hl
      have hcb := classifyEntry_shape cfg (p ++ [.key k]) v w
      cases hcl : classifyEntry cfg (p ++ [.key k]) v w with
      | emit r0 s =>
        rw [hcl] at h hcb
        simp only at h
        cases hr : dictWalk cfg p sa oa skvs okvs (still && s) rest with
        | error e => rw [hr] at h; cases h
        | ok r' =>
          rw [hr] at h; cases h
          exact absent_append (absent_of_shape hcb)
            (dictWalk_absent cfg p sa oa c c' skvs okvs (still && s) rest r' hs ho hwo hk' hwk.2 hr)
      | descend =>
        rw [hcl] at h
        simp only at h
        cases hsb : sub cfg .entry (p ++ [.key k]) v w with
        | error e => rw [hsb] at h; cases h
        | ok r1 =>
          rw [hsb] at h
          simp only at h
          cases hr : dictWalk cfg p sa oa skvs okvs still rest with
          | error e => rw [hr] at h; cases h
          | ok r' =>
            rw [hr] at h; cases h
            exact absent_append (Absent.lift hL hR (sub_absent cfg .entry _ v w r1 hwk.1 hww hsb))
              (dictWalk_absent cfg p sa oa c c' skvs okvs still rest r' hs ho hwo hk' hwk.2 hr)
termination_by structural kvs

theorem directWalk_absent (cfg : Cfg) (p : Path) (sa oa : Val) (c c' : Cls) (sl ol : List Val) (i : Nat)
    (xs ys : List Val) (r : Res)
    (hx : ∀ n, xs[n]? = sl[i + n]?) (hy : ∀ n, ys[n]? = ol[i + n]?)
    (hwx : wfL xs = true) (hwy : wfL ys = true)
    (h : directWalk cfg p sa oa i xs ys = .ok r) : Absent cfg p (.list c sl) (.list c' ol) r :=
  match xs, ys, i, hx, hy, hwx, hwy, h with
  | [], ys, i, hx, hy, _, _, h => by
    simp only [directWalk] at h
    cases h
    refine ⟨?_, ?_⟩
    · intro e he; simp at he
    · intro e he
      obtain ⟨n, hp, hg⟩ := otherTail_mem p ys i e he
      refine ⟨[], .idx (i + n), by simpa using hp, Or.inr ⟨i + n, c, sl, rfl, rfl, fun _ => ?_⟩⟩
      have := hx n
      simp only [List.getElem?_nil] at this
      exact List.getElem?_eq_none_iff.1 this.symm
  | x :: xs, [], i, hx, hy, hwx, hwy, h => by
    simp only [directWalk] at h
    simp only [wfL, Bool.and_eq_true] at hwx
    have hx0 : sl[i]? = some x := by simpa using (hx 0).symm
    have hx' : ∀ n, xs[n]? = sl[i + 1 + n]? := by
      intro n
      have := hx (n + 1)
      simp only [List.getElem?_cons_succ] at this
      rw [this]; congr 1; omega
    have hy' : ∀ n, ([] : List Val)[n]? = ol[i + 1 + n]? := by
      intro n
      have := hy (n + 1)
      simp only [List.getElem?_nil] at this ⊢
      rw [this]; congr 1; omega
    cases hr : directWalk cfg p sa oa (i + 1) xs [] with
    | error e => rw [hr] at h; cases h
    | ok r' =>
      rw [hr] at h; cases h
      refine absent_append ⟨?_, ?_⟩
        (directWalk_absent cfg p sa oa c c' sl ol (i + 1) xs [] r' hx' hy' hwx.2 hwy hr)
      · intro e he
        simp only [List.mem_singleton] at he
        subst he
        refine ⟨[], .idx i, by simp, Or.inr ⟨i, c', ol, rfl, rfl, fun _ => ?_⟩⟩
        have := hy 0
        simp only [List.getElem?_nil, Nat.add_zero] at this
        exact List.getElem?_eq_none_iff.1 this.symm
      · intro e he; simp at he
  | x :: xs, y :: ys, i, hx, hy, hwx, hwy, h => by
    simp only [directWalk] at h
    simp only [wfL, Bool.and_eq_true] at hwx hwy
    have hx0 : sl[i]? = some x := by simpa using (hx 0).symm
    have hy0 : ol[i]? = some y := by simpa using (hy 0).symm
    have hx' : ∀ n, xs[n]? = sl[i + 1 + n]? := by
      intro n
      have := hx (n + 1)
      simp only [List.getElem?_cons_succ] at this
      rw [this]; congr 1; omega
    have hy' : ∀ n, ys[n]? = ol[i + 1 + n]? := by
      intro n
      have := hy (n + 1)
      simp only [List.getElem?_cons_succ] at this
      rw [this]; congr 1; omega
    have hL : segGet .left (.idx i) (.list c sl) = some x := by simpa using hx0
    have hR : segGet .right (.idx i) (.list c' ol) = some y := by simpa using hy0
    have hcb := classifyItem_shape cfg p (p ++ [.idx i]) (p ++ [.idx i]) sa oa x y
    cases hcl : classifyItem cfg p (p ++ [.idx i]) (p ++ [.idx i]) sa oa x y with
    | emit r0 s =>
      rw [hcl] at h hcb
      simp only at h
      cases hr : directWalk cfg p sa oa (i + 1) xs ys with
      | error e => rw [hr] at h; cases h
      | ok r' =>
        rw [hr] at h; cases h
        exact absent_append (absent_of_shape hcb)
          (directWalk_absent cfg p sa oa c c' sl ol (i + 1) xs ys r' hx' hy' hwx.2 hwy.2 hr)
    | descend =>
      rw [hcl] at h
      simp only at h
      cases hsb : sub cfg .item (p ++ [.idx i]) x y with
      | error e => rw [hsb] at h; cases h
      | ok r1 =>
        rw [hsb] at h
        simp only at h
        cases hr : directWalk cfg p sa oa (i + 1) xs ys with
        | error e => rw [hr] at h; cases h
        | ok r' =>
          rw [hr] at h; cases h
          exact absent_append (Absent.lift hL hR (sub_absent cfg .item _ x y r1 hwx.1 hwy.1 hsb))
            (directWalk_absent cfg p sa oa c c' sl ol (i + 1) xs ys r' hx' hy' hwx.2 hwy.2 hr)
termination_by structural xs

theorem keyedWalk_absent (cfg : Cfg) (p : Path) (sa oa : Val) (c c' : Cls) (sl ol : List Val) (i : Nat)
    (xs : List Val) (ks : List Str) (sr orr : List KE) (r : Res)
    (hd : cfg.direct = false)
    (hx : ∀ n, xs[n]? = sl[i + n]?) (hwx : wfL xs = true) (hwo : wfL ol = true)
    (hsr : ∀ e ∈ sr, sl[e.2.1]? = some e.2.2) (horr : ∀ e ∈ orr, ol[e.2.1]? = some e.2.2)
    (h : keyedWalk cfg p sa oa i xs ks sr orr = .ok r) : Absent cfg p (.list c sl) (.list c' ol) r :=
  match xs, ks, sr, orr, i, hx, hwx, hsr, horr, h with
  | [], _, sr, orr, i, _, _, hsr, horr, h => by
    simp only [keyedWalk] at h
    cases h; exact keyedTail_absent cfg p c c' sl ol sr orr hd
  | _ :: _, [], _, _, i, _, _, _, _, h => by simp [keyedWalk] at h
  | x :: xs, k :: ks, sr, orr, i, hx, hwx, hsr, horr, h => by
    simp only [keyedWalk] at h
    simp only [wfL, Bool.and_eq_true] at hwx
    have hx0 : sl[i]? = some x := by simpa using (hx 0).symm
    have hx' : ∀ n, xs[n]? = sl[i + 1 + n]? := by
      intro n
      have := hx (n + 1)
      simp only [List.getElem?_cons_succ] at this
      rw [this]; congr 1; omega
    cases hf : findKey k orr with
    | none =>
      rw [hf] at h
      exact keyedWalk_absent cfg p sa oa c c' sl ol (i + 1) xs ks sr orr r hd hx' hwx.2 hwo hsr horr h
    | some jy =>
      obtain ⟨j, y⟩ := jy
      rw [hf] at h
      simp only at h
      obtain ⟨k', hmem⟩ := findKey_mem orr k j y hf
      have hy0 : ol[j]? = some y := horr _ hmem
      have hwy : wf y = true := wfL_get ol j y hwo hy0
      have hsr' : ∀ e ∈ eraseKey k sr, sl[e.2.1]? = some e.2.2 := fun e he => hsr e (eraseKey_sub sr k e he)
      have horr' : ∀ e ∈ eraseKey k orr, ol[e.2.1]? = some e.2.2 := fun e he => horr e (eraseKey_sub orr k e he)
      have hL : segGet .left (if i = j then PSeg.idx i else PSeg.idx2 i j) (.list c sl) = some x := by
        rw [segGet_keyed_left]; exact hx0
      have hR : segGet .right (if i = j then PSeg.idx i else PSeg.idx2 i j) (.list c' ol) = some y := by
        rw [segGet_keyed_right]; exact hy0
      have hL2 : segGet .left (.idx i) (.list c sl) = some x := by simpa using hx0
      have hR2 : cfg.direct = true → segGet .right (.idx i) (.list c' ol) = some y := by
        intro hd'; rw [hd] at hd'; cases hd'
      have hcb := classifyItem_shape cfg p (p ++ [if i = j then PSeg.idx i else PSeg.idx2 i j]) (p ++ [if i = j then PSeg.idx i else PSeg.idx2 i j]) sa oa x y
      cases hcl : classifyItem cfg p (p ++ [if i = j then PSeg.idx i else PSeg.idx2 i j]) (p ++ [if i = j then PSeg.idx i else PSeg.idx2 i j]) sa oa x y with
      | emit r0 s =>
        rw [hcl] at h hcb
        simp only at h
        cases hr : keyedWalk cfg p sa oa (i + 1) xs ks (eraseKey k sr) (eraseKey k orr) with
        | error e => rw [hr] at h; cases h
        | ok r' =>
          rw [hr] at h; cases h
          exact absent_append (absent_of_shape hcb)
            (keyedWalk_absent cfg p sa oa c c' sl ol (i + 1) xs ks _ _ r' hd hx' hwx.2 hwo hsr' horr' hr)
      | descend =>
        rw [hcl] at h
        simp only at h
        cases hsb : sub cfg .item (p ++ [if i = j then PSeg.idx i else PSeg.idx2 i j]) x y with
        | error e => rw [hsb] at h; cases h
        | ok r1 =>
          rw [hsb] at h
          simp only at h
          cases hr : keyedWalk cfg p sa oa (i + 1) xs ks (eraseKey k sr) (eraseKey k orr) with
          | error e => rw [hr] at h; cases h
          | ok r' =>
            rw [hr] at h; cases h
            exact absent_append (Absent.lift hL hR (sub_absent cfg .item _ x y r1 hwx.1 hwy hsb))
              (keyedWalk_absent cfg p sa oa c c' sl ol (i + 1) xs ks _ _ r' hd hx' hwx.2 hwo hsr' horr' hr)
termination_by structural xs
end


theorem compareTop_absent (cfg : Cfg) (a b : Val) (r : Res) (hw : wf a = true) (hw' : wf b = true)
    (h : compareTop cfg a b = .ok r) : Absent cfg [] a b r := by
  unfold compareTop at h
  split at h
  · split at h
    · simp only [wf, Bool.and_eq_true] at hw hw'
      rename_i kvs _ kvs'
      exact dictWalk_absent cfg [] _ _ .n0 .n0 kvs kvs' true kvs r hw.2 hw'.2 hw'.1
        (fun k v hm => lookup_of_mem kvs k v hw.2 hm) hw.1 h
    · cases h
  · split at h
    · exact sub_absent cfg .entry [] _ _ r hw hw' h
    · cases h
  · cases h

/-- a self-unique entry: its parent resolves on the other side; for a dictionary entry the key is missing in the
other dictionary, for a list item in direct mode the index is beyond the other list -/
theorem selfUnique_absent (cfg : Cfg) (a b : Val) (r : Res) (hw : wf a = true) (hw' : wf b = true)
    (h : compareTop cfg a b = .ok r) :
    ∀ e ∈ r.selfUnique, ∃ q s, e.path = q ++ [s] ∧
      ((∃ k c kvs, s = .key k ∧ getAt .right q b = some (.dict c kvs) ∧ Val.lookup k kvs = none) ∨
       (∃ i c ys, s = .idx i ∧ getAt .right q b = some (.list c ys) ∧ (cfg.direct = true → ys.length ≤ i))) := by
  intro e he
  obtain ⟨q, s, hp, ha⟩ := (compareTop_absent cfg a b r hw hw' h).su e he
  exact ⟨q, s, by simpa using hp, ha⟩

/-- mirror image for the entries unique to the right operand -/
theorem otherUnique_absent (cfg : Cfg) (a b : Val) (r : Res) (hw : wf a = true) (hw' : wf b = true)
    (h : compareTop cfg a b = .ok r) :
    ∀ e ∈ r.otherUnique, ∃ q s, e.path = q ++ [s] ∧
      ((∃ k c kvs, s = .key k ∧ getAt .left q a = some (.dict c kvs) ∧ Val.lookup k kvs = none) ∨
       (∃ i c xs, s = .idx i ∧ getAt .left q a = some (.list c xs) ∧ (cfg.direct = true → xs.length ≤ i))) := by
  intro e he
  obtain ⟨q, s, hp, ha⟩ := (compareTop_absent cfg a b r hw hw' h).ou e he
  exact ⟨q, s, by simpa using hp, ha⟩

/-! ### keyed mode: after the walk no key is left over on both sides -/

/-- the remaining lists after the loop of `n0list.compare` (keys only) -/
def keyedRem : List Str → List KE → List KE → List KE × List KE
  | [], sr, orr => (sr, orr)
  | k :: ks, sr, orr =>
    match findKey k orr with
    | none => keyedRem ks sr orr
    | some _ => keyedRem ks (eraseKey k sr) (eraseKey k orr)

theorem keysOf_length_sw (cfg : Cfg) (p : Path) : ∀ (i : Nat) (xs : List Val) (ks : List Str),
    keysOf cfg p i xs = .ok ks → ks.length = xs.length
  | _, [], ks, h => by simp only [keysOf] at h; cases h; rfl
  | i, x :: xs, ks, h => by
    simp only [keysOf] at h
    cases hk : keyOf cfg p i x with
    | error e => rw [hk] at h; cases h
    | ok k =>
      rw [hk] at h
      simp only at h
      cases hr : keysOf cfg p (i + 1) xs with
      | error e => rw [hr] at h; cases h
      | ok ks' =>
        rw [hr] at h; cases h
        simp [keysOf_length_sw cfg p (i + 1) xs ks' hr]

theorem mkEntries_keys_sw : ∀ (ks : List Str) (xs : List Val) (i : Nat), xs.length = ks.length →
    (mkEntries i ks xs).map (·.1) = ks
  | [], [], _, _ => rfl
  | [], _ :: _, _, h => by simp at h
  | _ :: _, [], _, h => by simp at h
  | k :: ks, x :: xs, i, h => by
    simp only [mkEntries, List.map_cons]
    rw [mkEntries_keys_sw ks xs (i + 1) (by simpa using h)]

theorem eraseKey_keys (k : Str) : ∀ l : List KE, (eraseKey k l).map (·.1) = (l.map (·.1)).erase k
  | [] => rfl
  | (k', i, v) :: rest => by
    simp only [eraseKey, List.map_cons]
    by_cases h : k = k'
    · subst h; simp
    · have h' : ¬ k' = k := fun e => h e.symm
      simp only [h, if_false, List.map_cons, eraseKey_keys k rest]
      rw [List.erase_cons_tail (by simpa using h')]

theorem findKey_isSome_iff (k : Str) : ∀ l : List KE, (findKey k l).isSome = true ↔ k ∈ l.map (·.1)
  | [] => by simp [findKey]
  | (k', i, v) :: rest => by
    simp only [findKey, List.map_cons, List.mem_cons]
    by_cases h : k = k'
    · simp [h]
    · simp [h, findKey_isSome_iff k rest]

/-- the keyed walk decomposes: nested results first, then the leftovers given by `keyedRem` -/
theorem keyedWalk_decomp (cfg : Cfg) (p : Path) (sa oa : Val) : ∀ (xs : List Val) (ks : List Str) (i : Nat)
    (sr orr : List KE) (r : Res), xs.length = ks.length →
    keyedWalk cfg p sa oa i xs ks sr orr = .ok r →
    (∃ l, r.selfUnique = l ++ (keyedTail p (keyedRem ks sr orr).1 (keyedRem ks sr orr).2).selfUnique) ∧
    (∃ l, r.otherUnique = l ++ (keyedTail p (keyedRem ks sr orr).1 (keyedRem ks sr orr).2).otherUnique)
  | [], [], i, sr, orr, r, _, h => by
    simp only [keyedWalk] at h
    cases h
    exact ⟨⟨[], rfl⟩, ⟨[], rfl⟩⟩
  | [], _ :: _, _, _, _, _, hl, _ => by simp at hl
  | _ :: _, [], _, _, _, _, hl, _ => by simp at hl
  | x :: xs, k :: ks, i, sr, orr, r, hl, h => by
    have hl' : xs.length = ks.length := by simpa using hl
    simp only [keyedWalk] at h
    simp only [keyedRem]
    cases hf : findKey k orr with
    | none =>
      rw [hf] at h
      exact keyedWalk_decomp cfg p sa oa xs ks (i + 1) sr orr r hl' h
    | some jy =>
      obtain ⟨j, y⟩ := jy
      rw [hf] at h
      simp only at h ⊢
      cases hcl : classifyItem cfg p (p ++ [if i = j then PSeg.idx i else PSeg.idx2 i j]) (p ++ [if i = j then PSeg.idx i else PSeg.idx2 i j]) sa oa x y with
      | emit r0 s =>
        rw [hcl] at h
        simp only at h
        cases hr : keyedWalk cfg p sa oa (i + 1) xs ks (eraseKey k sr) (eraseKey k orr) with
        | error e => rw [hr] at h; cases h
        | ok r' =>
          rw [hr] at h; cases h
          obtain ⟨⟨l1, h1⟩, ⟨l2, h2⟩⟩ := keyedWalk_decomp cfg p sa oa xs ks (i + 1) _ _ r' hl' hr
          exact ⟨⟨r0.selfUnique ++ l1, by simp only [append_selfUnique, h1, List.append_assoc]⟩,
                 ⟨r0.otherUnique ++ l2, by simp only [append_otherUnique, h2, List.append_assoc]⟩⟩
      | descend =>
        rw [hcl] at h
        simp only at h
        cases hs : sub cfg .item (p ++ [if i = j then PSeg.idx i else PSeg.idx2 i j]) x y with
        | error e => rw [hs] at h; cases h
        | ok r0 =>
          rw [hs] at h
          simp only at h
          cases hr : keyedWalk cfg p sa oa (i + 1) xs ks (eraseKey k sr) (eraseKey k orr) with
          | error e => rw [hr] at h; cases h
          | ok r' =>
            rw [hr] at h; cases h
            obtain ⟨⟨l1, h1⟩, ⟨l2, h2⟩⟩ := keyedWalk_decomp cfg p sa oa xs ks (i + 1) _ _ r' hl' hr
            exact ⟨⟨r0.selfUnique ++ l1, by simp only [append_selfUnique, h1, List.append_assoc]⟩,
                   ⟨r0.otherUnique ++ l2, by simp only [append_otherUnique, h2, List.append_assoc]⟩⟩

theorem keyedRem_sub : ∀ (ks : List Str) (sr orr : List KE),
    (∀ e ∈ (keyedRem ks sr orr).1, e ∈ sr) ∧ (∀ e ∈ (keyedRem ks sr orr).2, e ∈ orr)
  | [], _, _ => ⟨fun _ h => h, fun _ h => h⟩
  | k :: ks, sr, orr => by
    simp only [keyedRem]
    cases hf : findKey k orr with
    | none => exact keyedRem_sub ks sr orr
    | some jy =>
      have := keyedRem_sub ks (eraseKey k sr) (eraseKey k orr)
      exact ⟨fun e he => eraseKey_sub sr k e (this.1 e he), fun e he => eraseKey_sub orr k e (this.2 e he)⟩

/-- invariant: a key that still occurs on the right occurs as often among the remaining left entries as among the
keys still to be visited -/
theorem keyedRem_disjoint : ∀ (ks : List Str) (sr orr : List KE),
    (∀ κ, κ ∈ orr.map (·.1) → (sr.map (·.1)).count κ = ks.count κ) →
    ∀ e ∈ (keyedRem ks sr orr).1, ∀ e' ∈ (keyedRem ks sr orr).2, e.1 ≠ e'.1
  | [], sr, orr, hinv => by
    intro e he e' he' heq
    have h1 : e'.1 ∈ orr.map (·.1) := List.mem_map_of_mem he'
    have h2 := hinv e'.1 h1
    have h3 : e'.1 ∈ sr.map (·.1) := heq ▸ List.mem_map_of_mem he
    simp only [List.count_nil] at h2
    exact absurd h3 (List.count_eq_zero.1 h2)
  | k :: ks, sr, orr, hinv => by
    simp only [keyedRem]
    cases hf : findKey k orr with
    | none =>
      refine keyedRem_disjoint ks sr orr ?_
      intro κ hκ
      have hne : k ≠ κ := by
        intro e; subst e
        have := (findKey_isSome_iff k orr).2 hκ
        rw [hf] at this; cases this
      rw [hinv κ hκ, List.count_cons_of_ne hne]
    | some jy =>
      refine keyedRem_disjoint ks (eraseKey k sr) (eraseKey k orr) ?_
      intro κ hκ
      have hκ' : κ ∈ orr.map (·.1) := by
        rw [eraseKey_keys] at hκ
        exact List.mem_of_mem_erase hκ
      have := hinv κ hκ'
      rw [eraseKey_keys, List.count_erase]
      by_cases hk : k = κ
      · subst hk
        simp only [beq_self_eq_true, if_true, this, List.count_cons_self]
        omega
      · have : (k == κ) = false := by simpa using hk
        simp only [this, Bool.false_eq_true, if_false, Nat.sub_zero]
        rw [hinv κ hκ', List.count_cons_of_ne hk]

/-- in the result of one keyed list walk the entries left over at this level (`prefix[i]`) never share a key:
an item reported as unique on one side has no unmatched partner with the same key on the other side -/
theorem keyedWalk_tail_disjoint (cfg : Cfg) (p : Path) (sa oa : Val) (xs ys : List Val) (ks ko : List Str) (r : Res)
    (hlen : ks.length = xs.length)
    (h : keyedWalk cfg p sa oa 0 xs ks (mkEntries 0 ks xs) (mkEntries 0 ko ys) = .ok r) :
    ∃ (sr' orr' : List KE) (lsu lou : List UE),
      r.selfUnique = lsu ++ sr'.map (fun e => ⟨p ++ [.idx e.2.1], e.2.2⟩) ∧
      r.otherUnique = lou ++ orr'.map (fun e => ⟨p ++ [.idx e.2.1], e.2.2⟩) ∧
      (∀ e ∈ sr', e ∈ mkEntries 0 ks xs) ∧ (∀ e ∈ orr', e ∈ mkEntries 0 ko ys) ∧
      (∀ e ∈ sr', ∀ e' ∈ orr', e.1 ≠ e'.1) := by
  obtain ⟨⟨l1, h1⟩, ⟨l2, h2⟩⟩ := keyedWalk_decomp cfg p sa oa xs ks 0 _ _ r hlen.symm h
  have hs := keyedRem_sub ks (mkEntries 0 ks xs) (mkEntries 0 ko ys)
  refine ⟨_, _, l1, l2, h1, h2, hs.1, hs.2, keyedRem_disjoint ks _ _ ?_⟩
  intro κ _
  rw [mkEntries_keys_sw ks xs 0 hlen.symm]

set_option linter.unusedSimpArgs false

/-! ## (B) swap symmetry -/

def mirrorSeg : PSeg → PSeg
  | .idx2 i j => .idx2 j i
  | s => s
def mirrorPath (p : Path) : Path := p.map mirrorSeg

def Res.mirror (r : Res) : Res :=
  { diffs := r.diffs,
    notEqual := r.notEqual.map (fun e => ⟨mirrorPath e.path, e.r, e.l, e.kind, e.delta⟩),
    selfUnique := r.otherUnique.map (fun e => ⟨mirrorPath e.path, e.v⟩),
    otherUnique := r.selfUnique.map (fun e => ⟨mirrorPath e.path, e.v⟩),
    diffTypes := r.diffTypes.map (fun e => ⟨mirrorPath e.path, e.r, e.l⟩),
    selfEqual := r.otherEqual, otherEqual := r.selfEqual }

theorem mirrorPath_snoc_key (p : Path) (k : Str) (hp : mirrorPath p = p) :
    mirrorPath (p ++ [.key k]) = p ++ [.key k] := by
  simp only [mirrorPath, List.map_append, List.map_cons, List.map_nil] at hp ⊢
  rw [hp]; rfl

theorem mirrorPath_snoc_idx (p : Path) (i : Nat) (hp : mirrorPath p = p) :
    mirrorPath (p ++ [.idx i]) = p ++ [.idx i] := by
  simp only [mirrorPath, List.map_append, List.map_cons, List.map_nil] at hp ⊢
  rw [hp]; rfl

/-- same entries as multisets, same number of prose lines (the equal-lists are not compared) -/
structure CorePerm (a b : Res) : Prop where
  ne : a.notEqual.Perm b.notEqual
  su : a.selfUnique.Perm b.selfUnique
  ou : a.otherUnique.Perm b.otherUnique
  dt : a.diffTypes.Perm b.diffTypes
  diffs : a.diffs = b.diffs

theorem CorePerm.refl (a : Res) : CorePerm a a := ⟨.refl _, .refl _, .refl _, .refl _, rfl⟩
theorem CorePerm.symm {a b : Res} (h : CorePerm a b) : CorePerm b a :=
  ⟨h.ne.symm, h.su.symm, h.ou.symm, h.dt.symm, h.diffs.symm⟩
theorem CorePerm.trans {a b c : Res} (h : CorePerm a b) (h' : CorePerm b c) : CorePerm a c :=
  ⟨h.ne.trans h'.ne, h.su.trans h'.su, h.ou.trans h'.ou, h.dt.trans h'.dt, h.diffs.trans h'.diffs⟩
theorem CorePerm.append {a a' b b' : Res} (h : CorePerm a a') (h' : CorePerm b b') :
    CorePerm (a ++ b) (a' ++ b') :=
  ⟨h.ne.append h'.ne, h.su.append h'.su, h.ou.append h'.ou, h.dt.append h'.dt, by
    simp only [append_diffs, h.diffs, h'.diffs]⟩
theorem corePerm_left_comm (a b c : Res) : CorePerm (a ++ (b ++ c)) (b ++ (a ++ c)) := by
  refine ⟨?_, ?_, ?_, ?_, ?_⟩
  · simp only [append_notEqual, ← List.append_assoc]; exact List.perm_append_comm.append_right _
  · simp only [append_selfUnique, ← List.append_assoc]; exact List.perm_append_comm.append_right _
  · simp only [append_otherUnique, ← List.append_assoc]; exact List.perm_append_comm.append_right _
  · simp only [append_diffTypes, ← List.append_assoc]; exact List.perm_append_comm.append_right _
  · simp only [append_diffs]; omega
theorem corePerm_assoc (a b c : Res) : CorePerm ((a ++ b) ++ c) (a ++ (b ++ c)) := by
  refine ⟨?_, ?_, ?_, ?_, ?_⟩
  · simp only [append_notEqual, List.append_assoc]; exact .refl _
  · simp only [append_selfUnique, List.append_assoc]; exact .refl _
  · simp only [append_otherUnique, List.append_assoc]; exact .refl _
  · simp only [append_diffTypes, List.append_assoc]; exact .refl _
  · simp only [append_diffs]; omega
theorem corePerm_empty_append (a : Res) : CorePerm (Res.empty ++ a) a := by
  refine ⟨?_, ?_, ?_, ?_, ?_⟩
  · simp only [append_notEqual]; exact .refl _
  · simp only [append_selfUnique]; exact .refl _
  · simp only [append_otherUnique]; exact .refl _
  · simp only [append_diffTypes]; exact .refl _
  · simp only [append_diffs, empty_diffs]; omega

theorem CorePerm.mirror {a b : Res} (h : CorePerm a b) : CorePerm a.mirror b.mirror :=
  ⟨h.ne.map _, h.ou.map _, h.su.map _, h.dt.map _, h.diffs⟩

/-- `r'` is the mirror image of `r` -/
def Sw (r r' : Res) : Prop := CorePerm r' r.mirror

theorem sw_append {a a' b b' : Res} (h : Sw a a') (h' : Sw b b') : Sw (a ++ b) (a' ++ b') := by
  have := CorePerm.append h h'
  refine this.trans ⟨?_, ?_, ?_, ?_, rfl⟩
  · simp only [append_notEqual, Res.mirror, List.map_append]; exact .refl _
  · simp only [append_selfUnique, append_otherUnique, Res.mirror, List.map_append]; exact .refl _
  · simp only [append_selfUnique, append_otherUnique, Res.mirror, List.map_append]; exact .refl _
  · simp only [append_diffTypes, Res.mirror, List.map_append]; exact .refl _

theorem Sw.congr_right {r r' r'' : Res} (h : Sw r r') (h' : CorePerm r'' r') : Sw r r'' := h'.trans h
theorem Sw.congr_left {r0 r r' : Res} (h : Sw r r') (h' : CorePerm r r0) : Sw r0 r' :=
  CorePerm.trans h h'.mirror

theorem Sw.of_eq {r r' : Res}
    (h1 : r'.notEqual = r.notEqual.map (fun e => ⟨mirrorPath e.path, e.r, e.l, e.kind, e.delta⟩))
    (h2 : r'.selfUnique = r.otherUnique.map (fun e => ⟨mirrorPath e.path, e.v⟩))
    (h3 : r'.otherUnique = r.selfUnique.map (fun e => ⟨mirrorPath e.path, e.v⟩))
    (h4 : r'.diffTypes = r.diffTypes.map (fun e => ⟨mirrorPath e.path, e.r, e.l⟩))
    (h5 : r'.diffs = r.diffs) : Sw r r' :=
  ⟨h1 ▸ .refl _, h2 ▸ .refl _, h3 ▸ .refl _, h4 ▸ .refl _, h5⟩

theorem sw_empty : Sw Res.empty Res.empty := Sw.of_eq rfl rfl rfl rfl rfl

theorem map_mirrorUE_id (l : List UE) (h : ∀ e ∈ l, mirrorPath e.path = e.path) :
    l.map (fun e => (⟨mirrorPath e.path, e.v⟩ : UE)) = l := by
  induction l with
  | nil => rfl
  | cons a l ih =>
    simp only [List.map_cons]
    rw [ih (fun e he => h e (List.mem_cons_of_mem _ he)), h a (List.mem_cons_self ..)]

/-! ### leaf decisions are symmetric (no transform) -/

def ActSw (x y : Val) : Act → Act → Prop
  | .emit r _, .emit r' _ => Sw r r'
  | .descend, .descend => tyOf x = tyOf y
  | _, _ => False

theorem classifyItem_swap {cfg : Cfg} (htr : cfg.tr = []) (p pne pdt : Path)
    (hne : mirrorPath pne = pne) (hdt : mirrorPath pdt = pdt) (sa oa sa' oa' x y : Val) :
    ActSw x y (classifyItem cfg p pne pdt sa oa x y) (classifyItem cfg p pne pdt sa' oa' y x) := by
  unfold classifyItem
  simp only [transformAt_noTr htr, id]
  by_cases ht : tyOf x = tyOf y
  · have ht' := ht.symm
    have hsc := tyOf_scalar_eq ht
    by_cases hs : isPyScalar x = true
    · have hs' : isPyScalar y = true := hsc ▸ hs
      by_cases hxy : x = y
      · subst hxy
        by_cases he : cfg.fl.equal = true
        · simp only [ht, hs, he, if_true, ne_eq, not_true_eq_false, if_false, ActSw]
          exact Sw.of_eq rfl rfl rfl rfl rfl
        · simp only [ht, hs, he, if_true, ne_eq, not_true_eq_false, if_false, ActSw]
          exact sw_empty
      · have hyx : ¬ y = x := fun h => hxy h.symm
        simp only [ht, hs, hs', if_true, ne_eq, hxy, hyx, not_false_eq_true, ActSw]
        exact Sw.of_eq (by simp [hne]) rfl rfl rfl rfl
    · have hs' : ¬ isPyScalar y = true := hsc ▸ hs
      simp only [ht, hs, hs', if_true, if_false, Bool.false_eq_true, ActSw]
  · have ht' : ¬ tyOf y = tyOf x := fun h => ht h.symm
    by_cases hf : cfg.fl.types = true
    · simp only [ht, ht', hf, if_true, if_false, ActSw]
      exact Sw.of_eq rfl rfl rfl (by simp [hdt]) rfl
    · simp only [ht, ht', hf, if_false, ActSw]
      exact Sw.of_eq (by simp [hne]) rfl rfl rfl rfl

theorem classifyEntry_swap {cfg : Cfg} (htr : cfg.tr = []) (full : Path)
    (hp : mirrorPath full = full) (x y : Val) :
    ActSw x y (classifyEntry cfg full x y) (classifyEntry cfg full y x) := by
  unfold classifyEntry
  by_cases hex : excluded cfg full = true
  · simp only [hex, if_true, ActSw]; exact sw_empty
  simp only [hex, if_false, transformAt_noTr htr, id]
  by_cases ht : tyOf x = tyOf y
  · have ht' := ht.symm
    have hsc := tyOf_scalar_eq ht
    by_cases hs : isPyScalar x = true
    · have hs' : isPyScalar y = true := hsc ▸ hs
      by_cases hxy : x = y
      · subst hxy
        simp only [ht, hs, if_true, ne_eq, not_true_eq_false, false_and, if_false, ActSw]
        exact sw_empty
      · have hyx : ¬ y = x := fun h => hxy h.symm
        by_cases ho : onlyOk cfg full = true
        · simp only [ht, hs, hs', if_true, ne_eq, hxy, hyx, not_false_eq_true, ho, and_self, ActSw]
          exact Sw.of_eq (by simp [hp]) rfl rfl rfl rfl
        · simp only [ht, hs, hs', if_true, ne_eq, hxy, hyx, not_false_eq_true, ho, and_false, if_false, ActSw]
          exact sw_empty
    · have hs' : ¬ isPyScalar y = true := hsc ▸ hs
      simp only [ht, hs, hs', if_true, if_false, Bool.false_eq_true, ActSw]
  · have ht' : ¬ tyOf y = tyOf x := fun h => ht h.symm
    by_cases ho : onlyOk cfg full = true
    · by_cases hf : cfg.fl.types = true
      · simp only [ht, ht', ho, hf, if_true, if_false, ActSw]
        exact Sw.of_eq rfl rfl rfl (by simp [hp]) rfl
      · simp only [ht, ht', ho, hf, if_true, if_false, ActSw]
        exact Sw.of_eq (by simp [hp]) rfl rfl rfl rfl
    · simp only [ht, ht', ho, if_false, ActSw]
      exact sw_empty

/-! ### the loop of `n0dict.compare` separated from its tail -/

/-- what one common key contributes -/
def entryRes (cfg : Cfg) (p : Path) (k : Str) (v w : Val) : Except PyErr Res :=
  match classifyEntry cfg (p ++ [.key k]) v w with
  | .emit r _ => .ok r
  | .descend => sub cfg .entry (p ++ [.key k]) v w

/-- the loop over the own entries `kvs`, partners looked up in `T` -/
def loopG (f : Str → Val → Val → Except PyErr Res) (T : List (Str × Val)) :
    List (Str × Val) → Except PyErr Res
  | [] => .ok Res.empty
  | (k, v) :: rest =>
    match Val.lookup k T with
    | none => loopG f T rest
    | some w =>
      match f k v w with
      | .error e => .error e
      | .ok r =>
        match loopG f T rest with
        | .error e => .error e
        | .ok r' => .ok (r ++ r')

theorem loopG_nil_table (f : Str → Val → Val → Except PyErr Res) :
    ∀ O : List (Str × Val), loopG f [] O = .ok Res.empty
  | [] => rfl
  | (k, w) :: O => by simp [loopG, Val.lookup, loopG_nil_table f O]

theorem loopG_skip (f : Str → Val → Val → Except PyErr Res) (k : Str) (v : Val) (T : List (Str × Val)) :
    ∀ O : List (Str × Val), Val.lookup k O = none → loopG f ((k, v) :: T) O = loopG f T O
  | [], _ => rfl
  | (k', w) :: O, h => by
    simp only [Val.lookup] at h
    split at h
    · cases h
    · rename_i hne
      have hne' : ¬ k' = k := fun e => hne e.symm
      simp only [loopG, Val.lookup, hne', if_false, loopG_skip f k v T O h]

theorem loopG_insert (f : Str → Val → Val → Except PyErr Res) (k : Str) (v w : Val) (T : List (Str × Val))
    (r0 : Res) (hT : Val.lookup k T = none) (hf : f k w v = .ok r0) :
    ∀ (O : List (Str × Val)) (r1 : Res), keysNodup O = true → Val.lookup k O = some w →
      loopG f T O = .ok r1 → ∃ r', loopG f ((k, v) :: T) O = .ok r' ∧ CorePerm r' (r0 ++ r1)
  | [], _, _, h, _ => by simp [Val.lookup] at h
  | (k', w') :: O, r1, hn, hl, h => by
    simp only [keysNodup, Bool.and_eq_true, Bool.not_eq_true'] at hn
    simp only [Val.lookup] at hl
    by_cases hk : k = k'
    · subst hk
      simp only [if_true, Option.some.injEq] at hl
      subst hl
      have hO : Val.lookup k O = none := by
        have := hn.1
        simpa [hasKey] using this
      simp only [loopG, hT] at h
      refine ⟨r0 ++ r1, ?_, CorePerm.refl _⟩
      simp only [loopG, Val.lookup, if_true, hf, loopG_skip f k v T O hO, h]
    · have hk' : ¬ k' = k := fun e => hk e.symm
      simp only [hk, if_false] at hl
      simp only [loopG] at h
      cases hl' : Val.lookup k' T with
      | none =>
        rw [hl'] at h
        obtain ⟨r', hr', hc⟩ := loopG_insert f k v w T r0 hT hf O r1 hn.2 hl h
        exact ⟨r', by simp only [loopG, Val.lookup, hk', if_false, hl', hr'], hc⟩
      | some u =>
        rw [hl'] at h
        simp only at h
        cases hfu : f k' w' u with
        | error e => rw [hfu] at h; cases h
        | ok ra =>
          rw [hfu] at h
          simp only at h
          cases hrb : loopG f T O with
          | error e => rw [hrb] at h; cases h
          | ok rb =>
            rw [hrb] at h; cases h
            obtain ⟨r'', hr'', hc⟩ := loopG_insert f k v w T r0 hT hf O rb hn.2 hl hrb
            refine ⟨ra ++ r'', by simp only [loopG, Val.lookup, hk', if_false, hl', hfu, hr''], ?_⟩
            exact ((CorePerm.refl ra).append hc).trans (corePerm_left_comm ra r0 rb)

/-- two runs agree: both fail, or both succeed with related results -/
def SwapRelE (P : Res → Res → Prop) : Except PyErr Res → Except PyErr Res → Prop
  | .ok a, .ok b => P a b
  | .error _, .error _ => True
  | _, _ => False

theorem dictTail_core (cfg : Cfg) (p : Path) (sa oa sa' oa' : Val) (skvs okvs : List (Str × Val)) (s s' : Bool) :
    CorePerm (dictTail cfg p sa oa skvs okvs s) (dictTail cfg p sa' oa' skvs okvs s') :=
  ⟨.refl _, .refl _, .refl _, .refl _, rfl⟩

theorem dictWalk_loop (cfg : Cfg) (p : Path) (sa oa : Val) (skvs okvs : List (Str × Val)) :
    ∀ (kvs : List (Str × Val)) (still : Bool),
      SwapRelE (fun r rl => CorePerm r (rl ++ dictTail cfg p sa oa skvs okvs true))
        (dictWalk cfg p sa oa skvs okvs still kvs) (loopG (entryRes cfg p) okvs kvs)
  | [], still => by
    simp only [dictWalk, loopG, SwapRelE]
    exact (dictTail_core ..).trans (corePerm_empty_append _).symm
  | (k, v) :: rest, still => by
    simp only [dictWalk, loopG]
    cases hl : Val.lookup k okvs with
    | none => exact dictWalk_loop cfg p sa oa skvs okvs rest still
    | some w =>
      simp only [entryRes]
      cases hcl : classifyEntry cfg (p ++ [.key k]) v w with
      | emit r0 s =>
        simp only
        have ih := dictWalk_loop cfg p sa oa skvs okvs rest (still && s)
        cases hr : dictWalk cfg p sa oa skvs okvs (still && s) rest with
        | error e =>
          rw [hr] at ih
          cases hg : loopG (entryRes cfg p) okvs rest with
          | error e' => simp [SwapRelE]
          | ok rl => rw [hg] at ih; simp [SwapRelE] at ih
        | ok r' =>
          rw [hr] at ih
          cases hg : loopG (entryRes cfg p) okvs rest with
          | error e' => rw [hg] at ih; simp [SwapRelE] at ih
          | ok rl =>
            rw [hg] at ih
            simp only [SwapRelE] at ih ⊢
            exact ((CorePerm.refl r0).append ih).trans (corePerm_assoc _ _ _).symm
      | descend =>
        simp only
        cases hs : sub cfg .entry (p ++ [.key k]) v w with
        | error e => simp [SwapRelE]
        | ok r0 =>
          simp only
          have ih := dictWalk_loop cfg p sa oa skvs okvs rest still
          cases hr : dictWalk cfg p sa oa skvs okvs still rest with
          | error e =>
            rw [hr] at ih
            cases hg : loopG (entryRes cfg p) okvs rest with
            | error e' => simp [SwapRelE]
            | ok rl => rw [hg] at ih; simp [SwapRelE] at ih
          | ok r' =>
            rw [hr] at ih
            cases hg : loopG (entryRes cfg p) okvs rest with
            | error e' => rw [hg] at ih; simp [SwapRelE] at ih
            | ok rl =>
              rw [hg] at ih
              simp only [SwapRelE] at ih ⊢
              exact ((CorePerm.refl r0).append ih).trans (corePerm_assoc _ _ _).symm

theorem dictTail_swap (cfg : Cfg) (p : Path) (hp : mirrorPath p = p) (sa oa sa' oa' : Val)
    (skvs okvs : List (Str × Val)) (s s' : Bool) :
    Sw (dictTail cfg p sa oa skvs okvs s) (dictTail cfg p sa' oa' okvs skvs s') := by
  have hid : ∀ (l : List (Str × Val)) (e : UE), e ∈ l.filterMap (leftover cfg p) → mirrorPath e.path = e.path := by
    intro l e he
    simp only [List.mem_filterMap] at he
    obtain ⟨kv, _, hlo⟩ := he
    rw [leftover_eq hlo]
    exact mirrorPath_snoc_key p kv.1 hp
  refine Sw.of_eq rfl ?_ ?_ rfl ?_
  · simp only [dictTail]
    rw [map_mirrorUE_id _ (hid _)]
  · simp only [dictTail]
    rw [map_mirrorUE_id _ (hid _)]
  · simp only [dictTail]; omega

/-- the dictionary walk is symmetric as soon as its loop is -/
theorem dictWalk_swap_of_loop (cfg : Cfg) (p : Path) (hp : mirrorPath p = p) (sa oa sa' oa' : Val)
    (kvs kvs' : List (Str × Val)) (r : Res)
    (h : dictWalk cfg p sa oa kvs kvs' true kvs = .ok r)
    (hloop : ∀ rl, loopG (entryRes cfg p) kvs' kvs = .ok rl →
      ∃ rl', loopG (entryRes cfg p) kvs kvs' = .ok rl' ∧ Sw rl rl') :
    ∃ r', dictWalk cfg p sa' oa' kvs' kvs true kvs' = .ok r' ∧ Sw r r' := by
  have h1 := dictWalk_loop cfg p sa oa kvs kvs' kvs true
  rw [h] at h1
  cases hg : loopG (entryRes cfg p) kvs' kvs with
  | error e => rw [hg] at h1; simp [SwapRelE] at h1
  | ok rl =>
    rw [hg] at h1
    simp only [SwapRelE] at h1
    obtain ⟨rl', hg', hsw⟩ := hloop rl hg
    have h2 := dictWalk_loop cfg p sa' oa' kvs' kvs kvs' true
    rw [hg'] at h2
    cases hr : dictWalk cfg p sa' oa' kvs' kvs true kvs' with
    | error e => rw [hr] at h2; simp [SwapRelE] at h2
    | ok r' =>
      rw [hr] at h2
      simp only [SwapRelE] at h2
      refine ⟨r', rfl, ?_⟩
      exact ((sw_append hsw (dictTail_swap cfg p hp sa oa sa' oa' kvs kvs' true true)).congr_right h2).congr_left h1.symm

/-! ### direct walk: helper facts -/

theorem otherTail_mirror (p : Path) (hp : mirrorPath p = p) : ∀ (ys : List Val) (i : Nat),
    (otherTail p i ys).map (fun e => (⟨mirrorPath e.path, e.v⟩ : UE)) = otherTail p i ys
  | [], _ => rfl
  | y :: ys, i => by
    simp only [otherTail, List.map_cons, otherTail_mirror p hp ys (i + 1), mirrorPath_snoc_idx p i hp]

theorem directWalk_nil_right (cfg : Cfg) (p : Path) (sa oa : Val) : ∀ (xs : List Val) (i : Nat),
    ∃ r, directWalk cfg p sa oa i xs [] = .ok r ∧ r.selfUnique = otherTail p i xs ∧ r.notEqual = [] ∧
      r.otherUnique = [] ∧ r.diffTypes = [] ∧ r.diffs = xs.length
  | [], i => ⟨_, by rw [directWalk], rfl, rfl, rfl, rfl, rfl⟩
  | x :: xs, i => by
    obtain ⟨r, hr, h1, h2, h3, h4, h5⟩ := directWalk_nil_right cfg p sa oa xs (i + 1)
    refine ⟨_, by rw [directWalk, hr], ?_, ?_, ?_, ?_, ?_⟩
    · simp [otherTail, h1]
    · simp [h2]
    · simp [h3]
    · simp [h4]
    · simp [h5]; omega

theorem sub_list_direct {cfg : Cfg} (hd : cfg.direct = true) (site : Site) (p : Path) (c : Cls) (xs ys : List Val) :
    sub cfg site p (.list c xs) (.list c ys) =
      if site = .item ∧ c = .plain then .error .AttributeError
      else if excluded cfg p then .ok Res.empty
      else directWalk cfg p (.list .n0 xs) (.list .n0 ys) 0 xs ys := by
  simp only [sub, hd, true_and]
  by_cases h : site = .item ∧ c = .plain <;> simp [h]

theorem sub_dict_direct {cfg : Cfg} (hd : cfg.direct = true) (site : Site) (p : Path) (c c' : Cls)
    (kvs kvs' : List (Str × Val)) :
    sub cfg site p (.dict c kvs) (.dict c' kvs') =
      dictWalk cfg p (.dict .n0 kvs) (.dict .n0 kvs') kvs kvs' true kvs := by
  simp [sub, hd]

/-! ### the mutual induction -/

mutual
theorem sub_swap (cfg : Cfg) (htr : cfg.tr = []) (hd : cfg.direct = true) (site : Site) (p : Path)
    (hp : mirrorPath p = p) (v w : Val) (r : Res) (hv : wf v = true) (hw : wf w = true)
    (ht : tyOf v = tyOf w) (h : sub cfg site p v w = .ok r) :
    ∃ r', sub cfg site p w v = .ok r' ∧ Sw r r' :=
  match v, w, hv, hw, ht, h with
  | .list c xs, w, hv, hw, ht, h => by
    cases w with
    | list c' ys =>
      simp only [tyOf, Ty.list.injEq] at ht
      subst ht
      simp only [wf] at hv hw
      rw [sub_list_direct hd] at h ⊢
      split at h
      · cases h
      · rename_i h1
        rw [if_neg h1]
        split at h
        · rename_i h2
          cases h
          exact ⟨Res.empty, by rw [if_pos h2], sw_empty⟩
        · rename_i h2
          rw [if_neg h2]
          exact directWalk_swap cfg htr hd p hp _ _ _ _ 0 xs ys r hv hw h
    | _ => simp [tyOf] at ht
  | .dict c kvs, w, hv, hw, ht, h => by
    cases w with
    | dict c' kvs' =>
      simp only [wf, Bool.and_eq_true] at hv hw
      rw [sub_dict_direct hd] at h ⊢
      exact dictWalk_swap_of_loop cfg p hp _ _ _ _ kvs kvs' r h
        (fun rl hg => dictLoop_swap cfg htr hd p hp kvs kvs' rl hv.2 hw.2 hv.1 hw.1 hg)
    | _ => simp [tyOf] at ht
  | .none, w, _, _, ht, h => by
    cases w <;> simp [tyOf] at ht
    simp only [sub] at h ⊢
    cases h
    exact ⟨Res.empty, rfl, sw_empty⟩
  | .bool _, _, _, _, _, h => by simp [sub] at h
  | .int _, _, _, _, _, h => by simp [sub] at h
  | .flt _, _, _, _, _, h => by simp [sub] at h
  | .str _, _, _, _, _, h => by simp [sub] at h
termination_by structural v

theorem dictLoop_swap (cfg : Cfg) (htr : cfg.tr = []) (hd : cfg.direct = true) (p : Path)
    (hp : mirrorPath p = p) (kvs O : List (Str × Val)) (rl : Res)
    (hn : keysNodup kvs = true) (hno : keysNodup O = true) (hwk : wfK kvs = true) (hwo : wfK O = true)
    (h : loopG (entryRes cfg p) O kvs = .ok rl) :
    ∃ rl', loopG (entryRes cfg p) kvs O = .ok rl' ∧ Sw rl rl' :=
  match kvs, hn, hwk, h with
  | [], _, _, h => by
    simp only [loopG] at h
    cases h
    exact ⟨Res.empty, loopG_nil_table _ O, sw_empty⟩
  | (k, v) :: rest, hn, hwk, h => by
    simp only [keysNodup, Bool.and_eq_true, Bool.not_eq_true'] at hn
    simp only [wfK, Bool.and_eq_true] at hwk
    have hkr : Val.lookup k rest = none := by simpa [hasKey] using hn.1
    simp only [loopG] at h
    cases hl : Val.lookup k O with
    | none =>
      rw [hl] at h
      obtain ⟨rl', hg, hsw⟩ := dictLoop_swap cfg htr hd p hp rest O rl hn.2 hno hwk.2 hwo h
      exact ⟨rl', by rw [loopG_skip _ k v rest O hl]; exact hg, hsw⟩
    | some w =>
      rw [hl] at h
      simp only at h
      have hww : wf w = true := wfK_lookup O k w hwo hl
      cases hf : entryRes cfg p k v w with
      | error e => rw [hf] at h; cases h
      | ok r0 =>
        rw [hf] at h
        simp only at h
        cases hr : loopG (entryRes cfg p) O rest with
        | error e => rw [hr] at h; cases h
        | ok r1 =>
          rw [hr] at h; cases h
          obtain ⟨r1', hg1, hsw1⟩ := dictLoop_swap cfg htr hd p hp rest O r1 hn.2 hno hwk.2 hwo hr
          -- the entry itself
          have hent : ∃ r0', entryRes cfg p k w v = .ok r0' ∧ Sw r0 r0' := by
            have hfull := mirrorPath_snoc_key p k hp
            have hcs := classifyEntry_swap htr (p ++ [.key k]) hfull v w
            simp only [entryRes] at hf ⊢
            cases hcl : classifyEntry cfg (p ++ [.key k]) v w with
            | emit ra s =>
              cases hcl' : classifyEntry cfg (p ++ [.key k]) w v with
              | emit ra' s' =>
                rw [hcl, hcl'] at hcs
                rw [hcl] at hf
                simp only [Except.ok.injEq] at hf
                subst hf
                exact ⟨ra', rfl, hcs⟩
              | descend => rw [hcl, hcl'] at hcs; exact hcs.elim
            | descend =>
              cases hcl' : classifyEntry cfg (p ++ [.key k]) w v with
              | emit ra' s' => rw [hcl, hcl'] at hcs; exact hcs.elim
              | descend =>
                rw [hcl, hcl'] at hcs
                rw [hcl] at hf
                simp only [ActSw] at hcs
                exact sub_swap cfg htr hd .entry (p ++ [.key k]) hfull v w r0 hwk.1 hww hcs hf
          obtain ⟨r0', hf', hsw0⟩ := hent
          obtain ⟨r', hg, hc⟩ := loopG_insert (entryRes cfg p) k v w rest r0' hkr hf' O r1' hno hl hg1
          exact ⟨r', hg, (sw_append hsw0 hsw1).congr_right hc⟩
termination_by structural kvs

theorem directWalk_swap (cfg : Cfg) (htr : cfg.tr = []) (hd : cfg.direct = true) (p : Path)
    (hp : mirrorPath p = p) (sa oa sa' oa' : Val) (i : Nat) (xs ys : List Val) (r : Res)
    (hwx : wfL xs = true) (hwy : wfL ys = true)
    (h : directWalk cfg p sa oa i xs ys = .ok r) :
    ∃ r', directWalk cfg p sa' oa' i ys xs = .ok r' ∧ Sw r r' :=
  match xs, ys, i, hwx, hwy, h with
  | [], ys, i, _, _, h => by
    simp only [directWalk] at h
    cases h
    obtain ⟨r', hr', h1, h2, h3, h4, h5⟩ := directWalk_nil_right cfg p sa' oa' ys i
    refine ⟨r', hr', Sw.of_eq (by simp [h2]) ?_ (by simp [h3]) (by simp [h4]) (by simp [h5, otherTail_length])⟩
    simp only [h1, otherTail_mirror p hp]
  | x :: xs, [], i, _, _, h => by
    obtain ⟨r0, hr0, h1, h2, h3, h4, h5⟩ := directWalk_nil_right cfg p sa oa (x :: xs) i
    rw [hr0] at h
    cases h
    refine ⟨_, by rw [directWalk], Sw.of_eq (by simp [h2]) (by simp [h3]) ?_ (by simp [h4]) (by simp [h5, otherTail_length])⟩
    simp only [h1, otherTail_mirror p hp]
  | x :: xs, y :: ys, i, hwx, hwy, h => by
    simp only [directWalk] at h ⊢
    simp only [wfL, Bool.and_eq_true] at hwx hwy
    have hpi := mirrorPath_snoc_idx p i hp
    have hcs := classifyItem_swap htr p (p ++ [.idx i]) (p ++ [.idx i]) hpi hpi sa oa sa' oa' x y
    cases hcl : classifyItem cfg p (p ++ [.idx i]) (p ++ [.idx i]) sa oa x y with
    | emit r0 s =>
      cases hcl' : classifyItem cfg p (p ++ [.idx i]) (p ++ [.idx i]) sa' oa' y x with
      | emit r0' s' =>
        rw [hcl, hcl'] at hcs
        rw [hcl] at h
        simp only at h ⊢
        cases hr : directWalk cfg p sa oa (i + 1) xs ys with
        | error e => rw [hr] at h; cases h
        | ok r1 =>
          rw [hr] at h; cases h
          obtain ⟨r1', hr1', hsw1⟩ := directWalk_swap cfg htr hd p hp sa oa sa' oa' (i + 1) xs ys r1 hwx.2 hwy.2 hr
          exact ⟨r0' ++ r1', by rw [hr1'], sw_append hcs hsw1⟩
      | descend => rw [hcl, hcl'] at hcs; exact hcs.elim
    | descend =>
      cases hcl' : classifyItem cfg p (p ++ [.idx i]) (p ++ [.idx i]) sa' oa' y x with
      | emit r0' s' => rw [hcl, hcl'] at hcs; exact hcs.elim
      | descend =>
        rw [hcl, hcl'] at hcs
        rw [hcl] at h
        simp only [ActSw] at hcs
        simp only at h ⊢
        cases hsb : sub cfg .item (p ++ [.idx i]) x y with
        | error e => rw [hsb] at h; cases h
        | ok r0 =>
          rw [hsb] at h
          simp only at h
          cases hr : directWalk cfg p sa oa (i + 1) xs ys with
          | error e => rw [hr] at h; cases h
          | ok r1 =>
            rw [hr] at h; cases h
            obtain ⟨r0', hr0', hsw0⟩ := sub_swap cfg htr hd .item (p ++ [.idx i]) hpi x y r0 hwx.1 hwy.1 hcs hsb
            obtain ⟨r1', hr1', hsw1⟩ := directWalk_swap cfg htr hd p hp sa oa sa' oa' (i + 1) xs ys r1 hwx.2 hwy.2 hr
            exact ⟨r0' ++ r1', by rw [hr0']; simp only; rw [hr1'], sw_append hsw0 hsw1⟩
termination_by structural xs
end

/-! ### the entry point -/

theorem compareTop_swap_direct (cfg : Cfg) (a b : Val) (r : Res) (htr : cfg.tr = []) (hd : cfg.direct = true)
    (hw : wf a = true) (hw' : wf b = true) (h : compareTop cfg a b = .ok r) :
    ∃ r', compareTop cfg b a = .ok r' ∧ Sw r r' := by
  unfold compareTop at h
  split at h
  · split at h
    · rename_i kvs _ kvs'
      simp only [wf, Bool.and_eq_true] at hw hw'
      simp only [compareTop]
      exact dictWalk_swap_of_loop cfg [] rfl _ _ _ _ kvs kvs' r h
        (fun rl hg => dictLoop_swap cfg htr hd [] rfl kvs kvs' rl hw.2 hw'.2 hw.1 hw'.1 hg)
    · cases h
  · split at h
    · rename_i xs _ ys
      simp only [compareTop]
      exact sub_swap cfg htr hd .entry [] rfl _ _ r hw hw' rfl h
    · cases h
  · cases h

/-- swap symmetry of the DIRECT entry point (no transform): swapping the operands swaps the two unique lists and
mirrors each pair; lists are compared as multisets because each run visits the common keys in the order of its own
left operand -/
theorem swap_direct (cfg : Cfg) (a b : Val) (r : Res) (htr : cfg.tr = []) (hd : cfg.direct = true)
    (hw : wf a = true) (hw' : wf b = true) (h : compareTop cfg a b = .ok r) :
    ∃ r', compareTop cfg b a = .ok r' ∧
      (r'.notEqual.Perm r.mirror.notEqual ∧ r'.selfUnique.Perm r.mirror.selfUnique ∧
       r'.otherUnique.Perm r.mirror.otherUnique ∧ r'.diffTypes.Perm r.mirror.diffTypes ∧ r'.diffs = r.diffs) := by
  obtain ⟨r', hr', hsw⟩ := compareTop_swap_direct cfg a b r htr hd hw hw' h
  exact ⟨r', hr', hsw.ne, hsw.su, hsw.ou, hsw.dt, hsw.diffs⟩

/-- the verdict of the direct entry point is symmetric (no transform) -/
theorem verdict_swap_direct (cfg : Cfg) (a b : Val) (r : Res) (htr : cfg.tr = []) (hd : cfg.direct = true)
    (hw : wf a = true) (hw' : wf b = true) (h : compareTop cfg a b = .ok r) :
    verdict (compareTop cfg b a) = verdict (compareTop cfg a b) := by
  obtain ⟨r', hr', hsw⟩ := compareTop_swap_direct cfg a b r htr hd hw hw' h
  have hdf : r'.diffs = r.diffs := hsw.diffs
  simp [verdict, h, hr', hdf]

/-- the statement for every option record (transforms included) is FALSE for the model -/
def swap_direct_stmt : Prop :=
  ∀ (cfg : Cfg) (a b : Val) (r : Res), cfg.direct = true → wf a = true → wf b = true →
    compareTop cfg a b = .ok r →
    ∃ r', compareTop cfg b a = .ok r' ∧
      (r'.notEqual.Perm r.mirror.notEqual ∧ r'.selfUnique.Perm r.mirror.selfUnique ∧
       r'.otherUnique.Perm r.mirror.otherUnique ∧ r'.diffTypes.Perm r.mirror.diffTypes ∧ r'.diffs = r.diffs)

/-- a transform that maps both values under `/k` to a list: `None` against `3` is then "same type, not scalar",
the `elif` chain on the ORIGINAL left value does nothing for `None` but raises `TypeError` for `3` -/
def swapCexCfg : Cfg := ⟨Flags.init, true, .many [], .many [], .many [], [⟨['k'], fun _ => .list .n0 []⟩]⟩

theorem swap_transform_cex :
    compareTop swapCexCfg (.dict .n0 [(['k'], .none)]) (.dict .n0 [(['k'], .int 3)]) = .ok {} ∧
    compareTop swapCexCfg (.dict .n0 [(['k'], .int 3)]) (.dict .n0 [(['k'], .none)]) = .error .TypeError := by
  decide

theorem swap_direct_stmt_false : ¬ swap_direct_stmt := by
  intro h
  obtain ⟨r', hr', _⟩ := h swapCexCfg (.dict .n0 [(['k'], .none)]) (.dict .n0 [(['k'], .int 3)]) {} rfl
    (by decide) (by decide) swap_transform_cex.1
  rw [swap_transform_cex.2] at hr'
  cases hr'

/-! ### the keyed entry point: statement only -/

mutual
/-- every list (at every depth) has pairwise different item keys -/
def keysOK (cfg : Cfg) : Val → Bool
  | .list _ xs => keysOKL cfg xs &&
      (match keysOf cfg [] 0 xs with
       | .ok ks => decide ks.Nodup
       | .error _ => false)
  | .dict _ kvs => keysOKK cfg kvs
  | _ => true
def keysOKL (cfg : Cfg) : List Val → Bool
  | [] => true
  | x :: xs => keysOK cfg x && keysOKL cfg xs
def keysOKK (cfg : Cfg) : List (Str × Val) → Bool
  | [] => true
  | (_, x) :: xs => keysOK cfg x && keysOKK cfg xs
end

/-- swap symmetry of the KEYED entry point, NOT proved here.  Honest hypotheses: no transform; no type-clash
entries (`fl.types = false`: a clash inside a keyed list carries the left index only, see
`diffTypes_right_keyed_cex`); the path filters do not distinguish `[i]<>[j]` from `[j]<>[i]`
(see `swap_keyed_exclude_cex`); unique dictionary keys; pairwise different item keys in every list. -/
def swap_keyed_stmt : Prop :=
  ∀ (cfg : Cfg) (a b : Val) (r : Res), cfg.tr = [] → cfg.direct = false → cfg.fl.types = false →
    (∀ p, excluded cfg (mirrorPath p) = excluded cfg p) → (∀ p, onlyOk cfg (mirrorPath p) = onlyOk cfg p) →
    wf a = true → wf b = true → keysOK cfg a = true → keysOK cfg b = true →
    compareTop cfg a b = .ok r →
    ∃ r', compareTop cfg b a = .ok r' ∧
      (r'.notEqual.Perm r.mirror.notEqual ∧ r'.selfUnique.Perm r.mirror.selfUnique ∧
       r'.otherUnique.Perm r.mirror.otherUnique ∧ r'.diffTypes.Perm r.mirror.diffTypes ∧ r'.diffs = r.diffs)

/-- an `exclude_xpaths` pattern that names a paired index `[0]<>[1]` is not mirror-invariant: the record `id=a`
sits at index 0 on the left and 1 on the right, its field `v` differs; `a.compare(b)` excludes `[0]<>[1]/v`
(one line: the unmatched `id=z`), `b.compare(a)` sees `[1]<>[0]/v` and reports it (two lines) -/
def swapKeyedCexCfg : Cfg :=
  ⟨Flags.init, false, .many [['i', 'd']], .many [], .many [['[', '0', ']', '<', '>', '[', '1', ']', '/', 'v']], []⟩

theorem swap_keyed_exclude_cex :
    (compareTop swapKeyedCexCfg
        (.list .n0 [.dict .n0 [(['i', 'd'], .str ['a']), (['v'], .int 1)]])
        (.list .n0 [.dict .n0 [(['i', 'd'], .str ['z']), (['v'], .int 0)],
                    .dict .n0 [(['i', 'd'], .str ['a']), (['v'], .int 2)]])).map (·.diffs) = .ok 1 ∧
    (compareTop swapKeyedCexCfg
        (.list .n0 [.dict .n0 [(['i', 'd'], .str ['z']), (['v'], .int 0)],
                    .dict .n0 [(['i', 'd'], .str ['a']), (['v'], .int 2)]])
        (.list .n0 [.dict .n0 [(['i', 'd'], .str ['a']), (['v'], .int 1)]])).map (·.diffs) = .ok 2 := by
  decide

end N0.Compare
