import N0Verif.Proofs.Compare
import N0Verif.Proofs.CompareFaithful
/-!
(A) every unique entry names a node that is absent at that place on the other side;
(B) swapping the operands swaps the two unique lists and mirrors each pair.
-/
namespace N0.Compare
open N0

/-! ## (A) unique entries are absent on the other side -/

/-- the node `q ++ [seg]` is absent in `B` (operand side `s`): its parent `q` resolves, and for a dictionary the
key is missing, for a list (direct mode) the index is beyond the end -/
def AbsentAt (cfg : Cfg) (s : Side) (q : Path) (seg : PSeg) (B : Val) : Prop :=
  (∃ k c kvs, seg = .key k ∧ getAt s q B = some (.dict c kvs) ∧ Val.lookup k kvs = none) ∨
  (∃ i c ys, seg = .idx i ∧ getAt s q B = some (.list c ys) ∧ (cfg.direct = true → ys.length ≤ i))

structure Absent (cfg : Cfg) (p : Path) (A B : Val) (r : Res) : Prop where
  su : ∀ e ∈ r.selfUnique, ∃ q s, e.path = p ++ q ++ [s] ∧ AbsentAt cfg .right q s B
  ou : ∀ e ∈ r.otherUnique, ∃ q s, e.path = p ++ q ++ [s] ∧ AbsentAt cfg .left q s A

theorem AbsentAt.lift {cfg : Cfg} {s : Side} {q : Path} {seg seg0 : PSeg} {B w : Val}
    (hw : segGet s seg0 B = some w) (h : AbsentAt cfg s q seg w) : AbsentAt cfg s (seg0 :: q) seg B := by
  rcases h with ⟨k, c, kvs, h1, h2, h3⟩ | ⟨i, c, ys, h1, h2, h3⟩
  · exact Or.inl ⟨k, c, kvs, h1, by simp [getAt, hw, h2], h3⟩
  · exact Or.inr ⟨i, c, ys, h1, by simp [getAt, hw, h2], h3⟩

theorem absent_append {cfg : Cfg} {p : Path} {A B : Val} {a b : Res}
    (ha : Absent cfg p A B a) (hb : Absent cfg p A B b) : Absent cfg p A B (a ++ b) := by
  refine ⟨?_, ?_⟩
  · intro e he
    simp only [append_selfUnique, List.mem_append] at he
    exact he.elim (ha.su e) (hb.su e)
  · intro e he
    simp only [append_otherUnique, List.mem_append] at he
    exact he.elim (ha.ou e) (hb.ou e)

theorem absent_empty (cfg : Cfg) (p : Path) (A B : Val) : Absent cfg p A B Res.empty :=
  ⟨by intro e he; simp [Res.empty] at he, by intro e he; simp [Res.empty] at he⟩

theorem Absent.lift {cfg : Cfg} {p : Path} {seg : PSeg} {A B v w : Val} {r : Res}
    (hl : segGet .left seg A = some v) (hr : segGet .right seg B = some w)
    (h : Absent cfg (p ++ [seg]) v w r) : Absent cfg p A B r := by
  refine ⟨?_, ?_⟩
  · intro e he
    obtain ⟨q, s, hp, ha⟩ := h.su e he
    exact ⟨seg :: q, s, by simp [hp], ha.lift hr⟩
  · intro e he
    obtain ⟨q, s, hp, ha⟩ := h.ou e he
    exact ⟨seg :: q, s, by simp [hp], ha.lift hl⟩

theorem absent_of_shape {cfg : Cfg} {p pne pdt : Path} {A B x y : Val} {r : Res}
    (hs : ItemShape pne pdt x y r) : Absent cfg p A B r := by
  obtain ⟨_, _, hsu, hou⟩ := hs
  exact ⟨(by intro e he; rw [hsu] at he; cases he), (by intro e he; rw [hou] at he; cases he)⟩

theorem lookup_none_of_not_hasKey {k : Str} {kvs : List (Str × Val)} (h : (!hasKey k kvs) = true) :
    Val.lookup k kvs = none := by
  simp only [hasKey, Bool.not_eq_true', Option.isSome_eq_false_iff, Option.isNone_iff_eq_none] at h
  exact h

theorem dictTail_absent (cfg : Cfg) (p : Path) (sa oa : Val) (c c' : Cls) (skvs okvs : List (Str × Val))
    (still : Bool) :
    Absent cfg p (.dict c skvs) (.dict c' okvs) (dictTail cfg p sa oa skvs okvs still) := by
  refine ⟨?_, ?_⟩
  · intro e he
    simp only [dictTail, List.mem_filterMap, List.mem_filter] at he
    obtain ⟨kv, ⟨_, hnk⟩, hlo⟩ := he
    have := leftover_eq hlo
    subst this
    exact ⟨[], .key kv.1, by simp, Or.inl ⟨kv.1, c', okvs, rfl, rfl, lookup_none_of_not_hasKey hnk⟩⟩
  · intro e he
    simp only [dictTail, List.mem_filterMap, List.mem_filter] at he
    obtain ⟨kv, ⟨_, hnk⟩, hlo⟩ := he
    have := leftover_eq hlo
    subst this
    exact ⟨[], .key kv.1, by simp, Or.inl ⟨kv.1, c, skvs, rfl, rfl, lookup_none_of_not_hasKey hnk⟩⟩

theorem keyedTail_absent (cfg : Cfg) (p : Path) (c c' : Cls) (sl ol : List Val) (sr orr : List KE)
    (hd : cfg.direct = false) :
    Absent cfg p (.list c sl) (.list c' ol) (keyedTail p sr orr) := by
  refine ⟨?_, ?_⟩
  · intro e he
    simp only [keyedTail, List.mem_map] at he
    obtain ⟨ke, _, rfl⟩ := he
    exact ⟨[], .idx ke.2.1, by simp, Or.inr ⟨_, c', ol, rfl, rfl, fun h => by rw [hd] at h; cases h⟩⟩
  · intro e he
    simp only [keyedTail, List.mem_map] at he
    obtain ⟨ke, _, rfl⟩ := he
    exact ⟨[], .idx ke.2.1, by simp, Or.inr ⟨_, c, sl, rfl, rfl, fun h => by rw [hd] at h; cases h⟩⟩

/-! ### the four walks -/

mutual
theorem sub_absent (cfg : Cfg) (site : Site) (p : Path) (v w : Val) (r : Res)
    (hv : wf v = true) (hw : wf w = true)
    (h : sub cfg site p v w = .ok r) : Absent cfg p v w r :=
  match v, w, hv, hw, h with
  | .list c xs, w, hv, hw, h => by
    cases w with
    | list c' ys =>
      simp only [wf] at hv hw
      simp only [sub] at h
      split at h
      · cases h
      · split at h
        · cases h
        · split at h
          · cases h; exact absent_empty ..
          · split at h
            · exact directWalk_absent cfg p _ _ c c' xs ys 0 xs ys r (by simp) (by simp) hv hw h
            · rename_i hd
              split at h
              · cases h
              · split at h
                · cases h
                · exact keyedWalk_absent cfg p _ _ c c' xs ys 0 xs _ _ _ r (by simpa using hd) (by simp) hv hw
                    (mkEntries_get xs _ xs 0 (by simp)) (mkEntries_get ys _ ys 0 (by simp)) h
    | _ => simp [sub] at h
  | .dict c kvs, w, hv, hw, h => by
    cases w with
    | dict c' kvs' =>
      simp only [wf, Bool.and_eq_true] at hv hw
      simp only [sub] at h
      split at h
      · cases h
      · exact dictWalk_absent cfg p _ _ c c' kvs kvs' true kvs r hv.2 hw.2 hw.1
          (fun k v hm => lookup_of_mem kvs k v hv.2 hm) hv.1 h
    | _ => simp [sub] at h
  | .none, _, _, _, h => by simp [sub] at h; subst h; exact absent_empty ..
  | .bool _, _, _, _, h => by simp [sub] at h
  | .int _, _, _, _, h => by simp [sub] at h
  | .flt _, _, _, _, h => by simp [sub] at h
  | .str _, _, _, _, h => by simp [sub] at h
termination_by structural v

theorem dictWalk_absent (cfg : Cfg) (p : Path) (sa oa : Val) (c c' : Cls) (skvs okvs : List (Str × Val))
    (still : Bool) (kvs : List (Str × Val)) (r : Res)
    (hs : keysNodup skvs = true) (ho : keysNodup okvs = true) (hwo : wfK okvs = true)
    (hk : ∀ k v, (k, v) ∈ kvs → Val.lookup k skvs = some v) (hwk : wfK kvs = true)
    (h : dictWalk cfg p sa oa skvs okvs still kvs = .ok r) :
    Absent cfg p (.dict c skvs) (.dict c' okvs) r :=
  match kvs, still, hk, hwk, h with
  | [], still, _, _, h => by
    simp only [dictWalk] at h
    cases h; exact dictTail_absent cfg p sa oa c c' skvs okvs still
  | (k, v) :: rest, still, hk, hwk, h => by
    simp only [dictWalk] at h
    simp only [wfK, Bool.and_eq_true] at hwk
    have hk' : ∀ k v, (k, v) ∈ rest → Val.lookup k skvs = some v :=
      fun k v hm => hk k v (List.mem_cons_of_mem _ hm)
    have hkv : Val.lookup k skvs = some v := hk k v (List.mem_cons_self ..)
    cases hl : Val.lookup k okvs with
    | none =>
      rw [hl] at h
      exact dictWalk_absent cfg p sa oa c c' skvs okvs still rest r hs ho hwo hk' hwk.2 h
    | some w =>
      rw [hl] at h
      simp only at h
      have hww : wf w = true := wfK_lookup okvs k w hwo hl
      have hL : segGet .left (.key k) (.dict c skvs) = some v := by simpa using hkv
      have hR : segGet .right (.key k) (.dict c' okvs) = some w := by simpa using hl
      have hcb := classifyEntry_shape cfg (p ++ [.key k]) v w
      cases hcl : classifyEntry cfg (p ++ [.key k]) v w with
      | emit r0 s =>
        rw [hcl] at h hcb
        simp only at h
        cases hr : dictWalk cfg p sa oa skvs okvs (still && s) rest with
        | error e => rw [hr] at h; cases h
        | ok r' =>
          rw [hr] at h; cases h
          exact absent_append (absent_of_shape hcb)
            (dictWalk_absent cfg p sa oa c c' skvs okvs (still && s) rest r' hs ho hwo hk' hwk.2 hr)
      | descend =>
        rw [hcl] at h
        simp only at h
        cases hsb : sub cfg .entry (p ++ [.key k]) v w with
        | error e => rw [hsb] at h; cases h
        | ok r1 =>
          rw [hsb] at h
          simp only at h
          cases hr : dictWalk cfg p sa oa skvs okvs still rest with
          | error e => rw [hr] at h; cases h
          | ok r' =>
            rw [hr] at h; cases h
            exact absent_append (Absent.lift hL hR (sub_absent cfg .entry _ v w r1 hwk.1 hww hsb))
              (dictWalk_absent cfg p sa oa c c' skvs okvs still rest r' hs ho hwo hk' hwk.2 hr)
termination_by structural kvs

theorem directWalk_absent (cfg : Cfg) (p : Path) (sa oa : Val) (c c' : Cls) (sl ol : List Val) (i : Nat)
    (xs ys : List Val) (r : Res)
    (hx : ∀ n, xs[n]? = sl[i + n]?) (hy : ∀ n, ys[n]? = ol[i + n]?)
    (hwx : wfL xs = true) (hwy : wfL ys = true)
    (h : directWalk cfg p sa oa i xs ys = .ok r) : Absent cfg p (.list c sl) (.list c' ol) r :=
  match xs, ys, i, hx, hy, hwx, hwy, h with
  | [], ys, i, hx, hy, _, _, h => by
    simp only [directWalk] at h
    cases h
    refine ⟨?_, ?_⟩
    · intro e he; simp at he
    · intro e he
      obtain ⟨n, hp, hg⟩ := otherTail_mem p ys i e he
      refine ⟨[], .idx (i + n), by simpa using hp, Or.inr ⟨i + n, c, sl, rfl, rfl, fun _ => ?_⟩⟩
      have := hx n
      simp only [List.getElem?_nil] at this
      exact List.getElem?_eq_none_iff.1 this.symm
  | x :: xs, [], i, hx, hy, hwx, hwy, h => by
    simp only [directWalk] at h
    simp only [wfL, Bool.and_eq_true] at hwx
    have hx0 : sl[i]? = some x := by simpa using (hx 0).symm
    have hx' : ∀ n, xs[n]? = sl[i + 1 + n]? := by
      intro n
      have := hx (n + 1)
      simp only [List.getElem?_cons_succ] at this
      rw [this]; congr 1; omega
    have hy' : ∀ n, ([] : List Val)[n]? = ol[i + 1 + n]? := by
      intro n
      have := hy (n + 1)
      simp only [List.getElem?_nil] at this ⊢
      rw [this]; congr 1; omega
    cases hr : directWalk cfg p sa oa (i + 1) xs [] with
    | error e => rw [hr] at h; cases h
    | ok r' =>
      rw [hr] at h; cases h
      refine absent_append ⟨?_, ?_⟩
        (directWalk_absent cfg p sa oa c c' sl ol (i + 1) xs [] r' hx' hy' hwx.2 hwy hr)
      · intro e he
        simp only [List.mem_singleton] at he
        subst he
        refine ⟨[], .idx i, by simp, Or.inr ⟨i, c', ol, rfl, rfl, fun _ => ?_⟩⟩
        have := hy 0
        simp only [List.getElem?_nil, Nat.add_zero] at this
        exact List.getElem?_eq_none_iff.1 this.symm
      · intro e he; simp at he
  | x :: xs, y :: ys, i, hx, hy, hwx, hwy, h => by
    simp only [directWalk] at h
    simp only [wfL, Bool.and_eq_true] at hwx hwy
    have hx0 : sl[i]? = some x := by simpa using (hx 0).symm
    have hy0 : ol[i]? = some y := by simpa using (hy 0).symm
    have hx' : ∀ n, xs[n]? = sl[i + 1 + n]? := by
      intro n
      have := hx (n + 1)
      simp only [List.getElem?_cons_succ] at this
      rw [this]; congr 1; omega
    have hy' : ∀ n, ys[n]? = ol[i + 1 + n]? := by
      intro n
      have := hy (n + 1)
      simp only [List.getElem?_cons_succ] at this
      rw [this]; congr 1; omega
    have hL : segGet .left (.idx i) (.list c sl) = some x := by simpa using hx0
    have hR : segGet .right (.idx i) (.list c' ol) = some y := by simpa using hy0
    have hcb := classifyItem_shape cfg p (p ++ [.idx i]) (p ++ [.idx i]) sa oa x y
    cases hcl : classifyItem cfg p (p ++ [.idx i]) (p ++ [.idx i]) sa oa x y with
    | emit r0 s =>
      rw [hcl] at h hcb
      simp only at h
      cases hr : directWalk cfg p sa oa (i + 1) xs ys with
      | error e => rw [hr] at h; cases h
      | ok r' =>
        rw [hr] at h; cases h
        exact absent_append (absent_of_shape hcb)
          (directWalk_absent cfg p sa oa c c' sl ol (i + 1) xs ys r' hx' hy' hwx.2 hwy.2 hr)
    | descend =>
      rw [hcl] at h
      simp only at h
      cases hsb : sub cfg .item (p ++ [.idx i]) x y with
      | error e => rw [hsb] at h; cases h
      | ok r1 =>
        rw [hsb] at h
        simp only at h
        cases hr : directWalk cfg p sa oa (i + 1) xs ys with
        | error e => rw [hr] at h; cases h
        | ok r' =>
          rw [hr] at h; cases h
          exact absent_append (Absent.lift hL hR (sub_absent cfg .item _ x y r1 hwx.1 hwy.1 hsb))
            (directWalk_absent cfg p sa oa c c' sl ol (i + 1) xs ys r' hx' hy' hwx.2 hwy.2 hr)
termination_by structural xs

theorem keyedWalk_absent (cfg : Cfg) (p : Path) (sa oa : Val) (c c' : Cls) (sl ol : List Val) (i : Nat)
    (xs : List Val) (ks : List Str) (sr orr : List KE) (r : Res)
    (hd : cfg.direct = false)
    (hx : ∀ n, xs[n]? = sl[i + n]?) (hwx : wfL xs = true) (hwo : wfL ol = true)
    (hsr : ∀ e ∈ sr, sl[e.2.1]? = some e.2.2) (horr : ∀ e ∈ orr, ol[e.2.1]? = some e.2.2)
    (h : keyedWalk cfg p sa oa i xs ks sr orr = .ok r) : Absent cfg p (.list c sl) (.list c' ol) r :=
  match xs, ks, sr, orr, i, hx, hwx, hsr, horr, h with
  | [], _, sr, orr, i, _, _, hsr, horr, h => by
    simp only [keyedWalk] at h
    cases h; exact keyedTail_absent cfg p c c' sl ol sr orr hd
  | _ :: _, [], _, _, i, _, _, _, _, h => by simp [keyedWalk] at h
  | x :: xs, k :: ks, sr, orr, i, hx, hwx, hsr, horr, h => by
    simp only [keyedWalk] at h
    simp only [wfL, Bool.and_eq_true] at hwx
    have hx0 : sl[i]? = some x := by simpa using (hx 0).symm
    have hx' : ∀ n, xs[n]? = sl[i + 1 + n]? := by
      intro n
      have := hx (n + 1)
      simp only [List.getElem?_cons_succ] at this
      rw [this]; congr 1; omega
    cases hf : findKey k orr with
    | none =>
      rw [hf] at h
      exact keyedWalk_absent cfg p sa oa c c' sl ol (i + 1) xs ks sr orr r hd hx' hwx.2 hwo hsr horr h
    | some jy =>
      obtain ⟨j, y⟩ := jy
      rw [hf] at h
      simp only at h
      obtain ⟨k', hmem⟩ := findKey_mem orr k j y hf
      have hy0 : ol[j]? = some y := horr _ hmem
      have hwy : wf y = true := wfL_get ol j y hwo hy0
      have hsr' : ∀ e ∈ eraseKey k sr, sl[e.2.1]? = some e.2.2 := fun e he => hsr e (eraseKey_sub sr k e he)
      have horr' : ∀ e ∈ eraseKey k orr, ol[e.2.1]? = some e.2.2 := fun e he => horr e (eraseKey_sub orr k e he)
      have hL : segGet .left (if i = j then PSeg.idx i else PSeg.idx2 i j) (.list c sl) = some x := by
        rw [segGet_keyed_left]; exact hx0
      have hR : segGet .right (if i = j then PSeg.idx i else PSeg.idx2 i j) (.list c' ol) = some y := by
        rw [segGet_keyed_right]; exact hy0
      have hL2 : segGet .left (.idx i) (.list c sl) = some x := by simpa using hx0
      have hR2 : cfg.direct = true → segGet .right (.idx i) (.list c' ol) = some y := by
        intro hd'; rw [hd] at hd'; cases hd'
      have hcb := classifyItem_shape cfg p (p ++ [if i = j then PSeg.idx i else PSeg.idx2 i j]) (p ++ [.idx i]) sa oa x y
      cases hcl : classifyItem cfg p (p ++ [if i = j then PSeg.idx i else PSeg.idx2 i j]) (p ++ [.idx i]) sa oa x y with
      | emit r0 s =>
        rw [hcl] at h hcb
        simp only at h
        cases hr : keyedWalk cfg p sa oa (i + 1) xs ks (eraseKey k sr) (eraseKey k orr) with
        | error e => rw [hr] at h; cases h
        | ok r' =>
          rw [hr] at h; cases h
          exact absent_append (absent_of_shape hcb)
            (keyedWalk_absent cfg p sa oa c c' sl ol (i + 1) xs ks _ _ r' hd hx' hwx.2 hwo hsr' horr' hr)
      | descend =>
        rw [hcl] at h
        simp only at h
        cases hsb : sub cfg .item (p ++ [if i = j then PSeg.idx i else PSeg.idx2 i j]) x y with
        | error e => rw [hsb] at h; cases h
        | ok r1 =>
          rw [hsb] at h
          simp only at h
          cases hr : keyedWalk cfg p sa oa (i + 1) xs ks (eraseKey k sr) (eraseKey k orr) with
          | error e => rw [hr] at h; cases h
          | ok r' =>
            rw [hr] at h; cases h
            exact absent_append (Absent.lift hL hR (sub_absent cfg .item _ x y r1 hwx.1 hwy hsb))
              (keyedWalk_absent cfg p sa oa c c' sl ol (i + 1) xs ks _ _ r' hd hx' hwx.2 hwo hsr' horr' hr)
termination_by structural xs
end


theorem compareTop_absent (cfg : Cfg) (a b : Val) (r : Res) (hw : wf a = true) (hw' : wf b = true)
    (h : compareTop cfg a b = .ok r) : Absent cfg [] a b r := by
  unfold compareTop at h
  split at h
  · split at h
    · simp only [wf, Bool.and_eq_true] at hw hw'
      rename_i kvs _ kvs'
      exact dictWalk_absent cfg [] _ _ .n0 .n0 kvs kvs' true kvs r hw.2 hw'.2 hw'.1
        (fun k v hm => lookup_of_mem kvs k v hw.2 hm) hw.1 h
    · cases h
  · split at h
    · exact sub_absent cfg .entry [] _ _ r hw hw' h
    · cases h
  · cases h

/-- a self-unique entry: its parent resolves on the other side; for a dictionary entry the key is missing in the
other dictionary, for a list item in direct mode the index is beyond the other list -/
theorem selfUnique_absent (cfg : Cfg) (a b : Val) (r : Res) (hw : wf a = true) (hw' : wf b = true)
    (h : compareTop cfg a b = .ok r) :
    ∀ e ∈ r.selfUnique, ∃ q s, e.path = q ++ [s] ∧
      ((∃ k c kvs, s = .key k ∧ getAt .right q b = some (.dict c kvs) ∧ Val.lookup k kvs = none) ∨
       (∃ i c ys, s = .idx i ∧ getAt .right q b = some (.list c ys) ∧ (cfg.direct = true → ys.length ≤ i))) := by
  intro e he
  obtain ⟨q, s, hp, ha⟩ := (compareTop_absent cfg a b r hw hw' h).su e he
  exact ⟨q, s, by simpa using hp, ha⟩

/-- mirror image for the entries unique to the right operand -/
theorem otherUnique_absent (cfg : Cfg) (a b : Val) (r : Res) (hw : wf a = true) (hw' : wf b = true)
    (h : compareTop cfg a b = .ok r) :
    ∀ e ∈ r.otherUnique, ∃ q s, e.path = q ++ [s] ∧
      ((∃ k c kvs, s = .key k ∧ getAt .left q a = some (.dict c kvs) ∧ Val.lookup k kvs = none) ∨
       (∃ i c xs, s = .idx i ∧ getAt .left q a = some (.list c xs) ∧ (cfg.direct = true → xs.length ≤ i))) := by
  intro e he
  obtain ⟨q, s, hp, ha⟩ := (compareTop_absent cfg a b r hw hw' h).ou e he
  exact ⟨q, s, by simpa using hp, ha⟩

end N0.Compare
