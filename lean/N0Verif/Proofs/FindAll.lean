import N0Verif.Model.FindAll
import N0Verif.Proofs.XPathResolve
import N0Verif.Py.Lemmas
/-!
  Lemmas about the `findall` model (`Model/FindAll.lean`).
-/
namespace N0.FindAll
open N0 N0.Py N0.Val

/-! ## the two received objects: what a call can do to them -/

/-- the function used for the recursive calls never changes the contents of the stack object -/
def PsInv (rec : Val → List Str → FL → PS → Out) : Prop := ∀ n t f p, (rec n t f p).ps = p
/-- … and leaves an empty list object empty -/
def FlInv (rec : Val → List Str → FL → PS → Out) : Prop := ∀ n t p, (rec n t [] p).fl = []

section
variable {rec : Val → List Str → FL → PS → Out} (re : Bool)

theorem stepUp_ps (h : PsInv rec) (rest : List Str) (fl : FL) (ps : PS) :
    (stepUp rec re rest fl ps).ps = ps := by
  unfold stepUp
  split <;> simp [h _ _ _ _]

/-- the comparison of a `text()` condition (fix C19-f) raises nothing: the only "error" of the model
is its own scope marker (a float node, `lower()` beyond ASCII) -/
theorem textEq_err {node : Val} {v : Str} {e : PyErr} (h : textEq node v = .error e) : e = .Unsupported := by
  unfold textEq at h
  split at h
  · split at h
    · cases h; rfl
    · cases h
  · split at h
    · split at h
      · cases h
      · cases h; rfl
    · split at h
      · cases h; rfl
      · cases h
  all_goals cases h

/-- the shape of a `text()` step: scope marker, a miss of this branch, or the recursive call on the
same node with the same list object and the node registered in a copy of the stack -/
theorem stepText_cases (rec : Val → List Str → FL → PS → Out) (node : Val) (rest : List Str) (eq : Bool) (v : Str)
    (fl : FL) (ps : PS) :
    stepText rec node rest eq v fl ps = ⟨.error .Unsupported, fl, ps⟩ ∨
    stepText rec node rest eq v fl ps = ⟨.ok Option.none, fl, ps⟩ ∨
    (textEq node v = .ok eq ∧
      stepText rec node rest eq v fl ps =
        ⟨(rec node rest fl (push ps fl node)).res, (rec node rest fl (push ps fl node)).fl, ps⟩) := by
  unfold stepText
  split
  · rename_i e he
    cases textEq_err he
    exact Or.inl rfl
  · rename_i b hb
    split
    · exact Or.inr (Or.inl rfl)
    · rename_i hne
      refine Or.inr (Or.inr ⟨?_, rfl⟩)
      rw [hb]
      cases b <;> cases eq <;> simp_all

theorem stepText_ps (node : Val) (rest : List Str) (eq : Bool) (v : Str) (fl : FL) (ps : PS) :
    (stepText rec node rest eq v fl ps).ps = ps := by
  unfold stepText
  repeat' split
  all_goals rfl

theorem stepIdx_ps (node : Val) (rest : List Str) (i : Int) (fl : FL) (ps : PS) :
    (stepIdx rec re node rest i fl ps).ps = ps := by
  unfold stepIdx
  repeat' split
  all_goals rfl

theorem stepStar_ps (node : Val) (rest : List Str) (fl : FL) (ps : PS) :
    (stepStar rec re node rest fl ps).ps = ps := by
  unfold stepStar
  repeat' split
  all_goals rfl

theorem stepName_ps (h : PsInv rec) (node : Val) (tok : Str) (rest : List Str) (fl : FL) (ps : PS) :
    (stepName rec re node tok rest fl ps).ps = ps := by
  unfold stepName
  repeat' split
  all_goals first | rfl | exact h _ _ _ _ | (dsimp only; split <;> exact h _ _ _ _)

theorem step_ps (h : PsInv rec) (node : Val) (toks : List Str) (fl : FL) (ps : PS) :
    (step rec re node toks fl ps).ps = ps := by
  unfold step
  split
  · rfl
  · split
    · exact stepUp_ps re h _ _ _
    · rfl
    · exact stepText_ps _ _ _ _ _ _
    · exact stepIdx_ps re _ _ _ _ _
    · exact stepStar_ps re _ _ _ _
    · exact stepName_ps re h _ _ _ _ _

end

/-- **the stack object is never modified**: whatever a call returns or raises, the dict it received
has the contents it had -/
theorem fa_ps (re : Bool) : ∀ (fuel : Nat) (node : Val) (toks : List Str) (fl : FL) (ps : PS),
    (fa re fuel node toks fl ps).ps = ps := by
  intro fuel
  induction fuel with
  | zero => intros; rfl
  | succ f ih =>
    intro node toks fl ps
    exact step_ps re (fun n t f' p => ih n t f' p) node toks fl ps

section
variable {rec : Val → List Str → FL → PS → Out} (re : Bool)

theorem stepText_fl_nil (h : FlInv rec) (node : Val) (rest : List Str) (eq : Bool) (v : Str) (ps : PS) :
    (stepText rec node rest eq v [] ps).fl = [] := by
  unfold stepText
  repeat' split
  all_goals first | rfl | exact h _ _ _

theorem stepIdx_fl_nil (node : Val) (rest : List Str) (i : Int) (ps : PS) :
    (stepIdx rec re node rest i [] ps).fl = [] := by
  unfold stepIdx
  repeat' split
  all_goals first | rfl | (simp; done) | (simp_all; done)

theorem stepStar_fl_nil (node : Val) (rest : List Str) (ps : PS) :
    (stepStar rec re node rest [] ps).fl = [] := by
  unfold stepStar
  repeat' split
  all_goals first | rfl | (simp; done) | (simp_all; done)

theorem stepName_fl_nil (h : FlInv rec) (node : Val) (tok : Str) (rest : List Str) (ps : PS) :
    (stepName rec re node tok rest [] ps).fl = [] := by
  unfold stepName
  repeat' split
  all_goals first | rfl | exact h _ _ _ | (dsimp only; split <;> exact h _ _ _)

theorem step_fl_nil (h : FlInv rec) (node : Val) (toks : List Str) (ps : PS) :
    (step rec re node toks [] ps).fl = [] := by
  unfold step
  split
  · rfl
  · split
    · unfold stepUp; split <;> rfl
    · rfl
    · exact stepText_fl_nil h _ _ _ _ _
    · exact stepIdx_fl_nil re _ _ _ _
    · exact stepStar_fl_nil re _ _ _
    · exact stepName_fl_nil re h _ _ _ _

end

/-- **an empty list object stays empty**: the in-place updates `found_xpath_list[-1] += …` /
`found_xpath_list[-1] = …` are only reached after the local name was rebound to a fresh `[""]`
(index and `[*]` steps) -/
theorem fa_fl_nil (re : Bool) : ∀ (fuel : Nat) (node : Val) (toks : List Str) (ps : PS),
    (fa re fuel node toks [] ps).fl = [] := by
  intro fuel
  induction fuel with
  | zero => intros; rfl
  | succ f ih =>
    intro node toks ps
    exact step_fl_nil re (fun n t p => ih n t p) node toks ps

/-- a search that starts from the fresh defaults leaves them fresh (both modes) -/
theorem findallTop_state (fuel : Nat) (t : Val) (e : Str) (re : Bool := true) :
    (findallTop fuel fresh t e re).state = fresh := by
  simp only [findallTop, fresh, Out.state, fa_ps, fa_fl_nil]

theorem runHist_fresh (fuel : Nat) (h : List (Val × Str)) :
    runHist fuel fresh h = (h.map (fun te => (findallTop fuel fresh te.1 te.2).res), fresh) := by
  induction h with
  | nil => rfl
  | cons te rest ih =>
    obtain ⟨t, e⟩ := te
    simp only [runHist, findallTop_state, ih, List.map_cons]

theorem runHistM_fresh (fuel : Nat) (h : List (Val × Str × Bool)) :
    runHistM fuel fresh h = (h.map (fun te => (findallTop fuel fresh te.1 te.2.1 te.2.2).res), fresh) := by
  induction h with
  | nil => rfl
  | cons te rest ih =>
    obtain ⟨t, e, re⟩ := te
    simp only [runHistM, findallTop_state, ih, List.map_cons]

/-! ## `raise_exception=False`: a miss is never signalled by an exception

With `raise_exception=False` every `raise IndexError` / `raise KeyError` of `_findall` is replaced
by `return None` (`raiseOr`), and since fix C19-d the last branch (a step on a final element) is a
miss too.  What can still be raised are the errors of the expression itself (`classify`:
`TypeError`, `ValueError`, `SyntaxError`); since fix C19-f a `text()` step raises nothing itself. -/

/-- the outcome is not one of the two exceptions `_findall` uses for "not there" -/
def NoMiss (r : PyM (Option Found)) : Prop := r ≠ .error .IndexError ∧ r ≠ .error .KeyError

def RecNoMiss (rec : Val → List Str → FL → PS → Out) : Prop := ∀ n t f p, NoMiss (rec n t f p).res

theorem noMiss_ok (f : Option Found) : NoMiss (.ok f) := ⟨(by intro h; cases h), (by intro h; cases h)⟩

theorem noMiss_raiseOr (e : PyErr) : NoMiss (raiseOr false e) := noMiss_ok _

theorem noMiss_err (e : PyErr) (h1 : e ≠ .IndexError) (h2 : e ≠ .KeyError) : NoMiss (.error e) :=
  ⟨(by intro h; cases h; exact h1 rfl), (by intro h; cases h; exact h2 rfl)⟩

/-- the exceptions a step raises by itself (malformed bracket, `int()`, `eval`, unknown
condition) are never IndexError / KeyError -/
def OkStep (s : Step) : Prop := s ≠ .fail .IndexError ∧ s ≠ .fail .KeyError
theorem ok_of (s : Step) (h : ∀ e, s = .fail e → e ≠ .IndexError ∧ e ≠ .KeyError) : OkStep s :=
  ⟨fun he => (h _ he).1 rfl, fun he => (h _ he).2 rfl⟩
theorem ok_ite (c : Prop) [Decidable c] (a b : Step) (ha : OkStep a) (hb : OkStep b) :
    OkStep (if c then a else b) := by split <;> assumption
theorem ok_up : OkStep .up := ⟨(by intro h; cases h), (by intro h; cases h)⟩
theorem ok_star : OkStep .star := ⟨(by intro h; cases h), (by intro h; cases h)⟩
theorem ok_name (n : Str) : OkStep (.name n) := ⟨(by intro h; cases h), (by intro h; cases h)⟩
theorem ok_idx (n : Int) : OkStep (.idx n) := ⟨(by intro h; cases h), (by intro h; cases h)⟩
theorem ok_text (b : Bool) (n : Str) : OkStep (.text b n) := ⟨(by intro h; cases h), (by intro h; cases h)⟩
theorem ok_fail (e : PyErr) (h1 : e ≠ .IndexError) (h2 : e ≠ .KeyError) : OkStep (.fail e) :=
  ⟨(by intro h; cases h; exact h1 rfl), (by intro h; cases h; exact h2 rfl)⟩
theorem classify_ok (tok : Str) : OkStep (classify tok) := by
  unfold classify
  refine ok_ite _ _ _ ok_up ?_
  refine ok_ite _ _ _ ?_ (ok_name _)
  refine ok_ite _ _ _ (ok_fail _ (by decide) (by decide)) ?_
  refine ok_ite _ _ _ (ok_fail _ (by decide) (by decide)) ?_
  refine ok_ite _ _ _ ?_ ?_
  · generalize XPath.pyInt _ = x
    cases x
    · exact ok_fail _ (by decide) (by decide)
    · exact ok_idx _
  refine ok_ite _ _ _ ok_star ?_
  refine ok_ite _ _ _ ?_ ?_
  · generalize evalLast _ = x
    cases x
    · exact ok_fail _ (by decide) (by decide)
    · exact ok_idx _
  refine ok_ite _ _ _ ?_ (ok_fail _ (by decide) (by decide))
  dsimp only
  generalize (if startsWith _ ['=', '='] = true then some (true, ['=', '=']) else _ : Option (Bool × Str)) = c
  cases c with
  | none => exact ok_fail _ (by decide) (by decide)
  | some p =>
    obtain ⟨eq, delim⟩ := p
    dsimp only
    generalize XPath.splitOnce _ _ = y
    cases y with
    | none => exact ok_fail _ (by decide) (by decide)
    | some q => exact ok_text _ _

theorem classify_fail_noMiss (tok : Str) (e : PyErr) (h : classify tok = .fail e) :
    e ≠ .IndexError ∧ e ≠ .KeyError := by
  have := classify_ok tok
  rw [h] at this
  exact ⟨fun he => this.1 (by rw [he]), fun he => this.2 (by rw [he])⟩

theorem starLoop_noMiss (call : Val → FL → Out) (last : Str) (hc : ∀ c cur, NoMiss (call c cur).res) :
    ∀ (xs : List Val) (i : Nat) (cur : FL) (acc : Found), NoMiss (starLoop call false last i xs cur acc).1 := by
  intro xs
  induction xs with
  | nil => intro i cur acc; exact noMiss_ok _
  | cons c cs ih =>
    intro i cur acc
    unfold starLoop
    split
    · have h := hc c (setLast cur (last ++ XPath.bracket (natRepr i)))
      dsimp only
      split
      · next e he => rw [he] at h; exact h
      · exact ih _ _ _
    · exact noMiss_raiseOr .IndexError

theorem keysLoop_noMiss (call : Str → Val → Out) (hc : ∀ k c, NoMiss (call k c).res) :
    ∀ (kvs : List (Str × Val)) (acc : Found), NoMiss (keysLoop call kvs acc) := by
  intro kvs
  induction kvs with
  | nil => intro acc; exact noMiss_ok _
  | cons kc rest ih =>
    intro acc
    obtain ⟨k, c⟩ := kc
    unfold keysLoop
    split
    · have h := hc k c
      split
      · next e he => rw [he] at h; exact h
      · exact ih _
    · exact ih _

section
variable {rec : Val → List Str → FL → PS → Out} (hr : RecNoMiss rec)
include hr

theorem stepUp_noMiss (rest : List Str) (fl : FL) (ps : PS) : NoMiss (stepUp rec false rest fl ps).res := by
  unfold stepUp
  split
  · exact noMiss_raiseOr .KeyError
  · exact hr _ _ _ _

theorem stepText_noMiss (node : Val) (rest : List Str) (eq : Bool) (v : Str) (fl : FL) (ps : PS) :
    NoMiss (stepText rec node rest eq v fl ps).res := by
  rcases stepText_cases rec node rest eq v fl ps with h | h | ⟨_, h⟩ <;> rw [h]
  · exact noMiss_err _ (by decide) (by decide)
  · exact noMiss_ok _
  · exact hr _ _ _ _

theorem stepIdx_noMiss (node : Val) (rest : List Str) (i : Int) (fl : FL) (ps : PS) :
    NoMiss (stepIdx rec false node rest i fl ps).res := by
  unfold stepIdx
  split
  · split
    · exact noMiss_raiseOr .IndexError
    · split
      · exact noMiss_err _ (by decide) (by decide)
      · split
        · exact hr _ _ _ _
        · exact noMiss_raiseOr .IndexError
  · split
    · exact noMiss_raiseOr .IndexError
    · exact noMiss_raiseOr .KeyError
  · exact noMiss_ok _

theorem stepStar_noMiss (node : Val) (rest : List Str) (fl : FL) (ps : PS) :
    NoMiss (stepStar rec false node rest fl ps).res := by
  unfold stepStar
  split
  · exact starLoop_noMiss _ _ (fun c cur => hr _ _ _ _) _ _ _ _
  · exact noMiss_raiseOr .IndexError
  · exact noMiss_ok _

theorem stepName_noMiss (node : Val) (tok : Str) (rest : List Str) (fl : FL) (ps : PS) :
    NoMiss (stepName rec false node tok rest fl ps).res := by
  unfold stepName
  split
  · exact hr _ _ _ _
  · split
    · exact noMiss_raiseOr .KeyError
    · split
      · dsimp only
        split
        · next e he => rw [← he]; exact hr _ _ _ _
        · exact keysLoop_noMiss _ (fun k c => hr _ _ _ _) _ _
      · split
        · exact hr _ _ _ _
        · exact noMiss_ok _
  · exact noMiss_ok _

theorem step_noMiss (node : Val) (toks : List Str) (fl : FL) (ps : PS) :
    NoMiss (step rec false node toks fl ps).res := by
  unfold step
  split
  · exact noMiss_ok _
  · next tok rest =>
    split
    · exact stepUp_noMiss hr _ _ _
    · next e he => exact noMiss_err e (classify_fail_noMiss tok e he).1 (classify_fail_noMiss tok e he).2
    · exact stepText_noMiss hr _ _ _ _ _ _
    · exact stepIdx_noMiss hr _ _ _ _ _
    · exact stepStar_noMiss hr _ _ _ _
    · exact stepName_noMiss hr _ _ _ _ _

end

/-- **with `raise_exception=False` `_findall` never raises IndexError or KeyError** -/
theorem fa_noMiss : ∀ (fuel : Nat), RecNoMiss (fa false fuel) := by
  intro fuel
  induction fuel with
  | zero => intro n t f p; exact noMiss_err _ (by decide) (by decide)
  | succ k ih => intro n t f p; exact step_noMiss ih n t f p

/-! ## which exceptions a search can raise at all (fix C19-f: never AttributeError)

Every exception of `_findall` is either an exception of a token itself (`classify`: TypeError,
ValueError, SyntaxError; `Unsupported` is the scope marker of the model) or — only with
`raise_exception=True` — one of the two signals for "not there" (IndexError, KeyError).  Since fix
C19-f the `text()` branch raises nothing: before it `parent_node.lower()` raised AttributeError for
every node that is not a string, in both modes. -/

/-- every exception of the outcome satisfies `Q` -/
def FaErrIn (Q : PyErr → Prop) (r : PyM (Option Found)) : Prop := ∀ e, r = .error e → Q e

theorem faErrIn_ok {Q : PyErr → Prop} (f : Option Found) : FaErrIn Q (.ok f) := by intro e h; cases h
theorem faErrIn_err {Q : PyErr → Prop} {e : PyErr} (h : Q e) : FaErrIn Q (.error e) := by
  intro e' h'; cases h'; exact h
theorem faErrIn_raiseOr {Q : PyErr → Prop} (re : Bool) (e : PyErr) (h : re = true → Q e) :
    FaErrIn Q (raiseOr re e) := by
  cases re
  · exact faErrIn_ok _
  · exact faErrIn_err (h rfl)

/-- the exceptions of a token itself (`Unsupported` = outside the model's scope) -/
def FaTokErr (e : PyErr) : Prop := e = .TypeError ∨ e = .ValueError ∨ e = .SyntaxError ∨ e = .Unsupported

def FaStepIn (s : Step) : Prop := ∀ e, s = .fail e → FaTokErr e
theorem faStepIn_ite (c : Prop) [Decidable c] (a b : Step) (ha : FaStepIn a) (hb : FaStepIn b) :
    FaStepIn (if c then a else b) := by split <;> assumption
theorem faStepIn_up : FaStepIn .up := by intro e h; cases h
theorem faStepIn_star : FaStepIn .star := by intro e h; cases h
theorem faStepIn_name (n : Str) : FaStepIn (.name n) := by intro e h; cases h
theorem faStepIn_idx (n : Int) : FaStepIn (.idx n) := by intro e h; cases h
theorem faStepIn_text (b : Bool) (n : Str) : FaStepIn (.text b n) := by intro e h; cases h
theorem faStepIn_fail (e : PyErr) (h : FaTokErr e) : FaStepIn (.fail e) := by intro e' h'; cases h'; exact h

/-- a token fails only with TypeError (malformed bracket, unknown condition), ValueError (`int()`, the
unpacking of the `split`), SyntaxError (`eval` of `last()…`) -/
theorem classify_fail_kind (tok : Str) : FaStepIn (classify tok) := by
  unfold classify
  refine faStepIn_ite _ _ _ faStepIn_up ?_
  refine faStepIn_ite _ _ _ ?_ (faStepIn_name _)
  refine faStepIn_ite _ _ _ (faStepIn_fail _ (by simp [FaTokErr])) ?_
  refine faStepIn_ite _ _ _ (faStepIn_fail _ (by simp [FaTokErr])) ?_
  refine faStepIn_ite _ _ _ ?_ ?_
  · generalize XPath.pyInt _ = x
    cases x
    · exact faStepIn_fail _ (by simp [FaTokErr])
    · exact faStepIn_idx _
  refine faStepIn_ite _ _ _ faStepIn_star ?_
  refine faStepIn_ite _ _ _ ?_ ?_
  · generalize evalLast _ = x
    cases x
    · exact faStepIn_fail _ (by simp [FaTokErr])
    · exact faStepIn_idx _
  refine faStepIn_ite _ _ _ ?_ (faStepIn_fail _ (by simp [FaTokErr]))
  dsimp only
  generalize (if startsWith _ ['=', '='] = true then some (true, ['=', '=']) else _ : Option (Bool × Str)) = c
  cases c with
  | none => exact faStepIn_fail _ (by simp [FaTokErr])
  | some p =>
    obtain ⟨eq, delim⟩ := p
    dsimp only
    generalize XPath.splitOnce _ _ = y
    cases y with
    | none => exact faStepIn_fail _ (by simp [FaTokErr])
    | some q => exact faStepIn_text _ _

theorem starLoop_errIn {Q : PyErr → Prop} (call : Val → FL → Out) (re : Bool) (last : Str)
    (hI : re = true → Q .IndexError) (hc : ∀ c cur, FaErrIn Q (call c cur).res) :
    ∀ (xs : List Val) (i : Nat) (cur : FL) (acc : Found), FaErrIn Q (starLoop call re last i xs cur acc).1 := by
  intro xs
  induction xs with
  | nil => intro i cur acc; exact faErrIn_ok _
  | cons c cs ih =>
    intro i cur acc
    unfold starLoop
    split
    · have h := hc c (setLast cur (last ++ XPath.bracket (natRepr i)))
      dsimp only
      split
      · next e he => rw [he] at h; exact h
      · exact ih _ _ _
    · exact faErrIn_raiseOr _ _ hI

theorem keysLoop_errIn {Q : PyErr → Prop} (call : Str → Val → Out) (hc : ∀ k c, FaErrIn Q (call k c).res) :
    ∀ (kvs : List (Str × Val)) (acc : Found), FaErrIn Q (keysLoop call kvs acc) := by
  intro kvs
  induction kvs with
  | nil => intro acc; exact faErrIn_ok _
  | cons kc rest ih =>
    intro acc
    obtain ⟨k, c⟩ := kc
    unfold keysLoop
    split
    · have h := hc k c
      split
      · next e he => rw [he] at h; exact h
      · exact ih _
    · exact ih _

section
variable {rec : Val → List Str → FL → PS → Out} {Q : PyErr → Prop} (re : Bool)
  (hr : ∀ n t f p, FaErrIn Q (rec n t f p).res)
  (hT : ∀ e, FaTokErr e → Q e) (hI : re = true → Q .IndexError) (hK : re = true → Q .KeyError)
include hr hT hI hK

theorem step_errIn (node : Val) (toks : List Str) (fl : FL) (ps : PS) :
    FaErrIn Q (step rec re node toks fl ps).res := by
  have hU : Q .Unsupported := hT _ (by simp [FaTokErr])
  unfold step
  split
  · exact faErrIn_ok _
  · next tok rest =>
    split
    · -- '..'
      unfold stepUp
      split
      · exact faErrIn_raiseOr _ _ hK
      · exact hr _ _ _ _
    · next e he => exact faErrIn_err (hT e (classify_fail_kind tok e he))
    · -- text(): raises nothing itself
      rcases stepText_cases rec node rest _ _ fl ps with h | h | ⟨_, h⟩ <;> rw [h]
      · exact faErrIn_err hU
      · exact faErrIn_ok _
      · exact hr _ _ _ _
    · -- index
      unfold stepIdx
      split
      · split
        · exact faErrIn_raiseOr _ _ hI
        · split
          · exact faErrIn_err hU
          · split
            · exact hr _ _ _ _
            · exact faErrIn_raiseOr _ _ hI
      · split
        · exact faErrIn_raiseOr _ _ hI
        · exact faErrIn_raiseOr _ _ hK
      · exact faErrIn_ok _
    · -- [*]
      unfold stepStar
      split
      · exact starLoop_errIn _ _ _ hI (fun c cur => hr _ _ _ _) _ _ _ _
      · exact faErrIn_raiseOr _ _ hI
      · exact faErrIn_ok _
    · -- name
      unfold stepName
      split
      · exact hr _ _ _ _
      · split
        · exact faErrIn_raiseOr _ _ hK
        · split
          · dsimp only
            split
            · next e he => rw [← he]; exact hr _ _ _ _
            · exact keysLoop_errIn _ (fun k c => hr _ _ _ _) _ _
          · split
            · exact hr _ _ _ _
            · exact faErrIn_ok _
      · exact faErrIn_ok _

end

/-- **every exception of `_findall`** is an exception of a token (or the fuel / scope marker of the
model) or, with `raise_exception=True` only, IndexError / KeyError -/
theorem fa_errIn (re : Bool) {Q : PyErr → Prop} (hF : Q .OutOfFuel) (hT : ∀ e, FaTokErr e → Q e)
    (hI : re = true → Q .IndexError) (hK : re = true → Q .KeyError) :
    ∀ (fuel : Nat) (n : Val) (t : List Str) (f : FL) (p : PS), FaErrIn Q (fa re fuel n t f p).res := by
  intro fuel
  induction fuel with
  | zero => intro n t f p; exact faErrIn_err hF
  | succ k ih => intro n t f p; exact step_errIn re ih hT hI hK n t f p

/-- **no search raises AttributeError** (fix C19-f), whatever the tree, the expression, the objects
received and the mode are -/
theorem fa_no_attribute_error (re : Bool) (fuel : Nat) (n : Val) (t : List Str) (f : FL) (p : PS) :
    (fa re fuel n t f p).res ≠ .error .AttributeError := by
  intro h
  exact fa_errIn re (Q := fun e => e ≠ .AttributeError) (by decide)
    (by intro e he; rcases he with h | h | h | h <;> rw [h] <;> decide) (fun _ => by decide) (fun _ => by decide)
    fuel n t f p _ h rfl

/-! ## classification of the two kinds of step an exact path consists of -/
open N0.XPath in
theorem classify_plain {k : Str} (hk : PlainKey k) : classify k = .name k := by
  unfold classify
  have h1 : stripWs k ≠ ['.', '.'] := by rw [hk.stripWs]; exact hk.notUp
  have h2 : startsWith k ['['] = false := by
    cases k with
    | nil => exact absurd rfl hk.ne
    | cons c k =>
      have := (plainChar_ne (hk.chars c (by simp))).2.1
      simp [startsWith, this]
  simp only [h1, if_false, h2, Bool.false_eq_true]

open N0.XPath in
theorem classify_idx (n : Nat) : classify (bracket (natRepr n)) = .idx (n : Int) := by
  have hd : Digits (natRepr n) := natStr_digits n
  unfold classify
  have h1 : stripWs (bracket (natRepr n)) ≠ ['.', '.'] := by
    rw [show natRepr n = natStr n from rfl, bracket_stripWs]; simp [bracket]
  have h2 : startsWith (bracket (natRepr n)) ['['] = true := by simp [bracket, startsWith]
  have h3 : endsWith (bracket (natRepr n)) [']'] = true := by
    rw [show bracket (natRepr n) = ('[' :: natRepr n) ++ [']'] by simp [bracket]]
    exact endsWith_snoc _ _
  have h4 : (bracket (natRepr n)).any (fun c => decide (c.toNat ≥ 128)) = false := by
    have := hd.ascii
    simp only [bracket, List.any_cons, List.any_append, this, List.any_nil]
    decide
  have h5 : ((bracket (natRepr n)).drop 1).dropLast = natRepr n := by
    simp [bracket]
  have h6 : isNumber (natRepr n) = true := by
    unfold isNumber
    simp only [hd.stripWs]
    have hp : startsWith (natRepr n) ['+'] = false ∧ startsWith (natRepr n) ['-'] = false := by
      cases hh : natRepr n with
      | nil => exact absurd hh hd.ne
      | cons c r =>
        have hc := hd.mem_ne c (by rw [hh]; simp)
        simp [startsWith, hc]
    have hdot : (natRepr n).count '.' = 0 := by
      rw [List.count_eq_zero]
      intro hmem
      exact absurd rfl (hd.mem_ne '.' hmem).2.2.2.1
    simp only [hp.1, hp.2, Bool.or_self, Bool.false_eq_true, if_false, hdot]
    have hne : (natRepr n).isEmpty = false := by
      cases hh : natRepr n with
      | nil => exact absurd hh hd.ne
      | cons _ _ => rfl
    have hall : (natRepr n).all isAsciiDigit = true := by
      rw [List.all_eq_true]; exact hd.all
    simp [isNumericAscii, hne, hall]
  simp only [h1, if_false, h2, if_true, h3, Bool.not_true, Bool.false_eq_true, h4, h5, hd.stripWs, h6,
    pyInt_digits hd]
  rw [show natOfDigits (natRepr n) = n from natOfDigits_natDigits n]

/-! ## exact paths, tree layer -/

def tokOf : Seg → Str
  | .key k => k
  | .idx n => XPath.bracket (natRepr n)

/-- the token list of an exact path: one token per key, one per index -/
def toksOf (p : Pos) : List Str := p.map tokOf

/-- `found_xpath_list[-1] += "[n]"` (after the rebinding of an empty list to `[""]`) -/
def bump (fl : FL) (n : Nat) : FL :=
  let cur : FL := if fl.isEmpty then [[]] else fl
  setLast cur (cur.getLast?.getD [] ++ XPath.bracket (natRepr n))

/-- the path list at the end of an exact descent -/
def flPath : FL → Pos → FL
  | fl, [] => fl
  | fl, .key k :: rest => flPath (fl ++ [k]) rest
  | fl, .idx n :: rest => flPath (bump fl n) rest

/-- contents of the received list object after an exact descent: leading index steps write into
it (unless it was empty), the first key step hands on a copy -/
def flOut : FL → Pos → FL
  | fl, .idx n :: rest => if fl.isEmpty then fl else flOut (bump fl n) rest
  | fl, _ => fl

/-- `p` leads from `v` to `c` through plain keys and through indexes of elements that are
containers (the property's quantifier: lists contain dictionaries or lists) -/
def PathOk : Val → Pos → Val → Prop
  | v, [], c => v = c
  | v, .key k :: rest, c =>
    XPath.PlainKey k ∧ ∃ cls kvs x, v = .dict cls kvs ∧ lookup k kvs = some x ∧ PathOk x rest c
  | v, .idx n :: rest, c =>
    ∃ cls xs x, v = .list cls xs ∧ xs[n]? = some x ∧ isContainer x = true ∧ PathOk x rest c

/-- **tree layer of the exact-path theorem**: the token list of an exact path finds exactly one
pair, the rendered path and the node, whatever the path list and stack it starts from -/
theorem fa_exact (re : Bool) : ∀ (p : Pos) (node c : Val) (fl : FL) (ps : PS) (fuel : Nat),
    PathOk node p c → fuel > p.length →
    fa re fuel node (toksOf p) fl ps = ⟨.ok (some [(keyOf (flPath fl p), c)]), flOut fl p, ps⟩ := by
  intro p
  induction p with
  | nil =>
    intro node c fl ps fuel h hf
    obtain ⟨f, rfl⟩ : ∃ f, fuel = f + 1 := ⟨fuel - 1, by simp at hf; omega⟩
    simp only [PathOk] at h
    subst h
    rfl
  | cons s rest ih =>
    intro node c fl ps fuel h hf
    obtain ⟨f, rfl⟩ : ∃ f, fuel = f + 1 := ⟨fuel - 1, by simp at hf; omega⟩
    have hf' : f > rest.length := by simp at hf; omega
    cases s with
    | key k =>
      obtain ⟨hk, cls, kvs, x, rfl, hl, hrest⟩ := h
      have hke : k.isEmpty = false := by
        cases k with
        | nil => exact absurd rfl hk.ne
        | cons _ _ => rfl
      have hks : k ≠ ['*'] := hk.keyTok.notStar
      simp only [toksOf, List.map_cons, tokOf, fa, step, classify_plain hk, stepName, hke,
        Bool.false_eq_true, if_false, hks, hl]
      have := ih x c (fl ++ [k]) (push ps fl (.dict cls kvs)) f hrest hf'
      simp only [toksOf] at this
      rw [this]
      rfl
    | idx n =>
      obtain ⟨cls, xs, x, rfl, hx, hcont, hrest⟩ := h
      have hn : n < xs.length := by
        rcases Nat.lt_or_ge n xs.length with h | h
        · exact h
        · rw [List.getElem?_eq_none h] at hx; cases hx
      simp only [toksOf, List.map_cons, tokOf, fa, step, classify_idx, stepIdx, XPath.normIdx_nat hn, hx,
        hcont, if_true]
      have := ih x c (bump fl n) (push ps (bump fl n) (.list cls xs)) f hrest hf'
      simp only [toksOf] at this
      have hb : (setLast (if fl.isEmpty = true then [[]] else fl)
          ((if fl.isEmpty = true then [[]] else fl).getLast?.getD [] ++ XPath.bracket (intRepr (n : Int)))) = bump fl n := rfl
      rw [hb, this]
      simp only [flPath, flOut]

/-! ## exact paths, string layer -/
open N0.XPath

theorem PathOk.plain : ∀ {p : Pos} {v c : Val}, PathOk v p c → PlainPos p
  | [], _, _, _ => trivial
  | .key _ :: _, _, _, h => by
    obtain ⟨hk, _, _, _, _, _, hr⟩ := h
    exact ⟨hk, hr.plain⟩
  | .idx _ :: _, _, _, h => by
    obtain ⟨_, _, _, _, _, _, hr⟩ := h
    exact hr.plain

theorem PathOk.getAt : ∀ {p : Pos} {v c : Val}, PathOk v p c → getAt v p = some c
  | [], _, _, h => by simp only [PathOk] at h; subst h; rfl
  | .key k :: _, _, _, h => by
    obtain ⟨_, cls, kvs, x, rfl, hl, hr⟩ := h
    simp only [Val.getAt, child, hl, Option.bind_some]
    exact hr.getAt
  | .idx n :: _, _, _, h => by
    obtain ⟨cls, xs, x, rfl, hx, _, hr⟩ := h
    simp only [Val.getAt, child, hx, Option.bind_some]
    exact hr.getAt

theorem PlainKey.head_ne {k : Str} (hk : PlainKey k) : ∃ c r, k = c :: r ∧ c ≠ '/' ∧ c ≠ '[' := by
  cases k with
  | nil => exact absurd rfl hk.ne
  | cons c r =>
    have := plainChar_ne (hk.chars c (by simp))
    exact ⟨c, r, rfl, this.1, this.2.1⟩

theorem natStr_noLB (n : Nat) : ∀ c ∈ natRepr n, c ≠ '[' := by
  intro c hc h
  subst h
  have := natDigits_all_digit n '[' hc
  exact absurd this (by decide)

/-! ### `"/".join` along a descent -/

theorem join_snoc (fl : FL) (h : fl ≠ []) (k : Str) : join ['/'] (fl ++ [k]) = join ['/'] fl ++ '/' :: k := by
  induction fl with
  | nil => exact absurd rfl h
  | cons x r ih =>
    cases r with
    | nil => simp [join]
    | cons y r' =>
      have e1 : join ['/'] (x :: ((y :: r') ++ [k])) = x ++ ['/'] ++ join ['/'] ((y :: r') ++ [k]) :=
        join_cons_of_ne_nil _ _ _ (by simp)
      have e2 : join ['/'] (x :: y :: r') = x ++ ['/'] ++ join ['/'] (y :: r') := rfl
      rw [List.cons_append, e1, ih (by simp), e2]
      simp

theorem join_snoc_append (init : FL) (l br : Str) :
    join ['/'] (init ++ [l ++ br]) = join ['/'] (init ++ [l]) ++ br := by
  induction init with
  | nil => simp [join]
  | cons x r ih =>
    have e1 : join ['/'] (x :: (r ++ [l ++ br])) = x ++ ['/'] ++ join ['/'] (r ++ [l ++ br]) :=
      join_cons_of_ne_nil _ _ _ (by simp)
    have e2 : join ['/'] (x :: (r ++ [l])) = x ++ ['/'] ++ join ['/'] (r ++ [l]) :=
      join_cons_of_ne_nil _ _ _ (by simp)
    rw [List.cons_append, e1, ih, List.cons_append, e2]
    simp

theorem bump_ne_nil (fl : FL) (n : Nat) : bump fl n ≠ [] := by simp [bump, setLast]

theorem join_bump (fl : FL) (h : fl ≠ []) (n : Nat) :
    join ['/'] (bump fl n) = join ['/'] fl ++ bracket (natRepr n) := by
  have he : fl.isEmpty = false := by cases fl with | nil => exact absurd rfl h | cons _ _ => rfl
  obtain ⟨init, l, rfl⟩ : ∃ init l, fl = init ++ [l] := ⟨fl.dropLast, fl.getLast h, (List.dropLast_concat_getLast h).symm⟩
  simp only [bump, he, Bool.false_eq_true, if_false, setLast, List.dropLast_concat, List.getLast?_append,
    List.getLast?_singleton, Option.some_or, Option.getD_some]
  exact join_snoc_append init l _

theorem join_flPath : ∀ (p : Pos) (fl : FL), fl ≠ [] → join ['/'] (flPath fl p) = join ['/'] fl ++ renderPos p
  | [], fl, _ => by simp [flPath, renderPos]
  | .key k :: rest, fl, h => by
    rw [flPath, join_flPath rest (fl ++ [k]) (by simp), join_snoc fl h]
    simp [renderPos, renderSeg]
  | .idx n :: rest, fl, h => by
    rw [flPath, join_flPath rest (bump fl n) (bump_ne_nil fl n), join_bump fl h]
    simp [renderPos, renderSeg, natStr]

/-! ### `replace('/[', '[')` leaves a rendered path alone -/

theorem delSB_append_noSlash (s t : Str) (h : ∀ c ∈ s, c ≠ '/') : delSB (s ++ t) = s ++ delSB t := by
  induction s with
  | nil => rfl
  | cons c s ih =>
    have hc : c ≠ '/' := h c (by simp)
    simp only [List.cons_append, delSB, hc, false_and, if_false, ih (fun x hx => h x (by simp [hx]))]

theorem delSB_render : ∀ (p : Pos), PlainPos p → delSB (renderPos p) = renderPos p
  | [], _ => rfl
  | .key k :: rest, hp => by
    obtain ⟨hk, hr⟩ := hp
    obtain ⟨c, r, rfl, _, hc2⟩ := PlainKey.head_ne hk
    have : renderPos (.key (c :: r) :: rest) = '/' :: ((c :: r) ++ renderPos rest) := by simp [renderPos, renderSeg]
    rw [this, delSB]
    have hh : ((c :: r) ++ renderPos rest).head? ≠ some '[' := by simp [hc2]
    simp only [hh, and_false, if_false]
    rw [delSB_append_noSlash _ _ hk.noSlash, delSB_render rest hr]
  | .idx n :: rest, hp => by
    have : renderPos (.idx n :: rest) = bracket (natRepr n) ++ renderPos rest := by simp [renderPos, renderSeg, natStr]
    rw [this, delSB_append_noSlash (bracket (natRepr n)) (renderPos rest) (bracket_noSlash n), delSB_render rest hp]

/-- the key `findall` reports for an exact path from a dict root is the canonical xpath -/
theorem keyOf_flPath (k : Str) (rest : Pos) (hp : PlainPos (.key k :: rest)) :
    keyOf (flPath [] (.key k :: rest)) = slash ++ renderPos (.key k :: rest) := by
  have h1 : join ['/'] (flPath [] (.key k :: rest)) = k ++ renderPos rest := by
    rw [flPath, join_flPath rest ([] ++ [k]) (by simp)]
    simp [join]
  have h2 := delSB_render (.key k :: rest) hp
  have h3 : renderPos (.key k :: rest) = '/' :: (k ++ renderPos rest) := by simp [renderPos, renderSeg]
  obtain ⟨c, r, rfl, _, hc2⟩ := PlainKey.head_ne hp.1
  rw [h3, delSB] at h2
  have hh : ((c :: r) ++ renderPos rest).head? ≠ some '[' := by simp [hc2]
  simp only [hh, and_false, if_false] at h2
  simp only [keyOf, h1, slash, h3]
  simpa using h2

/-! ### normalisation of a canonical path -/

/-- the text after `replace("[", "/[")`: every step is preceded by one '/' -/
def renderIns (p : Pos) : Str := p.flatMap (fun s => '/' :: tokOf s)

theorem insLB_append (a b : Str) : insLB (a ++ b) = insLB a ++ insLB b := by
  simp [insLB, List.flatMap_append]

theorem insLB_id (s : Str) (h : ∀ c ∈ s, c ≠ '[') : insLB s = s := by
  induction s with
  | nil => rfl
  | cons c s ih =>
    have hc : c ≠ '[' := h c (by simp)
    have := ih (fun x hx => h x (by simp [hx]))
    simp only [insLB, List.flatMap_cons, hc, if_false] at this ⊢
    simp [this]

theorem PlainKey.noLB {k : Str} (h : PlainKey k) : ∀ c ∈ k, c ≠ '[' :=
  fun c hc => (plainChar_ne (h.chars c hc)).2.1

theorem insLB_bracket (n : Nat) : insLB (bracket (natRepr n)) = '/' :: bracket (natRepr n) := by
  have h1 : insLB (natRepr n) = natRepr n := insLB_id _ (natStr_noLB n)
  have : bracket (natRepr n) = ['['] ++ natRepr n ++ [']'] := by simp [bracket]
  rw [this, insLB_append, insLB_append, h1]
  simp [insLB]

theorem insLB_render : ∀ (p : Pos), PlainPos p → insLB (renderPos p) = renderIns p
  | [], _ => rfl
  | .key k :: rest, hp => by
    have : renderPos (.key k :: rest) = ['/'] ++ k ++ renderPos rest := by simp [renderPos, renderSeg]
    rw [this, insLB_append, insLB_append, insLB_id k (PlainKey.noLB hp.1), insLB_render rest hp.2]
    simp [renderIns, tokOf, insLB]
  | .idx n :: rest, hp => by
    have : renderPos (.idx n :: rest) = bracket (natRepr n) ++ renderPos rest := by simp [renderPos, renderSeg, natStr]
    rw [this, insLB_append, insLB_bracket, insLB_render rest hp]
    simp [renderIns, tokOf]

theorem replSS_cons_ne (c : Char) (s : Str) (h : c ≠ '/') : replSS (c :: s) = c :: replSS s := by
  rw [replSS]
  intro rest hc _; exact absurd hc h

theorem replSS_slash_ne (c : Char) (s : Str) (h : c ≠ '/') : replSS ('/' :: c :: s) = '/' :: replSS (c :: s) := by
  rw [replSS]
  intro rest _ hc; simp at hc; exact absurd hc.1 h

theorem replSS_append_noSlash (s t : Str) (h : ∀ c ∈ s, c ≠ '/') : replSS (s ++ t) = s ++ replSS t := by
  induction s with
  | nil => rfl
  | cons c s ih =>
    rw [List.cons_append, replSS_cons_ne c _ (h c (by simp)), ih (fun x hx => h x (by simp [hx]))]
    rfl

/-- a token of an exact path: non-empty, no '/', does not start with '/' -/
theorem tokOf_facts {s : Seg} (hs : PlainPos [s]) :
    (∀ c ∈ tokOf s, c ≠ '/') ∧ ∃ c r, tokOf s = c :: r := by
  cases s with
  | key k =>
    obtain ⟨c, r, hk, _, _⟩ := PlainKey.head_ne hs.1
    exact ⟨hs.1.noSlash, c, r, hk⟩
  | idx n => exact ⟨bracket_noSlash n, '[', _, rfl⟩

theorem replSS_renderIns : ∀ (p : Pos), PlainPos p → replSS (renderIns p) = renderIns p
  | [], _ => rfl
  | s :: rest, hp => by
    have hs : PlainPos [s] := by cases s <;> simp_all [PlainPos]
    have hr : PlainPos rest := by cases s <;> simp_all [PlainPos]
    obtain ⟨hno, c, r, hcr⟩ := tokOf_facts hs
    have hc : c ≠ '/' := hno c (by rw [hcr]; simp)
    have : renderIns (s :: rest) = '/' :: (tokOf s ++ renderIns rest) := by simp [renderIns]
    rw [this, hcr, List.cons_append, replSS_slash_ne c _ hc, ← List.cons_append, ← hcr,
      replSS_append_noSlash _ _ hno, replSS_renderIns rest hr]

theorem splitChar_renderIns : ∀ (p : Pos), PlainPos p → ∀ (cur : Str), (∀ c ∈ cur, c ≠ '/') →
    splitChar '/' (cur ++ renderIns p) = cur :: toksOf p
  | [], _, cur, hc => by simp [renderIns, toksOf, splitChar_no_delim '/' cur hc]
  | s :: rest, hp, cur, hc => by
    have hs : PlainPos [s] := by cases s <;> simp_all [PlainPos]
    have hr : PlainPos rest := by cases s <;> simp_all [PlainPos]
    have : renderIns (s :: rest) = '/' :: (tokOf s ++ renderIns rest) := by simp [renderIns]
    rw [this, splitChar_append '/' cur _ hc, splitChar_renderIns rest hr _ (tokOf_facts hs).1]
    simp [toksOf]

theorem toksOf_nonempty : ∀ (p : Pos), PlainPos p → (toksOf p).filter (fun t => !t.isEmpty) = toksOf p
  | [], _ => rfl
  | s :: rest, hp => by
    have hs : PlainPos [s] := by cases s <;> simp_all [PlainPos]
    have hr : PlainPos rest := by cases s <;> simp_all [PlainPos]
    obtain ⟨_, c, r, hcr⟩ := tokOf_facts hs
    simp only [toksOf, List.map_cons, List.filter_cons, hcr, List.isEmpty_cons, Bool.not_false, if_true]
    have := toksOf_nonempty rest hr
    simp only [toksOf] at this
    rw [this]

/-- **string layer of the exact-path theorem**: `findall` turns the canonical xpath of a position
below a dict root into one token per key and one per index -/
theorem tokens_render (k : Str) (rest : Pos) (hp : PlainPos (.key k :: rest)) :
    tokens (slash ++ renderPos (.key k :: rest)) = toksOf (.key k :: rest) := by
  obtain ⟨c, r, rfl, hc1, hc2⟩ := PlainKey.head_ne hp.1
  have hform : slash ++ renderPos (.key (c :: r) :: rest) = '/' :: '/' :: c :: (r ++ renderPos rest) := by
    simp [slash, renderPos, renderSeg]
  have hnorm : normExpr (slash ++ renderPos (.key (c :: r) :: rest)) = (c :: r) ++ renderPos rest := by
    rw [hform]
    simp [normExpr, startsWith, hc1]
  unfold tokens
  rw [hnorm, insLB_append, insLB_id _ (PlainKey.noLB hp.1), insLB_render rest hp.2,
    replSS_append_noSlash _ _ hp.1.noSlash, replSS_renderIns rest hp.2,
    splitChar_renderIns rest hp.2 _ hp.1.noSlash]
  have := toksOf_nonempty (.key (c :: r) :: rest) hp
  simpa [toksOf, tokOf] using this

theorem tokens_root : tokens slash = [] := by decide


/-! ## every value returned is a node of the tree searched -/

/-- `v` occurs in `t`: it is `t` itself, an element of a list that occurs in `t`, or the value of
an entry of a dictionary that occurs in `t` -/
inductive Sub (t : Val) : Val → Prop
  | refl : Sub t t
  | elem {c : Cls} {xs : List Val} {x : Val} : Sub t (.list c xs) → x ∈ xs → Sub t x
  | entry {c : Cls} {kvs : List (Str × Val)} {k : Str} {x : Val} : Sub t (.dict c kvs) → (k, x) ∈ kvs → Sub t x

def AllSub (t : Val) (l : List (Str × Val)) : Prop := ∀ kv ∈ l, Sub t kv.2

theorem lookup_mem {k : Str} {l : List (Str × Val)} {v : Val} (h : lookup k l = some v) : ∃ k', (k', v) ∈ l := by
  induction l with
  | nil => simp [lookup] at h
  | cons kv r ih =>
    obtain ⟨k', x⟩ := kv
    simp only [lookup] at h
    split at h
    · cases h; exact ⟨k', by simp⟩
    · obtain ⟨k'', hm⟩ := ih h; exact ⟨k'', by simp [hm]⟩

theorem mem_kvSet {k : Str} {v : Val} {l : List (Str × Val)} {kv : Str × Val} (h : kv ∈ kvSet k v l) :
    kv.2 = v ∨ kv ∈ l := by
  induction l with
  | nil => simp [kvSet] at h; subst h; exact Or.inl rfl
  | cons e r ih =>
    obtain ⟨k', x⟩ := e
    simp only [kvSet] at h
    split at h
    · simp only [List.mem_cons] at h
      rcases h with h | h
      · subst h; exact Or.inl rfl
      · exact Or.inr (by simp [h])
    · simp only [List.mem_cons] at h
      rcases h with h | h
      · exact Or.inr (by simp [h])
      · rcases ih h with h' | h'
        · exact Or.inl h'
        · exact Or.inr (by simp [h'])

theorem AllSub.push {t : Val} {ps : PS} (h : AllSub t ps) (fl : FL) {node : Val} (hn : Sub t node) :
    AllSub t (push ps fl node) := by
  intro kv hkv
  rcases mem_kvSet hkv with h' | h'
  · rw [h']; exact hn
  · exact h kv h'

theorem AllSub.upd {t : Val} {acc : Found} (h : AllSub t acc) {f : Option Found}
    (hf : ∀ f', f = some f' → AllSub t f') : AllSub t (upd acc f) := by
  cases f with
  | none => exact h
  | some l =>
    have hl := hf l rfl
    simp only [FindAll.upd]
    clear hf
    induction l generalizing acc with
    | nil => exact h
    | cons e r ih =>
      simp only [List.foldl_cons]
      apply ih
      · intro kv hkv
        rcases mem_kvSet hkv with h' | h'
        · rw [h']; exact hl e (by simp)
        · exact h kv h'
      · intro kv hkv; exact hl kv (by simp [hkv])

theorem starLoop_sub {t : Val} (call : Val → FL → Out) (re : Bool) (last : Str) :
    ∀ (xs : List Val), (∀ c ∈ xs, ∀ cur f, (call c cur).res = .ok (some f) → AllSub t f) →
      ∀ (i : Nat) (cur : FL) (acc : Found), AllSub t acc →
      ∀ f, (starLoop call re last i xs cur acc).1 = .ok (some f) → AllSub t f := by
  intro xs
  induction xs with
  | nil => intro _ i cur acc ha f h; simp only [starLoop] at h; cases h; exact ha
  | cons c cs ih =>
    intro hc i cur acc ha f h
    simp only [starLoop] at h
    split at h
    · split at h
      · cases h
      · rename_i f1 hres
        exact ih (fun c' hc' => hc c' (by simp [hc'])) _ _ _
          (ha.upd (fun f' hf' => hc c (by simp) _ f' (by rw [hres, hf']))) f h
    · cases re <;> simp [raiseOr] at h

theorem keysLoop_sub {t : Val} (call : Str → Val → Out) :
    ∀ (kvs : List (Str × Val)), (∀ kc ∈ kvs, ∀ f, (call kc.1 kc.2).res = .ok (some f) → AllSub t f) →
      ∀ (acc : Found), AllSub t acc →
      ∀ f, keysLoop call kvs acc = .ok (some f) → AllSub t f := by
  intro kvs
  induction kvs with
  | nil => intro _ acc ha f h; simp only [keysLoop] at h; cases h; exact ha
  | cons e r ih =>
    obtain ⟨k, c⟩ := e
    intro hc acc ha f h
    simp only [keysLoop] at h
    split at h
    · split at h
      · cases h
      · rename_i f1 hres
        exact ih (fun kc hkc => hc kc (by simp [hkc])) _
          (ha.upd (fun f' hf' => hc (k, c) (by simp) f' (by rw [hres, hf']))) f h
    · exact ih (fun kc hkc => hc kc (by simp [hkc])) _ ha f h

/-- what the function used for the recursive calls must satisfy -/
def RecSub (t : Val) (rec : Val → List Str → FL → PS → Out) : Prop :=
  ∀ n toks fl ps, Sub t n → AllSub t ps → ∀ f, (rec n toks fl ps).res = .ok (some f) → AllSub t f

theorem step_sub {t : Val} {rec : Val → List Str → FL → PS → Out} (hr : RecSub t rec) (hp : PsInv rec) (re : Bool)
    (node : Val) (toks : List Str) (fl : FL) (ps : PS) (hn : Sub t node) (hps : AllSub t ps)
    (f : Found) (h : (step rec re node toks fl ps).res = .ok (some f)) : AllSub t f := by
  unfold step at h
  split at h
  · simp only [Except.ok.injEq, Option.some.injEq] at h
    subst h
    intro kv hkv; simp only [List.mem_singleton] at hkv; subst hkv; exact hn
  · split at h
    · -- '..'
      unfold stepUp at h
      split at h
      · cases re <;> simp [raiseOr] at h
      · rename_i target hl
        split at hl
        · cases hl
        · obtain ⟨k', hm⟩ := lookup_mem hl
          exact hr _ _ _ _ (hps _ hm) hps f h
    · cases h
    · -- text()
      rcases stepText_cases rec node _ _ _ fl ps with h' | h' | ⟨_, h'⟩ <;> rw [h'] at h
      · cases h
      · cases h
      · exact hr _ _ _ _ hn (hps.push _ hn) f h
    · -- index
      unfold stepIdx at h
      split at h
      · split at h
        · cases re <;> simp [raiseOr] at h
        · split at h
          · cases h
          · split at h
            · rename_i hx _
              exact hr _ _ _ _ (hn.elem (List.mem_of_getElem? hx)) (hps.push _ hn) f h
            · cases re <;> simp [raiseOr] at h
      · split at h <;> cases re <;> simp [raiseOr] at h
      · cases h
    · -- [*]
      unfold stepStar at h
      split at h
      · rename_i c xs
        simp only at h
        refine starLoop_sub _ re _ xs ?_ 0 _ [] (by intro kv hkv; cases hkv) f h
        intro c hc cur f' hf'
        exact hr _ _ _ _ (hn.elem hc) (hps.push _ hn) f' hf'
      · cases re <;> simp [raiseOr] at h
      · cases h
    · -- name
      unfold stepName at h
      split at h
      · exact hr _ _ _ _ hn hps f h
      · rename_i c kvs
        split at h
        · cases re <;> simp [raiseOr] at h
        · split at h
          · simp only at h
            split at h
            · cases h
            · rename_i f1 hres
              simp only at h
              have h1 : AllSub t (upd [] f1) :=
                AllSub.upd (by intro kv hkv; cases hkv) (fun f' hf' => hr _ _ _ _ hn hps f' (by rw [hres, hf']))
              refine keysLoop_sub _ kvs ?_ _ h1 f h
              intro kc hkc f' hf'
              exact hr _ _ _ _ (hn.entry (k := kc.1) hkc) (AllSub.push (by rw [hp]; exact hps) _ hn) f' hf'
          · split at h
            · rename_i x hl
              obtain ⟨k', hm⟩ := lookup_mem hl
              exact hr _ _ _ _ (hn.entry hm) (hps.push _ hn) f h
            · cases h
      · cases h

theorem fa_sub (t : Val) (re : Bool) : ∀ fuel, RecSub t (fa re fuel) := by
  intro fuel
  induction fuel with
  | zero => intro n toks fl ps _ _ f h; cases h
  | succ k ih =>
    intro n toks fl ps hn hps f h
    exact step_sub ih (fun n t f p => fa_ps re k n t f p) re n toks fl ps hn hps f h


/-! ## a call changes at most the last element of the list object it received -/

def FlDL (rec : Val → List Str → FL → PS → Out) : Prop := ∀ n t f p, (rec n t f p).fl.dropLast = f.dropLast

theorem setLast_dropLast (fl : FL) (s : Str) : (setLast fl s).dropLast = fl.dropLast := by
  simp [setLast]

theorem starLoop_dl (call : Val → FL → Out) (re : Bool) (last : Str)
    (hc : ∀ c cur, (call c cur).fl.dropLast = cur.dropLast) :
    ∀ (xs : List Val) (i : Nat) (cur : FL) (acc : Found),
      (starLoop call re last i xs cur acc).2.dropLast = cur.dropLast := by
  intro xs
  induction xs with
  | nil => intros; rfl
  | cons c cs ih =>
    intro i cur acc
    simp only [starLoop]
    split
    · split
      · simp only [hc, setLast_dropLast]
      · rw [ih, hc, setLast_dropLast]
    · rfl

section
variable {rec : Val → List Str → FL → PS → Out} (re : Bool)

theorem step_dl (h : FlDL rec) (node : Val) (toks : List Str) (fl : FL) (ps : PS) :
    (step rec re node toks fl ps).fl.dropLast = fl.dropLast := by
  unfold step
  split
  · rfl
  · split
    · unfold stepUp; split <;> rfl
    · rfl
    · unfold stepText
      repeat' split
      all_goals first | rfl | (simp only [h _ _ _ _])
    · unfold stepIdx
      repeat' split
      all_goals first | rfl | (simp only [h _ _ _ _, setLast_dropLast]; done) | (simp only [h _ _ _ _, setLast_dropLast]; simp_all)
    · unfold stepStar
      repeat' split
      all_goals first | rfl | (simp only [starLoop_dl _ re _ (fun c cur => h _ _ _ _)]; done) | (simp only [starLoop_dl _ re _ (fun c cur => h _ _ _ _)]; simp_all)
    · unfold stepName
      repeat' split
      all_goals first | rfl | exact h _ _ _ _ | (dsimp only; split <;> exact h _ _ _ _)
end

theorem fa_dl (re : Bool) : ∀ (fuel : Nat), FlDL (fa re fuel) := by
  intro fuel
  induction fuel with
  | zero => intro _ _ _ _; rfl
  | succ k ih => intro n t f p; exact step_dl re ih n t f p

/-! ## fan-out over a list of containers -/

/-- merge the outcomes of the elements in order: the first exception wins -/
def mergeAll : List (PyM (Option Found)) → Found → PyM (Option Found)
  | [], acc => .ok (some acc)
  | .error e :: _, _ => .error e
  | .ok f :: rest, acc => mergeAll rest (upd acc f)

/-- the outcomes of the elements `i, i+1, …`, each searched with the path `base ++ [last ++ "[i]"]` -/
def fanCalls (call : Val → FL → Out) (base : FL) (last : Str) : Nat → List Val → List (PyM (Option Found))
  | _, [] => []
  | i, c :: cs => (call c (base ++ [last ++ bracket (natRepr i)])).res :: fanCalls call base last (i + 1) cs

theorem starLoop_fan (call : Val → FL → Out) (re : Bool) (last : Str)
    (hc : ∀ c cur, (call c cur).fl.dropLast = cur.dropLast) :
    ∀ (xs : List Val), (∀ c ∈ xs, isContainer c = true) → ∀ (i : Nat) (cur : FL) (acc : Found),
      (starLoop call re last i xs cur acc).1 = mergeAll (fanCalls call cur.dropLast last i xs) acc := by
  intro xs
  induction xs with
  | nil => intros; rfl
  | cons c cs ih =>
    intro hall i cur acc
    have hcc : isContainer c = true := hall c (by simp)
    simp only [starLoop, hcc, if_true, fanCalls, setLast]
    cases hres : (call c (cur.dropLast ++ [last ++ bracket (natRepr i)])).res with
    | error e => simp [mergeAll]
    | ok f =>
      simp only [mergeAll]
      rw [ih (fun c' hc' => hall c' (by simp [hc'])), hc]
      simp

end N0.FindAll
