import N0Verif.Model.Files
import N0Verif.Py.Lemmas
/-!
  Helper lemmas for C15 (`Props/C15.lean`): the codec assumptions, the text layer
  (universal newlines, readline), and the evaluation of `saveFile` / `loadFile` /
  `loadLines` on the modes the property quantifies over.
-/
namespace N0.Files
open N0 N0.Py

/-! ### assumptions on the codec -/

def IsAscii (s : Str) : Prop := ∀ ch ∈ s, ch.toNat < 128

/-- What the theorems assume about `encoding`: the body encoder is stateless and works
character by character, is ASCII-compatible (an ASCII character is its own byte, the bytes of
any other character and of the start-of-stream mark are ≥ 0x80), and decoding inverts
encoding on encodable text. -/
structure Codec.Good (c : Codec) : Prop where
  enc_nil : c.enc [] = some []
  enc_cons : ∀ ch s, c.enc (ch :: s) = (c.enc [ch]).bind (fun a => (c.enc s).map (fun b => a ++ b))
  ascii : ∀ ch, ch.toNat < 128 → c.enc [ch] = some [ch]
  high : ∀ ch b, 128 ≤ ch.toNat → c.enc [ch] = some b → ∀ x ∈ b, 128 ≤ x.toNat
  bom_high : ∀ x ∈ c.bom, 128 ≤ x.toNat
  dec_enc : ∀ s b, c.enc s = some b → c.dec b = some s

namespace Codec.Good
variable {c : Codec} (g : c.Good)
include g

theorem enc_append (s t : Str) :
    c.enc (s ++ t) = (c.enc s).bind (fun a => (c.enc t).map (fun b => a ++ b)) := by
  induction s with
  | nil =>
    rw [g.enc_nil]
    cases h : c.enc t <;> simp [h]
  | cons ch s ih =>
    rw [List.cons_append, g.enc_cons, ih, g.enc_cons ch s]
    cases h1 : c.enc [ch] <;> cases h2 : c.enc s <;> cases h3 : c.enc t <;> simp

theorem enc_append_some {s t : Str} {y : Bytes} (h : c.enc (s ++ t) = some y) :
    ∃ y1 y2, c.enc s = some y1 ∧ c.enc t = some y2 ∧ y = y1 ++ y2 := by
  rw [g.enc_append] at h
  cases h1 : c.enc s with
  | none => simp [h1] at h
  | some y1 =>
    cases h2 : c.enc t with
    | none => simp [h1, h2] at h
    | some y2 =>
      simp [h1, h2] at h
      exact ⟨y1, y2, rfl, rfl, h.symm⟩

theorem enc_append_of {s t : Str} {y1 y2 : Bytes} (h1 : c.enc s = some y1) (h2 : c.enc t = some y2) :
    c.enc (s ++ t) = some (y1 ++ y2) := by
  rw [g.enc_append, h1, h2]; rfl

theorem enc_ascii (s : Str) (h : IsAscii s) : c.enc s = some s := by
  induction s with
  | nil => exact g.enc_nil
  | cons ch s ih =>
    have h1 := g.ascii ch (h ch (by simp))
    have h2 := ih (fun x hx => h x (by simp [hx]))
    have := g.enc_append_of h1 h2
    simpa using this

/-- `b.decode(encoding)` of an encoded text: the mark is skipped -/
theorem decode_bom_enc {s : Str} {y : Bytes} (h : c.enc s = some y) : c.decode (c.bom ++ y) = some s := by
  unfold Codec.decode
  rw [startsWith_append, if_pos rfl, List.drop_left]
  exact g.dec_enc s y h

end Codec.Good

/-- a file that starts with the whole mark is decoded by the text layer as by `bytes.decode` -/
theorem decodeStream_bom_append (c : Codec) (y : Bytes) : c.decodeStream (c.bom ++ y) = c.decode (c.bom ++ y) := by
  unfold Codec.decodeStream
  have h : decide ((c.bom ++ y).length < c.bom.length) = false := by simp
  rw [h]; rfl

/-! ### utf-8 of an ASCII string -/

theorem utf8Enc_ascii (s : Str) (h : IsAscii s) : utf8Enc s = s := by
  induction s with
  | nil => rfl
  | cons ch s ih =>
    have h1 : ch.toNat < 128 := h ch (by simp)
    have h2 := ih (fun x hx => h x (by simp [hx]))
    unfold utf8Enc at h2 ⊢
    simp only [List.flatMap_cons, h2]
    simp [utf8EncChar, h1]

/-! ### universal newlines -/

def NoCR (s : Str) : Prop := '\r' ∉ s
def NoLF (s : Str) : Prop := '\n' ∉ s

theorem univNL_cons_ne (c : Char) (s : Str) (h : c ≠ '\r') : univNL (c :: s) = c :: univNL s := by
  cases s with
  | nil => simp [univNL, h]
  | cons d s => simp [univNL, h]

theorem univNL_crlf (s : Str) : univNL ('\r' :: '\n' :: s) = '\n' :: univNL s := by
  simp [univNL]

theorem univNL_cr (s : Str) (h : s.head? ≠ some '\n') : univNL ('\r' :: s) = '\n' :: univNL s := by
  cases s with
  | nil => simp [univNL]
  | cons d s =>
    have hd : d ≠ '\n' := by simpa using h
    simp [univNL, hd]

theorem univNL_of_noCR (s : Str) (h : NoCR s) : univNL s = s := by
  induction s with
  | nil => rfl
  | cons c s ih =>
    have hc : c ≠ '\r' := fun e => h (by simp [e])
    rw [univNL_cons_ne _ _ hc, ih (fun hm => h (by simp [hm]))]

theorem no_lf_replace_cr (t : Str) : '\n' ∉ replace lf cr t := by
  induction t with
  | nil => simp [replace_nil]
  | cons c t ih =>
    by_cases hc : c = '\n'
    · subst hc
      rw [show lf = ['\n'] from rfl, replace_lf_cons_lf]
      simp only [cr, List.cons_append, List.nil_append, List.mem_cons, not_or]
      exact ⟨by decide, ih⟩
    · rw [show lf = ['\n'] from rfl, replace_lf_cons_ne _ _ _ hc]
      simp only [List.mem_cons, not_or]
      exact ⟨fun e => hc e.symm, ih⟩

/-- reading back what the text layer (or the manual replacement) wrote with a standard EOL -/
theorem univNL_replace (eol text : Str) (he : isStdEol eol = true) (h : NoCR text) :
    univNL (replace lf eol text) = text := by
  have he' : (eol = crlf ∨ eol = lf) ∨ eol = cr := by
    simpa [isStdEol, Bool.or_eq_true] using he
  rcases he' with (rfl | rfl) | rfl
  · induction text with
    | nil => simp [replace_nil, univNL]
    | cons c t ih =>
      have iht := ih (fun hm => h (by simp [hm]))
      by_cases hc : c = '\n'
      · subst hc
        rw [show lf = ['\n'] from rfl, replace_lf_cons_lf]
        show univNL ('\r' :: '\n' :: replace ['\n'] crlf t) = _
        rw [univNL_crlf]; exact congrArg _ iht
      · rw [show lf = ['\n'] from rfl, replace_lf_cons_ne _ _ _ hc,
          univNL_cons_ne _ _ (fun e => h (by simp [e]))]
        exact congrArg _ iht
  · rw [show lf = ['\n'] from rfl, replace_lf_lf]; exact univNL_of_noCR _ h
  · induction text with
    | nil => simp [replace_nil, univNL]
    | cons c t ih =>
      have iht := ih (fun hm => h (by simp [hm]))
      by_cases hc : c = '\n'
      · subst hc
        rw [show lf = ['\n'] from rfl, replace_lf_cons_lf]
        show univNL ('\r' :: replace ['\n'] cr t) = _
        rw [univNL_cr]
        · exact congrArg _ iht
        · intro hh
          have := no_lf_replace_cr t
          apply this
          cases hr : replace lf cr t with
          | nil => rw [show lf = ['\n'] from rfl] at hr; rw [hr] at hh; simp at hh
          | cons d r =>
            rw [show lf = ['\n'] from rfl] at hr; rw [hr] at hh
            simp at hh; simp [hh]
      · rw [show lf = ['\n'] from rfl, replace_lf_cons_ne _ _ _ hc,
          univNL_cons_ne _ _ (fun e => h (by simp [e]))]
        exact congrArg _ iht

/-! ### readline -/

/-- the text a list of lines stands for: every line followed by `'\n'` -/
def unlines (ls : List Str) : Str := ls.flatMap (fun l => l ++ lf)

theorem textLines_line (l rest : Str) (h : NoLF l) :
    textLines (l ++ '\n' :: rest) = (l ++ ['\n']) :: textLines rest := by
  induction l with
  | nil => simp [textLines]
  | cons c l ih =>
    have hc : c ≠ '\n' := fun e => h (by simp [e])
    have := ih (fun hm => h (by simp [hm]))
    simp only [List.cons_append, textLines, hc, if_false, this]

theorem textLines_unlines (ls : List Str) (h : ∀ l ∈ ls, NoLF l) :
    textLines (unlines ls) = ls.map (fun l => l ++ lf) := by
  induction ls with
  | nil => rfl
  | cons l ls ih =>
    have := ih (fun x hx => h x (by simp [hx]))
    unfold unlines at this ⊢
    simp only [List.flatMap_cons, List.map_cons, lf, List.append_assoc, List.cons_append, List.nil_append]
    rw [textLines_line _ _ (h l (by simp))]
    simp only [lf] at this
    rw [this]

theorem rstrip_line (l : Str) (h1 : NoCR l) (h2 : NoLF l) : rstrip crlf (l ++ lf) = l := by
  apply rstrip_append_of_all
  · intro ch hch; simp [lf] at hch; subst hch; decide
  · intro ch hch
    have hm : ch ∈ l := List.mem_of_getLast? hch
    have a : ch ≠ '\r' := fun e => h1 (e ▸ hm)
    have b : ch ≠ '\n' := fun e => h2 (e ▸ hm)
    simp [crlf, a, b]

theorem noCR_unlines (ls : List Str) (h : ∀ l ∈ ls, NoCR l) : NoCR (unlines ls) := by
  unfold NoCR unlines
  simp only [List.mem_flatMap, not_exists, not_and]
  intro l hl hm
  simp only [lf, List.mem_append, List.mem_singleton] at hm
  rcases hm with hm | hm
  · exact h l hl hm
  · exact absurd hm (by decide)

/-! ### `open()` on the modes that occur -/

def mWT : Str := ['w', 't']
def mWB : Str := ['w', 'b']
def mAT : Str := ['a', 't']
def mAB : Str := ['a', 'b']

theorem parse_wt : parseMode ['w', 't'] = .ok ⟨.w, false, false⟩ := by decide
theorem parse_wb : parseMode ['w', 'b'] = .ok ⟨.w, false, true⟩ := by decide
theorem parse_at : parseMode ['a', 't'] = .ok ⟨.a, false, false⟩ := by decide
theorem parse_ab : parseMode ['a', 'b'] = .ok ⟨.a, false, true⟩ := by decide
theorem parse_rt : parseMode ['r', 't'] = .ok ⟨.r, false, false⟩ := by decide
theorem parse_rb : parseMode ['r', 'b'] = .ok ⟨.r, false, true⟩ := by decide

/-- the five save modes of the property: `t`, `b`, `wt`, `wb`, `at` -/
def SaveMode (m : Str) : Prop :=
  m = ['t'] ∨ m = ['b'] ∨ m = ['w', 't'] ∨ m = ['w', 'b'] ∨ m = ['a', 't']

/-- the content the new data is added to: the existing file for `at`, nothing otherwise -/
def startContent (fs : FS) (p m : Str) : Bytes := if m = ['a', 't'] then (fs p).getD [] else []

/-- the payload goes through Python's text layer: text mode and a standard EOL -/
def textLayer (m eol : Str) : Bool := (m == ['t'] || m == ['w', 't'] || m == ['a', 't']) && isStdEol eol

/-- the start-of-stream mark `save_file` puts in front of an encoded text payload: it is omitted
when the data is appended to a non-empty file — by Python's text layer, and (fix `C15-a`) by the
manual path as well -/
def mark (c : Codec) (fs : FS) (p m : Str) : Bytes :=
  if (startContent fs p m).isEmpty then c.bom else []

theorem saveText_s (c : Codec) (fs : FS) (p x mode2 eol : Str) (om : OpenMode) (content y : Bytes)
    (hp : parseMode mode2 = .ok om) (hk : openOut fs p om = .ok content)
    (henc : c.enc (replace lf eol x) = some y) :
    saveText c fs p (.s x) mode2 eol
      = (fs.write p (content ++ (if content.isEmpty then c.bom else []) ++ y), .ok ()) := by
  unfold saveText
  simp [hp, bind, Except.bind, hk, writeAll, Out.write, henc, finish]

theorem saveBinary_s (c : Codec) (fs : FS) (p x mode2 mode3 eol : Str) (om : OpenMode) (content y e : Bytes)
    (hs : setB mode2 = .ok mode3) (hp : parseMode mode3 = .ok om) (hk : openOut fs p om = .ok content)
    (henc : c.enc (replace lf eol x) = some y) (heol : c.enc eol = some e) :
    saveBinary c fs p (.s x) mode2 eol
      = (fs.write p (content ++ (if content.isEmpty then c.bom else []) ++ y), .ok ()) := by
  unfold saveBinary
  simp [hs, hp, bind, Except.bind, hk, writeAll, Out.write, henc, heol, finish, Buf.isBytes]

theorem saveBinary_b (c : Codec) (fs : FS) (p mode2 mode3 eol : Str) (om : OpenMode) (content b e : Bytes)
    (hs : setB mode2 = .ok mode3) (hp : parseMode mode3 = .ok om) (hk : openOut fs p om = .ok content)
    (heol : c.enc eol = some e) :
    saveBinary c fs p (.b b) mode2 eol = (fs.write p (content ++ b), .ok ()) := by
  unfold saveBinary
  simp [hs, hp, bind, Except.bind, hk, writeAll, Out.write, heol, finish, Codec.encode, Buf.isBytes]

/-- **`save_file` of a `str`** under the five modes and every EOL -/
theorem saveFile_str (c : Codec) (fs : FS) (p x m eol tag : Str) (y e : Bytes) (hm : SaveMode m)
    (henc : c.enc (replace lf eol x) = some y) (heol : c.enc eol = some e) :
    saveFile c fs p (.str x) m eol tag
      = (fs.write p (startContent fs p m ++ mark c fs p m ++ y), .ok ()) := by
  by_cases hstd : isStdEol eol = true
  · rcases hm with rfl | rfl | rfl | rfl | rfl
    · have hn : normMode ['t'] false = .ok ['w', 't'] := by decide
      simp only [saveFile, Payload.isBytes, hn, toBuf, hstd]
      rw [show (['w', 't'] : Str).contains 'b' = false by decide]
      simp only [Bool.not_true, Bool.or_false, Bool.false_eq_true, if_false]
      rw [saveText_s c fs p x _ eol _ [] y parse_wt rfl henc]
      simp [startContent, mark]
    · have hn : normMode ['b'] false = .ok ['w', 'b'] := by decide
      simp only [saveFile, Payload.isBytes, hn, toBuf, hstd]
      rw [show (['w', 'b'] : Str).contains 'b' = true by decide]
      simp only [Bool.true_or, if_true]
      rw [saveBinary_s c fs p x _ ['w', 'b'] eol _ [] y e (by decide) parse_wb rfl henc heol]
      simp [startContent, mark]
    · have hn : normMode ['w', 't'] false = .ok ['w', 't'] := by decide
      simp only [saveFile, Payload.isBytes, hn, toBuf, hstd]
      rw [show (['w', 't'] : Str).contains 'b' = false by decide]
      simp only [Bool.not_true, Bool.or_false, Bool.false_eq_true, if_false]
      rw [saveText_s c fs p x _ eol _ [] y parse_wt rfl henc]
      simp [startContent, mark]
    · have hn : normMode ['w', 'b'] false = .ok ['w', 'b'] := by decide
      simp only [saveFile, Payload.isBytes, hn, toBuf, hstd]
      rw [show (['w', 'b'] : Str).contains 'b' = true by decide]
      simp only [Bool.true_or, if_true]
      rw [saveBinary_s c fs p x _ ['w', 'b'] eol _ [] y e (by decide) parse_wb rfl henc heol]
      simp [startContent, mark]
    · have hn : normMode ['a', 't'] false = .ok ['a', 't'] := by decide
      simp only [saveFile, Payload.isBytes, hn, toBuf, hstd]
      rw [show (['a', 't'] : Str).contains 'b' = false by decide]
      simp only [Bool.not_true, Bool.or_false, Bool.false_eq_true, if_false]
      rw [saveText_s c fs p x _ eol _ ((fs p).getD []) y parse_at rfl henc]
      cases hfs : (fs p).getD [] <;> simp [startContent, mark, hfs]
  · have hstd' : isStdEol eol = false := by simpa using hstd
    rcases hm with rfl | rfl | rfl | rfl | rfl
    · have hn : normMode ['t'] false = .ok ['w', 't'] := by decide
      simp only [saveFile, Payload.isBytes, hn, toBuf, hstd']
      simp only [Bool.not_false, Bool.or_true, if_true]
      rw [saveBinary_s c fs p x _ ['w', 'b'] eol _ [] y e (by decide) parse_wb rfl henc heol]
      simp [startContent, mark]
    · have hn : normMode ['b'] false = .ok ['w', 'b'] := by decide
      simp only [saveFile, Payload.isBytes, hn, toBuf, hstd']
      simp only [Bool.not_false, Bool.or_true, if_true]
      rw [saveBinary_s c fs p x _ ['w', 'b'] eol _ [] y e (by decide) parse_wb rfl henc heol]
      simp [startContent, mark]
    · have hn : normMode ['w', 't'] false = .ok ['w', 't'] := by decide
      simp only [saveFile, Payload.isBytes, hn, toBuf, hstd']
      simp only [Bool.not_false, Bool.or_true, if_true]
      rw [saveBinary_s c fs p x _ ['w', 'b'] eol _ [] y e (by decide) parse_wb rfl henc heol]
      simp [startContent, mark]
    · have hn : normMode ['w', 'b'] false = .ok ['w', 'b'] := by decide
      simp only [saveFile, Payload.isBytes, hn, toBuf, hstd']
      simp only [Bool.not_false, Bool.or_true, if_true]
      rw [saveBinary_s c fs p x _ ['w', 'b'] eol _ [] y e (by decide) parse_wb rfl henc heol]
      simp [startContent, mark]
    · have hn : normMode ['a', 't'] false = .ok ['a', 't'] := by decide
      simp only [saveFile, Payload.isBytes, hn, toBuf, hstd']
      simp only [Bool.not_false, Bool.or_true, if_true]
      rw [saveBinary_s c fs p x _ ['a', 'b'] eol _ ((fs p).getD []) y e (by decide) parse_ab rfl henc heol]
      simp [startContent, mark]

/-- **`save_file` of `bytes`**: stored verbatim under the five modes, every EOL, every codec -/
theorem saveFile_bytes (c : Codec) (fs : FS) (p : Str) (b : Bytes) (m eol tag : Str) (e : Bytes) (hm : SaveMode m)
    (heol : c.enc eol = some e) :
    saveFile c fs p (.bytes b) m eol tag = (fs.write p (startContent fs p m ++ b), .ok ()) := by
  rcases hm with rfl | rfl | rfl | rfl | rfl
  · have hn : normMode ['t'] true = .ok ['w', 'b'] := by decide
    simp only [saveFile, Payload.isBytes, hn, toBuf]
    rw [show (['w', 'b'] : Str).contains 'b' = true by decide]
    simp only [Bool.true_or, if_true]
    rw [saveBinary_b c fs p _ ['w', 'b'] eol _ [] b e (by decide) parse_wb rfl heol]
    simp [startContent]
  · have hn : normMode ['b'] true = .ok ['w', 'b'] := by decide
    simp only [saveFile, Payload.isBytes, hn, toBuf]
    rw [show (['w', 'b'] : Str).contains 'b' = true by decide]
    simp only [Bool.true_or, if_true]
    rw [saveBinary_b c fs p _ ['w', 'b'] eol _ [] b e (by decide) parse_wb rfl heol]
    simp [startContent]
  · have hn : normMode ['w', 't'] true = .ok ['w', 'b'] := by decide
    simp only [saveFile, Payload.isBytes, hn, toBuf]
    rw [show (['w', 'b'] : Str).contains 'b' = true by decide]
    simp only [Bool.true_or, if_true]
    rw [saveBinary_b c fs p _ ['w', 'b'] eol _ [] b e (by decide) parse_wb rfl heol]
    simp [startContent]
  · have hn : normMode ['w', 'b'] true = .ok ['w', 'b'] := by decide
    simp only [saveFile, Payload.isBytes, hn, toBuf]
    rw [show (['w', 'b'] : Str).contains 'b' = true by decide]
    simp only [Bool.true_or, if_true]
    rw [saveBinary_b c fs p _ ['w', 'b'] eol _ [] b e (by decide) parse_wb rfl heol]
    simp [startContent]
  · have hn : normMode ['a', 't'] true = .ok ['a', 'b'] := by decide
    simp only [saveFile, Payload.isBytes, hn, toBuf]
    rw [show (['a', 'b'] : Str).contains 'b' = true by decide]
    simp only [Bool.true_or, if_true]
    rw [saveBinary_b c fs p _ ['a', 'b'] eol _ ((fs p).getD []) b e (by decide) parse_ab rfl heol]
    simp [startContent]

/-- a `dict` is saved as the text `key=value` lines joined by `'\n'` -/
theorem saveFile_dict (c : Codec) (fs : FS) (p : Str) (kvs : List (Str × Str)) (m eol tag : Str) :
    saveFile c fs p (.dict kvs) m eol tag
      = saveFile c fs p (.str (join lf (kvs.map (fun kv => kv.1 ++ tag ++ kv.2)))) m eol tag := rfl

/-! ### lists of lines -/

theorem replace_lf_lf1 (eol : Str) : replace lf eol lf = eol := by
  rw [show lf = ['\n'] from rfl, replace_lf_cons_lf, replace_nil]; simp

theorem replace_lf_noLF (eol l : Str) (h : NoLF l) : replace lf eol l = l :=
  replace_of_not_mem '\n' [] eol l h

theorem replace_unlines_cons (eol l : Str) (ls : List Str) :
    replace lf eol (unlines (l :: ls)) = replace lf eol l ++ (replace lf eol lf ++ replace lf eol (unlines ls)) := by
  have : unlines (l :: ls) = l ++ (lf ++ unlines ls) := by simp [unlines]
  rw [this, show lf = ['\n'] from rfl, replace_lf_append, replace_lf_append]

/-- the `for line in output_buffer` loop through the text layer -/
theorem writeLines_text (c : Codec) (g : c.Good) (eol : Str) (ls : List Str) :
    ∀ (content : Bytes) (fresh : Bool) (y : Bytes), c.enc (replace lf eol (unlines ls)) = some y →
    writeLines c false (.s lf) { content := content, binary := false, fresh := fresh, nl := eol } (ls.map Line.str)
      = ({ content := content ++ (if fresh && !ls.isEmpty then c.bom else []) ++ y, binary := false,
           fresh := fresh && ls.isEmpty, nl := eol }, .ok ()) := by
  induction ls with
  | nil =>
    intro content fresh y h
    have : y = [] := by
      have h' : c.enc [] = some y := by simpa [unlines, replace_nil] using h
      rw [g.enc_nil] at h'; exact (Option.some.inj h').symm
    subst this
    simp [writeLines]
  | cons l ls ih =>
    intro content fresh y h
    rw [replace_unlines_cons] at h
    obtain ⟨y1, y23, h1, h23, rfl⟩ := g.enc_append_some h
    obtain ⟨y2, y3, h2, h3, rfl⟩ := g.enc_append_some h23
    simp only [List.map_cons, writeLines, convLine, Bool.false_eq_true, if_false, Out.write, h1, h2]
    rw [ih _ false y3 h3]
    simp

/-- the same loop on the manual path (fix `C15-a`: every piece is the body encoding, the mark is
written once in front of the first piece of a file without content) -/
theorem writeLines_bin (c : Codec) (g : c.Good) (eol : Str) (e : Bytes) (heol : c.enc eol = some e)
    (ls : List Str) :
    ∀ (content : Bytes) (fresh : Bool) (nl : Str) (y : Bytes), (∀ l ∈ ls, NoLF l) →
    c.enc (replace lf eol (unlines ls)) = some y →
    writeLines c true (.b e) { content := content, binary := true, fresh := fresh, nl := nl } (ls.map Line.str)
      = ({ content := content ++ (if fresh && !ls.isEmpty then c.bom else []) ++ y, binary := true,
           fresh := fresh && ls.isEmpty, nl := nl }, .ok ()) := by
  induction ls with
  | nil =>
    intro content fresh nl y _ h
    have : y = [] := by
      have h' : c.enc [] = some y := by simpa [unlines, replace_nil] using h
      rw [g.enc_nil] at h'; exact (Option.some.inj h').symm
    subst this
    simp [writeLines]
  | cons l ls ih =>
    intro content fresh nl y hl h
    rw [replace_unlines_cons, replace_lf_lf1, replace_lf_noLF _ _ (hl l (by simp))] at h
    obtain ⟨y1, y23, h1, h23, rfl⟩ := g.enc_append_some h
    obtain ⟨y2, y3, h2, h3, rfl⟩ := g.enc_append_some h23
    have : y2 = e := by rw [heol] at h2; exact (Option.some.inj h2).symm
    subst this
    simp only [List.map_cons, writeLines, convLine, if_true, h1, Out.write]
    rw [ih _ false nl y3 (fun x hx => hl x (by simp [hx])) h3]
    simp

theorem saveText_ls (c : Codec) (fs : FS) (p : Str) (xs : List Line) (mode2 eol : Str) (om : OpenMode) (content : Bytes)
    (hp : parseMode mode2 = .ok om) (hk : openOut fs p om = .ok content) :
    saveText c fs p (.ls xs) mode2 eol
      = finish fs p (writeLines c (mode2.contains 'b') (.s lf)
          { content := content, binary := false, fresh := content.isEmpty, nl := eol } xs) := by
  unfold saveText
  simp [hp, bind, Except.bind, hk, writeAll]

theorem saveBinary_ls (c : Codec) (fs : FS) (p : Str) (xs : List Line) (mode2 mode3 eol : Str) (om : OpenMode)
    (content e : Bytes) (hs : setB mode2 = .ok mode3) (hp : parseMode mode3 = .ok om)
    (hk : openOut fs p om = .ok content) (heol : c.enc eol = some e) :
    saveBinary c fs p (.ls xs) mode2 eol
      = finish fs p (writeLines c (mode3.contains 'b') (.b e)
          { content := content, binary := true, fresh := content.isEmpty, nl := [] } xs) := by
  unfold saveBinary
  simp [hs, hp, bind, Except.bind, hk, writeAll, heol, Buf.isBytes]

/-- the text modes: `t`, `wt`, `at` -/
def TextMode (m : Str) : Prop := m = ['t'] ∨ m = ['w', 't'] ∨ m = ['a', 't']

/-- **`save_file` of a list of `str`** through the text layer -/
theorem saveFile_lines_text (c : Codec) (g : c.Good) (fs : FS) (p : Str) (ls : List Str) (m eol tag : Str) (y : Bytes)
    (hm : TextMode m) (hstd : isStdEol eol = true) (henc : c.enc (replace lf eol (unlines ls)) = some y) :
    saveFile c fs p (.lines (ls.map Line.str)) m eol tag
      = (fs.write p (startContent fs p m
          ++ (if (startContent fs p m).isEmpty && !ls.isEmpty then c.bom else []) ++ y), .ok ()) := by
  rcases hm with rfl | rfl | rfl
  · have hn : normMode ['t'] false = .ok ['w', 't'] := by decide
    simp only [saveFile, Payload.isBytes, hn, toBuf, hstd]
    rw [show (['w', 't'] : Str).contains 'b' = false by decide]
    simp only [Bool.not_true, Bool.or_false, Bool.false_eq_true, if_false]
    rw [saveText_ls c fs p _ _ eol _ [] parse_wt rfl]
    rw [show (['w', 't'] : Str).contains 'b' = false by decide, writeLines_text c g eol ls _ _ y henc]
    simp [finish, startContent]
  · have hn : normMode ['w', 't'] false = .ok ['w', 't'] := by decide
    simp only [saveFile, Payload.isBytes, hn, toBuf, hstd]
    rw [show (['w', 't'] : Str).contains 'b' = false by decide]
    simp only [Bool.not_true, Bool.or_false, Bool.false_eq_true, if_false]
    rw [saveText_ls c fs p _ _ eol _ [] parse_wt rfl]
    rw [show (['w', 't'] : Str).contains 'b' = false by decide, writeLines_text c g eol ls _ _ y henc]
    simp [finish, startContent]
  · have hn : normMode ['a', 't'] false = .ok ['a', 't'] := by decide
    simp only [saveFile, Payload.isBytes, hn, toBuf, hstd]
    rw [show (['a', 't'] : Str).contains 'b' = false by decide]
    simp only [Bool.not_true, Bool.or_false, Bool.false_eq_true, if_false]
    rw [saveText_ls c fs p _ _ eol _ ((fs p).getD []) parse_at rfl]
    rw [show (['a', 't'] : Str).contains 'b' = false by decide, writeLines_text c g eol ls _ _ y henc]
    simp [finish, startContent]

/-- **`save_file` of a list of `str`** on the manual path (binary mode or custom EOL) -/
theorem saveFile_lines_bin (c : Codec) (g : c.Good) (fs : FS) (p : Str) (ls : List Str)
    (m eol tag : Str) (y e : Bytes) (hm : SaveMode m) (hpath : textLayer m eol = false)
    (hl : ∀ l ∈ ls, NoLF l) (heol : c.enc eol = some e)
    (henc : c.enc (replace lf eol (unlines ls)) = some y) :
    saveFile c fs p (.lines (ls.map Line.str)) m eol tag
      = (fs.write p (startContent fs p m
          ++ (if (startContent fs p m).isEmpty && !ls.isEmpty then c.bom else []) ++ y), .ok ()) := by
  rcases hm with rfl | rfl | rfl | rfl | rfl
  · have hstd : isStdEol eol = false := by simpa [textLayer] using hpath
    have hn : normMode ['t'] false = .ok ['w', 't'] := by decide
    simp only [saveFile, Payload.isBytes, hn, toBuf, hstd]
    simp only [Bool.not_false, Bool.or_true, if_true]
    rw [saveBinary_ls c fs p _ _ ['w', 'b'] eol _ [] e (by decide) parse_wb rfl heol]
    rw [show (['w', 'b'] : Str).contains 'b' = true by decide, writeLines_bin c g eol e heol ls _ _ _ y hl henc]
    simp [finish, startContent]
  · have hn : normMode ['b'] false = .ok ['w', 'b'] := by decide
    simp only [saveFile, Payload.isBytes, hn, toBuf]
    rw [show (['w', 'b'] : Str).contains 'b' = true by decide]
    simp only [Bool.true_or, if_true]
    rw [saveBinary_ls c fs p _ _ ['w', 'b'] eol _ [] e (by decide) parse_wb rfl heol]
    rw [show (['w', 'b'] : Str).contains 'b' = true by decide, writeLines_bin c g eol e heol ls _ _ _ y hl henc]
    simp [finish, startContent]
  · have hstd : isStdEol eol = false := by simpa [textLayer] using hpath
    have hn : normMode ['w', 't'] false = .ok ['w', 't'] := by decide
    simp only [saveFile, Payload.isBytes, hn, toBuf, hstd]
    simp only [Bool.not_false, Bool.or_true, if_true]
    rw [saveBinary_ls c fs p _ _ ['w', 'b'] eol _ [] e (by decide) parse_wb rfl heol]
    rw [show (['w', 'b'] : Str).contains 'b' = true by decide, writeLines_bin c g eol e heol ls _ _ _ y hl henc]
    simp [finish, startContent]
  · have hn : normMode ['w', 'b'] false = .ok ['w', 'b'] := by decide
    simp only [saveFile, Payload.isBytes, hn, toBuf]
    rw [show (['w', 'b'] : Str).contains 'b' = true by decide]
    simp only [Bool.true_or, if_true]
    rw [saveBinary_ls c fs p _ _ ['w', 'b'] eol _ [] e (by decide) parse_wb rfl heol]
    rw [show (['w', 'b'] : Str).contains 'b' = true by decide, writeLines_bin c g eol e heol ls _ _ _ y hl henc]
    simp [finish, startContent]
  · have hstd : isStdEol eol = false := by simpa [textLayer] using hpath
    have hn : normMode ['a', 't'] false = .ok ['a', 't'] := by decide
    simp only [saveFile, Payload.isBytes, hn, toBuf, hstd]
    simp only [Bool.not_false, Bool.or_true, if_true]
    rw [saveBinary_ls c fs p _ _ ['a', 'b'] eol _ ((fs p).getD []) e (by decide) parse_ab rfl heol]
    rw [show (['a', 'b'] : Str).contains 'b' = true by decide, writeLines_bin c g eol e heol ls _ _ _ y hl henc]
    simp [finish, startContent]

/-! ### loading -/

theorem openIn_rt (fs : FS) (p : Str) (data : Bytes) (h : fs p = some data) : openIn fs p ['r', 't'] = .ok data := by
  simp [openIn, parse_rt, bind, Except.bind, h]

theorem openIn_rb (fs : FS) (p : Str) (data : Bytes) (h : fs p = some data) : openIn fs p ['r', 'b'] = .ok data := by
  simp [openIn, parse_rb, bind, Except.bind, h]

theorem loadFile_text (c : Codec) (fs : FS) (p eol : Str) (data : Bytes) (s : Str) (hstd : isStdEol eol = true)
    (h : fs p = some data) (hd : c.decodeStream data = some s) :
    loadFile c fs p ['t'] eol = .ok (.str (univNL s)) := by
  unfold loadFile
  rw [show (['t'] : Str).contains 'b' = false by decide]
  simp [hstd, rdT, openIn_rt fs p data h, bind, Except.bind, hd]

theorem loadFile_custom (c : Codec) (fs : FS) (p eol : Str) (data : Bytes) (s : Str) (hstd : isStdEol eol = false)
    (e : Bytes) (heol : c.enc eol = some e)
    (hne : eol ≠ []) (h : fs p = some data) (hd : c.decode (replace e lf data) = some s) :
    loadFile c fs p ['t'] eol = .ok (.str s) := by
  unfold loadFile
  rw [show (['t'] : Str).contains 'b' = false by decide]
  simp [hstd, rdB, openIn_rb fs p data h, bind, Except.bind, hd, hne, heol]

theorem loadFile_b (c : Codec) (fs : FS) (p eol : Str) (data : Bytes) (h : fs p = some data) :
    loadFile c fs p ['b'] eol = .ok (.bytes data) := by
  unfold loadFile
  rw [show (['b'] : Str).contains 'b' = true by decide]
  simp [rdB, openIn_rb fs p data h, bind, Except.bind]

theorem loadLines_text (c : Codec) (fs : FS) (p eol : Str) (data : Bytes) (s : Str) (hstd : isStdEol eol = true)
    (h : fs p = some data) (hd : c.decodeStream data = some s) :
    loadLines c fs p ['t'] eol = .ok ((textLines (univNL s)).map (fun l => Loaded.str (rstrip crlf l))) := by
  unfold loadLines
  rw [show (['t'] : Str).contains 'b' = false by decide]
  simp [hstd, rdT, openIn_rt fs p data h, bind, Except.bind, hd]

/-- taking the EOL out of the encoded bytes gives the encoding of the text -/
theorem enc_replace_back (c : Codec) (g : c.Good) (eol : Str) (ha : IsAscii eol) (text : Str)
    (hd : EolDisjoint eol text) :
    ∀ y, c.enc (replace lf eol text) = some y → ∃ y', c.enc text = some y' ∧ replace eol lf y = y' := by
  induction text with
  | nil =>
    intro y h
    rw [replace_nil, g.enc_nil] at h
    cases h
    exact ⟨[], g.enc_nil, replace_nil _ _⟩
  | cons ch t ih =>
    intro y h
    have iht := ih hd.tail
    by_cases hc : ch = '\n'
    · subst hc
      rw [show lf = ['\n'] from rfl, replace_lf_cons_lf] at h
      obtain ⟨y1, y2, h1, h2, rfl⟩ := g.enc_append_some h
      rw [g.enc_ascii eol ha] at h1
      cases h1
      obtain ⟨y', hy', hr⟩ := iht y2 h2
      refine ⟨'\n' :: y', ?_, ?_⟩
      · have := g.enc_append_of (g.ascii '\n' (by decide)) hy'
        simpa using this
      · rw [replace_append_old _ _ hd.1, hr]; rfl
    · rw [show lf = ['\n'] from rfl, replace_lf_cons_ne _ _ _ hc] at h
      have h' : c.enc ([ch] ++ replace ['\n'] eol t) = some y := by simpa using h
      obtain ⟨y1, y2, h1, h2, rfl⟩ := g.enc_append_some h'
      obtain ⟨y', hy', hr⟩ := iht y2 h2
      refine ⟨y1 ++ y', ?_, ?_⟩
      · have := g.enc_append_of h1 hy'
        simpa using this
      · cases eol with
        | nil => exact absurd rfl hd.1
        | cons e es =>
          have he : e.toNat < 128 := ha e (by simp)
          rw [replace_skip e es lf y1 y2, hr]
          intro x hx hxe
          subst hxe
          by_cases hch : ch.toNat < 128
          · rw [g.ascii ch hch] at h1
            cases h1
            simp at hx
            exact hd.head_ne hc hx.symm
          · have := g.high ch y1 (by omega) h1 x hx
            omega

/-! ### vocabulary of the statements -/

/-- the previous content of the file plays no role: a truncating mode, or `at` on a missing file -/
def Fresh (fs : FS) (p m : Str) : Prop := m = ['a', 't'] → fs p = none

theorem startContent_fresh {fs : FS} {p m : Str} (h : Fresh fs p m) : startContent fs p m = [] := by
  unfold startContent
  split
  · rename_i hm; rw [h hm]; rfl
  · rfl

/-- the standard EOLs never interfere with a text without `'\r'` -/
theorem eolDisjoint_std (eol text : Str) (he : isStdEol eol = true) (h : NoCR text) : EolDisjoint eol text := by
  have he' : (eol = crlf ∨ eol = lf) ∨ eol = cr := by
    simpa [isStdEol, Bool.or_eq_true] using he
  rcases he' with (rfl | rfl) | rfl
  · refine ⟨by simp [crlf], ?_⟩
    intro ch hch hn
    simp only [crlf, List.mem_cons, List.not_mem_nil, or_false] at hch
    rcases hch with rfl | rfl
    · exact h
    · exact absurd rfl hn
  · refine ⟨by simp [lf], ?_⟩
    intro ch hch hn
    simp only [lf, List.mem_cons, List.not_mem_nil, or_false] at hch
    exact absurd hch hn
  · refine ⟨by simp [cr], ?_⟩
    intro ch hch hn
    simp only [cr, List.mem_cons, List.not_mem_nil, or_false] at hch
    subst hch; exact h

theorem std_ascii (eol : Str) (he : isStdEol eol = true) : IsAscii eol := by
  have he' : (eol = crlf ∨ eol = lf) ∨ eol = cr := by
    simpa [isStdEol, Bool.or_eq_true] using he
  rcases he' with (rfl | rfl) | rfl <;> intro ch hch <;>
    simp only [crlf, lf, cr, List.mem_cons, List.not_mem_nil, or_false] at hch
  · rcases hch with rfl | rfl <;> decide
  · subst hch; decide
  · subst hch; decide

theorem decode_nil (c : Codec) (g : c.Good) : c.decode [] = some [] := by
  unfold Codec.decode
  have : c.dec [] = some [] := g.dec_enc [] [] g.enc_nil
  cases hb : c.bom <;> simp [startsWith, this]

theorem decodeStream_nil (c : Codec) (g : c.Good) : c.decodeStream [] = some [] := by
  unfold Codec.decodeStream
  split
  · rfl
  · exact decode_nil c g

/-! ### codecs for which the assumptions are discharged -/

theorem latin1_good : latin1.Good where
  enc_nil := rfl
  enc_cons := by
    intro ch s
    simp only [latin1, List.all_cons, List.all_nil, Bool.and_true]
    by_cases h1 : isByte ch = true <;> by_cases h2 : s.all isByte = true <;> simp [h1, h2]
  ascii := by
    intro ch h
    have : isByte ch = true := by simp [isByte]; omega
    simp [latin1, this]
  high := by
    intro ch b h hb x hx
    simp only [latin1, List.all_cons, List.all_nil, Bool.and_true] at hb
    split at hb
    · cases hb; simp at hx; subst hx; exact h
    · cases hb
  bom_high := by intro x hx; simp [latin1] at hx
  dec_enc := by
    intro s b h
    simp only [latin1] at h ⊢
    split at h
    · rename_i hs; cases h; simp [hs]
    · cases h

def is7 (ch : Char) : Bool := ch.toNat < 128

/-- 7-bit text behind the UTF-8 signature: the smallest codec with a start-of-stream mark
(what `utf-8-sig` is on ASCII text) -/
def asciiSig : Codec :=
  { bom := bomUtf8
    enc := fun s => if s.all is7 then some s else none
    dec := fun b => if b.all is7 then some b else none }

theorem asciiSig_good : asciiSig.Good where
  enc_nil := rfl
  enc_cons := by
    intro ch s
    simp only [asciiSig, List.all_cons, List.all_nil, Bool.and_true]
    by_cases h1 : is7 ch = true <;> by_cases h2 : s.all is7 = true <;> simp [h1, h2]
  ascii := by
    intro ch h
    have : is7 ch = true := by simp [is7]; omega
    simp [asciiSig, this]
  high := by
    intro ch b h hb x hx
    simp only [asciiSig, List.all_cons, List.all_nil, Bool.and_true] at hb
    split at hb
    · cases hb; simp at hx; subst hx; exact h
    · cases hb
  bom_high := by
    intro x hx
    simp only [asciiSig, bomUtf8, List.mem_cons, List.not_mem_nil, or_false] at hx
    rcases hx with rfl | rfl | rfl <;> decide
  dec_enc := by
    intro s b h
    simp only [asciiSig] at h ⊢
    split at h
    · rename_i hs; cases h; simp [hs]
    · cases h

end N0.Files
