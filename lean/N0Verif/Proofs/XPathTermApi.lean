import N0Verif.Proofs.XPathTermMain
import N0Verif.Proofs.XPathPureApi
/-!
  C04, termination of the resolver — part 5: the list-side search (`n0list._find`, `findL`) and the
  entry points (`getCore`, i.e. `get`, item access, `first`).

  `termPotL` bounds `findL`: per token one step, one loop over at most `W` elements, then the
  dict-side bound `termPot` for the rest (an element that is a dict) or the list-side bound for the
  rest (an element that is a list).  `termFuel t s` is the fuel that is enough for the string `s`
  on the tree `t`.
-/
namespace N0.XPath
open N0 N0.Py N0.Val

theorem termPotL_pos (H W : Nat) (toks : List Str) (g : Nat) : 1 ≤ termPotL H W toks g := by
  cases toks <;> simp only [termPotL] <;> omega

section
variable {H W : Nat} {root : Val}

/-- the enumeration loop of `n0list._find` -/
theorem term_findL_loop (sp : Pos) (par : PRef) (rl : Bool) (found tok : Str) (rest : List Str) (M F : Nat)
    (hD : ∀ i it f, M ≤ f → f < F → TermOut (fun _ => True) root
      (dispatchD f root sp (childRef root par (.idx i)) it rest rl (found ++ bracket (natStr i))))
    (hL : ∀ i f, M ≤ f → f < F → TermOut (fun _ => True) root
      (findL f root sp rest (childRef root par (.idx i)) rl (found ++ bracket (natStr i)))) :
    ∀ (items : List Val) (i : Nat) (acc : List Val) (fst : Option Res) (f : Nat), M + items.length + 1 ≤ f → f ≤ F →
      TermOut (fun _ => True) root (findL.loop sp par rl found tok rest f root i items acc fst) := by
  intro items
  induction items with
  | nil =>
    intro i acc fst f hf _
    obtain ⟨f', rfl⟩ : ∃ f', f = f' + 1 := ⟨f - 1, by omega⟩
    simp only [findL.loop]
    cases fst <;> exact ⟨rfl, trivial⟩
  | cons itm its ih =>
    intro i acc fst f hf hfF
    obtain ⟨f', rfl⟩ : ∃ f', f = f' + 1 := ⟨f - 1, by omega⟩
    simp only [List.length_cons] at hf
    simp only [findL.loop]
    split
    · rename_i e he
      split at he
      · rw [← he]; exact hD i _ f' (by omega) (by omega)
      · rw [← he]; exact hL i f' (by omega) (by omega)
      · cases he; exact TermOut_err (by decide)
    · rename_i root' r hr
      have h1 : TermOut (fun _ => True) root (Except.ok (root', r)) := by
        split at hr
        · rw [← hr]; exact hD i _ f' (by omega) (by omega)
        · rw [← hr]; exact hL i f' (by omega) (by omega)
        · cases hr
      obtain ⟨hroot', _⟩ := h1
      subst hroot'
      split
      · exact ih _ _ _ f' (by omega) (by omega)
      · exact ih _ _ _ f' (by omega) (by omega)

/-! ### plain tokens on the list side (re-resolution of `found`) -/

def TermSLp (H W : Nat) (root : Val) (sp : Pos) (rl : Bool) (fuel : Nat) : Prop :=
  ∀ (toks : List Str) (par : PRef) (found : Str) (g : Nat),
    (∀ t ∈ toks, TermPTok t) → (toks = [] → found = slash) →
    TermRef H W root par → SafeRef PlainKey root par → TermFound found g → termHgtRef root par ≤ H →
    (W + 4) * H + 3 * toks.length + 1 ≤ fuel →
    TermOut (fun _ => True) root (findL fuel root sp toks par rl found)

theorem term_dispatch_plain (hW : 1 ≤ W) (sp : Pos) (f : Nat) (elem : PRef) (ev : Val) (rest : List Str) (hrne : rest ≠ []) (rl : Bool)
    (found : Str) (g : Nat) (hrest : ∀ t ∈ rest, TermPTok t) (hB : TermRef H W root elem) (hK : SafeRef PlainKey root elem)
    (hfd : TermFound found g) (hh : termHgtRef root elem ≤ H) (hf : (W + 4) * H + 2 * rest.length + 1 ≤ f) :
    TermOut (fun _ => True) root (dispatchD f root sp elem ev rest rl found) := by
  unfold dispatchD
  split
  · have hmul : (W + 4) * termHgtRef root elem ≤ (W + 4) * H := Nat.mul_le_mul_left _ hh
    have := term_plain H W hW root sp rl f true rest elem found g hrest (fun h => absurd h hrne) hB hK hfd (by omega)
    exact this.mono (fun _ _ => trivial)
  · exact TermOut_err (by decide)

theorem term_findL_plain_step (hW : 1 ≤ W) (sp : Pos) (rl : Bool) (fuel : Nat)
    (ih : ∀ m, m < fuel → TermSLp H W root sp rl m) : TermSLp H W root sp rl fuel := by
  intro toks par found g htoks hnil hparB hparK hfd hparH hfuel
  obtain ⟨f, rfl⟩ : ∃ f, fuel = f + 1 := ⟨fuel - 1, by omega⟩
  cases toks with
  | nil =>
    rw [findL]
    simp only [hnil rfl, if_true]
    split
    · exact ⟨rfl, trivial⟩
    · exact TermOut_err (by decide)
  | cons tok rest =>
    have htok : TermPTok tok := htoks tok (by simp)
    have hrest : ∀ t ∈ rest, TermPTok t := fun t ht => htoks t (by simp [ht])
    simp only [List.length_cons] at hfuel
    cases hpv : valOf root par with
    | none =>
      rw [findL]; simp only [hpv]; exact TermOut_err (by decide)
    | some pv =>
      have hname : ∀ (k : Str) (idx : Idx), k ≠ [] → splitNameIndex tok = .ok (k, idx) →
          TermOut (fun _ => True) root (findL (f + 1) root sp (tok :: rest) par rl found) := by
        intro k idx hk hs
        rw [findL]
        simp only [hpv, hs, isEmpty_false_of_ne hk, Bool.not_false, if_true]
        -- the name is handed to the dict-side search (fix C06-f)
        have hmul : (W + 4) * termHgtRef root par ≤ (W + 4) * H := Nat.mul_le_mul_left _ hparH
        have := term_plain H W hW root sp rl f true (tok :: rest) par found g htoks (fun h => by cases h) hparB hparK hfd
          (by simp only [List.length_cons]; omega)
        exact this.mono (fun _ _ => trivial)
      cases htok with
      | key hk => exact hname tok .none hk.ne hk.keyTok.split
      | @keyIdx k i hk => exact hname k _ hk.ne (split_bracket k (intStr i) (Or.inr hk) (intStr_idxExpr i))
      | idx i =>
        obtain ⟨hne, hnew, hstar⟩ := term_intStr_ne i
        have hb : TermBnd H W pv := hparB pv hpv
        rw [findL]
        simp only [hpv, split_bracket_intStr, List.isEmpty_nil, Bool.not_true, Bool.false_eq_true, if_false, hstar,
          n0eval_intStr]
        -- the parent of the step and its elements
        have hcont : ∀ (par' : PRef) (items : List Val),
            ((isList pv = true ∧ par' = par) ∨ (isList pv = false ∧ par' = .wrap par)) →
            TermOut (fun _ => True) root
              (if (i ≥ (items.length : Int) || i < -(items.length : Int)) = true then
                .ok (root, { parent := par', nameIdx := some (bracket (intStr i)), value := Val.none, found := found,
                             notFound := some (bracket (intStr i) :: rest) })
              else match normIdx i items.length with
                | Option.none => .error .Unsupported
                | some n =>
                  if rest.isEmpty then
                    .ok (root, { parent := par', nameIdx := some (bracket (intStr i)), value := items.getD n Val.none,
                                 found := found, notFound := Option.none })
                  else
                    match items.getD n Val.none with
                    | .dict .. => dispatchD f root sp (childRef root par' (.idx n)) (items.getD n Val.none) rest rl
                        (found ++ bracket (intStr i))
                    | .list .. => findL f root sp rest (childRef root par' (.idx n)) rl (found ++ bracket (intStr i))
                    | _ => .error .TypeError) := by
          intro par' items hp
          obtain ⟨hpar', hchild'⟩ := term_idx_parent hW hpv hparB hp
          have hK' : SafeRef PlainKey root par' := by
            rcases hp with ⟨_, rfl⟩ | ⟨_, rfl⟩
            · exact hparK
            · exact SafeRef_wrap hparK
          split
          · exact ⟨rfl, trivial⟩
          · split
            · exact TermOut_err (by decide)
            · rename_i n _
              split
              · exact ⟨rfl, trivial⟩
              · rename_i hre
                have hrne : rest ≠ [] := by intro h; subst h; simp at hre
                have hh : termHgtRef root (childRef root par' (.idx n)) ≤ H := by
                  unfold termHgtRef
                  split
                  · rename_i c hc; exact (hchild' n c hc).2
                  · omega
                split
                · exact term_dispatch_plain hW sp f _ _ rest hrne rl _ (g + 1) hrest (TermRef_child hpar' _) (SafeRef_child hK' _)
                    (hfd.idx i) hh (by omega)
                · exact ih f (by omega) rest _ _ (g + 1) hrest (fun h => absurd h hrne) (TermRef_child hpar' _)
                    (SafeRef_child hK' _) (hfd.idx i) hh (by omega)
                · exact TermOut_err (by decide)
        cases pv with
        | list c xs => exact hcont par xs (Or.inl ⟨rfl, rfl⟩)
        | none => exact hcont (.wrap par) [_] (Or.inr ⟨rfl, rfl⟩)
        | bool b => exact hcont (.wrap par) [_] (Or.inr ⟨rfl, rfl⟩)
        | int b => exact hcont (.wrap par) [_] (Or.inr ⟨rfl, rfl⟩)
        | flt b => exact hcont (.wrap par) [_] (Or.inr ⟨rfl, rfl⟩)
        | str b => exact hcont (.wrap par) [_] (Or.inr ⟨rfl, rfl⟩)
        | dict c kvs => exact hcont (.wrap par) [_] (Or.inr ⟨rfl, rfl⟩)

theorem term_findL_plain (hW : 1 ≤ W) (sp : Pos) (rl : Bool) : ∀ fuel, TermSLp H W root sp rl fuel := by
  intro fuel
  induction fuel using Nat.strongRecOn with
  | ind fuel ih => exact term_findL_plain_step hW sp rl fuel ih

/-! ### the list-side search -/

def TermSL (H W : Nat) (root : Val) (sp : Pos) (rl : Bool) (fuel : Nat) : Prop :=
  ∀ (toks : List Str) (par : PRef) (found : Str) (g : Nat),
    SafeRef PlainKey root par → TermRef H W root par → TermFound found g → termHgtRef root par ≤ H →
    termPotL H W toks g ≤ fuel →
    TermOut (fun _ => True) root (findL fuel root sp toks par rl found)

theorem term_dispatch (ctx : TermCtx H W root) (sp : Pos) (f : Nat) (elem : PRef) (ev : Val) (rest : List Str) (rl : Bool)
    (found : Str) (g : Nat)
    (hK : SafeRef PlainKey root elem) (hB : TermRef H W root elem) (hfd : TermFound found g) (hh : termHgtRef root elem ≤ H)
    (hf : termPot H W rest H g ≤ f) :
    TermOut (fun _ => True) root (dispatchD f root sp elem ev rest rl found) := by
  unfold dispatchD
  split
  · have := termPot_mono H W rest _ _ g g hh (Nat.le_refl _)
    exact term_main ctx sp rl f true rest elem found g hK hB hfd (by omega)
  · exact TermOut_err (by decide)

theorem term_findL_step (ctx : TermCtx H W root) (sp : Pos) (rl : Bool) (fuel : Nat)
    (ih : ∀ m, m < fuel → TermSL H W root sp rl m) : TermSL H W root sp rl fuel := by
  intro toks par found g hparK hparB hfd hparH hfuel
  have hW := ctx.hW
  obtain ⟨f, rfl⟩ : ∃ f, fuel = f + 1 := ⟨fuel - 1, by have := termPotL_pos H W toks g; omega⟩
  cases toks with
  | nil =>
    rw [findL]
    split
    · split
      · exact ⟨rfl, trivial⟩
      · exact TermOut_err (by decide)
    · obtain ⟨ht, _, hl⟩ := hfd.tokens
      simp only [termPotL, termR] at hfuel
      exact term_findL_plain hW sp rl f (tokenize found) (.at sp) slash 0 ht (fun _ => rfl)
        (TermRef_at ctx.hgt ctx.wd sp) (SafeRef_at ctx.plain sp) (TermFound_slash 0) (termHgtRef_at_le ctx.hgt sp) (by omega)
  | cons tok rest =>
    simp only [termPotL] at hfuel
    cases hpv : valOf root par with
    | none =>
      rw [findL]; simp only [hpv]; exact TermOut_err (by decide)
    | some pv =>
      have hb : TermBnd H W pv := hparB pv hpv
      cases hsplit : splitNameIndex tok with
      | error e =>
        rw [findL]; simp only [hpv, hsplit]; exact TermOut_err (term_okErr_split hsplit)
      | ok p =>
        obtain ⟨name, idx⟩ := p
        -- elements of a list-valued parent
        have helem : ∀ (par' : PRef), ((isList pv = true ∧ par' = par) ∨ (isList pv = false ∧ par' = .wrap par)) → ∀ n,
            SafeRef PlainKey root (childRef root par' (.idx n)) ∧
            TermRef H W root (childRef root par' (.idx n)) ∧ termHgtRef root (childRef root par' (.idx n)) ≤ H := by
          intro par' hp n
          obtain ⟨hpar', hchild'⟩ := term_idx_parent hW hpv hparB hp
          have hK' : SafeRef PlainKey root par' := by
            rcases hp with ⟨_, rfl⟩ | ⟨_, rfl⟩
            · exact hparK
            · exact SafeRef_wrap hparK
          refine ⟨SafeRef_child hK' _, TermRef_child hpar' _, ?_⟩
          unfold termHgtRef
          split
          · rename_i c hc; exact (hchild' n c hc).2
          · omega
        -- a name / a condition is handed to the dict-side search (fix C06-f)
        have hdeleg : TermOut (fun _ => True) root (findD f root sp false true (tok :: rest) par rl found) := by
          have := termPot_mono H W (tok :: rest) _ _ g g hparH (Nat.le_refl _)
          exact term_main ctx sp rl f true (tok :: rest) par found g hparK hparB hfd (by omega)
        rw [findL]
        simp only [hpv, hsplit]
        split
        · exact hdeleg
        · cases idx with
          | none => exact TermOut_err (by decide)
          | cond k op v => exact hdeleg
          | str s =>
            simp only
            split
            · -- `[*]`
              split
              · rename_i e he; split at he <;> cases he; exact TermOut_err (by decide)
              · rename_i items hitems
                have hlen : items.length ≤ W := by
                  split at hitems
                  · rename_i c xs; cases hitems; have := hb.wd; simp only [termWd] at this; omega
                  · cases hitems; simp
                  · cases hitems; simp
                  · cases hitems
                have hlist : items ≠ [] → isList pv = true := by
                  intro hne
                  split at hitems
                  · rfl
                  · cases hitems; exact absurd rfl hne
                  · cases hitems; exact absurd rfl hne
                  · cases hitems
                by_cases hit : items = []
                · subst hit
                  obtain ⟨f', rfl⟩ : ∃ f', f = f' + 1 := ⟨f - 1, by omega⟩
                  simp only [findL.loop]
                  exact ⟨rfl, trivial⟩
                · have hl := hlist hit
                  refine term_findL_loop sp par rl found tok rest
                    (max (termPot H W rest H (g + 1)) (termPotL H W rest (g + 1))) f ?_ ?_ items 0 [] Option.none f (by omega)
                    (Nat.le_refl _)
                  · intro i it f' hf' _
                    obtain ⟨h2, h3, h4⟩ := helem par (Or.inl ⟨hl, rfl⟩) i
                    exact term_dispatch ctx sp f' _ it rest rl _ (g + 1) h2 h3
                      (hfd.idx (i : Int)) h4 (by omega)
                  · intro i f' hf' hf'F
                    obtain ⟨h2, h3, h4⟩ := helem par (Or.inl ⟨hl, rfl⟩) i
                    exact ih f' (by omega) rest _ _ (g + 1) h2 h3 (hfd.idx (i : Int)) h4
                      (by omega)
            · split
              · rename_i e he; rw [n0eval_err he]; exact TermOut_err (by decide)
              · rename_i ev hev
                cases ev with
                | str _ => cases pv <;> exact TermOut_err (by decide)
                | int i =>
                  have hcont : ∀ (par' : PRef) (items : List Val),
                      ((isList pv = true ∧ par' = par) ∨ (isList pv = false ∧ par' = .wrap par)) →
                      TermOut (fun _ => True) root
                        (if (i ≥ (items.length : Int) || i < -(items.length : Int)) = true then
                          .ok (root, { parent := par', nameIdx := some (bracket (intStr i)), value := Val.none, found := found,
                                       notFound := some (tok :: rest) })
                        else match normIdx i items.length with
                          | Option.none => .error .Unsupported
                          | some n =>
                            if rest.isEmpty then
                              .ok (root, { parent := par', nameIdx := some (bracket (intStr i)), value := items.getD n Val.none,
                                           found := found, notFound := Option.none })
                            else
                              match items.getD n Val.none with
                              | .dict .. => dispatchD f root sp (childRef root par' (.idx n)) (items.getD n Val.none) rest rl
                                  (found ++ bracket (intStr i))
                              | .list .. => findL f root sp rest (childRef root par' (.idx n)) rl (found ++ bracket (intStr i))
                              | _ => .error .TypeError) := by
                    intro par' items hp
                    split
                    · exact ⟨rfl, trivial⟩
                    · split
                      · exact TermOut_err (by decide)
                      · rename_i n _
                        obtain ⟨h2, h3, h4⟩ := helem par' hp n
                        split
                        · exact ⟨rfl, trivial⟩
                        · split
                          · exact term_dispatch ctx sp f _ _ rest rl _ (g + 1) h2 h3
                              (hfd.idx i) h4 (by omega)
                          · exact ih f (by omega) rest _ _ (g + 1) h2 h3 (hfd.idx i) h4
                              (by omega)
                          · exact TermOut_err (by decide)
                  cases pv with
                  | list c xs => exact hcont par xs (Or.inl ⟨rfl, rfl⟩)
                  | none => exact hcont (.wrap par) [_] (Or.inr ⟨rfl, rfl⟩)
                  | bool b => exact hcont (.wrap par) [_] (Or.inr ⟨rfl, rfl⟩)
                  | int b => exact hcont (.wrap par) [_] (Or.inr ⟨rfl, rfl⟩)
                  | flt b => exact hcont (.wrap par) [_] (Or.inr ⟨rfl, rfl⟩)
                  | str b => exact hcont (.wrap par) [_] (Or.inr ⟨rfl, rfl⟩)
                  | dict c kvs => exact hcont (.wrap par) [_] (Or.inr ⟨rfl, rfl⟩)

/-- **The list-side search ends.** -/
theorem term_findL (ctx : TermCtx H W root) (sp : Pos) (rl : Bool) : ∀ fuel, TermSL H W root sp rl fuel := by
  intro fuel
  induction fuel using Nat.strongRecOn with
  | ind fuel ih => exact term_findL_step ctx sp rl fuel ih

end

/-! ### entry points -/

theorem term_ctx_of {t : Val} (hp : SafeKeys PlainKey t) :
    TermCtx (termHgt t) (max 1 (termWd t)) t :=
  ⟨by omega, Nat.le_refl _, by omega, hp⟩

/-- `_get` of any path text on a tree with plain keys never exhausts the fuel `termFuel` -/
theorem term_getCore (fuel : Nat) (root : Val) (xp : Str) (dflt : Val) (raise rl : Bool)
    (hp : SafeKeys PlainKey root) (hf : termFuel root xp ≤ fuel) :
    (getCore fuel root xp dflt raise rl).2 ≠ .error .OutOfFuel := by
  have ctx := term_ctx_of hp
  have hcaught : caught PyErr.OutOfFuel = false := by decide
  -- the two searches, for either token list
  have hD : ∀ s, termPot (termHgt root) (max 1 (termWd root)) (tokenize s) (termHgt root) 0 ≤ fuel →
      TermOut (fun _ => True) root (findD fuel root [] false true (tokenize s) (.at []) rl slash) := by
    intro s hle
    refine term_main ctx [] rl fuel true (tokenize s) (.at []) slash 0
      (SafeRef_at ctx.plain []) (TermRef_at ctx.hgt ctx.wd []) (TermFound_slash 0) ?_
    have : termHgtRef root (.at []) = termHgt root := by simp [termHgtRef, valOf, getAt]
    rw [this]; exact hle
  have hL : ∀ s, termPotL (termHgt root) (max 1 (termWd root)) (tokenize s) 0 ≤ fuel →
      TermOut (fun _ => True) root (findL fuel root [] (tokenize s) (.at []) rl slash) := by
    intro s hle
    exact term_findL ctx [] rl fuel (tokenize s) (.at []) slash 0
      (SafeRef_at ctx.plain []) (TermRef_at ctx.hgt ctx.wd []) (TermFound_slash 0) (termHgtRef_at_le ctx.hgt []) hle
  unfold termFuel at hf
  simp only at hf
  have hfin : ∀ (raise : Bool) (dflt : Val) (x : PyM (Val × Res)), TermOut (fun _ => True) root x → ∀ (a : Val × PyM Val),
      (match x with
        | .error e => if caught e then (if raise then (root, .error e) else (root, .ok dflt)) else (root, .error e)
        | .ok (root', r) =>
          if r.isFound then (root', .ok r.value)
          else if raise then (root', .error .IndexError) else (root', .ok dflt)) = a → a.2 ≠ .error .OutOfFuel := by
    intro raise dflt x hx a ha
    subst ha
    cases x with
    | error e =>
      simp only
      have hne : e ≠ .OutOfFuel := hx
      split
      · split
        · simpa using hne
        · simp
      · simpa using hne
    | ok pr =>
      obtain ⟨root', r⟩ := pr
      simp only
      split
      · simp
      · split <;> simp
  cases root with
  | dict c kvs =>
    unfold getCore
    by_cases hq : startsWith xp ['?'] = true
    · simp only [hq, if_true] at hf ⊢
      split
      · exact hfin false emptyStr _ (hD (xp.drop 1) (by omega)) _ rfl
      · split <;> simp
    · simp only [hq, Bool.false_eq_true, if_false] at hf ⊢
      split
      · exact hfin raise dflt _ (hD xp (by omega)) _ rfl
      · split
        · simp
        · split <;> simp
  | list c xs =>
    unfold getCore
    simp only
    split
    · simp
    · by_cases hq : startsWith xp ['?'] = true
      · simp only [hq, if_true] at hf ⊢
        split
        · exact hfin false emptyStr _ (hL (xp.drop 1) (by omega)) _ rfl
        · split
          · rename_i e he
            intro heq; simp only [Except.error.injEq] at heq; subst heq
            have := n0eval_err he; cases this
          · split <;> simp
          · simp
      · simp only [hq, Bool.false_eq_true, if_false] at hf ⊢
        split
        · exact hfin raise dflt _ (hL xp (by omega)) _ rfl
        · split
          · rename_i e he
            intro heq; simp only [Except.error.injEq] at heq; subst heq
            have := n0eval_err he; cases this
          · split
            · simp
            · split <;> simp
          · split <;> simp
  | _ =>
    unfold getCore
    simp

end N0.XPath
