import N0Verif.Proofs.CompareTransform
/-!
`transform` for the KEYED/default entry point (`compare`, `cfg.direct = false`) on trees whose lists hold
records only, without a composite key.

The keyed statement is false in general (finding C10-a, `transform_keyed_cex`): a non-record list item is
keyed by the `str()` of its *untransformed* value.  When every list item is a record and there is no composite
key, every item has the key `''`, the n-th record of one list is paired with the n-th record of the other, the
`str()`-keying plays no role, and the run with `transform` on the original trees agrees with the run without it
on the mapped trees (`TrERel`: same exception, or results of the same shape) — exactly as for `direct_compare`.

With a composite key the statement fails again, for another reason: the key is built from the *transformed*
field, which must then be a `str` (`trk_ck_cex`: the identity function on an `int` key field raises `TypeError`).
-/
namespace N0.Compare
open N0

set_option linter.unusedSimpArgs false
set_option linter.unusedVariables false

/-! ### trees whose lists contain only records -/

mutual
/-- every item of every list (at every depth) is a dictionary -/
def recOnly : Val → Bool
  | .list _ xs => recOnlyL xs
  | .dict _ kvs => recOnlyK kvs
  | _ => true
def recOnlyL : List Val → Bool
  | [] => true
  | x :: xs => isRecV x && recOnly x && recOnlyL xs
def recOnlyK : List (Str × Val) → Bool
  | [] => true
  | (_, v) :: rest => recOnly v && recOnlyK rest
/-- `isinstance(v, dict)` -/
def isRecV : Val → Bool
  | .dict _ _ => true
  | _ => false
end

theorem trk_recOnlyK_lookup : ∀ (kvs : List (Str × Val)) (k : Str) (w : Val), recOnlyK kvs = true →
    Val.lookup k kvs = some w → recOnly w = true
  | [], _, _, _, h => by simp [Val.lookup] at h
  | (k', v) :: rest, k, w, hr, h => by
    simp only [recOnlyK, Bool.and_eq_true] at hr
    simp only [Val.lookup] at h
    split at h
    · cases h; exact hr.1
    · exact trk_recOnlyK_lookup rest k w hr.2 h

/-! ### keys: every record has the key `''` -/

/-- the entries of a list all of whose keys are `''` -/
def ents (i : Nat) (xs : List Val) : List KE := mkEntries i (List.replicate xs.length []) xs

theorem trk_ents_cons (i : Nat) (x : Val) (xs : List Val) : ents i (x :: xs) = ([], i, x) :: ents (i + 1) xs := by
  simp [ents, List.replicate_succ, mkEntries]

theorem trk_ents_nil (i : Nat) : ents i [] = [] := by simp [ents, mkEntries]

theorem trk_keyOf_rec (cfg : Cfg) (hck : cfg.ck.pats.isEmpty = true) (p : Path) {x : Val} (hx : isRecV x = true) :
    keyOf cfg p x = .ok [] := by
  cases x <;> simp_all [isRecV, keyOf]

theorem trk_keysOf (cfg : Cfg) (hck : cfg.ck.pats.isEmpty = true) (p : Path) : ∀ xs : List Val,
    (∀ x ∈ xs, isRecV x = true) → keysOf cfg p xs = .ok (List.replicate xs.length [])
  | [], _ => rfl
  | x :: xs, h => by
    simp only [keysOf, trk_keyOf_rec cfg hck p (h x (List.mem_cons_self ..)),
      trk_keysOf cfg hck p xs (fun z hz => h z (List.mem_cons_of_mem _ hz)), List.length_cons, List.replicate_succ]

theorem trk_recItems : ∀ xs : List Val, recOnlyL xs = true → ∀ x ∈ xs, isRecV x = true
  | [], _, _, h => by cases h
  | y :: ys, hr, x, h => by
    simp only [recOnlyL, Bool.and_eq_true] at hr
    rcases List.mem_cons.1 h with rfl | h'
    · exact hr.1.1
    · exact trk_recItems ys hr.2 x h'

theorem trk_mapTL_recItems (cfg : Cfg) (p : Path) (f : Val → Val) : ∀ (xs : List Val) (i : Nat),
    (∀ x ∈ xs, isRecV x = true) → ∀ x ∈ mapTL cfg p f i xs, isRecV x = true
  | [], _, _, x, h => by simp [mapTL] at h
  | y :: ys, i, hr, x, h => by
    rw [mapTL_cons] at h
    rcases List.mem_cons.1 h with rfl | h'
    · have hy := hr y (List.mem_cons_self ..)
      cases y <;> simp_all [isRecV, mapTChild, isLeaf, mapT]
    · exact trk_mapTL_recItems cfg p f ys (i + 1) (fun z hz => hr z (List.mem_cons_of_mem _ hz)) x h'

theorem trk_ents_idx : ∀ (l l' : List Val) (i : Nat), l.length = l'.length →
    (ents i l').map (fun e => e.2.1) = (ents i l).map (fun e => e.2.1)
  | [], [], _, _ => rfl
  | [], _ :: _, _, h => by simp at h
  | _ :: _, [], _, h => by simp at h
  | _ :: l, _ :: l', i, h => by
    simp only [trk_ents_cons, List.map_cons]
    rw [trk_ents_idx l l' (i + 1) (by simpa using h)]

theorem trk_keyedTail_shape (p : Path) (sr sr' orr orr' : List KE)
    (h1 : sr'.map (fun e => e.2.1) = sr.map (fun e => e.2.1))
    (h2 : orr'.map (fun e => e.2.1) = orr.map (fun e => e.2.1)) :
    (keyedTail p sr' orr').shape = (keyedTail p sr orr).shape := by
  have l1 := congrArg List.length h1
  have l2 := congrArg List.length h2
  simp only [List.length_map] at l1 l2
  have e1 : (sr'.map (fun e => (⟨p ++ [.idx e.2.1], e.2.2⟩ : UE))).map (·.path) =
      (sr.map (fun e => (⟨p ++ [.idx e.2.1], e.2.2⟩ : UE))).map (·.path) := by
    have := congrArg (List.map (fun n => p ++ [PSeg.idx n])) h1
    simpa [List.map_map, Function.comp_def] using this
  have e2 : (orr'.map (fun e => (⟨p ++ [.idx e.2.1], e.2.2⟩ : UE))).map (·.path) =
      (orr.map (fun e => (⟨p ++ [.idx e.2.1], e.2.2⟩ : UE))).map (·.path) := by
    have := congrArg (List.map (fun n => p ++ [PSeg.idx n])) h2
    simpa [List.map_map, Function.comp_def] using this
  simp only [Res.shape, keyedTail, List.map_nil, Prod.mk.injEq, and_true, true_and]
  exact ⟨by rw [l1, l2], e1, e2⟩

/-- once the right list is exhausted nothing is matched any more -/
theorem trk_walk_right_nil (cfg : Cfg) (p : Path) (sa oa : Val) : ∀ (xs : List Val) (ks : List Str) (i : Nat)
    (sr : List KE), ks.length = xs.length → keyedWalk cfg p sa oa i xs ks sr [] = .ok (keyedTail p sr [])
  | [], _, _, _, _ => by simp [keyedWalk]
  | _ :: _, [], _, _, h => by simp at h
  | x :: xs, k :: ks, i, sr, h => by
    simp only [keyedWalk, findKey]
    exact trk_walk_right_nil cfg p sa oa xs ks (i + 1) sr (by simpa using h)

/-! ### the two runs agree (keyed entry point, record-only lists, no composite key) -/

mutual
theorem trk_sub (cfg : Cfg) (hd : cfg.direct = false) (hck : cfg.ck.pats.isEmpty = true) (hl : LeafTransform cfg)
    (site : Site) (p : Path) (v w : Val) (hv : recOnly v = true) (hw : recOnly w = true) :
    TrERel (sub cfg site p v w) (sub (noTransf cfg) site p (mapT cfg p v) (mapT cfg p w)) :=
  match v, w, hv, hw with
  | .list c xs, w, hv, hw => by
    cases w with
    | list c' ys =>
      simp only [recOnly] at hv hw
      have hix := trk_recItems xs hv
      have hiy := trk_recItems ys hw
      have hkx := trk_keysOf cfg hck p xs hix
      have hky := trk_keysOf cfg hck p ys hiy
      have hkx' := trk_keysOf (noTransf cfg) hck p _ (trk_mapTL_recItems cfg p (transformAt cfg p) xs 0 hix)
      have hky' := trk_keysOf (noTransf cfg) hck p _ (trk_mapTL_recItems cfg p (transformAt cfg p) ys 0 hiy)
      have ih := trk_keyedWalk cfg hd hck hl p (.list .n0 xs) (.list .n0 ys)
        (.list .n0 (mapTL cfg p (transformAt cfg p) 0 xs)) (.list .n0 (mapTL cfg p (transformAt cfg p) 0 ys)) 0 xs ys hv hw
      by_cases h3 : excluded cfg p = true
      · simp [sub, mapT, hd, h3, Res.shape]
      · simp only [sub, mapT, hd, h3, noTransf_direct, excluded_noTransf, hkx, hky, hkx', hky', Bool.false_eq_true,
          false_and, and_false, if_false]
        exact ih
    | _ => simp [sub, mapT]
  | .dict c kvs, w, hv, hw => by
    cases w with
    | dict c' kvs' =>
      simp only [recOnly] at hv hw
      have ih := trk_dictWalk cfg hd hck hl p (.dict .n0 kvs) (.dict .n0 kvs')
        (.dict .n0 (mapTK cfg p kvs)) (.dict .n0 (mapTK cfg p kvs')) kvs kvs' true true kvs hv hw
      cases site <;> cases c' <;> simp [sub, mapT, hd] <;> exact ih
    | _ => simp [sub, mapT]
  | .none, w, _, _ => by cases w <;> simp [sub, mapT, Res.shape]
  | .bool _, w, _, _ => by cases w <;> simp [sub, mapT]
  | .int _, w, _, _ => by cases w <;> simp [sub, mapT]
  | .flt _, w, _, _ => by cases w <;> simp [sub, mapT]
  | .str _, w, _, _ => by cases w <;> simp [sub, mapT]
termination_by structural v

theorem trk_dictWalk (cfg : Cfg) (hd : cfg.direct = false) (hck : cfg.ck.pats.isEmpty = true) (hl : LeafTransform cfg)
    (p : Path) (sa oa sa' oa' : Val) (skvs okvs : List (Str × Val)) (still still' : Bool) (kvs : List (Str × Val))
    (hk : recOnlyK kvs = true) (ho : recOnlyK okvs = true) :
    TrERel (dictWalk cfg p sa oa skvs okvs still kvs)
      (dictWalk (noTransf cfg) p sa' oa' (mapTK cfg p skvs) (mapTK cfg p okvs) still' (mapTK cfg p kvs)) :=
  match kvs, still, still', hk with
  | [], still, still', _ => by
    simp only [dictWalk, mapTK]
    exact mapTK_dictTail_shape cfg p sa oa sa' oa' skvs okvs still still'
  | (k, v) :: rest, still, still', hk => by
    simp only [recOnlyK, Bool.and_eq_true] at hk
    rw [mapTK_cons]
    simp only [dictWalk, mapTK_lookup]
    cases hlk : Val.lookup k okvs with
    | none =>
      simp only [Option.map_none]
      exact trk_dictWalk cfg hd hck hl p sa oa sa' oa' skvs okvs still still' rest hk.2 ho
    | some w =>
      simp only [Option.map_some]
      have hrw := trk_recOnlyK_lookup okvs k w ho hlk
      have hf := tr_leafFn_transformAt hl (p ++ [.key k])
      have hact := tr_classifyEntry_shape cfg (p ++ [.key k]) v w
        (mapTChild cfg (p ++ [.key k]) (transformAt cfg (p ++ [.key k])) v)
        (mapTChild cfg (p ++ [.key k]) (transformAt cfg (p ++ [.key k])) w)
        (mapT_child_tyOf hf cfg _ v) (mapT_child_tyOf hf cfg _ w) (mapT_child_scalar hf cfg _ v) (mapT_child_scalar hf cfg _ w)
      cases hc : classifyEntry cfg (p ++ [.key k]) v w with
      | emit r0 s0 =>
        cases hc' : classifyEntry (noTransf cfg) (p ++ [.key k])
            (mapTChild cfg (p ++ [.key k]) (transformAt cfg (p ++ [.key k])) v)
            (mapTChild cfg (p ++ [.key k]) (transformAt cfg (p ++ [.key k])) w) with
        | emit r0' s0' =>
          rw [hc, hc'] at hact
          simp only
          exact tr_erel_cons hact _ _
            (trk_dictWalk cfg hd hck hl p sa oa sa' oa' skvs okvs (still && s0) (still' && s0') rest hk.2 ho)
        | descend => rw [hc, hc'] at hact; exact hact.elim
      | descend =>
        cases hc' : classifyEntry (noTransf cfg) (p ++ [.key k])
            (mapTChild cfg (p ++ [.key k]) (transformAt cfg (p ++ [.key k])) v)
            (mapTChild cfg (p ++ [.key k]) (transformAt cfg (p ++ [.key k])) w) with
        | emit r0' s0' => rw [hc, hc'] at hact; exact hact.elim
        | descend =>
          obtain ⟨ht, hns⟩ := tr_classifyEntry_descend hc
          have hns' : isPyScalar (transformAt cfg (p ++ [.key k]) w) = false := by
            rw [← tyOf_scalar_eq ht]; exact hns
          simp only
          rw [mapT_child_nonscalar hf cfg _ v hns, mapT_child_nonscalar hf cfg _ w hns']
          exact tr_erel_bind _ _ _ _ (trk_sub cfg hd hck hl .entry (p ++ [.key k]) v w hk.1 hrw)
            (trk_dictWalk cfg hd hck hl p sa oa sa' oa' skvs okvs still still' rest hk.2 ho)
termination_by structural kvs

theorem trk_keyedWalk (cfg : Cfg) (hd : cfg.direct = false) (hck : cfg.ck.pats.isEmpty = true) (hl : LeafTransform cfg)
    (p : Path) (sa oa sa' oa' : Val) (i : Nat) (xs ys : List Val)
    (hx : recOnlyL xs = true) (hy : recOnlyL ys = true) :
    TrERel (keyedWalk cfg p sa oa i xs (List.replicate xs.length []) (ents i xs) (ents i ys))
      (keyedWalk (noTransf cfg) p sa' oa' i (mapTL cfg p (transformAt cfg p) i xs)
        (List.replicate (mapTL cfg p (transformAt cfg p) i xs).length [])
        (ents i (mapTL cfg p (transformAt cfg p) i xs)) (ents i (mapTL cfg p (transformAt cfg p) i ys))) :=
  match xs, ys, i, hx, hy with
  | [], ys, i, _, _ => by
    simp only [mapTL, keyedWalk, trk_ents_nil]
    show Res.shape _ = Res.shape _
    exact trk_keyedTail_shape p [] [] _ _ rfl
      (trk_ents_idx ys (mapTL cfg p (transformAt cfg p) i ys) i (mapTL_length cfg p _ ys i).symm)
  | x :: xs, [], i, _, _ => by
    have e0 : mapTL cfg p (transformAt cfg p) i ([] : List Val) = [] := by simp [mapTL]
    rw [e0, trk_ents_nil, trk_walk_right_nil cfg p sa oa (x :: xs) _ i _ (by simp),
      trk_walk_right_nil (noTransf cfg) p sa' oa' _ _ i _ (by simp)]
    show Res.shape _ = Res.shape _
    exact trk_keyedTail_shape p _ _ [] []
      (trk_ents_idx (x :: xs) (mapTL cfg p (transformAt cfg p) i (x :: xs)) i (mapTL_length cfg p _ (x :: xs) i).symm) rfl
  | x :: xs, y :: ys, i, hx, hy => by
    simp only [recOnlyL, Bool.and_eq_true] at hx hy
    rw [mapTL_cons, mapTL_cons]
    simp only [List.length_cons, List.replicate_succ, trk_ents_cons, keyedWalk, findKey, eraseKey, if_true]
    have hf := tr_leafFn_transformAt hl p
    have hact := tr_classifyItem_shape cfg p (p ++ [.idx i]) (p ++ [.idx i]) sa oa sa' oa' x y
      (mapTChild cfg (p ++ [.idx i]) (transformAt cfg p) x)
      (mapTChild cfg (p ++ [.idx i]) (transformAt cfg p) y)
      (mapT_child_tyOf hf cfg _ x) (mapT_child_tyOf hf cfg _ y) (mapT_child_scalar hf cfg _ x) (mapT_child_scalar hf cfg _ y)
    cases hc : classifyItem cfg p (p ++ [.idx i]) (p ++ [.idx i]) sa oa x y with
    | emit r0 s0 =>
      cases hc' : classifyItem (noTransf cfg) p (p ++ [.idx i]) (p ++ [.idx i]) sa' oa'
          (mapTChild cfg (p ++ [.idx i]) (transformAt cfg p) x)
          (mapTChild cfg (p ++ [.idx i]) (transformAt cfg p) y) with
      | emit r0' s0' =>
        rw [hc, hc'] at hact
        simp only
        exact tr_erel_cons hact _ _ (trk_keyedWalk cfg hd hck hl p sa oa sa' oa' (i + 1) xs ys hx.2 hy.2)
      | descend => rw [hc, hc'] at hact; exact hact.elim
    | descend =>
      cases hc' : classifyItem (noTransf cfg) p (p ++ [.idx i]) (p ++ [.idx i]) sa' oa'
          (mapTChild cfg (p ++ [.idx i]) (transformAt cfg p) x)
          (mapTChild cfg (p ++ [.idx i]) (transformAt cfg p) y) with
      | emit r0' s0' => rw [hc, hc'] at hact; exact hact.elim
      | descend =>
        obtain ⟨ht, hns⟩ := tr_classifyItem_descend hc
        have hns' : isPyScalar (transformAt cfg p y) = false := by
          rw [← tyOf_scalar_eq ht]; exact hns
        simp only
        rw [mapT_child_nonscalar hf cfg _ x hns, mapT_child_nonscalar hf cfg _ y hns']
        exact tr_erel_bind _ _ _ _ (trk_sub cfg hd hck hl .item (p ++ [.idx i]) x y hx.1.2 hy.1.2)
          (trk_keyedWalk cfg hd hck hl p sa oa sa' oa' (i + 1) xs ys hx.2 hy.2)
termination_by structural xs
end

/-- **transform, keyed/default entry point, record-only lists, no composite key**: the run with `transform`
and the run without `transform` on the mapped trees end in the same error or in results of the same shape -/
theorem compareTop_tr_keyed (cfg : Cfg) (hd : cfg.direct = false) (hck : cfg.ck.pats.isEmpty = true)
    (hl : LeafTransform cfg) (a b : Val) (ha : recOnly a = true) (hb : recOnly b = true) :
    TrERel (compareTop cfg a b) (compareTop (noTransf cfg) (mapT cfg [] a) (mapT cfg [] b)) := by
  cases a with
  | dict c kvs =>
    cases c with
    | plain => cases b <;> simp [compareTop, mapT]
    | n0 =>
      cases b with
      | dict c' kvs' =>
        cases c' with
        | plain => simp [compareTop, mapT]
        | n0 =>
          simp only [recOnly] at ha hb
          simp only [compareTop, mapT]
          exact trk_dictWalk cfg hd hck hl [] _ _ _ _ kvs kvs' true true kvs ha hb
      | _ => simp [compareTop, mapT]
  | list c xs =>
    cases c with
    | plain => cases b <;> simp [compareTop, mapT]
    | n0 =>
      cases b with
      | list c' ys =>
        cases c' with
        | plain => simp [compareTop, mapT]
        | n0 =>
          have h := trk_sub cfg hd hck hl .entry [] (.list .n0 xs) (.list .n0 ys) ha hb
          simp only [mapT] at h
          simp only [compareTop, mapT]
          exact h
      | _ => simp [compareTop, mapT]
  | _ => cases b <;> simp [compareTop, mapT]

/-- the verdict of the run with `transform` is the verdict of the plain run on the mapped trees -/
theorem transform_keyed_verdict (cfg : Cfg) (hd : cfg.direct = false) (hck : cfg.ck.pats.isEmpty = true)
    (hl : LeafTransform cfg) (a b : Val) (ha : recOnly a = true) (hb : recOnly b = true) :
    verdict (compareTop cfg a b) = verdict (compareTop { cfg with tr := [] } (mapT cfg [] a) (mapT cfg [] b)) := by
  have hrel := compareTop_tr_keyed cfg hd hck hl a b ha hb
  change _ = verdict (compareTop (noTransf cfg) (mapT cfg [] a) (mapT cfg [] b))
  cases hc : compareTop cfg a b <;> cases hc' : compareTop (noTransf cfg) (mapT cfg [] a) (mapT cfg [] b) <;>
    rw [hc, hc'] at hrel
  · rfl
  · exact hrel.elim
  · exact hrel.elim
  · simp only [tr_erel_ok_ok, Res.shape, Prod.mk.injEq] at hrel
    simp [verdict, hrel.1]

/-! ### examples and the limits of the statement -/

/-- `{'rows': [{'n': 'A', 'v': 1}, {'n': 'b', 'v': 2}]}` against `{'rows': [{'n': 'a', 'v': 1}, {'n': 'B', 'v': 3}, {'n': 'c'}]}`
with `('//n', lower)`: record-only lists, the names agree after the transform, one changed value, one extra record -/
def trkCfg : Cfg := { Cfg.default Flags.init false with tr := [⟨['/', '/', 'n'], lowerFn⟩] }
def trkA : Val := .dict .n0 [(['r'], .list .n0 [.dict .n0 [(['n'], .str ['A']), (['v'], .int 1)],
  .dict .n0 [(['n'], .str ['b']), (['v'], .int 2)]])]
def trkB : Val := .dict .n0 [(['r'], .list .n0 [.dict .n0 [(['n'], .str ['a']), (['v'], .int 1)],
  .dict .n0 [(['n'], .str ['B']), (['v'], .int 3)], .dict .n0 [(['n'], .str ['c'])]])]

theorem trkCfg_leaf : LeafTransform trkCfg := by
  intro t ht
  simp only [trkCfg, Cfg.default, List.mem_singleton] at ht
  subst ht
  refine ⟨fun _ _ => rfl, fun _ _ => rfl, ?_, .inr rfl⟩
  intro v hv
  cases v <;> simp_all [lowerFn, isPyScalar]

theorem trk_example :
    recOnly trkA = true ∧ recOnly trkB = true ∧ trkCfg.direct = false ∧ trkCfg.ck.pats.isEmpty = true ∧
    (compareTop trkCfg trkA trkB).map (fun r => (r.diffs, r.notEqual.map (·.path), r.otherUnique.map (·.path)))
      = .ok (2, [[.key ['r'], .idx 1, .key ['v']]], [[.key ['r'], .idx 2]]) ∧
    (compareTop { trkCfg with tr := [] } trkA trkB).map (·.diffs) = .ok 4 := by
  decide

/-- with a composite key the keyed statement fails for another reason: the key is built from the TRANSFORMED
field, which must be a `str` — the identity function on the `int` key field `id` raises `TypeError`, the plain run
on the (identical) mapped trees returns normally -/
def trkCkCfg : Cfg := { Cfg.default Flags.init false with ck := .one ['i', 'd'], tr := [⟨['/', '/', 'i', 'd'], id⟩] }
def trkCkA : Val := .list .n0 [.dict .n0 [(['i', 'd'], .int 1)]]

theorem trkCkCfg_leaf : LeafTransform trkCkCfg := by
  intro t ht
  simp only [trkCkCfg, Cfg.default, List.mem_singleton] at ht
  subst ht
  exact ⟨fun _ _ => rfl, fun _ _ => rfl, fun _ h => h, .inr rfl⟩

theorem trk_ck_cex :
    recOnly trkCkA = true ∧ compareTop trkCkCfg trkCkA trkCkA = .error .TypeError ∧
      mapT trkCkCfg [] trkCkA = trkCkA ∧
      (compareTop { trkCkCfg with tr := [] } (mapT trkCkCfg [] trkCkA) (mapT trkCkCfg [] trkCkA)).map (·.diffs) = .ok 0 := by
  decide

end N0.Compare
