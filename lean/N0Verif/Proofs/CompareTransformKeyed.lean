import N0Verif.Proofs.CompareTransform
/-!
`transform` for the KEYED/default entry point (`compare`, `cfg.direct = false`), without a composite key, on trees
every list of which holds records only or leaves only (`recOnly`, the name is historical).

* lists of records: every item has the key `''`, the n-th record of one list is paired with the n-th record of the
  other (never `[i]<>[j]`), exactly as for `direct_compare`;
* lists of leaves (fix C10-a): a leaf is keyed by the JSON text of its TRANSFORMED value, which is the key the same
  item has in the mapped tree; the two runs therefore pair the same positions (`trk_walk_leafpairs`), and a pair that
  contains a leaf never descends into a container.

What stays outside: a list nested in a list (`transform_keyed_nested_cex`, finding C10-b), lists mixing records and
leaves (records are then paired across positions and the patterns see `[i]<>[j]`), and a composite key
(`trk_ck_cex`: the key is built from the *transformed* field, which must then be a `str`).
-/
namespace N0.Compare
open N0

set_option linter.unusedSimpArgs false
set_option linter.unusedVariables false

/-! ### trees whose lists contain only records -/

mutual
/-- every list (at every depth) holds dictionaries only, or leaves only -/
def recOnly : Val → Bool
  | .list _ xs => (xs.all isRecV || xs.all isLeaf) && recOnlyL xs
  | .dict _ kvs => recOnlyK kvs
  | _ => true
def recOnlyL : List Val → Bool
  | [] => true
  | x :: xs => recOnly x && recOnlyL xs
def recOnlyK : List (Str × Val) → Bool
  | [] => true
  | (_, v) :: rest => recOnly v && recOnlyK rest
/-- `isinstance(v, dict)` -/
def isRecV : Val → Bool
  | .dict _ _ => true
  | _ => false
end

theorem trk_recOnlyK_lookup : ∀ (kvs : List (Str × Val)) (k : Str) (w : Val), recOnlyK kvs = true →
    Val.lookup k kvs = some w → recOnly w = true
  | [], _, _, _, h => by simp [Val.lookup] at h
  | (k', v) :: rest, k, w, hr, h => by
    simp only [recOnlyK, Bool.and_eq_true] at hr
    simp only [Val.lookup] at h
    split at h
    · cases h; exact hr.1
    · exact trk_recOnlyK_lookup rest k w hr.2 h

/-! ### keys: every record has the key `''` -/

/-- the entries of a list all of whose keys are `''` -/
def ents (i : Nat) (xs : List Val) : List KE := mkEntries i (List.replicate xs.length []) xs

theorem trk_ents_cons (i : Nat) (x : Val) (xs : List Val) : ents i (x :: xs) = ([], i, x) :: ents (i + 1) xs := by
  simp [ents, List.replicate_succ, mkEntries]

theorem trk_ents_nil (i : Nat) : ents i [] = [] := by simp [ents, mkEntries]

theorem trk_keyOf_rec (cfg : Cfg) (hck : cfg.ck.pats.isEmpty = true) (p : Path) (i : Nat) {x : Val} (hx : isRecV x = true) :
    keyOf cfg p i x = .ok [] := by
  have hck' : cfg.ck.pats = [] := by simpa using hck
  cases x <;> simp_all [isRecV, keyOf, recordFields, fieldsKey]

theorem trk_keysOf (cfg : Cfg) (hck : cfg.ck.pats.isEmpty = true) (p : Path) : ∀ (i : Nat) (xs : List Val),
    (∀ x ∈ xs, isRecV x = true) → keysOf cfg p i xs = .ok (List.replicate xs.length [])
  | _, [], _ => rfl
  | i, x :: xs, h => by
    simp only [keysOf, trk_keyOf_rec cfg hck p i (h x (List.mem_cons_self ..)),
      trk_keysOf cfg hck p (i + 1) xs (fun z hz => h z (List.mem_cons_of_mem _ hz)), List.length_cons, List.replicate_succ]

theorem trk_recItems (xs : List Val) (h : xs.all isRecV = true) : ∀ x ∈ xs, isRecV x = true :=
  fun x hx => List.all_eq_true.1 h x hx

theorem trk_recOnlyL_mem : ∀ xs : List Val, recOnlyL xs = true → ∀ x ∈ xs, recOnly x = true
  | [], _, _, h => by cases h
  | y :: ys, hr, x, h => by
    simp only [recOnlyL, Bool.and_eq_true] at hr
    rcases List.mem_cons.1 h with rfl | h'
    · exact hr.1
    · exact trk_recOnlyL_mem ys hr.2 x h'

theorem trk_mapTL_recItems (cfg : Cfg) (p : Path) (f : Val → Val) : ∀ (xs : List Val) (i : Nat),
    (∀ x ∈ xs, isRecV x = true) → ∀ x ∈ mapTL cfg p f i xs, isRecV x = true
  | [], _, _, x, h => by simp [mapTL] at h
  | y :: ys, i, hr, x, h => by
    rw [mapTL_cons] at h
    rcases List.mem_cons.1 h with rfl | h'
    · have hy := hr y (List.mem_cons_self ..)
      cases y <;> simp_all [isRecV, mapTChild, isLeaf, mapT]
    · exact trk_mapTL_recItems cfg p f ys (i + 1) (fun z hz => hr z (List.mem_cons_of_mem _ hz)) x h'

theorem trk_ents_idx : ∀ (l l' : List Val) (i : Nat), l.length = l'.length →
    (ents i l').map (fun e => e.2.1) = (ents i l).map (fun e => e.2.1)
  | [], [], _, _ => rfl
  | [], _ :: _, _, h => by simp at h
  | _ :: _, [], _, h => by simp at h
  | _ :: l, _ :: l', i, h => by
    simp only [trk_ents_cons, List.map_cons]
    rw [trk_ents_idx l l' (i + 1) (by simpa using h)]

theorem trk_keyedTail_shape (p : Path) (sr sr' orr orr' : List KE)
    (h1 : sr'.map (fun e => e.2.1) = sr.map (fun e => e.2.1))
    (h2 : orr'.map (fun e => e.2.1) = orr.map (fun e => e.2.1)) :
    (keyedTail p sr' orr').shape = (keyedTail p sr orr).shape := by
  have l1 := congrArg List.length h1
  have l2 := congrArg List.length h2
  simp only [List.length_map] at l1 l2
  have e1 : (sr'.map (fun e => (⟨p ++ [.idx e.2.1], e.2.2⟩ : UE))).map (·.path) =
      (sr.map (fun e => (⟨p ++ [.idx e.2.1], e.2.2⟩ : UE))).map (·.path) := by
    have := congrArg (List.map (fun n => p ++ [PSeg.idx n])) h1
    simpa [List.map_map, Function.comp_def] using this
  have e2 : (orr'.map (fun e => (⟨p ++ [.idx e.2.1], e.2.2⟩ : UE))).map (·.path) =
      (orr.map (fun e => (⟨p ++ [.idx e.2.1], e.2.2⟩ : UE))).map (·.path) := by
    have := congrArg (List.map (fun n => p ++ [PSeg.idx n])) h2
    simpa [List.map_map, Function.comp_def] using this
  simp only [Res.shape, keyedTail, List.map_nil, Prod.mk.injEq, and_true, true_and]
  exact ⟨by rw [l1, l2], e1, e2⟩

/-- once the right list is exhausted nothing is matched any more -/
theorem trk_walk_right_nil (cfg : Cfg) (p : Path) (sa oa : Val) : ∀ (xs : List Val) (ks : List Str) (i : Nat)
    (sr : List KE), ks.length = xs.length → keyedWalk cfg p sa oa i xs ks sr [] = .ok (keyedTail p sr [])
  | [], _, _, _, _ => by simp [keyedWalk]
  | _ :: _, [], _, _, h => by simp at h
  | x :: xs, k :: ks, i, sr, h => by
    simp only [keyedWalk, findKey]
    exact trk_walk_right_nil cfg p sa oa xs ks (i + 1) sr (by simpa using h)

/-! ### lists of leaves: the two runs use the same keys and pair the same positions -/

/-- the entry of the mapped run that corresponds to an entry of the run with `transform` -/
def mapE (cfg : Cfg) (p : Path) (e : KE) : KE :=
  (e.1, e.2.1, mapTChild cfg (p ++ [.idx e.2.1]) (transformAt cfg p) e.2.2)

theorem trk_mkEntries_map (cfg : Cfg) (p : Path) : ∀ (ks : List Str) (xs : List Val) (i : Nat),
    mkEntries i ks (mapTL cfg p (transformAt cfg p) i xs) = (mkEntries i ks xs).map (mapE cfg p)
  | [], xs, i => by cases xs <;> simp [mkEntries, mapTL]
  | _ :: _, [], i => by simp [mkEntries, mapTL]
  | k :: ks, x :: xs, i => by
    rw [mapTL_cons]
    simp only [mkEntries, List.map_cons, mapE, trk_mkEntries_map cfg p ks xs (i + 1)]

theorem trk_mkEntries_mem : ∀ (ks : List Str) (xs : List Val) (i : Nat), ∀ e ∈ mkEntries i ks xs, e.2.2 ∈ xs
  | [], xs, _, e, he => by cases xs <;> simp [mkEntries] at he
  | _ :: _, [], _, e, he => by simp [mkEntries] at he
  | k :: ks, x :: xs, i, e, he => by
    simp only [mkEntries, List.mem_cons] at he
    rcases he with rfl | he
    · simp
    · exact List.mem_cons_of_mem _ (trk_mkEntries_mem ks xs (i + 1) e he)

theorem trk_findKey_map (cfg : Cfg) (p : Path) (k : Str) : ∀ l : List KE,
    findKey k (l.map (mapE cfg p)) =
      (findKey k l).map (fun jy => (jy.1, mapTChild cfg (p ++ [.idx jy.1]) (transformAt cfg p) jy.2))
  | [] => rfl
  | (k', i, v) :: rest => by
    simp only [List.map_cons, mapE, findKey]
    by_cases hk : k = k'
    · simp [hk]
    · simp only [hk, if_false]; exact trk_findKey_map cfg p k rest

theorem trk_eraseKey_map (cfg : Cfg) (p : Path) (k : Str) : ∀ l : List KE,
    eraseKey k (l.map (mapE cfg p)) = (eraseKey k l).map (mapE cfg p)
  | [] => rfl
  | (k', i, v) :: rest => by
    simp only [List.map_cons, mapE, eraseKey]
    by_cases hk : k = k'
    · simp [hk]
    · simp only [hk, if_false, List.map_cons, mapE, trk_eraseKey_map cfg p k rest]

theorem trk_findKey_mem : ∀ (l : List KE) (k : Str) (j : Nat) (y : Val), findKey k l = some (j, y) → ∃ k', (k', j, y) ∈ l
  | [], _, _, _, h => by simp [findKey] at h
  | (k', i, v) :: rest, k, j, y, h => by
    simp only [findKey] at h
    split at h
    · cases h; exact ⟨k', List.mem_cons_self⟩
    · obtain ⟨k'', hm⟩ := trk_findKey_mem rest k j y h
      exact ⟨k'', List.mem_cons_of_mem _ hm⟩

theorem trk_mapE_idx (cfg : Cfg) (p : Path) (l : List KE) :
    (l.map (mapE cfg p)).map (fun e => e.2.1) = l.map (fun e => e.2.1) := by
  simp [List.map_map, Function.comp_def, mapE]

/-- a leaf whose transformed value is not a scalar is `None`, and stays `None` -/
theorem trk_leaf_nonscalar {f : Val → Val} (hf : TrLeafFn f) {x : Val} (hx : isLeaf x = true)
    (hns : isPyScalar (f x) = false) : x = .none ∧ f .none = .none := by
  cases x with
  | none =>
    rcases hf.none with h | h
    · rw [h] at hns; cases hns
    · exact ⟨rfl, h⟩
  | bool b => rw [hf.scalar _ rfl] at hns; cases hns
  | int i => rw [hf.scalar _ rfl] at hns; cases hns
  | flt r => rw [hf.scalar _ rfl] at hns; cases hns
  | str s => rw [hf.scalar _ rfl] at hns; cases hns
  | list c xs => simp [isLeaf] at hx
  | dict c kvs => simp [isLeaf] at hx

/-- the transformed value of a leaf is a leaf -/
theorem trk_leaf_image {f : Val → Val} (hf : TrLeafFn f) {y : Val} (hy : isLeaf y = true) : isLeaf (f y) = true := by
  have hsc : ∀ z : Val, isPyScalar z = true → isLeaf z = true := by
    intro z hz; cases z <;> simp_all [isPyScalar, isLeaf]
  cases y with
  | none =>
    rcases hf.none with h | h
    · exact hsc _ h
    · rw [h]; rfl
  | bool b => exact hsc _ (hf.scalar _ rfl)
  | int i => exact hsc _ (hf.scalar _ rfl)
  | flt r => exact hsc _ (hf.scalar _ rfl)
  | str s => exact hsc _ (hf.scalar _ rfl)
  | list c xs => simp [isLeaf] at hy
  | dict c kvs => simp [isLeaf] at hy

/-- the keys of a list of records and leaves are the keys of the mapped list in the run without `transform` -/
theorem trk_keysOf_flat (cfg : Cfg) (hck : cfg.ck.pats.isEmpty = true) (hl : LeafTransform cfg) (p : Path) :
    ∀ (xs : List Val) (i : Nat), (∀ x ∈ xs, isRecV x = true ∨ isLeaf x = true) →
      ∃ ks, keysOf cfg p i xs = .ok ks ∧ keysOf (noTransf cfg) p i (mapTL cfg p (transformAt cfg p) i xs) = .ok ks
  | [], _, _ => ⟨[], rfl, by simp [mapTL, keysOf]⟩
  | x :: xs, i, h => by
    obtain ⟨ks, h1, h2⟩ := trk_keysOf_flat cfg hck hl p xs (i + 1) (fun z hz => h z (List.mem_cons_of_mem _ hz))
    have hf := tr_leafFn_transformAt hl p
    rw [mapTL_cons]
    rcases h x List.mem_cons_self with hr | hlf
    · have hr' : isRecV (mapTChild cfg (p ++ [.idx i]) (transformAt cfg p) x) = true := by
        cases x <;> simp_all [isRecV, mapTChild, isLeaf, mapT]
      exact ⟨[] :: ks, by simp only [keysOf, trk_keyOf_rec cfg hck p i hr, h1],
        by simp only [keysOf, trk_keyOf_rec (noTransf cfg) hck p i hr', h2]⟩
    · have hc : mapTChild cfg (p ++ [.idx i]) (transformAt cfg p) x = transformAt cfg p x := by
        simp [mapTChild, hlf]
      have him := trk_leaf_image hf hlf
      refine ⟨jsonVal (transformAt cfg p x) :: ks, ?_, ?_⟩
      · have : keyOf cfg p i x = .ok (jsonVal (transformAt cfg p x)) := by
          cases x <;> simp_all [keyOf, isLeaf]
        simp only [keysOf, this, h1]
      · rw [hc]
        have : keyOf (noTransf cfg) p i (transformAt cfg p x) = .ok (jsonVal (transformAt cfg p x)) := by
          generalize transformAt cfg p x = v at him
          cases v <;> simp_all [keyOf, isLeaf, transformAt_noTransf]
        simp only [keysOf, this, h2]

/-- **pairs that contain a leaf**: with the same keys on both sides the two runs pair the same positions, and a pair
one member of which is a leaf is decided without entering a container -/
theorem trk_walk_leafpairs (cfg : Cfg) (hl : LeafTransform cfg) (p : Path) (sa oa sa' oa' : Val) :
    ∀ (xs : List Val) (ks : List Str) (i : Nat) (sr orr : List KE),
      (∀ x ∈ xs, ∀ e ∈ orr, isLeaf x = true ∨ isLeaf e.2.2 = true) →
      TrERel (keyedWalk cfg p sa oa i xs ks sr orr)
        (keyedWalk (noTransf cfg) p sa' oa' i (mapTL cfg p (transformAt cfg p) i xs) ks
          (sr.map (mapE cfg p)) (orr.map (mapE cfg p)))
  | [], ks, i, sr, orr, _ => by
    simp only [mapTL, keyedWalk]
    show Res.shape _ = Res.shape _
    exact trk_keyedTail_shape p _ _ _ _ (trk_mapE_idx cfg p sr) (trk_mapE_idx cfg p orr)
  | x :: xs, [], i, sr, orr, _ => by
    rw [mapTL_cons]
    simp [keyedWalk]
  | x :: xs, k :: ks, i, sr, orr, h => by
    have hf := tr_leafFn_transformAt hl p
    have hrest : ∀ orr' : List KE, (∀ e ∈ orr', e ∈ orr) →
        ∀ z ∈ xs, ∀ e ∈ orr', isLeaf z = true ∨ isLeaf e.2.2 = true :=
      fun orr' hs z hz e he => h z (List.mem_cons_of_mem _ hz) e (hs e he)
    rw [mapTL_cons]
    simp only [keyedWalk, trk_findKey_map]
    cases hfk : findKey k orr with
    | none =>
      simp only [Option.map_none]
      exact trk_walk_leafpairs cfg hl p sa oa sa' oa' xs ks (i + 1) sr orr (hrest orr (fun _ he => he))
    | some jy =>
      obtain ⟨j, y⟩ := jy
      simp only [Option.map_some, trk_eraseKey_map]
      obtain ⟨k', hmem⟩ := trk_findKey_mem orr k j y hfk
      have hlf := h x List.mem_cons_self _ hmem
      have hsub : ∀ e ∈ eraseKey k orr, e ∈ orr := by
        intro e he
        clear hlf hmem hfk
        induction orr with
        | nil => simp [eraseKey] at he
        | cons a rest ih =>
          obtain ⟨ka, ia, va⟩ := a
          simp only [eraseKey] at he
          split at he
          · exact List.mem_cons_of_mem _ he
          · rcases List.mem_cons.1 he with rfl | he'
            · exact List.mem_cons_self
            · exact List.mem_cons_of_mem _ (ih (fun z hz e' he' => h z hz e' (List.mem_cons_of_mem _ he'))
                (fun orr' hs z hz e' he' => h z (List.mem_cons_of_mem _ hz) e' (List.mem_cons_of_mem _ (hs e' he'))) he')
      have ih := trk_walk_leafpairs cfg hl p sa oa sa' oa' xs ks (i + 1) (eraseKey k sr) (eraseKey k orr)
        (hrest _ hsub)
      have hact := tr_classifyItem_shape cfg p (p ++ [if i = j then PSeg.idx i else PSeg.idx2 i j])
        (p ++ [if i = j then PSeg.idx i else PSeg.idx2 i j]) sa oa sa' oa' x y
        (mapTChild cfg (p ++ [.idx i]) (transformAt cfg p) x)
        (mapTChild cfg (p ++ [.idx j]) (transformAt cfg p) y)
        (mapT_child_tyOf hf cfg _ x) (mapT_child_tyOf hf cfg _ y) (mapT_child_scalar hf cfg _ x) (mapT_child_scalar hf cfg _ y)
      cases hc : classifyItem cfg p (p ++ [if i = j then PSeg.idx i else PSeg.idx2 i j])
          (p ++ [if i = j then PSeg.idx i else PSeg.idx2 i j]) sa oa x y with
      | emit r0 s0 =>
        cases hc' : classifyItem (noTransf cfg) p (p ++ [if i = j then PSeg.idx i else PSeg.idx2 i j])
            (p ++ [if i = j then PSeg.idx i else PSeg.idx2 i j]) sa' oa'
            (mapTChild cfg (p ++ [.idx i]) (transformAt cfg p) x)
            (mapTChild cfg (p ++ [.idx j]) (transformAt cfg p) y) with
        | emit r0' s0' =>
          rw [hc, hc'] at hact
          simp only
          exact tr_erel_cons hact _ _ ih
        | descend => rw [hc, hc'] at hact; exact hact.elim
      | descend =>
        cases hc' : classifyItem (noTransf cfg) p (p ++ [if i = j then PSeg.idx i else PSeg.idx2 i j])
            (p ++ [if i = j then PSeg.idx i else PSeg.idx2 i j]) sa' oa'
            (mapTChild cfg (p ++ [.idx i]) (transformAt cfg p) x)
            (mapTChild cfg (p ++ [.idx j]) (transformAt cfg p) y) with
        | emit r0' s0' => rw [hc, hc'] at hact; exact hact.elim
        | descend =>
          obtain ⟨ht, hns⟩ := tr_classifyItem_descend hc
          have hxl : isLeaf x = true := by
            rcases hlf with hxl | hyl
            · exact hxl
            · -- `y` is a leaf, so its transformed value is a leaf; equal types make `x` a leaf too
              have hy' := trk_leaf_image hf hyl
              cases x with
              | list c zs => rw [hf.list] at ht; generalize transformAt cfg p y = v at ht hy'; cases v <;> simp_all [tyOf, isLeaf]
              | dict c zs => rw [hf.dict] at ht; generalize transformAt cfg p y = v at ht hy'; cases v <;> simp_all [tyOf, isLeaf]
              | _ => rfl
          obtain ⟨hx0, hn0⟩ := trk_leaf_nonscalar hf hxl hns
          subst hx0
          have hx' : mapTChild cfg (p ++ [.idx i]) (transformAt cfg p) Val.none = Val.none := by
            simp [mapTChild, isLeaf, hn0]
          simp only [hx']
          have e1 : ∀ q w, sub cfg .item q Val.none w = .ok Res.empty := fun q w => by simp [sub]
          have e2 : ∀ q w, sub (noTransf cfg) .item q Val.none w = .ok Res.empty := fun q w => by simp [sub]
          rw [e1, e2]
          exact tr_erel_bind _ _ _ _ (show TrERel (.ok Res.empty) (.ok Res.empty) from rfl) ih

/-! ### the two runs agree (keyed entry point, record-only lists, no composite key) -/

mutual
theorem trk_sub (cfg : Cfg) (hd : cfg.direct = false) (hck : cfg.ck.pats.isEmpty = true) (hl : LeafTransform cfg)
    (site : Site) (p : Path) (v w : Val) (hv : recOnly v = true) (hw : recOnly w = true) :
    TrERel (sub cfg site p v w) (sub (noTransf cfg) site p (mapT cfg p v) (mapT cfg p w)) :=
  match v, w, hv, hw with
  | .list c xs, w, hv, hw => by
    cases w with
    | list c' ys =>
      simp only [recOnly, Bool.and_eq_true, Bool.or_eq_true] at hv hw
      by_cases h3 : excluded cfg p = true
      · simp [sub, mapT, hd, h3, Res.shape]
      · have hboth : xs.all isRecV = true → ys.all isRecV = true →
            TrERel (sub cfg site p (.list c xs) (.list c' ys))
              (sub (noTransf cfg) site p (mapT cfg p (.list c xs)) (mapT cfg p (.list c' ys))) := by
          intro hxr hyr
          have hix := trk_recItems xs hxr
          have hiy := trk_recItems ys hyr
          have hkx := trk_keysOf cfg hck p 0 xs hix
          have hky := trk_keysOf cfg hck p 0 ys hiy
          have hkx' := trk_keysOf (noTransf cfg) hck p 0 _ (trk_mapTL_recItems cfg p (transformAt cfg p) xs 0 hix)
          have hky' := trk_keysOf (noTransf cfg) hck p 0 _ (trk_mapTL_recItems cfg p (transformAt cfg p) ys 0 hiy)
          have ih := trk_keyedWalk cfg hd hck hl p (.list .n0 xs) (.list .n0 ys)
            (.list .n0 (mapTL cfg p (transformAt cfg p) 0 xs)) (.list .n0 (mapTL cfg p (transformAt cfg p) 0 ys)) 0 xs ys
            hv.2 hw.2
          simp only [sub, mapT, hd, h3, noTransf_direct, excluded_noTransf, hkx, hky, hkx', hky', Bool.false_eq_true,
            false_and, and_false, if_false]
          exact ih
        have hleaf : (∀ x ∈ xs, ∀ y ∈ ys, isLeaf x = true ∨ isLeaf y = true) →
            TrERel (sub cfg site p (.list c xs) (.list c' ys))
              (sub (noTransf cfg) site p (mapT cfg p (.list c xs)) (mapT cfg p (.list c' ys))) := by
          intro hp
          have hfx : ∀ x ∈ xs, isRecV x = true ∨ isLeaf x = true := fun x hx => by
            rcases hv.1 with h | h
            · exact .inl (List.all_eq_true.1 h x hx)
            · exact .inr (List.all_eq_true.1 h x hx)
          have hfy : ∀ y ∈ ys, isRecV y = true ∨ isLeaf y = true := fun y hy => by
            rcases hw.1 with h | h
            · exact .inl (List.all_eq_true.1 h y hy)
            · exact .inr (List.all_eq_true.1 h y hy)
          obtain ⟨ks, hk1, hk1'⟩ := trk_keysOf_flat cfg hck hl p xs 0 hfx
          obtain ⟨ko, hk2, hk2'⟩ := trk_keysOf_flat cfg hck hl p ys 0 hfy
          simp only [sub, mapT, hd, h3, noTransf_direct, excluded_noTransf, hk1, hk2, hk1', hk2', Bool.false_eq_true,
            false_and, and_false, if_false]
          rw [trk_mkEntries_map, trk_mkEntries_map]
          exact trk_walk_leafpairs cfg hl p _ _ _ _ xs ks 0 _ _
            (fun x hx e he => hp x hx e.2.2 (trk_mkEntries_mem ko ys 0 e he))
        rcases hv.1 with hxr | hxl
        · rcases hw.1 with hyr | hyl
          · exact hboth hxr hyr
          · exact hleaf (fun x _ y hy => .inr (List.all_eq_true.1 hyl y hy))
        · exact hleaf (fun x hx y _ => .inl (List.all_eq_true.1 hxl x hx))
    | _ => simp [sub, mapT]
  | .dict c kvs, w, hv, hw => by
    cases w with
    | dict c' kvs' =>
      simp only [recOnly] at hv hw
      have ih := trk_dictWalk cfg hd hck hl p (.dict .n0 kvs) (.dict .n0 kvs')
        (.dict .n0 (mapTK cfg p kvs)) (.dict .n0 (mapTK cfg p kvs')) kvs kvs' true true kvs hv hw
      cases site <;> cases c' <;> simp [sub, mapT, hd] <;> exact ih
    | _ => simp [sub, mapT]
  | .none, w, _, _ => by cases w <;> simp [sub, mapT, Res.shape]
  | .bool _, w, _, _ => by cases w <;> simp [sub, mapT]
  | .int _, w, _, _ => by cases w <;> simp [sub, mapT]
  | .flt _, w, _, _ => by cases w <;> simp [sub, mapT]
  | .str _, w, _, _ => by cases w <;> simp [sub, mapT]
termination_by structural v

theorem trk_dictWalk (cfg : Cfg) (hd : cfg.direct = false) (hck : cfg.ck.pats.isEmpty = true) (hl : LeafTransform cfg)
    (p : Path) (sa oa sa' oa' : Val) (skvs okvs : List (Str × Val)) (still still' : Bool) (kvs : List (Str × Val))
    (hk : recOnlyK kvs = true) (ho : recOnlyK okvs = true) :
    TrERel (dictWalk cfg p sa oa skvs okvs still kvs)
      (dictWalk (noTransf cfg) p sa' oa' (mapTK cfg p skvs) (mapTK cfg p okvs) still' (mapTK cfg p kvs)) :=
  match kvs, still, still', hk with
  | [], still, still', _ => by
    simp only [dictWalk, mapTK]
    exact mapTK_dictTail_shape cfg p sa oa sa' oa' skvs okvs still still'
  | (k, v) :: rest, still, still', hk => by
    simp only [recOnlyK, Bool.and_eq_true] at hk
    rw [mapTK_cons]
    simp only [dictWalk, mapTK_lookup]
    cases hlk : Val.lookup k okvs with
    | none =>
      simp only [Option.map_none]
      exact trk_dictWalk cfg hd hck hl p sa oa sa' oa' skvs okvs still still' rest hk.2 ho
    | some w =>
      simp only [Option.map_some]
      have hrw := trk_recOnlyK_lookup okvs k w ho hlk
      have hf := tr_leafFn_transformAt hl (p ++ [.key k])
      have hact := tr_classifyEntry_shape cfg (p ++ [.key k]) v w
        (mapTChild cfg (p ++ [.key k]) (transformAt cfg (p ++ [.key k])) v)
        (mapTChild cfg (p ++ [.key k]) (transformAt cfg (p ++ [.key k])) w)
        (mapT_child_tyOf hf cfg _ v) (mapT_child_tyOf hf cfg _ w) (mapT_child_scalar hf cfg _ v) (mapT_child_scalar hf cfg _ w)
      cases hc : classifyEntry cfg (p ++ [.key k]) v w with
      | emit r0 s0 =>
        cases hc' : classifyEntry (noTransf cfg) (p ++ [.key k])
            (mapTChild cfg (p ++ [.key k]) (transformAt cfg (p ++ [.key k])) v)
            (mapTChild cfg (p ++ [.key k]) (transformAt cfg (p ++ [.key k])) w) with
        | emit r0' s0' =>
          rw [hc, hc'] at hact
          simp only
          exact tr_erel_cons hact _ _
            (trk_dictWalk cfg hd hck hl p sa oa sa' oa' skvs okvs (still && s0) (still' && s0') rest hk.2 ho)
        | descend => rw [hc, hc'] at hact; exact hact.elim
      | descend =>
        cases hc' : classifyEntry (noTransf cfg) (p ++ [.key k])
            (mapTChild cfg (p ++ [.key k]) (transformAt cfg (p ++ [.key k])) v)
            (mapTChild cfg (p ++ [.key k]) (transformAt cfg (p ++ [.key k])) w) with
        | emit r0' s0' => rw [hc, hc'] at hact; exact hact.elim
        | descend =>
          obtain ⟨ht, hns⟩ := tr_classifyEntry_descend hc
          have hns' : isPyScalar (transformAt cfg (p ++ [.key k]) w) = false := by
            rw [← tyOf_scalar_eq ht]; exact hns
          simp only
          rw [mapT_child_nonscalar hf cfg _ v hns, mapT_child_nonscalar hf cfg _ w hns']
          exact tr_erel_bind _ _ _ _ (trk_sub cfg hd hck hl .entry (p ++ [.key k]) v w hk.1 hrw)
            (trk_dictWalk cfg hd hck hl p sa oa sa' oa' skvs okvs still still' rest hk.2 ho)
termination_by structural kvs

theorem trk_keyedWalk (cfg : Cfg) (hd : cfg.direct = false) (hck : cfg.ck.pats.isEmpty = true) (hl : LeafTransform cfg)
    (p : Path) (sa oa sa' oa' : Val) (i : Nat) (xs ys : List Val)
    (hx : recOnlyL xs = true) (hy : recOnlyL ys = true) :
    TrERel (keyedWalk cfg p sa oa i xs (List.replicate xs.length []) (ents i xs) (ents i ys))
      (keyedWalk (noTransf cfg) p sa' oa' i (mapTL cfg p (transformAt cfg p) i xs)
        (List.replicate (mapTL cfg p (transformAt cfg p) i xs).length [])
        (ents i (mapTL cfg p (transformAt cfg p) i xs)) (ents i (mapTL cfg p (transformAt cfg p) i ys))) :=
  match xs, ys, i, hx, hy with
  | [], ys, i, _, _ => by
    simp only [mapTL, keyedWalk, trk_ents_nil]
    show Res.shape _ = Res.shape _
    exact trk_keyedTail_shape p [] [] _ _ rfl
      (trk_ents_idx ys (mapTL cfg p (transformAt cfg p) i ys) i (mapTL_length cfg p _ ys i).symm)
  | x :: xs, [], i, _, _ => by
    have e0 : mapTL cfg p (transformAt cfg p) i ([] : List Val) = [] := by simp [mapTL]
    rw [e0, trk_ents_nil, trk_walk_right_nil cfg p sa oa (x :: xs) _ i _ (by simp),
      trk_walk_right_nil (noTransf cfg) p sa' oa' _ _ i _ (by simp)]
    show Res.shape _ = Res.shape _
    exact trk_keyedTail_shape p _ _ [] []
      (trk_ents_idx (x :: xs) (mapTL cfg p (transformAt cfg p) i (x :: xs)) i (mapTL_length cfg p _ (x :: xs) i).symm) rfl
  | x :: xs, y :: ys, i, hx, hy => by
    simp only [recOnlyL, Bool.and_eq_true] at hx hy
    rw [mapTL_cons, mapTL_cons]
    simp only [List.length_cons, List.replicate_succ, trk_ents_cons, keyedWalk, findKey, eraseKey, if_true]
    have hf := tr_leafFn_transformAt hl p
    have hact := tr_classifyItem_shape cfg p (p ++ [.idx i]) (p ++ [.idx i]) sa oa sa' oa' x y
      (mapTChild cfg (p ++ [.idx i]) (transformAt cfg p) x)
      (mapTChild cfg (p ++ [.idx i]) (transformAt cfg p) y)
      (mapT_child_tyOf hf cfg _ x) (mapT_child_tyOf hf cfg _ y) (mapT_child_scalar hf cfg _ x) (mapT_child_scalar hf cfg _ y)
    cases hc : classifyItem cfg p (p ++ [.idx i]) (p ++ [.idx i]) sa oa x y with
    | emit r0 s0 =>
      cases hc' : classifyItem (noTransf cfg) p (p ++ [.idx i]) (p ++ [.idx i]) sa' oa'
          (mapTChild cfg (p ++ [.idx i]) (transformAt cfg p) x)
          (mapTChild cfg (p ++ [.idx i]) (transformAt cfg p) y) with
      | emit r0' s0' =>
        rw [hc, hc'] at hact
        simp only
        exact tr_erel_cons hact _ _ (trk_keyedWalk cfg hd hck hl p sa oa sa' oa' (i + 1) xs ys hx.2 hy.2)
      | descend => rw [hc, hc'] at hact; exact hact.elim
    | descend =>
      cases hc' : classifyItem (noTransf cfg) p (p ++ [.idx i]) (p ++ [.idx i]) sa' oa'
          (mapTChild cfg (p ++ [.idx i]) (transformAt cfg p) x)
          (mapTChild cfg (p ++ [.idx i]) (transformAt cfg p) y) with
      | emit r0' s0' => rw [hc, hc'] at hact; exact hact.elim
      | descend =>
        obtain ⟨ht, hns⟩ := tr_classifyItem_descend hc
        have hns' : isPyScalar (transformAt cfg p y) = false := by
          rw [← tyOf_scalar_eq ht]; exact hns
        simp only
        rw [mapT_child_nonscalar hf cfg _ x hns, mapT_child_nonscalar hf cfg _ y hns']
        exact tr_erel_bind _ _ _ _ (trk_sub cfg hd hck hl .item (p ++ [.idx i]) x y hx.1 hy.1)
          (trk_keyedWalk cfg hd hck hl p sa oa sa' oa' (i + 1) xs ys hx.2 hy.2)
termination_by structural xs
end

/-- **transform, keyed/default entry point, record-only lists, no composite key**: the run with `transform`
and the run without `transform` on the mapped trees end in the same error or in results of the same shape -/
theorem compareTop_tr_keyed (cfg : Cfg) (hd : cfg.direct = false) (hck : cfg.ck.pats.isEmpty = true)
    (hl : LeafTransform cfg) (a b : Val) (ha : recOnly a = true) (hb : recOnly b = true) :
    TrERel (compareTop cfg a b) (compareTop (noTransf cfg) (mapT cfg [] a) (mapT cfg [] b)) := by
  cases a with
  | dict c kvs =>
    cases c with
    | plain => cases b <;> simp [compareTop, mapT]
    | n0 =>
      cases b with
      | dict c' kvs' =>
        cases c' with
        | plain => simp [compareTop, mapT]
        | n0 =>
          simp only [recOnly] at ha hb
          simp only [compareTop, mapT]
          exact trk_dictWalk cfg hd hck hl [] _ _ _ _ kvs kvs' true true kvs ha hb
      | _ => simp [compareTop, mapT]
  | list c xs =>
    cases c with
    | plain => cases b <;> simp [compareTop, mapT]
    | n0 =>
      cases b with
      | list c' ys =>
        cases c' with
        | plain => simp [compareTop, mapT]
        | n0 =>
          have h := trk_sub cfg hd hck hl .entry [] (.list .n0 xs) (.list .n0 ys) ha hb
          simp only [mapT] at h
          simp only [compareTop, mapT]
          exact h
      | _ => simp [compareTop, mapT]
  | _ => cases b <;> simp [compareTop, mapT]

/-- the verdict of the run with `transform` is the verdict of the plain run on the mapped trees -/
theorem transform_keyed_verdict (cfg : Cfg) (hd : cfg.direct = false) (hck : cfg.ck.pats.isEmpty = true)
    (hl : LeafTransform cfg) (a b : Val) (ha : recOnly a = true) (hb : recOnly b = true) :
    verdict (compareTop cfg a b) = verdict (compareTop { cfg with tr := [] } (mapT cfg [] a) (mapT cfg [] b)) := by
  have hrel := compareTop_tr_keyed cfg hd hck hl a b ha hb
  change _ = verdict (compareTop (noTransf cfg) (mapT cfg [] a) (mapT cfg [] b))
  cases hc : compareTop cfg a b <;> cases hc' : compareTop (noTransf cfg) (mapT cfg [] a) (mapT cfg [] b) <;>
    rw [hc, hc'] at hrel
  · rfl
  · exact hrel.elim
  · exact hrel.elim
  · simp only [tr_erel_ok_ok, Res.shape, Prod.mk.injEq] at hrel
    simp [verdict, hrel.1]

/-! ### examples and the limits of the statement -/

/-- `{'rows': [{'n': 'A', 'v': 1}, {'n': 'b', 'v': 2}]}` against `{'rows': [{'n': 'a', 'v': 1}, {'n': 'B', 'v': 3}, {'n': 'c'}]}`
with `('//n', lower)`: record-only lists, the names agree after the transform, one changed value, one extra record -/
def trkCfg : Cfg := { Cfg.default Flags.init false with tr := [⟨['/', '/', 'n'], lowerFn⟩] }
def trkA : Val := .dict .n0 [(['r'], .list .n0 [.dict .n0 [(['n'], .str ['A']), (['v'], .int 1)],
  .dict .n0 [(['n'], .str ['b']), (['v'], .int 2)]])]
def trkB : Val := .dict .n0 [(['r'], .list .n0 [.dict .n0 [(['n'], .str ['a']), (['v'], .int 1)],
  .dict .n0 [(['n'], .str ['B']), (['v'], .int 3)], .dict .n0 [(['n'], .str ['c'])]])]

theorem trkCfg_leaf : LeafTransform trkCfg := by
  intro t ht
  simp only [trkCfg, Cfg.default, List.mem_singleton] at ht
  subst ht
  refine ⟨fun _ _ => rfl, fun _ _ => rfl, ?_, .inr rfl⟩
  intro v hv
  cases v <;> simp_all [lowerFn, isPyScalar]

theorem trk_example :
    recOnly trkA = true ∧ recOnly trkB = true ∧ trkCfg.direct = false ∧ trkCfg.ck.pats.isEmpty = true ∧
    (compareTop trkCfg trkA trkB).map (fun r => (r.diffs, r.notEqual.map (·.path), r.otherUnique.map (·.path)))
      = .ok (2, [[.key ['r'], .idx 1, .key ['v']]], [[.key ['r'], .idx 2]]) ∧
    (compareTop { trkCfg with tr := [] } trkA trkB).map (·.diffs) = .ok 4 := by
  decide

/-- with a composite key and a transform that returns a non-`str` for a key field (the identity function on the `int`
key field `id`) the comparison used to raise `TypeError` (the key concatenated the transformed field); with fix C08-b
the transformed field goes through the JSON text like every other value: the run returns, as the plain run on the
(identical) mapped trees does -/
def trkCkCfg : Cfg := { Cfg.default Flags.init false with ck := .one ['i', 'd'], tr := [⟨['/', '/', 'i', 'd'], id⟩] }
def trkCkA : Val := .list .n0 [.dict .n0 [(['i', 'd'], .int 1)]]

theorem trkCkCfg_leaf : LeafTransform trkCkCfg := by
  intro t ht
  simp only [trkCkCfg, Cfg.default, List.mem_singleton] at ht
  subst ht
  exact ⟨fun _ _ => rfl, fun _ _ => rfl, fun _ h => h, .inr rfl⟩

theorem trk_ck_fixed :
    recOnly trkCkA = true ∧ (compareTop trkCkCfg trkCkA trkCkA).map (·.diffs) = .ok 0 ∧
      mapT trkCkCfg [] trkCkA = trkCkA ∧
      (compareTop { trkCkCfg with tr := [] } (mapT trkCkCfg [] trkCkA) (mapT trkCkCfg [] trkCkA)).map (·.diffs) = .ok 0 := by
  decide

end N0.Compare
