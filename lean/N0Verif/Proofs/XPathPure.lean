import N0Verif.Model.XPathApi
import N0Verif.Proofs.Digits
/-!
  C04, string layer: an abstract *safety predicate* `P` on strings that is preserved by every way
  the resolver synthesises tokens (before fix C04-a it also had to exclude the index text `new()`,
  the only writing branch; now the always-true predicate is an instance, see `XPathPureFind`)
  (`tokenize`, `fixBr`, `splitChar`, `stripWs`, `splitOnce`, `splitNameIndex`, `parseCond`,
  `bracket`, `natStr/intStr`, `condValStr`, concatenation with the fixed pieces).

  Two instances: `NoW` ("the letter w does not occur", character level) and `NoNew`
  ("`new()` does not occur as a substring", `Proofs/XPathPureInfix.lean`).
-/
namespace N0.XPath
open N0 N0.Py N0.Val

/-- closure properties of a safety predicate on strings -/
class SafePred (P : Str → Prop) : Prop where
  /-- closed under substrings -/
  sub : ∀ {s t : Str}, t <:+: s → P s → P t
  /-- every string without the letter `w` is safe (all fixed pieces, all decimal numbers) -/
  noW : ∀ {s : Str}, 'w' ∉ s → P s
  /-- gluing two safe strings with a character that does not occur in `new()` -/
  glue : ∀ {a b : Str} {c : Char}, c ∉ sNew → P a → P b → P (a ++ c :: b)
  /-- `replace("][", "]/[")` -/
  fixBr : ∀ {s : Str}, P s → P (fixBr s)

theorem sNew_eq : sNew = ['n', 'e', 'w', '(', ')'] := by decide
theorem sTextFn_eq : sTextFn = ['t', 'e', 'x', 't', '(', ')'] := by decide

section generic
variable {P : Str → Prop} [SafePred P]

theorem P_nil : P [] := SafePred.noW (by simp)

theorem P_snoc {a : Str} {c : Char} (hc : c ∉ sNew) (ha : P a) : P (a ++ [c]) :=
  SafePred.glue hc ha P_nil

theorem P_cons {a : Str} {c : Char} (hc : c ∉ sNew) (ha : P a) : P (c :: a) := by
  have := SafePred.glue (P := P) (a := []) hc P_nil ha
  simpa using this

theorem P_bracket {s : Str} (h : P s) : P (bracket s) := by
  unfold bracket
  have h1 : P ('[' :: s) := P_cons (by decide) h
  have := P_snoc (P := P) (c := ']') (by decide) h1
  simpa using this

theorem P_slash : P slash := SafePred.noW (P := P) (by decide)

theorem P_append_slash {a b : Str} (ha : P a) (hb : P b) : P (a ++ slash ++ b) := by
  have := SafePred.glue (P := P) (c := '/') (by decide) ha hb
  simpa [slash] using this

theorem P_found_idx {a b : Str} (ha : P a) (hb : P b) : P (a ++ bracket b) := by
  unfold bracket
  have h1 : P (a ++ '[' :: b) := SafePred.glue (by decide) ha hb
  have := P_snoc (P := P) (c := ']') (by decide) h1
  simpa using this

/-! ### substrings -/

theorem dropWhile_suffix' {α} (p : α → Bool) (l : List α) : l.dropWhile p <:+ l :=
  List.dropWhile_suffix p

theorem stripWs_infix (s : Str) : stripWs s <:+: s := by
  unfold stripWs
  have h1 : (s.dropWhile isPySpace) <:+ s := List.dropWhile_suffix _
  have h2 : ((s.dropWhile isPySpace).reverse.dropWhile isPySpace) <:+ (s.dropWhile isPySpace).reverse :=
    List.dropWhile_suffix _
  have h3 : ((s.dropWhile isPySpace).reverse.dropWhile isPySpace).reverse <+: (s.dropWhile isPySpace) := by
    have := List.reverse_prefix.2 h2
    simpa using this
  exact List.IsInfix.trans h3.isInfix h1.isInfix

theorem P_stripWs {s : Str} (h : P s) : P (stripWs s) := SafePred.sub (stripWs_infix s) h

theorem P_dropLast {s : Str} (h : P s) : P s.dropLast :=
  SafePred.sub (List.dropLast_prefix s).isInfix h

theorem P_drop {s : Str} (n : Nat) (h : P s) : P (s.drop n) :=
  SafePred.sub (List.drop_suffix n s).isInfix h

theorem split1_spec (sep : Str) : ∀ (fuel : Nat) (acc s k v : Str),
    split1 sep fuel acc s = some (k, v) → ∃ m, acc.reverse ++ s = k ++ m ++ v
  | 0, _, _, _, _, h => by simp [split1] at h
  | f + 1, acc, [], k, v, h => by simp [split1] at h
  | f + 1, acc, c :: s, k, v, h => by
    simp only [split1] at h
    split at h
    · simp only [Option.some.injEq, Prod.mk.injEq] at h
      obtain ⟨rfl, rfl⟩ := h
      exact ⟨(c :: s).take sep.length, by simp [List.append_assoc]⟩
    · obtain ⟨m, hm⟩ := split1_spec sep f (c :: acc) s k v h
      exact ⟨m, by simpa using hm⟩

theorem splitOnce_spec {sep s k v : Str} (h : splitOnce sep s = some (k, v)) : ∃ m, s = k ++ m ++ v := by
  obtain ⟨m, hm⟩ := split1_spec sep _ _ _ _ _ h
  exact ⟨m, by simpa using hm⟩

theorem splitOnce_infix {sep s k v : Str} (h : splitOnce sep s = some (k, v)) : k <:+: s ∧ v <:+: s := by
  obtain ⟨m, rfl⟩ := splitOnce_spec h
  exact ⟨⟨[], m ++ v, by simp⟩, ⟨k ++ m, [], by simp⟩⟩

theorem P_splitOnce {sep s k v : Str} (h : splitOnce sep s = some (k, v)) (hs : P s) : P k ∧ P v :=
  ⟨SafePred.sub (splitOnce_infix h).1 hs, SafePred.sub (splitOnce_infix h).2 hs⟩

/-- the part before a one-character separator does not contain it -/
theorem split1_char_notin (d : Char) : ∀ (fuel : Nat) (acc s k v : Str),
    split1 [d] fuel acc s = some (k, v) → d ∉ acc → d ∉ k
  | 0, _, _, _, _, h, _ => by simp [split1] at h
  | f + 1, acc, [], k, v, h, _ => by simp [split1] at h
  | f + 1, acc, c :: s, k, v, h, ha => by
    simp only [split1] at h
    split at h
    · simp only [Option.some.injEq, Prod.mk.injEq] at h
      obtain ⟨rfl, rfl⟩ := h
      simpa using ha
    · rename_i hns
      refine split1_char_notin d f (c :: acc) s k v h ?_
      have hcd : c ≠ d := by
        intro hcd; subst hcd
        apply hns
        cases s <;> simp [startsWith]
      simp only [List.mem_cons, not_or]
      exact ⟨fun h => hcd h.symm, ha⟩

theorem splitOnce_char_notin {d : Char} {s k v : Str} (h : splitOnce [d] s = some (k, v)) : d ∉ k :=
  split1_char_notin d _ _ _ _ _ h (by simp)

/-! ### tokenisation -/

theorem splitChar_ne_nil (c : Char) (s : Str) : splitChar c s ≠ [] := by
  induction s with
  | nil => simp [splitChar]
  | cons x s ih =>
    simp only [splitChar]
    split
    · simp
    · split <;> simp

theorem splitChar_infix (c : Char) : ∀ (s t : Str), t ∈ splitChar c s → t <:+: s
  | [], t, h => by
    simp only [splitChar, List.mem_singleton] at h
    subst h; exact List.infix_refl _
  | x :: s, t, h => by
    simp only [splitChar] at h
    split at h
    · simp only [List.mem_cons] at h
      rcases h with rfl | h
      · exact List.nil_infix
      · exact (splitChar_infix c s t h).trans (List.suffix_cons x s).isInfix
    · split at h
      · rename_i hnil; exact absurd hnil (splitChar_ne_nil c s)
      · rename_i hd tl heq
        simp only [List.mem_cons] at h
        rcases h with rfl | h
        · -- the head piece is a prefix of the rest
          have hpre : ∀ (s : Str) (hd : Str) (tl : List Str), splitChar c s = hd :: tl → hd <+: s := by
            intro s
            induction s with
            | nil => intro hd tl h; simp only [splitChar, List.cons.injEq] at h; rw [← h.1]; exact List.prefix_refl _
            | cons y s ih =>
              intro hd tl h
              simp only [splitChar] at h
              split at h
              · simp only [List.cons.injEq] at h; rw [← h.1]; exact List.nil_prefix
              · split at h
                · simp only [List.cons.injEq] at h; rw [← h.1]
                  rename_i hnil; exact absurd hnil (splitChar_ne_nil c s)
                · rename_i hd' tl' heq'
                  simp only [List.cons.injEq] at h
                  rw [← h.1]
                  exact List.prefix_cons_inj y |>.2 (ih hd' tl' heq')
          exact ((List.prefix_cons_inj x).2 (hpre s hd tl heq)).isInfix
        · have : t ∈ splitChar c s := by rw [heq]; simp [h]
          exact (splitChar_infix c s t this).trans (List.suffix_cons x s).isInfix

/-- the pieces of `found` the `..` branch resolves again -/
theorem P_upToks {s : Str} (h : P s) :
    ∀ t ∈ ((splitChar '/' (XPath.fixBr s)).filter (fun t => !t.isEmpty)).dropLast, P t := by
  intro t ht
  have h1 := (List.dropLast_sublist _).subset ht
  have h2 := (List.mem_filter.1 h1).1
  exact SafePred.sub (splitChar_infix _ _ _ h2) (SafePred.fixBr h)

theorem P_tokenize {s : Str} (h : P s) : ∀ t ∈ tokenize s, P t := by
  intro t ht
  unfold tokenize at ht
  obtain ⟨u, hu, rfl⟩ := List.mem_map.1 ht
  have h2 := (List.mem_filter.1 hu).1
  exact P_stripWs (SafePred.sub (splitChar_infix _ _ _ h2) (SafePred.fixBr h))

/-! ### `split_name_index` -/

/-- the four normalised comparison operators -/
def ops4 : List Str := [['=', '='], ['!', '='], ['~', '~'], ['!', '~']]

def PCv (P : Str → Prop) : CondVal → Prop
  | .str s => P s
  | .bool _ => True

def PIdx (P : Str → Prop) : Idx → Prop
  | .none => True
  | .str s => P s
  | .cond k op v => P k ∧ op ∈ ops4 ∧ PCv P v

theorem P_condValStr {v : CondVal} (h : PCv P v) : P (condValStr v) := by
  cases v with
  | str s => exact h
  | bool b => cases b <;> exact SafePred.noW (by decide)

theorem firstDelim_mem {s : Str} : ∀ {ds : List Str} {d : Str}, firstDelim s ds = some d → d ∈ ds
  | [], d, h => by simp [firstDelim] at h
  | x :: ds, d, h => by
    simp only [firstDelim] at h
    split at h
    · simp only [Option.some.injEq] at h; simp [h]
    · simp [firstDelim_mem h]

theorem normOp_mem {d : Str} (h : d ∈ condDelims) :
    (if d = ['='] then ['=', '='] else if d = ['~'] then ['~', '~'] else d) ∈ ops4 := by
  simp only [condDelims, List.mem_cons, List.not_mem_nil, or_false] at h
  rcases h with rfl | rfl | rfl | rfl | rfl | rfl <;> decide

/-- errors the tokeniser of one step can raise: all funnelled by `_get`, or model-only -/
def okErr (e : PyErr) : Bool :=
  e = .ValueError || e = .IndexError || e = .TypeError || e = .SyntaxError || e = .OutOfFuel || e = .Unsupported

theorem parseCond_ok {s : Str} {i : Idx} (hs : P s) (h : parseCond s = .ok i) : PIdx P i := by
  unfold parseCond at h
  split at h
  · split at h
    · cases h
    · rename_i d hd
      split at h
      · cases h
      · rename_i k v hkv
        obtain ⟨hk, hv⟩ := P_splitOnce (P := P) hkv hs
        have hk' := P_stripWs hk
        have hv' := P_stripWs hv
        have hop := normOp_mem (firstDelim_mem hd)
        simp only at h
        generalize (if d = ['='] then ['=', '='] else if d = ['~'] then ['~', '~'] else d) = op at h hop
        repeat' split at h
        all_goals
          cases h <;> first
            | exact ⟨hk', hop, trivial⟩
            | exact ⟨hk', hop, P_dropLast (P_drop 1 hv')⟩
            | exact ⟨hk', hop, hv'⟩
  · simp only [Except.ok.injEq] at h; subst h; exact hs

theorem parseCond_err {s : Str} {e : PyErr} (h : parseCond s = .error e) : okErr e = true := by
  unfold parseCond at h
  split at h
  · split at h
    · cases h; rfl
    · split at h
      · cases h; rfl
      · rename_i d _ _ _ _ _
        simp only at h
        generalize (if d = ['='] then ['=', '='] else if d = ['~'] then ['~', '~'] else d) = op at h
        repeat' split at h
        all_goals cases h <;> rfl
  · cases h

theorem P_textTilde {p2 : Str} (h : P p2) : P ("text()~~".toList ++ p2) := by
  have h1 : P ['t', 'e', 'x', 't', '(', ')', '~'] := SafePred.noW (by decide)
  have := SafePred.glue (P := P) (c := '~') (by decide) h1 h
  have e : "text()~~".toList = ['t', 'e', 'x', 't', '(', ')', '~', '~'] := by decide
  rw [e]; simpa using this

theorem splitNameIndex_ok {tok name : Str} {idx : Idx} (ht : P tok)
    (h : splitNameIndex tok = .ok (name, idx)) : P name ∧ PIdx P idx := by
  unfold splitNameIndex at h
  split at h
  · split at h
    · cases h
    · rename_i nm ix hsp
      obtain ⟨hnm, hix⟩ := P_splitOnce (P := P) hsp (P_dropLast ht)
      have hnm' := P_stripWs hnm
      have hix' := P_stripWs hix
      simp only at h
      split at h
      · cases h; exact ⟨hnm', P_nil⟩
      · split at h
        · cases h
        · rename_i idx' hidx'
          have hP : P idx' := by
            split at hidx'
            · split at hidx'
              · cases hidx'
              · rename_i a args hargs
                split at hidx'
                · cases hidx'
                · rename_i p1 p2 hp
                  have hbody : P (stripWs ((List.drop 8 (stripWs ix)).dropLast)) :=
                    P_stripWs (P_dropLast (P_drop 8 hix'))
                  have hargs' := (P_splitOnce (P := P) hargs hbody).2
                  have hp2 := (P_splitOnce (P := P) hp hargs').2
                  split at hidx'
                  · cases hidx'; exact P_textTilde hp2
                  · cases hidx'; exact hix'
            · cases hidx'; exact hix'
          cases hpc : parseCond idx' with
          | error e => rw [hpc] at h; cases h
          | ok i =>
            rw [hpc] at h
            cases h
            exact ⟨hnm', parseCond_ok hP hpc⟩
  · cases h; exact ⟨ht, trivial⟩

theorem splitNameIndex_err {tok : Str} {e : PyErr} (h : splitNameIndex tok = .error e) : okErr e = true := by
  unfold splitNameIndex at h
  split at h
  · split at h
    · cases h; rfl
    · simp only at h
      split at h
      · cases h
      · split at h
        · rename_i e' he'
          cases h
          repeat' split at he'
          all_goals cases he' <;> rfl
        · rename_i idx' _
          cases hpc : parseCond idx' with
          | error e' => rw [hpc] at h; cases h; exact parseCond_err hpc
          | ok i => rw [hpc] at h; cases h
  · cases h

/-- the name part of a token is itself a plain token -/
theorem splitNameIndex_name {tok name : Str} {idx : Idx}
    (h : splitNameIndex tok = .ok (name, idx)) : splitNameIndex name = .ok (name, .none) := by
  unfold splitNameIndex at h
  split at h
  · split at h
    · cases h
    · rename_i nm ix hsp
      have hno : '[' ∉ stripWs nm := fun hm =>
        splitOnce_char_notin hsp ((stripWs_infix nm).subset hm)
      have hc : (stripWs nm).contains '[' = false := by simpa using hno
      have hres : splitNameIndex (stripWs nm) = .ok (stripWs nm, .none) := by
        unfold splitNameIndex; simp only [hc, Bool.false_and, Bool.false_eq_true, ↓reduceIte]
      simp only at h
      split at h
      · cases h; exact hres
      · split at h
        · cases h
        · rename_i idx' _
          cases hpc : parseCond idx' with
          | error e => rw [hpc] at h; cases h
          | ok i => rw [hpc] at h; cases h; exact hres
  · rename_i hcond
    cases h
    unfold splitNameIndex
    simp only [hcond, Bool.false_eq_true, if_false]

theorem n0evalItems_err : ∀ (items : List Str) (acc : Int) (whole : Str) (e : PyErr),
    n0evalItems items acc whole = .error e → e = .Unsupported
  | [], _, _, _, h => by simp [n0evalItems] at h
  | item :: rest, acc, whole, e, h => by
    simp only [n0evalItems] at h
    repeat' split at h
    all_goals first
      | (cases h; done)
      | (cases h; rfl)
      | exact n0evalItems_err _ _ _ _ h

theorem n0eval_err {s : Str} {e : PyErr} (h : n0eval s = .error e) : e = .Unsupported := by
  unfold n0eval at h
  simp only at h
  split at h
  · cases h
  · exact n0evalItems_err _ _ _ _ h

/-! ### synthesised tokens -/

theorem P_natStr (n : Nat) : P (natStr n) := by
  apply SafePred.noW
  intro hm
  have := natDigits_all_digit n _ hm
  revert this; decide

theorem P_intStr (i : Int) : P (intStr i) := by
  cases i with
  | ofNat n => exact P_natStr n
  | negSucc n => exact P_cons (c := '-') (by decide) (P_natStr (n + 1))

theorem P_starTok : P (bracket ['*']) := SafePred.noW (by decide)
theorem P_upTok : P ['.', '.'] := SafePred.noW (by decide)

theorem P_append_op {a b op : Str} (hop : op ∈ ops4) (ha : P a) (hb : P b) : P (a ++ op ++ b) := by
  simp only [ops4, List.mem_cons, List.not_mem_nil, or_false] at hop
  have key : ∀ c d : Char, c ∉ sNew → d ∉ sNew → P (a ++ [c, d] ++ b) := by
    intro c d hc hd
    have := SafePred.glue (P := P) hd (P_snoc hc ha) hb
    simpa using this
  rcases hop with rfl | rfl | rfl | rfl
  · exact key _ _ (by decide) (by decide)
  · exact key _ _ (by decide) (by decide)
  · exact key _ _ (by decide) (by decide)
  · exact key _ _ (by decide) (by decide)

/-- the token `[k op 'v']` a key step hands down for a condition -/
theorem P_condTok {k op : Str} {v : CondVal} (hk : P k) (hop : op ∈ ops4) (hv : PCv P v) :
    P (bracket (k ++ op ++ ['\''] ++ condValStr v ++ ['\''])) := by
  apply P_bracket
  have h1 : P (k ++ op ++ []) := P_append_op hop hk P_nil
  have h2 : P ((k ++ op ++ []) ++ '\'' :: condValStr v) := SafePred.glue (by decide) h1 (P_condValStr hv)
  have h3 := P_snoc (P := P) (c := '\'') (by decide) h2
  simpa using h3

/-- the token `[text() op v]` a condition on a child hands down -/
theorem P_textTok {op : Str} {v : CondVal} (hop : op ∈ ops4) (hv : PCv P v) :
    P (bracket (sTextFn ++ op ++ condValStr v)) := by
  apply P_bracket
  exact P_append_op hop (SafePred.noW (by decide)) (P_condValStr hv)

end generic

/-! ### the character-level instance -/

/-- "the letter w does not occur" -/
def NoW (s : Str) : Prop := 'w' ∉ s

instance : DecidablePred NoW := fun s => inferInstanceAs (Decidable ('w' ∉ s))

theorem mem_fixBr {c : Char} : ∀ {s : Str}, c ∈ fixBr s → c ∈ s ∨ c = '/'
  | [], h => by simp [fixBr] at h
  | [x], h => by
    have : fixBr [x] = [x] := by
      rw [fixBr]
      · rfl
      · intro rest _ hc; simp at hc
    rw [this] at h; exact Or.inl h
  | x :: y :: rest, h => by
    by_cases hxy : x = ']' ∧ y = '['
    · obtain ⟨rfl, rfl⟩ := hxy
      simp only [fixBr, List.mem_cons] at h
      rcases h with rfl | rfl | rfl | h
      · simp
      · simp
      · simp
      · rcases mem_fixBr h with h | h
        · left; simp [h]
        · right; exact h
    · have : fixBr (x :: y :: rest) = x :: fixBr (y :: rest) := by
        rw [fixBr]
        intro rest' h1 h2
        simp only [List.cons.injEq] at h2
        exact hxy ⟨h1, h2.1⟩
      rw [this] at h
      simp only [List.mem_cons] at h
      rcases h with rfl | h
      · simp
      · rcases mem_fixBr h with h | h
        · left; simp only [List.mem_cons] at h ⊢; right; exact h
        · right; exact h

instance : SafePred NoW where
  sub := fun hi hs hm => hs (hi.subset hm)
  noW := fun h => h
  glue := by
    intro a b c hc ha hb hm
    simp only [List.mem_append, List.mem_cons] at hm
    rcases hm with hm | rfl | hm
    · exact ha hm
    · exact hc (by decide)
    · exact hb hm
  fixBr := by
    intro s hs hm
    rcases mem_fixBr hm with h | h
    · exact hs h
    · cases h

end N0.XPath
