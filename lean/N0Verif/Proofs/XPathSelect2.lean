import N0Verif.Proofs.XPathSelect
import N0Verif.Proofs.XPathTreeFound
/-!
  Selecting steps on a record list at **any position** of the tree, and chained selections.

  * `sel2_split`, `sel2_tokenize` — tokenisation of a path text made of `/key` and `[text]` pieces
    (generalises `tokenize_render`: the bracket text may be `*`, a condition, …; the un-stripped
    form is what the `'..'` step splits);
  * `sel2_star_*` — `P[*]/f` for the canonical path `P` of any position;
  * `sel2_pred_*` — the predicate forms at any position, through the `found` text of the walk
    (`find_walk`/`SpellsF`) and its re-resolution by `'..'`;
  * `sel2_chained_*` — a predicate below a predicate (fix C06-b).
-/
namespace N0.XPath
open N0 N0.Py N0.Val

/-! ### path texts made of `/key` and `[text]` pieces -/

/-- a piece of a path text: `/k` or `[e]` -/
inductive GSeg
  | key (k : Str)
  | br (e : Str)

def sel2RenderSeg : GSeg → Str
  | .key k => '/' :: k
  | .br e => bracket e

def sel2Render (gs : List GSeg) : Str := gs.flatMap sel2RenderSeg

/-- the tokens of such a text: a key followed by a bracket is one token -/
def sel2Toks : List GSeg → List Str
  | [] => []
  | .key k :: .br e :: rest => (k ++ bracket e) :: sel2Toks rest
  | .key k :: rest => k :: sel2Toks rest
  | .br e :: rest => bracket e :: sel2Toks rest

/-- a key piece: non-empty, no `]`, no `/`, no blank at either end -/
structure GKey (k : Str) : Prop where
  ne : k ≠ []
  noRB : ∀ c ∈ k, c ≠ ']'
  noSlash : ∀ c ∈ k, c ≠ '/'
  head : ∀ c, k.head? = some c → isPySpace c = false
  last : ∀ c, k.getLast? = some c → isPySpace c = false

/-- a bracket text: no `]`, no `/` -/
structure GBr (e : Str) : Prop where
  noRB : ∀ c ∈ e, c ≠ ']'
  noSlash : ∀ c ∈ e, c ≠ '/'

def GoodG : List GSeg → Prop
  | [] => True
  | .key k :: rest => GKey k ∧ GoodG rest
  | .br e :: rest => GBr e ∧ GoodG rest

theorem GoodG.append {a b : List GSeg} (ha : GoodG a) (hb : GoodG b) : GoodG (a ++ b) := by
  induction a with
  | nil => exact hb
  | cons s r ih =>
    cases s with
    | key k => exact ⟨ha.1, ih ha.2⟩
    | br e => exact ⟨ha.1, ih ha.2⟩

theorem PlainKey.gKey {k : Str} (h : PlainKey k) : GKey k where
  ne := h.ne
  noRB := h.noRB
  noSlash := h.noSlash
  head := fun c hc => (plainChar_ne (h.chars c (List.mem_of_mem_head? hc))).2.2.2.2
  last := fun c hc => (plainChar_ne (h.chars c (List.mem_of_getLast? hc))).2.2.2.2

theorem sel2_gKey_up : GKey ['.', '.'] where
  ne := by simp
  noRB := by decide
  noSlash := by decide
  head := by intro c hc; simp at hc; subst hc; decide
  last := by intro c hc; simp at hc; subst hc; decide

theorem sel2_gBr_nat (n : Nat) : GBr (natStr n) := ⟨natStr_noRB n, natStr_noSlash n⟩

theorem sel2_gBr_star : GBr ['*'] := ⟨by decide, by decide⟩

/-- rendering with the separator `replace("][","]/[")` inserts -/
def sel2RenderF : Bool → List GSeg → Str
  | _, [] => []
  | _, .key k :: rest => '/' :: k ++ sel2RenderF false rest
  | false, .br e :: rest => bracket e ++ sel2RenderF true rest
  | true, .br e :: rest => '/' :: bracket e ++ sel2RenderF true rest

theorem sel2_fixBr_render (gs : List GSeg) (hg : GoodG gs) :
    fixBr (sel2Render gs) = sel2RenderF false gs ∧
    ∀ ds : Str, (∀ c ∈ ds, c ≠ ']') → fixBr (ds ++ ']' :: sel2Render gs) = ds ++ ']' :: sel2RenderF true gs := by
  induction gs with
  | nil =>
    refine ⟨rfl, fun ds hds => ?_⟩
    rw [fixBr_append_noRB ds _ hds]
    simp [sel2Render, sel2RenderF, fixBr_rb_nil]
  | cons s r ih =>
    cases s with
    | key k =>
      obtain ⟨hk, hr⟩ := hg
      obtain ⟨ihA, _⟩ := ih hr
      have hA : fixBr (sel2Render (.key k :: r)) = sel2RenderF false (.key k :: r) := by
        simp only [sel2Render, List.flatMap_cons, sel2RenderSeg, List.cons_append, sel2RenderF]
        rw [fixBr_cons_ne '/' _ (by decide), fixBr_append_noRB k _ hk.noRB]
        rw [show List.flatMap sel2RenderSeg r = sel2Render r from rfl, ihA]
      refine ⟨hA, fun ds hds => ?_⟩
      rw [fixBr_append_noRB ds _ hds]
      have : sel2Render (.key k :: r) = '/' :: (k ++ sel2Render r) := by simp [sel2Render, sel2RenderSeg]
      rw [this, fixBr_rb_other '/' _ (by decide), ← this, hA]
      simp [sel2RenderF]
    | br e =>
      obtain ⟨he, hr⟩ := hg
      obtain ⟨_, ihB⟩ := ih hr
      have hB := ihB e he.noRB
      have hform : sel2Render (.br e :: r) = '[' :: (e ++ ']' :: sel2Render r) := by
        simp [sel2Render, sel2RenderSeg, bracket]
      refine ⟨?_, fun ds hds => ?_⟩
      · rw [hform, fixBr_cons_ne '[' _ (by decide), hB]
        simp [sel2RenderF, bracket]
      · rw [fixBr_append_noRB ds _ hds, hform, fixBr_rb_lb, hB]
        simp [sel2RenderF, bracket]

/-- pieces of `cur ++ sel2RenderF b gs` when split at '/' -/
def sel2Pieces : Str → Bool → List GSeg → List Str
  | cur, _, [] => [cur]
  | cur, _, .key k :: rest => cur :: sel2Pieces k false rest
  | cur, false, .br e :: rest => sel2Pieces (cur ++ bracket e) true rest
  | cur, true, .br e :: rest => cur :: sel2Pieces (bracket e) true rest

theorem sel2_splitChar_pieces (gs : List GSeg) (hg : GoodG gs) :
    ∀ (cur : Str) (b : Bool), (∀ c ∈ cur, c ≠ '/') → splitChar '/' (cur ++ sel2RenderF b gs) = sel2Pieces cur b gs := by
  induction gs with
  | nil => intro cur b hc; simp [sel2RenderF, sel2Pieces, splitChar_no_delim '/' cur hc]
  | cons s r ih =>
    intro cur b hc
    cases s with
    | key k =>
      obtain ⟨hk, hr⟩ := hg
      simp only [sel2RenderF, sel2Pieces, List.cons_append]
      rw [splitChar_append '/' cur _ hc, ih hr k false hk.noSlash]
    | br e =>
      obtain ⟨he, hr⟩ := hg
      cases b with
      | false =>
        simp only [sel2RenderF, sel2Pieces]
        rw [← List.append_assoc]
        exact ih hr _ true (by
          intro c hc'; simp only [List.mem_append] at hc'
          rcases hc' with h | h
          · exact hc c h
          · exact bracket_mem_noSlash e he.noSlash c h)
      | true =>
        simp only [sel2RenderF, sel2Pieces, List.cons_append]
        rw [splitChar_append '/' cur _ hc, ih hr _ true (bracket_mem_noSlash e he.noSlash)]

/-- the non-empty pieces -/
def sel2NonEmpty (xs : List Str) : List Str := xs.filter (fun t => !t.isEmpty)

theorem sel2_nonEmpty_cons (x : Str) (xs : List Str) :
    sel2NonEmpty (x :: xs) = (if x.isEmpty then [] else [x]) ++ sel2NonEmpty xs := by
  unfold sel2NonEmpty
  cases h : x.isEmpty <;> simp [List.filter, h]

theorem sel2_nonEmpty_pieces (gs : List GSeg) (hg : GoodG gs) :
    (∀ k, k ≠ [] → sel2NonEmpty (sel2Pieces k false gs) = sel2Toks (.key k :: gs)) ∧
    (∀ cur, cur ≠ [] → sel2NonEmpty (sel2Pieces cur true gs) = cur :: sel2Toks gs) := by
  induction gs with
  | nil =>
    constructor
    · intro k hk
      simp [sel2Pieces, sel2NonEmpty, sel2Toks, isEmpty_false_of_ne hk]
    · intro cur hne
      simp [sel2Pieces, sel2NonEmpty, sel2Toks, isEmpty_false_of_ne hne]
  | cons s r ih =>
    cases s with
    | key k' =>
      obtain ⟨hk', hr⟩ := hg
      obtain ⟨ih1, _⟩ := ih hr
      constructor
      · intro k hk
        simp only [sel2Pieces, sel2_nonEmpty_cons, isEmpty_false_of_ne hk, Bool.false_eq_true, if_false]
        rw [ih1 k' hk'.ne]
        simp [sel2Toks]
      · intro cur hne
        simp only [sel2Pieces, sel2_nonEmpty_cons, isEmpty_false_of_ne hne, Bool.false_eq_true, if_false]
        rw [ih1 k' hk'.ne]
        rfl
    | br e =>
      obtain ⟨_, hr⟩ := hg
      obtain ⟨_, ih2⟩ := ih hr
      constructor
      · intro k hk
        simp only [sel2Pieces]
        rw [ih2 _ (by simp [bracket])]
        simp [sel2Toks]
      · intro cur hne
        simp only [sel2Pieces, sel2_nonEmpty_cons, isEmpty_false_of_ne hne, Bool.false_eq_true, if_false]
        rw [ih2 _ (bracket_ne_nil _)]
        simp [sel2Toks]

/-- **Splitting a path text.**  `'/' :: text`, after `replace("][","]/[")`, split at '/', empty pieces
dropped (no strip: this is what the `'..'` step does with `xpath_found_str`). -/
theorem sel2_split (gs : List GSeg) (hg : GoodG gs) :
    sel2NonEmpty (splitChar '/' (fixBr ('/' :: sel2Render gs))) = sel2Toks gs := by
  rw [fixBr_cons_ne '/' _ (by decide), (sel2_fixBr_render gs hg).1]
  have : splitChar '/' ('/' :: sel2RenderF false gs) = [] :: splitChar '/' (sel2RenderF false gs) := by
    simp [splitChar]
  rw [this, sel2_nonEmpty_cons]
  simp only [List.isEmpty_nil, if_true, List.nil_append]
  cases gs with
  | nil => simp [sel2RenderF, splitChar, sel2NonEmpty, sel2Toks]
  | cons s r =>
    cases s with
    | key k =>
      obtain ⟨hk, hr⟩ := hg
      have h0 := sel2_splitChar_pieces (.key k :: r) ⟨hk, hr⟩ [] false (by simp)
      simp only [List.nil_append] at h0
      rw [h0]
      simp only [sel2Pieces, sel2_nonEmpty_cons, List.isEmpty_nil, if_true, List.nil_append]
      exact (sel2_nonEmpty_pieces r hr).1 k hk.ne
    | br e =>
      obtain ⟨he, hr⟩ := hg
      have h0 := sel2_splitChar_pieces (.br e :: r) ⟨he, hr⟩ [] false (by simp)
      simp only [List.nil_append] at h0
      rw [h0]
      simp only [sel2Pieces, List.nil_append]
      rw [(sel2_nonEmpty_pieces r hr).2 _ (bracket_ne_nil _)]
      simp [sel2Toks]

theorem sel2_stripWs_bracket (e : Str) : stripWs (bracket e) = bracket e := by
  apply stripWs_eq_self
  · intro c hc; simp [bracket] at hc; subst hc; decide
  · intro c hc
    have : bracket e = ('[' :: e) ++ [']'] := by simp [bracket]
    rw [this, List.getLast?_append] at hc
    simp at hc; subst hc; decide

theorem sel2_stripWs_keyBracket {k : Str} (hk : GKey k) (e : Str) : stripWs (k ++ bracket e) = k ++ bracket e := by
  apply stripWs_eq_self
  · intro c hc
    cases k with
    | nil => exact absurd rfl hk.ne
    | cons x k => exact hk.head c (by simpa using hc)
  · intro c hc
    have : k ++ bracket e = (k ++ '[' :: e) ++ [']'] := by simp [bracket]
    rw [this, List.getLast?_append] at hc
    simp at hc; subst hc; decide

/-- the tokens are already stripped -/
theorem sel2_toks_stripped : ∀ (gs : List GSeg), GoodG gs → (sel2Toks gs).map stripWs = sel2Toks gs
  | [], _ => rfl
  | [.key k], hg => by
    simp [sel2Toks, stripWs_eq_self k hg.1.head hg.1.last]
  | .key k :: .key k2 :: rest, hg => by
    have ih := sel2_toks_stripped (.key k2 :: rest) hg.2
    rw [sel2Toks]
    · simp only [List.map_cons, stripWs_eq_self k hg.1.head hg.1.last, ih]
    · intro e r h; cases h
  | .key k :: .br e :: rest, hg => by
    have ih := sel2_toks_stripped rest hg.2.2
    simp only [sel2Toks, List.map_cons, sel2_stripWs_keyBracket hg.1 e, ih]
  | .br e :: rest, hg => by
    have ih := sel2_toks_stripped rest hg.2
    simp only [sel2Toks, List.map_cons, sel2_stripWs_bracket e, ih]

/-- **Tokenisation of a path text** (`_find` on a string xpath) -/
theorem sel2_tokenize (gs : List GSeg) (hg : GoodG gs) : tokenize ('/' :: sel2Render gs) = sel2Toks gs := by
  unfold tokenize
  have := sel2_split gs hg
  unfold sel2NonEmpty at this
  rw [this, sel2_toks_stripped gs hg]

/-- the pieces the `'..'` step resolves -/
theorem sel2_upToks (gs : List GSeg) (hg : GoodG gs) :
    ((splitChar '/' (fixBr ('/' :: sel2Render gs))).filter (fun t => !t.isEmpty)).dropLast = (sel2Toks gs).dropLast := by
  have := sel2_split gs hg
  unfold sel2NonEmpty at this
  rw [this]

/-! ### positions as path texts -/

def sel2Embed : Pos → List GSeg
  | [] => []
  | .key k :: rest => .key k :: sel2Embed rest
  | .idx n :: rest => .br (natStr n) :: sel2Embed rest

theorem sel2_embed_append (p q : Pos) : sel2Embed (p ++ q) = sel2Embed p ++ sel2Embed q := by
  induction p with
  | nil => rfl
  | cons s r ih => cases s <;> simp [sel2Embed, ih]

theorem sel2_render_embed (p : Pos) : sel2Render (sel2Embed p) = renderPos p := by
  induction p with
  | nil => rfl
  | cons s r ih =>
    cases s with
    | key k =>
      have : sel2Render (.key k :: sel2Embed r) = '/' :: k ++ sel2Render (sel2Embed r) := by simp [sel2Render, sel2RenderSeg]
      rw [sel2Embed, this, ih]; simp [renderPos, renderSeg]
    | idx n =>
      have : sel2Render (.br (natStr n) :: sel2Embed r) = bracket (natStr n) ++ sel2Render (sel2Embed r) := by
        simp [sel2Render, sel2RenderSeg]
      rw [sel2Embed, this, ih]; simp [renderPos, renderSeg]

theorem sel2_render_append (a b : List GSeg) : sel2Render (a ++ b) = sel2Render a ++ sel2Render b := by
  simp [sel2Render]

theorem sel2_good_embed (p : Pos) (hp : PlainPos p) : GoodG (sel2Embed p) := by
  induction p with
  | nil => trivial
  | cons s r ih =>
    cases s with
    | key k => exact ⟨hp.1.gKey, ih hp.2⟩
    | idx n => exact ⟨sel2_gBr_nat n, ih hp⟩

theorem sel2_toks_embed (p : Pos) : sel2Toks (sel2Embed p) = mergedToks p := by
  induction p using mergedToks.induct with
  | case1 => rfl
  | case2 k n rest ih => simp [sel2Embed, sel2Toks, mergedToks, ih]
  | case3 k rest hne ih =>
    cases rest with
    | nil => simp [sel2Embed, sel2Toks, mergedToks]
    | cons s r =>
      cases s with
      | key k2 =>
        rw [mergedToks]
        · simp only [sel2Embed] at ih ⊢
          rw [sel2Toks, ih]
          intro e r' h; cases h
        · intro n r' h; cases h
      | idx n => exact absurd rfl (hne n r)
  | case4 n rest ih => simp [sel2Embed, sel2Toks, mergedToks, ih]

theorem sel2_toks_key_key (k k2 : Str) (r : List GSeg) :
    sel2Toks (.key k :: .key k2 :: r) = k :: sel2Toks (.key k2 :: r) := by
  rw [sel2Toks]
  intro e r' h; cases h

/-- a key piece always starts a new token -/
theorem sel2_toks_append_key (a : List GSeg) (k : Str) (rest : List GSeg) :
    sel2Toks (a ++ .key k :: rest) = sel2Toks a ++ sel2Toks (.key k :: rest) := by
  induction a using sel2Toks.induct with
  | case1 => rfl
  | case2 k' e r ih => simp [sel2Toks, ih]
  | case3 k' r hne ih =>
    cases r with
    | nil =>
      cases rest with
      | nil => simp [sel2Toks]
      | cons s rr => cases s <;> simp [sel2Toks]
    | cons s r' =>
      cases s with
      | key k2 =>
        simp only [List.cons_append] at ih ⊢
        rw [sel2_toks_key_key, ih, sel2_toks_key_key]
        simp
      | br e => exact absurd rfl (hne e r')
  | case4 e r ih => simp [sel2Toks, ih]

/-- a bracket piece after a key piece joins its token -/
theorem sel2_toks_append_key_br (a : List GSeg) (k e : Str) (rest : List GSeg) :
    sel2Toks (a ++ .key k :: .br e :: rest) = sel2Toks a ++ (k ++ bracket e) :: sel2Toks rest := by
  rw [sel2_toks_append_key]; simp [sel2Toks]

/-- a bracket piece after a bracket piece is a token of its own -/
theorem sel2_toks_append_br_br (a : List GSeg) (e1 e2 : Str) (rest : List GSeg) :
    sel2Toks (a ++ .br e1 :: .br e2 :: rest) = sel2Toks (a ++ [.br e1]) ++ bracket e2 :: sel2Toks rest := by
  induction a using sel2Toks.induct with
  | case1 => simp [sel2Toks]
  | case2 k' e r ih => simp [sel2Toks, ih]
  | case3 k' r hne ih =>
    cases r with
    | nil => simp [sel2Toks]
    | cons s r' =>
      cases s with
      | key k2 =>
        simp only [List.cons_append] at ih ⊢
        rw [sel2_toks_key_key, ih, sel2_toks_key_key]
        simp
      | br e => exact absurd rfl (hne e r')
  | case4 e r ih => simp [sel2Toks, ih]

/-! ### `P[*]/f` for the record list at any position -/

theorem sel2_plainPos_append {p q : Pos} (h : PlainPos (p ++ q)) : PlainPos p ∧ PlainPos q := by
  induction p with
  | nil => exact ⟨trivial, h⟩
  | cons s r ih =>
    cases s with
    | key k => exact ⟨⟨h.1, (ih h.2).1⟩, (ih h.2).2⟩
    | idx n => exact ⟨(ih h).1, (ih h).2⟩

theorem sel2_plainPos_of {p q : Pos} (hp : PlainPos p) (hq : PlainPos q) : PlainPos (p ++ q) := by
  induction p with
  | nil => exact hq
  | cons s r ih =>
    cases s with
    | key k => exact ⟨hp.1, ih hp.2⟩
    | idx n => exact ih hp

theorem sel2_getAt_snoc_key {root : Val} {p : Pos} {k : Str} {c : Val} (h : getAt root (p ++ [.key k]) = some c) :
    ∃ cls kvs, getAt root p = some (.dict cls kvs) ∧ lookup k kvs = some c := by
  rw [getAt_snoc] at h
  cases hp : getAt root p with
  | none => simp [hp] at h
  | some v =>
    simp only [hp, Option.bind_some] at h
    obtain ⟨cls, kvs, rfl, hl⟩ := child_key_some h
    exact ⟨cls, kvs, rfl, hl⟩

/-- `P[*]/f`, tree level, `P` ending in a key: tokens `… name[*]`, `f` -/
theorem sel2_star_find_key (root : Val) (rl : Bool) (p : Pos) (name f : Str) (lc : Cls) (rs : List Val)
    (hp : PlainPos p) (hname : PlainKey name) (hf : PlainKey f)
    (hget : getAt root (p ++ [.key name]) = some (.list lc rs)) (hrs : ∀ r ∈ rs, isDict r = true)
    (fuel : Nat) (hfuel : fuel ≥ 2 * p.length + rs.length + 5) :
    ∃ r, findD fuel root [] false true (mergedToks p ++ [name ++ bracket ['*'], f]) (.at []) rl slash = .ok (root, r) ∧
      r.isFound = !(somes (rs.map (fieldOf f))).isEmpty ∧
      (r.isFound = true → r.value = collect rl (somes (rs.map (fieldOf f)))) := by
  obtain ⟨cls, kvs, hpv, hl⟩ := sel2_getAt_snoc_key hget
  have hs := spellsF_merged p root _ hp hpv
  have hlen := mergedToks_length_le p
  obtain ⟨fuel', e', h1, h2, heq⟩ := find_walk root rl hs [name ++ bracket ['*'], f] (by simp) fuel [] slash true rfl (by omega)
  rw [heq]
  obtain ⟨g, rfl⟩ : ∃ g, fuel' = g + 1 := ⟨fuel' - 1, by omega⟩
  rw [find_keybr_step g root e' rl ([] ++ p) _ _ name ['*'] [f] cls kvs _ (by simpa using hpv)
    (split_bracket name ['*'] (Or.inr hname) star_idxExpr) hname.ne hname.notUp hname.keyTok.notStar hl]
  exact star_records root rl _ _ _ f lc rs (by simpa using hget) hrs hf.keyTok split_star g false (by omega)

theorem sel2_hasPathChar_cons (s : Str) : hasPathChar ('/' :: s) = true := by simp [hasPathChar]

theorem sel2_noQ_cons (s : Str) : startsWith ('/' :: s) ['?'] = false := by simp [startsWith]

/-- **`P[*]/f` for the record list at any position** (canonical path `P`) -/
theorem sel2_star_explicit_path (cls : Cls) (kvs : List (Str × Val)) (p : Pos) (f : Str) (lc : Cls) (rs : List Val) (d : Val)
    (hp : PlainPos p) (hne : p ≠ []) (hf : PlainKey f) (hget : getAt (.dict cls kvs) p = some (.list lc rs))
    (hrs : ∀ r ∈ rs, isDict r = true) (fuel : Nat) (hfuel : fuel ≥ 2 * p.length + rs.length + 5) :
    let xp := slash ++ renderPos p ++ bracket ['*'] ++ slash ++ f
    let vals := somes (rs.map (fieldOf f))
    get fuel (.dict cls kvs) xp d = (.dict cls kvs, .ok (if vals.isEmpty then d else .list .n0 vals)) ∧
    getItem fuel (.dict cls kvs) xp = (.dict cls kvs, if vals.isEmpty then .error .IndexError else .ok (.list .n0 vals)) ∧
    first fuel (.dict cls kvs) xp d = (.dict cls kvs, .ok (firstOf vals d)) := by
  intro xp vals
  have hxp : xp = '/' :: sel2Render (sel2Embed p ++ [.br ['*'], .key f]) := by
    rw [sel2_render_append, sel2_render_embed]
    simp [xp, sel2Render, sel2RenderSeg, slash]
  have hgood : GoodG (sel2Embed p ++ [.br ['*'], .key f]) :=
    (sel2_good_embed p hp).append ⟨sel2_gBr_star, hf.gKey, trivial⟩
  have htok0 : tokenize xp = sel2Toks (sel2Embed p ++ [.br ['*'], .key f]) := by rw [hxp]; exact sel2_tokenize _ hgood
  obtain ⟨p', s, rfl⟩ : ∃ p' s, p = p' ++ [s] := ⟨p.dropLast, p.getLast hne, (List.dropLast_concat_getLast hne).symm⟩
  obtain ⟨hp', hs⟩ := sel2_plainPos_append hp
  cases s with
  | key name =>
    have hname : PlainKey name := hs.1
    have htok : tokenize xp = mergedToks p' ++ [name ++ bracket ['*'], f] := by
      rw [htok0, sel2_embed_append]
      simp only [sel2Embed, List.append_assoc, List.cons_append, List.nil_append]
      rw [sel2_toks_append_key_br, sel2_toks_embed]
      simp [sel2Toks]
    apply select_api cls kvs xp _ vals d fuel (by rw [hxp]; exact sel2_noQ_cons _) (by rw [hxp]; exact sel2_hasPathChar_cons _) htok
    intro rl
    exact sel2_star_find_key _ rl p' name f lc rs hp' hname hf hget hrs fuel (by simp at hfuel; omega)
  | idx n =>
    have htok : tokenize xp = mergedToks (p' ++ [.idx n]) ++ [bracket ['*'], f] := by
      rw [htok0, sel2_embed_append]
      simp only [sel2Embed, List.append_assoc, List.cons_append, List.nil_append]
      rw [sel2_toks_append_br_br, ← sel2_toks_embed, sel2_embed_append]
      simp [sel2Toks, sel2Embed]
    apply select_api cls kvs xp _ vals d fuel (by rw [hxp]; exact sel2_noQ_cons _) (by rw [hxp]; exact sel2_hasPathChar_cons _) htok
    intro rl
    have hsp := spells_merged _ (.dict cls kvs) _ hp hget
    have hlen := mergedToks_length_le (p' ++ [.idx n])
    exact star_spelled (.dict cls kvs) rl f hsp (mergedToks_ne_nil _ hne) hrs hf fuel (by omega) _ (Or.inl rfl)

/-! ### the `found` text of a complete walk, and the `'..'` step at any position -/

theorem sel2_upFound_key (par : PRef) (tok found : Str) (c : Val) (hk : KeyTok tok) :
    upFound { parent := par, nameIdx := some tok, value := c, found := found, notFound := Option.none } = found := by
  simp only [upFound, isEmpty_false_of_ne hk.ne, Bool.false_eq_true, if_false, hk.split]

theorem sel2_upFound_idx (par : PRef) (i : Int) (found : Str) (c : Val) :
    upFound { parent := par, nameIdx := some (bracket (intStr i)), value := c, found := found, notFound := Option.none }
      = found ++ bracket (intStr i) := by
  have hbne : (bracket (intStr i)).isEmpty = false := by simp [bracket]
  simp only [upFound, hbne, Bool.false_eq_true, if_false, split_bracket_intStr, List.isEmpty_nil, if_true]

/-- `find_spells` with the text of the walk: what `'..'` would continue with after resolving `toks` is
`found ++ w` (the index of a final index step included — fix C06-b) -/
theorem sel2_find_spellsF (root : Val) (rl : Bool) {toks : List Str} {v : Val} {p : Pos} {c : Val} {w : Str}
    (h : SpellsF toks v p c w) : toks ≠ [] → ∀ (fuel : Nat) (q : Pos) (found : Str) (entry : Bool),
      getAt root q = some v → fuel ≥ 2 * toks.length →
      ∃ r, findD fuel root [] false entry toks (.at q) rl found = .ok (root, r) ∧ FoundAt root q p c r ∧
        upFound r = found ++ w := by
  induction h with
  | nil v => intro h; exact absurd rfl h
  | @key tok rest cls kvs c p d w hk hl hs ih =>
    intro _ fuel q found entry hq hf
    obtain ⟨f, rfl⟩ : ∃ f, fuel = f + 1 := ⟨fuel - 1, by simp at hf; omega⟩
    by_cases hrest : rest = []
    · subst hrest
      cases hs
      rw [find_key_last f root entry rl q found tok cls kvs _ hq hk hl]
      refine ⟨_, rfl, ⟨rfl, rfl, [], .key tok, .dict cls kvs, tok, by simp, by simp, by simpa using hq, rfl, .key⟩, ?_⟩
      rw [sel2_upFound_key _ _ _ _ hk]; simp
    · rw [find_key_step f root entry rl q found tok rest cls kvs c hrest hq hk hl]
      have hq' : getAt root (q ++ [.key tok]) = some c := by
        rw [getAt_snoc, hq]; simp [child, hl]
      obtain ⟨r, hr, ⟨hv, hnf, pp, s, pv, ni, hp, hpar, hpv, hni, hname⟩, hup⟩ :=
        ih hrest f (q ++ [.key tok]) (found ++ slash ++ tok) false hq' (by simp at hf ⊢; omega)
      refine ⟨r, hr, ⟨hv, hnf, .key tok :: pp, s, pv, ni, by simp [hp], by simpa using hpar, by simpa using hpv, hni, hname⟩, ?_⟩
      rw [hup]; simp [List.append_assoc]
  | @idx tok e i rest cls xs n c p d w hk hn hx hs ih =>
    intro _ fuel q found entry hq hf
    obtain ⟨f, rfl⟩ : ∃ f, fuel = f + 1 := ⟨fuel - 1, by simp at hf; omega⟩
    by_cases hrest : rest = []
    · subst hrest
      cases hs
      rw [find_idx_last f root entry rl q found tok e i cls xs n _ hq hk hn hx]
      refine ⟨_, rfl, ⟨rfl, rfl, [], .idx n, .list cls xs, _, by simp, by simp, by simpa using hq, rfl, .idx hn⟩, ?_⟩
      rw [sel2_upFound_idx]; simp
    · rw [find_idx_step f root entry rl q found tok e i rest hrest cls xs n hq hk hn]
      have hq' : getAt root (q ++ [.idx n]) = some c := by
        rw [getAt_snoc, hq]; simp [child, hx]
      obtain ⟨r, hr, ⟨hv, hnf, pp, s, pv, ni, hp, hpar, hpv, hni, hname⟩, hup⟩ :=
        ih hrest f (q ++ [.idx n]) _ false hq' (by simp at hf ⊢; omega)
      refine ⟨r, hr, ⟨hv, hnf, .idx n :: pp, s, pv, ni, by simp [hp], by simpa using hpar, by simpa using hpv, hni, hname⟩, ?_⟩
      rw [hup]; simp [List.append_assoc]
  | @keyIdx tok k e i rest cls kvs cls' xs n c p d w hk hl hn hx hs ih =>
    intro _ fuel q found entry hq hf
    obtain ⟨f, rfl⟩ : ∃ f, fuel = f + 2 := ⟨fuel - 2, by simp at hf; omega⟩
    rw [find_keyidx_step (f + 1) root entry rl q found tok k e i rest cls kvs _ hq hk hl]
    have hq1 : getAt root (q ++ [Seg.key k]) = some (.list cls' xs) := by
      rw [getAt_snoc, hq]; simp [child, hl]
    by_cases hrest : rest = []
    · subst hrest
      cases hs
      rw [find_idx_last f root false rl (q ++ [Seg.key k]) _ (bracket e) e i cls' xs n _ hq1 hk.inner hn hx]
      refine ⟨_, rfl, ⟨rfl, rfl, [.key k], .idx n, .list cls' xs, _, by simp, by simp, by simpa using hq1, rfl, .idx hn⟩, ?_⟩
      rw [sel2_upFound_idx]; simp [List.append_assoc]
    · rw [find_idx_step f root false rl (q ++ [Seg.key k]) _ (bracket e) e i rest hrest cls' xs n hq1 hk.inner hn]
      have hq' : getAt root (q ++ [Seg.key k] ++ [Seg.idx n]) = some c := by
        rw [getAt_snoc, hq1]; simp [child, hx]
      obtain ⟨r, hr, ⟨hv, hnf, pp, s, pv, ni, hp, hpar, hpv, hni, hname⟩, hup⟩ :=
        ih hrest f (q ++ [Seg.key k] ++ [Seg.idx n]) _ false hq' (by simp at hf ⊢; omega)
      refine ⟨r, hr, ⟨hv, hnf, .key k :: .idx n :: pp, s, pv, ni, by simp [hp], by simpa using hpar, by simpa using hpv, hni, hname⟩, ?_⟩
      rw [hup]; simp [List.append_assoc]

/-- the `'..'` step, general form: the shortened `found` text resolves to an element of the list at `qq`
(any index spelling the engine reports); the walk continues at that element with `upFound` -/
theorem sel2_up_step (fuel : Nat) (root : Val) (entry rl : Bool) (pp : Pos) (pv : Val) (found : Str) (rest up : List Str)
    (cur : Res) (qq : Pos) (lc : Cls) (rs : List Val) (i : Int) (j : Nat)
    (hpar : getAt root pp = some pv)
    (hup : ((splitChar '/' (fixBr found)).filter (fun t => !t.isEmpty)).dropLast = up)
    (hinner : findD fuel root [] false false up (.at []) rl slash = .ok (root, cur))
    (hcp : cur.parent = .at qq) (hni : cur.nameIdx = some (bracket (intStr i)))
    (hqq : getAt root qq = some (.list lc rs)) (hn : normIdx i rs.length = some j) (hrest : rest ≠ []) :
    findD (fuel + 1) root [] false entry (['.', '.'] :: rest) (.at pp) rl found
      = findD fuel root [] false false rest (.at (qq ++ [Seg.idx j])) rl (upFound cur) := by
  have hr : rest.length ≥ 1 := by cases rest with | nil => exact absurd rfl hrest | cons _ _ => simp
  have hbne : (bracket (intStr i)).isEmpty = false := by simp [bracket]
  rw [findD]
  simp only [Bool.false_and, Bool.false_eq_true, if_false, valOf_at, hpar, split_up, List.isEmpty_cons,
    Bool.not_false, Idx.truthy, if_true, hup, hinner, hcp, hni, hqq, hbne, split_bracket_intStr, List.isEmpty_nil,
    Bool.not_true, n0eval_intStr, pyGetIdx, hn, childRef, hr, Bool.or_true, decide_true]

theorem sel2_renderPos_append (p q : Pos) : renderPos (p ++ q) = renderPos p ++ renderPos q := by
  simp [renderPos]

theorem sel2_getAt_snoc_idx {root : Val} {p : Pos} {lc : Cls} {rs : List Val} {j : Nat} {rec : Val}
    (hq : getAt root p = some (.list lc rs)) (hj : rs[j]? = some rec) : getAt root (p ++ [.idx j]) = some rec := by
  rw [getAt_snoc, hq]; simp [child, hj]

theorem sel2_lt_of_getElem? {α} {l : List α} {j : Nat} {x : α} (h : l[j]? = some x) : j < l.length := by
  rcases Nat.lt_or_ge j l.length with h' | h'
  · exact h'
  · rw [List.getElem?_eq_none h'] at h; cases h

/-- **`'..'` from the field `k` of record `j` of the list at `p`.**  The `found` text is the canonical path
of `p[j]/k`; its last piece is dropped, `p[j]` is resolved again from the root, and the walk continues in
that record with the canonical path of `p[j]` as `found`. -/
theorem sel2_up_record (root : Val) (entry rl : Bool) (pp : Pos) (pv : Val) (p : Pos) (k : Str) (lc : Cls) (rs : List Val)
    (j : Nat) (rec : Val) (rest : List Str) (hp : PlainPos p) (hk : PlainKey k)
    (hpar : getAt root pp = some pv) (hq : getAt root p = some (.list lc rs)) (hj : rs[j]? = some rec)
    (hrest : rest ≠ []) (fuel : Nat) (hfuel : fuel ≥ 2 * (p.length + 1)) :
    findD (fuel + 1) root [] false entry (['.', '.'] :: rest) (.at pp) rl ('/' :: renderPos (p ++ [.idx j, .key k]))
      = findD fuel root [] false false rest (.at (p ++ [Seg.idx j])) rl ('/' :: renderPos (p ++ [.idx j])) := by
  have hlt := sel2_lt_of_getElem? hj
  have hp1 : PlainPos (p ++ [.idx j]) := sel2_plainPos_of hp (by exact (trivial : PlainPos [.idx j]))
  have hp2 : PlainPos (p ++ [.idx j, .key k]) := sel2_plainPos_of hp (by exact (⟨hk, trivial⟩ : PlainPos [.idx j, .key k]))
  have hget1 : getAt root (p ++ [.idx j]) = some rec := sel2_getAt_snoc_idx hq hj
  -- the pieces of `found`
  have hup : ((splitChar '/' (fixBr ('/' :: renderPos (p ++ [.idx j, .key k])))).filter (fun t => !t.isEmpty)).dropLast
      = mergedToks (p ++ [.idx j]) := by
    rw [← sel2_render_embed, sel2_upToks _ (sel2_good_embed _ hp2), sel2_toks_embed,
      show p ++ [Seg.idx j, Seg.key k] = (p ++ [.idx j]) ++ [.key k] by simp, mergedToks_snoc_key]
    simp
  -- the inner resolution of `p[j]` from the root
  have hs := spellsF_merged (p ++ [.idx j]) root rec hp1 hget1
  have hlen := mergedToks_length_le (p ++ [.idx j])
  obtain ⟨cur, hcur, ⟨_, _, pp', s, pv', ni, hsplit, hcp, hpv', hni, hname⟩, hupf⟩ :=
    sel2_find_spellsF root rl hs (mergedToks_ne_nil _ (by simp)) fuel [] slash false rfl (by simp at hlen ⊢; omega)
  obtain ⟨rfl, hs'⟩ := List.append_inj' hsplit rfl
  have hs'' : s = .idx j := by simpa using hs'.symm
  subst hs''
  simp only [List.nil_append] at hcp hpv'
  rw [hq] at hpv'; cases hpv'
  rcases hname.inv with ⟨_, _, _, h, _, _⟩ | ⟨cls, xs, n, i, h1, h2, h3, h4⟩
  · cases h
  · cases h1; cases h2; subst h3
    rw [sel2_up_step fuel root entry rl pp pv _ rest _ cur p lc rs i j hpar hup hcur hcp hni hq h4 hrest, hupf]
    rfl

/-! ### one record of a predicate selection, at any position, with any continuation -/

/-- what a record contributes to a predicate step followed by further steps: the outcome `out` of the
further steps, if the record has `k` and its value passes the comparison -/
def sel2Gate (k op : Str) (v : CondVal) (rec : Val) (out : Option Val) : Option Val :=
  match rec with
  | .dict _ kvs' =>
    match lookup k kvs' with
    | Option.none => Option.none
    | some kv => if condTest op v kv then out else Option.none
  | _ => Option.none

theorem sel2_gate_fieldOf (k f op : Str) (v : CondVal) (rec : Val) :
    sel2Gate k op v rec (fieldOf f rec) = condOutcome k f op v rec := by
  cases rec with
  | dict c kvs' => cases h : lookup k kvs' <;> simp [sel2Gate, condOutcome, fieldOf, h]
  | _ => simp [sel2Gate, condOutcome]

/-- a lookup outcome: the search leaves the tree unchanged and is found exactly when `out` is `some v`, then
with value `v` -/
def Sel2Out (root : Val) (x : PyM (Val × Res)) (out : Option Val) : Prop :=
  ∃ r, x = .ok (root, r) ∧ r.isFound = out.isSome ∧ ∀ v, out = some v → r.value = v

theorem sel2Out_notFound (root : Val) (par : PRef) (ni : Option Str) (v : Val) (found : Str) (nf : List Str) (hnf : nf ≠ []) :
    Sel2Out root (.ok (root, { parent := par, nameIdx := ni, value := v, found := found, notFound := some nf })) Option.none :=
  ⟨_, rfl, by simp [Res.isFound, isEmpty_false_of_ne hnf], by intro x hx; cases hx⟩

/-- **`[text() op v]`, `'..'`, further steps** on the value of `k` of record `j` of the list at `p` -/
theorem sel2_text_up (root : Val) (entry rl : Bool) (p : Pos) (k op tok : Str) (v : CondVal) (lc : Cls) (rs : List Val)
    (j : Nat) (c : Cls) (kvs' : List (Str × Val)) (kv : Val) (rest : List Str) (out : Option Val) (F : Nat)
    (hp : PlainPos p) (hk : PlainKey k)
    (hq : getAt root p = some (.list lc rs)) (hj : rs[j]? = some (.dict c kvs')) (hlk : lookup k kvs' = some kv)
    (hs : splitNameIndex tok = .ok ([], .cond sTextFn op v)) (hop : OpSpell op op) (hg : textGuard kv v = false)
    (hrest : rest ≠ [])
    (hcont : ∀ fu ≥ F, Sel2Out root
      (findD fu root [] false false rest (.at (p ++ [.idx j])) rl ('/' :: renderPos (p ++ [.idx j]))) out)
    (fuel : Nat) (hfuel : fuel ≥ F + 2 * p.length + 4) :
    Sel2Out root
      (findD fuel root [] false entry (tok :: ['.', '.'] :: rest) (.at (p ++ [.idx j] ++ [.key k])) rl
        ('/' :: renderPos (p ++ [.idx j, .key k])))
      (if condTest op v kv then out else Option.none) := by
  obtain ⟨g, rfl⟩ : ∃ g, fuel = g + 2 := ⟨fuel - 2, by omega⟩
  have hq1 : getAt root (p ++ [.idx j]) = some (.dict c kvs') := sel2_getAt_snoc_idx hq hj
  have hq2 : getAt root (p ++ [.idx j] ++ [.key k]) = some kv := by
    rw [getAt_snoc, hq1]; simp [child, hlk]
  rw [find_text_step (g + 1) root entry rl _ kv _ tok op v _ hq2 hs hop hg]
  cases hc : condTest op v kv with
  | false =>
    simp only [Bool.false_eq_true, if_false]
    exact sel2Out_notFound root _ _ _ _ _ (by simp)
  | true =>
    simp only [if_true]
    rw [sel2_up_record root false rl _ kv p k lc rs j _ rest hp hk hq2 hq hj hrest g (by omega)]
    exact hcont g (by omega)

theorem sel2_found_idx (p : Pos) (j : Nat) :
    ('/' :: renderPos p) ++ bracket (intStr (j : Int)) = '/' :: renderPos (p ++ [.idx j]) := by
  simp [renderPos, renderSeg, intStr_nat]

theorem sel2_found_idx_key (p : Pos) (j : Nat) (k : Str) :
    '/' :: renderPos (p ++ [.idx j]) ++ slash ++ k = '/' :: renderPos (p ++ [.idx j, .key k]) := by
  simp [renderPos, renderSeg, slash]

/-- record `j` of `P[k op v]/…` (inside the loop: `[j]`, `[k op 'v']`, further steps) -/
theorem sel2_cond_elem (root : Val) (rl : Bool) (p : Pos) (k op t1 t2 : Str) (v : CondVal) (lc : Cls) (rs : List Val)
    (j : Nat) (c : Cls) (kvs' : List (Str × Val)) (rest : List Str) (out : Option Val) (F : Nat)
    (hp : PlainPos p) (hk : PlainKey k) (hkt : k ≠ sTextFn)
    (hq : getAt root p = some (.list lc rs)) (hj : rs[j]? = some (.dict c kvs'))
    (hs1 : splitNameIndex t1 = .ok ([], .cond k op v))
    (ht2 : t2 = bracket (sTextFn ++ op ++ condValStr v))
    (hs2 : splitNameIndex t2 = .ok ([], .cond sTextFn op v)) (hop : OpSpell op op)
    (hg : ∀ kv, lookup k kvs' = some kv → textGuard kv v = false) (hrest : rest ≠ [])
    (hcont : ∀ fu ≥ F, Sel2Out root
      (findD fu root [] false false rest (.at (p ++ [.idx j])) rl ('/' :: renderPos (p ++ [.idx j]))) out)
    (fuel : Nat) (hfuel : fuel ≥ F + 2 * p.length + 6) :
    Sel2Out root
      (findD fuel root [] false false (bracket (natStr j) :: t1 :: rest) (.at p) rl ('/' :: renderPos p))
      (sel2Gate k op v (.dict c kvs') out) := by
  obtain ⟨g, rfl⟩ : ∃ g, fuel = g + 2 := ⟨fuel - 2, by omega⟩
  have hlt := sel2_lt_of_getElem? hj
  have hq1 : getAt root (p ++ [.idx j]) = some (.dict c kvs') := sel2_getAt_snoc_idx hq hj
  rw [find_idx_step (g + 1) root false rl p _ _ (natStr j) (j : Int) (t1 :: rest) (by simp) lc rs j hq (natStr_idxTok j)
    (normIdx_nat hlt), sel2_found_idx]
  cases hlk : lookup k kvs' with
  | none =>
    rw [find_cond_missing g root false rl _ _ t1 k op v rest c kvs' hq1 hs1 hkt hlk]
    simpa [sel2Gate, hlk] using sel2Out_notFound root _ _ _ _ _ (by simp)
  | some kv =>
    rw [find_cond_step g root false rl _ _ t1 k op v rest c kvs' kv hq1 hs1 hkt hlk, ← ht2, sel2_found_idx_key]
    have := sel2_text_up root false rl p k op t2 v lc rs j c kvs' kv rest out F hp hk hq hj hlk hs2 hop (hg kv hlk) hrest hcont
      g (by omega)
    simpa [sel2Gate, hlk] using this

/-- record `j` of `P/k[text() op v]/../…` (inside the loop: `[j]`, `k[text() op v]`, `'..'`, further steps) -/
theorem sel2_textform_elem (root : Val) (rl : Bool) (p : Pos) (k op t1 t2 : Str) (v : CondVal) (lc : Cls) (rs : List Val)
    (j : Nat) (c : Cls) (kvs' : List (Str × Val)) (rest : List Str) (out : Option Val) (F : Nat)
    (hp : PlainPos p) (hk : PlainKey k)
    (hq : getAt root p = some (.list lc rs)) (hj : rs[j]? = some (.dict c kvs'))
    (hs1 : splitNameIndex t1 = .ok (k, .cond sTextFn op v))
    (ht2 : t2 = bracket (sTextFn ++ op ++ ['\''] ++ condValStr v ++ ['\'']))
    (hs2 : splitNameIndex t2 = .ok ([], .cond sTextFn op v)) (hop : OpSpell op op)
    (hg : ∀ kv, lookup k kvs' = some kv → textGuard kv v = false) (hrest : rest ≠ [])
    (hcont : ∀ fu ≥ F, Sel2Out root
      (findD fu root [] false false rest (.at (p ++ [.idx j])) rl ('/' :: renderPos (p ++ [.idx j]))) out)
    (fuel : Nat) (hfuel : fuel ≥ F + 2 * p.length + 6) :
    Sel2Out root
      (findD fuel root [] false false (bracket (natStr j) :: t1 :: ['.', '.'] :: rest) (.at p) rl ('/' :: renderPos p))
      (sel2Gate k op v (.dict c kvs') out) := by
  obtain ⟨g, rfl⟩ : ∃ g, fuel = g + 2 := ⟨fuel - 2, by omega⟩
  have hlt := sel2_lt_of_getElem? hj
  have hq1 : getAt root (p ++ [.idx j]) = some (.dict c kvs') := sel2_getAt_snoc_idx hq hj
  rw [find_idx_step (g + 1) root false rl p _ _ (natStr j) (j : Int) (t1 :: ['.', '.'] :: rest) (by simp) lc rs j hq
    (natStr_idxTok j) (normIdx_nat hlt), sel2_found_idx]
  cases hlk : lookup k kvs' with
  | none =>
    rw [find_keycond_missing g root false rl _ _ t1 k _ (['.', '.'] :: rest) c kvs' hq1 hs1 hk.ne hk.notUp hk.keyTok.notStar hlk]
    simpa [sel2Gate, hlk] using sel2Out_notFound root _ _ _ _ _ (by simp)
  | some kv =>
    rw [find_keycond_step g root false rl _ _ t1 k sTextFn op v (['.', '.'] :: rest) c kvs' kv hq1 hs1 hk.ne hk.notUp
      hk.keyTok.notStar hlk, ← ht2, sel2_found_idx_key]
    have := sel2_text_up root false rl p k op t2 v lc rs j c kvs' kv rest out F hp hk hq hj hlk hs2 hop (hg kv hlk) hrest hcont
      g (by omega)
    simpa [sel2Gate, hlk] using this

/-- **The `[*]` loop of a predicate selection** over the records of the list at `p`: `per` = the steps applied
to each record (`[k op v] :: rest` or `k[text() op v] :: '..' :: rest`), `o rec` = the outcome of `rest` in
record `rec`. -/
theorem sel2_pred_loop (root : Val) (rl : Bool) (p : Pos) (k op : Str) (v : CondVal) (lc : Cls) (rs : List Val)
    (per all : List Str) (o : Val → Option Val) (F : Nat) (hall : all ≠ [])
    (hq : getAt root p = some (.list lc rs)) (hrs : ∀ r ∈ rs, isDict r = true)
    (helem : ∀ (j : Nat) (c : Cls) (kvs' : List (Str × Val)), rs[j]? = some (.dict c kvs') → ∀ fu ≥ F,
      Sel2Out root (findD fu root [] false false (bracket (natStr j) :: per) (.at p) rl ('/' :: renderPos p))
        (sel2Gate k op v (.dict c kvs') (o (.dict c kvs'))))
    (fuel : Nat) (hfuel : fuel ≥ F + rs.length + 1) :
    ∃ r, starIdx fuel root [] false rs.length 0 per (.at p) rl ('/' :: renderPos p) [] Option.none all = .ok (root, r) ∧
      r.isFound = !(somes (rs.map (fun rec => sel2Gate k op v rec (o rec)))).isEmpty ∧
      (r.isFound = true → r.value = collect rl (somes (rs.map (fun rec => sel2Gate k op v rec (o rec))))) := by
  have := starIdx_loop root [] false per (.at p) rl ('/' :: renderPos p) all hall F
    (rs.map (fun rec => sel2Gate k op v rec (o rec))) 0 rs.length [] Option.none fuel (by simp) ?_ (by simp; omega) (by simp)
  · simpa using this
  · intro j hj fu hfu
    have hj' : j < rs.length := by simpa using hj
    have hd := hrs _ (List.getElem_mem hj')
    cases hrj : rs[j] with
    | dict c kvs' =>
      have hget : rs[j]? = some (.dict c kvs') := by rw [List.getElem?_eq_getElem hj', hrj]
      obtain ⟨r, hr, h1, h2⟩ := helem j c kvs' hget fu hfu
      refine ⟨r, by simpa using hr, ?_, ?_⟩
      · simp [hrj, h1]
      · intro x hx; apply h2; simpa [hrj] using hx
    | _ => rw [hrj] at hd; simp [isDict] at hd

/-! ### a predicate step on the list at any position, any continuation -/

/-- the selection a predicate step makes over `rs` when the further steps have outcome `o rec` in record `rec` -/
def sel2Sel (k op : Str) (v : CondVal) (o : Val → Option Val) (rs : List Val) : List Val :=
  somes (rs.map (fun rec => sel2Gate k op v rec (o rec)))

/-- a selecting lookup: found exactly when something is selected, then the collected list -/
def Sel2Coll (root : Val) (rl : Bool) (x : PyM (Val × Res)) (vals : List Val) : Prop :=
  ∃ r, x = .ok (root, r) ∧ r.isFound = !vals.isEmpty ∧ (r.isFound = true → r.value = collect rl vals)

theorem Sel2Coll.out {root : Val} {rl : Bool} {x : PyM (Val × Res)} {vals : List Val} (h : Sel2Coll root rl x vals) :
    Sel2Out root x (if vals.isEmpty then Option.none else some (collect rl vals)) := by
  obtain ⟨r, hr, h1, h2⟩ := h
  refine ⟨r, hr, ?_, ?_⟩
  · cases hv : vals.isEmpty <;> simp [h1, hv]
  · intro x hx
    cases hv : vals.isEmpty with
    | true => simp [hv] at hx
    | false =>
      simp only [hv, Bool.false_eq_true, if_false, Option.some.injEq] at hx
      rw [← hx]; exact h2 (by simp [h1, hv])

/-- `[k op v] :: rest` on the list at `p` -/
theorem sel2_cond_list (root : Val) (rl entry : Bool) (p : Pos) (k op T : Str) (v : CondVal) (lc : Cls) (rs : List Val)
    (rest : List Str) (o : Val → Option Val) (F : Nat)
    (hp : PlainPos p) (hk : PlainKey k) (hkt : k ≠ sTextFn)
    (hq : getAt root p = some (.list lc rs)) (hrs : ∀ r ∈ rs, isDict r = true)
    (hs1 : splitNameIndex T = .ok ([], .cond k op v))
    (hs2 : splitNameIndex (bracket (sTextFn ++ op ++ condValStr v)) = .ok ([], .cond sTextFn op v)) (hop : OpSpell op op)
    (hg : ∀ c kvs' kv, Val.dict c kvs' ∈ rs → lookup k kvs' = some kv → textGuard kv v = false) (hrest : rest ≠ [])
    (hcont : ∀ (j : Nat) (c : Cls) (kvs' : List (Str × Val)), rs[j]? = some (.dict c kvs') → ∀ fu ≥ F, Sel2Out root
      (findD fu root [] false false rest (.at (p ++ [.idx j])) rl ('/' :: renderPos (p ++ [.idx j]))) (o (.dict c kvs')))
    (fuel : Nat) (hfuel : fuel ≥ F + 2 * p.length + rs.length + 9) :
    Sel2Coll root rl (findD fuel root [] false entry (T :: rest) (.at p) rl ('/' :: renderPos p)) (sel2Sel k op v o rs) := by
  obtain ⟨g, rfl⟩ : ∃ g, fuel = g + 2 := ⟨fuel - 2, by omega⟩
  rw [find_cond_on_list (g + 1) root entry rl p _ T k op v rest lc rs hq hs1 hkt]
  rw [find_star_step g root false rl p _ _ _ lc rs hq split_star]
  apply sel2_pred_loop root rl p k op v lc rs (T :: rest) _ o (F + 2 * p.length + 6) (by simp) hq hrs _ g (by omega)
  intro j c kvs' hj fu hfu
  exact sel2_cond_elem root rl p k op T _ v lc rs j c kvs' rest _ F hp hk hkt hq hj hs1 rfl hs2 hop
    (fun kv hkv => hg c kvs' kv (List.mem_of_getElem? hj) hkv) hrest (hcont j c kvs' hj) fu hfu

/-- `k[text() op v] :: '..' :: rest` on the list at `p` (the `[*]` is supplied by the engine) -/
theorem sel2_textform_list (root : Val) (rl entry : Bool) (p : Pos) (k op T : Str) (v : CondVal) (lc : Cls) (rs : List Val)
    (rest : List Str) (o : Val → Option Val) (F : Nat)
    (hp : PlainPos p) (hk : PlainKey k)
    (hq : getAt root p = some (.list lc rs)) (hrs : ∀ r ∈ rs, isDict r = true)
    (hs1 : splitNameIndex T = .ok (k, .cond sTextFn op v))
    (hs2 : splitNameIndex (bracket (sTextFn ++ op ++ ['\''] ++ condValStr v ++ ['\''])) = .ok ([], .cond sTextFn op v))
    (hop : OpSpell op op)
    (hg : ∀ c kvs' kv, Val.dict c kvs' ∈ rs → lookup k kvs' = some kv → textGuard kv v = false) (hrest : rest ≠ [])
    (hcont : ∀ (j : Nat) (c : Cls) (kvs' : List (Str × Val)), rs[j]? = some (.dict c kvs') → ∀ fu ≥ F, Sel2Out root
      (findD fu root [] false false rest (.at (p ++ [.idx j])) rl ('/' :: renderPos (p ++ [.idx j]))) (o (.dict c kvs')))
    (fuel : Nat) (hfuel : fuel ≥ F + 2 * p.length + rs.length + 9) :
    Sel2Coll root rl (findD fuel root [] false entry (T :: ['.', '.'] :: rest) (.at p) rl ('/' :: renderPos p))
      (sel2Sel k op v o rs) := by
  obtain ⟨g, rfl⟩ : ∃ g, fuel = g + 2 := ⟨fuel - 2, by omega⟩
  rw [find_name_on_list (g + 1) root entry rl p _ T k _ _ lc rs hq hs1 hk.ne hk.notUp]
  rw [find_star_step g root false rl p _ _ _ lc rs hq split_star]
  apply sel2_pred_loop root rl p k op v lc rs (T :: ['.', '.'] :: rest) _ o (F + 2 * p.length + 6) (by simp) hq hrs _ g (by omega)
  intro j c kvs' hj fu hfu
  exact sel2_textform_elem root rl p k op T _ v lc rs j c kvs' rest _ F hp hk hq hj hs1 rfl hs2 hop
    (fun kv hkv => hg c kvs' kv (List.mem_of_getElem? hj) hkv) hrest (hcont j c kvs' hj) fu hfu

theorem sel2_found_key (q : Pos) (name : Str) : '/' :: renderPos q ++ slash ++ name = '/' :: renderPos (q ++ [.key name]) := by
  simp [renderPos, renderSeg, slash]

theorem sel2_tok_reemit (k op v : Str) (hk : FieldKey k) (hop : OpSpell op op) (hv : PlainLit v) :
    splitNameIndex (bracket (k ++ op ++ ['\''] ++ condValStr (.str v) ++ ['\''])) = .ok ([], .cond k op (.str v)) := by
  have := split_cond [] k op op _ v (Or.inl rfl) hk.cond hop (.sq v) hv
  simpa [condValStr, List.append_assoc] using this

theorem sel2_tok_text_bare (op v : Str) (hop : OpSpell op op) (hv : PlainLit v) :
    splitNameIndex (bracket (sTextFn ++ op ++ condValStr (.str v))) = .ok ([], .cond sTextFn op (.str v)) := by
  have := split_cond [] sTextFn op op _ v (Or.inl rfl) condKey_text hop (.bare v) hv
  simpa [condValStr, List.append_assoc] using this

theorem sel2_tok_text_quoted (op v : Str) (hop : OpSpell op op) (hv : PlainLit v) :
    splitNameIndex (bracket (sTextFn ++ op ++ ['\''] ++ condValStr (.str v) ++ ['\''])) = .ok ([], .cond sTextFn op (.str v)) := by
  have := split_cond [] sTextFn op op _ v (Or.inl rfl) condKey_text hop (.sq v) hv
  simpa [condValStr, List.append_assoc] using this

/-- `name[k op v] :: rest` in the dict at `q` whose `name` is a list of records -/
theorem sel2_keycond_list (root : Val) (rl entry : Bool) (q : Pos) (name k opx op vq v : Str) (cls : Cls)
    (kvs : List (Str × Val)) (lc : Cls) (rs : List Val) (rest : List Str) (o : Val → Option Val) (F : Nat)
    (hq : PlainPos q) (hname : PlainKey name) (hk : FieldKey k) (hop : OpSpell opx op) (hlit : LitSpell vq v) (hv : PlainLit v)
    (hqv : getAt root q = some (.dict cls kvs)) (hl : lookup name kvs = some (.list lc rs))
    (hrs : ∀ r ∈ rs, isDict r = true)
    (hg : ∀ c kvs' kv, Val.dict c kvs' ∈ rs → lookup k kvs' = some kv → textGuard kv (.str v) = false) (hrest : rest ≠ [])
    (hcont : ∀ (j : Nat) (c : Cls) (kvs' : List (Str × Val)), rs[j]? = some (.dict c kvs') → ∀ fu ≥ F, Sel2Out root
      (findD fu root [] false false rest (.at (q ++ [.key name] ++ [.idx j])) rl ('/' :: renderPos (q ++ [.key name] ++ [.idx j])))
      (o (.dict c kvs')))
    (fuel : Nat) (hfuel : fuel ≥ F + 2 * q.length + rs.length + 12) :
    Sel2Coll root rl (findD fuel root [] false entry ((name ++ bracket (k ++ opx ++ vq)) :: rest) (.at q) rl ('/' :: renderPos q))
      (sel2Sel k op (.str v) o rs) := by
  obtain ⟨g, rfl⟩ : ∃ g, fuel = g + 1 := ⟨fuel - 1, by omega⟩
  have hopc := opSpell_canon hop
  have hs0 := split_cond name k opx op vq v (Or.inr hname) hk.cond hop hlit hv
  have hq1 : getAt root (q ++ [.key name]) = some (.list lc rs) := by rw [getAt_snoc, hqv]; simp [child, hl]
  rw [find_keycond_step g root entry rl q _ _ name k op (.str v) rest cls kvs _ hqv hs0 hname.ne hname.notUp
    hname.keyTok.notStar hl, sel2_found_key]
  exact sel2_cond_list root rl false (q ++ [.key name]) k op _ (.str v) lc rs rest o F
    (sel2_plainPos_of hq (by exact (⟨hname, trivial⟩ : PlainPos [.key name]))) hk.plain hk.notText hq1 hrs
    (sel2_tok_reemit k op v hk hopc hv) (sel2_tok_text_bare op v hopc hv) hopc hg hrest hcont g (by simp; omega)

/-- the continuation `f`: the field of the record -/
theorem sel2_field_cont (root : Val) (rl : Bool) (pos : Pos) (c : Cls) (kvs' : List (Str × Val)) (f found : Str)
    (hq : getAt root pos = some (.dict c kvs')) (hf : KeyTok f) (fu : Nat) (hfu : fu ≥ 1) :
    Sel2Out root (findD fu root [] false false [f] (.at pos) rl found) (fieldOf f (.dict c kvs')) := by
  obtain ⟨g, rfl⟩ : ∃ g, fu = g + 1 := ⟨fu - 1, by omega⟩
  cases hl : lookup f kvs' with
  | none =>
    rw [find_key_missing g root false rl _ _ f [] c kvs' hq hf hl]
    simpa [fieldOf, hl] using sel2Out_notFound root _ _ _ _ _ (by simp)
  | some x =>
    rw [find_key_last g root false rl _ _ f c kvs' x hq hf hl]
    exact ⟨_, rfl, by simp [Res.isFound, fieldOf, hl], by intro x' hx'; simp [fieldOf, hl] at hx'; subst hx'; rfl⟩

theorem sel2Sel_fieldOf (k f op : Str) (v : CondVal) (rs : List Val) :
    sel2Sel k op v (fieldOf f) rs = somes (rs.map (condOutcome k f op v)) := by
  unfold sel2Sel
  congr 1
  apply List.map_congr_left
  intro rec _
  exact sel2_gate_fieldOf k f op v rec

/-! ### the predicate forms for the record list at any position (un-chained) -/

theorem sel2_slash_render (p : Pos) : slash ++ renderPos p = '/' :: renderPos p := rfl

/-- bracket form, `P` ending in a key, tree level -/
theorem sel2_cond_find_key (root : Val) (rl : Bool) (p : Pos) (name k f opx op vq v : Str) (lc : Cls) (rs : List Val)
    (hp : PlainPos p) (hname : PlainKey name) (hk : FieldKey k) (hf : PlainKey f) (hop : OpSpell opx op)
    (hlit : LitSpell vq v) (hv : PlainLit v)
    (hget : getAt root (p ++ [.key name]) = some (.list lc rs)) (hrs : ∀ r ∈ rs, isDict r = true)
    (hg : ∀ c kvs' kv, Val.dict c kvs' ∈ rs → lookup k kvs' = some kv → textGuard kv (.str v) = false)
    (fuel : Nat) (hfuel : fuel ≥ 4 * p.length + rs.length + 14) :
    Sel2Coll root rl
      (findD fuel root [] false true (mergedToks p ++ [name ++ bracket (k ++ opx ++ vq), f]) (.at []) rl slash)
      (somes (rs.map (condOutcome k f op (.str v)))) := by
  obtain ⟨cls, kvs, hpv, hl⟩ := sel2_getAt_snoc_key hget
  have hs := spellsF_merged p root _ hp hpv
  have hlen := mergedToks_length_le p
  obtain ⟨fuel', e', h1, h2, heq⟩ := find_walk root rl hs [name ++ bracket (k ++ opx ++ vq), f] (by simp) fuel [] slash true rfl
    (by omega)
  rw [heq, ← sel2Sel_fieldOf]
  simp only [List.nil_append, sel2_slash_render]
  exact sel2_keycond_list root rl e' p name k opx op vq v cls kvs lc rs [f] (fieldOf f) 1 hp hname hk hop hlit hv hpv hl hrs
    hg (by simp)
    (fun j c kvs' hj fu hfu => sel2_field_cont root rl _ c kvs' f _ (sel2_getAt_snoc_idx hget hj) hf.keyTok fu hfu)
    fuel' (by omega)

/-- bracket form, `P` ending in an index, tree level -/
theorem sel2_cond_find_idx (root : Val) (rl : Bool) (p : Pos) (k f opx op vq v : Str) (lc : Cls) (rs : List Val)
    (hp : PlainPos p) (hk : FieldKey k) (hf : PlainKey f) (hop : OpSpell opx op)
    (hlit : LitSpell vq v) (hv : PlainLit v)
    (hget : getAt root p = some (.list lc rs)) (hrs : ∀ r ∈ rs, isDict r = true)
    (hg : ∀ c kvs' kv, Val.dict c kvs' ∈ rs → lookup k kvs' = some kv → textGuard kv (.str v) = false)
    (fuel : Nat) (hfuel : fuel ≥ 4 * p.length + rs.length + 14) :
    Sel2Coll root rl
      (findD fuel root [] false true (mergedToks p ++ [bracket (k ++ opx ++ vq), f]) (.at []) rl slash)
      (somes (rs.map (condOutcome k f op (.str v)))) := by
  have hs := spellsF_merged p root _ hp hget
  have hlen := mergedToks_length_le p
  obtain ⟨fuel', e', h1, h2, heq⟩ := find_walk root rl hs [bracket (k ++ opx ++ vq), f] (by simp) fuel [] slash true rfl
    (by omega)
  have hopc := opSpell_canon hop
  have hs1 : splitNameIndex (bracket (k ++ opx ++ vq)) = .ok ([], .cond k op (.str v)) := by
    simpa using split_cond [] k opx op vq v (Or.inl rfl) hk.cond hop hlit hv
  rw [heq, ← sel2Sel_fieldOf]
  simp only [List.nil_append, sel2_slash_render]
  exact sel2_cond_list root rl e' p k op _ (.str v) lc rs [f] (fieldOf f) 1 hp hk.plain hk.notText hget hrs hs1
    (sel2_tok_text_bare op v hopc hv) hopc hg (by simp)
    (fun j c kvs' hj fu hfu => sel2_field_cont root rl _ c kvs' f _ (sel2_getAt_snoc_idx hget hj) hf.keyTok fu hfu)
    fuel' (by omega)

/-- text form, tree level -/
theorem sel2_textform_find (root : Val) (rl : Bool) (p : Pos) (k f opx op vq v : Str) (lc : Cls) (rs : List Val)
    (hp : PlainPos p) (hk : FieldKey k) (hf : PlainKey f) (hop : OpSpell opx op)
    (hlit : LitSpell vq v) (hv : PlainLit v)
    (hget : getAt root p = some (.list lc rs)) (hrs : ∀ r ∈ rs, isDict r = true)
    (hg : ∀ c kvs' kv, Val.dict c kvs' ∈ rs → lookup k kvs' = some kv → textGuard kv (.str v) = false)
    (fuel : Nat) (hfuel : fuel ≥ 4 * p.length + rs.length + 14) :
    Sel2Coll root rl
      (findD fuel root [] false true (mergedToks p ++ [k ++ bracket (sTextFn ++ opx ++ vq), ['.', '.'], f]) (.at []) rl slash)
      (somes (rs.map (condOutcome k f op (.str v)))) := by
  have hs := spellsF_merged p root _ hp hget
  have hlen := mergedToks_length_le p
  obtain ⟨fuel', e', h1, h2, heq⟩ := find_walk root rl hs [k ++ bracket (sTextFn ++ opx ++ vq), ['.', '.'], f] (by simp) fuel []
    slash true rfl (by omega)
  have hopc := opSpell_canon hop
  rw [heq, ← sel2Sel_fieldOf]
  simp only [List.nil_append, sel2_slash_render]
  exact sel2_textform_list root rl e' p k op _ (.str v) lc rs [f] (fieldOf f) 1 hp hk.plain hget hrs
    (split_cond k sTextFn opx op vq v (Or.inr hk.plain) condKey_text hop hlit hv) (sel2_tok_text_quoted op v hopc hv) hopc hg
    (by simp)
    (fun j c kvs' hj fu hfu => sel2_field_cont root rl _ c kvs' f _ (sel2_getAt_snoc_idx hget hj) hf.keyTok fu hfu)
    fuel' (by omega)

theorem sel2_gBr_cond (k opx op vq v : Str) (hk : CondKey k) (hop : OpSpell opx op) (hlit : LitSpell vq v) (hv : PlainLit v) :
    GBr (k ++ opx ++ vq) :=
  ⟨fun c hc => (cond_text_chars k opx op vq v hk hop hlit hv c hc).1, fun c hc => (cond_text_chars k opx op vq v hk hop hlit hv c hc).2⟩

/-- **`P[k op v]/f` for the record list at any position** -/
theorem sel2_cond_api (cls : Cls) (kvs : List (Str × Val)) (p : Pos) (k f opx op vq v : Str) (lc : Cls) (rs : List Val) (d : Val)
    (hp : PlainPos p) (hne : p ≠ []) (hk : FieldKey k) (hf : PlainKey f) (hop : OpSpell opx op) (hlit : LitSpell vq v)
    (hv : PlainLit v) (hget : getAt (.dict cls kvs) p = some (.list lc rs)) (hrs : ∀ r ∈ rs, isDict r = true)
    (hg : ∀ c kvs' kv, Val.dict c kvs' ∈ rs → lookup k kvs' = some kv → textGuard kv (.str v) = false)
    (fuel : Nat) (hfuel : fuel ≥ 4 * p.length + rs.length + 14) :
    let xp := slash ++ renderPos p ++ bracket (k ++ opx ++ vq) ++ slash ++ f
    let vals := somes (rs.map (condOutcome k f op (.str v)))
    get fuel (.dict cls kvs) xp d = (.dict cls kvs, .ok (if vals.isEmpty then d else .list .n0 vals)) ∧
    getItem fuel (.dict cls kvs) xp = (.dict cls kvs, if vals.isEmpty then .error .IndexError else .ok (.list .n0 vals)) ∧
    first fuel (.dict cls kvs) xp d = (.dict cls kvs, .ok (firstOf vals d)) := by
  intro xp vals
  have hxp : xp = '/' :: sel2Render (sel2Embed p ++ [.br (k ++ opx ++ vq), .key f]) := by
    rw [sel2_render_append, sel2_render_embed]
    simp [xp, sel2Render, sel2RenderSeg, slash]
  have hgood : GoodG (sel2Embed p ++ [.br (k ++ opx ++ vq), .key f]) :=
    (sel2_good_embed p hp).append ⟨sel2_gBr_cond k opx op vq v hk.cond hop hlit hv, hf.gKey, trivial⟩
  have htok0 : tokenize xp = sel2Toks (sel2Embed p ++ [.br (k ++ opx ++ vq), .key f]) := by rw [hxp]; exact sel2_tokenize _ hgood
  have hq : startsWith xp ['?'] = false := by rw [hxp]; exact sel2_noQ_cons _
  have hpc : hasPathChar xp = true := by rw [hxp]; exact sel2_hasPathChar_cons _
  obtain ⟨p', s, rfl⟩ : ∃ p' s, p = p' ++ [s] := ⟨p.dropLast, p.getLast hne, (List.dropLast_concat_getLast hne).symm⟩
  obtain ⟨hp', hs⟩ := sel2_plainPos_append hp
  cases s with
  | key name =>
    have hname : PlainKey name := hs.1
    have htok : tokenize xp = mergedToks p' ++ [name ++ bracket (k ++ opx ++ vq), f] := by
      rw [htok0, sel2_embed_append]
      simp only [sel2Embed, List.append_assoc, List.cons_append, List.nil_append]
      rw [sel2_toks_append_key_br, sel2_toks_embed]
      simp [sel2Toks]
    apply select_api cls kvs xp _ vals d fuel hq hpc htok
    intro rl
    exact sel2_cond_find_key (.dict cls kvs) rl p' name k f opx op vq v lc rs hp' hname hk hf hop hlit hv hget hrs hg fuel
      (by simp at hfuel; omega)
  | idx n =>
    have htok : tokenize xp = mergedToks (p' ++ [.idx n]) ++ [bracket (k ++ opx ++ vq), f] := by
      rw [htok0, sel2_embed_append]
      simp only [sel2Embed, List.append_assoc, List.cons_append, List.nil_append]
      rw [sel2_toks_append_br_br, ← sel2_toks_embed, sel2_embed_append]
      simp [sel2Toks, sel2Embed]
    apply select_api cls kvs xp _ vals d fuel hq hpc htok
    intro rl
    exact sel2_cond_find_idx (.dict cls kvs) rl (p' ++ [.idx n]) k f opx op vq v lc rs hp hk hf hop hlit hv hget hrs hg fuel hfuel

/-- **`P/k[text() op v]/../f` for the record list at any position** -/
theorem sel2_textform_api (cls : Cls) (kvs : List (Str × Val)) (p : Pos) (k f opx op vq v : Str) (lc : Cls) (rs : List Val) (d : Val)
    (hp : PlainPos p) (hk : FieldKey k) (hf : PlainKey f) (hop : OpSpell opx op) (hlit : LitSpell vq v)
    (hv : PlainLit v) (hget : getAt (.dict cls kvs) p = some (.list lc rs)) (hrs : ∀ r ∈ rs, isDict r = true)
    (hg : ∀ c kvs' kv, Val.dict c kvs' ∈ rs → lookup k kvs' = some kv → textGuard kv (.str v) = false)
    (fuel : Nat) (hfuel : fuel ≥ 4 * p.length + rs.length + 14) :
    let xp := slash ++ renderPos p ++ slash ++ k ++ bracket (sTextFn ++ opx ++ vq) ++ slash ++ ['.', '.'] ++ slash ++ f
    let vals := somes (rs.map (condOutcome k f op (.str v)))
    get fuel (.dict cls kvs) xp d = (.dict cls kvs, .ok (if vals.isEmpty then d else .list .n0 vals)) ∧
    getItem fuel (.dict cls kvs) xp = (.dict cls kvs, if vals.isEmpty then .error .IndexError else .ok (.list .n0 vals)) ∧
    first fuel (.dict cls kvs) xp d = (.dict cls kvs, .ok (firstOf vals d)) := by
  intro xp vals
  have hxp : xp = '/' :: sel2Render (sel2Embed p ++ [.key k, .br (sTextFn ++ opx ++ vq), .key ['.', '.'], .key f]) := by
    rw [sel2_render_append, sel2_render_embed]
    simp [xp, sel2Render, sel2RenderSeg, slash]
  have hgood : GoodG (sel2Embed p ++ [.key k, .br (sTextFn ++ opx ++ vq), .key ['.', '.'], .key f]) :=
    (sel2_good_embed p hp).append
      ⟨hk.plain.gKey, sel2_gBr_cond sTextFn opx op vq v condKey_text hop hlit hv, sel2_gKey_up, hf.gKey, trivial⟩
  have htok : tokenize xp = mergedToks p ++ [k ++ bracket (sTextFn ++ opx ++ vq), ['.', '.'], f] := by
    rw [hxp, sel2_tokenize _ hgood, sel2_toks_append_key_br, sel2_toks_embed]
    simp [sel2Toks]
  apply select_api cls kvs xp _ vals d fuel (by rw [hxp]; exact sel2_noQ_cons _) (by rw [hxp]; exact sel2_hasPathChar_cons _) htok
  intro rl
  exact sel2_textform_find (.dict cls kvs) rl p k f opx op vq v lc rs hp hk hf hop hlit hv hget hrs hg fuel hfuel

/-! ### chained selections: a predicate below a predicate (fix C06-b) -/

/-- what the steps `items[k2 op v2]`, `f` yield in an outer record: the collected inner selection, when the
record has `items`, it is a list and something is selected in it -/
def sel2Inner (items k2 f op2 : Str) (v2 : CondVal) (rl : Bool) (rec : Val) : Option Val :=
  match rec with
  | .dict _ kvs' =>
    match lookup items kvs' with
    | some (.list _ xs) =>
      if (somes (xs.map (condOutcome k2 f op2 v2))).isEmpty then Option.none
      else some (collect rl (somes (xs.map (condOutcome k2 f op2 v2))))
    | _ => Option.none
  | _ => Option.none

/-- length of the inner list of an outer record (fuel bound) -/
def sel2InnerLen (items : Str) (rec : Val) : Nat :=
  match rec with
  | .dict _ kvs' => (match lookup items kvs' with | some (.list _ xs) => xs.length | _ => 0)
  | _ => 0

theorem sel2_le_sum (g : Val → Nat) : ∀ (rs : List Val) (j : Nat) (rec : Val), rs[j]? = some rec → g rec ≤ (rs.map g).sum
  | [], j, rec, h => by simp at h
  | r :: rs, 0, rec, h => by simp at h; subst h; simp
  | r :: rs, j + 1, rec, h => by
    have := sel2_le_sum g rs j rec (by simpa using h)
    simp; omega

/-- the inner lists of the outer records: `items`, when present, is a list of dict records whose `k2` values
are comparable with the literal -/
def Sel2InnerOK (items k2 : Str) (v2 : CondVal) (rs : List Val) : Prop :=
  ∀ c kvs' x, Val.dict c kvs' ∈ rs → lookup items kvs' = some x →
    ∃ lc xs, x = .list lc xs ∧ (∀ y ∈ xs, isDict y = true) ∧
      ∀ c2 kvs2 kv, Val.dict c2 kvs2 ∈ xs → lookup k2 kvs2 = some kv → textGuard kv v2 = false

/-- the steps `items[k2 op v2]`, `f` in the outer record at `pos` -/
theorem sel2_inner_cont (root : Val) (rl : Bool) (pos : Pos) (c : Cls) (kvs' : List (Str × Val)) (items k2 f opx2 op2 vq2 v2 : Str)
    (M : Nat) (hpos : PlainPos pos) (hitems : PlainKey items) (hk2 : FieldKey k2) (hf : PlainKey f) (hop2 : OpSpell opx2 op2)
    (hlit2 : LitSpell vq2 v2) (hv2 : PlainLit v2)
    (hq : getAt root pos = some (.dict c kvs'))
    (hok : ∀ x, lookup items kvs' = some x → ∃ lc xs, x = .list lc xs ∧ (∀ y ∈ xs, isDict y = true) ∧
      ∀ c2 kvs2 kv, Val.dict c2 kvs2 ∈ xs → lookup k2 kvs2 = some kv → textGuard kv (.str v2) = false)
    (hM : sel2InnerLen items (.dict c kvs') ≤ M)
    (fu : Nat) (hfu : fu ≥ 2 * pos.length + M + 13) :
    Sel2Out root
      (findD fu root [] false false [items ++ bracket (k2 ++ opx2 ++ vq2), f] (.at pos) rl ('/' :: renderPos pos))
      (sel2Inner items k2 f op2 (.str v2) rl (.dict c kvs')) := by
  cases hl : lookup items kvs' with
  | none =>
    obtain ⟨g, rfl⟩ : ∃ g, fu = g + 1 := ⟨fu - 1, by omega⟩
    rw [find_keycond_missing g root false rl _ _ _ items _ [f] c kvs' hq
      (split_cond items k2 opx2 op2 vq2 v2 (Or.inr hitems) hk2.cond hop2 hlit2 hv2) hitems.ne hitems.notUp hitems.keyTok.notStar hl]
    simpa [sel2Inner, hl] using sel2Out_notFound root _ _ _ _ _ (by simp)
  | some x =>
    obtain ⟨lc, xs, rfl, hds, hg⟩ := hok x hl
    have hlen : xs.length ≤ M := by simpa [sel2InnerLen, hl] using hM
    have hget2 : getAt root (pos ++ [.key items]) = some (.list lc xs) := by rw [getAt_snoc, hq]; simp [child, hl]
    have := (sel2_keycond_list root rl false pos items k2 opx2 op2 vq2 v2 c kvs' lc xs [f] (fieldOf f) 1 hpos hitems hk2 hop2 hlit2
      hv2 hq hl hds hg (by simp)
      (fun j c2 kvs2 hj fu' hfu' => sel2_field_cont root rl _ c2 kvs2 f _ (sel2_getAt_snoc_idx hget2 hj) hf.keyTok fu' hfu')
      fu (by omega)).out
    rw [sel2Sel_fieldOf] at this
    simpa [sel2Inner, hl] using this

/-- the selection of a chained lookup (for `return_lists` = `rl`) -/
def sel2Chained (k1 op1 : Str) (v1 : CondVal) (items k2 f op2 : Str) (v2 : CondVal) (rl : Bool) (rs : List Val) : List Val :=
  sel2Sel k1 op1 v1 (sel2Inner items k2 f op2 v2 rl) rs

/-- chained selection, `P` ending in a key, tree level -/
theorem sel2_chained_find_key (root : Val) (rl : Bool) (p : Pos) (name k1 opx1 op1 vq1 v1 items k2 opx2 op2 vq2 v2 f : Str)
    (lc : Cls) (rs : List Val)
    (hp : PlainPos p) (hname : PlainKey name) (hk1 : FieldKey k1) (hop1 : OpSpell opx1 op1) (hlit1 : LitSpell vq1 v1)
    (hv1 : PlainLit v1) (hitems : PlainKey items) (hk2 : FieldKey k2) (hop2 : OpSpell opx2 op2) (hlit2 : LitSpell vq2 v2)
    (hv2 : PlainLit v2) (hf : PlainKey f)
    (hget : getAt root (p ++ [.key name]) = some (.list lc rs)) (hrs : ∀ r ∈ rs, isDict r = true)
    (hg : ∀ c kvs' kv, Val.dict c kvs' ∈ rs → lookup k1 kvs' = some kv → textGuard kv (.str v1) = false)
    (hin : Sel2InnerOK items k2 (.str v2) rs)
    (fuel : Nat) (hfuel : fuel ≥ 6 * p.length + rs.length + (rs.map (sel2InnerLen items)).sum + 32) :
    Sel2Coll root rl
      (findD fuel root [] false true
        (mergedToks p ++ [name ++ bracket (k1 ++ opx1 ++ vq1), items ++ bracket (k2 ++ opx2 ++ vq2), f]) (.at []) rl slash)
      (sel2Chained k1 op1 (.str v1) items k2 f op2 (.str v2) rl rs) := by
  obtain ⟨cls, kvs, hpv, hl⟩ := sel2_getAt_snoc_key hget
  have hs := spellsF_merged p root _ hp hpv
  have hlen := mergedToks_length_le p
  obtain ⟨fuel', e', h1, h2, heq⟩ := find_walk root rl hs
    [name ++ bracket (k1 ++ opx1 ++ vq1), items ++ bracket (k2 ++ opx2 ++ vq2), f] (by simp) fuel [] slash true rfl (by omega)
  have hp1 : PlainPos (p ++ [.key name]) := sel2_plainPos_of hp (by exact (⟨hname, trivial⟩ : PlainPos [.key name]))
  rw [heq]
  simp only [List.nil_append, sel2_slash_render]
  exact sel2_keycond_list root rl e' p name k1 opx1 op1 vq1 v1 cls kvs lc rs _ _
    (2 * (p.length + 2) + (rs.map (sel2InnerLen items)).sum + 13) hp hname hk1 hop1 hlit1 hv1 hpv hl hrs hg (by simp)
    (fun j c kvs' hj fu hfu =>
      sel2_inner_cont root rl _ c kvs' items k2 f opx2 op2 vq2 v2 _
        (sel2_plainPos_of hp1 (by exact (trivial : PlainPos [.idx j]))) hitems hk2 hf hop2 hlit2 hv2
        (sel2_getAt_snoc_idx hget hj) (fun x hx => hin c kvs' x (List.mem_of_getElem? hj) hx)
        (sel2_le_sum (sel2InnerLen items) rs j _ hj) fu (by simp at hfu ⊢; omega))
    fuel' (by omega)

/-- chained selection, `P` ending in an index, tree level -/
theorem sel2_chained_find_idx (root : Val) (rl : Bool) (p : Pos) (k1 opx1 op1 vq1 v1 items k2 opx2 op2 vq2 v2 f : Str)
    (lc : Cls) (rs : List Val)
    (hp : PlainPos p) (hk1 : FieldKey k1) (hop1 : OpSpell opx1 op1) (hlit1 : LitSpell vq1 v1)
    (hv1 : PlainLit v1) (hitems : PlainKey items) (hk2 : FieldKey k2) (hop2 : OpSpell opx2 op2) (hlit2 : LitSpell vq2 v2)
    (hv2 : PlainLit v2) (hf : PlainKey f)
    (hget : getAt root p = some (.list lc rs)) (hrs : ∀ r ∈ rs, isDict r = true)
    (hg : ∀ c kvs' kv, Val.dict c kvs' ∈ rs → lookup k1 kvs' = some kv → textGuard kv (.str v1) = false)
    (hin : Sel2InnerOK items k2 (.str v2) rs)
    (fuel : Nat) (hfuel : fuel ≥ 6 * p.length + rs.length + (rs.map (sel2InnerLen items)).sum + 32) :
    Sel2Coll root rl
      (findD fuel root [] false true
        (mergedToks p ++ [bracket (k1 ++ opx1 ++ vq1), items ++ bracket (k2 ++ opx2 ++ vq2), f]) (.at []) rl slash)
      (sel2Chained k1 op1 (.str v1) items k2 f op2 (.str v2) rl rs) := by
  have hs := spellsF_merged p root _ hp hget
  have hlen := mergedToks_length_le p
  obtain ⟨fuel', e', h1, h2, heq⟩ := find_walk root rl hs
    [bracket (k1 ++ opx1 ++ vq1), items ++ bracket (k2 ++ opx2 ++ vq2), f] (by simp) fuel [] slash true rfl (by omega)
  have hopc := opSpell_canon hop1
  have hs1 : splitNameIndex (bracket (k1 ++ opx1 ++ vq1)) = .ok ([], .cond k1 op1 (.str v1)) := by
    simpa using split_cond [] k1 opx1 op1 vq1 v1 (Or.inl rfl) hk1.cond hop1 hlit1 hv1
  rw [heq]
  simp only [List.nil_append, sel2_slash_render]
  exact sel2_cond_list root rl e' p k1 op1 _ (.str v1) lc rs _ _
    (2 * (p.length + 1) + (rs.map (sel2InnerLen items)).sum + 13) hp hk1.plain hk1.notText hget hrs hs1
    (sel2_tok_text_bare op1 v1 hopc hv1) hopc hg (by simp)
    (fun j c kvs' hj fu hfu =>
      sel2_inner_cont root rl _ c kvs' items k2 f opx2 op2 vq2 v2 _
        (sel2_plainPos_of hp (by exact (trivial : PlainPos [.idx j]))) hitems hk2 hf hop2 hlit2 hv2
        (sel2_getAt_snoc_idx hget hj) (fun x hx => hin c kvs' x (List.mem_of_getElem? hj) hx)
        (sel2_le_sum (sel2InnerLen items) rs j _ hj) fu (by simp at hfu ⊢; omega))
    fuel' (by omega)

/-- `get` / item access from a `return_lists = True` selection -/
theorem sel2_api_get (cls : Cls) (kvs : List (Str × Val)) (xp : Str) (toks : List Str) (vals : List Val) (d : Val) (fuel : Nat)
    (hq : startsWith xp ['?'] = false) (hpc : hasPathChar xp = true) (htok : tokenize xp = toks)
    (hfind : Sel2Coll (.dict cls kvs) true (findD fuel (.dict cls kvs) [] false true toks (.at []) true slash) vals) :
    get fuel (.dict cls kvs) xp d = (.dict cls kvs, .ok (if vals.isEmpty then d else .list .n0 vals)) ∧
    getItem fuel (.dict cls kvs) xp = (.dict cls kvs, if vals.isEmpty then .error .IndexError else .ok (.list .n0 vals)) := by
  have key : ∀ (raise : Bool) (d : Val), getCore fuel (.dict cls kvs) xp d raise true
      = (.dict cls kvs, if vals.isEmpty then (if raise then .error .IndexError else .ok d) else .ok (.list .n0 vals)) := by
    intro raise d
    obtain ⟨r, hr, hf, hval⟩ := hfind
    rw [getCore_of_find cls kvs xp toks d raise true fuel r hq hpc htok hr]
    cases he : vals.isEmpty with
    | true => simp [hf, he]
    | false =>
      have : r.isFound = true := by simp [hf, he]
      simp [this, hval this, collect]
  refine ⟨?_, ?_⟩
  · rw [get, key false d]; cases vals.isEmpty <;> simp
  · rw [getItem, key true Val.none]; cases vals.isEmpty <;> simp

/-- **Chained selection `P[k1 op v1]/items[k2 op v2]/f`** for the record list at any position, through `get`
and item access -/
theorem sel2_chained_api (cls : Cls) (kvs : List (Str × Val)) (p : Pos)
    (k1 opx1 op1 vq1 v1 items k2 opx2 op2 vq2 v2 f : Str) (lc : Cls) (rs : List Val) (d : Val)
    (hp : PlainPos p) (hne : p ≠ []) (hk1 : FieldKey k1) (hop1 : OpSpell opx1 op1) (hlit1 : LitSpell vq1 v1)
    (hv1 : PlainLit v1) (hitems : PlainKey items) (hk2 : FieldKey k2) (hop2 : OpSpell opx2 op2) (hlit2 : LitSpell vq2 v2)
    (hv2 : PlainLit v2) (hf : PlainKey f)
    (hget : getAt (.dict cls kvs) p = some (.list lc rs)) (hrs : ∀ r ∈ rs, isDict r = true)
    (hg : ∀ c kvs' kv, Val.dict c kvs' ∈ rs → lookup k1 kvs' = some kv → textGuard kv (.str v1) = false)
    (hin : Sel2InnerOK items k2 (.str v2) rs)
    (fuel : Nat) (hfuel : fuel ≥ 6 * p.length + rs.length + (rs.map (sel2InnerLen items)).sum + 32) :
    let xp := slash ++ renderPos p ++ bracket (k1 ++ opx1 ++ vq1) ++ slash ++ items ++ bracket (k2 ++ opx2 ++ vq2) ++ slash ++ f
    let vals := sel2Chained k1 op1 (.str v1) items k2 f op2 (.str v2) true rs
    get fuel (.dict cls kvs) xp d = (.dict cls kvs, .ok (if vals.isEmpty then d else .list .n0 vals)) ∧
    getItem fuel (.dict cls kvs) xp = (.dict cls kvs, if vals.isEmpty then .error .IndexError else .ok (.list .n0 vals)) := by
  intro xp vals
  have hxp : xp = '/' :: sel2Render (sel2Embed p ++ [.br (k1 ++ opx1 ++ vq1), .key items, .br (k2 ++ opx2 ++ vq2), .key f]) := by
    rw [sel2_render_append, sel2_render_embed]
    simp [xp, sel2Render, sel2RenderSeg, slash]
  have hgood : GoodG (sel2Embed p ++ [.br (k1 ++ opx1 ++ vq1), .key items, .br (k2 ++ opx2 ++ vq2), .key f]) :=
    (sel2_good_embed p hp).append ⟨sel2_gBr_cond k1 opx1 op1 vq1 v1 hk1.cond hop1 hlit1 hv1, hitems.gKey,
      sel2_gBr_cond k2 opx2 op2 vq2 v2 hk2.cond hop2 hlit2 hv2, hf.gKey, trivial⟩
  have htok0 := sel2_tokenize _ hgood
  rw [← hxp] at htok0
  have hq : startsWith xp ['?'] = false := by rw [hxp]; exact sel2_noQ_cons _
  have hpc : hasPathChar xp = true := by rw [hxp]; exact sel2_hasPathChar_cons _
  obtain ⟨p', s, rfl⟩ : ∃ p' s, p = p' ++ [s] := ⟨p.dropLast, p.getLast hne, (List.dropLast_concat_getLast hne).symm⟩
  obtain ⟨hp', hs⟩ := sel2_plainPos_append hp
  cases s with
  | key name =>
    have hname : PlainKey name := hs.1
    have htok : tokenize xp = mergedToks p' ++ [name ++ bracket (k1 ++ opx1 ++ vq1), items ++ bracket (k2 ++ opx2 ++ vq2), f] := by
      rw [htok0, sel2_embed_append]
      simp only [sel2Embed, List.append_assoc, List.cons_append, List.nil_append]
      rw [sel2_toks_append_key_br, sel2_toks_embed]
      simp [sel2Toks]
    apply sel2_api_get cls kvs xp _ vals d fuel hq hpc htok
    exact sel2_chained_find_key (.dict cls kvs) true p' name k1 opx1 op1 vq1 v1 items k2 opx2 op2 vq2 v2 f lc rs hp' hname hk1 hop1
      hlit1 hv1 hitems hk2 hop2 hlit2 hv2 hf hget hrs hg hin fuel (by simp at hfuel; omega)
  | idx n =>
    have htok : tokenize xp = mergedToks (p' ++ [.idx n]) ++ [bracket (k1 ++ opx1 ++ vq1), items ++ bracket (k2 ++ opx2 ++ vq2), f] := by
      rw [htok0, sel2_embed_append]
      simp only [sel2Embed, List.append_assoc, List.cons_append, List.nil_append]
      rw [sel2_toks_append_br_br, ← sel2_toks_embed, sel2_embed_append]
      simp [sel2Toks, sel2Embed]
    apply sel2_api_get cls kvs xp _ vals d fuel hq hpc htok
    exact sel2_chained_find_idx (.dict cls kvs) true (p' ++ [.idx n]) k1 opx1 op1 vq1 v1 items k2 opx2 op2 vq2 v2 f lc rs hp hk1 hop1
      hlit1 hv1 hitems hk2 hop2 hlit2 hv2 hf hget hrs hg hin fuel hfuel

end N0.XPath
