import N0Verif.Proofs.XPathSelect
import N0Verif.Proofs.XPathTreeFound
/-!
  Selecting steps on a record list at **any position** of the tree, and chained selections.

  * `sel2_split`, `sel2_tokenize` — tokenisation of a path text made of `/key` and `[text]` pieces
    (generalises `tokenize_render`: the bracket text may be `*`, a condition, …; the un-stripped
    form is what the `'..'` step splits);
  * `sel2_star_*` — `P[*]/f` for the canonical path `P` of any position;
  * `sel2_pred_*` — the predicate forms at any position, through the `found` text of the walk
    (`find_walk`/`SpellsF`) and its re-resolution by `'..'`;
  * `sel2_chained_*` — a predicate below a predicate (fix C06-b).
-/
namespace N0.XPath
open N0 N0.Py N0.Val

/-! ### path texts made of `/key` and `[text]` pieces -/

/-- a piece of a path text: `/k` or `[e]` -/
inductive GSeg
  | key (k : Str)
  | br (e : Str)

def sel2RenderSeg : GSeg → Str
  | .key k => '/' :: k
  | .br e => bracket e

def sel2Render (gs : List GSeg) : Str := gs.flatMap sel2RenderSeg

/-- the tokens of such a text: a key followed by a bracket is one token -/
def sel2Toks : List GSeg → List Str
  | [] => []
  | .key k :: .br e :: rest => (k ++ bracket e) :: sel2Toks rest
  | .key k :: rest => k :: sel2Toks rest
  | .br e :: rest => bracket e :: sel2Toks rest

/-- a key piece: non-empty, no `]`, no `/`, no blank at either end -/
structure GKey (k : Str) : Prop where
  ne : k ≠ []
  noRB : ∀ c ∈ k, c ≠ ']'
  noSlash : ∀ c ∈ k, c ≠ '/'
  head : ∀ c, k.head? = some c → isPySpace c = false
  last : ∀ c, k.getLast? = some c → isPySpace c = false

/-- a bracket text: no `]`, no `/` -/
structure GBr (e : Str) : Prop where
  noRB : ∀ c ∈ e, c ≠ ']'
  noSlash : ∀ c ∈ e, c ≠ '/'

def GoodG : List GSeg → Prop
  | [] => True
  | .key k :: rest => GKey k ∧ GoodG rest
  | .br e :: rest => GBr e ∧ GoodG rest

theorem GoodG.append {a b : List GSeg} (ha : GoodG a) (hb : GoodG b) : GoodG (a ++ b) := by
  induction a with
  | nil => exact hb
  | cons s r ih =>
    cases s with
    | key k => exact ⟨ha.1, ih ha.2⟩
    | br e => exact ⟨ha.1, ih ha.2⟩

theorem PlainKey.gKey {k : Str} (h : PlainKey k) : GKey k where
  ne := h.ne
  noRB := h.noRB
  noSlash := h.noSlash
  head := fun c hc => (plainChar_ne (h.chars c (List.mem_of_mem_head? hc))).2.2.2.2
  last := fun c hc => (plainChar_ne (h.chars c (List.mem_of_getLast? hc))).2.2.2.2

theorem sel2_gKey_up : GKey ['.', '.'] where
  ne := by simp
  noRB := by decide
  noSlash := by decide
  head := by intro c hc; simp at hc; subst hc; decide
  last := by intro c hc; simp at hc; subst hc; decide

theorem sel2_gBr_nat (n : Nat) : GBr (natStr n) := ⟨natStr_noRB n, natStr_noSlash n⟩

theorem sel2_gBr_star : GBr ['*'] := ⟨by decide, by decide⟩

/-- rendering with the separator `replace("][","]/[")` inserts -/
def sel2RenderF : Bool → List GSeg → Str
  | _, [] => []
  | _, .key k :: rest => '/' :: k ++ sel2RenderF false rest
  | false, .br e :: rest => bracket e ++ sel2RenderF true rest
  | true, .br e :: rest => '/' :: bracket e ++ sel2RenderF true rest

theorem sel2_fixBr_render (gs : List GSeg) (hg : GoodG gs) :
    fixBr (sel2Render gs) = sel2RenderF false gs ∧
    ∀ ds : Str, (∀ c ∈ ds, c ≠ ']') → fixBr (ds ++ ']' :: sel2Render gs) = ds ++ ']' :: sel2RenderF true gs := by
  induction gs with
  | nil =>
    refine ⟨rfl, fun ds hds => ?_⟩
    rw [fixBr_append_noRB ds _ hds]
    simp [sel2Render, sel2RenderF, fixBr_rb_nil]
  | cons s r ih =>
    cases s with
    | key k =>
      obtain ⟨hk, hr⟩ := hg
      obtain ⟨ihA, _⟩ := ih hr
      have hA : fixBr (sel2Render (.key k :: r)) = sel2RenderF false (.key k :: r) := by
        simp only [sel2Render, List.flatMap_cons, sel2RenderSeg, List.cons_append, sel2RenderF]
        rw [fixBr_cons_ne '/' _ (by decide), fixBr_append_noRB k _ hk.noRB]
        rw [show List.flatMap sel2RenderSeg r = sel2Render r from rfl, ihA]
      refine ⟨hA, fun ds hds => ?_⟩
      rw [fixBr_append_noRB ds _ hds]
      have : sel2Render (.key k :: r) = '/' :: (k ++ sel2Render r) := by simp [sel2Render, sel2RenderSeg]
      rw [this, fixBr_rb_other '/' _ (by decide), ← this, hA]
      simp [sel2RenderF]
    | br e =>
      obtain ⟨he, hr⟩ := hg
      obtain ⟨_, ihB⟩ := ih hr
      have hB := ihB e he.noRB
      have hform : sel2Render (.br e :: r) = '[' :: (e ++ ']' :: sel2Render r) := by
        simp [sel2Render, sel2RenderSeg, bracket]
      refine ⟨?_, fun ds hds => ?_⟩
      · rw [hform, fixBr_cons_ne '[' _ (by decide), hB]
        simp [sel2RenderF, bracket]
      · rw [fixBr_append_noRB ds _ hds, hform, fixBr_rb_lb, hB]
        simp [sel2RenderF, bracket]

/-- pieces of `cur ++ sel2RenderF b gs` when split at '/' -/
def sel2Pieces : Str → Bool → List GSeg → List Str
  | cur, _, [] => [cur]
  | cur, _, .key k :: rest => cur :: sel2Pieces k false rest
  | cur, false, .br e :: rest => sel2Pieces (cur ++ bracket e) true rest
  | cur, true, .br e :: rest => cur :: sel2Pieces (bracket e) true rest

theorem sel2_splitChar_pieces (gs : List GSeg) (hg : GoodG gs) :
    ∀ (cur : Str) (b : Bool), (∀ c ∈ cur, c ≠ '/') → splitChar '/' (cur ++ sel2RenderF b gs) = sel2Pieces cur b gs := by
  induction gs with
  | nil => intro cur b hc; simp [sel2RenderF, sel2Pieces, splitChar_no_delim '/' cur hc]
  | cons s r ih =>
    intro cur b hc
    cases s with
    | key k =>
      obtain ⟨hk, hr⟩ := hg
      simp only [sel2RenderF, sel2Pieces, List.cons_append]
      rw [splitChar_append '/' cur _ hc, ih hr k false hk.noSlash]
    | br e =>
      obtain ⟨he, hr⟩ := hg
      cases b with
      | false =>
        simp only [sel2RenderF, sel2Pieces]
        rw [← List.append_assoc]
        exact ih hr _ true (by
          intro c hc'; simp only [List.mem_append] at hc'
          rcases hc' with h | h
          · exact hc c h
          · exact bracket_mem_noSlash e he.noSlash c h)
      | true =>
        simp only [sel2RenderF, sel2Pieces, List.cons_append]
        rw [splitChar_append '/' cur _ hc, ih hr _ true (bracket_mem_noSlash e he.noSlash)]

/-- the non-empty pieces -/
def sel2NonEmpty (xs : List Str) : List Str := xs.filter (fun t => !t.isEmpty)

theorem sel2_nonEmpty_cons (x : Str) (xs : List Str) :
    sel2NonEmpty (x :: xs) = (if x.isEmpty then [] else [x]) ++ sel2NonEmpty xs := by
  unfold sel2NonEmpty
  cases h : x.isEmpty <;> simp [List.filter, h]

theorem sel2_nonEmpty_pieces (gs : List GSeg) (hg : GoodG gs) :
    (∀ k, k ≠ [] → sel2NonEmpty (sel2Pieces k false gs) = sel2Toks (.key k :: gs)) ∧
    (∀ cur, cur ≠ [] → sel2NonEmpty (sel2Pieces cur true gs) = cur :: sel2Toks gs) := by
  induction gs with
  | nil =>
    constructor
    · intro k hk
      simp [sel2Pieces, sel2NonEmpty, sel2Toks, isEmpty_false_of_ne hk]
    · intro cur hne
      simp [sel2Pieces, sel2NonEmpty, sel2Toks, isEmpty_false_of_ne hne]
  | cons s r ih =>
    cases s with
    | key k' =>
      obtain ⟨hk', hr⟩ := hg
      obtain ⟨ih1, _⟩ := ih hr
      constructor
      · intro k hk
        simp only [sel2Pieces, sel2_nonEmpty_cons, isEmpty_false_of_ne hk, Bool.false_eq_true, if_false]
        rw [ih1 k' hk'.ne]
        simp [sel2Toks]
      · intro cur hne
        simp only [sel2Pieces, sel2_nonEmpty_cons, isEmpty_false_of_ne hne, Bool.false_eq_true, if_false]
        rw [ih1 k' hk'.ne]
        rfl
    | br e =>
      obtain ⟨_, hr⟩ := hg
      obtain ⟨_, ih2⟩ := ih hr
      constructor
      · intro k hk
        simp only [sel2Pieces]
        rw [ih2 _ (by simp [bracket])]
        simp [sel2Toks]
      · intro cur hne
        simp only [sel2Pieces, sel2_nonEmpty_cons, isEmpty_false_of_ne hne, Bool.false_eq_true, if_false]
        rw [ih2 _ (bracket_ne_nil _)]
        simp [sel2Toks]

/-- **Splitting a path text.**  `'/' :: text`, after `replace("][","]/[")`, split at '/', empty pieces
dropped (no strip: this is what the `'..'` step does with `xpath_found_str`). -/
theorem sel2_split (gs : List GSeg) (hg : GoodG gs) :
    sel2NonEmpty (splitChar '/' (fixBr ('/' :: sel2Render gs))) = sel2Toks gs := by
  rw [fixBr_cons_ne '/' _ (by decide), (sel2_fixBr_render gs hg).1]
  have : splitChar '/' ('/' :: sel2RenderF false gs) = [] :: splitChar '/' (sel2RenderF false gs) := by
    simp [splitChar]
  rw [this, sel2_nonEmpty_cons]
  simp only [List.isEmpty_nil, if_true, List.nil_append]
  cases gs with
  | nil => simp [sel2RenderF, splitChar, sel2NonEmpty, sel2Toks]
  | cons s r =>
    cases s with
    | key k =>
      obtain ⟨hk, hr⟩ := hg
      have h0 := sel2_splitChar_pieces (.key k :: r) ⟨hk, hr⟩ [] false (by simp)
      simp only [List.nil_append] at h0
      rw [h0]
      simp only [sel2Pieces, sel2_nonEmpty_cons, List.isEmpty_nil, if_true, List.nil_append]
      exact (sel2_nonEmpty_pieces r hr).1 k hk.ne
    | br e =>
      obtain ⟨he, hr⟩ := hg
      have h0 := sel2_splitChar_pieces (.br e :: r) ⟨he, hr⟩ [] false (by simp)
      simp only [List.nil_append] at h0
      rw [h0]
      simp only [sel2Pieces, List.nil_append]
      rw [(sel2_nonEmpty_pieces r hr).2 _ (bracket_ne_nil _)]
      simp [sel2Toks]

theorem sel2_stripWs_bracket (e : Str) : stripWs (bracket e) = bracket e := by
  apply stripWs_eq_self
  · intro c hc; simp [bracket] at hc; subst hc; decide
  · intro c hc
    have : bracket e = ('[' :: e) ++ [']'] := by simp [bracket]
    rw [this, List.getLast?_append] at hc
    simp at hc; subst hc; decide

theorem sel2_stripWs_keyBracket {k : Str} (hk : GKey k) (e : Str) : stripWs (k ++ bracket e) = k ++ bracket e := by
  apply stripWs_eq_self
  · intro c hc
    cases k with
    | nil => exact absurd rfl hk.ne
    | cons x k => exact hk.head c (by simpa using hc)
  · intro c hc
    have : k ++ bracket e = (k ++ '[' :: e) ++ [']'] := by simp [bracket]
    rw [this, List.getLast?_append] at hc
    simp at hc; subst hc; decide

/-- the tokens are already stripped -/
theorem sel2_toks_stripped : ∀ (gs : List GSeg), GoodG gs → (sel2Toks gs).map stripWs = sel2Toks gs
  | [], _ => rfl
  | [.key k], hg => by
    simp [sel2Toks, stripWs_eq_self k hg.1.head hg.1.last]
  | .key k :: .key k2 :: rest, hg => by
    have ih := sel2_toks_stripped (.key k2 :: rest) hg.2
    rw [sel2Toks]
    · simp only [List.map_cons, stripWs_eq_self k hg.1.head hg.1.last, ih]
    · intro e r h; cases h
  | .key k :: .br e :: rest, hg => by
    have ih := sel2_toks_stripped rest hg.2.2
    simp only [sel2Toks, List.map_cons, sel2_stripWs_keyBracket hg.1 e, ih]
  | .br e :: rest, hg => by
    have ih := sel2_toks_stripped rest hg.2
    simp only [sel2Toks, List.map_cons, sel2_stripWs_bracket e, ih]

/-- **Tokenisation of a path text** (`_find` on a string xpath) -/
theorem sel2_tokenize (gs : List GSeg) (hg : GoodG gs) : tokenize ('/' :: sel2Render gs) = sel2Toks gs := by
  unfold tokenize
  have := sel2_split gs hg
  unfold sel2NonEmpty at this
  rw [this, sel2_toks_stripped gs hg]

/-- the pieces the `'..'` step resolves -/
theorem sel2_upToks (gs : List GSeg) (hg : GoodG gs) :
    ((splitChar '/' (fixBr ('/' :: sel2Render gs))).filter (fun t => !t.isEmpty)).dropLast = (sel2Toks gs).dropLast := by
  have := sel2_split gs hg
  unfold sel2NonEmpty at this
  rw [this]

/-! ### positions as path texts -/

def sel2Embed : Pos → List GSeg
  | [] => []
  | .key k :: rest => .key k :: sel2Embed rest
  | .idx n :: rest => .br (natStr n) :: sel2Embed rest

theorem sel2_embed_append (p q : Pos) : sel2Embed (p ++ q) = sel2Embed p ++ sel2Embed q := by
  induction p with
  | nil => rfl
  | cons s r ih => cases s <;> simp [sel2Embed, ih]

theorem sel2_render_embed (p : Pos) : sel2Render (sel2Embed p) = renderPos p := by
  induction p with
  | nil => rfl
  | cons s r ih =>
    cases s with
    | key k =>
      have : sel2Render (.key k :: sel2Embed r) = '/' :: k ++ sel2Render (sel2Embed r) := by simp [sel2Render, sel2RenderSeg]
      rw [sel2Embed, this, ih]; simp [renderPos, renderSeg]
    | idx n =>
      have : sel2Render (.br (natStr n) :: sel2Embed r) = bracket (natStr n) ++ sel2Render (sel2Embed r) := by
        simp [sel2Render, sel2RenderSeg]
      rw [sel2Embed, this, ih]; simp [renderPos, renderSeg]

theorem sel2_render_append (a b : List GSeg) : sel2Render (a ++ b) = sel2Render a ++ sel2Render b := by
  simp [sel2Render]

theorem sel2_good_embed (p : Pos) (hp : PlainPos p) : GoodG (sel2Embed p) := by
  induction p with
  | nil => trivial
  | cons s r ih =>
    cases s with
    | key k => exact ⟨hp.1.gKey, ih hp.2⟩
    | idx n => exact ⟨sel2_gBr_nat n, ih hp⟩

theorem sel2_toks_embed (p : Pos) : sel2Toks (sel2Embed p) = mergedToks p := by
  induction p using mergedToks.induct with
  | case1 => rfl
  | case2 k n rest ih => simp [sel2Embed, sel2Toks, mergedToks, ih]
  | case3 k rest hne ih =>
    cases rest with
    | nil => simp [sel2Embed, sel2Toks, mergedToks]
    | cons s r =>
      cases s with
      | key k2 =>
        rw [mergedToks]
        · simp only [sel2Embed] at ih ⊢
          rw [sel2Toks, ih]
          intro e r' h; cases h
        · intro n r' h; cases h
      | idx n => exact absurd rfl (hne n r)
  | case4 n rest ih => simp [sel2Embed, sel2Toks, mergedToks, ih]

theorem sel2_toks_key_key (k k2 : Str) (r : List GSeg) :
    sel2Toks (.key k :: .key k2 :: r) = k :: sel2Toks (.key k2 :: r) := by
  rw [sel2Toks]
  intro e r' h; cases h

/-- a key piece always starts a new token -/
theorem sel2_toks_append_key (a : List GSeg) (k : Str) (rest : List GSeg) :
    sel2Toks (a ++ .key k :: rest) = sel2Toks a ++ sel2Toks (.key k :: rest) := by
  induction a using sel2Toks.induct with
  | case1 => rfl
  | case2 k' e r ih => simp [sel2Toks, ih]
  | case3 k' r hne ih =>
    cases r with
    | nil =>
      cases rest with
      | nil => simp [sel2Toks]
      | cons s rr => cases s <;> simp [sel2Toks]
    | cons s r' =>
      cases s with
      | key k2 =>
        simp only [List.cons_append] at ih ⊢
        rw [sel2_toks_key_key, ih, sel2_toks_key_key]
        simp
      | br e => exact absurd rfl (hne e r')
  | case4 e r ih => simp [sel2Toks, ih]

/-- a bracket piece after a key piece joins its token -/
theorem sel2_toks_append_key_br (a : List GSeg) (k e : Str) (rest : List GSeg) :
    sel2Toks (a ++ .key k :: .br e :: rest) = sel2Toks a ++ (k ++ bracket e) :: sel2Toks rest := by
  rw [sel2_toks_append_key]; simp [sel2Toks]

/-- a bracket piece after a bracket piece is a token of its own -/
theorem sel2_toks_append_br_br (a : List GSeg) (e1 e2 : Str) (rest : List GSeg) :
    sel2Toks (a ++ .br e1 :: .br e2 :: rest) = sel2Toks (a ++ [.br e1]) ++ bracket e2 :: sel2Toks rest := by
  induction a using sel2Toks.induct with
  | case1 => simp [sel2Toks]
  | case2 k' e r ih => simp [sel2Toks, ih]
  | case3 k' r hne ih =>
    cases r with
    | nil => simp [sel2Toks]
    | cons s r' =>
      cases s with
      | key k2 =>
        simp only [List.cons_append] at ih ⊢
        rw [sel2_toks_key_key, ih, sel2_toks_key_key]
        simp
      | br e => exact absurd rfl (hne e r')
  | case4 e r ih => simp [sel2Toks, ih]

/-! ### `P[*]/f` for the record list at any position -/

theorem sel2_plainPos_append {p q : Pos} (h : PlainPos (p ++ q)) : PlainPos p ∧ PlainPos q := by
  induction p with
  | nil => exact ⟨trivial, h⟩
  | cons s r ih =>
    cases s with
    | key k => exact ⟨⟨h.1, (ih h.2).1⟩, (ih h.2).2⟩
    | idx n => exact ⟨(ih h).1, (ih h).2⟩

theorem sel2_plainPos_of {p q : Pos} (hp : PlainPos p) (hq : PlainPos q) : PlainPos (p ++ q) := by
  induction p with
  | nil => exact hq
  | cons s r ih =>
    cases s with
    | key k => exact ⟨hp.1, ih hp.2⟩
    | idx n => exact ih hp

theorem sel2_getAt_snoc_key {root : Val} {p : Pos} {k : Str} {c : Val} (h : getAt root (p ++ [.key k]) = some c) :
    ∃ cls kvs, getAt root p = some (.dict cls kvs) ∧ lookup k kvs = some c := by
  rw [getAt_snoc] at h
  cases hp : getAt root p with
  | none => simp [hp] at h
  | some v =>
    simp only [hp, Option.bind_some] at h
    obtain ⟨cls, kvs, rfl, hl⟩ := child_key_some h
    exact ⟨cls, kvs, rfl, hl⟩

/-- `P[*]/f`, tree level, `P` ending in a key: tokens `… name[*]`, `f` -/
theorem sel2_star_find_key (root : Val) (rl : Bool) (p : Pos) (name f : Str) (lc : Cls) (rs : List Val)
    (hp : PlainPos p) (hname : PlainKey name) (hf : PlainKey f)
    (hget : getAt root (p ++ [.key name]) = some (.list lc rs)) (hrs : ∀ r ∈ rs, isDict r = true)
    (fuel : Nat) (hfuel : fuel ≥ 2 * p.length + rs.length + 5) :
    ∃ r, findD fuel root [] false true (mergedToks p ++ [name ++ bracket ['*'], f]) (.at []) rl slash = .ok (root, r) ∧
      r.isFound = !(somes (rs.map (fieldOf f))).isEmpty ∧
      (r.isFound = true → r.value = collect rl (somes (rs.map (fieldOf f)))) := by
  obtain ⟨cls, kvs, hpv, hl⟩ := sel2_getAt_snoc_key hget
  have hs := spellsF_merged p root _ hp hpv
  have hlen := mergedToks_length_le p
  obtain ⟨fuel', e', h1, h2, heq⟩ := find_walk root rl hs [name ++ bracket ['*'], f] (by simp) fuel [] slash true rfl (by omega)
  rw [heq]
  obtain ⟨g, rfl⟩ : ∃ g, fuel' = g + 1 := ⟨fuel' - 1, by omega⟩
  rw [find_keybr_step g root e' rl ([] ++ p) _ _ name ['*'] [f] cls kvs _ (by simpa using hpv)
    (split_bracket name ['*'] (Or.inr hname) star_idxExpr) hname.ne hname.notUp hname.keyTok.notStar hl]
  exact star_records root rl _ _ _ f lc rs (by simpa using hget) hrs hf.keyTok split_star g false (by omega)

theorem sel2_hasPathChar_cons (s : Str) : hasPathChar ('/' :: s) = true := by simp [hasPathChar]

theorem sel2_noQ_cons (s : Str) : startsWith ('/' :: s) ['?'] = false := by simp [startsWith]

/-- **`P[*]/f` for the record list at any position** (canonical path `P`) -/
theorem sel2_star_explicit_path (cls : Cls) (kvs : List (Str × Val)) (p : Pos) (f : Str) (lc : Cls) (rs : List Val) (d : Val)
    (hp : PlainPos p) (hne : p ≠ []) (hf : PlainKey f) (hget : getAt (.dict cls kvs) p = some (.list lc rs))
    (hrs : ∀ r ∈ rs, isDict r = true) (fuel : Nat) (hfuel : fuel ≥ 2 * p.length + rs.length + 5) :
    let xp := slash ++ renderPos p ++ bracket ['*'] ++ slash ++ f
    let vals := somes (rs.map (fieldOf f))
    get fuel (.dict cls kvs) xp d = (.dict cls kvs, .ok (if vals.isEmpty then d else .list .n0 vals)) ∧
    getItem fuel (.dict cls kvs) xp = (.dict cls kvs, if vals.isEmpty then .error .IndexError else .ok (.list .n0 vals)) ∧
    first fuel (.dict cls kvs) xp d = (.dict cls kvs, .ok (firstOf vals d)) := by
  intro xp vals
  have hxp : xp = '/' :: sel2Render (sel2Embed p ++ [.br ['*'], .key f]) := by
    rw [sel2_render_append, sel2_render_embed]
    simp [xp, sel2Render, sel2RenderSeg, slash]
  have hgood : GoodG (sel2Embed p ++ [.br ['*'], .key f]) :=
    (sel2_good_embed p hp).append ⟨sel2_gBr_star, hf.gKey, trivial⟩
  have htok0 : tokenize xp = sel2Toks (sel2Embed p ++ [.br ['*'], .key f]) := by rw [hxp]; exact sel2_tokenize _ hgood
  obtain ⟨p', s, rfl⟩ : ∃ p' s, p = p' ++ [s] := ⟨p.dropLast, p.getLast hne, (List.dropLast_concat_getLast hne).symm⟩
  obtain ⟨hp', hs⟩ := sel2_plainPos_append hp
  cases s with
  | key name =>
    have hname : PlainKey name := hs.1
    have htok : tokenize xp = mergedToks p' ++ [name ++ bracket ['*'], f] := by
      rw [htok0, sel2_embed_append]
      simp only [sel2Embed, List.append_assoc, List.cons_append, List.nil_append]
      rw [sel2_toks_append_key_br, sel2_toks_embed]
      simp [sel2Toks]
    apply select_api cls kvs xp _ vals d fuel (by rw [hxp]; exact sel2_noQ_cons _) (by rw [hxp]; exact sel2_hasPathChar_cons _) htok
    intro rl
    exact sel2_star_find_key _ rl p' name f lc rs hp' hname hf hget hrs fuel (by simp at hfuel; omega)
  | idx n =>
    have htok : tokenize xp = mergedToks (p' ++ [.idx n]) ++ [bracket ['*'], f] := by
      rw [htok0, sel2_embed_append]
      simp only [sel2Embed, List.append_assoc, List.cons_append, List.nil_append]
      rw [sel2_toks_append_br_br, ← sel2_toks_embed, sel2_embed_append]
      simp [sel2Toks, sel2Embed]
    apply select_api cls kvs xp _ vals d fuel (by rw [hxp]; exact sel2_noQ_cons _) (by rw [hxp]; exact sel2_hasPathChar_cons _) htok
    intro rl
    have hsp := spells_merged _ (.dict cls kvs) _ hp hget
    have hlen := mergedToks_length_le (p' ++ [.idx n])
    exact star_spelled (.dict cls kvs) rl f hsp (mergedToks_ne_nil _ hne) hrs hf fuel (by omega) _ (Or.inl rfl)

end N0.XPath
