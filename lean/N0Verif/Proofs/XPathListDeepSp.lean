import N0Verif.Proofs.XPathListDeep

/-!
# C06 below an n0list root: ANY spelling of the position `P` of the record list, string level (worker `c06spell`)

`XPathListDeep.lean` proves the selecting forms for every `Sel3Spells` token list below a list root (`xld_*_spelled`), but its
string-level wrappers (`xld_star_api`, `xld_pred_api`) speak of the canonical text `renderPos P` only.  Here `P` is written as
`renderSp lead steps`: prefix none, `/` or `//`; every index as `i`, `-k`, `last()`, `last()-k`, `i+j`; an index attached (`a[1]`,
`][`) or a step of its own (`a/[1]`, `]/[`).  `stepsGet` (plain Python indexing along the steps) reaches the record list; the
root being a list, the first step is an index.  The tokenisation lemmas of `XPathSelect3.lean` (`sel3_tokenize_sp_*`) do not
depend on the root; only the "does not start with '?'" side condition and the non-emptiness of the tokens in front of a merged
`name[*]` / `name[k=v]` token are specific to a list root.
-/

namespace N0.XPath
open N0 N0.Py N0.Val

/-- a spelling that plain indexing follows from a LIST starts with an index: its text starts with `[`, `/[` or `//[` -/
theorem xlds_noQ (cls : Cls) (xs : List Val) (lead : Lead) (steps : List StepSp) (c : Val) (Y : Str) (hne : steps ≠ [])
    (hget : stepsGet (.list cls xs) steps = some c) :
    startsWith (renderSp lead steps ++ Y) ['?'] = false := by
  cases steps with
  | nil => exact absurd rfl hne
  | cons s r =>
    cases s with
    | key k => simp [stepsGet] at hget
    | idx e sep =>
      have hbody : dropSlash (renderSteps (.idx e sep :: r)) = '[' :: (e.text ++ ']' :: renderSteps r) := by
        cases sep <;> simp [renderSteps_cons, renderStep, dropSlash, bracket]
      unfold renderSp; rw [hbody]
      cases lead <;> simp [leadStr, startsWith]

/-- below a list root a spelling that ends in a key has at least one step in front of that key -/
theorem xlds_init_ne_nil (cls : Cls) (xs : List Val) (steps' : List StepSp) (name : Str) (c : Val)
    (hget : stepsGet (.list cls xs) (steps' ++ [.key name]) = some c) : steps' ≠ [] := by
  rintro rfl
  simp [stepsGet] at hget

/-- **`P[*]/f` and `P/f` below a list root, any spelling of `P`**, string level -/
theorem xlds_star_string (cls : Cls) (xs : List Val) (lead : Lead) (steps : List StepSp) (f : Str) (lc : Cls)
    (rs : List Val) (d : Val) (hp : PlainSteps steps) (hne : steps ≠ [])
    (hget : stepsGet (.list cls xs) steps = some (.list lc rs)) (hf : PlainKey f) (hrs : ∀ r ∈ rs, isDict r = true)
    (fuel : Nat) (hfuel : fuel ≥ 2 * steps.length + rs.length + 6) :
    ∀ xp ∈ [renderSp lead steps ++ bracket ['*'] ++ slash ++ f, renderSp lead steps ++ slash ++ f],
      let vals := somes (rs.map (fieldOf f))
      get fuel (.list cls xs) xp d = (.list cls xs, .ok (if vals.isEmpty then d else .list .n0 vals)) ∧
      getItem fuel (.list cls xs) xp = (.list cls xs, if vals.isEmpty then .error .IndexError else .ok (.list .n0 vals)) ∧
      first fuel (.list cls xs) xp d = (.list cls xs, .ok (firstOf vals d)) := by
  intro xp hxp vals
  have hs3 := sel3_spells_steps steps _ _ hp hget
  have hlen := toksOf_length_le steps
  have htne := toksOf_ne_nil steps hne
  have hsel := fun rl => xld_star_spelled (.list cls xs) rl f ⟨cls, xs, rfl⟩ hs3 htne hrs hf fuel (by omega)
  simp only [List.mem_cons, List.not_mem_nil, or_false] at hxp
  rcases hxp with rfl | rfl
  · have hxp : renderSp lead steps ++ bracket ['*'] ++ slash ++ f = renderSp lead steps ++ sel2Render [.br ['*'], .key f] := by
      simp [sel2Render, sel2RenderSeg, slash]
    have hgood : GoodG [.br ['*'], .key f] := ⟨sel2_gBr_star, hf.gKey, trivial⟩
    rw [hxp]
    have hq := xlds_noQ cls xs lead steps _ (sel2Render [.br ['*'], .key f]) hne hget
    have hpc := sel3_sp_pathChar lead steps (sel2Render [.br ['*'], .key f]) '[' (by simp [sel2Render, sel2RenderSeg, bracket])
      (Or.inr rfl)
    obtain ⟨steps', s, rfl⟩ : ∃ steps' s, steps = steps' ++ [s] :=
      ⟨steps.dropLast, steps.getLast hne, (List.dropLast_concat_getLast hne).symm⟩
    cases s with
    | key name =>
      have hname : PlainKey name := (sel3_plainSteps_append hp).2.1
      have hne' := xlds_init_ne_nil cls xs steps' name _ hget
      refine xa_select_api cls xs _ _ vals d fuel hq hpc (sel3_tokenize_sp_key_br lead steps' name _ _ hp hgood) (fun rl => ?_)
      have := (hsel rl).2 (toksOf steps') name (sel3_toksOf_snoc_key steps' name) hname (toksOf_ne_nil steps' hne')
      simpa [sel2Toks] using this
    | idx e sep =>
      refine xa_select_api cls xs _ _ vals d fuel hq hpc (sel3_tokenize_sp_idx_br lead steps' e sep _ _ hp hgood) (fun rl => ?_)
      exact (hsel rl).1 _ (by simp [sel2Toks])
  · have hxp : renderSp lead steps ++ slash ++ f = renderSp lead steps ++ sel2Render [.key f] := by
      simp [sel2Render, sel2RenderSeg, slash]
    have hgood : GoodG [.key f] := ⟨hf.gKey, trivial⟩
    rw [hxp]
    have hq := xlds_noQ cls xs lead steps _ (sel2Render [.key f]) hne hget
    have hpc := sel3_sp_pathChar lead steps (sel2Render [.key f]) '/' (by simp [sel2Render, sel2RenderSeg]) (Or.inl rfl)
    refine xa_select_api cls xs _ _ vals d fuel hq hpc (sel3_tokenize_sp_key lead steps _ _ hp hne hgood) (fun rl => ?_)
    exact (hsel rl).1 _ (by simp [sel2Toks])

/-- **`P[k op v]/f` and `P/k[text() op v]/../f` below a list root, any spelling of `P`**, string level -/
theorem xlds_pred_string (cls : Cls) (xs : List Val) (lead : Lead) (steps : List StepSp) (k f opx op vq v : Str) (lc : Cls)
    (rs : List Val) (d : Val) (hp : PlainSteps steps) (hne : steps ≠ [])
    (hget : stepsGet (.list cls xs) steps = some (.list lc rs)) (hk : FieldKey k) (hf : PlainKey f) (hop : OpSpell opx op)
    (hlit : LitSpell vq v) (hv : PlainLit v) (hrs : ∀ r ∈ rs, isDict r = true)
    (hg : ∀ c kvs' kv, Val.dict c kvs' ∈ rs → lookup k kvs' = some kv → textGuard kv (.str v) = false)
    (fuel : Nat) (hfuel : fuel ≥ 6 * steps.length + rs.length + 14) :
    ∀ xp ∈ [renderSp lead steps ++ bracket (k ++ opx ++ vq) ++ slash ++ f,
            renderSp lead steps ++ slash ++ k ++ bracket (sTextFn ++ opx ++ vq) ++ slash ++ ['.', '.'] ++ slash ++ f],
      let vals := somes (rs.map (condOutcome k f op (.str v)))
      get fuel (.list cls xs) xp d = (.list cls xs, .ok (if vals.isEmpty then d else .list .n0 vals)) ∧
      getItem fuel (.list cls xs) xp = (.list cls xs, if vals.isEmpty then .error .IndexError else .ok (.list .n0 vals)) ∧
      first fuel (.list cls xs) xp d = (.list cls xs, .ok (firstOf vals d)) := by
  intro xp hxp vals
  have hs3 := sel3_spells_steps steps _ _ hp hget
  have hlen := toksOf_length_le steps
  have htne := toksOf_ne_nil steps hne
  have hsel := fun rl => xld_pred_spelled (.list cls xs) rl k f opx op vq v ⟨cls, xs, rfl⟩ hs3 htne hk hf hop hlit hv hrs hg fuel
    (by omega)
  simp only [List.mem_cons, List.not_mem_nil, or_false] at hxp
  rcases hxp with rfl | rfl
  · have hxp : renderSp lead steps ++ bracket (k ++ opx ++ vq) ++ slash ++ f
        = renderSp lead steps ++ sel2Render [.br (k ++ opx ++ vq), .key f] := by
      simp [sel2Render, sel2RenderSeg, slash]
    have hgood : GoodG [.br (k ++ opx ++ vq), .key f] := ⟨sel2_gBr_cond k opx op vq v hk.cond hop hlit hv, hf.gKey, trivial⟩
    rw [hxp]
    have hq := xlds_noQ cls xs lead steps _ (sel2Render [.br (k ++ opx ++ vq), .key f]) hne hget
    have hpc := sel3_sp_pathChar lead steps (sel2Render [.br (k ++ opx ++ vq), .key f]) '[' (by simp [sel2Render, sel2RenderSeg, bracket])
      (Or.inr rfl)
    obtain ⟨steps', s, rfl⟩ : ∃ steps' s, steps = steps' ++ [s] :=
      ⟨steps.dropLast, steps.getLast hne, (List.dropLast_concat_getLast hne).symm⟩
    cases s with
    | key name =>
      have hname : PlainKey name := (sel3_plainSteps_append hp).2.1
      have hne' := xlds_init_ne_nil cls xs steps' name _ hget
      refine xa_select_api cls xs _ _ vals d fuel hq hpc (sel3_tokenize_sp_key_br lead steps' name _ _ hp hgood) (fun rl => ?_)
      have := (hsel rl).2 (toksOf steps') name (sel3_toksOf_snoc_key steps' name) hname (toksOf_ne_nil steps' hne')
      simpa [sel2Toks] using this
    | idx e sep =>
      refine xa_select_api cls xs _ _ vals d fuel hq hpc (sel3_tokenize_sp_idx_br lead steps' e sep _ _ hp hgood) (fun rl => ?_)
      exact (hsel rl).1 _ (by simp [sel2Toks])
  · have hxp : renderSp lead steps ++ slash ++ k ++ bracket (sTextFn ++ opx ++ vq) ++ slash ++ ['.', '.'] ++ slash ++ f
        = renderSp lead steps ++ sel2Render [.key k, .br (sTextFn ++ opx ++ vq), .key ['.', '.'], .key f] := by
      simp [sel2Render, sel2RenderSeg, slash]
    have hgood : GoodG [.key k, .br (sTextFn ++ opx ++ vq), .key ['.', '.'], .key f] :=
      ⟨hk.plain.gKey, sel2_gBr_cond sTextFn opx op vq v condKey_text hop hlit hv, sel2_gKey_up, hf.gKey, trivial⟩
    rw [hxp]
    have hq := xlds_noQ cls xs lead steps _ (sel2Render [.key k, .br (sTextFn ++ opx ++ vq), .key ['.', '.'], .key f]) hne hget
    have hpc := sel3_sp_pathChar lead steps (sel2Render [.key k, .br (sTextFn ++ opx ++ vq), .key ['.', '.'], .key f]) '/'
      (by simp [sel2Render, sel2RenderSeg]) (Or.inl rfl)
    refine xa_select_api cls xs _ _ vals d fuel hq hpc (sel3_tokenize_sp_key lead steps _ _ hp hne hgood) (fun rl => ?_)
    exact (hsel rl).1 _ (by simp [sel2Toks])

/-- **Chained selection `P[k1 op v1]/items[k2 op v2]/f` below a list root, any spelling of `P`**, string level: `get` / item access
return the `return_lists = True` selection, `first` the unwrapped `return_lists = False` one -/
theorem xlds_chained_string (cls : Cls) (xs : List Val) (lead : Lead) (steps : List StepSp)
    (k1 opx1 op1 vq1 v1 items k2 opx2 op2 vq2 v2 f : Str) (lc : Cls) (rs : List Val) (d : Val)
    (hp : PlainSteps steps) (hne : steps ≠ []) (hget : stepsGet (.list cls xs) steps = some (.list lc rs))
    (hk1 : FieldKey k1) (hop1 : OpSpell opx1 op1) (hlit1 : LitSpell vq1 v1)
    (hv1 : PlainLit v1) (hitems : PlainKey items) (hk2 : FieldKey k2) (hop2 : OpSpell opx2 op2) (hlit2 : LitSpell vq2 v2)
    (hv2 : PlainLit v2) (hf : PlainKey f) (hrs : ∀ r ∈ rs, isDict r = true)
    (hg : ∀ c kvs' kv, Val.dict c kvs' ∈ rs → lookup k1 kvs' = some kv → textGuard kv (.str v1) = false)
    (hin : Sel3InnerOK items k2 (.str v2) rs)
    (fuel : Nat) (hfuel : fuel ≥ 10 * steps.length + rs.length + (rs.map (sel2InnerLen items)).sum + 30) :
    let xp := renderSp lead steps ++ bracket (k1 ++ opx1 ++ vq1) ++ slash ++ items ++ bracket (k2 ++ opx2 ++ vq2) ++ slash ++ f
    let valsT := sel3Chained k1 op1 (.str v1) items k2 f op2 (.str v2) true rs
    let valsF := sel3Chained k1 op1 (.str v1) items k2 f op2 (.str v2) false rs
    get fuel (.list cls xs) xp d = (.list cls xs, .ok (if valsT.isEmpty then d else .list .n0 valsT)) ∧
    getItem fuel (.list cls xs) xp = (.list cls xs, if valsT.isEmpty then .error .IndexError else .ok (.list .n0 valsT)) ∧
    first fuel (.list cls xs) xp d = (.list cls xs, .ok (firstOf valsF d)) := by
  intro xp valsT valsF
  have hs3 := sel3_spells_steps steps _ _ hp hget
  have hlen := toksOf_length_le steps
  have htne := toksOf_ne_nil steps hne
  have hsel := fun rl => xld_chained_spelled (.list cls xs) rl k1 opx1 op1 vq1 v1 items k2 opx2 op2 vq2 v2 f ⟨cls, xs, rfl⟩ hs3
    htne hk1 hop1 hlit1 hv1 hitems hk2 hop2 hlit2 hv2 hf hrs hg hin fuel (by omega)
  have hxp : xp = renderSp lead steps ++ sel2Render [.br (k1 ++ opx1 ++ vq1), .key items, .br (k2 ++ opx2 ++ vq2), .key f] := by
    simp [xp, sel2Render, sel2RenderSeg, slash]
  have hgood : GoodG [.br (k1 ++ opx1 ++ vq1), .key items, .br (k2 ++ opx2 ++ vq2), .key f] :=
    ⟨sel2_gBr_cond k1 opx1 op1 vq1 v1 hk1.cond hop1 hlit1 hv1, hitems.gKey,
      sel2_gBr_cond k2 opx2 op2 vq2 v2 hk2.cond hop2 hlit2 hv2, hf.gKey, trivial⟩
  have hq : startsWith xp ['?'] = false := by rw [hxp]; exact xlds_noQ cls xs lead steps _ _ hne hget
  have hpc : hasPathChar xp = true := by
    rw [hxp]; exact sel3_sp_pathChar lead steps _ '[' (by simp [sel2Render, sel2RenderSeg, bracket]) (Or.inr rfl)
  have hts : sel2Toks [.key items, .br (k2 ++ opx2 ++ vq2), .key f] = [items ++ bracket (k2 ++ opx2 ++ vq2), f] := by
    simp [sel2Toks]
  obtain ⟨steps', s, rfl⟩ : ∃ steps' s, steps = steps' ++ [s] :=
    ⟨steps.dropLast, steps.getLast hne, (List.dropLast_concat_getLast hne).symm⟩
  cases s with
  | key name =>
    have hname : PlainKey name := (sel3_plainSteps_append hp).2.1
    have hne' := toksOf_ne_nil steps' (xlds_init_ne_nil cls xs steps' name _ hget)
    have htok := sel3_tokenize_sp_key_br lead steps' name _ _ hp hgood
    rw [← hxp, hts] at htok
    exact xld_select_api2 cls xs xp _ valsT valsF d fuel hq hpc htok
      ((hsel true).2 (toksOf steps') name (sel3_toksOf_snoc_key steps' name) hname hne')
      ((hsel false).2 (toksOf steps') name (sel3_toksOf_snoc_key steps' name) hname hne')
  | idx e sep =>
    have htok := sel3_tokenize_sp_idx_br lead steps' e sep _ _ hp hgood
    rw [← hxp, hts] at htok
    exact xld_select_api2 cls xs xp _ valsT valsF d fuel hq hpc htok (hsel true).1 (hsel false).1

end N0.XPath
