import N0Verif.Model.XPathFuel
import N0Verif.Proofs.XPathSelect2
import N0Verif.Proofs.XPathPureFind
import N0Verif.Proofs.XPathPureInfix
/-!
  C04, termination of the resolver — part 1: measures on trees, the bounded-reference
  invariant, what "a call ends" means (`TermOut`), and the three *macro steps* every later
  induction uses: one pure index step on a list, the `[*]` loop (`starIdx`), the `*` loop
  (`starKeys`) and the implicit fan-out over a list (`[*]` inserted in front of a token).

  The height `termHgt` and the width `termWd` of a value are the two tree quantities the fuel
  bound is made of: a search descends at most `termHgt` levels without consuming a token, and a
  loop has at most `termWd` iterations.
-/
namespace N0.XPath
open N0 N0.Py N0.Val

/-! ### height and width -/

theorem term_hgtL_mem : ∀ {xs : List Val} {i : Nat} {c : Val}, xs[i]? = some c → termHgt c ≤ termHgtL xs
  | [], i, c, h => by simp at h
  | x :: xs, 0, c, h => by
    simp only [List.getElem?_cons_zero, Option.some.injEq] at h; subst h
    simp only [termHgtL]; omega
  | x :: xs, i + 1, c, h => by
    simp only [List.getElem?_cons_succ] at h
    have := term_hgtL_mem h
    simp only [termHgtL]; omega

theorem term_wdL_mem : ∀ {xs : List Val} {i : Nat} {c : Val}, xs[i]? = some c → termWd c ≤ termWdL xs
  | [], i, c, h => by simp at h
  | x :: xs, 0, c, h => by
    simp only [List.getElem?_cons_zero, Option.some.injEq] at h; subst h
    simp only [termWdL]; omega
  | x :: xs, i + 1, c, h => by
    simp only [List.getElem?_cons_succ] at h
    have := term_wdL_mem h
    simp only [termWdL]; omega

theorem term_hgtK_lookup {k : Str} {c : Val} : ∀ {kvs : List (Str × Val)}, lookup k kvs = some c → termHgt c ≤ termHgtK kvs
  | [], h => by simp [lookup] at h
  | (k', x) :: kvs, h => by
    simp only [lookup] at h
    simp only [termHgtK]
    split at h
    · cases h; omega
    · have := term_hgtK_lookup h; omega

theorem term_wdK_lookup {k : Str} {c : Val} : ∀ {kvs : List (Str × Val)}, lookup k kvs = some c → termWd c ≤ termWdK kvs
  | [], h => by simp [lookup] at h
  | (k', x) :: kvs, h => by
    simp only [lookup] at h
    simp only [termWdK]
    split at h
    · cases h; omega
    · have := term_wdK_lookup h; omega

/-- a child is strictly lower and not wider -/
theorem term_child {v c : Val} {s : Seg} (h : child v s = some c) : termHgt c < termHgt v ∧ termWd c ≤ termWd v := by
  cases v <;> cases s <;> simp only [child] at h <;> try cases h
  · rename_i cl xs i
    have h1 := term_hgtL_mem h
    have h2 := term_wdL_mem h
    simp only [termHgt, termWd]; omega
  · rename_i cl kvs k
    have h1 := term_hgtK_lookup h
    have h2 := term_wdK_lookup h
    simp only [termHgt, termWd]; omega

theorem term_getAt : ∀ {p : Pos} {v c : Val}, getAt v p = some c → termHgt c ≤ termHgt v ∧ termWd c ≤ termWd v
  | [], v, c, h => by simp only [getAt, Option.some.injEq] at h; subst h; exact ⟨Nat.le_refl _, Nat.le_refl _⟩
  | s :: p, v, c, h => by
    simp only [getAt] at h
    cases hc : child v s with
    | none => simp [hc] at h
    | some x =>
      simp only [hc, Option.bind_some] at h
      have h1 := term_child hc
      have h2 := term_getAt h
      omega

/-! ### bounded references -/

/-- the values a search can stand on: sub-values of the root (height ≤ `H`, width ≤ `W`) and the
one-element list `[v]` the index steps build around a non-list sub-value (height ≤ `H + 1`) -/
structure TermBnd (H W : Nat) (v : Val) : Prop where
  hgt : termHgt v ≤ H + 1
  wd : termWd v ≤ W
  nonList : isList v = false → termHgt v ≤ H

def TermRef (H W : Nat) (root : Val) (r : PRef) : Prop := ∀ v, valOf root r = some v → TermBnd H W v

theorem TermBnd.child {H W : Nat} {v c : Val} {s : Seg} (hv : TermBnd H W v) (h : child v s = some c) :
    TermBnd H W c ∧ termHgt c < termHgt v ∧ termHgt c ≤ H := by
  have hc := term_child h
  have hle : termHgt c ≤ H := by have := hv.hgt; omega
  exact ⟨⟨by omega, by have := hv.wd; omega, fun _ => hle⟩, hc.1, hle⟩

theorem TermBnd.none {H W : Nat} : TermBnd H W Val.none :=
  ⟨by simp [termHgt], by simp [termWd], fun _ => by simp [termHgt]⟩

theorem TermBnd.wrap {H W : Nat} (hW : 1 ≤ W) {v : Val} (hv : TermBnd H W v) (hl : isList v = false) :
    TermBnd H W (Val.list .plain [v]) := by
  refine ⟨?_, ?_, fun h => by simp [isList] at h⟩
  · have := hv.nonList hl; simp only [termHgt, termHgtL]; omega
  · have := hv.wd; simp only [termWd, termWdL, List.length_singleton]; omega

theorem TermRef_at {H W : Nat} {root : Val} (h1 : termHgt root ≤ H) (h2 : termWd root ≤ W) (p : Pos) :
    TermRef H W root (.at p) := by
  intro v hv
  have := term_getAt (show getAt root p = some v from hv)
  exact ⟨by omega, by omega, fun _ => by omega⟩

theorem TermRef_det_none {H W : Nat} {root : Val} : TermRef H W root (.det Val.none) := by
  intro v hv
  simp only [valOf, Option.some.injEq] at hv
  subst hv; exact TermBnd.none

theorem TermRef_wrap {H W : Nat} (hW : 1 ≤ W) {root : Val} {r : PRef} {pv : Val} (h : TermRef H W root r)
    (hpv : valOf root r = some pv) (hl : isList pv = false) : TermRef H W root (.wrap r) := by
  intro v hv
  simp only [valOf, hpv, Option.map_some, Option.some.injEq] at hv
  subst hv
  exact (h pv hpv).wrap hW hl

/-- the value of a child reference is a child of the value (or `None`) -/
theorem term_childRef_val {root : Val} {r : PRef} {s : Seg} {pv c : Val} (hpv : valOf root r = some pv)
    (hc : valOf root (childRef root r s) = some c) : child pv s = some c ∨ c = Val.none := by
  have hdet : ∀ x, (match (valOf root r).bind (fun v => child v s) with
      | some c => PRef.det c | Option.none => PRef.det Val.none) = x → valOf root x = some c →
      child pv s = some c ∨ c = Val.none := by
    intro x hx hv
    rw [hpv] at hx
    simp only [Option.bind_some] at hx
    cases hch : child pv s with
    | none => rw [hch] at hx; subst hx; simp only [valOf, Option.some.injEq] at hv; exact Or.inr hv.symm
    | some y => rw [hch] at hx; subst hx; simp only [valOf, Option.some.injEq] at hv; subst hv; exact Or.inl rfl
  cases r with
  | «at» p =>
    simp only [childRef, valOf] at hc hpv
    rw [getAt_snoc, hpv] at hc
    exact Or.inl (by simpa using hc)
  | wrap r' =>
    cases s with
    | key k => exact hdet _ rfl hc
    | idx i =>
      cases i with
      | zero =>
        simp only [childRef] at hc
        simp only [valOf, hc, Option.map_some, Option.some.injEq] at hpv
        subst hpv
        left; simp [child]
      | succ n => exact hdet _ rfl hc
  | det v => exact hdet _ rfl hc

theorem TermRef_child {H W : Nat} {root : Val} {r : PRef} (h : TermRef H W root r) (s : Seg) :
    TermRef H W root (childRef root r s) := by
  intro c hc
  cases hpv : valOf root r with
  | none =>
    -- no value: the child reference is a position without value or `det None`
    cases r with
    | «at» p =>
      simp only [childRef, valOf] at hc hpv
      rw [getAt_snoc, hpv] at hc
      simp at hc
    | wrap r' =>
      cases s with
      | key k =>
        simp only [childRef] at hc; rw [hpv] at hc
        simp only [Option.bind_none, valOf, Option.some.injEq] at hc; subst hc; exact TermBnd.none
      | idx i =>
        cases i with
        | zero =>
          simp only [childRef] at hc
          simp [valOf, hc] at hpv
        | succ n =>
          simp only [childRef] at hc; rw [hpv] at hc
          simp only [Option.bind_none, valOf, Option.some.injEq] at hc; subst hc; exact TermBnd.none
    | det v => simp [valOf] at hpv
  | some pv =>
    rcases term_childRef_val hpv hc with hch | rfl
    · exact ((h pv hpv).child hch).1
    · exact TermBnd.none

/-- height of the value a child reference denotes -/
theorem term_childRef_hgt {H W : Nat} {root : Val} {r : PRef} {s : Seg} {pv c : Val} (hb : TermBnd H W pv)
    (hpv : valOf root r = some pv) (hc : valOf root (childRef root r s) = some c) :
    termHgt c ≤ termHgt pv - 1 ∧ termHgt c ≤ H := by
  rcases term_childRef_val hpv hc with hch | rfl
  · have := (hb.child hch).2; omega
  · simp [termHgt]

theorem term_dictKeys_len {pv : Val} : (dictKeys pv).length ≤ termWd pv := by
  cases pv <;> simp only [dictKeys, termWd, List.length_nil, List.length_map, Nat.zero_le] <;> omega

theorem term_hgt_container_pos {pv : Val} (h : isList pv = true ∨ isDict pv = true) : 1 ≤ termHgt pv := by
  cases pv <;> simp [isList, isDict] at h <;> simp [termHgt]

/-! ### "the call ends" -/

/-- outcome of a search that ended: the root is returned unchanged with a result satisfying `Q`,
or a Python-level (or `Unsupported`) error — anything but `OutOfFuel` -/
def TermOut (Q : Res → Prop) (root : Val) : PyM (Val × Res) → Prop
  | .ok (root', r) => root' = root ∧ Q r
  | .error e => e ≠ .OutOfFuel

theorem TermOut_err {Q : Res → Prop} {root : Val} {e : PyErr} (h : e ≠ .OutOfFuel) : TermOut Q root (.error e) := h

theorem TermOut.mono {Q Q' : Res → Prop} {root : Val} {x : PyM (Val × Res)} (h : TermOut Q root x)
    (hq : ∀ r, Q r → Q' r) : TermOut Q' root x := by
  cases x with
  | error e => exact h
  | ok p => exact ⟨h.1, hq _ h.2⟩

theorem TermOut.ne {Q : Res → Prop} {root : Val} {x : PyM (Val × Res)} (h : TermOut Q root x) :
    x ≠ .error .OutOfFuel := by
  intro hx; subst hx; exact h rfl

/-- `Q` survives the way the loops report their first match -/
def TermFstClosed (Q : Res → Prop) : Prop :=
  ∀ r v, Q r → Q { parent := r.parent, nameIdx := r.nameIdx, value := v, found := r.found, notFound := Option.none }

/-! ### macro steps -/

/-- one pure index step on a list, more tokens following -/
theorem term_idx_step (fuel : Nat) (root : Val) (sp : Pos) (entry rl : Bool) (par : PRef) (found : Str) (j : Nat)
    (rest : List Str) (hrest : rest ≠ []) (cls : Cls) (xs : List Val)
    (hpv : valOf root par = some (.list cls xs)) (hj : j < xs.length) :
    findD (fuel + 1) root sp false entry (bracket (natStr j) :: rest) par rl found
      = findD fuel root sp false false rest (childRef root par (.idx j)) rl (found ++ bracket (natStr j)) := by
  have hk := natStr_idxTok j
  have hne : (natStr j).isEmpty = false := isEmpty_false_of_ne hk.ne
  have hr : rest.isEmpty = false := isEmpty_false_of_ne hrest
  have hn : normIdx (j : Int) xs.length = some j := normIdx_nat hj
  have hrange := normIdx_range hn
  rw [findD]
  simp only [Bool.false_and, Bool.false_eq_true, if_false, hpv, hk.split, List.isEmpty_nil,
    Idx.truthy, hne, Bool.not_false, Bool.and_false, Bool.not_true, hk.notNew, hk.notStar, hk.eval]
  simp only [not_or] at hrange
  simp [hrange.1, hrange.2, hn, hr, intStr_nat]

/-- the `[*]` loop: if every element call ends within `M`, the loop from `i` ends within
`M + (n - i) + 1` -/
theorem term_starIdx {Q : Res → Prop} (hQ : TermFstClosed Q) (root : Val) (sp : Pos) (rl : Bool) (n : Nat) (rest : List Str)
    (par : PRef) (found : Str) (all : List Str) (M F : Nat)
    (hsub : ∀ j, j < n → ∀ f, M ≤ f → f < F →
      TermOut Q root (findD f root sp false false (bracket (natStr j) :: rest) par rl found))
    (hnf : Q { parent := par, nameIdx := Option.none, value := Val.none, found := found, notFound := some all }) :
    ∀ (k i : Nat) (acc : List Val) (fst : Option Res) (f : Nat), n - i ≤ k → M + k + 1 ≤ f → f ≤ F →
      (∀ r, fst = some r → Q r) →
      TermOut Q root (starIdx f root sp false n i rest par rl found acc fst all) := by
  intro k
  induction k with
  | zero =>
    intro i acc fst f hk hf hfF hfst
    obtain ⟨f', rfl⟩ : ∃ f', f = f' + 1 := ⟨f - 1, by omega⟩
    rw [starIdx]
    have hi : i ≥ n := by omega
    simp only [hi, if_true]
    cases fst with
    | some r => exact ⟨rfl, hQ r _ (hfst r rfl)⟩
    | none => exact ⟨rfl, hnf⟩
  | succ k ih =>
    intro i acc fst f hk hf hfF hfst
    obtain ⟨f', rfl⟩ : ∃ f', f = f' + 1 := ⟨f - 1, by omega⟩
    rw [starIdx]
    split
    · cases fst with
      | some r => exact ⟨rfl, hQ r _ (hfst r rfl)⟩
      | none => exact ⟨rfl, hnf⟩
    · rename_i hi
      have h1 := hsub i (by omega) f' (by omega) (by omega)
      split
      · rename_i e he; rw [he] at h1; exact h1
      · rename_i root' r hr
        rw [hr] at h1
        obtain ⟨hroot', hq⟩ := h1
        subst hroot'
        split
        · refine ih (i + 1) _ _ f' (by omega) (by omega) (by omega) ?_
          intro r' hr'
          split at hr'
          · cases hr'; exact hfst _ rfl
          · cases hr'; exact hq
        · exact ih (i + 1) _ _ f' (by omega) (by omega) (by omega) hfst

/-- the `*` loop over the keys of a dict -/
theorem term_starKeys {Q : Res → Prop} (hQ : TermFstClosed Q) (root : Val) (sp : Pos) (rl : Bool) (toks : List Str)
    (par : PRef) (found : Str) (M F : Nat)
    (hnf : Q { parent := par, nameIdx := Option.none, value := Val.none, found := found, notFound := some toks }) :
    ∀ (keys : List Str) (acc : List Val) (fst : Option Res) (f : Nat), M + keys.length + 1 ≤ f → f ≤ F →
      (∀ k ∈ keys, ∀ f, M ≤ f → f < F → TermOut Q root (findD f root sp false false (k :: toks) par rl found)) →
      (∀ r, fst = some r → Q r) →
      TermOut Q root (starKeys f root sp false keys toks par rl found acc fst) := by
  intro keys
  induction keys with
  | nil =>
    intro acc fst f hf _ _ hfst
    obtain ⟨f', rfl⟩ : ∃ f', f = f' + 1 := ⟨f - 1, by omega⟩
    simp only [starKeys]
    cases fst with
    | some r => exact ⟨rfl, hQ r _ (hfst r rfl)⟩
    | none => exact ⟨rfl, hnf⟩
  | cons k ks ih =>
    intro acc fst f hf hfF hsub hfst
    obtain ⟨f', rfl⟩ : ∃ f', f = f' + 1 := ⟨f - 1, by omega⟩
    simp only [starKeys]
    simp only [List.length_cons] at hf
    have h1 := hsub k (by simp) f' (by omega) (by omega)
    have hsub' : ∀ k' ∈ ks, ∀ f, M ≤ f → f < F → TermOut Q root (findD f root sp false false (k' :: toks) par rl found) :=
      fun k' hk' => hsub k' (by simp [hk'])
    split
    · rename_i e he; rw [he] at h1; exact h1
    · rename_i root' r hr
      rw [hr] at h1
      obtain ⟨hroot', hq⟩ := h1
      subst hroot'
      split
      · refine ih _ _ f' (by omega) (by omega) hsub' ?_
        intro r' hr'
        split at hr'
        · cases hr'; exact hfst _ rfl
        · cases hr'; exact hq
      · exact ih _ _ f' (by omega) (by omega) hsub' hfst

theorem term_split_star : splitNameIndex (bracket ['*']) = .ok ([], .str ['*']) := by decide

/-- **implicit or explicit `[*]` on a list**: `[*] :: T` ends within `M + len + 3` if `T` ends
within `M` on every element -/
theorem term_fanout {Q : Res → Prop} (hQ : TermFstClosed Q) (root : Val) (sp : Pos) (entry rl : Bool) (T : List Str) (hT : T ≠ [])
    (par : PRef) (found : Str) (cls : Cls) (xs : List Val) (hpv : valOf root par = some (.list cls xs)) (M F : Nat)
    (hsub : ∀ j, j < xs.length → ∀ f, M ≤ f → f < F →
      TermOut Q root (findD f root sp false false T (childRef root par (.idx j)) rl (found ++ bracket (natStr j))))
    (hnf : Q { parent := par, nameIdx := Option.none, value := Val.none, found := found, notFound := some (bracket ['*'] :: T) })
    (f : Nat) (hf : M + xs.length + 3 ≤ f) (hfF : f ≤ F) :
    TermOut Q root (findD f root sp false entry (bracket ['*'] :: T) par rl found) := by
  obtain ⟨f', rfl⟩ : ∃ f', f = f' + 1 := ⟨f - 1, by omega⟩
  rw [findD]
  simp only [Bool.false_and, Bool.false_eq_true, if_false, hpv, term_split_star, List.isEmpty_nil, Idx.truthy,
    Bool.not_true, Bool.and_false, Bool.not_false, List.isEmpty_cons]
  have h1 : (['*'] : Str) ≠ sNew := by decide
  simp only [h1, if_false, if_true]
  refine term_starIdx hQ root sp rl xs.length T par found _ (M + 1) F ?_ hnf xs.length 0 [] Option.none f' (by omega) (by omega)
    (by omega) (fun _ h => by cases h)
  intro j hj f hf hfF'
  obtain ⟨f'', rfl⟩ : ∃ f'', f = f'' + 1 := ⟨f - 1, by omega⟩
  rw [term_idx_step f'' root sp false rl par found j T hT cls xs hpv hj]
  exact hsub j hj f'' (by omega) (by omega)

/-! ### single steps, for any token with a known parse -/

/-- a name token on a list: `[*]` is inserted in front -/
theorem term_key_list_step (f : Nat) (root : Val) (sp : Pos) (entry rl : Bool) (par : PRef) (found tok name : Str) (idx : Idx)
    (rest : List Str) (cls : Cls) (xs : List Val) (hpv : valOf root par = some (.list cls xs))
    (hsplit : splitNameIndex tok = .ok (name, idx)) (hne : name ≠ []) (hup : name ≠ ['.', '.']) :
    findD (f + 1) root sp false entry (tok :: rest) par rl found
      = findD f root sp false false (bracket ['*'] :: tok :: rest) par rl found := by
  have h0 : name.isEmpty = false := isEmpty_false_of_ne hne
  rw [findD]
  simp only [Bool.false_and, Bool.false_eq_true, if_false, hpv, hsplit, h0, Bool.not_false, hup, if_true, isList]

/-- where a found key continues, by the form of its index -/
def termKeyCont (f : Nat) (root : Val) (sp : Pos) (rl : Bool) (par : PRef) (found name : Str) (rest : List Str) :
    Idx → PyM (Val × Res)
  | .none => findD f root sp false false rest (childRef root par (.key name)) rl (found ++ slash ++ name)
  | .str s => findD f root sp false false (bracket s :: rest) (childRef root par (.key name)) rl (found ++ slash ++ name)
  | .cond k op v =>
    findD f root sp false false (bracket (k ++ op ++ ['\''] ++ condValStr v ++ ['\'']) :: rest)
      (childRef root par (.key name)) rl (found ++ slash ++ name)

/-- a name token (not `..`, not `*`) on a dict -/
theorem term_key_dict_step (f : Nat) (root : Val) (sp : Pos) (entry rl : Bool) (par : PRef) (found tok name : Str) (idx : Idx)
    (rest : List Str) (c : Cls) (kvs : List (Str × Val)) (hpv : valOf root par = some (.dict c kvs))
    (hsplit : splitNameIndex tok = .ok (name, idx)) (hne : name ≠ []) (hup : name ≠ ['.', '.']) (hstar : name ≠ ['*']) :
    findD (f + 1) root sp false entry (tok :: rest) par rl found =
      match lookup name kvs with
      | Option.none =>
        .ok (root, { parent := par, nameIdx := Option.none, value := Val.none, found := found, notFound := some (tok :: rest) })
      | some cv =>
        if rest.isEmpty && idx = .none then
          .ok (root, { parent := par, nameIdx := some name, value := cv, found := found ++ slash ++ name, notFound := Option.none })
        else termKeyCont f root sp rl par found name rest idx := by
  have h0 : name.isEmpty = false := isEmpty_false_of_ne hne
  rw [findD]
  simp only [Bool.false_and, Bool.false_eq_true, if_false, hpv, hsplit, h0, Bool.not_false, hup, if_true, isList, isDict,
    Bool.not_true, hstar]
  cases idx <;> rfl

/-- the possible outcomes of a pure index step `[s]` with `n0eval s = i` -/
theorem term_pure_idx (f : Nat) (root : Val) (sp : Pos) (entry rl : Bool) (par : PRef) (found tok s : Str) (i : Int)
    (rest : List Str) (pv : Val) (hpv : valOf root par = some pv)
    (hsplit : splitNameIndex tok = .ok ([], .str s)) (hne : s ≠ []) (hnew : s ≠ sNew) (hstar : s ≠ ['*'])
    (hev : n0eval s = .ok (.int i)) :
    ∃ par', ((isList pv = true ∧ par' = par) ∨ (isList pv = false ∧ par' = .wrap par)) ∧
      ((∃ e, findD (f + 1) root sp false entry (tok :: rest) par rl found = .error e ∧ e ≠ .OutOfFuel) ∨
       (∃ v nf, findD (f + 1) root sp false entry (tok :: rest) par rl found =
          .ok (root, { parent := par', nameIdx := some (bracket (intStr i)), value := v, found := found, notFound := nf })) ∨
       (∃ n, rest ≠ [] ∧ findD (f + 1) root sp false entry (tok :: rest) par rl found =
          findD f root sp false false rest (childRef root par' (.idx n)) rl (found ++ bracket (intStr i)))) := by
  have h0 : s.isEmpty = false := isEmpty_false_of_ne hne
  cases pv with
  | list c xs =>
    refine ⟨par, Or.inl ⟨rfl, rfl⟩, ?_⟩
    rw [findD]
    simp only [Bool.false_and, Bool.false_eq_true, if_false, hpv, hsplit, List.isEmpty_nil, Idx.truthy, h0, Bool.not_false,
      Bool.and_false, Bool.not_true, hnew, hstar, hev]
    split
    · exact Or.inr (Or.inl ⟨_, _, rfl⟩)
    · split
      · exact Or.inl ⟨_, rfl, by decide⟩
      · split
        · exact Or.inr (Or.inl ⟨_, _, rfl⟩)
        · rename_i n _ hr
          exact Or.inr (Or.inr ⟨n, by intro h; subst h; simp at hr, rfl⟩)
  | _ =>
    refine ⟨.wrap par, Or.inr ⟨rfl, rfl⟩, ?_⟩
    rw [findD]
    simp only [Bool.false_and, Bool.false_eq_true, if_false, hpv, hsplit, List.isEmpty_nil, Idx.truthy, h0, Bool.not_false,
      Bool.and_false, Bool.not_true, hnew, hstar, hev]
    split
    · exact Or.inr (Or.inl ⟨_, _, rfl⟩)
    · split
      · exact Or.inl ⟨_, rfl, by decide⟩
      · split
        · exact Or.inr (Or.inl ⟨_, _, rfl⟩)
        · rename_i n _ hr
          exact Or.inr (Or.inr ⟨n, by intro h; subst h; simp at hr, rfl⟩)

/-- the value behind the parent of a pure index step, and of the element below it -/
theorem term_idx_parent {H W : Nat} (hW : 1 ≤ W) {root : Val} {par par' : PRef} {pv : Val} (hpv : valOf root par = some pv)
    (hb : TermRef H W root par)
    (hp : (isList pv = true ∧ par' = par) ∨ (isList pv = false ∧ par' = .wrap par)) :
    TermRef H W root par' ∧ ∀ n c, valOf root (childRef root par' (.idx n)) = some c → termHgt c ≤ termHgt pv ∧ termHgt c ≤ H := by
  rcases hp with ⟨_, rfl⟩ | ⟨hl, rfl⟩
  · refine ⟨hb, fun n c hc => ?_⟩
    have := term_childRef_hgt (hb pv hpv) hpv hc
    omega
  · have hw := TermRef_wrap hW hb hpv hl
    refine ⟨hw, fun n c hc => ?_⟩
    have hv : valOf root (.wrap par) = some (Val.list .plain [pv]) := by simp [valOf, hpv]
    have := term_childRef_hgt (hw _ hv) hv hc
    simp only [termHgt, termHgtL] at this
    omega

end N0.XPath
