import N0Verif.Proofs.XPathResolve
/-!
  List-rooted containers (`n0list._find`): a leading index token is walked by `findL`, which hands a
  dict element to `n0dict._find` with `self` = the list the search started from (`dispatchD`, fix C06-f: `sp` stays the
  position of the root; it was the element's position).  The tree layer of `Proofs/XPathTree.lean` is restated here for an arbitrary `sp`
  (the `sp` argument is only used by the `..`, `new()` and empty-token branches, which a spelling
  never reaches).
-/
namespace N0.XPath
open N0 N0.Py N0.Val

/-! ### step lemmas of `findD` for an arbitrary `self` position -/

theorem find_key_last_sp (fuel : Nat) (root : Val) (sp : Pos) (entry rl : Bool) (q : Pos) (found tok : Str)
    (cls : Cls) (kvs : List (Str × Val)) (c : Val)
    (hq : getAt root q = some (.dict cls kvs)) (hk : KeyTok tok) (hl : lookup tok kvs = some c) :
    findD (fuel + 1) root sp false entry [tok] (.at q) rl found
      = .ok (root, { parent := .at q, nameIdx := some tok, value := c, found := found ++ slash ++ tok, notFound := Option.none }) := by
  have hne : tok.isEmpty = false := isEmpty_false_of_ne hk.ne
  rw [findD]
  simp only [Bool.false_and, Bool.false_eq_true, if_false, valOf_at, hq, hk.split, hne, Bool.not_false,
    Idx.truthy, hk.notUp, hk.notStar, isList, isDict, Bool.not_true, hl,
    List.isEmpty_nil, Bool.and_self, decide_true, ite_true]

theorem find_key_step_sp (fuel : Nat) (root : Val) (sp : Pos) (entry rl : Bool) (q : Pos) (found tok : Str)
    (rest : List Str) (cls : Cls) (kvs : List (Str × Val)) (c : Val) (hrest : rest ≠ [])
    (hq : getAt root q = some (.dict cls kvs)) (hk : KeyTok tok) (hl : lookup tok kvs = some c) :
    findD (fuel + 1) root sp false entry (tok :: rest) (.at q) rl found
      = findD fuel root sp false false rest (.at (q ++ [.key tok])) rl (found ++ slash ++ tok) := by
  have hne : tok.isEmpty = false := isEmpty_false_of_ne hk.ne
  have hr : rest.isEmpty = false := isEmpty_false_of_ne hrest
  rw [findD]
  simp only [Bool.false_and, Bool.false_eq_true, if_false, valOf_at, hq, hk.split, hne, Bool.not_false,
    Idx.truthy, hk.notUp, hk.notStar, isList, isDict, Bool.not_true, hl, hr, childRef, if_true]

theorem find_keyidx_step_sp (fuel : Nat) (root : Val) (sp : Pos) (entry rl : Bool) (q : Pos) (found tok k e : Str)
    (i : Int) (rest : List Str) (cls : Cls) (kvs : List (Str × Val)) (c : Val)
    (hq : getAt root q = some (.dict cls kvs)) (hk : KeyIdxTok tok k e i) (hl : lookup k kvs = some c) :
    findD (fuel + 1) root sp false entry (tok :: rest) (.at q) rl found
      = findD fuel root sp false false (bracket e :: rest) (.at (q ++ [Seg.key k])) rl (found ++ slash ++ k) := by
  have hne : k.isEmpty = false := isEmpty_false_of_ne hk.kne
  rw [findD]
  simp only [Bool.false_and, Bool.false_eq_true, if_false, valOf_at, hq, hk.split, hne, Bool.not_false,
    Idx.truthy, hk.notUp, hk.notStar, isList, isDict, Bool.not_true, hl, childRef]
  simp

theorem find_idx_last_sp (fuel : Nat) (root : Val) (sp : Pos) (entry rl : Bool) (q : Pos) (found tok e : Str)
    (i : Int) (cls : Cls) (xs : List Val) (n : Nat) (c : Val)
    (hq : getAt root q = some (.list cls xs)) (hk : IdxTok tok e i)
    (hn : normIdx i xs.length = some n) (hx : xs[n]? = some c) :
    findD (fuel + 1) root sp false entry [tok] (.at q) rl found
      = .ok (root, { parent := .at q, nameIdx := some (bracket (intStr i)), value := c, found := found, notFound := Option.none }) := by
  have hne : e.isEmpty = false := isEmpty_false_of_ne hk.ne
  have hrange := normIdx_range hn
  rw [findD]
  simp only [Bool.false_and, Bool.false_eq_true, if_false, valOf_at, hq, hk.split, List.isEmpty_nil,
    Idx.truthy, hne, Bool.not_false, Bool.and_false, Bool.not_true, hk.notNew, hk.notStar, hk.eval]
  simp only [not_or] at hrange
  simp [hrange.1, hrange.2, hn, hx]

theorem find_idx_step_sp (fuel : Nat) (root : Val) (sp : Pos) (entry rl : Bool) (q : Pos) (found tok e : Str)
    (i : Int) (rest : List Str) (hrest : rest ≠ [])
    (cls : Cls) (xs : List Val) (n : Nat)
    (hq : getAt root q = some (.list cls xs)) (hk : IdxTok tok e i)
    (hn : normIdx i xs.length = some n) :
    findD (fuel + 1) root sp false entry (tok :: rest) (.at q) rl found
      = findD fuel root sp false false rest (.at (q ++ [.idx n])) rl (found ++ bracket (intStr i)) := by
  have hne : e.isEmpty = false := isEmpty_false_of_ne hk.ne
  have hr : rest.isEmpty = false := isEmpty_false_of_ne hrest
  have hrange := normIdx_range hn
  rw [findD]
  simp only [Bool.false_and, Bool.false_eq_true, if_false, valOf_at, hq, hk.split, List.isEmpty_nil,
    Idx.truthy, hne, Bool.not_false, Bool.and_false, Bool.not_true, hk.notNew, hk.notStar, hk.eval]
  simp only [not_or] at hrange
  simp [hrange.1, hrange.2, hn, hr, childRef]

/-- `FoundAt` below a deeper start is `FoundAt` from the shallower one -/
theorem FoundAt.cons {root : Val} {q : Pos} {s : Seg} {p : Pos} {c : Val} {r : Res}
    (h : FoundAt root (q ++ [s]) p c r) : FoundAt root q (s :: p) c r := by
  obtain ⟨hv, hnf, pp, s', pv, ni, hp, hpar, hpv, hni, hname⟩ := h
  exact ⟨hv, hnf, s :: pp, s', pv, ni, by simp [hp], by simpa using hpar, by simpa using hpv, hni, hname⟩

/-- **Tree layer, arbitrary `self`.**  `find_spells` with `sp` general. -/
theorem find_spells_sp (root : Val) (rl : Bool) (sp : Pos) {toks : List Str} {v : Val} {p : Pos} {c : Val}
    (h : Spells toks v p c) : toks ≠ [] → ∀ (fuel : Nat) (q : Pos) (found : Str) (entry : Bool),
      getAt root q = some v → fuel ≥ 2 * toks.length →
      ∃ r, findD fuel root sp false entry toks (.at q) rl found = .ok (root, r) ∧ FoundAt root q p c r := by
  induction h with
  | nil v => intro h; exact absurd rfl h
  | @key tok rest cls kvs c p d hk hl hs ih =>
    intro _ fuel q found entry hq hf
    obtain ⟨f, rfl⟩ : ∃ f, fuel = f + 1 := ⟨fuel - 1, by simp at hf; omega⟩
    by_cases hrest : rest = []
    · subst hrest
      obtain ⟨rfl, rfl⟩ := hs.nil_inv
      rw [find_key_last_sp f root sp entry rl q found tok cls kvs _ hq hk hl]
      refine ⟨_, rfl, rfl, rfl, [], .key tok, .dict cls kvs, tok, by simp, by simp, by simpa using hq, rfl, .key⟩
    · rw [find_key_step_sp f root sp entry rl q found tok rest cls kvs c hrest hq hk hl]
      have hq' : getAt root (q ++ [.key tok]) = some c := by
        rw [getAt_snoc, hq]; simp [child, hl]
      obtain ⟨r, hr, hv, hnf, pp, s, pv, ni, hp, hpar, hpv, hni, hname⟩ :=
        ih hrest f (q ++ [.key tok]) (found ++ slash ++ tok) false hq' (by simp at hf ⊢; omega)
      refine ⟨r, hr, hv, hnf, .key tok :: pp, s, pv, ni, by simp [hp], by simpa using hpar, by simpa using hpv, hni, hname⟩
  | @idx tok e i rest cls xs n c p d hk hn hx hs ih =>
    intro _ fuel q found entry hq hf
    obtain ⟨f, rfl⟩ : ∃ f, fuel = f + 1 := ⟨fuel - 1, by simp at hf; omega⟩
    by_cases hrest : rest = []
    · subst hrest
      obtain ⟨rfl, rfl⟩ := hs.nil_inv
      rw [find_idx_last_sp f root sp entry rl q found tok e i cls xs n _ hq hk hn hx]
      refine ⟨_, rfl, rfl, rfl, [], .idx n, .list cls xs, _, by simp, by simp, by simpa using hq, rfl, .idx hn⟩
    · rw [find_idx_step_sp f root sp entry rl q found tok e i rest hrest cls xs n hq hk hn]
      have hq' : getAt root (q ++ [.idx n]) = some c := by
        rw [getAt_snoc, hq]; simp [child, hx]
      obtain ⟨r, hr, hv, hnf, pp, s, pv, ni, hp, hpar, hpv, hni, hname⟩ :=
        ih hrest f (q ++ [.idx n]) _ false hq' (by simp at hf ⊢; omega)
      refine ⟨r, hr, hv, hnf, .idx n :: pp, s, pv, ni, by simp [hp], by simpa using hpar, by simpa using hpv, hni, hname⟩
  | @keyIdx tok k e i rest cls kvs cls' xs n c p d hk hl hn hx hs ih =>
    intro _ fuel q found entry hq hf
    obtain ⟨f, rfl⟩ : ∃ f, fuel = f + 2 := ⟨fuel - 2, by simp at hf; omega⟩
    rw [find_keyidx_step_sp (f + 1) root sp entry rl q found tok k e i rest cls kvs _ hq hk hl]
    have hq1 : getAt root (q ++ [Seg.key k]) = some (.list cls' xs) := by
      rw [getAt_snoc, hq]; simp [child, hl]
    by_cases hrest : rest = []
    · subst hrest
      obtain ⟨rfl, rfl⟩ := hs.nil_inv
      rw [find_idx_last_sp f root sp false rl (q ++ [Seg.key k]) _ (bracket e) e i cls' xs n _ hq1 hk.inner hn hx]
      refine ⟨_, rfl, rfl, rfl, [.key k], .idx n, .list cls' xs, _, by simp, by simp, by simpa using hq1, rfl, .idx hn⟩
    · rw [find_idx_step_sp f root sp false rl (q ++ [Seg.key k]) _ (bracket e) e i rest hrest cls' xs n hq1 hk.inner hn]
      have hq' : getAt root (q ++ [Seg.key k] ++ [Seg.idx n]) = some c := by
        rw [getAt_snoc, hq1]; simp [child, hx]
      obtain ⟨r, hr, hv, hnf, pp, s, pv, ni, hp, hpar, hpv, hni, hname⟩ :=
        ih hrest f (q ++ [Seg.key k] ++ [Seg.idx n]) _ false hq' (by simp at hf ⊢; omega)
      refine ⟨r, hr, hv, hnf, .key k :: .idx n :: pp, s, pv, ni, by simp [hp], by simpa using hpar, by simpa using hpv, hni, hname⟩

/-! ### step lemmas of `findL` -/

theorem findL_idx_last (fuel : Nat) (root : Val) (sp : Pos) (rl : Bool) (q : Pos) (found tok e : Str)
    (i : Int) (cls : Cls) (xs : List Val) (n : Nat) (c : Val)
    (hq : getAt root q = some (.list cls xs)) (hk : IdxTok tok e i)
    (hn : normIdx i xs.length = some n) (hx : xs[n]? = some c) :
    findL (fuel + 1) root sp [tok] (.at q) rl found
      = .ok (root, { parent := .at q, nameIdx := some (bracket (intStr i)), value := c, found := found, notFound := Option.none }) := by
  have hrange := normIdx_range hn
  rw [findL]
  simp only [valOf_at, hq, hk.split, List.isEmpty_nil, Bool.not_true, Bool.false_eq_true, if_false,
    hk.notStar, hk.eval]
  simp only [not_or] at hrange
  simp [hrange.1, hrange.2, hn, hx]

theorem findL_idx_step_dict (fuel : Nat) (root : Val) (sp : Pos) (rl : Bool) (q : Pos) (found tok e : Str)
    (i : Int) (rest : List Str) (hrest : rest ≠ []) (cls : Cls) (xs : List Val) (n : Nat)
    (dc : Cls) (kvs : List (Str × Val))
    (hq : getAt root q = some (.list cls xs)) (hk : IdxTok tok e i)
    (hn : normIdx i xs.length = some n) (hx : xs[n]? = some (.dict dc kvs)) :
    findL (fuel + 1) root sp (tok :: rest) (.at q) rl found
      = findD fuel root sp false true rest (.at (q ++ [.idx n])) rl (found ++ bracket (intStr i)) := by
  have hr : rest.isEmpty = false := isEmpty_false_of_ne hrest
  have hrange := normIdx_range hn
  rw [findL]
  simp only [valOf_at, hq, hk.split, List.isEmpty_nil, Bool.not_true, Bool.false_eq_true, if_false,
    hk.notStar, hk.eval]
  simp only [not_or] at hrange
  simp [hrange.1, hrange.2, hn, hx, hr, childRef, dispatchD, refPos]

theorem findL_idx_step_list (fuel : Nat) (root : Val) (sp : Pos) (rl : Bool) (q : Pos) (found tok e : Str)
    (i : Int) (rest : List Str) (hrest : rest ≠ []) (cls : Cls) (xs : List Val) (n : Nat)
    (lc : Cls) (ys : List Val)
    (hq : getAt root q = some (.list cls xs)) (hk : IdxTok tok e i)
    (hn : normIdx i xs.length = some n) (hx : xs[n]? = some (.list lc ys)) :
    findL (fuel + 1) root sp (tok :: rest) (.at q) rl found
      = findL fuel root sp rest (.at (q ++ [.idx n])) rl (found ++ bracket (intStr i)) := by
  have hr : rest.isEmpty = false := isEmpty_false_of_ne hrest
  have hrange := normIdx_range hn
  rw [findL]
  simp only [valOf_at, hq, hk.split, List.isEmpty_nil, Bool.not_true, Bool.false_eq_true, if_false,
    hk.notStar, hk.eval]
  simp only [not_or] at hrange
  simp [hrange.1, hrange.2, hn, hx, hr, childRef]

/-- **Tree layer for a list node.**  A token list that spells position `p` below the *list* at `q`
makes `n0list._find` return exactly the node at `q ++ p`: index tokens are walked by `findL`
itself (also through nested lists), the first dict element is handed to `n0dict._find`. -/
theorem findL_spells (root : Val) (rl : Bool) (sp : Pos) {toks : List Str} {v : Val} {p : Pos} {c : Val}
    (h : Spells toks v p c) : toks ≠ [] → ∀ (fuel : Nat) (q : Pos) (found : Str),
      (∃ cls xs, v = .list cls xs) → getAt root q = some v → fuel ≥ 2 * toks.length →
      ∃ r, findL fuel root sp toks (.at q) rl found = .ok (root, r) ∧ FoundAt root q p c r := by
  induction h with
  | nil v => intro h; exact absurd rfl h
  | key _ _ _ _ => intro _ _ _ _ hl; obtain ⟨_, _, h⟩ := hl; cases h
  | keyIdx _ _ _ _ _ _ => intro _ _ _ _ hl; obtain ⟨_, _, h⟩ := hl; cases h
  | @idx tok e i rest cls xs n c p d hk hn hx hs ih =>
    intro _ fuel q found _ hq hf
    obtain ⟨f, rfl⟩ : ∃ f, fuel = f + 1 := ⟨fuel - 1, by simp at hf; omega⟩
    by_cases hrest : rest = []
    · subst hrest
      obtain ⟨rfl, rfl⟩ := hs.nil_inv
      rw [findL_idx_last f root sp rl q found tok e i cls xs n _ hq hk hn hx]
      refine ⟨_, rfl, rfl, rfl, [], .idx n, .list cls xs, _, by simp, by simp, by simpa using hq, rfl, .idx hn⟩
    · have hq' : getAt root (q ++ [.idx n]) = some c := by
        rw [getAt_snoc, hq]; simp [child, hx]
      have hf' : f ≥ 2 * rest.length := by simp at hf; omega
      cases c with
      | dict dc kvs =>
        rw [findL_idx_step_dict f root sp rl q found tok e i rest hrest cls xs n dc kvs hq hk hn hx]
        obtain ⟨r, hr, hfound⟩ := find_spells_sp root rl sp hs hrest f (q ++ [.idx n]) _ true hq' hf'
        exact ⟨r, hr, hfound.cons⟩
      | list lc ys =>
        rw [findL_idx_step_list f root sp rl q found tok e i rest hrest cls xs n lc ys hq hk hn hx]
        obtain ⟨r, hr, hfound⟩ := ih hrest f (q ++ [.idx n]) _ ⟨lc, ys, rfl⟩ hq' hf'
        exact ⟨r, hr, hfound.cons⟩
      | _ => cases hs; exact absurd rfl hrest

/-! ### tokenisation of a canonical path that starts with an index -/

theorem tokenize_render_idx (n : Nat) (rest : Pos) (hp : PlainPos rest) :
    tokenize (renderPos (.idx n :: rest)) = mergedToks (.idx n :: rest) := by
  have hp' : PlainPos (.idx n :: rest) := hp
  unfold tokenize
  rw [(fixBr_render _ hp').1]
  have h0 := splitChar_pieces (.idx n :: rest) hp' [] false (by simp)
  simp only [List.nil_append] at h0
  change clean (splitChar '/' (renderF false (.idx n :: rest))) = _
  rw [h0]
  simp only [pieces, List.nil_append]
  rw [(clean_pieces rest hp).2 _ (bracket_ne_nil _) (bracket_stripWs n)]
  simp [mergedToks]

/-! ### `_get` on a path text whose tokens spell a position -/

/-- list receiver: any text (not starting with '?', containing '/' or '[') whose tokens spell `p` -/
theorem getCore_list_path (fuel : Nat) (cls : Cls) (xs : List Val) (xp : Str) (d : Val) (raise rl : Bool)
    (p : Pos) (c : Val)
    (hq : startsWith xp ['?'] = false) (hpc : hasPathChar xp = true)
    (hs : Spells (tokenize xp) (.list cls xs) p c) (hne : tokenize xp ≠ [])
    (hf : fuel ≥ 2 * (tokenize xp).length) :
    getCore fuel (.list cls xs) xp d raise rl = (.list cls xs, .ok c) := by
  obtain ⟨r, hr, hv, hnf, _⟩ := findL_spells (.list cls xs) rl [] hs hne fuel [] slash ⟨cls, xs, rfl⟩ rfl hf
  have hxe : xp.isEmpty = false := by
    cases xp with
    | nil => simp [hasPathChar] at hpc
    | cons _ _ => rfl
  have hfound : r.isFound = true := by simp [Res.isFound, hnf]
  simp only [getCore, hxe, Bool.false_eq_true, if_false, hq, hpc, if_true]
  rw [hr]
  simp [hfound, hv]

/-- dict receiver: the same statement through `n0dict._find` -/
theorem getCore_dict_path (fuel : Nat) (cls : Cls) (kvs : List (Str × Val)) (xp : Str) (d : Val) (raise rl : Bool)
    (p : Pos) (c : Val)
    (hq : startsWith xp ['?'] = false) (hpc : hasPathChar xp = true)
    (hs : Spells (tokenize xp) (.dict cls kvs) p c) (hne : tokenize xp ≠ [])
    (hf : fuel ≥ 2 * (tokenize xp).length) :
    getCore fuel (.dict cls kvs) xp d raise rl = (.dict cls kvs, .ok c) := by
  obtain ⟨r, hr, hv, hnf, _⟩ := find_spells (.dict cls kvs) rl hs hne fuel [] slash true rfl hf
  have hfound : r.isFound = true := by simp [Res.isFound, hnf]
  simp only [getCore, hq, Bool.false_eq_true, if_false, hpc, if_true]
  rw [hr]
  simp [hfound, hv]

/-- list receiver, bare index text (no '/' and no '['): `n0eval` and plain Python indexing -/
theorem getCore_list_bare (fuel : Nat) (cls : Cls) (xs : List Val) (xp : Str) (d : Val) (raise rl : Bool)
    (i : Int) (n : Nat) (c : Val)
    (hxe : xp ≠ []) (hq : startsWith xp ['?'] = false) (hpc : hasPathChar xp = false)
    (hev : n0eval xp = .ok (.int i)) (hn : normIdx i xs.length = some n) (hx : xs[n]? = some c) :
    getCore fuel (.list cls xs) xp d raise rl = (.list cls xs, .ok c) := by
  have hxe' : xp.isEmpty = false := isEmpty_false_of_ne hxe
  simp only [getCore, hxe', Bool.false_eq_true, if_false, hq, hpc, hev, hn]
  simp [hx]

/-! ### bare index texts -/

/-- characters of the bare index spellings: digits, `-`, `+` and the letters of `last()` -/
def bareChar (c : Char) : Bool :=
  isAsciiDigit c || c = '-' || c = '+' || c = 'l' || c = 'a' || c = 's' || c = 't' || c = '(' || c = ')'

theorem bareChar_ne {c : Char} (h : bareChar c = true) : c ≠ '/' ∧ c ≠ '[' ∧ c ≠ '?' := by
  refine ⟨?_, ?_, ?_⟩ <;> (intro heq; subst heq; revert h; decide)

theorem bareChar_digit {c : Char} (h : isAsciiDigit c = true) : bareChar c = true := by
  simp [bareChar, h]

theorem sLast_eq : sLast = ['l', 'a', 's', 't', '(', ')'] := by decide

theorem bare_facts {s : Str} (hne : s ≠ []) (h : ∀ c ∈ s, bareChar c = true) :
    startsWith s ['?'] = false ∧ hasPathChar s = false := by
  constructor
  · cases s with
    | nil => exact absurd rfl hne
    | cons c s =>
      have := (bareChar_ne (h c (by simp))).2.2
      simp [startsWith, this]
  · unfold hasPathChar
    rw [contains_false_of_forall s '/' (fun c hc => (bareChar_ne (h c hc)).1),
      contains_false_of_forall s '[' (fun c hc => (bareChar_ne (h c hc)).2.1)]
    rfl

theorem natStr_bare (n : Nat) : ∀ c ∈ natStr n, bareChar c = true :=
  fun c hc => bareChar_digit (natDigits_all_digit n c hc)

end N0.XPath
